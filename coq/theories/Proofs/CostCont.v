(** * C07/C08, container layer: every container box terminates with the fuel the reader hands
      down and costs at most a linear function of its size.

    [dspec]/[fspec]: the contract ([ispec], CostLoop.v) of a decoder called right after a header,
    for all call sites the loops can produce.  [std_container]: the contract of a container of the
    standard shape (box_start; get_pos; start+size; child loop; tail) from the contracts of its
    children: [(a, b) |-> (2a + b + 19, b + 22)]. *)
From MP4 Require Import Cost CostLoop Loop.
From Coq Require Import ZArith ZifyN ZifyNat ZifyBool Lia.
Open Scope N_scope.

Section Cont.
  Variable d : bytes.
  Hypothesis Hd : bytes_ok d = true.
  Hypothesis Hlen : lenN d < 2 ^ 62.

  Definition dspec {A} (dec : N -> prog A) (a b al bl : N) : Prop :=
    forall p s, 8 <= p -> p <= lenN d -> s < 2 ^ 62 ->
      ispec d (dec s) p s (a * s + b) (al * s + bl).

  Definition fspec {A} (dec : nat -> N -> prog A) (a b al bl : N) : Prop :=
    forall f p s, 8 <= p -> p <= lenN d -> s < 2 ^ 62 -> fuel_ok d f p ->
      ispec d (dec f s) p s (a * s + b) (al * s + bl).

  Lemma dspec_of_leaf {A} (dec : N -> prog A) a b al bl :
    (forall s, bnd (dec s) (a * s + b) (al * s + bl)) -> leaf_sat dec -> dspec dec a b al bl.
  Proof.
    intros Hb Hs p s H8 Hp Hsz. apply ispec_leaf; [exact Hd|apply Hb|]. now apply Hs.
  Qed.

  Lemma fspec_of_dspec {A} (dec : N -> prog A) a b al bl :
    dspec dec a b al bl -> fspec (fun _ => dec) a b al bl.
  Proof. intros H f p s H8 Hp Hs _. now apply H. Qed.

  Lemma ispec_mono {A} (c : prog A) p s a b al bl a' b' al' bl' :
    ispec d c p s (a * s + b) (al * s + bl) -> a <= a' -> b <= b' -> al <= al' -> bl <= bl' ->
    ispec d c p s (a' * s + b') (al' * s + bl').
  Proof.
    intros H H1 H2 H3 H4. eapply ispec_weaken; [exact H| |].
    - assert (a * s <= a' * s) by (apply N.mul_le_mono_r; exact H1). lia.
    - assert (al * s <= al' * s) by (apply N.mul_le_mono_r; exact H3). lia.
  Qed.

  (** *** the three calls that open every container *)
  Lemma mrun_box_start m p : 8 <= p ->
    exists k, mrun (box_start m) d p = (Ok (p - 8), p, k) /\ cwork k = 1 /\ c_asum k = 0.
  Proof.
    intros H. unfold box_start, get_pos. cbn [bind]. rewrite mrun_GetPos.
    unfold sub64. rewrite sub_w_ok by (unfold HEADER_SIZE, Tables.HEADER_SIZE; lia).
    rewrite mrun_lift. eexists. split; [reflexivity|]. split; reflexivity.
  Qed.

  Lemma mrun_get_pos p :
    exists k, mrun get_pos d p = (Ok p, p, k) /\ cwork k = 1 /\ c_asum k = 0.
  Proof.
    unfold get_pos. rewrite mrun_GetPos, mrun_Ret. eexists. split; [reflexivity|]. split; reflexivity.
  Qed.

  Lemma mrun_add64_ok m site x y p : x + y < U64 -> mrun (add64 m site x y) d p = (Ok (x + y), p, c0).
  Proof. intros H. unfold add64. rewrite add_w_ok by exact H. apply mrun_lift. Qed.

  (** *** the standard container *)
  Lemma std_container {Acc A} (dec : nat -> N -> prog A) m site
        (dispatch : nat -> boxtype -> N -> Acc -> prog Acc) acc0 (tail : N -> N -> Acc -> prog A)
        a b al bl :
    (forall f size, dec f size =
       (start <- box_start m ;; current <- get_pos ;; end_ <- add64 m site start size ;;
        acc <- children_loop f m (Some size) true end_ dispatch acc0 current ;;
        tail start size acc)) ->
    (forall f name s acc p size, 8 <= p -> p <= lenN d -> 1 <= s -> s <= size -> size < 2 ^ 62 ->
       fuel_ok d f p -> ispec d (dispatch f name s acc) p s (a * s + b) (al * s + bl)) ->
    (forall start size acc, bnd (tail start size acc) 1 0) ->
    (forall start size acc q, start + size < U64 ->
       sat d q (tail start size acc) (fun _ p' => p' = start + size)) ->
    fspec dec (2 * a + b + 19) (b + 22) (2 * al + bl) bl.
  Proof.
    intros Hshape Hdisp Htb Hts f p s H8 Hp Hs Hf. rewrite Hshape. unfold ispec.
    destruct (mrun_box_start m p H8) as (k1 & E1 & W1 & A1).
    rewrite mrun_bind, E1.
    destruct (mrun_get_pos p) as (k2 & E2 & W2 & A2).
    rewrite mrun_bind, E2.
    assert (Hov : p - 8 + s < U64) by (unfold U64; lia).
    rewrite mrun_bind, (mrun_add64_ok m site _ _ p Hov).
    rewrite mrun_bind. unfold children_loop.
    pose proof (loop_cost d Hd Hlen m s (p - 8 + s) (fun f _ => dispatch f) (fun x _ => x)
                          a b al bl Hs) as L.
    assert (HD : forall f cur name s0 acc p0, p0 = cur + 8 \/ p0 = cur + 16 -> p0 <= lenN d ->
                   1 <= s0 -> s0 <= s -> fuel_ok d f p0 ->
                   ispec d (dispatch f name s0 acc) p0 s0 (a * s0 + b) (al * s0 + bl)).
    { intros f0 cur name s0 acc p0 Hp0 Hp0l Hs1 Hs2 Hf0. apply (Hdisp f0 name s0 acc p0 s); auto.
      destruct Hp0; lia. }
    specialize (L HD f acc0 p Hf).
    destruct (mrun (children_loop_gen f m (Some s) true (p - 8 + s) (fun f0 _ => dispatch f0)
                                      (fun x _ => x) acc0 p) d p) as [[r3 p3] k3].
    destruct L as (L1 & L2 & L3).
    remember (p - 8 + s - p) as X eqn:EX.
    assert (HX : X <= s) by lia.
    assert (HK : (a + b + 19) * X <= (a + b + 19) * s) by (apply N.mul_le_mono_l; exact HX).
    assert (HK' : (al + bl) * X <= (al + bl) * s) by (apply N.mul_le_mono_l; exact HX).
    destruct r3 as [acc|e|x|]; [| | |congruence].
    2,3: rewrite !cwork_cadd, !casum_cadd, W1, W2, A1, A2;
         change (cwork c0) with 0; change (c_asum c0) with 0;
         (repeat split; [discriminate| | |discriminate]); clear -L2 L3 HK HK'; lia.
    pose proof (Htb (p - 8) s acc d p3 Hd) as T. pose proof (Hts (p - 8) s acc p3 Hov) as TS.
    destruct (mrun (tail (p - 8) s acc) d p3) as [[r4 p4] k4] eqn:E4.
    destruct T as (T1 & T2 & T3).
    rewrite !cwork_cadd, !casum_cadd, W1, W2, A1, A2. change (cwork c0) with 0. change (c_asum c0) with 0.
    split; [exact T1|]. split; [clear -L2 HK T2; lia|]. split; [clear -L3 HK' T3; lia|].
    destruct r4 as [v|e|x|]; cbn; try discriminate. intros _.
    exact (sat_mrun d p3 _ _ v p4 k4 TS E4).
  Qed.

  (** ** Cost and position together: [csat]/[cacc]

      [csat p c W Al Q]: run from [p], [c] does not run out of fuel, costs at most [W]/[Al] whatever
      the result, and on success [Q a p'] holds of the value and the final position.  [cacc] is
      the form with [w]/[a] already spent.  A [bnd] and a [sat] fact give a [csat] fact, so every
      rule of Hoare.v is available for the position part. *)
  Definition csat {A} (p : N) (c : prog A) (W Al : N) (Q : A -> N -> Prop) : Prop :=
    let '(r, p', k) := mrun c d p in
    r <> OutOfFuel /\ cwork k <= W /\ c_asum k <= Al /\ (forall x, r = Ok x -> Q x p').

  Definition cacc {A} (p w a : N) (c : prog A) (W Al : N) (Q : A -> N -> Prop) : Prop :=
    let '(r, p', k) := mrun c d p in
    r <> OutOfFuel /\ w + cwork k <= W /\ a + c_asum k <= Al /\ (forall x, r = Ok x -> Q x p').

  Lemma csat_of_cacc {A} p (c : prog A) W Al Q : cacc p 0 0 c W Al Q -> csat p c W Al Q.
  Proof. unfold cacc, csat. destruct (mrun c d p) as [[r p'] k]. auto. Qed.

  Lemma ispec_of_csat {A} (c : prog A) p s W Al :
    csat p c W Al (fun _ p' => p' = p - 8 + s) -> ispec d c p s W Al.
  Proof.
    unfold csat, ispec. destruct (mrun c d p) as [[r p'] k]. intros (H1 & H2 & H3 & H4).
    repeat split; auto. destruct r; cbn; try discriminate. intros _. now apply (H4 a).
  Qed.

  Lemma csat_of_ispec {A} (c : prog A) p s W Al :
    ispec d c p s W Al -> csat p c W Al (fun _ p' => p' = p - 8 + s).
  Proof.
    unfold csat, ispec. destruct (mrun c d p) as [[r p'] k]. intros (H1 & H2 & H3 & H4).
    repeat split; auto. intros x ->. now apply H4.
  Qed.

  Lemma csat_of {A} p (c : prog A) W Al Q : bnd c W Al -> sat d p c Q -> csat p c W Al Q.
  Proof.
    intros Hb Hs. unfold csat. specialize (Hb d p Hd).
    destruct (mrun c d p) as [[r p'] k] eqn:E. destruct Hb as (H1 & H2 & H3).
    repeat split; auto. intros x ->. exact (sat_mrun d p c Q x p' k Hs E).
  Qed.

  (** a state-independent bound alone: nothing is known about the final position *)
  Lemma csat_bnd {A} p (c : prog A) W Al : bnd c W Al -> csat p c W Al (fun _ _ => True).
  Proof.
    intros Hb. unfold csat. specialize (Hb d p Hd). destruct (mrun c d p) as [[r p'] k].
    destruct Hb as (H1 & H2 & H3). repeat split; auto.
  Qed.

  Lemma csat_conseq {A} p (c : prog A) W Al W' Al' (Q Q' : A -> N -> Prop) :
    csat p c W Al Q -> W <= W' -> Al <= Al' -> (forall x p', Q x p' -> Q' x p') -> csat p c W' Al' Q'.
  Proof.
    clear Hd Hlen.
    unfold csat. destruct (mrun c d p) as [[r p'] k]. intros (H1 & H2 & H3 & H4) Hw Ha HQ.
    repeat split; auto; try lia; try (intros x E; apply HQ; now apply H4).
  Qed.

  Lemma cacc_Ret {A} p w a (x : A) W Al (Q : A -> N -> Prop) :
    w <= W -> a <= Al -> Q x p -> cacc p w a (Ret x) W Al Q.
  Proof.
    clear Hd Hlen.
    intros Hw Ha HQ. unfold cacc. rewrite mrun_Ret. change (cwork c0) with 0. change (c_asum c0) with 0.
    repeat split; try lia; try discriminate. intros y [= <-]. exact HQ.
  Qed.
  Lemma cacc_Throw {A} p w a e W Al (Q : A -> N -> Prop) :
    w <= W -> a <= Al -> cacc p w a (Throw e) W Al Q.
  Proof.
    clear Hd Hlen.
    intros Hw Ha. unfold cacc. rewrite mrun_Throw. change (cwork c0) with 0. change (c_asum c0) with 0.
    repeat split; try lia; discriminate.
  Qed.
  Lemma cacc_Crash {A} p w a e W Al (Q : A -> N -> Prop) :
    w <= W -> a <= Al -> cacc p w a (Crash e) W Al Q.
  Proof.
    clear Hd Hlen.
    intros Hw Ha. unfold cacc. rewrite mrun_Crash. change (cwork c0) with 0. change (c_asum c0) with 0.
    repeat split; try lia; discriminate.
  Qed.

  Lemma cacc_bind {A B} p w a (c : prog A) (f : A -> prog B) W Al W1 A1 (R : A -> N -> Prop) Q :
    csat p c W1 A1 R -> w + W1 <= W -> a + A1 <= Al ->
    (forall x p1, R x p1 -> cacc p1 (w + W1) (a + A1) (f x) W Al Q) ->
    cacc p w a (bind c f) W Al Q.
  Proof.
    clear Hd Hlen.
    intros Hc Hw Ha Hf. unfold cacc. rewrite mrun_bind. unfold csat in Hc.
    destruct (mrun c d p) as [[r p1] k1]. destruct Hc as (H1 & H2 & H3 & H4).
    destruct r as [x|e|y|]; try (repeat split; try discriminate; lia); [|congruence].
    specialize (Hf x p1 (H4 x eq_refl)). unfold cacc in Hf.
    destruct (mrun (f x) d p1) as [[r2 p2] k2]. destruct Hf as (F1 & F2 & F3 & F4).
    rewrite cwork_cadd, casum_cadd. repeat split; auto; lia.
  Qed.

  Lemma cacc_assoc {A B C} p w a (c : prog A) (f : A -> prog B) (g : B -> prog C) W Al Q :
    cacc p w a (bind c (fun x => bind (f x) g)) W Al Q -> cacc p w a (bind (bind c f) g) W Al Q.
  Proof. unfold cacc. now rewrite mrun_bind_assoc. Qed.

  Lemma cacc_of_csat {A} p w a (c : prog A) W Al W1 A1 (R Q : A -> N -> Prop) :
    csat p c W1 A1 R -> w + W1 <= W -> a + A1 <= Al -> (forall x p1, R x p1 -> Q x p1) ->
    cacc p w a c W Al Q.
  Proof.
    clear Hd Hlen.
    unfold csat, cacc. destruct (mrun c d p) as [[r p'] k]. intros (H1 & H2 & H3 & H4) Hw Ha HQ.
    repeat split; auto; try lia; try (intros x E; apply HQ; now apply H4).
  Qed.

  (** a child decoder with an [ispec] contract, on the spine *)
  Lemma cacc_child {A B} p w a (c : prog A) (f : A -> prog B) W Al s W1 A1 Q :
    ispec d c p s W1 A1 -> w + W1 <= W -> a + A1 <= Al ->
    (forall x, cacc (p - 8 + s) (w + W1) (a + A1) (f x) W Al Q) ->
    cacc p w a (bind c f) W Al Q.
  Proof.
    intros Hc Hw Ha Hf. eapply cacc_bind; [apply csat_of_ispec; exact Hc|exact Hw|exact Ha|].
    cbn beta. intros x p1 ->. apply Hf.
  Qed.

  (** *** positional contracts of the primitives *)
  Lemma csat_rd_u p w : (0 < w)%nat ->
    csat p (rd_u w) (1 + N.of_nat w) 0
         (fun x p' => x < 256 ^ N.of_nat w /\ p' = p + N.of_nat w /\ p' <= lenN d).
  Proof.
    intros Hw. apply csat_of; [apply bnd_rd_u|]. apply sat_bind_ret. apply sat_rd_u; auto.
    intros x Hx Hp. now apply sat_ret.
  Qed.
  Lemma csat_rd_i p w : (0 < w)%nat ->
    csat p (rd_i w) (1 + N.of_nat w) 0 (fun _ p' => p' = p + N.of_nat w /\ p' <= lenN d).
  Proof.
    intros Hw. apply csat_of; [apply bnd_rd_i|]. apply sat_bind_ret. apply sat_rd_i; auto.
    intros x Hp. now apply sat_ret.
  Qed.
  Lemma csat_rd_vec p n :
    csat p (rd_vec n) (1 + n) n (fun l p' => lenN l = n /\ p' = p + n /\ (p' <= lenN d \/ n = 0)).
  Proof.
    apply csat_of; [apply bnd_rd_vec|]. apply sat_bind_ret. apply sat_rd_vec; auto.
    intros l Hl _ Hp. now apply sat_ret.
  Qed.
  Lemma csat_rd_arr p n :
    csat p (rd_arr n) (1 + n) 0 (fun l p' => lenN l = n /\ p' = p + n /\ (p' <= lenN d \/ n = 0)).
  Proof.
    apply csat_of; [apply bnd_rd_arr|]. apply sat_bind_ret. apply sat_rd_arr; auto.
    intros l Hl _ Hp. now apply sat_ret.
  Qed.
  Lemma csat_get_pos p : csat p get_pos 1 0 (fun x p' => x = p /\ p' = p).
  Proof. apply csat_of; [apply bnd_get_pos|]. unfold get_pos. apply sat_GetPos. now apply sat_ret. Qed.
  Lemma csat_box_start m p : 8 <= p -> csat p (box_start m) 1 0 (fun x p' => x = p - 8 /\ p' = p).
  Proof.
    intros H. apply csat_of; [apply bnd_box_start|]. apply sat_bind_ret. apply sat_box_start; auto.
    now apply sat_ret.
  Qed.
  Lemma csat_skip_bytes_to p q : csat p (skip_bytes_to q) 1 0 (fun _ p' => p' = q).
  Proof.
    apply csat_of; [apply bnd_skip_bytes_to|]. apply sat_bind_ret. apply sat_skip_bytes_to.
    now apply sat_ret.
  Qed.
  Lemma csat_seek_to p q : csat p (seek_to q) 1 0 (fun _ p' => p' = q).
  Proof. apply csat_skip_bytes_to. Qed.
  Lemma csat_skip_bytes p n : n < 2 ^ 63 -> csat p (skip_bytes n) 1 0 (fun _ p' => p' = p + n).
  Proof.
    intros Hn. apply csat_of; [apply bnd_skip_bytes|]. apply sat_bind_ret. apply sat_skip_bytes.
    intros p' _ H. apply sat_ret. auto.
  Qed.
  Lemma csat_seek_rel p dz : csat p (seek_rel dz) 1 0 (fun _ p' => Z.of_N p' = (Z.of_N p + dz)%Z).
  Proof.
    apply csat_of; [apply bnd_seek_rel|]. unfold seek_rel. apply sat_SeekRel. intros H.
    apply sat_ret. lia.
  Qed.
  Lemma csat_skip_box m p s : 8 <= p -> p - 8 + s < U64 ->
    csat p (skip_box m s) 2 0 (fun _ p' => p' = p - 8 + s).
  Proof.
    intros H8 Hs. apply csat_of; [apply bnd_skip_box|]. apply sat_bind_ret. apply sat_skip_box; auto.
    now apply sat_ret.
  Qed.
  Lemma csat_alloc p n : csat p (alloc n) 0 n (fun _ p' => p' = p).
  Proof. apply csat_of; [apply bnd_alloc|]. unfold alloc. apply sat_Alloc. now apply sat_ret. Qed.
  Lemma csat_step p : csat p step 1 0 (fun _ p' => p' = p).
  Proof. apply csat_of; [apply bnd_step|]. unfold step. apply sat_Step. now apply sat_ret. Qed.
  Lemma csat_read_header_ext p :
    csat p read_header_ext 6 0 (fun _ p' => p' = p + 4 /\ p' <= lenN d).
  Proof.
    apply csat_of; [apply bnd_read_header_ext|]. apply sat_bind_ret. apply sat_read_header_ext; auto.
    intros v f _ _ Hp. now apply sat_ret.
  Qed.
  Lemma csat_read_header p :
    csat p read_header 18 0 (fun _ p' => (p' = p + 8 \/ p' = p + 16) /\ p' <= lenN d).
  Proof. apply csat_of; [apply bnd_read_header|]. now apply read_header_pos. Qed.

  (** a pure fixed-width computation: the value is known when it does not fail *)
  Lemma csat_lift {A} p (r : res A) : r <> OutOfFuel ->
    csat p (lift r) 0 0 (fun x p' => r = Ok x /\ p' = p).
  Proof.
    clear Hd Hlen.
    intros H. unfold csat. rewrite mrun_lift. change (cwork c0) with 0. change (c_asum c0) with 0.
    repeat split; auto; try lia; try (now intros x ->).
  Qed.
  Lemma csat_add64 m site x y p :
    csat p (add64 m site x y) 0 0 (fun v p' => (x + y < U64 -> v = x + y) /\ p' = p).
  Proof.
    eapply csat_conseq; [apply csat_lift, add_w_not_oof|lia|lia|]. cbn beta.
    intros v p' [E ->]. split; [|reflexivity]. intros H. rewrite add_w_ok in E by exact H. congruence.
  Qed.
  Lemma csat_sub64 m site x y p :
    csat p (sub64 m site x y) 0 0 (fun v p' => (y <= x -> v = x - y) /\ p' = p).
  Proof.
    eapply csat_conseq; [apply csat_lift, sub_w_not_oof|lia|lia|]. cbn beta.
    intros v p' [E ->]. split; [|reflexivity]. intros H. rewrite sub_w_ok in E by exact H. congruence.
  Qed.
End Cont.

(** ** Stepping through a decoder with [cacc] *)
Ltac carith := sat_bools; rewrite ?N2Nat.id in *; sat_consts; lia.

Ltac csat_prim :=
  first [ eapply csat_rd_u | eapply csat_rd_i | eapply csat_rd_vec | eapply csat_rd_arr
        | eapply csat_get_pos | eapply csat_box_start | eapply csat_skip_bytes_to | eapply csat_seek_to
        | eapply csat_skip_bytes | eapply csat_skip_box | eapply csat_seek_rel | eapply csat_alloc | eapply csat_step
        | eapply csat_read_header_ext | eapply csat_read_header | eapply csat_add64 | eapply csat_sub64 ].

(** use the facts a primitive's contract gives: split, discharge arithmetic premises, substitute *)
Ltac cacc_facts :=
  repeat match goal with
         | H : _ /\ _ |- _ => destruct H
         | H : ?X -> _ |- _ =>
             match type of X with Prop => idtac end;
             let Hx := fresh in assert (Hx : X) by carith; specialize (H Hx); clear Hx
         end;
  subst.

Lemma enum_try_from_not_oof tbl v : enum_try_from tbl v <> OutOfFuel.
Proof. unfold enum_try_from. destruct (lookup_n v tbl); discriminate. Qed.

Ltac not_oof :=
  first [ apply add_w_not_oof | apply sub_w_not_oof | apply mul_w_not_oof | apply div_w_not_oof
        | apply rem_w_not_oof | apply enum_try_from_not_oof | discriminate ].

Ltac cacc_step :=
  lazymatch goal with
  | |- cacc _ _ _ _ (bind (lift _) _) _ _ _ =>
      eapply cacc_bind; [apply csat_lift; not_oof | carith | carith | cbn beta; intros ? ? ?; cacc_facts]
  | |- cacc _ _ _ _ (Ret _) _ _ _ => apply cacc_Ret; [carith|carith|try carith]
  | |- cacc _ _ _ _ (Throw _) _ _ _ => apply cacc_Throw; [carith|carith]
  | |- cacc _ _ _ _ (Crash _) _ _ _ => apply cacc_Crash; [carith|carith]
  | |- cacc _ _ _ _ (bind (Ret _) _) _ _ _ => cbn [bind]
  | |- cacc _ _ _ _ (bind (Throw _) _) _ _ _ => cbn [bind]
  | |- cacc _ _ _ _ (bind (Crash _) _) _ _ _ => cbn [bind]
  | |- cacc _ _ _ _ (bind (bind _ _) _) _ _ _ => apply cacc_assoc
  | |- cacc _ _ _ _ (bind (if ?b then _ else _) _) _ _ _ => destruct b eqn:?
  | |- cacc _ _ _ _ (if ?b then _ else _) _ _ _ => destruct b eqn:?
  | |- cacc _ _ _ _ (bind (match ?x with Some _ => _ | None => _ end) _) _ _ _ => destruct x eqn:?
  | |- cacc _ _ _ _ (match ?x with Some _ => _ | None => _ end) _ _ _ => destruct x eqn:?
  | |- cacc _ _ _ _ (bind (let '(_, _) := ?x in _) _) _ _ _ => destruct x
  | |- cacc _ _ _ _ (let '(_, _) := ?x in _) _ _ _ => destruct x
  | |- cacc _ _ _ _ (bind _ _) _ _ _ =>
      eapply cacc_bind;
      [ csat_prim; try eassumption; try carith | carith | carith
      | cbn beta; intros ? ? ?; cacc_facts ]
  end.

Ltac cacc_go := repeat cacc_step.
