(** * The boxes the muxer builds from a configuration are representable, and the reader's
      accessors return the configuration

    [WriterMoov.v] builds the [moov] the muxer encodes from the [TrackConfig]s and the tables
    ([trak_of_tfinal], [moov_of_mfinal]).  This file shows

    - (A2) that every box built from a representable configuration ([conf_rep]) is well-formed in
      the sense of the round-trip theorems ([x_wf], [stsd_rt_wf]), with ONE exception, which is a
      finding about the Rust code: [AvcCBox::new] (src/mp4box/avc1.rs:189) sets
      [length_size_minus_one: 0xff]; the wire carries two bits of it ([0xff | 0xFC = 0xff] is
      written, [& 3 = 3] is read), so the value the reader returns is 3, not 255.  The bytes are
      the same as for 3, so nothing is wrong on the wire; but the box the muxer holds is not the
      box the reader gets.  [stsd_rd] .. [moov_rd] replace the field by what the reader sees
      (same encoder, same size, for ALL values), and well-formedness is stated for that;
    - (A3) that the accessors of [Mp4Track] ([Reader.v]) on the track so built return the
      configuration. *)
From MP4 Require Import MuxMoovDefs RtStsd Kit IsoFtyp IsoStsd.
From Coq Require Import Lia ZArith NArith List Bool String ZifyN ZifyNat ZifyBool.
Open Scope string_scope.
Open Scope list_scope.
Open Scope N_scope.

(** ** The [avcC] length size as the reader sees it *)

Definition avcc_rd (c : avcc) : avcc :=
  mkAvcC (avcc_configuration_version c) (avcc_avc_profile_indication c) (avcc_profile_compatibility c)
         (avcc_avc_level_indication c) (N.land (avcc_length_size_minus_one c) 3)
         (avcc_sequence_parameter_sets c) (avcc_picture_parameter_sets c).

Definition avc1_rd (a : avc1) : avc1 :=
  mkAvc1 (avc1_data_reference_index a) (avc1_width a) (avc1_height a) (avc1_horizresolution a)
         (avc1_vertresolution a) (avc1_frame_count a) (avc1_depth a) (avcc_rd (avc1_avcc a)).

Definition stsd_rd (s : stsd) : stsd :=
  mkStsd (stsd_version s) (stsd_flags s) (option_map avc1_rd (stsd_avc1 s)) (stsd_hev1 s) (stsd_vp09 s)
         (stsd_mp4a s) (stsd_tx3g s).

Definition stbl_rd (s : stbl) : stbl :=
  mkStbl (stsd_rd (stbl_stsd s)) (stbl_stts s) (stbl_ctts s) (stbl_stss s) (stbl_stsc s) (stbl_stsz s)
         (stbl_stco s) (stbl_co64 s).

Definition minf_rd (v : minf) : minf :=
  mkMinf (minf_vmhd v) (minf_smhd v) (minf_dinf v) (stbl_rd (minf_stbl v)).

Definition mdia_rd (v : mdia) : mdia :=
  mkMdia (mdia_mdhd v) (mdia_hdlr v) (minf_rd (mdia_minf v)).

Definition trak_rd (t : trak) : trak :=
  mkTrak (trak_tkhd t) (trak_edts t) (trak_meta t) (mdia_rd (trak_mdia t)).

Definition moov_rd (v : moov) : moov :=
  mkMoov (moov_mvhd v) (moov_meta v) (moov_mvex v) (map trak_rd (moov_traks v)) (moov_udta v).

(** the byte written for [length_size_minus_one] depends on its two low bits only *)
Lemma lsm_byte_small y : y < 256 -> N.lor (N.land y 3) 252 = N.lor y 252.
Proof.
  intros Hy.
  assert (Hall : forallb (fun k => N.lor (N.land k 3) 252 =? N.lor k 252) (map N.of_nat (seq 0 256)) = true)
    by (vm_compute; reflexivity).
  rewrite forallb_forall in Hall.
  apply N.eqb_eq, Hall.
  rewrite <- (N2Nat.id y). apply in_map, in_seq. lia.
Qed.

Lemma lsm_byte x : be 1 (N.lor (N.land x 3) 252) = be 1 (N.lor x 252).
Proof.
  assert (Hm : forall a, a mod 256 = N.land a 255).
  { intros a. change 256 with (2 ^ 8). rewrite <- N.land_ones. reflexivity. }
  assert (Hy : x mod 256 < 256) by (apply N.mod_lt; lia).
  assert (H3 : N.land x 3 = N.land (x mod 256) 3).
  { rewrite Hm, <- N.land_assoc. reflexivity. }
  unfold be. cbn [le rev app]. f_equal.
  rewrite H3, (lsm_byte_small _ Hy).
  rewrite (Hm (N.lor x 252)), N.land_lor_distr_l, <- Hm.
  change (N.land 252 255) with 252.
  apply N.mod_small.
  assert (Hl : N.lor (x mod 256) 252 = N.land (N.lor (x mod 256) 252) 255).
  { rewrite N.land_lor_distr_l, <- Hm, N.mod_mod by lia. reflexivity. }
  rewrite Hl, <- Hm. apply N.mod_lt. lia.
Qed.

Lemma avcc_rd_size c : avcc_size (avcc_rd c) = avcc_size c.
Proof. reflexivity. Qed.

Lemma avcc_rd_enc c : enc_avcc (avcc_rd c) = enc_avcc c.
Proof.
  unfold enc_avcc. rewrite avcc_rd_size. unfold avcc_rd.
  cbn [avcc_configuration_version avcc_avc_profile_indication avcc_profile_compatibility
       avcc_avc_level_indication avcc_length_size_minus_one avcc_sequence_parameter_sets
       avcc_picture_parameter_sets].
  unfold wr_u8 at 5 10. unfold wr_u. rewrite lsm_byte. reflexivity.
Qed.

Lemma avc1_rd_size a : avc1_size (avc1_rd a) = avc1_size a.
Proof. reflexivity. Qed.

Lemma avc1_rd_enc a : enc_avc1 (avc1_rd a) = enc_avc1 a.
Proof.
  unfold enc_avc1. rewrite avc1_rd_size. unfold avc1_rd.
  cbn [avc1_data_reference_index avc1_width avc1_height avc1_horizresolution avc1_vertresolution
       avc1_frame_count avc1_depth avc1_avcc].
  rewrite avcc_rd_enc. reflexivity.
Qed.

Lemma stsd_rd_size s : stsd_size (stsd_rd s) = stsd_size s.
Proof. unfold stsd_size, stsd_rd. cbn [stsd_avc1 stsd_hev1 stsd_vp09 stsd_mp4a stsd_tx3g].
  destruct (stsd_avc1 s); reflexivity. Qed.

Lemma stsd_rd_enc m s : enc_stsd m (stsd_rd s) = enc_stsd m s.
Proof.
  unfold enc_stsd. rewrite stsd_rd_size. unfold stsd_rd.
  cbn [stsd_version stsd_flags stsd_avc1 stsd_hev1 stsd_vp09 stsd_mp4a stsd_tx3g].
  destruct (stsd_avc1 s) as [a|]; cbn [option_map]; [rewrite avc1_rd_enc|]; reflexivity.
Qed.

Lemma avcc_rd_idem c : avcc_rd (avcc_rd c) = avcc_rd c.
Proof.
  unfold avcc_rd. cbn [avcc_configuration_version avcc_avc_profile_indication avcc_profile_compatibility
       avcc_avc_level_indication avcc_length_size_minus_one avcc_sequence_parameter_sets
       avcc_picture_parameter_sets].
  rewrite <- N.land_assoc. reflexivity.
Qed.

Lemma stsd_rd_idem s : stsd_rd (stsd_rd s) = stsd_rd s.
Proof.
  unfold stsd_rd. cbn [stsd_version stsd_flags stsd_avc1 stsd_hev1 stsd_vp09 stsd_mp4a stsd_tx3g].
  destruct (stsd_avc1 s) as [a|]; cbn [option_map]; [|reflexivity].
  unfold avc1_rd at 1 2. cbn [avc1_data_reference_index avc1_width avc1_height avc1_horizresolution avc1_vertresolution
       avc1_frame_count avc1_depth avc1_avcc].
  rewrite avcc_rd_idem. reflexivity.
Qed.

Lemma stsd_rd_id s : stsd_avc1 s = None -> stsd_rd s = s.
Proof. destruct s as [v f a h p q t]. cbn [stsd_avc1]. intros ->. reflexivity. Qed.

Lemma stbl_rd_size s : stbl_size (stbl_rd s) = stbl_size s.
Proof. unfold stbl_size, stbl_rd.
  cbn [stbl_stsd stbl_stts stbl_ctts stbl_stss stbl_stsc stbl_stsz stbl_stco stbl_co64].
  rewrite stsd_rd_size. reflexivity. Qed.

Lemma stbl_rd_enc m s : enc_stbl m (stbl_rd s) = enc_stbl m s.
Proof. unfold enc_stbl. rewrite stbl_rd_size. unfold stbl_rd.
  cbn [stbl_stsd stbl_stts stbl_ctts stbl_stss stbl_stsc stbl_stsz stbl_stco stbl_co64].
  rewrite stsd_rd_enc. reflexivity. Qed.

Lemma minf_rd_size v : minf_size (minf_rd v) = minf_size v.
Proof. unfold minf_size, minf_rd. cbn [minf_vmhd minf_smhd minf_dinf minf_stbl].
  rewrite stbl_rd_size. reflexivity. Qed.

Lemma minf_rd_enc m v : enc_minf m (minf_rd v) = enc_minf m v.
Proof. unfold enc_minf. rewrite minf_rd_size. unfold minf_rd. cbn [minf_vmhd minf_smhd minf_dinf minf_stbl].
  rewrite stbl_rd_enc. reflexivity. Qed.

Lemma mdia_rd_size v : mdia_size (mdia_rd v) = mdia_size v.
Proof. unfold mdia_size, mdia_rd. cbn [mdia_mdhd mdia_hdlr mdia_minf]. rewrite minf_rd_size. reflexivity. Qed.

Lemma mdia_rd_enc m v : enc_mdia m (mdia_rd v) = enc_mdia m v.
Proof. unfold enc_mdia. rewrite mdia_rd_size. unfold mdia_rd. cbn [mdia_mdhd mdia_hdlr mdia_minf].
  rewrite minf_rd_enc. reflexivity. Qed.

Lemma trak_rd_size t : trak_size (trak_rd t) = trak_size t.
Proof. unfold trak_size, trak_rd. cbn [trak_tkhd trak_edts trak_meta trak_mdia]. rewrite mdia_rd_size. reflexivity. Qed.

Lemma trak_rd_enc m t : enc_trak m (trak_rd t) = enc_trak m t.
Proof. unfold enc_trak. rewrite trak_rd_size. unfold trak_rd. cbn [trak_tkhd trak_edts trak_meta trak_mdia].
  rewrite mdia_rd_enc. reflexivity. Qed.

Lemma traks_rd_sizes l : map trak_size (map trak_rd l) = map trak_size l.
Proof. rewrite map_map. apply map_ext. intros t. apply trak_rd_size. Qed.

Lemma traks_rd_enc m l : wr_each (enc_trak m) (map trak_rd l) = wr_each (enc_trak m) l.
Proof. induction l as [|t l IH]; [reflexivity|]. cbn [map wr_each]. rewrite trak_rd_enc, IH. reflexivity. Qed.

Lemma moov_rd_size v : moov_size (moov_rd v) = moov_size v.
Proof. unfold moov_size, moov_rd. cbn [moov_mvhd moov_meta moov_mvex moov_traks moov_udta].
  rewrite traks_rd_sizes. reflexivity. Qed.

Lemma moov_rd_enc m v : enc_moov m (moov_rd v) = enc_moov m v.
Proof. unfold enc_moov. rewrite moov_rd_size. unfold moov_rd. cbn [moov_mvhd moov_meta moov_mvex moov_traks moov_udta].
  rewrite traks_rd_enc. reflexivity. Qed.

(** ** A1. Representable track configurations *)

(** an enum value (a variant name in the model): present in the discriminant table, below the
    bound the wire format puts on the discriminant.  (The three tables are mutually inverse,
    [enum_tables_inverse] below, so [T::try_from(v as u8)] gives the variant back.)
    In Rust the three fields are enums, so every value is a variant name; a string outside the
    table is an artefact of the model ([enum_discr] gives 0 for it).  Well-formedness (A2) needs the
    bound on the [AudioObjectType] only; presence in the tables is what A3 needs to get the name back. *)
Definition enum_rep (discr : list (string * N)) (bound : N) (n : string) : bool :=
  match lookup_s n discr with Some v => v <? bound | None => false end.

(** [AudioObjectType]: below the escape value 31 (the writer does not write the escaped form).
    The variants with discriminant 32..46 ([MpegLayer1] .. [AudioSync]) are NOT representable. *)
Definition aot_rep : string -> bool := enum_rep Tables.AudioObjectType_discr 31.
(** [SampleFreqIndex]: below 15 (every variant is: the largest discriminant is 12) *)
Definition sfi_rep : string -> bool := enum_rep Tables.SampleFreqIndex_discr 15.
(** [ChannelConfig]: a 4-bit field (every variant fits: the largest discriminant is 7) *)
Definition chan_rep : string -> bool := enum_rep Tables.ChannelConfig_discr 16.

Definition media_rep (c : media_conf) : bool :=
  match c with
  | AvcConf w h sps pps => ufit 2 w && ufit 2 h && bytes_ok sps && bytes_ok pps
  | HevcConf w h => ufit 2 w && ufit 2 h
  | Vp9Conf w h => ufit 2 w && ufit 2 h
  | AacConf br p f ch => ufit 4 br && aot_rep p && sfi_rep f && chan_rep ch
  | TtxtConf => true
  end.

Definition conf_rep (c : track_conf) : bool :=
  lang_rep (tc_language c) && ufit 4 (tc_timescale c) && media_rep (tc_media c).

(** the configurations of [Props/C14.v] *)
Definition exA_video : track_conf :=
  mkTrackConf "Video" 90000 [117; 110; 100] (AvcConf 1920 1080 [103; 66; 0; 30] [104; 206]).
Definition exA_audio : track_conf :=
  mkTrackConf "Audio" 48000 [101; 110; 103] (AacConf 128000 "AacLowComplexity" "Freq48000" "Stereo").

Example exA_conf_rep : conf_rep exA_video = true /\ conf_rep exA_audio = true.
Proof. vm_compute. split; reflexivity. Qed.

(** every [SampleFreqIndex] and [ChannelConfig] variant is representable; the [AudioObjectType]
    variants from [MpegLayer1] (32) on are not *)
Example exA_enum_rep :
  forallb (fun e => sfi_rep (fst e)) Tables.SampleFreqIndex_discr = true /\
  forallb (fun e => chan_rep (fst e)) Tables.ChannelConfig_discr = true /\
  map fst (filter (fun e => negb (aot_rep (fst e))) Tables.AudioObjectType_discr) =
    ["MpegLayer1"; "MpegLayer2"; "MpegLayer3"; "DirectStreamTransfer"; "AudioLosslessCoding";
     "ScalableLosslessCoding"; "ScalableLosslessCodingNoneCore"; "ErrorResilientAacEnhancedLowDelay";
     "SymbolicMusicRepresentationSimple"; "SymbolicMusicRepresentationMain"; "UnifiedSpeechAudioCoding";
     "SpatialAudioObjectCoding"; "LowDelayMpegSurround"; "SpatialAudioObjectCodingDialogueEnhancement";
     "AudioSync"].
Proof. vm_compute. repeat split; reflexivity. Qed.

(** *** Enum tables *)
Lemma enum_rep_discr discr bound n : enum_rep discr bound n = true ->
  exists v, lookup_s n discr = Some v /\ enum_discr discr n = v /\ v < bound.
Proof.
  unfold enum_rep, enum_discr. destruct (lookup_s n discr) as [v|]; [|discriminate].
  intros H. apply N.ltb_lt in H. exists v. auto.
Qed.

(** [try_from] inverts [discr] on a table pair that is checked (by computation) to be inverse *)
Definition enum_tables_inverse (discr : list (string * N)) (tf : list (N * string)) : bool :=
  forallb (fun e => match lookup_n (snd e) tf with Some n' => String.eqb n' (fst e) | None => false end) discr.

Lemma enum_try_from_discr discr tf n v : enum_tables_inverse discr tf = true ->
  lookup_s n discr = Some v -> enum_try_from tf v = Ok n.
Proof.
  unfold enum_tables_inverse, enum_try_from. intros Hinv.
  induction discr as [|[k w] rest IH]; cbn [lookup_s]; [discriminate|].
  cbn [forallb fst snd] in Hinv. apply andb_true_iff in Hinv as [Hh Ht].
  destruct (String.eqb n k) eqn:E.
  - apply String.eqb_eq in E. subst k. intros Hv. injection Hv as <-.
    destruct (lookup_n w tf) as [n'|]; [|discriminate]. apply String.eqb_eq in Hh. now subst n'.
  - now apply IH.
Qed.

Lemma aot_tables_inverse : enum_tables_inverse Tables.AudioObjectType_discr Tables.AudioObjectType_tryfrom = true.
Proof. vm_compute. reflexivity. Qed.
Lemma sfi_tables_inverse : enum_tables_inverse Tables.SampleFreqIndex_discr Tables.SampleFreqIndex_tryfrom = true.
Proof. vm_compute. reflexivity. Qed.
Lemma chan_tables_inverse : enum_tables_inverse Tables.ChannelConfig_discr Tables.ChannelConfig_tryfrom = true.
Proof. vm_compute. reflexivity. Qed.

Lemma cast_small W x : x < W -> cast_w W x = x.
Proof. intros H. unfold cast_w. now apply N.mod_small. Qed.

(** the [DecoderSpecificDescriptor] of a representable AAC configuration *)
Lemma decspecific_new_rep p f ch : aot_rep p = true -> sfi_rep f = true -> chan_rep ch = true ->
  decspecific_wf (decspecific_new p f ch) = true /\
  aot_try_from (decspecific_profile (decspecific_new p f ch)) = Ok p /\
  sfi_try_from (decspecific_freq_index (decspecific_new p f ch)) = Ok f /\
  chan_try_from (decspecific_chan_conf (decspecific_new p f ch)) = Ok ch.
Proof.
  intros Hp Hf Hc.
  apply enum_rep_discr in Hp as (vp & Lp & Dp & Bp).
  apply enum_rep_discr in Hf as (vf & Lf & Df & Bf).
  apply enum_rep_discr in Hc as (vc & Lc & Dc & Bc).
  unfold decspecific_new, decspecific_wf, aot_discr, sfi_discr, chan_discr.
  cbn [decspecific_profile decspecific_freq_index decspecific_chan_conf].
  rewrite Dp, Df, Dc.
  rewrite !cast_small by (unfold U8; lia).
  repeat split.
  - apply N.ltb_lt in Bp, Bf, Bc. now rewrite Bp, Bf, Bc.
  - exact (enum_try_from_discr _ _ _ _ aot_tables_inverse Lp).
  - exact (enum_try_from_discr _ _ _ _ sfi_tables_inverse Lf).
  - exact (enum_try_from_discr _ _ _ _ chan_tables_inverse Lc).
Qed.

(** the two places where a value the muxer builds is not what the wire carries:
    - FINDING ([AvcCBox::new], src/mp4box/avc1.rs:189): [length_size_minus_one] is 0xff for every
      AVC configuration; the reader returns 3.  [avc1_wf] fails, [avc1_wf] of [avc1_rd] holds;
    - (known, C14) an [AudioObjectType] of 32 or more is written without the escape:
      [MpegLayer3] (34) reads back as 2 ([AacLowComplexity]); excluded by [aot_rep]. *)
Example exA_not_wf :
  match avc1_new 1920 1080 [103; 66; 0; 30] [104; 206] with
  | Ok a => avcc_length_size_minus_one (avc1_avcc a) = 255 /\ avc1_wf a = false /\
            avcc_length_size_minus_one (avc1_avcc (avc1_rd a)) = 3 /\ avc1_wf (avc1_rd a) = true
  | _ => False
  end /\
  mp4a_wf (mp4a_new 128000 "MpegLayer3" "Freq48000" "Stereo") = false.
Proof. vm_compute. repeat split; reflexivity. Qed.

(** ** A2. Well-formedness of the boxes built from a configuration *)

Lemma ufit2_fp16 w : ufit 2 w = true -> ufit 4 (fp16_new w) = true.
Proof.
  unfold ufit, fp16_new. intros H. apply N.ltb_lt in H. apply N.ltb_lt.
  change (256 ^ N.of_nat 2) with 65536 in H. change (256 ^ N.of_nat 4) with 4294967296. lia.
Qed.

Lemma nth_error_bytes_ok l i b : bytes_ok l = true -> nth_error l i = Some b -> ufit 1 b = true.
Proof.
  unfold bytes_ok. rewrite forallb_forall. intros H Hn. apply nth_error_In in Hn.
  apply H in Hn. exact Hn.
Qed.

(** the stsd entry of an AVC configuration, with the length size as the reader sees it *)
Lemma avc1_new_wf w h sps pps a :
  ufit 2 w = true -> ufit 2 h = true -> bytes_ok sps = true -> bytes_ok pps = true ->
  lenN sps <= 65535 -> lenN pps <= 65535 ->
  avc1_new w h sps pps = Ok a -> avc1_wf (avc1_rd a) = true.
Proof.
  intros Hw Hh Hs Hp Ls Lp. unfold avc1_new, avcc_new.
  destruct (nth_error sps 1) as [b1|] eqn:E1; [|discriminate].
  destruct (nth_error sps 2) as [b2|] eqn:E2; [|discriminate].
  destruct (nth_error sps 3) as [b3|] eqn:E3; [|discriminate].
  cbn [res_bind]. intros H. injection H as <-.
  unfold avc1_wf, avc1_rd, avcc_wf, avcc_rd, nalunit_wf.
  cbn [avc1_data_reference_index avc1_width avc1_height avc1_horizresolution avc1_vertresolution
       avc1_frame_count avc1_depth avc1_avcc
       avcc_configuration_version avcc_avc_profile_indication avcc_profile_compatibility
       avcc_avc_level_indication avcc_length_size_minus_one avcc_sequence_parameter_sets
       avcc_picture_parameter_sets forallb nalunit_bytes].
  rewrite Hw, Hh, Hs, Hp.
  rewrite (nth_error_bytes_ok _ _ _ Hs E1), (nth_error_bytes_ok _ _ _ Hs E2), (nth_error_bytes_ok _ _ _ Hs E3).
  assert (U2 : forall n, n <= 65535 -> ufit 2 n = true).
  { intros n Hn. unfold ufit. apply N.ltb_lt. change (256 ^ N.of_nat 2) with 65536. lia. }
  rewrite (U2 _ Ls), (U2 _ Lp).
  vm_compute. reflexivity.
Qed.

Lemma mp4a_new_wf br p f ch mx :
  ufit 4 br = true -> aot_rep p = true -> sfi_rep f = true -> chan_rep ch = true ->
  stsd_rt_wf (stsd_finish (mkStsd 0 0 None None None (Some (mp4a_new br p f ch)) None) mx) = true.
Proof.
  intros Hb Hp Hf Hc.
  destruct (decspecific_new_rep p f ch Hp Hf Hc) as (Hd & _).
  unfold stsd_finish, mp4a_new, esds_new, esdesc_new, decconfig_new, esds_set_buffer_size.
  cbn [stsd_mp4a stsd_version stsd_flags stsd_avc1 stsd_hev1 stsd_vp09 stsd_tx3g
       mp4a_esds mp4a_data_reference_index mp4a_channelcount mp4a_samplesize mp4a_samplerate
       esds_version esds_flags esds_es_desc esdesc_es_id esdesc_dec_config esdesc_sl_config
       decconfig_object_type_indication decconfig_stream_type decconfig_up_stream decconfig_buffer_size_db
       decconfig_max_bitrate decconfig_avg_bitrate decconfig_dec_specific].
  unfold stsd_rt_wf, stsd_wf, stsd_count, mp4a_wf, esds_wf, esdesc_wf, decconfig_wf, slconfig_wf.
  cbn [stsd_mp4a stsd_version stsd_flags stsd_avc1 stsd_hev1 stsd_vp09 stsd_tx3g iso_present
       mp4a_esds mp4a_data_reference_index mp4a_channelcount mp4a_samplesize mp4a_samplerate
       esds_version esds_flags esds_es_desc esdesc_es_id esdesc_dec_config esdesc_sl_config
       decconfig_object_type_indication decconfig_stream_type decconfig_up_stream decconfig_buffer_size_db
       decconfig_max_bitrate decconfig_avg_bitrate decconfig_dec_specific].
  rewrite Hb, Hd.
  assert (H1 : ufit 2 (cast_w U16 (chan_discr ch)) = true).
  { unfold ufit, cast_w, U16. apply N.ltb_lt. change (256 ^ N.of_nat 2) with 65536. apply N.mod_lt. lia. }
  assert (H2 : ufit 4 (fp16_new (cast_w U16 (sfi_freq f))) = true).
  { apply ufit2_fp16. unfold ufit, cast_w, U16. apply N.ltb_lt. change (256 ^ N.of_nat 2) with 65536. apply N.mod_lt. lia. }
  assert (H3 : ufit 3 (N.min mx 16777215) = true).
  { unfold ufit. apply N.ltb_lt. change (256 ^ N.of_nat 3) with 16777216. lia. }
  rewrite H1, H2, H3. vm_compute. reflexivity.
Qed.

Lemma conf_check_avc c w h sps pps : conf_check c = Ok tt -> tc_media c = AvcConf w h sps pps ->
  4 <= lenN sps /\ lenN sps <= 65535 /\ lenN pps <= 65535.
Proof.
  unfold conf_check. intros H Hm. rewrite Hm in H.
  destruct (tc_timescale c =? 0); [discriminate|].
  destruct (N.ltb_spec (lenN sps) 4); [discriminate|].
  destruct (N.ltb_spec 65535 (lenN sps)); [discriminate|].
  destruct (N.ltb_spec 65535 (lenN pps)); [discriminate|].
  lia.
Qed.

Lemma avc1_new_ok w h sps pps : 4 <= lenN sps -> exists a, avc1_new w h sps pps = Ok a.
Proof.
  intros H. unfold avc1_new, avcc_new.
  destruct sps as [|b0 [|b1 [|b2 [|b3 rest]]]];
    try (exfalso; revert H; unfold lenN; cbn [Datatypes.length]; lia).
  cbn [nth_error res_bind]. eexists. reflexivity.
Qed.

Theorem conf_stsd_wf c mx : conf_check c = Ok tt -> conf_rep c = true ->
  exists sd, stsd_of_conf (tc_media c) = Ok sd /\ stsd_rt_wf (stsd_rd (stsd_finish sd mx)) = true.
Proof.
  intros Hc Hr. unfold conf_rep in Hr.
  apply andb_true_iff in Hr as [Hr Hm]. clear Hr.
  destruct (tc_media c) as [w h sps pps|w h|w h|br p f ch|] eqn:Em; cbn [media_rep] in Hm; cbn [stsd_of_conf].
  - apply andb_true_iff in Hm as [Hm Hpp]. apply andb_true_iff in Hm as [Hm Hss].
    apply andb_true_iff in Hm as [Hw Hh].
    destruct (conf_check_avc c w h sps pps Hc Em) as (L4 & Ls & Lp).
    destruct (avc1_new_ok w h sps pps L4) as [a Ha]. rewrite Ha. cbn [res_bind].
    eexists. split; [reflexivity|].
    pose proof (avc1_new_wf w h sps pps a Hw Hh Hss Hpp Ls Lp Ha) as Hwf.
    unfold stsd_finish, stsd_rd, stsd_rt_wf, stsd_wf, stsd_count.
    cbn [stsd_mp4a stsd_version stsd_flags stsd_avc1 stsd_hev1 stsd_vp09 stsd_tx3g option_map iso_present].
    rewrite Hwf. vm_compute. reflexivity.
  - apply andb_true_iff in Hm as [Hw Hh].
    eexists. split; [reflexivity|].
    unfold stsd_finish, stsd_rd, stsd_rt_wf, stsd_wf, stsd_count, hev1_wf, hev1_new.
    cbn [stsd_mp4a stsd_version stsd_flags stsd_avc1 stsd_hev1 stsd_vp09 stsd_tx3g option_map iso_present
         hev1_data_reference_index hev1_width hev1_height hev1_horizresolution hev1_vertresolution
         hev1_frame_count hev1_depth hev1_hvcc].
    rewrite Hw, Hh. vm_compute. reflexivity.
  - apply andb_true_iff in Hm as [Hw Hh].
    eexists. split; [reflexivity|].
    unfold stsd_finish, stsd_rd, stsd_rt_wf, stsd_wf, stsd_count, vp09_wf, vp09_new.
    cbn [stsd_mp4a stsd_version stsd_flags stsd_avc1 stsd_hev1 stsd_vp09 stsd_tx3g option_map iso_present
         vp09_version vp09_flags vp09_start_code vp09_data_reference_index vp09_reserved0 vp09_width vp09_height
         vp09_horizresolution vp09_vertresolution vp09_reserved1 vp09_frame_count vp09_compressorname
         vp09_depth vp09_end_code vp09_vpcc].
    rewrite Hw, Hh. vm_compute. reflexivity.
  - apply andb_true_iff in Hm as [Hm Hch]. apply andb_true_iff in Hm as [Hm Hf].
    apply andb_true_iff in Hm as [Hb Hp].
    eexists. split; [reflexivity|].
    rewrite stsd_rd_id by reflexivity.
    now apply mp4a_new_wf.
  - eexists. split; [reflexivity|]. vm_compute. reflexivity.
Qed.

Lemma conf_vmhd_wf mc : match vmhd_of_conf mc with Some x => vmhd_wf x = true | None => True end.
Proof. destruct mc; cbn [vmhd_of_conf]; try exact I; vm_compute; reflexivity. Qed.

Lemma conf_smhd_wf mc : match smhd_of_conf mc with Some x => smhd_wf x = true | None => True end.
Proof. destruct mc; cbn [smhd_of_conf]; try exact I; vm_compute; reflexivity. Qed.

Lemma dinf_default_wf : dinf_wf dinf_default = true.
Proof. vm_compute. reflexivity. Qed.

(** *** Headers.  What the muxer guarantees about the durations and versions it leaves in a
    finished track ([header_versions_lossless], Props/C13.v) *)
Definition whdr_ok (h : whdr) : Prop :=
  wh_mdhd_duration h < U64 /\ wh_tkhd_duration h < U64 /\
  wh_mdhd_version h = (if U32MAX <? wh_mdhd_duration h then 1 else 0) /\
  wh_tkhd_version h = (if U32MAX <? wh_tkhd_duration h then 1 else 0).

(** version (0 or 1, chosen by the duration) and the three time fields of a header box *)
Lemma versioned_times_wf v d : d < U64 -> v = (if U32MAX <? d then 1 else 0) ->
  (v <? 2) = true /\
  (if v =? 1 then ufit 8 0 && ufit 8 0 && ufit 8 d else ufit 4 0 && ufit 4 0 && ufit 4 d) = true.
Proof.
  intros Hd ->.
  destruct (U32MAX <? d) eqn:E; (split; [reflexivity|]).
  - change (1 =? 1) with true. cbv iota. unfold ufit. change (256 ^ N.of_nat 8) with U64.
    apply N.ltb_lt in Hd. rewrite Hd. reflexivity.
  - change (0 =? 1) with false. cbv iota. unfold ufit. change (256 ^ N.of_nat 4) with U32.
    apply N.ltb_ge in E. unfold U32MAX in E.
    assert (Hd' : d <? U32 = true) by (apply N.ltb_lt; unfold U32 in *; lia). rewrite Hd'. reflexivity.
Qed.

Lemma media_rep_dims mc t : media_rep mc = true ->
  ufit 4 (tkhd_width t) = true -> ufit 4 (tkhd_height t) = true ->
  ufit 4 (tkhd_width (tkhd_set_dims mc t)) = true /\ ufit 4 (tkhd_height (tkhd_set_dims mc t)) = true.
Proof.
  intros Hm Hw Hh.
  destruct mc as [w h sps pps|w h|w h|br p f ch|]; cbn [media_rep tkhd_set_dims] in *; auto;
    repeat match goal with H : _ && _ = true |- _ => apply andb_true_iff in H; destruct H end;
    unfold tkhd_set_height, tkhd_set_width; cbn [tkhd_width tkhd_height]; split; now apply ufit2_fp16.
Qed.

Lemma tkhd_set_dims_other mc t :
  tkhd_version (tkhd_set_dims mc t) = tkhd_version t /\ tkhd_flags (tkhd_set_dims mc t) = tkhd_flags t /\
  tkhd_creation_time (tkhd_set_dims mc t) = tkhd_creation_time t /\
  tkhd_modification_time (tkhd_set_dims mc t) = tkhd_modification_time t /\
  tkhd_track_id (tkhd_set_dims mc t) = tkhd_track_id t /\ tkhd_duration (tkhd_set_dims mc t) = tkhd_duration t /\
  tkhd_layer (tkhd_set_dims mc t) = tkhd_layer t /\ tkhd_alternate_group (tkhd_set_dims mc t) = tkhd_alternate_group t /\
  tkhd_volume (tkhd_set_dims mc t) = tkhd_volume t /\ tkhd_matrix (tkhd_set_dims mc t) = tkhd_matrix t.
Proof. destruct mc; repeat split; reflexivity. Qed.

Theorem tfinal_tkhd_wf tf : conf_rep (tf_conf tf) = true -> ufit 4 (tf_track_id tf) = true ->
  whdr_ok (tf_hdr tf) -> tkhd_wf (tkhd_of_tfinal tf) = true.
Proof.
  intros Hr Hid (_ & Hd & _ & Hv). unfold conf_rep in Hr. apply andb_true_iff in Hr as [_ Hm].
  unfold tkhd_of_tfinal.
  set (t1 := mkTkhd _ _ _ _ _ _ _ _ _ _ _ _).
  destruct (media_rep_dims (tc_media (tf_conf tf)) t1 Hm) as [Hw Hh];
    [vm_compute; reflexivity | vm_compute; reflexivity |].
  destruct (tkhd_set_dims_other (tc_media (tf_conf tf)) t1) as (E1 & E2 & E3 & E4 & E5 & E6 & E7 & E8 & E9 & E10).
  unfold tkhd_wf. rewrite Hw, Hh, E1, E2, E3, E4, E5, E6, E7, E8, E9, E10.
  subst t1. cbn [tkhd_version tkhd_flags tkhd_creation_time tkhd_modification_time tkhd_track_id tkhd_duration
                 tkhd_layer tkhd_alternate_group tkhd_volume tkhd_matrix].
  destruct (versioned_times_wf _ _ Hd Hv) as [V1 V2].
  change (tkhd_creation_time tkhd_default) with 0. change (tkhd_modification_time tkhd_default) with 0.
  rewrite V1, V2, Hid. vm_compute. reflexivity.
Qed.

Theorem tfinal_mdhd_wf tf : conf_rep (tf_conf tf) = true -> whdr_ok (tf_hdr tf) ->
  mdhd_wf (mdhd_of_tfinal tf) = true.
Proof.
  intros Hr (Hd & _ & Hv & _). unfold conf_rep in Hr. apply andb_true_iff in Hr as [Hr _].
  apply andb_true_iff in Hr as [Hl Ht].
  unfold mdhd_wf, mdhd_of_tfinal.
  cbn [mdhd_version mdhd_flags mdhd_creation_time mdhd_modification_time mdhd_timescale mdhd_duration mdhd_language].
  destruct (versioned_times_wf _ _ Hd Hv) as [V1 V2].
  change (mdhd_creation_time mdhd_default) with 0. change (mdhd_modification_time mdhd_default) with 0.
  rewrite V1, V2, Ht.
  change (mdhd_lang_wf (tc_language (tf_conf tf))) with (lang_rep (tc_language (tf_conf tf))).
  rewrite Hl. vm_compute. reflexivity.
Qed.

(** any [track_type] string: a name outside the table gives the zero FourCC *)
Lemma fourcc_of_tracktype_fits s : ufit 4 (fourcc_of_tracktype s) = true.
Proof.
  unfold fourcc_of_tracktype, Tables.handler_table. cbn [find fst snd].
  repeat match goal with |- context [String.eqb ?a s] => destruct (String.eqb a s) end;
    vm_compute; reflexivity.
Qed.

Theorem tfinal_hdlr_wf tf : hdlr_wf (hdlr_of_tfinal tf) = true.
Proof.
  unfold hdlr_wf, hdlr_of_tfinal. cbn [hdlr_version hdlr_flags hdlr_handler_type hdlr_name].
  rewrite fourcc_of_tracktype_fits. vm_compute. reflexivity.
Qed.

Theorem mfinal_mvhd_wf f : ufit 4 (mf_mvhd_timescale f) = true -> mf_mvhd_duration f < U64 ->
  mf_mvhd_version f = (if U32MAX <? mf_mvhd_duration f then 1 else 0) ->
  mvhd_wf (mvhd_of_mfinal f) = true.
Proof.
  intros Ht Hd Hv. unfold mvhd_wf, mvhd_of_mfinal.
  cbn [mvhd_version mvhd_flags mvhd_creation_time mvhd_modification_time mvhd_timescale mvhd_duration
       mvhd_rate mvhd_volume mvhd_matrix mvhd_next_track_id].
  destruct (versioned_times_wf _ _ Hd Hv) as [V1 V2].
  change (mvhd_creation_time mvhd_default) with 0. change (mvhd_modification_time mvhd_default) with 0.
  rewrite V1, V2, Ht. vm_compute. reflexivity.
Qed.

(** *** [ftyp] *)
Theorem conf_ftyp_wf cfg : mp4_conf_rep cfg = true ->
  ftyp_wf (ftyp_of_conf cfg) = true /\ ftyp_size (ftyp_of_conf cfg) < U32 /\
  ftyp_bytes cfg = be 4 (ftyp_size (ftyp_of_conf cfg)) ++ be 4 0x66747970 ++ iso_ftyp_payload (ftyp_of_conf cfg).
Proof.
  unfold mp4_conf_rep. intros H.
  apply andb_true_iff in H as [H Hs]. apply andb_true_iff in H as [H _].
  apply andb_true_iff in H as [H Hb]. apply andb_true_iff in H as [Hma Hmi].
  apply N.ltb_lt in Hs.
  assert (Esz : ftyp_size (ftyp_of_conf cfg) = 16 + 4 * lenN (mc_compatible_brands cfg)).
  { unfold ftyp_size, ftyp_of_conf, HEADER_SIZE. cbn [ftyp_compatible_brands]. unfold Tables.HEADER_SIZE. lia. }
  split; [|split].
  - unfold ftyp_wf, ftyp_of_conf. cbn [ftyp_major_brand ftyp_minor_version ftyp_compatible_brands].
    now rewrite Hma, Hmi, Hb.
  - rewrite Esz. exact Hs.
  - unfold ftyp_bytes, iso_ftyp_payload. rewrite Esz, cast_small by exact Hs.
    unfold ftyp_of_conf. cbn [ftyp_major_brand ftyp_minor_version ftyp_compatible_brands]. reflexivity.
Qed.

(** ** Everything C04's round trips need of one finished track, in one statement *)
Theorem conf_boxes_wf tf sd :
  conf_check (tf_conf tf) = Ok tt -> conf_rep (tf_conf tf) = true -> ufit 4 (tf_track_id tf) = true ->
  whdr_ok (tf_hdr tf) -> stsd_of_conf (tc_media (tf_conf tf)) = Ok sd ->
  tkhd_wf (tkhd_of_tfinal tf) = true /\ mdhd_wf (mdhd_of_tfinal tf) = true /\ hdlr_wf (hdlr_of_tfinal tf) = true /\
  match vmhd_of_conf (tc_media (tf_conf tf)) with Some x => vmhd_wf x = true | None => True end /\
  match smhd_of_conf (tc_media (tf_conf tf)) with Some x => smhd_wf x = true | None => True end /\
  dinf_wf dinf_default = true /\
  stsd_rt_wf (stsd_rd (stsd_finish sd (tf_max_sample_size tf))) = true.
Proof.
  intros Hc Hr Hid Hh Hsd.
  destruct (conf_stsd_wf _ (tf_max_sample_size tf) Hc Hr) as (sd' & Hsd' & Hwf).
  rewrite Hsd in Hsd'. injection Hsd' as <-.
  repeat split; auto using tfinal_tkhd_wf, tfinal_mdhd_wf, tfinal_hdlr_wf, conf_vmhd_wf, conf_smhd_wf, dinf_default_wf.
  - apply conf_vmhd_wf.
  - apply conf_smhd_wf.
Qed.

(** ** A3. The reader's accessors on the built track return the configuration *)

(** the track the muxer builds, field by field *)
Lemma trak_of_tfinal_inv m tf tk : trak_of_tfinal m tf = Ok tk ->
  exists sd, stsd_of_conf (tc_media (tf_conf tf)) = Ok sd /\
    tk = mkTrak (tkhd_of_tfinal tf) None None
           (mkMdia (mdhd_of_tfinal tf) (hdlr_of_tfinal tf)
              (mkMinf (vmhd_of_conf (tc_media (tf_conf tf))) (smhd_of_conf (tc_media (tf_conf tf))) dinf_default
                      (stbl_of_tfinal sd tf))).
Proof.
  unfold trak_of_tfinal. destruct (stsd_of_conf (tc_media (tf_conf tf))) as [sd| | |]; cbn [res_bind]; try discriminate.
  intros H. injection H as <-. exists sd. split; reflexivity.
Qed.

(** the accessors do not look at the sample tables: replacing the stsc entries (by the values the
    reader re-derives, [tfinal_rd]) changes nothing but [stbl.stsc] *)
Lemma trak_with_stsc_same m tf es tk : trak_of_tfinal m (tfinal_with_stsc tf es) = Ok tk ->
  exists tk0, trak_of_tfinal m tf = Ok tk0 /\
    trak_tkhd tk = trak_tkhd tk0 /\ trak_edts tk = trak_edts tk0 /\ trak_meta tk = trak_meta tk0 /\
    mdia_mdhd (trak_mdia tk) = mdia_mdhd (trak_mdia tk0) /\ mdia_hdlr (trak_mdia tk) = mdia_hdlr (trak_mdia tk0) /\
    minf_vmhd (mdia_minf (trak_mdia tk)) = minf_vmhd (mdia_minf (trak_mdia tk0)) /\
    minf_smhd (mdia_minf (trak_mdia tk)) = minf_smhd (mdia_minf (trak_mdia tk0)) /\
    minf_dinf (mdia_minf (trak_mdia tk)) = minf_dinf (mdia_minf (trak_mdia tk0)) /\
    stbl_stsd (minf_stbl (mdia_minf (trak_mdia tk))) = stbl_stsd (minf_stbl (mdia_minf (trak_mdia tk0))).
Proof.
  intros H. apply trak_of_tfinal_inv in H as (sd & Hsd & ->).
  change (tf_conf (tfinal_with_stsc tf es)) with (tf_conf tf) in Hsd.
  eexists. split.
  - unfold trak_of_tfinal. rewrite Hsd. cbn [res_bind]. reflexivity.
  - repeat split; reflexivity.
Qed.

Definition known_track_type (s : string) : bool :=
  existsb (fun e => String.eqb (fst (fst e)) s) Tables.handler_table.

(** what the accessors of [Mp4Track] must return for a media configuration *)
Definition media_survives (mc : media_conf) (t : mp4track) : Prop :=
  match mc with
  | AvcConf w h sps pps =>
      mt_media_type t = Ok "H264" /\ mt_width t = w /\ mt_height t = h /\
      mt_sequence_parameter_set t = Ok sps /\ mt_picture_parameter_set t = Ok pps /\
      mt_video_profile t = avc_profile_try_from (nth 1 sps 0) (nth 2 sps 0)
  | HevcConf w h => mt_media_type t = Ok "H265" /\ mt_width t = w /\ mt_height t = h
  | Vp9Conf w h => mt_media_type t = Ok "VP9" /\ mt_width t = w /\ mt_height t = h
  | AacConf br p f ch =>
      mt_media_type t = Ok "AAC" /\ mt_width t = 0 /\ mt_height t = 0 /\
      mt_audio_profile t = Ok p /\ mt_sample_freq_index t = Ok f /\ mt_channel_config t = Ok ch /\
      mt_bitrate t = Some br
  | TtxtConf => mt_media_type t = Ok "TTXT" /\ mt_width t = 0 /\ mt_height t = 0
  end.

Definition conf_survives (c : track_conf) (track_id : N) (t : mp4track) : Prop :=
  mt_track_id t = track_id /\ mt_timescale t = tc_timescale c /\ mt_language t = tc_language c /\
  mt_track_type t = (if known_track_type (tc_track_type c) then Ok (tc_track_type c) else Err EData) /\
  media_survives (tc_media c) t.

Lemma fp16_value_new w : ufit 2 w = true -> fp16_value (fp16_new w) = w.
Proof.
  unfold ufit, fp16_value, fp16_new. intros H. apply N.ltb_lt in H. change (256 ^ N.of_nat 2) with 65536 in H.
  rewrite N.div_mul by lia. now apply N.mod_small.
Qed.

Lemma tracktype_roundtrip s :
  tracktype_of_fourcc (fourcc_of_tracktype s) = (if known_track_type s then Ok s else Err EData).
Proof.
  unfold fourcc_of_tracktype, known_track_type, Tables.handler_table. cbn [find existsb fst snd orb].
  repeat match goal with
         | |- context [String.eqb ?a s] =>
             let E := fresh "E" in destruct (String.eqb a s) eqn:E;
             [apply String.eqb_eq in E; subst s; vm_compute; reflexivity|]
         end.
  vm_compute. reflexivity.
Qed.

Lemma nth_error_nth_N (l : bytes) i b : nth_error l i = Some b -> nth i l 0 = b.
Proof. intros H. now apply nth_error_nth. Qed.

(** the core: an [Mp4Track] whose four boxes are the ones built from the configuration ([stsd]
    possibly with the [avcC] length size as the reader sees it) *)
Lemma accessors_core tf sd (t : mp4track) :
  conf_rep (tf_conf tf) = true -> stsd_of_conf (tc_media (tf_conf tf)) = Ok sd ->
  trak_tkhd (mt_trak t) = tkhd_of_tfinal tf -> mt_mdhd t = mdhd_of_tfinal tf ->
  mdia_hdlr (trak_mdia (mt_trak t)) = hdlr_of_tfinal tf ->
  (mt_stsd t = stsd_finish sd (tf_max_sample_size tf) \/
   mt_stsd t = stsd_rd (stsd_finish sd (tf_max_sample_size tf))) ->
  conf_survives (tf_conf tf) (tf_track_id tf) t.
Proof.
  intros Hr Hsd Htk Hmd Hhd Hst.
  unfold conf_rep in Hr. apply andb_true_iff in Hr as [_ Hm].
  unfold conf_survives.
  split; [|split; [|split; [|split]]].
  - unfold mt_track_id. rewrite Htk. unfold tkhd_of_tfinal.
    destruct (tkhd_set_dims_other (tc_media (tf_conf tf))
                (mkTkhd (wh_tkhd_version (tf_hdr tf)) (tkhd_flags tkhd_default) (tkhd_creation_time tkhd_default)
                   (tkhd_modification_time tkhd_default) (tf_track_id tf) (wh_tkhd_duration (tf_hdr tf))
                   (tkhd_layer tkhd_default) (tkhd_alternate_group tkhd_default) (tkhd_volume tkhd_default)
                   (tkhd_matrix tkhd_default) (tkhd_width tkhd_default) (tkhd_height tkhd_default)))
      as (_ & _ & _ & _ & E5 & _).
    rewrite E5. reflexivity.
  - unfold mt_timescale. rewrite Hmd. reflexivity.
  - unfold mt_language. rewrite Hmd. reflexivity.
  - unfold mt_track_type. rewrite Hhd. unfold hdlr_of_tfinal. cbn [hdlr_handler_type].
    apply tracktype_roundtrip.
  - assert (Hw0 : fp16_value (fp16_new 0) = 0) by (vm_compute; reflexivity).
    unfold media_survives, mt_media_type, mt_width, mt_height, mt_sequence_parameter_set, mt_picture_parameter_set,
      mt_video_profile, mt_audio_profile, mt_sample_freq_index, mt_channel_config, mt_dec_specific, mt_bitrate.
    rewrite Htk. unfold tkhd_of_tfinal.
    destruct (tc_media (tf_conf tf)) as [w h sps pps|w h|w h|br p f ch|]; cbn [media_rep stsd_of_conf] in Hm, Hsd.
    + (* avc *)
      unfold avc1_new, avcc_new in Hsd.
      destruct (nth_error sps 1) as [b1|] eqn:E1; [|discriminate].
      destruct (nth_error sps 2) as [b2|] eqn:E2; [|discriminate].
      destruct (nth_error sps 3) as [b3|] eqn:E3; [|discriminate].
      cbn [res_bind] in Hsd. injection Hsd as <-.
      rewrite (nth_error_nth_N _ _ _ E1), (nth_error_nth_N _ _ _ E2).
      destruct Hst as [-> | ->];
        unfold stsd_finish, stsd_rd, avc1_rd, avcc_rd;
        cbn [stsd_mp4a stsd_version stsd_flags stsd_avc1 stsd_hev1 stsd_vp09 stsd_tx3g option_map
             avc1_data_reference_index avc1_width avc1_height avc1_horizresolution avc1_vertresolution
             avc1_frame_count avc1_depth avc1_avcc
             avcc_configuration_version avcc_avc_profile_indication avcc_profile_compatibility
             avcc_avc_level_indication avcc_length_size_minus_one avcc_sequence_parameter_sets
             avcc_picture_parameter_sets nalunit_bytes];
        repeat split; reflexivity.
    + (* hevc *)
      apply andb_true_iff in Hm as [Hw Hh]. injection Hsd as <-.
      rewrite stsd_rd_id in Hst by reflexivity. destruct Hst as [-> | ->];
        unfold stsd_finish; cbn [stsd_mp4a stsd_avc1 stsd_hev1 stsd_vp09 stsd_tx3g];
        cbn [tkhd_set_dims]; unfold tkhd_set_height, tkhd_set_width; cbn [tkhd_width tkhd_height];
        rewrite !fp16_value_new by assumption; repeat split; reflexivity.
    + (* vp9 *)
      apply andb_true_iff in Hm as [Hw Hh]. injection Hsd as <-.
      rewrite stsd_rd_id in Hst by reflexivity. destruct Hst as [-> | ->];
        unfold stsd_finish; cbn [stsd_mp4a stsd_avc1 stsd_hev1 stsd_vp09 stsd_tx3g];
        cbn [tkhd_set_dims]; unfold tkhd_set_height, tkhd_set_width; cbn [tkhd_width tkhd_height];
        rewrite !fp16_value_new by assumption; repeat split; reflexivity.
    + (* aac *)
      apply andb_true_iff in Hm as [Hm Hch]. apply andb_true_iff in Hm as [Hm Hf].
      apply andb_true_iff in Hm as [Hb Hp]. injection Hsd as <-.
      destruct (decspecific_new_rep p f ch Hp Hf Hch) as (_ & Tp & Tf & Tc).
      rewrite stsd_rd_id in Hst by reflexivity. destruct Hst as [-> | ->];
        unfold stsd_finish, mp4a_new, esds_new, esdesc_new, decconfig_new, esds_set_buffer_size;
        cbn [stsd_mp4a stsd_version stsd_flags stsd_avc1 stsd_hev1 stsd_vp09 stsd_tx3g
             mp4a_esds mp4a_data_reference_index mp4a_channelcount mp4a_samplesize mp4a_samplerate
             esds_version esds_flags esds_es_desc esdesc_es_id esdesc_dec_config esdesc_sl_config
             decconfig_object_type_indication decconfig_stream_type decconfig_up_stream decconfig_buffer_size_db
             decconfig_max_bitrate decconfig_avg_bitrate decconfig_dec_specific res_bind];
        cbn [tkhd_set_dims tkhd_width tkhd_height]; change (tkhd_width tkhd_default) with (fp16_new 0);
        change (tkhd_height tkhd_default) with (fp16_new 0); rewrite Hw0, Tp, Tf, Tc; repeat split; reflexivity.
    + (* ttxt *)
      injection Hsd as <-.
      rewrite stsd_rd_id in Hst by reflexivity. destruct Hst as [-> | ->];
        unfold stsd_finish; cbn [stsd_mp4a stsd_avc1 stsd_hev1 stsd_vp09 stsd_tx3g];
        cbn [tkhd_set_dims tkhd_width tkhd_height]; change (tkhd_width tkhd_default) with (fp16_new 0);
        change (tkhd_height tkhd_default) with (fp16_new 0); rewrite Hw0; repeat split; reflexivity.
Qed.

(** [Mp4Track::from] of the track the muxer built, and of the same track with the [avcC] length
    size as the decoder returns it (the track the reader ends up with) *)
Theorem conf_survives_accessors m tf tk :
  conf_rep (tf_conf tf) = true -> trak_of_tfinal m tf = Ok tk ->
  conf_survives (tf_conf tf) (tf_track_id tf) (mp4track_from tk) /\
  conf_survives (tf_conf tf) (tf_track_id tf) (mp4track_from (trak_rd tk)).
Proof.
  intros Hr Htk. apply trak_of_tfinal_inv in Htk as (sd & Hsd & ->).
  split; apply (accessors_core tf sd); auto; try reflexivity.
Qed.

(** the same for the finished track with the stsc entries the reader re-derives (any entries) *)
Corollary conf_survives_accessors_rd m tf es tk :
  conf_rep (tf_conf tf) = true -> trak_of_tfinal m (tfinal_with_stsc tf es) = Ok tk ->
  conf_survives (tf_conf tf) (tf_track_id tf) (mp4track_from tk) /\
  conf_survives (tf_conf tf) (tf_track_id tf) (mp4track_from (trak_rd tk)).
Proof. intros Hr Htk. exact (conf_survives_accessors m (tfinal_with_stsc tf es) tk Hr Htk). Qed.

(** non-vacuity: the two configurations of C14 *)
Example exA_survives :
  match trak_of_tfinal Dbg (mkTf exA_video 1 (mkTables [] 0 0 [] (Some []) None [] None None) (mkWh 0 0 0 0) 0),
        trak_of_tfinal Dbg (mkTf exA_audio 2 (mkTables [] 0 0 [] (Some []) None [] None None) (mkWh 0 0 0 0) 7) with
  | Ok v, Ok a =>
      let tv := mp4track_from (trak_rd v) in
      let ta := mp4track_from (trak_rd a) in
      (mt_track_id tv, mt_track_type tv, mt_media_type tv, mt_width tv, mt_height tv, mt_video_profile tv)
        = (1, Ok "Video", Ok "H264", 1920, 1080, Ok "AvcBaseline") /\
      (mt_track_id ta, mt_track_type ta, mt_media_type ta, mt_audio_profile ta, mt_sample_freq_index ta,
       mt_channel_config ta, mt_bitrate ta, mt_language ta)
        = (2, Ok "Audio", Ok "AAC", Ok "AacLowComplexity", Ok "Freq48000", Ok "Stereo", Some 128000, [101; 110; 103])
  | _, _ => False
  end.
Proof. vm_compute. split; reflexivity. Qed.

Print Assumptions moov_rd_enc.
Print Assumptions conf_stsd_wf.
Print Assumptions conf_boxes_wf.
Print Assumptions mfinal_mvhd_wf.
Print Assumptions conf_ftyp_wf.
Print Assumptions conf_survives_accessors.
Print Assumptions conf_survives_accessors_rd.
