(** Round trip of [MinfBox] (minf.rs), and of [DinfBox] read on the caller's fuel *)
From MP4 Require Import KitCont BoxMinf IsoMinf IsoVmhd IsoSmhd IsoDinf IsoStbl
     RtVmhd RtSmhd RtDinf RtStbl.
From Coq Require Import ZifyN ZifyNat ZifyBool.
Open Scope string_scope.
Open Scope list_scope.
Open Scope N_scope.

(** ** [DinfBox] on the shared loop *)
Lemma minf_bt_dref : boxtype_of_u32 0x64726566 = DrefBox. Proof. vm_compute. reflexivity. Qed.

Definition dinf_i_dref := ci_of dref_size 0x64726566 iso_dref_payload (fun _ => 0%nat)
                                (fun x (_ : option dref) => Some x).
Definition dinf_items (v : dinf) : list (citem (option dref)) := [dinf_i_dref (dinf_dref v)].

Lemma dinf_items_ok m v : dinf_wf v = true -> dinf_size v < U32 ->
  Forall (ci_ok (dinf_dispatch m)) (dinf_items v).
Proof.
  intros H Hs. unfold dinf_wf in H.
  apply Forall_one. revert Hs. unfold dinf_size. intros Hs.
  assert (Hsz : dref_size (dinf_dref v) < U32) by (clear -Hs; hdr_consts; lia).
  revert Hsz. ci_leaf (cont_of_leaf _ _ _ _ _ _ dref_roundtrip) minf_bt_dref.
Qed.

Lemma dinf_fuel_dec v fuel m d l p post : dinf_wf v = true -> dinf_size v < U32 ->
  (1 <= fuel)%nat -> p + dinf_size v < 2 ^ 63 ->
  run (dec_dinf_fuel fuel m (dinf_size v)) (mkStream d l (p + 8) (iso_dinf_payload v ++ post))
  = (Ok v, mkStream d l (p + dinf_size v) post).
Proof.
  intros H Hs Hf Hp. unfold dec_dinf_fuel.
  rewrite (cont_dec_items m _ (dinf_size v) (dinf_dispatch m) (dinf_items v) (iso_dinf_payload v));
    [ | now apply dinf_items_ok | apply app_nil_r | unfold dinf_size; hdr_consts; unfold ci_total; cbn; lia | exact Hp
      | cbn; lia ].
  cbn [dinf_items ci_fold fold_left dinf_i_dref ci_of ci_upd].
  rewrite run_cont_finish by (clear -Hp; lia). destruct v; reflexivity.
Qed.

Theorem dinf_fuel_roundtrip :
  cont_roundtrip dinf_wf dinf_size 0x64696e66 enc_dinf dec_dinf_fuel iso_dinf_payload (fun _ => 1%nat).
Proof.
  intros v H Hs. destruct (dinf_roundtrip v H Hs) as (H1 & H2 & H3 & H4 & _).
  repeat split; auto. intros; now apply dinf_fuel_dec.
Qed.

(** ** MinfBox *)
Lemma minf_code : u32_of_boxtype (box_type_of "MinfBox") = 0x6d696e66.
Proof. vm_compute. reflexivity. Qed.

Definition minf_rt_wf (v : minf) : bool :=
  match minf_vmhd v with Some x => vmhd_wf x | None => true end
  && match minf_smhd v with Some x => smhd_wf x | None => true end
  && dinf_wf (minf_dinf v) && stbl_rt_wf (minf_stbl v).

Lemma minf_bt_vmhd : boxtype_of_u32 0x766d6864 = VmhdBox. Proof. vm_compute. reflexivity. Qed.
Lemma minf_bt_smhd : boxtype_of_u32 0x736d6864 = SmhdBox. Proof. vm_compute. reflexivity. Qed.
Lemma minf_bt_dinf : boxtype_of_u32 0x64696e66 = DinfBox. Proof. vm_compute. reflexivity. Qed.
Lemma minf_bt_stbl : boxtype_of_u32 0x7374626c = StblBox. Proof. vm_compute. reflexivity. Qed.

Definition minf_u_vmhd (x : vmhd) (a : minf_acc) : minf_acc := let '(vm, sm, di, st) := a in (Some x, sm, di, st).
Definition minf_u_smhd (x : smhd) (a : minf_acc) : minf_acc := let '(vm, sm, di, st) := a in (vm, Some x, di, st).
Definition minf_u_dinf (x : dinf) (a : minf_acc) : minf_acc := let '(vm, sm, di, st) := a in (vm, sm, Some x, st).
Definition minf_u_stbl (x : stbl) (a : minf_acc) : minf_acc := let '(vm, sm, di, st) := a in (vm, sm, di, Some x).

Definition minf_i_vmhd := ci_of vmhd_size 0x766d6864 iso_vmhd_payload (fun _ => 0%nat) minf_u_vmhd.
Definition minf_i_smhd := ci_of smhd_size 0x736d6864 iso_smhd_payload (fun _ => 0%nat) minf_u_smhd.
Definition minf_i_dinf := ci_of dinf_size 0x64696e66 iso_dinf_payload (fun _ => 1%nat) minf_u_dinf.
Definition minf_i_stbl := ci_of stbl_size 0x7374626c iso_stbl_payload (fun _ => 9%nat) minf_u_stbl.

Definition minf_items (v : minf) : list (citem minf_acc) :=
  ci_opt minf_i_vmhd (minf_vmhd v) ++ ci_opt minf_i_smhd (minf_smhd v) ++
  [minf_i_dinf (minf_dinf v)] ++ [minf_i_stbl (minf_stbl v)].

Ltac minf_unfold_items := unfold minf_items, minf_i_vmhd, minf_i_smhd, minf_i_dinf, minf_i_stbl.

Lemma minf_items_iso v : flat_map ci_iso (minf_items v) = iso_minf_payload v.
Proof.
  unfold iso_minf_payload. minf_unfold_items.
  destruct (minf_vmhd v), (minf_smhd v);
    cbn [flat_map ci_opt app iso_opt ci_iso ci_of ci_code ci_pl]; rewrite ?app_nil_r; reflexivity.
Qed.

Lemma minf_items_size v : minf_size v = 8 + ci_total (minf_items v).
Proof.
  unfold minf_size. minf_unfold_items. rewrite !ci_total_app.
  destruct (minf_vmhd v), (minf_smhd v);
    unfold ci_total; cbn [ci_opt map ci_of ci_size sumN fold_right]; hdr_consts; lia.
Qed.

Lemma minf_items_fuel v : (length (minf_items v) + ci_maxneed (minf_items v) <= 13)%nat.
Proof.
  minf_unfold_items. rewrite !app_length, !ci_maxneed_app.
  destruct (minf_vmhd v), (minf_smhd v); cbn [length ci_opt ci_maxneed ci_need ci_of]; lia.
Qed.

Lemma minf_items_ok m v : minf_rt_wf v = true -> minf_size v < U32 ->
  Forall (ci_ok (minf_dispatch m)) (minf_items v).
Proof.
  intros H Hs. apply Forall_ci_ok_total; [| rewrite minf_items_size in Hs; clear -Hs; lia].
  unfold minf_rt_wf in H. split_andb.
  unfold minf_items. repeat apply Forall_app_intro.
  - apply Forall_ci_opt. intros x Hx. rewrite Hx in *.
    ci_leaf_t (cont_of_leaf _ _ _ _ _ _ vmhd_roundtrip) minf_bt_vmhd.
  - apply Forall_ci_opt. intros x Hx. rewrite Hx in *.
    ci_leaf_t (cont_of_leaf _ _ _ _ _ _ smhd_roundtrip) minf_bt_smhd.
  - apply Forall_one. ci_leaf_t dinf_fuel_roundtrip minf_bt_dinf.
  - apply Forall_one. ci_leaf_t (stbl_roundtrip Dbg) minf_bt_stbl.
Qed.

Lemma minf_payload_len v : minf_rt_wf v = true -> minf_size v < U32 ->
  lenN (iso_minf_payload v) + 8 = minf_size v.
Proof.
  intros H Hs. apply (cont_payload_len (minf_dispatch Dbg) (minf_items v)).
  - now apply minf_items_ok.
  - apply minf_items_iso.
  - apply minf_items_size.
Qed.

Ltac minf_child me Hs :=
  lazymatch goal with
  | |- wspec (enc_vmhd _) _ _ => apply (cont_rt_wspec _ _ _ _ _ _ _ _ (cont_of_leaf _ _ _ _ _ _ vmhd_roundtrip))
  | |- wspec (enc_smhd _) _ _ => apply (cont_rt_wspec _ _ _ _ _ _ _ _ (cont_of_leaf _ _ _ _ _ _ smhd_roundtrip))
  | |- wspec (enc_dinf _) _ _ => apply (cont_rt_wspec _ _ _ _ _ _ _ _ dinf_fuel_roundtrip)
  | |- wspec (enc_stbl _ _) _ _ => apply (cont_rt_wspec _ _ _ _ _ _ _ _ (stbl_roundtrip me))
  end;
  [ assumption | let Hs' := fresh "Hs" in pose proof Hs as Hs'; unfold minf_size in Hs'; cont_size_tac Hs' ].

Ltac minf_opt me Hs :=
  let x := fresh "x" in let Hx := fresh "Hx" in
  apply wspec_opt_child; intros x Hx; unfold minf_size in Hs; rewrite Hx in *; eexists; minf_child me Hs.

Lemma minf_enc me v : minf_rt_wf v = true -> minf_size v < U32 ->
  wspec (enc_minf me v) (minf_size v) (be 4 (minf_size v) ++ be 4 0x6d696e66 ++ iso_minf_payload v).
Proof.
  intros H Hs. rewrite <- minf_code. unfold minf_rt_wf in H. split_andb.
  unfold enc_minf, iso_minf_payload.
  eapply wspec_out.
  - wspec_go.
    + minf_opt me Hs.
    + minf_opt me Hs.
    + minf_child me Hs.
    + minf_child me Hs.
  - rewrite <- ?app_assoc, ?app_nil_r. reflexivity.
Qed.

Lemma minf_dec v fuel m d l p post : minf_rt_wf v = true -> minf_size v < U32 ->
  (13 <= fuel)%nat -> p + minf_size v < 2 ^ 63 ->
  run (dec_minf_fuel fuel m (minf_size v)) (mkStream d l (p + 8) (iso_minf_payload v ++ post))
  = (Ok v, mkStream d l (p + minf_size v) post).
Proof.
  intros H Hs Hf Hp. unfold dec_minf_fuel.
  rewrite (cont_dec_items m _ (minf_size v) (minf_dispatch m) (minf_items v) (iso_minf_payload v));
    [ | now apply minf_items_ok | apply minf_items_iso | apply minf_items_size | exact Hp
      | pose proof (minf_items_fuel v); lia ].
  minf_unfold_items. rewrite !ci_fold_app.
  destruct v as [vm sm di st].
  cbn [minf_vmhd minf_smhd minf_dinf minf_stbl] in *.
  destruct vm, sm;
    cbn [ci_fold fold_left ci_opt ci_of ci_upd minf_u_vmhd minf_u_smhd minf_u_dinf minf_u_stbl];
    apply run_cont_finish; (clear -Hp; lia).
Qed.

Theorem minf_roundtrip me :
  cont_roundtrip minf_rt_wf minf_size 0x6d696e66 (enc_minf me) dec_minf_fuel iso_minf_payload (fun _ => 13%nat).
Proof.
  apply cont_roundtrip_intro.
  - apply minf_enc.
  - apply minf_payload_len.
  - intros; now apply minf_dec.
Qed.

Print Assumptions dinf_fuel_roundtrip.
Print Assumptions minf_roundtrip.
