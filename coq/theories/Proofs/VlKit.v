(** Proof helpers shared by the round-trip proofs of worker [varleaf]
    (ftyp, hdlr, emsg, data, tx3g, vpcc, vp09, dinf/dref/url, trun). *)
From MP4 Require Export Kit VlLib.
From Coq Require Import ZifyN ZifyNat ZifyBool.
Open Scope string_scope.
Open Scope list_scope.
Open Scope N_scope.

(** ** Encoders: appender + final value + output in one predicate *)
Definition wspec {A} (p : wprog A) (a : A) (out : bytes) : Prop :=
  appender p /\ wfin p = Ok a /\ wout p = out.

Lemma wspec_ret {A} (a : A) : wspec (WRet a) a [].
Proof. repeat split. Qed.

Lemma wspec_wr l : wspec (wr l) tt l.
Proof. unfold wspec, wr. cbn [appender wfin wout]. now rewrite app_nil_r. Qed.

Lemma wspec_bind {A B} (p : wprog A) (f : A -> wprog B) a o1 b o2 :
  wspec p a o1 -> wspec (f a) b o2 -> wspec (wbind p f) b (o1 ++ o2).
Proof.
  revert o1. induction p as [a'|e|x|l k IH|q k IH|k IH]; intros o1 (Ha & Hf & Ho) H2;
    cbn [wbind appender wfin wout] in *; try tauto; try discriminate.
  - inversion Hf; subst. exact H2.
  - subst o1. destruct (IH (wout k) (conj Ha (conj Hf eq_refl)) H2) as (I1 & I2 & I3).
    repeat split; auto. cbn [wout]. now rewrite I3, app_assoc.
Qed.

Lemma wspec_out {A} (p : wprog A) a o o' : wspec p a o -> o = o' -> wspec p a o'.
Proof. now intros H <-. Qed.

Lemma wspec_header name size : size < U32 ->
  wspec (write_header name size) 8 (be 4 size ++ be 4 (u32_of_boxtype name)).
Proof.
  intros H. rewrite write_header_small by exact H. repeat split.
Qed.

Lemma wspec_header_ext v f : f < 256 ^ N.of_nat 3 ->
  wspec (write_header_ext v f) 4 (be 1 v ++ be 3 f).
Proof.
  intros H. rewrite write_header_ext_small by exact H. repeat split.
Qed.

Lemma wspec_each {A} (f : A -> wprog unit) (enc : A -> bytes) (l : list A) :
  (forall x, In x l -> wspec (f x) tt (enc x)) ->
  wspec (vl_wr_each f l) tt (flat_map enc l).
Proof.
  induction l as [|x t IH]; intros H; cbn [vl_wr_each flat_map].
  - apply wspec_ret.
  - apply wspec_bind with (a := tt); [apply H; now left|]. apply IH. intros; apply H; now right.
Qed.

(** the first three conjuncts of [leaf_roundtrip] *)
Lemma wspec_leaf {A} (p : wprog A) a o :
  wspec p a o -> wfin p = Ok a /\ appender p /\ wout p = o.
Proof. intros (H1 & H2 & H3). auto. Qed.

(** one step of encoder normalisation: peel a bind whose head is an atom *)
Ltac wspec_atom :=
  first [ apply wspec_wr
        | apply wspec_ret
        | (apply wspec_header; assumption)
        | (apply wspec_header_ext; assumption) ].

(** decompose an encoder along its binds; goals whose head is not an atom are left to the caller *)
Ltac wspec_go :=
  lazymatch goal with
  | |- wspec (wbind _ _) _ _ => eapply wspec_bind; [ wspec_go | cbv beta; wspec_go ]
  | |- _ => first [ wspec_atom | idtac ]
  end.

Lemma leaf_roundtrip_intro {X} (wf : X -> bool) (size : X -> N) code enc dec payload :
  (forall v, wf v = true -> size v < U32 ->
     wspec (enc v) (size v) (be 4 (size v) ++ be 4 code ++ payload v)) ->
  (forall v, wf v = true -> lenN (payload v) + 8 = size v) ->
  (forall v m d l p post, wf v = true -> size v < U32 -> p + size v < 2 ^ 63 ->
     run (dec m (size v)) (mkStream d l (p + 8) (payload v ++ post))
     = (Ok v, mkStream d l (p + size v) post)) ->
  leaf_roundtrip wf size code enc dec payload.
Proof.
  intros He Hl Hd v Hw Hs. destruct (He v Hw Hs) as (H1 & H2 & H3).
  repeat split; auto.
Qed.

(** ** Decoders *)
Lemma run_box_start {A} m (k : N -> prog A) d l p v :
  run (bind (box_start m) k) (mkStream d l (p + 8) v) = run (k p) (mkStream d l (p + 8) v).
Proof.
  unfold box_start. cbn [bind get_pos run s_pos].
  rewrite run_sub64_ok by (unfold HEADER_SIZE, Tables.HEADER_SIZE; lia).
  f_equal. f_equal. unfold HEADER_SIZE, Tables.HEADER_SIZE. lia.
Qed.

(** the common epilogue [skip_bytes_to(reader, start + size)?; Ok(v)] when the stream is there
    (in the form [prog_norm] leaves it in) *)
Lemma run_finish {A} m site start size (a : A) d l p v :
  start + size = p -> p < U64 ->
  run (bind (add64 m site start size) (fun e => SeekTo e (Ret a)))
      (mkStream d l p v) = (Ok a, mkStream d l p v).
Proof.
  intros H Hp. rewrite run_add64_ok by lia.
  rewrite run_SeekTo_here by exact H. reflexivity.
Qed.

Lemma run_alloc_bind {A} n (k : unit -> prog A) s : run (bind (alloc n) k) s = run (k tt) s.
Proof. reflexivity. Qed.

(** ** Strings *)
Lemma vl_trim_nul_app s t : vl_no_nul s = true -> vl_trim_nul (s ++ 0 :: t) = s.
Proof.
  induction s as [|b s IH]; intros H; cbn [app vl_trim_nul].
  - reflexivity.
  - cbn [vl_no_nul forallb] in H. apply andb_true_iff in H as [Hb Hs].
    destruct (b =? 0); [discriminate|]. f_equal. now apply IH.
Qed.

Lemma vl_trim_nul_id s : vl_no_nul s = true -> vl_trim_nul s = s.
Proof.
  induction s as [|b s IH]; intros H; cbn [vl_trim_nul]; auto.
  cbn [vl_no_nul forallb] in H. apply andb_true_iff in H as [Hb Hs].
  destruct (b =? 0); [discriminate|]. f_equal. now apply IH.
Qed.

Lemma vl_utf8_or_default_ok s : utf8_valid s = true -> vl_utf8_or_default s = s.
Proof. intros H. unfold vl_utf8_or_default. now rewrite H. Qed.

Lemma vl_str_ok_inv s : vl_str_ok s = true -> utf8_valid s = true /\ vl_no_nul s = true.
Proof.
  unfold vl_str_ok. intros H. apply andb_true_iff in H as [H H2]. apply andb_true_iff in H as [H0 H1]. auto.
Qed.

Lemma vl_str_ok_bytes s : vl_str_ok s = true -> bytes_ok s = true.
Proof.
  unfold vl_str_ok. intros H. apply andb_true_iff in H as [H H2]. apply andb_true_iff in H as [H0 H1]. auto.
Qed.

Lemma run_Alloc {A} n (k : prog A) s : run (Alloc n k) s = run k s.
Proof. reflexivity. Qed.


(** ** Bytes as one-byte integers *)
Lemma be1_byte b : b < 256 -> be 1 b = [b].
Proof. intros H. unfold be. cbn [le rev app]. now rewrite N.mod_small. Qed.

Lemma flat_map_be1 l : bytes_ok l = true -> flat_map (be 1) l = l.
Proof.
  induction l as [|b t IH]; intros H; cbn [flat_map]; auto.
  cbn [bytes_ok forallb] in H. apply andb_true_iff in H as [Hb Ht].
  unfold byte_ok in Hb. apply N.ltb_lt in Hb. rewrite be1_byte by exact Hb.
  cbn [app]. f_equal. now apply IH.
Qed.

Lemma forallb_ufit1_bytes_ok l : forallb (ufit 1) l = bytes_ok l.
Proof. reflexivity. Qed.

(** ** Lists *)
Lemma map_nth_seq {A} (l : list A) dflt : map (fun i => nth i l dflt) (seq 0 (length l)) = l.
Proof.
  induction l as [|a l IH]; cbn [length seq map nth]; auto.
  f_equal. rewrite <- seq_shift, map_map. exact IH.
Qed.

Lemma flat_map_nil {A B} (l : list A) : flat_map (fun _ => @nil B) l = [].
Proof. induction l; cbn [flat_map app]; auto. Qed.

Lemma lenN_flat_map_const {A} (f : A -> bytes) (l : list A) k :
  (forall x, In x l -> lenN (f x) = k) -> lenN (flat_map f l) = k * lenN l.
Proof.
  induction l as [|a l IH]; intros H; cbn [flat_map].
  - change (lenN (@nil N)) with 0. change (lenN (@nil A)) with 0. lia.
  - rewrite lenN_app, lenN_cons, IH, H by (intros; try apply H; cbn [In]; auto). lia.
Qed.

Lemma to_nat_lenN {A} (l : list A) : N.to_nat (lenN l) = length l.
Proof. unfold lenN. lia. Qed.

Lemma forallb_In {A} (f : A -> bool) l x : forallb f l = true -> In x l -> f x = true.
Proof. intros H Hx. rewrite forallb_forall in H. now apply H. Qed.

Lemma run_GetPos {A} (k : N -> prog A) d l p v :
  run (GetPos k) (mkStream d l p v) = run (k p) (mkStream d l p v).
Proof. reflexivity. Qed.

Lemma checked_sub_ok a b : b <= a -> checked_sub a b = Some (a - b).
Proof. intros H. unfold checked_sub. apply N.leb_le in H. now rewrite H. Qed.

Lemma run_bind_ok {A B} (p : prog A) (f : A -> prog B) s a s' :
  run p s = (Ok a, s') -> run (bind p f) s = run (f a) s'.
Proof. intros H. now rewrite run_bind, H. Qed.

Lemma run_rd_vec0_bind {A} (k : bytes -> prog A) s : run (bind (rd_vec 0) k) s = run (k []) s.
Proof. reflexivity. Qed.

(** a 32-bit-size box: ISO/IEC 14496-12 4.2 *)
Lemma lenN_box8 (pl : bytes) code : lenN (be 4 (8 + lenN pl) ++ be 4 code ++ pl) = 8 + lenN pl.
Proof. rewrite !lenN_app, !lenN_be. lia. Qed.

(** [for _ in 0..n { v.push(reader.read_u8()?) }] over bytes *)
Lemma run_rd_n_u8_bytes {B} (md : bytes) (k : list N -> prog B) d l p rest :
  bytes_ok md = true ->
  run (bind (rd_n (length md) rd_u8) k) (mkStream d l p (md ++ rest))
  = run (k md) (mkStream d l (p + lenN md) rest).
Proof.
  intros H.
  pose proof (run_rd_n_bind rd_u8 (be 1) 1 md k d l p rest) as E.
  rewrite (flat_map_be1 md H), N.mul_1_l in E. apply E.
  intros x k' p' rest' Hx. apply run_rd_u_bind; [lia|].
  rewrite pow256_1. unfold bytes_ok in H. rewrite forallb_forall in H.
  specialize (H x Hx). unfold byte_ok in H. now apply N.ltb_lt in H.
Qed.
