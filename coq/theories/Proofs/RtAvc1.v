(** Round trip of [AvcCBox] and [Avc1Box] *)
From MP4 Require Import KitCodecs BoxAvc1 IsoAvc1.
From Coq Require Import ZifyN ZifyNat ZifyBool.
Open Scope string_scope.
Open Scope list_scope.
Open Scope N_scope.

Lemma avcc_code : u32_of_boxtype (box_type_of "AvcCBox") = 0x61766343.
Proof. vm_compute. reflexivity. Qed.
Lemma avc1_code : u32_of_boxtype (box_type_of "Avc1Box") = 0x61766331.
Proof. vm_compute. reflexivity. Qed.

(** ** bit fields *)
Lemma avcc_lor_252 x : x < 4 -> N.lor x 252 = 63 * 4 + x.
Proof. apply (eqb_of_forall_below (fun x => N.lor x 252) (fun x => 63 * 4 + x) 4). vm_compute. reflexivity. Qed.
Lemma avcc_land_3 x : x < 4 -> N.land (63 * 4 + x) 3 = x.
Proof. apply (eqb_of_forall_below (fun x => N.land (63 * 4 + x) 3) (fun x => x) 4). vm_compute. reflexivity. Qed.
Lemma avcc_lor_224 x : x < 32 -> N.lor (cast_w U8 x) 224 = 7 * 32 + x.
Proof. apply (eqb_of_forall_below (fun x => N.lor (cast_w U8 x) 224) (fun x => 7 * 32 + x) 32). vm_compute. reflexivity. Qed.
Lemma avcc_land_31 x : x < 32 -> N.land (7 * 32 + x) 31 = x.
Proof. apply (eqb_of_forall_below (fun x => N.land (7 * 32 + x) 31) (fun x => x) 32). vm_compute. reflexivity. Qed.

(** ** NalUnit *)
Lemma nalunit_len u : lenN (iso_nalunit u) = nalunit_size u.
Proof. unfold iso_nalunit, nalunit_size. now rewrite lenN_app, lenN_be. Qed.

Lemma nalunit_enc u : nalunit_wf u = true ->
  appender (enc_nalunit u) /\ is_ok (wfin (enc_nalunit u)) = true /\ wout (enc_nalunit u) = iso_nalunit u.
Proof.
  intros H. unfold nalunit_wf in H. split_andb.
  unfold enc_nalunit, iso_nalunit. enc_norm. cbn [appender is_ok].
  rewrite cast_u16_small by assumption. rewrite app_nil_r. auto.
Qed.

Lemma nalunit_dec {B} u (k' : nalunit -> prog B) d l p' rest' : nalunit_wf u = true ->
  run (bind dec_nalunit k') (mkStream d l p' (iso_nalunit u ++ rest'))
  = run (k' u) (mkStream d l (p' + lenN (iso_nalunit u)) rest').
Proof.
  intros H. unfold nalunit_wf in H. split_andb.
  unfold dec_nalunit, iso_nalunit. rewrite <- !app_assoc.
  rd_step. unfold rd_vec. cbn [bind].
  rewrite run_rd_vec_raw by reflexivity. cbn [bind].
  rewrite lenN_app, lenN_be. destruct u as [b]. cbn [nalunit_bytes].
  f_equal. f_equal. lia.
Qed.

Lemma nalunits_forall l : forallb nalunit_wf l = true -> forall x, In x l -> nalunit_wf x = true.
Proof. intros H. now apply forallb_forall. Qed.

(** ** AvcCBox *)
Lemma avcc_size_eq v :
  avcc_size v = 15 + lenN (flat_map iso_nalunit (avcc_sequence_parameter_sets v))
                + lenN (flat_map iso_nalunit (avcc_picture_parameter_sets v)).
Proof.
  unfold avcc_size. rewrite !fold_left_sum, !lenN_flat_map.
  rewrite (sumN_map_ext_in (fun x => lenN (iso_nalunit x)) nalunit_size (avcc_sequence_parameter_sets v))
    by (intros; apply nalunit_len).
  rewrite (sumN_map_ext_in (fun x => lenN (iso_nalunit x)) nalunit_size (avcc_picture_parameter_sets v))
    by (intros; apply nalunit_len).
  reflexivity.
Qed.

Lemma avcc_payload_len v : lenN (iso_avcc_payload v) + 8 = avcc_size v.
Proof.
  rewrite avcc_size_eq. unfold iso_avcc_payload. rewrite !lenN_app, !lenN_be. lia.
Qed.

Lemma avcc_enc v : avcc_wf v = true -> avcc_size v < U32 ->
  wfin (enc_avcc v) = Ok (avcc_size v) /\ appender (enc_avcc v) /\
  wout (enc_avcc v) = be 4 (avcc_size v) ++ be 4 0x61766343 ++ iso_avcc_payload v.
Proof.
  intros H Hs. unfold enc_avcc, iso_avcc_payload. unfold avcc_wf in H. split_andb.
  repeat match goal with H : (_ <? _) = true |- _ => apply N.ltb_lt in H end.
  rewrite write_header_small by exact Hs. rewrite avcc_code.
  rewrite avcc_lor_252, avcc_lor_224 by assumption.
  assert (Hsps : forall x, In x (avcc_sequence_parameter_sets v) -> nalunit_wf x = true)
    by (apply nalunits_forall; assumption).
  assert (Hpps : forall x, In x (avcc_picture_parameter_sets v) -> nalunit_wf x = true)
    by (apply nalunits_forall; assumption).
  set (W1 := wr_each enc_nalunit (avcc_sequence_parameter_sets v)).
  set (W2 := wr_each enc_nalunit (avcc_picture_parameter_sets v)).
  enc_norm. subst W1 W2.
  rewrite !(wr_each_wfin_bind enc_nalunit iso_nalunit), !(wr_each_wout_bind enc_nalunit iso_nalunit)
    by (first [intros x Hx; apply nalunit_enc, Hsps, Hx | intros x Hx; apply nalunit_enc, Hpps, Hx]).
  enc_norm.
  rewrite !(wr_each_wfin_bind enc_nalunit iso_nalunit), !(wr_each_wout_bind enc_nalunit iso_nalunit)
    by (first [intros x Hx; apply nalunit_enc, Hsps, Hx | intros x Hx; apply nalunit_enc, Hpps, Hx]).
  split; [reflexivity|]. split.
  - cbn [appender]. apply wr_each_appender_bind; [intros x Hx; apply nalunit_enc, Hsps, Hx|].
    cbn [appender].
    apply wr_each_appender_bind; [intros x Hx; apply nalunit_enc, Hpps, Hx | exact I].
  - cbn [wout].
    rewrite cast_u8_small by (rewrite pow256_1; assumption).
    rewrite app_nil_r. reflexivity.
Qed.

Lemma avcc_dec m v d l p post : avcc_wf v = true -> p + avcc_size v < 2^63 ->
  run (dec_avcc m (avcc_size v)) (mkStream d l (p + 8) (iso_avcc_payload v ++ post))
  = (Ok v, mkStream d l (p + avcc_size v) post).
Proof.
  intros H Hp. unfold dec_avcc, iso_avcc_payload. unfold avcc_wf in H. split_andb.
  repeat match goal with H : (_ <? _) = true |- _ => apply N.ltb_lt in H end.
  pose proof (avcc_size_eq v) as Hsz.
  assert (Hsps : forall x, In x (avcc_sequence_parameter_sets v) -> nalunit_wf x = true)
    by (apply nalunits_forall; assumption).
  assert (Hpps : forall x, In x (avcc_picture_parameter_sets v) -> nalunit_wf x = true)
    by (apply nalunits_forall; assumption).
  assert (L1 : avcc_length_size_minus_one v < 4) by assumption.
  assert (L2 : lenN (avcc_sequence_parameter_sets v) < 32) by assumption.
  assert (B1 : 63 * 4 + avcc_length_size_minus_one v < 256 ^ N.of_nat 1) by (rewrite pow256_1; clear -L1; lia).
  assert (B2 : 7 * 32 + lenN (avcc_sequence_parameter_sets v) < 256 ^ N.of_nat 1) by (rewrite pow256_1; clear -L2; lia).
  assert (B3 : lenN (avcc_picture_parameter_sets v) < 256 ^ N.of_nat 1) by (rewrite pow256_1; assumption).
  rewrite <- !app_assoc.
  prog_norm. cbn [run s_pos].
  rewrite run_sub64_ok by (clear; unfold HEADER_SIZE, Tables.HEADER_SIZE; lia).
  do 6 rd_step.
  rewrite avcc_land_31 by assumption. rewrite to_nat_lenN'.
  prog_norm. rewrite run_Alloc'.
  rewrite (run_rd_n_var dec_nalunit iso_nalunit (p + avcc_size v));
    [| intros; apply nalunit_dec, Hsps; assumption | clear -Hsz; lia].
  rd_step. rewrite to_nat_lenN'. prog_norm. rewrite run_Alloc'.
  rewrite (run_rd_n_var dec_nalunit iso_nalunit (p + avcc_size v));
    [| intros; apply nalunit_dec, Hpps; assumption | clear -Hsz; lia].
  rewrite run_add64_ok by (clear -Hsz Hp; unfold HEADER_SIZE, Tables.HEADER_SIZE, U64; lia).
  prog_norm.
  rewrite run_SeekTo_here by (clear -Hsz; unfold HEADER_SIZE, Tables.HEADER_SIZE; lia).
  cbn [run]. rewrite avcc_land_3 by assumption. f_equal.
  - destruct v; reflexivity.
  - f_equal. clear -Hsz. lia.
Qed.

Theorem avcc_roundtrip : leaf_roundtrip avcc_wf avcc_size 0x61766343 enc_avcc dec_avcc iso_avcc_payload.
Proof.
  intros v H Hs. destruct (avcc_enc v H Hs) as (H1 & H2 & H3).
  split; [exact H1|]. split; [exact H2|]. split; [exact H3|].
  split; [apply avcc_payload_len|].
  intros m d l p post Hp. now apply avcc_dec.
Qed.

(** ** Avc1Box *)
Lemma avc1_boxtype_avcc : boxtype_of_u32 0x61766343 = AvcCBox.
Proof. vm_compute. reflexivity. Qed.
Lemma avc1_eqb_avcc : boxtype_eqb AvcCBox AvcCBox = true.
Proof. vm_compute. reflexivity. Qed.

(** the payload in the shape the Rust code reads and writes it *)
Definition avc1_payload (v : avc1) : bytes :=
  be 4 0 ++ be 2 0 ++ be 2 (avc1_data_reference_index v) ++
  be 4 0 ++ be 8 0 ++ be 4 0 ++
  be 2 (avc1_width v) ++ be 2 (avc1_height v) ++
  be 4 (avc1_horizresolution v) ++ be 4 (avc1_vertresolution v) ++
  be 4 0 ++
  be 2 (avc1_frame_count v) ++
  repeat 0 32 ++
  be 2 (avc1_depth v) ++
  be 2 65535 ++
  be 4 (avcc_size (avc1_avcc v)) ++ be 4 0x61766343 ++ iso_avcc_payload (avc1_avcc v).

Lemma avc1_payload_iso v : iso_avc1_payload v = avc1_payload v.
Proof.
  unfold iso_avc1_payload, avc1_payload, iso_avc1_box.
  replace (8 + lenN (iso_avcc_payload (avc1_avcc v))) with (avcc_size (avc1_avcc v))
    by (rewrite <- avcc_payload_len; lia).
  reflexivity.
Qed.

Lemma avc1_payload_len v : lenN (iso_avc1_payload v) + 8 = avc1_size v.
Proof.
  rewrite avc1_payload_iso. unfold avc1_payload, avc1_size.
  rewrite !lenN_app, !lenN_be, lenN_repeat. rewrite <- (avcc_payload_len (avc1_avcc v)).
  unfold HEADER_SIZE, Tables.HEADER_SIZE. lia.
Qed.

Lemma avc1_enc v : avc1_wf v = true -> avc1_size v < U32 ->
  wfin (enc_avc1 v) = Ok (avc1_size v) /\ appender (enc_avc1 v) /\
  wout (enc_avc1 v) = be 4 (avc1_size v) ++ be 4 0x61766331 ++ iso_avc1_payload v.
Proof.
  intros H Hs. rewrite avc1_payload_iso. unfold enc_avc1, avc1_payload. unfold avc1_wf in H. split_andb.
  assert (Hs2 : avcc_size (avc1_avcc v) < U32)
    by (clear -Hs; unfold avc1_size, HEADER_SIZE, Tables.HEADER_SIZE in Hs; lia).
  destruct (avcc_enc (avc1_avcc v)) as (E1 & E2 & E3); [assumption | exact Hs2 |].
  rewrite write_header_small by exact Hs. rewrite avc1_code.
  set (E := enc_avcc (avc1_avcc v)) in *.
  enc_norm. rewrite wfin_wr_zeros_bind, wout_wr_zeros_bind. enc_norm.
  rewrite wfin_bind, wout_bind by exact E2. rewrite E1, E3. cbn [res_bind wfin wout].
  split; [reflexivity|]. split.
  - cbn [appender]. apply appender_bind; [apply wr_zeros_out|]. intros _.
    cbn [appender]. apply appender_bind; [exact E2 | intros; exact I].
  - rewrite app_nil_r. rewrite <- ?app_assoc. reflexivity.
Qed.

Lemma avc1_dec m v d l p post : avc1_wf v = true -> avc1_size v < U32 -> p + avc1_size v < 2^63 ->
  run (dec_avc1 m (avc1_size v)) (mkStream d l (p + 8) (iso_avc1_payload v ++ post))
  = (Ok v, mkStream d l (p + avc1_size v) post).
Proof.
  intros H Hs Hp. rewrite avc1_payload_iso. unfold dec_avc1, dec_avc1_fuel, avc1_payload.
  unfold avc1_wf in H. split_andb.
  assert (Hsz : avc1_size v = 86 + avcc_size (avc1_avcc v)) by reflexivity.
  assert (Hc : 15 <= avcc_size (avc1_avcc v)) by (rewrite avcc_size_eq; lia).
  rewrite Nat.add_1_r.
  rewrite <- !app_assoc.
  prog_norm. cbn [run s_pos].
  rewrite run_sub64_ok by (clear; unfold HEADER_SIZE, Tables.HEADER_SIZE; lia).
  do 12 rd_step.
  prog_norm.
  rewrite (run_SeekRel_app _ 32 (repeat 0 32)) by (first [reflexivity | clear -Hsz Hp; lia]).
  do 2 rd_step.
  rewrite run_add64_ok by (clear -Hsz Hp; unfold HEADER_SIZE, Tables.HEADER_SIZE, U64; lia).
  cbn [avc1_find]. prog_norm. cbn [run s_pos].
  match goal with |- context [mkStream d l ?q (be 4 (avcc_size _) ++ _)] =>
    replace q with (p + 78 + 8) by (clear; lia) end.
  replace (p + 8 - HEADER_SIZE + avc1_size v <=? p + 78 + 8) with false
    by (symmetry; apply N.leb_gt; clear -Hsz Hc; unfold HEADER_SIZE, Tables.HEADER_SIZE; lia).
  cbv iota. rewrite bind_bind.
  rewrite run_read_header_bind
    by (first [ clear -Hs Hsz; lia | clear -Hc; lia | clear; vm_compute; reflexivity ]).
  cbv beta iota.
  replace (avc1_size v <? avcc_size (avc1_avcc v)) with false
    by (symmetry; apply N.ltb_ge; clear -Hsz; lia).
  replace (avcc_size (avc1_avcc v) =? 0) with false
    by (symmetry; apply N.eqb_neq; clear -Hc; lia).
  rewrite avc1_boxtype_avcc, avc1_eqb_avcc. cbv iota.
  rewrite bind_bind, run_bind.
  rewrite (avcc_dec m (avc1_avcc v) d l (p + 78 + 8)) by (first [assumption | clear -Hsz Hp; lia]).
  cbv beta iota. rewrite bind_bind.
  rewrite run_add64_ok by (clear -Hsz Hp; unfold HEADER_SIZE, Tables.HEADER_SIZE, U64; lia).
  prog_norm.
  rewrite run_SeekTo_here by (clear -Hsz; unfold HEADER_SIZE, Tables.HEADER_SIZE; lia).
  cbn [run bind]. f_equal.
  - destruct v; reflexivity.
  - f_equal. clear -Hsz. lia.
Qed.

Theorem avc1_roundtrip : leaf_roundtrip avc1_wf avc1_size 0x61766331 enc_avc1 dec_avc1 iso_avc1_payload.
Proof.
  intros v H Hs. destruct (avc1_enc v H Hs) as (H1 & H2 & H3).
  split; [exact H1|]. split; [exact H2|]. split; [exact H3|].
  split; [apply avc1_payload_len|].
  intros m d l p post Hp. now apply avc1_dec.
Qed.

Print Assumptions avcc_roundtrip.
Print Assumptions avc1_roundtrip.
