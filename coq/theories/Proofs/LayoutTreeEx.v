(** * Layout independence over box trees: the theorem applies (non-vacuity)

    A complete file as a box tree (ftyp, moov with one trak down to the sample tables, mdat), and
    the layout change the property is about: a free box is inserted before the moov, three spare
    bytes are added after the tkhd, the stbl gets a 64-bit header -- which moves the media data by
    19 + 3 + 8 = 30 bytes -- and the chunk offset in the stco (five containers deep) is rewritten by
    that displacement.  All lists are [good], the steps are [cstep]s, and
    [C12_layout_independence_canonical] gives the conclusion of C12 for the two files. *)
From MP4 Require Import LayoutKit LayoutProofs LayoutMore LayoutOpen LayoutOpenS Reader.
From MP4 Require Import C12 LayoutTreeKit LayoutTree LayoutTree2 LayoutShift.
From MP4 Require Import RtMvhd IsoTkhd IsoMdhd IsoVmhd IsoStts IsoCtts IsoStsc IsoStsz IsoStss IsoStco.
From MP4 Require Import IsoFtyp IsoDinf IsoStsd RtStsd.
From MP4 Require Track.
From Coq Require Import Relations Lia.
Open Scope string_scope.
Open Scope list_scope.
Open Scope N_scope.

Definition ex_ftyp_v := mkFtyp 0x69736f6d 512 [0x69736f6d; 0x61766331].
Definition ex_ftyp : btree := BLeaf (mkChild false 0x66747970 (iso_ftyp_payload ex_ftyp_v)).
Definition ex_mdat : btree := BLeaf (mkChild false 0x6d646174 (map N.of_nat (seq 100 60))).
Definition ex_free : btree := BLeaf (mkChild false 0x66726565 (repeat 7 11)).

Definition ex_stbl_kids (off : N) : list btree :=
  [ BLeaf (mkChild false 0x73747364 (iso_stsd_payload (stbl_stsd stbl_test)));
    BLeaf (mkChild false 0x73747473 (iso_stts_payload (stbl_stts stbl_test) ++ []));
    BLeaf (mkChild false 0x73747363 (iso_stsc_payload (stbl_stsc stbl_test) ++ []));
    BLeaf (mkChild false 0x7374737a (iso_stsz_payload (stbl_stsz stbl_test) ++ []));
    BLeaf (mkChild false 0x7374636f (iso_stco_payload (mkStco 0 0 [off]) ++ [])) ].
Definition ex_stbl_v (off : N) : stbl :=
  mkStbl (stbl_stsd stbl_test) (stbl_stts stbl_test) None None (stbl_stsc stbl_test) (stbl_stsz stbl_test)
         (Some (mkStco 0 0 [off])) None.

(** [w]: header form of the stbl; [sp]: spare bytes after the tkhd *)
Definition ex_minf_kids (w : bool) (off : N) : list btree :=
  [ BLeaf (mkChild false 0x766d6864 (iso_vmhd_payload vmhd_default ++ []));
    BNode false 0x64696e66 [BLeaf (mkChild false 0x64726566 (iso_dref_payload dref_default))];
    BNode w 0x7374626c (ex_stbl_kids off) ].
Definition ex_mdia_kids (w : bool) (off : N) : list btree :=
  [ BLeaf (mkChild false 0x6d646864 (iso_mdhd_payload mdhd_default ++ []));
    BLeaf (mkChild false 0x68646c72 (IsoHdlr.iso_hdlr_payload (mdia_hdlr mdia_test) ++ []));
    BNode false 0x6d696e66 (ex_minf_kids w off) ].
Definition ex_tkhd (sp : bytes) : btree :=
  BLeaf (mkChild false 0x746b6864 (iso_tkhd_payload (trak_tkhd trak_test) ++ sp)).
Definition ex_trak_kids (w : bool) (sp : bytes) (off : N) : list btree :=
  [ ex_tkhd sp; BNode false 0x6d646961 (ex_mdia_kids w off) ].
Definition ex_moov_kids (w : bool) (sp : bytes) (off : N) : list btree :=
  [ BLeaf (mkChild false 0x6d766864 (mvhd_payload mvhd_default ++ []));
    BNode false 0x7472616b (ex_trak_kids w sp off) ].
Definition ex_moov (w : bool) (sp : bytes) (off : N) : btree := BNode false 0x6d6f6f76 (ex_moov_kids w sp off).

Definition ex_moov_v (off : N) : moov :=
  mkMoov mvhd_default None None
    [mkTrak (trak_tkhd trak_test) None None
       (mkMdia mdhd_default (mdia_hdlr mdia_test)
          (mkMinf (Some vmhd_default) None dinf_default (ex_stbl_v off)))] None.

Ltac wf_kids := repeat constructor; vm_compute; reflexivity.
Ltac small := vm_compute; reflexivity.

(** the moov is canonical, for the concrete offsets used below *)
Lemma ex_moov_sem m w sp off :
  (w = false \/ w = true) -> (sp = [] \/ sp = [1; 2; 3]) -> (off = 634 \/ off = 664) ->
  sem_open m (ex_moov w sp off) (OI_moov (ex_moov_v off)).
Proof.
  intros Hw Hsp Hoff.
  apply (sem_open_moov m false _ [VI_mvhd mvhd_default; VI_trak (hd trak_default (moov_traks (ex_moov_v off)))]).
  - constructor; [apply sem_moov_mvhd; vm_compute; reflexivity|]. constructor; [|constructor].
    apply (sem_moov_trak m false _ [TI_tkhd (trak_tkhd trak_test);
                                    TI_mdia (trak_mdia (hd trak_default (moov_traks (ex_moov_v off))))]).
    + constructor.
      { apply sem_trak_tkhd; [vm_compute; reflexivity..|].
        destruct Hsp as [->| ->]; vm_compute; reflexivity. }
      constructor; [|constructor].
      apply (sem_trak_mdia m false _ [DI_mdhd mdhd_default; DI_hdlr (mdia_hdlr mdia_test);
                                      DI_minf (mkMinf (Some vmhd_default) None dinf_default (ex_stbl_v off))]).
      * constructor; [apply sem_mdia_mdhd; vm_compute; reflexivity|].
        constructor; [apply sem_mdia_hdlr; vm_compute; reflexivity|].
        constructor; [|constructor].
        apply (sem_mdia_minf m false _ [NI_vmhd vmhd_default; NI_dinf dinf_default; NI_stbl (ex_stbl_v off)]).
        -- constructor; [apply sem_minf_vmhd; vm_compute; reflexivity|].
           constructor.
           { apply (sem_minf_dinf m false _ [FI_dref dref_default]).
             - constructor; [apply sem_dinf_dref; vm_compute; reflexivity | constructor].
             - wf_kids.
             - reflexivity.
             - small. }
           constructor; [|constructor].
           apply (sem_minf_stbl m w _ [SI_stsd (stbl_stsd stbl_test); SI_stts (stbl_stts stbl_test);
                                       SI_stsc (stbl_stsc stbl_test); SI_stsz (stbl_stsz stbl_test);
                                       SI_stco (mkStco 0 0 [off])]).
           ++ constructor; [apply (sem_stbl_stsd m Dbg); vm_compute; reflexivity|].
              constructor; [apply sem_stbl_stts; vm_compute; reflexivity|].
              constructor; [apply sem_stbl_stsc; vm_compute; reflexivity|].
              constructor; [apply sem_stbl_stsz; vm_compute; reflexivity|].
              constructor; [|constructor].
              apply sem_stbl_stco; destruct Hoff as [->| ->]; vm_compute; reflexivity.
           ++ destruct Hoff as [->| ->]; wf_kids.
           ++ reflexivity.
           ++ destruct Hw as [->| ->]; destruct Hoff as [->| ->]; small.
        -- destruct Hw as [->| ->]; destruct Hoff as [->| ->]; wf_kids.
        -- reflexivity.
        -- destruct Hw as [->| ->]; destruct Hoff as [->| ->]; small.
      * destruct Hw as [->| ->]; destruct Hoff as [->| ->]; wf_kids.
      * reflexivity.
      * destruct Hw as [->| ->]; destruct Hoff as [->| ->]; small.
    + destruct Hw as [->| ->]; destruct Hsp as [->| ->]; destruct Hoff as [->| ->]; wf_kids.
    + reflexivity.
    + destruct Hw as [->| ->]; destruct Hsp as [->| ->]; destruct Hoff as [->| ->]; small.
  - destruct Hw as [->| ->]; destruct Hsp as [->| ->]; destruct Hoff as [->| ->]; wf_kids.
  - reflexivity.
  - destruct Hw as [->| ->]; destruct Hsp as [->| ->]; destruct Hoff as [->| ->]; small.
Qed.

(** the five lists *)
Definition ex_T0 : list btree := [ex_ftyp; ex_moov false [] 634; ex_mdat].
Definition ex_T1 : list btree := [ex_ftyp; ex_free; ex_moov false [] 634; ex_mdat].
Definition ex_T2 : list btree := [ex_ftyp; ex_free; ex_moov false [1; 2; 3] 634; ex_mdat].
Definition ex_T3 : list btree := [ex_ftyp; ex_free; ex_moov true [1; 2; 3] 634; ex_mdat].
Definition ex_T4 : list btree := [ex_ftyp; ex_free; ex_moov true [1; 2; 3] 664; ex_mdat].

Lemma ex_ftyp_sem m : sem_open m ex_ftyp (OI_ftyp ex_ftyp_v).
Proof. apply sem_open_ftyp; vm_compute; reflexivity. Qed.

Lemma ex_good m w sp off (pre : list btree) :
  (w = false \/ w = true) -> (sp = [] \/ sp = [1; 2; 3]) -> (off = 634 \/ off = 664) ->
  (pre = [] \/ pre = [ex_free]) ->
  good m (ex_ftyp :: pre ++ [ex_moov w sp off; ex_mdat]).
Proof.
  intros Hw Hsp Hoff Hpre. split; [|split].
  - destruct Hw as [->| ->]; destruct Hsp as [->| ->]; destruct Hoff as [->| ->]; destruct Hpre as [->| ->];
      repeat constructor; vm_compute; reflexivity.
  - destruct Hw as [->| ->]; destruct Hsp as [->| ->]; destruct Hoff as [->| ->]; destruct Hpre as [->| ->];
      vm_compute; reflexivity.
  - destruct Hpre as [->| ->]; cbn [app].
    + exists [OI_ftyp ex_ftyp_v; OI_moov (ex_moov_v off); OI_skip].
      constructor; [apply ex_ftyp_sem|]. constructor; [now apply ex_moov_sem|].
      constructor; [apply sem_open_mdat | constructor].
    + exists [OI_ftyp ex_ftyp_v; OI_skip; OI_moov (ex_moov_v off); OI_skip].
      constructor; [apply ex_ftyp_sem|]. constructor; [apply sem_open_skip; vm_compute; reflexivity|].
      constructor; [now apply ex_moov_sem|]. constructor; [apply sem_open_mdat | constructor].
Qed.

(** one step inside the moov, at the top level *)
Lemma ex_inside w sp off w' sp' off' :
  tstep (ex_moov w sp off) (ex_moov w' sp' off') ->
  lstep open_known [ex_ftyp; ex_free; ex_moov w sp off; ex_mdat] [ex_ftyp; ex_free; ex_moov w' sp' off'; ex_mdat].
Proof. intros H. exact (ls_inside open_known [ex_ftyp; ex_free] [ex_mdat] _ _ H). Qed.

Lemma ex_step01 : lstep open_known ex_T0 ex_T1.
Proof.
  apply (ls_insert open_known [ex_ftyp] [ex_moov false [] 634; ex_mdat]); [vm_compute; reflexivity|].
  split; vm_compute; reflexivity.
Qed.

(** the chunk offset is rewritten: moov > trak > mdia > minf > stbl > stco *)
Lemma ex_stepSTCO : lstep open_known ex_T3 ex_T4.
Proof.
  apply ex_inside.
  apply (ts_kids _ _ moov_known); [vm_compute; reflexivity|].
  apply (ls_inside moov_known [_] []).
  apply (ts_kids _ _ trak_known); [vm_compute; reflexivity|].
  apply (ls_inside trak_known [_] []).
  apply (ts_kids _ _ mdia_known); [vm_compute; reflexivity|].
  apply (ls_inside mdia_known [_; _] []).
  apply (ts_kids _ _ minf_known); [vm_compute; reflexivity|].
  apply (ls_inside minf_known [_; _] []).
  apply (ts_kids _ _ stbl_known); [vm_compute; reflexivity|].
  apply (ls_inside stbl_known [_; _; _; _] []).
  apply (ts_stco false (mkStco 0 0 [634]) (mkStco 0 0 [664]) []); reflexivity.
Qed.

(** spare bytes after the tkhd *)
Lemma ex_stepSPARE : lstep open_known ex_T1 ex_T2.
Proof.
  apply ex_inside.
  apply (ts_kids _ _ moov_known); [vm_compute; reflexivity|].
  apply (ls_inside moov_known [_] []).
  apply (ts_kids _ _ trak_known); [vm_compute; reflexivity|].
  apply (ls_inside trak_known [] [_]).
  pose proof (ts_spare (mkChild false 0x746b6864 (iso_tkhd_payload (trak_tkhd trak_test) ++ [])) [1; 2; 3]) as H.
  unfold with_tail in H. cbn [c_w64 c_code c_payload] in H. rewrite <- app_assoc in H.
  apply H. vm_compute. reflexivity.
Qed.

(** a 64-bit header on the stbl *)
Lemma ex_stepHDR : lstep open_known ex_T2 ex_T3.
Proof.
  apply ex_inside.
  apply (ts_kids _ _ moov_known); [vm_compute; reflexivity|].
  apply (ls_inside moov_known [_] []).
  apply (ts_kids _ _ trak_known); [vm_compute; reflexivity|].
  apply (ls_inside trak_known [_] []).
  apply (ts_kids _ _ mdia_known); [vm_compute; reflexivity|].
  apply (ls_inside mdia_known [_; _] []).
  apply (ts_kids _ _ minf_known); [vm_compute; reflexivity|].
  apply (ls_inside minf_known [_; _] []).
  apply ts_hdr_node.
Qed.

Lemma ex_chain : clos_refl_sym_trans _ (cstep Dbg) ex_T0 ex_T4.
Proof.
  assert (G0 : good Dbg ex_T0) by (apply (ex_good Dbg false [] 634 []); auto).
  assert (G1 : good Dbg ex_T1) by (apply (ex_good Dbg false [] 634 [ex_free]); auto).
  assert (G2 : good Dbg ex_T2) by (apply (ex_good Dbg false [1; 2; 3] 634 [ex_free]); auto).
  assert (G3 : good Dbg ex_T3) by (apply (ex_good Dbg true [1; 2; 3] 634 [ex_free]); auto).
  assert (G4 : good Dbg ex_T4) by (apply (ex_good Dbg true [1; 2; 3] 664 [ex_free]); auto).
  apply rst_trans with ex_T1; [apply rst_step; exact (conj G0 (conj G1 ex_step01))|].
  apply rst_trans with ex_T2; [apply rst_step; exact (conj G1 (conj G2 ex_stepSPARE))|].
  apply rst_trans with ex_T3; [apply rst_step; exact (conj G2 (conj G3 ex_stepHDR))|].
  apply rst_step. exact (conj G3 (conj G4 ex_stepSTCO)).
Qed.

(** the theorem, applied: whatever [ex_T0] opens to, [ex_T4] opens to the same movie *)
Theorem ex_tree_layout_independence : forall ra,
  opens Dbg (file_of ex_T0) ra -> C12_conclusion Dbg (file_of ex_T0) (file_of ex_T4) ra.
Proof.
  intros ra Hopen.
  assert (G0 : good Dbg ex_T0) by (apply (ex_good Dbg false [] 634 []); auto).
  apply (C12_layout_independence_canonical Dbg ex_T0 ex_T4 ra G0 ex_chain Hopen).
  destruct Hopen as [fuel H].
  assert (E : run (open_fuel fuel Dbg (lenN (file_of ex_T0))) (stream_at (file_of ex_T0) 0)
              = run (open_fuel 20 Dbg (lenN (file_of ex_T0))) (stream_at (file_of ex_T0) 0)).
  { apply LayoutTreeMono.open_fuel_det; [rewrite H; discriminate | vm_compute; discriminate]. }
  rewrite E in H. apply (f_equal (res_map rd_moofs)) in H. vm_compute in H.
  cbn [res_map] in H. injection H as H. symmetry. exact H.
Qed.

(** ... and it does open, the media data is where the chunk offsets say in both files, and the
    displacement is the length of the inserted box *)
Example ex_tree_files :
  (exists ra, opens Dbg (file_of ex_T0) ra) /\
  lenN (file_of ex_T0) = 694 /\ lenN (file_of ex_T4) = 724 /\ c_len (bt_child ex_free) = 19 /\
  dropN 634 (file_of ex_T0) = map N.of_nat (seq 100 60) /\
  dropN 664 (file_of ex_T4) = map N.of_nat (seq 100 60).
Proof.
  split; [eexists; exists 20%nat; vm_compute; reflexivity|].
  repeat split; vm_compute; reflexivity.
Qed.

Print Assumptions ex_tree_layout_independence.
