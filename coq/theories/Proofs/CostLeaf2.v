(** * C07/C08, leaf layer (2): the fixed-layout boxes and the boxes with length-derived buffers *)
From MP4 Require Import Cost CostLeaf.
From MP4 Require Import BoxFtyp BoxMvhd BoxMdhd BoxTkhd BoxMehd BoxMfhd BoxTfdt BoxTrex BoxSmhd
     BoxVmhd BoxTx3g BoxVpcc BoxTfhd BoxHdlr BoxDinf BoxVp09.
From Coq Require Import ZArith ZifyN ZifyNat ZifyBool Lia.
Open Scope N_scope.

Lemma mvhd_cost m size : bnd (dec_mvhd m size) 400 0.
Proof. apply bnd_of_acc. unfold dec_mvhd. acc_all. Qed.
Lemma mdhd_cost m size : bnd (dec_mdhd m size) 400 0.
Proof. apply bnd_of_acc. unfold dec_mdhd. acc_all. Qed.
Lemma tkhd_cost m size : bnd (dec_tkhd m size) 400 0.
Proof. apply bnd_of_acc. unfold dec_tkhd. acc_all. Qed.
Lemma mehd_cost m size : bnd (dec_mehd m size) 400 0.
Proof. apply bnd_of_acc. unfold dec_mehd. acc_all. Qed.
Lemma mfhd_cost m size : bnd (dec_mfhd m size) 400 0.
Proof. apply bnd_of_acc. unfold dec_mfhd. acc_all. Qed.
Lemma tfdt_cost m size : bnd (dec_tfdt m size) 400 0.
Proof. apply bnd_of_acc. unfold dec_tfdt. acc_all. Qed.
Lemma trex_cost m size : bnd (dec_trex m size) 400 0.
Proof. apply bnd_of_acc. unfold dec_trex. acc_all. Qed.
Lemma smhd_cost m size : bnd (dec_smhd m size) 400 0.
Proof. apply bnd_of_acc. unfold dec_smhd. acc_all. Qed.
Lemma vmhd_cost m size : bnd (dec_vmhd m size) 400 0.
Proof. apply bnd_of_acc. unfold dec_vmhd. acc_all. Qed.
Lemma tx3g_cost m size : bnd (dec_tx3g m size) 400 0.
Proof. apply bnd_of_acc. unfold dec_tx3g. acc_all. Qed.
Lemma vpcc_cost m size : bnd (dec_vpcc m size) 400 0.
Proof. apply bnd_of_acc. unfold dec_vpcc. acc_all. Qed.
Lemma bnd_tfhd_rd_opt flag flags rd W : bnd rd W 0 -> bnd (tfhd_rd_opt flag flags rd) W 0.
Proof.
  intros H. unfold tfhd_rd_opt. destruct (tfhd_has flag flags).
  - apply (bnd_weaken _ (W + 0) (0 + 0)); [|lia|lia]. eapply bnd_bind; [exact H|intros; apply bnd_Ret].
  - eapply bnd_weaken; [apply bnd_Ret|lia|lia].
Qed.
Ltac tfhd_step :=
  lazymatch goal with
  | |- acc _ _ (bind (tfhd_rd_opt _ _ _) _) _ _ =>
      eapply acc_bind; [apply bnd_tfhd_rd_opt; bnd_prim | acc_arith' | acc_arith' | intros ?]
  end.
Lemma tfhd_cost m size : bnd (dec_tfhd m size) 400 0.
Proof. apply bnd_of_acc. unfold dec_tfhd. repeat first [tfhd_step | acc_step]. Qed.
Lemma vp09_cost m size : bnd (dec_vp09 m size) 400 0.
Proof.
  apply bnd_of_acc. unfold dec_vp09. acc_all.
Qed.

(** length-derived buffers: [vec![0; size - k]] after a checked subtraction *)
Lemma url_cost m size : bnd (dec_url m size) (size + 400) size.
Proof. apply bnd_of_acc. unfold dec_url. acc_all. Qed.
Lemma hdlr_cost m size : bnd (dec_hdlr m size) (size + 400) size.
Proof. apply bnd_of_acc. unfold dec_hdlr. acc_all. Qed.
(** ftyp: the brand count is computed from the size *)
Lemma ftyp_cost m size : bnd (dec_ftyp m size) (2 * size + 400) 0.
Proof. apply bnd_of_acc. unfold dec_ftyp. acc_all. Qed.
