(** Round trip of [TrafBox] (traf.rs) *)
From MP4 Require Import KitCont BoxTraf IsoTfdt IsoTfhd IsoTraf IsoTrun RtTfdt RtTfhd RtTrun.
From Coq Require Import ZifyN ZifyNat ZifyBool.
Open Scope string_scope.
Open Scope list_scope.
Open Scope N_scope.


Lemma traf_code : u32_of_boxtype (box_type_of "TrafBox") = 0x74726166.
Proof. vm_compute. reflexivity. Qed.


Definition traf_rt_wf (v : traf) : bool :=
  tfhd_wf (traf_tfhd v)
  && match traf_tfdt v with Some x => tfdt_wf x | None => true end
  && match traf_trun v with Some x => trun_wf x | None => true end.

Lemma traf_bt_tfhd : boxtype_of_u32 0x74666864 = TfhdBox. Proof. vm_compute. reflexivity. Qed.
Lemma traf_bt_tfdt : boxtype_of_u32 0x74666474 = TfdtBox. Proof. vm_compute. reflexivity. Qed.
Lemma traf_bt_trun : boxtype_of_u32 0x7472756e = TrunBox. Proof. vm_compute. reflexivity. Qed.

Definition traf_u_tfhd (x : tfhd) (a : traf_acc) : traf_acc := let '(a0, a1, a2) := a in (Some x, a1, a2).
Definition traf_u_tfdt (x : tfdt) (a : traf_acc) : traf_acc := let '(a0, a1, a2) := a in (a0, Some x, a2).
Definition traf_u_trun (x : trun) (a : traf_acc) : traf_acc := let '(a0, a1, a2) := a in (a0, a1, Some x).

Definition traf_i_tfhd := ci_of tfhd_size 0x74666864 iso_tfhd_payload (fun _ => 0%nat) traf_u_tfhd.
Definition traf_i_tfdt := ci_of tfdt_size 0x74666474 iso_tfdt_payload (fun _ => 0%nat) traf_u_tfdt.
Definition traf_i_trun := ci_of trun_size 0x7472756e iso_trun_payload (fun _ => 0%nat) traf_u_trun.

Definition traf_items (v : traf) : list (citem traf_acc) :=
  [traf_i_tfhd (traf_tfhd v)] ++
  ci_opt traf_i_tfdt (traf_tfdt v) ++
  ci_opt traf_i_trun (traf_trun v).

Ltac traf_unfold_items := unfold traf_items.
Ltac traf_unfold_i := unfold traf_i_tfhd, traf_i_tfdt, traf_i_trun in *.

Lemma traf_items_iso v : flat_map ci_iso (traf_items v) = iso_traf_payload v.
Proof.
  unfold iso_traf_payload. traf_unfold_items. rewrite !flat_map_app, ?flat_map_ci_iso_map. traf_unfold_i.
  destruct (traf_tfdt v), (traf_trun v);
    cbn [flat_map ci_opt app iso_opt ci_iso ci_of ci_code ci_pl]; rewrite <- ?app_assoc, ?app_nil_r; reflexivity.
Qed.

Lemma traf_items_size v : traf_size v = 8 + ci_total (traf_items v).
Proof.
  unfold traf_size. traf_unfold_items. rewrite !ci_total_app.
  traf_unfold_i.
  destruct (traf_tfdt v), (traf_trun v);
    unfold ci_total; cbn [ci_opt map ci_of ci_size sumN fold_right]; hdr_consts; lia.
Qed.

Definition traf_fuel (v : traf) : nat := (3)%nat.

Lemma traf_items_fuel v : (length (traf_items v) + ci_maxneed (traf_items v) <= traf_fuel v)%nat.
Proof.
  unfold traf_fuel. traf_unfold_items. rewrite !app_length, !ci_maxneed_app, ?map_length.
  traf_unfold_i.
  destruct (traf_tfdt v), (traf_trun v);
    cbn [length ci_opt ci_maxneed ci_need ci_of]; lia.
Qed.

Lemma traf_items_ok m v : traf_rt_wf v = true -> traf_size v < U32 ->
  Forall (ci_ok (traf_dispatch m)) (traf_items v).
Proof.
  intros H Hs. apply Forall_ci_ok_total; [| rewrite traf_items_size in Hs; clear -Hs; lia].
  unfold traf_rt_wf in H. split_andb.
  unfold traf_items. repeat apply Forall_app_intro.
  - apply Forall_one. ci_leaf_t (cont_of_leaf _ _ _ _ _ _ tfhd_roundtrip) traf_bt_tfhd.
  - apply Forall_ci_opt. intros x Hx. rewrite Hx in *. ci_leaf_t (cont_of_leaf _ _ _ _ _ _ tfdt_roundtrip) traf_bt_tfdt.
  - apply Forall_ci_opt. intros x Hx. rewrite Hx in *. ci_leaf_t (cont_of_leaf _ _ _ _ _ _ trun_roundtrip) traf_bt_trun.
Qed.

Lemma traf_payload_len v : traf_rt_wf v = true -> traf_size v < U32 ->
  lenN (iso_traf_payload v) + 8 = traf_size v.
Proof.
  intros H Hs. apply (cont_payload_len (traf_dispatch Dbg) (traf_items v)).
  - now apply traf_items_ok.
  - apply traf_items_iso.
  - apply traf_items_size.
Qed.

Ltac traf_child me Hs :=
  lazymatch goal with
  | |- wspec (enc_tfhd _) _ _ => apply (cont_rt_wspec _ _ _ _ _ _ _ _ (cont_of_leaf _ _ _ _ _ _ tfhd_roundtrip))
  | |- wspec (enc_tfdt _) _ _ => apply (cont_rt_wspec _ _ _ _ _ _ _ _ (cont_of_leaf _ _ _ _ _ _ tfdt_roundtrip))
  | |- wspec (enc_trun _) _ _ => apply (cont_rt_wspec _ _ _ _ _ _ _ _ (cont_of_leaf _ _ _ _ _ _ trun_roundtrip))
  end;
  [ assumption | let Hs' := fresh "Hs" in pose proof Hs as Hs'; unfold traf_size in Hs'; cont_size_tac Hs' ].

Ltac traf_opt me Hs :=
  let x := fresh "x" in let Hx := fresh "Hx" in
  apply wspec_opt_child; intros x Hx; unfold traf_size in Hs; rewrite Hx in *; eexists; traf_child me Hs.

Lemma traf_enc (me : mode) v : traf_rt_wf v = true -> traf_size v < U32 ->
  wspec (enc_traf v) (traf_size v) (be 4 (traf_size v) ++ be 4 0x74726166 ++ iso_traf_payload v).
Proof.
  intros H Hs. rewrite <- traf_code. unfold traf_rt_wf in H. split_andb.
  unfold enc_traf, iso_traf_payload.
  eapply wspec_out.
  - wspec_go.
    + traf_child me Hs.
    + traf_opt me Hs.
    + traf_opt me Hs.
  - unfold iso_all. rewrite <- ?app_assoc, ?app_nil_r. reflexivity.
Qed.

Lemma traf_dec v fuel m d l p post : traf_rt_wf v = true -> traf_size v < U32 ->
  (traf_fuel v <= fuel)%nat -> p + traf_size v < 2 ^ 63 ->
  run (dec_traf_fuel fuel m (traf_size v)) (mkStream d l (p + 8) (iso_traf_payload v ++ post))
  = (Ok v, mkStream d l (p + traf_size v) post).
Proof.
  intros H Hs Hf Hp. unfold dec_traf_fuel.
  rewrite (cont_dec_items m _ (traf_size v) (traf_dispatch m) (traf_items v) (iso_traf_payload v));
    [ | now apply traf_items_ok | apply traf_items_iso | apply traf_items_size | exact Hp
      | pose proof (traf_items_fuel v); lia ].
  traf_unfold_items. rewrite !ci_fold_app.
  destruct v as [f_tfhd f_tfdt f_trun].
  cbn [traf_tfhd traf_tfdt traf_trun] in *.
  traf_unfold_i.
  destruct f_tfdt, f_trun;
    cbn [ci_fold fold_left ci_opt ci_of ci_upd traf_u_tfhd traf_u_tfdt traf_u_trun];
    cbn [ci_fold fold_left ci_opt ci_of ci_upd traf_u_tfhd traf_u_tfdt traf_u_trun app];
    apply run_cont_finish; (clear -Hp; lia).
Qed.

Theorem traf_roundtrip (me : mode) :
  cont_roundtrip traf_rt_wf traf_size 0x74726166 enc_traf dec_traf_fuel iso_traf_payload traf_fuel.
Proof.
  apply cont_roundtrip_intro.
  - apply (traf_enc me).
  - apply traf_payload_len.
  - intros; now apply traf_dec.
Qed.


Print Assumptions traf_roundtrip.
