(** * More fuel never changes a result: [open_fuel] is monotone in its fuel

    Fuel only decides whether a loop may run one more iteration ([Spin] when it may not).  [ple p q]:
    the program [q] is [p] except that it goes on where [p] spins.  Every fuel-indexed decoder
    reachable from [open_fuel] is monotone for [ple] in its fuel ([xxx_ple]); hence a run that does
    not end [OutOfFuel] is the run with any larger fuel ([ple_run]), and in particular
    [opens m f r] determines [r] ([opens_det]) and may be witnessed by any larger fuel. *)
From MP4 Require Import Reader.
From Coq Require Import Lia.
Open Scope string_scope.
Open Scope list_scope.
Open Scope N_scope.

Inductive ple {A} : prog A -> prog A -> Prop :=
| ple_spin q : ple Spin q
| ple_ret a : ple (Ret a) (Ret a)
| ple_throw e : ple (Throw e) (Throw e)
| ple_crash x : ple (Crash x) (Crash x)
| ple_rd n k k' : (forall l, ple (k l) (k' l)) -> ple (RdExact n k) (RdExact n k')
| ple_seekto q k k' : ple k k' -> ple (SeekTo q k) (SeekTo q k')
| ple_seekrel d k k' : ple k k' -> ple (SeekRel d k) (SeekRel d k')
| ple_getpos k k' : (forall x, ple (k x) (k' x)) -> ple (GetPos k) (GetPos k')
| ple_alloc n k k' : ple k k' -> ple (Alloc n k) (Alloc n k')
| ple_stepc k k' : ple k k' -> ple (Step k) (Step k').

Lemma ple_refl {A} (p : prog A) : ple p p.
Proof. induction p; constructor; auto. Qed.

Lemma ple_bind {A B} (p p' : prog A) (f f' : A -> prog B) :
  ple p p' -> (forall a, ple (f a) (f' a)) -> ple (bind p f) (bind p' f').
Proof.
  intros H Hf. induction H; cbn [bind]; try (constructor; auto; fail).
  apply Hf.
Qed.

(** a run that does not run out of fuel is the run of the larger program *)
Theorem ple_run {A} (p q : prog A) : ple p q ->
  forall s, fst (run p s) <> OutOfFuel -> run q s = run p s.
Proof.
  induction 1 as [q|a|e|x|n k k' _ IH|t k k' _ IH|d k k' _ IH|k k' _ IH|n k k' _ IH|k k' _ IH];
    intros s Hs; cbn [run] in *; auto.
  - now elim Hs.
  - destruct (n =? 0); auto. destruct (splitN n (s_view s)) as [[h r]|]; auto.
  - destruct (seek_cur s d); auto.
Qed.

Corollary ple_run_ok {A} (p q : prog A) s a s' : ple p q -> run p s = (Ok a, s') -> run q s = (Ok a, s').
Proof. intros H E. rewrite (ple_run p q H s); [exact E | rewrite E; discriminate]. Qed.

(** ** The shared loop *)
Lemma loop_gen_ple {Acc R} m cs cz end_
      (dispatch : nat -> N -> boxtype -> N -> Acc -> prog Acc) (fin : Acc -> N -> R) :
  (forall f f' cur n s a, (f <= f')%nat -> ple (dispatch f cur n s a) (dispatch f' cur n s a)) ->
  forall f f', (f <= f')%nat -> forall acc cur,
    ple (children_loop_gen f m cs cz end_ dispatch fin acc cur)
        (children_loop_gen f' m cs cz end_ dispatch fin acc cur).
Proof.
  intros Hd f. induction f as [|f IH]; intros f' Hle acc cur; rewrite !children_loop_gen_eq;
    destruct (cur <? end_); try apply ple_refl.
  - apply ple_spin.
  - destruct f' as [|f']; [lia|].
    apply ple_bind; [apply ple_refl|]. intros [name s].
    destruct (match cs with Some size => size <? s | None => false end); [apply ple_refl|].
    destruct (cz && (s =? 0)); [apply ple_refl|].
    apply ple_bind; [apply Hd; lia|]. intros acc'.
    apply ple_bind; [apply ple_refl|]. intros cur'. apply IH. lia.
Qed.

Lemma children_loop_ple {Acc} m cs cz end_ (dispatch : nat -> boxtype -> N -> Acc -> prog Acc) :
  (forall f f' n s a, (f <= f')%nat -> ple (dispatch f n s a) (dispatch f' n s a)) ->
  forall f f', (f <= f')%nat -> forall acc cur,
    ple (children_loop f m cs cz end_ dispatch acc cur) (children_loop f' m cs cz end_ dispatch acc cur).
Proof.
  intros Hd f f' Hle acc cur. unfold children_loop. apply loop_gen_ple; [|exact Hle].
  intros g g' _ n s a Hg. now apply Hd.
Qed.

(** one structural step *)
Ltac ple_step :=
  match goal with
  | |- ple ?p ?p => apply ple_refl
  | |- ple (bind _ _) (bind _ _) => apply ple_bind; [|intros ?]
  | |- ple (match ?x with _ => _ end) (match ?x with _ => _ end) => destruct x
  | |- ple (children_loop _ _ _ _ _ _ _ _) (children_loop _ _ _ _ _ _ _ _) =>
      apply children_loop_ple; [intros ? ? ? ? ? ?|assumption]
  end.
Ltac ple_go := repeat ple_step.

(** ** The sample entries *)
Lemma avc1_find_ple m start size e : forall f f', (f <= f')%nat ->
  ple (avc1_find m f start size e) (avc1_find m f' start size e).
Proof.
  induction f as [|f IH]; intros f' Hle; [apply ple_spin|].
  destruct f' as [|f']; [lia|]. cbn [avc1_find]. ple_go. apply IH. lia.
Qed.

Lemma dec_avc1_fuel_ple m size f f' : (f <= f')%nat -> ple (dec_avc1_fuel f m size) (dec_avc1_fuel f' m size).
Proof. intros Hle. unfold dec_avc1_fuel. ple_go. now apply avc1_find_ple. Qed.

Lemma mp4a_find_ple m size e : forall f f', (f <= f')%nat ->
  ple (mp4a_find m f size e) (mp4a_find m f' size e).
Proof.
  induction f as [|f IH]; intros f' Hle; [apply ple_spin|].
  destruct f' as [|f']; [lia|]. cbn [mp4a_find]. ple_go; apply IH; lia.
Qed.

Lemma dec_mp4a_fuel_ple m size f f' : (f <= f')%nat -> ple (dec_mp4a_fuel f m size) (dec_mp4a_fuel f' m size).
Proof. intros Hle. unfold dec_mp4a_fuel. ple_go. now apply mp4a_find_ple. Qed.

Lemma dec_stsd_fuel_ple m size f f' : (f <= f')%nat -> ple (dec_stsd_fuel f m size) (dec_stsd_fuel f' m size).
Proof.
  intros Hle. unfold dec_stsd_fuel. ple_go;
    first [now apply dec_avc1_fuel_ple | now apply dec_mp4a_fuel_ple].
Qed.

(** ** The containers *)
Lemma dec_stbl_fuel_ple m size f f' : (f <= f')%nat -> ple (dec_stbl_fuel f m size) (dec_stbl_fuel f' m size).
Proof.
  intros Hle. unfold dec_stbl_fuel. ple_go.
  unfold stbl_dispatch. ple_go. now apply dec_stsd_fuel_ple.
Qed.

Lemma dec_dinf_fuel_ple m size f f' : (f <= f')%nat -> ple (dec_dinf_fuel f m size) (dec_dinf_fuel f' m size).
Proof. intros Hle. unfold dec_dinf_fuel. ple_go. unfold dinf_dispatch. ple_go. Qed.

Lemma dec_minf_fuel_ple m size f f' : (f <= f')%nat -> ple (dec_minf_fuel f m size) (dec_minf_fuel f' m size).
Proof.
  intros Hle. unfold dec_minf_fuel. ple_go.
  unfold minf_dispatch. ple_go; first [now apply dec_dinf_fuel_ple | now apply dec_stbl_fuel_ple].
Qed.

Lemma dec_mdia_fuel_ple m size f f' : (f <= f')%nat -> ple (dec_mdia_fuel f m size) (dec_mdia_fuel f' m size).
Proof.
  intros Hle. unfold dec_mdia_fuel. ple_go.
  unfold mdia_dispatch. ple_go. now apply dec_minf_fuel_ple.
Qed.

Lemma dec_edts_fuel_ple m size f f' : (f <= f')%nat -> ple (dec_edts_fuel f m size) (dec_edts_fuel f' m size).
Proof. intros Hle. apply ple_refl. Qed.

Lemma dec_ilst_item_fuel_ple m size f f' : (f <= f')%nat ->
  ple (dec_ilst_item_fuel f m size) (dec_ilst_item_fuel f' m size).
Proof. intros Hle. unfold dec_ilst_item_fuel. ple_go. unfold ilst_item_dispatch. ple_go. Qed.

Lemma dec_ilst_fuel_ple m size f f' : (f <= f')%nat -> ple (dec_ilst_fuel f m size) (dec_ilst_fuel f' m size).
Proof.
  intros Hle. unfold dec_ilst_fuel. ple_go.
  unfold ilst_dispatch. ple_go; now apply dec_ilst_item_fuel_ple.
Qed.

Lemma dec_meta_fuel_ple m size f f' : (f <= f')%nat -> ple (dec_meta_fuel f m size) (dec_meta_fuel f' m size).
Proof.
  intros Hle. unfold dec_meta_fuel. ple_go;
    unfold meta_find_hdlr, meta_mdir_dispatch, meta_unknown_dispatch; ple_go; now apply dec_ilst_fuel_ple.
Qed.

Lemma dec_trak_fuel_ple m size f f' : (f <= f')%nat -> ple (dec_trak_fuel f m size) (dec_trak_fuel f' m size).
Proof.
  intros Hle. unfold dec_trak_fuel. ple_go.
  unfold trak_dispatch. ple_go;
    first [now apply dec_edts_fuel_ple | now apply dec_meta_fuel_ple | now apply dec_mdia_fuel_ple].
Qed.

Lemma dec_udta_fuel_ple m size f f' : (f <= f')%nat -> ple (dec_udta_fuel f m size) (dec_udta_fuel f' m size).
Proof.
  intros Hle. unfold dec_udta_fuel. ple_go.
  unfold udta_dispatch. ple_go. now apply dec_meta_fuel_ple.
Qed.

Lemma dec_mvex_fuel_ple m size f f' : (f <= f')%nat -> ple (dec_mvex_fuel f m size) (dec_mvex_fuel f' m size).
Proof. intros Hle. unfold dec_mvex_fuel. ple_go. unfold mvex_dispatch. ple_go. Qed.

Lemma dec_moov_fuel_ple m size f f' : (f <= f')%nat -> ple (dec_moov_fuel f m size) (dec_moov_fuel f' m size).
Proof.
  intros Hle. unfold dec_moov_fuel. ple_go.
  unfold moov_dispatch. ple_go;
    first [now apply dec_meta_fuel_ple | now apply dec_mvex_fuel_ple | now apply dec_trak_fuel_ple
          | now apply dec_udta_fuel_ple].
Qed.

Lemma dec_traf_fuel_ple m size f f' : (f <= f')%nat -> ple (dec_traf_fuel f m size) (dec_traf_fuel f' m size).
Proof. intros Hle. unfold dec_traf_fuel. ple_go. unfold traf_dispatch. ple_go. Qed.

Lemma dec_moof_fuel_ple m size f f' : (f <= f')%nat -> ple (dec_moof_fuel f m size) (dec_moof_fuel f' m size).
Proof.
  intros Hle. unfold dec_moof_fuel. ple_go.
  unfold moof_dispatch. ple_go. now apply dec_traf_fuel_ple.
Qed.

(** ** The reader *)
Theorem open_fuel_ple m size f f' : (f <= f')%nat -> ple (open_fuel f m size) (open_fuel f' m size).
Proof.
  intros Hle. unfold open_fuel. apply ple_bind; [apply ple_refl|]. intros start.
  apply ple_bind; [|intros ?; apply ple_refl].
  unfold children_loop_at. apply loop_gen_ple; [|exact Hle].
  intros g g' cur n s a Hg. unfold open_dispatch. ple_go;
    first [now apply dec_moov_fuel_ple | now apply dec_moof_fuel_ple].
Qed.

(** a result other than [OutOfFuel] is the result with any larger fuel *)
Corollary open_fuel_more m size f f' s : (f <= f')%nat ->
  fst (run (open_fuel f m size) s) <> OutOfFuel ->
  run (open_fuel f' m size) s = run (open_fuel f m size) s.
Proof. intros Hle. apply ple_run. now apply open_fuel_ple. Qed.

(** two results of [open_fuel] on the same stream, neither [OutOfFuel], are the same result *)
Corollary open_fuel_det m size f f' s :
  fst (run (open_fuel f m size) s) <> OutOfFuel -> fst (run (open_fuel f' m size) s) <> OutOfFuel ->
  run (open_fuel f m size) s = run (open_fuel f' m size) s.
Proof.
  intros H H'. destruct (Nat.le_ge_cases f f') as [L|L].
  - symmetry. now apply open_fuel_more.
  - now apply open_fuel_more.
Qed.

Print Assumptions open_fuel_ple.
Print Assumptions open_fuel_det.
