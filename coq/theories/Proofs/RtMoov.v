(** Round trip of [MoovBox] (moov.rs) *)
From MP4 Require Import KitCont BoxMoov IsoMetaBox IsoMoov IsoMvex IsoTrak IsoUdta RtMeta RtMvex RtMvhd RtTrak RtUdta.
From Coq Require Import ZifyN ZifyNat ZifyBool.
Open Scope string_scope.
Open Scope list_scope.
Open Scope N_scope.

Lemma iso_mvhd_payload_eq v : iso_mvhd_payload v = mvhd_payload v.
Proof. reflexivity. Qed.

Theorem mvhd_roundtrip_iso : leaf_roundtrip mvhd_wf mvhd_size 0x6d766864 enc_mvhd dec_mvhd iso_mvhd_payload.
Proof. intros v H Hs. rewrite iso_mvhd_payload_eq. exact (mvhd_roundtrip v H Hs). Qed.

Lemma moov_code : u32_of_boxtype (box_type_of "MoovBox") = 0x6d6f6f76.
Proof. vm_compute. reflexivity. Qed.


Definition moov_rt_wf (v : moov) : bool :=
  mvhd_wf (moov_mvhd v)
  && match moov_meta v with Some x => meta_rt_wf x | None => true end
  && match moov_mvex v with Some x => mvex_rt_wf x | None => true end
  && forallb trak_rt_wf (moov_traks v)
  && match moov_udta v with Some x => udta_rt_wf x | None => true end.

Lemma moov_bt_mvhd : boxtype_of_u32 0x6d766864 = MvhdBox. Proof. vm_compute. reflexivity. Qed.
Lemma moov_bt_traks : boxtype_of_u32 0x7472616b = TrakBox. Proof. vm_compute. reflexivity. Qed.
Lemma moov_bt_mvex : boxtype_of_u32 0x6d766578 = MvexBox. Proof. vm_compute. reflexivity. Qed.
Lemma moov_bt_meta : boxtype_of_u32 0x6d657461 = MetaBox. Proof. vm_compute. reflexivity. Qed.
Lemma moov_bt_udta : boxtype_of_u32 0x75647461 = UdtaBox. Proof. vm_compute. reflexivity. Qed.

Definition moov_u_mvhd (x : mvhd) (a : moov_acc) : moov_acc := let '(a0, a1, a2, a3, a4) := a in (Some x, a1, a2, a3, a4).
Definition moov_u_traks (x : trak) (a : moov_acc) : moov_acc := let '(a0, a1, a2, a3, a4) := a in (a0, a1, a2, a3, a4 ++ [x]).
Definition moov_u_mvex (x : mvex) (a : moov_acc) : moov_acc := let '(a0, a1, a2, a3, a4) := a in (a0, a1, a2, Some x, a4).
Definition moov_u_meta (x : meta) (a : moov_acc) : moov_acc := let '(a0, a1, a2, a3, a4) := a in (a0, Some x, a2, a3, a4).
Definition moov_u_udta (x : udta) (a : moov_acc) : moov_acc := let '(a0, a1, a2, a3, a4) := a in (a0, a1, Some x, a3, a4).

Definition moov_i_mvhd := ci_of mvhd_size 0x6d766864 iso_mvhd_payload (fun _ => 0%nat) moov_u_mvhd.
Definition moov_i_traks := ci_of trak_size 0x7472616b iso_trak_payload trak_fuel moov_u_traks.
Definition moov_i_mvex := ci_of mvex_size 0x6d766578 iso_mvex_payload mvex_fuel moov_u_mvex.
Definition moov_i_meta := ci_of meta_size 0x6d657461 iso_meta_payload meta_fuel moov_u_meta.
Definition moov_i_udta := ci_of udta_size 0x75647461 iso_udta_payload udta_fuel moov_u_udta.

Definition moov_items (v : moov) : list (citem (moov_acc)) :=
  [moov_i_mvhd (moov_mvhd v)] ++
  map moov_i_traks (moov_traks v) ++
  ci_opt moov_i_mvex (moov_mvex v) ++
  ci_opt moov_i_meta (moov_meta v) ++
  ci_opt moov_i_udta (moov_udta v).

Ltac moov_unfold_items := unfold moov_items.
Ltac moov_unfold_i := unfold moov_i_mvhd, moov_i_traks, moov_i_mvex, moov_i_meta, moov_i_udta in *.

Lemma moov_items_iso v : flat_map ci_iso (moov_items v) = iso_moov_payload v.
Proof.
  unfold iso_moov_payload. moov_unfold_items. rewrite ?flat_map_app, ?flat_map_ci_iso_map. moov_unfold_i.
  destruct (moov_mvex v), (moov_meta v), (moov_udta v);
    cbn [flat_map ci_opt app iso_opt ci_iso ci_of ci_code ci_pl]; rewrite <- ?app_assoc, ?app_nil_r; reflexivity.
Qed.

Lemma moov_items_size v : moov_size v = 8 + ci_total (moov_items v).
Proof.
  unfold moov_size. moov_unfold_items. rewrite ?ci_total_app.
  rewrite (ci_total_map moov_i_traks trak_size) by reflexivity.
  moov_unfold_i.
  destruct (moov_mvex v), (moov_meta v), (moov_udta v);
    unfold ci_total; cbn [ci_opt map ci_of ci_size sumN fold_right]; hdr_consts; lia.
Qed.

Definition moov_fuel (v : moov) : nat := (length (moov_traks v) + 4 + Nat.max (list_max (map trak_fuel (moov_traks v))) (Nat.max 2 (Nat.max (match moov_meta v with Some x => meta_fuel x | None => 0 end) (match moov_udta v with Some x => udta_fuel x | None => 0 end))))%nat.

Lemma moov_items_fuel v : (length (moov_items v) + ci_maxneed (moov_items v) <= moov_fuel v)%nat.
Proof.
  unfold moov_fuel. moov_unfold_items. rewrite ?app_length, ?ci_maxneed_app, ?map_length.
  rewrite (ci_maxneed_map_list_max moov_i_traks (moov_traks v) trak_fuel) by reflexivity.
  moov_unfold_i.
  destruct (moov_mvex v), (moov_meta v), (moov_udta v);
    cbn [length ci_opt ci_maxneed ci_need ci_of]; unfold mvex_fuel in *; lia.
Qed.

Lemma moov_items_ok m v : moov_rt_wf v = true -> moov_size v < U32 ->
  Forall (ci_ok_s (moov_dispatch m)) (moov_items v).
Proof.
  intros H Hs. apply Forall_ci_ok_total; [| rewrite moov_items_size in Hs; clear -Hs; lia].
  unfold moov_rt_wf in H. split_andb.
  unfold moov_items. repeat apply Forall_app_intro.
  - apply Forall_one. ci_leaf_t (cont_of_leaf _ _ _ _ _ _ mvhd_roundtrip_iso) moov_bt_mvhd.
  - apply Forall_ci_map. intros x Hx.
    match goal with Hf : forallb _ _ = true |- _ => pose proof (forallb_In _ _ _ Hf Hx) end.
    ci_leaf_ts (trak_roundtrip Dbg) moov_bt_traks.
  - apply Forall_ci_opt. intros x Hx. rewrite Hx in *. ci_leaf_t (mvex_roundtrip Dbg) moov_bt_mvex.
  - apply Forall_ci_opt. intros x Hx. rewrite Hx in *. ci_leaf_ts meta_roundtrip moov_bt_meta.
  - apply Forall_ci_opt. intros x Hx. rewrite Hx in *. ci_leaf_ts (udta_roundtrip Dbg) moov_bt_udta.
Qed.

Lemma moov_payload_len v : moov_rt_wf v = true -> moov_size v < U32 ->
  lenN (iso_moov_payload v) + 8 = moov_size v.
Proof.
  intros H Hs. apply (cont_payload_len_s (moov_dispatch Dbg) (moov_items v)).
  - now apply moov_items_ok.
  - apply moov_items_iso.
  - apply moov_items_size.
Qed.

Ltac moov_child me Hs :=
  lazymatch goal with
  | |- wspec (enc_mvhd _) _ _ => apply (cont_rt_wspec _ _ _ _ _ _ _ _ (cont_of_leaf _ _ _ _ _ _ mvhd_roundtrip_iso))
  | |- wspec (enc_trak _ _) _ _ => apply (cont_rt_wspec_s _ _ _ _ _ _ _ _ (trak_roundtrip me))
  | |- wspec (enc_mvex _) _ _ => apply (cont_rt_wspec _ _ _ _ _ _ _ _ (mvex_roundtrip Dbg))
  | |- wspec (enc_meta _) _ _ => apply (cont_rt_wspec_s _ _ _ _ _ _ _ _ meta_roundtrip)
  | |- wspec (enc_udta _) _ _ => apply (cont_rt_wspec_s _ _ _ _ _ _ _ _ (udta_roundtrip Dbg))
  end;
  [ assumption | let Hs' := fresh "Hs" in pose proof Hs as Hs'; unfold moov_size in Hs'; cont_size_tac Hs' ].

Ltac moov_opt me Hs :=
  let x := fresh "x" in let Hx := fresh "Hx" in
  apply wspec_opt_child; intros x Hx; unfold moov_size in Hs; rewrite Hx in *; eexists; moov_child me Hs.

Lemma moov_enc (me : mode) v : moov_rt_wf v = true -> moov_size v < U32 ->
  wspec (enc_moov me v) (moov_size v) (be 4 (moov_size v) ++ be 4 0x6d6f6f76 ++ iso_moov_payload v).
Proof.
  intros H Hs. rewrite <- moov_code. unfold moov_rt_wf in H. split_andb.
  unfold enc_moov, iso_moov_payload.
  eapply wspec_out.
  - wspec_go.
    + moov_child me Hs.
    + apply (wspec_wr_each _ (fun x => iso_box 0x7472616b (iso_trak_payload x))). intros x Hx. eexists.
      match goal with Hf : forallb _ _ = true |- _ => pose proof (forallb_In _ _ _ Hf Hx) end.
      pose proof (sumN_map_In_le trak_size _ _ Hx) as Hle.
      lazymatch goal with |- wspec (enc_trak _ _) _ _ => apply (cont_rt_wspec_s _ _ _ _ _ _ _ _ (trak_roundtrip me)) end; [assumption|].
      unfold moov_size in Hs. clear -Hs Hle.
      repeat match type of Hs with context [match ?o with Some _ => _ | None => _ end] => destruct o end; hdr_consts; lia.
    + moov_opt me Hs.
    + moov_opt me Hs.
    + moov_opt me Hs.
  - unfold iso_all. rewrite <- ?app_assoc, ?app_nil_r. reflexivity.
Qed.

Lemma moov_fold_traks l a0 a1 a2 a3 a4 :
  ci_fold (map moov_i_traks l) (a0, a1, a2, a3, a4) = (a0, a1, a2, a3, a4 ++ l).
Proof.
  revert a4. induction l as [|x t IH]; intros a4; cbn [map ci_fold fold_left].
  - now rewrite app_nil_r.
  - unfold ci_fold in IH. cbn [moov_i_traks ci_of ci_upd moov_u_traks]. rewrite IH, <- app_assoc. reflexivity.
Qed.

Lemma moov_dec v fuel m d l p post : moov_rt_wf v = true -> moov_size v < U32 ->
  (moov_fuel v <= fuel)%nat -> p + moov_size v < 2 ^ 63 ->
  dropN (p + 8) d = iso_moov_payload v ++ post ->
  run (dec_moov_fuel fuel m (moov_size v)) (mkStream d l (p + 8) (iso_moov_payload v ++ post))
  = (Ok v, mkStream d l (p + moov_size v) post).
Proof.
  intros H Hs Hf Hp Hd. unfold dec_moov_fuel.
  rewrite (cont_dec_items_s m _ (moov_size v) (moov_dispatch m) (moov_items v) (iso_moov_payload v));
    [ | now apply moov_items_ok | apply moov_items_iso | apply moov_items_size | exact Hp
      | pose proof (moov_items_fuel v); lia | exact Hd ].
  moov_unfold_items. rewrite ?ci_fold_app.
  destruct v as [f_mvhd f_meta f_mvex f_traks f_udta].
  cbn [moov_mvhd moov_meta moov_mvex moov_traks moov_udta] in *.
  moov_unfold_i.
  destruct f_mvex, f_meta, f_udta;
    cbn [ci_fold fold_left ci_opt ci_of ci_upd moov_u_mvhd moov_u_traks moov_u_mvex moov_u_meta moov_u_udta];
    rewrite ?moov_fold_traks; cbn [ci_fold fold_left ci_opt ci_of ci_upd moov_u_mvhd moov_u_traks moov_u_mvex moov_u_meta moov_u_udta app];
    apply run_cont_finish; (clear -Hp; lia).
Qed.

Theorem moov_roundtrip (me : mode) :
  cont_roundtrip_s moov_rt_wf moov_size 0x6d6f6f76 (enc_moov me) dec_moov_fuel iso_moov_payload moov_fuel.
Proof.
  apply cont_roundtrip_s_intro.
  - apply (moov_enc me).
  - apply moov_payload_len.
  - intros; now apply moov_dec.
Qed.


Print Assumptions moov_roundtrip.
