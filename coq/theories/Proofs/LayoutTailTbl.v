(** * Layout invariance, mechanism (iii) for the sample-table boxes:
    spare bytes after the last table entry (with the size field increased accordingly) are
    ignored by the decoders of stts, ctts, stsc, stsz, stss, stco, co64: each decoder ends with
    [skip_bytes_to (start + size)] and its entry-count guard only gets weaker with a larger size. *)
From MP4 Require Import LayoutKit TblKit
     BoxStts IsoStts RtStts BoxCtts IsoCtts RtCtts BoxStsc IsoStsc RtStsc
     BoxStsz IsoStsz RtStsz BoxStss IsoStss RtStss BoxStco IsoStco RtStco
     BoxCo64 IsoCo64 RtCo64.
From Coq Require Import ZifyN ZifyNat ZifyBool.
Open Scope string_scope.
Open Scope list_scope.
Open Scope N_scope.

(** the guard [count > (size - hdr - other) / esz] stays false when the size grows by [k] *)
Lemma tbl_guard_false_tail size hdr other esz n k :
  esz <> 0 -> size = hdr + other + esz * n + k -> ((size - hdr - other) / esz <? n) = false.
Proof.
  intros H ->. replace (hdr + other + esz * n + k - hdr - other) with (esz * n + k) by lia.
  apply N.ltb_ge. apply N.div_le_lower_bound; [exact H|]. lia.
Qed.

(** the final [skip_bytes_to (start + size)] drops exactly the spare bytes *)
Lemma run_SeekTo_spare {A} (k : prog A) d l p q spare post :
  q = p + lenN spare ->
  run (SeekTo q k) (mkStream d l p (spare ++ post)) = run k (mkStream d l q post).
Proof.
  intros ->. rewrite run_SeekTo_fwd by (clear; lia).
  rewrite (dropN_app_n (p + lenN spare - p)) by (clear; lia). reflexivity.
Qed.

Theorem stts_tail_ignored : tail_ignored stts_wf stts_size dec_stts iso_stts_payload.
Proof.
  intros v H m d l p spare post Hp. unfold dec_stts, iso_stts_payload. unfold stts_wf in H. split_andb.
  pose proof (stts_size_eq v) as Hsz.
  rewrite <- !app_assoc.
  prog_norm. cbn [run s_pos].
  rewrite run_sub64_ok by (clear; unfold HEADER_SIZE, Tables.HEADER_SIZE; lia).
  do 3 rd_step.
  rewrite (tbl_guard_false_tail _ _ _ _ _ (lenN spare)) by (first [ clear; lia | rewrite Hsz; reflexivity ]).
  prog_norm. rewrite run_Alloc.
  rewrite (run_rd_n_lenN_bind _ iso_stts_entry 8) by (intros; now apply (stts_rd_entry_ok (stts_entries v))).
  rewrite run_add64_ok by (clear -Hsz Hp; unfold HEADER_SIZE, Tables.HEADER_SIZE, U64; lia).
  prog_norm.
  rewrite run_SeekTo_spare by (clear -Hsz; unfold HEADER_SIZE, Tables.HEADER_SIZE; lia).
  cbn [run]. f_equal.
  - destruct v; reflexivity.
  - f_equal. clear -Hsz. unfold HEADER_SIZE, Tables.HEADER_SIZE. lia.
Qed.

Theorem ctts_tail_ignored : tail_ignored ctts_wf ctts_size dec_ctts iso_ctts_payload.
Proof.
  intros v H m d l p spare post Hp. unfold dec_ctts, iso_ctts_payload. unfold ctts_wf in H. split_andb.
  pose proof (ctts_size_eq v) as Hsz.
  rewrite <- !app_assoc.
  prog_norm. cbn [run s_pos].
  rewrite run_sub64_ok by (clear; unfold HEADER_SIZE, Tables.HEADER_SIZE; lia).
  do 3 rd_step.
  rewrite (tbl_guard_false_tail _ _ _ _ _ (lenN spare)) by (first [ clear; lia | rewrite Hsz; reflexivity ]).
  prog_norm. rewrite run_Alloc.
  rewrite (run_rd_n_lenN_bind _ iso_ctts_entry 8) by (intros; now apply (ctts_rd_entry_ok (ctts_entries v))).
  rewrite run_add64_ok by (clear -Hsz Hp; unfold HEADER_SIZE, Tables.HEADER_SIZE, U64; lia).
  prog_norm.
  rewrite run_SeekTo_spare by (clear -Hsz; unfold HEADER_SIZE, Tables.HEADER_SIZE; lia).
  cbn [run]. f_equal.
  - destruct v; reflexivity.
  - f_equal. clear -Hsz. unfold HEADER_SIZE, Tables.HEADER_SIZE. lia.
Qed.

Theorem stsc_tail_ignored : tail_ignored stsc_wf stsc_size dec_stsc iso_stsc_payload.
Proof.
  intros v H m d l p spare post Hp. unfold dec_stsc, iso_stsc_payload. unfold stsc_wf in H. split_andb.
  pose proof (stsc_size_eq v) as Hsz.
  rewrite <- !app_assoc.
  prog_norm. cbn [run s_pos].
  rewrite run_sub64_ok by (clear; unfold HEADER_SIZE, Tables.HEADER_SIZE; lia).
  do 3 rd_step.
  rewrite (tbl_guard_false_tail _ _ _ _ _ (lenN spare)) by (first [ clear; lia | rewrite Hsz; reflexivity ]).
  prog_norm. rewrite run_Alloc.
  replace (flat_map iso_stsc_entry (stsc_entries v))
    with (flat_map iso_stsc_entry (map stsc_zero (stsc_entries v)))
    by (rewrite flat_map_map; reflexivity).
  rewrite <- (lenN_map stsc_zero (stsc_entries v)) at 1.
  rewrite (run_rd_n_lenN_bind _ iso_stsc_entry 12) by (intros; now apply (stsc_rd_entry_ok (stsc_entries v))).
  rewrite lenN_map.
  rewrite stsc_fill_ok by assumption.
  rewrite run_add64_ok by (clear -Hsz Hp; unfold HEADER_SIZE, Tables.HEADER_SIZE, U64; lia).
  prog_norm.
  rewrite run_SeekTo_spare by (clear -Hsz; unfold HEADER_SIZE, Tables.HEADER_SIZE; lia).
  cbn [run]. f_equal.
  - destruct v; reflexivity.
  - f_equal. clear -Hsz. unfold HEADER_SIZE, Tables.HEADER_SIZE. lia.
Qed.

Theorem stsz_tail_ignored : tail_ignored stsz_wf stsz_size dec_stsz iso_stsz_payload.
Proof.
  intros v H m d l p spare post Hp. unfold dec_stsz, iso_stsz_payload. unfold stsz_wf in H. split_andb.
  pose proof (stsz_size_eq v) as Hsz.
  rewrite <- !app_assoc.
  prog_norm. cbn [run s_pos].
  rewrite run_sub64_ok by (clear; unfold HEADER_SIZE, Tables.HEADER_SIZE; lia).
  do 4 rd_step.
  destruct (N.eqb_spec (stsz_sample_size v) 0) as [E0|E0]; cbv iota in *.
  - split_andb.
    match goal with H : (_ =? _) = true |- _ => apply N.eqb_eq in H; rename H into Ec end.
    rewrite div_w_ok by (clear; lia). prog_norm.
    rewrite Ec at 1.
    rewrite (tbl_guard_false_tail _ _ _ _ _ (lenN spare)) by (first [ clear; lia | rewrite Hsz; reflexivity ]).
    prog_norm. rewrite run_Alloc. rewrite Ec at 1.
    rewrite (run_rd_n_lenN_bind _ (be 4) 4) by (intros; now apply (stsz_rd_entry_ok (stsz_sample_sizes v))).
    rewrite run_add64_ok by (clear -Hsz Hp; unfold HEADER_SIZE, Tables.HEADER_SIZE, U64; lia).
    prog_norm.
    rewrite run_SeekTo_spare by (clear -Hsz; unfold HEADER_SIZE, Tables.HEADER_SIZE; lia).
    cbn [run]. f_equal.
    + destruct v; reflexivity.
    + f_equal. clear -Hsz. unfold HEADER_SIZE, Tables.HEADER_SIZE. lia.
  - destruct (stsz_sample_sizes v) as [|? ?] eqn:Es; [|discriminate].
    change (lenN (@nil N)) with 0 in Hsz.
    prog_norm. cbn [app].
    rewrite run_add64_ok by (clear -Hsz Hp; unfold HEADER_SIZE, Tables.HEADER_SIZE, U64; lia).
    prog_norm.
    rewrite run_SeekTo_spare by (clear -Hsz; unfold HEADER_SIZE, Tables.HEADER_SIZE; lia).
    cbn [run]. f_equal.
    + rewrite <- Es. destruct v; reflexivity.
    + f_equal. clear -Hsz. unfold HEADER_SIZE, Tables.HEADER_SIZE. lia.
Qed.

Theorem stss_tail_ignored : tail_ignored stss_wf stss_size dec_stss iso_stss_payload.
Proof.
  intros v H m d l p spare post Hp. unfold dec_stss, iso_stss_payload. unfold stss_wf in H. split_andb.
  pose proof (stss_size_eq v) as Hsz.
  rewrite <- !app_assoc.
  prog_norm. cbn [run s_pos].
  rewrite run_sub64_ok by (clear; unfold HEADER_SIZE, Tables.HEADER_SIZE; lia).
  do 3 rd_step.
  rewrite (tbl_guard_false_tail _ _ _ _ _ (lenN spare)) by (first [ clear; lia | rewrite Hsz; reflexivity ]).
  prog_norm. rewrite run_Alloc.
  rewrite (run_rd_n_lenN_bind _ (be 4) 4) by (intros; now apply (stss_rd_entry_ok (stss_entries v))).
  rewrite run_add64_ok by (clear -Hsz Hp; unfold HEADER_SIZE, Tables.HEADER_SIZE, U64; lia).
  prog_norm.
  rewrite run_SeekTo_spare by (clear -Hsz; unfold HEADER_SIZE, Tables.HEADER_SIZE; lia).
  cbn [run]. f_equal.
  - destruct v; reflexivity.
  - f_equal. clear -Hsz. unfold HEADER_SIZE, Tables.HEADER_SIZE. lia.
Qed.

Theorem stco_tail_ignored : tail_ignored stco_wf stco_size dec_stco iso_stco_payload.
Proof.
  intros v H m d l p spare post Hp. unfold dec_stco, iso_stco_payload. unfold stco_wf in H. split_andb.
  pose proof (stco_size_eq v) as Hsz.
  rewrite <- !app_assoc.
  prog_norm. cbn [run s_pos].
  rewrite run_sub64_ok by (clear; unfold HEADER_SIZE, Tables.HEADER_SIZE; lia).
  do 3 rd_step.
  rewrite (tbl_guard_false_tail _ _ _ _ _ (lenN spare)) by (first [ clear; lia | rewrite Hsz; reflexivity ]).
  prog_norm. rewrite run_Alloc.
  rewrite (run_rd_n_lenN_bind _ (be 4) 4) by (intros; now apply (stco_rd_entry_ok (stco_entries v))).
  rewrite run_add64_ok by (clear -Hsz Hp; unfold HEADER_SIZE, Tables.HEADER_SIZE, U64; lia).
  prog_norm.
  rewrite run_SeekTo_spare by (clear -Hsz; unfold HEADER_SIZE, Tables.HEADER_SIZE; lia).
  cbn [run]. f_equal.
  - destruct v; reflexivity.
  - f_equal. clear -Hsz. unfold HEADER_SIZE, Tables.HEADER_SIZE. lia.
Qed.

Theorem co64_tail_ignored : tail_ignored co64_wf co64_size dec_co64 iso_co64_payload.
Proof.
  intros v H m d l p spare post Hp. unfold dec_co64, iso_co64_payload. unfold co64_wf in H. split_andb.
  pose proof (co64_size_eq v) as Hsz.
  rewrite <- !app_assoc.
  prog_norm. cbn [run s_pos].
  rewrite run_sub64_ok by (clear; unfold HEADER_SIZE, Tables.HEADER_SIZE; lia).
  do 3 rd_step.
  rewrite (tbl_guard_false_tail _ _ _ _ _ (lenN spare)) by (first [ clear; lia | rewrite Hsz; reflexivity ]).
  prog_norm. rewrite run_Alloc.
  rewrite (run_rd_n_lenN_bind _ (be 8) 8) by (intros; now apply (co64_rd_entry_ok (co64_entries v))).
  rewrite run_add64_ok by (clear -Hsz Hp; unfold HEADER_SIZE, Tables.HEADER_SIZE, U64; lia).
  prog_norm.
  rewrite run_SeekTo_spare by (clear -Hsz; unfold HEADER_SIZE, Tables.HEADER_SIZE; lia).
  cbn [run]. f_equal.
  - destruct v; reflexivity.
  - f_equal. clear -Hsz. unfold HEADER_SIZE, Tables.HEADER_SIZE. lia.
Qed.

Print Assumptions stts_tail_ignored.
Print Assumptions ctts_tail_ignored.
Print Assumptions stsc_tail_ignored.
Print Assumptions stsz_tail_ignored.
Print Assumptions stss_tail_ignored.
Print Assumptions stco_tail_ignored.
Print Assumptions co64_tail_ignored.
