(** Round trip of [HvcCBox] and [Hev1Box] *)
From MP4 Require Import KitCodecs BoxHev1 IsoHev1.
From Coq Require Import ZifyN ZifyNat ZifyBool.
Open Scope string_scope.
Open Scope list_scope.
Open Scope N_scope.

Lemma hvcc_code : u32_of_boxtype (box_type_of "HvcCBox") = 0x68766343.
Proof. vm_compute. reflexivity. Qed.
Lemma hev1_code : u32_of_boxtype (box_type_of "Hev1Box") = 0x68657631.
Proof. vm_compute. reflexivity. Qed.

(** ** bit fields; a flag is handled as a number below 2 *)
Lemma iso_bit_lt b : iso_bit b < 2.
Proof. destruct b; cbn; lia. Qed.
Lemma iso_bit_pos b : (0 <? iso_bit b) = b.
Proof. destruct b; reflexivity. Qed.
Lemma b2n_iso_bit b : b2n b = iso_bit b.
Proof. destruct b; reflexivity. Qed.

Definition hvcc_b1 (s t i : N) : N := s * 64 + t * 32 + i.
Definition hvcc_b2 (c n t s : N) : N := c * 64 + n * 8 + t * 4 + s.
Definition hvcc_b3 (c n : N) : N := c * 128 + 0 * 64 + n.

Lemma hvcc_enc_b1 s t i : s < 4 -> t < 2 -> i < 32 ->
  N.lor (N.lor (cast_w U8 (N.shiftl (N.land s 3) 6)) (cast_w U8 (N.shiftl t 5))) (N.land i 31) = hvcc_b1 s t i.
Proof. apply (eqb_of_forall_below3 (fun s t i => N.lor (N.lor (cast_w U8 (N.shiftl (N.land s 3) 6)) (cast_w U8 (N.shiftl t 5))) (N.land i 31)) hvcc_b1 4 2 32). vm_compute. reflexivity. Qed.
Lemma hvcc_dec_b1_s s t i : s < 4 -> t < 2 -> i < 32 -> N.shiftr (N.land (hvcc_b1 s t i) 192) 6 = s.
Proof. apply (eqb_of_forall_below3 (fun s t i => N.shiftr (N.land (hvcc_b1 s t i) 192) 6) (fun s _ _ => s) 4 2 32). vm_compute. reflexivity. Qed.
Lemma hvcc_dec_b1_t s t i : s < 4 -> t < 2 -> i < 32 -> N.shiftr (N.land (hvcc_b1 s t i) 32) 5 = t.
Proof. apply (eqb_of_forall_below3 (fun s t i => N.shiftr (N.land (hvcc_b1 s t i) 32) 5) (fun _ t _ => t) 4 2 32). vm_compute. reflexivity. Qed.
Lemma hvcc_dec_b1_i s t i : s < 4 -> t < 2 -> i < 32 -> N.land (hvcc_b1 s t i) 31 = i.
Proof. apply (eqb_of_forall_below3 (fun s t i => N.land (hvcc_b1 s t i) 31) (fun _ _ i => i) 4 2 32). vm_compute. reflexivity. Qed.

Lemma hvcc_enc_mss x : x < 4096 -> N.lor 61440 (N.land x 4095) = 15 * 4096 + x.
Proof. apply (eqb_of_forall_below (fun x => N.lor 61440 (N.land x 4095)) (fun x => 15 * 4096 + x) 4096). vm_compute. reflexivity. Qed.
Lemma hvcc_dec_mss x : x < 4096 -> N.land (15 * 4096 + x) 4095 = x.
Proof. apply (eqb_of_forall_below (fun x => N.land (15 * 4096 + x) 4095) (fun x => x) 4096). vm_compute. reflexivity. Qed.
Lemma hvcc_enc_2 x : x < 4 -> N.lor 252 (N.land x 3) = 63 * 4 + x.
Proof. apply (eqb_of_forall_below (fun x => N.lor 252 (N.land x 3)) (fun x => 63 * 4 + x) 4). vm_compute. reflexivity. Qed.
Lemma hvcc_dec_2 x : x < 4 -> N.land (63 * 4 + x) 3 = x.
Proof. apply (eqb_of_forall_below (fun x => N.land (63 * 4 + x) 3) (fun x => x) 4). vm_compute. reflexivity. Qed.
Lemma hvcc_enc_3 x : x < 8 -> N.lor 248 (N.land x 7) = 31 * 8 + x.
Proof. apply (eqb_of_forall_below (fun x => N.lor 248 (N.land x 7)) (fun x => 31 * 8 + x) 8). vm_compute. reflexivity. Qed.
Lemma hvcc_dec_3 x : x < 8 -> N.land (31 * 8 + x) 7 = x.
Proof. apply (eqb_of_forall_below (fun x => N.land (31 * 8 + x) 7) (fun x => x) 8). vm_compute. reflexivity. Qed.

Lemma hvcc_enc_b2 c n t s : c < 4 -> n < 8 -> t < 2 -> s < 4 ->
  N.lor (N.lor (N.lor (cast_w U8 (N.shiftl (N.land c 3) 6)) (cast_w U8 (N.shiftl (N.land n 7) 3)))
               (cast_w U8 (N.shiftl t 2))) (N.land s 3) = hvcc_b2 c n t s.
Proof. apply (eqb_of_forall_below4 (fun c n t s => N.lor (N.lor (N.lor (cast_w U8 (N.shiftl (N.land c 3) 6)) (cast_w U8 (N.shiftl (N.land n 7) 3))) (cast_w U8 (N.shiftl t 2))) (N.land s 3)) hvcc_b2 4 8 2 4). vm_compute. reflexivity. Qed.
Lemma hvcc_dec_b2_c c n t s : c < 4 -> n < 8 -> t < 2 -> s < 4 -> N.shiftr (N.land (hvcc_b2 c n t s) 192) 6 = c.
Proof. apply (eqb_of_forall_below4 (fun c n t s => N.shiftr (N.land (hvcc_b2 c n t s) 192) 6) (fun c _ _ _ => c) 4 8 2 4). vm_compute. reflexivity. Qed.
Lemma hvcc_dec_b2_n c n t s : c < 4 -> n < 8 -> t < 2 -> s < 4 -> N.shiftr (N.land (hvcc_b2 c n t s) 56) 3 = n.
Proof. apply (eqb_of_forall_below4 (fun c n t s => N.shiftr (N.land (hvcc_b2 c n t s) 56) 3) (fun _ n _ _ => n) 4 8 2 4). vm_compute. reflexivity. Qed.
Lemma hvcc_dec_b2_t c n t s : c < 4 -> n < 8 -> t < 2 -> s < 4 -> N.shiftr (N.land (hvcc_b2 c n t s) 4) 2 = t.
Proof. apply (eqb_of_forall_below4 (fun c n t s => N.shiftr (N.land (hvcc_b2 c n t s) 4) 2) (fun _ _ t _ => t) 4 8 2 4). vm_compute. reflexivity. Qed.
Lemma hvcc_dec_b2_s c n t s : c < 4 -> n < 8 -> t < 2 -> s < 4 -> N.land (hvcc_b2 c n t s) 3 = s.
Proof. apply (eqb_of_forall_below4 (fun c n t s => N.land (hvcc_b2 c n t s) 3) (fun _ _ _ s => s) 4 8 2 4). vm_compute. reflexivity. Qed.

Lemma hvcc_enc_b3 c n : c < 2 -> n < 64 ->
  N.lor (N.land n 63) (cast_w U8 (N.shiftl c 7)) = hvcc_b3 c n.
Proof. apply (eqb_of_forall_below2 (fun c n => N.lor (N.land n 63) (cast_w U8 (N.shiftl c 7))) hvcc_b3 2 64). vm_compute. reflexivity. Qed.
Lemma hvcc_dec_b3_c c n : c < 2 -> n < 64 -> (0 <? N.land (hvcc_b3 c n) 128) = (0 <? c).
Proof.
  intros Hc Hn.
  pose proof (forall_below2 (fun c n => Bool.eqb (0 <? N.land (hvcc_b3 c n) 128) (0 <? c)) 2 64) as P.
  specialize (P ltac:(vm_compute; reflexivity) c n Hc Hn). cbv beta in P. now apply Bool.eqb_prop in P.
Qed.
Lemma hvcc_dec_b3_n c n : c < 2 -> n < 64 -> N.land (hvcc_b3 c n) 63 = n.
Proof. apply (eqb_of_forall_below2 (fun c n => N.land (hvcc_b3 c n) 63) (fun _ n => n) 2 64). vm_compute. reflexivity. Qed.

(** ** HvcCArrayNalu *)
Ltac hvccnalu_bounds H :=
  unfold hvccnalu_wf in H; split_andb;
  repeat match goal with H : (_ =? _) = true |- _ => apply N.eqb_eq in H end.

Lemma hvccnalu_len u : lenN (iso_hvccnalu u) = 2 + lenN (hvccnalu_data u).
Proof. unfold iso_hvccnalu. now rewrite lenN_app, lenN_be. Qed.

Lemma hvccnalu_enc u : hvccnalu_wf u = true ->
  appender (enc_hvccnalu u) /\ is_ok (wfin (enc_hvccnalu u)) = true /\ wout (enc_hvccnalu u) = iso_hvccnalu u.
Proof.
  intros H. hvccnalu_bounds H.
  unfold enc_hvccnalu, iso_hvccnalu. enc_norm. cbn [appender is_ok].
  match goal with E : lenN _ = hvccnalu_size u |- _ => rewrite E end.
  rewrite app_nil_r. split; [exact I|]. split; reflexivity.
Qed.

Lemma hvccnalu_dec {B} m e u (k' : hvccnalu -> prog B) d l p' rest' :
  hvccnalu_wf u = true -> p' + lenN (iso_hvccnalu u) <= e -> e < U64 ->
  run (bind (dec_hvccnalu m e) k') (mkStream d l p' (iso_hvccnalu u ++ rest'))
  = run (k' u) (mkStream d l (p' + lenN (iso_hvccnalu u)) rest').
Proof.
  intros H Hle He. rewrite hvccnalu_len in *. hvccnalu_bounds H.
  match goal with E : lenN _ = hvccnalu_size u |- _ => rename E into Hsz end.
  assert (Hb : lenN (hvccnalu_data u) < 256 ^ N.of_nat 2) by (rewrite Hsz; assumption).
  unfold dec_hvccnalu, iso_hvccnalu. rewrite <- !app_assoc.
  rd_step. prog_norm. rewrite run_GetPos. rewrite !bind_bind.
  rewrite run_add64_ok by (clear -Hle He; lia).
  match goal with |- context [?a <? ?b] =>
    replace (a <? b) with false by (symmetry; apply N.ltb_ge; clear -Hle; lia) end.
  cbv iota. unfold rd_vec. cbn [bind].
  rewrite run_rd_vec_raw by reflexivity. cbn [bind].
  f_equal; [f_equal; destruct u as [sz dt]; cbn [hvccnalu_size hvccnalu_data] in *; now rewrite Hsz
           | f_equal; clear; lia].
Qed.

(** ** HvcCArray *)
Ltac hvccarray_bounds H :=
  unfold hvccarray_wf in H; split_andb;
  repeat match goal with H : (_ <? _) = true |- _ => apply N.ltb_lt in H end.

Lemma hvccarray_len a : lenN (iso_hvccarray a) = hvccarray_size a.
Proof.
  unfold iso_hvccarray, hvccarray_size. rewrite !lenN_app, !lenN_be, lenN_flat_map.
  rewrite (sumN_map_ext_in (fun x => lenN (iso_hvccnalu x)) (fun x => 2 + lenN (hvccnalu_data x)))
    by (intros; apply hvccnalu_len).
  lia.
Qed.

Lemma hvccarray_nalus_wf a : hvccarray_wf a = true ->
  forall x, In x (hvccarray_nalus a) -> hvccnalu_wf x = true.
Proof. intros H. hvccarray_bounds H. now apply forallb_forall. Qed.

Lemma hvccarray_enc a : hvccarray_wf a = true ->
  appender (enc_hvccarray a) /\ is_ok (wfin (enc_hvccarray a)) = true /\ wout (enc_hvccarray a) = iso_hvccarray a.
Proof.
  intros H. pose proof (hvccarray_nalus_wf a H) as Hn. hvccarray_bounds H.
  unfold enc_hvccarray, iso_hvccarray.
  rewrite b2n_iso_bit.
  rewrite hvcc_enc_b3 by (first [apply iso_bit_lt | assumption]). fold (hvcc_b3 (iso_bit (hvccarray_completeness a)) (hvccarray_nal_unit_type a)).
  rewrite cast_u16_small by assumption.
  set (W := wr_each enc_hvccnalu (hvccarray_nalus a)).
  enc_norm. cbn [appender]. subst W.
  destruct (wr_each_spec enc_hvccnalu iso_hvccnalu (hvccarray_nalus a)) as [F O];
    [intros x Hx; apply hvccnalu_enc, Hn, Hx|].
  rewrite F, O. cbn [is_ok].
  split; [|split; reflexivity].
  apply wr_each_appender. intros x Hx. apply hvccnalu_enc, Hn, Hx.
Qed.

(** every rendered NAL unit occupies at least the two bytes of its length field: this is what
    makes the [num_nalus * 2 > end - position] guard of the decoder pass on rendered arrays *)
Lemma hvccnalus_len2 l : 2 * lenN l <= lenN (flat_map iso_hvccnalu l).
Proof.
  induction l as [|x l IH]; [vm_compute; discriminate|].
  cbn [flat_map]. rewrite lenN_cons, lenN_app, hvccnalu_len. clear -IH. lia.
Qed.

Lemma hvccarray_dec {B} m e a (k' : hvccarray -> prog B) d l p' rest' :
  hvccarray_wf a = true -> p' + lenN (iso_hvccarray a) <= e -> e < U64 ->
  run (bind (dec_hvccarray m e) k') (mkStream d l p' (iso_hvccarray a ++ rest'))
  = run (k' a) (mkStream d l (p' + lenN (iso_hvccarray a)) rest').
Proof.
  intros H Hle He. pose proof (hvccarray_nalus_wf a H) as Hn. hvccarray_bounds H.
  pose proof (iso_bit_lt (hvccarray_completeness a)) as Hc.
  assert (Hb : hvcc_b3 (iso_bit (hvccarray_completeness a)) (hvccarray_nal_unit_type a) < 256 ^ N.of_nat 1)
    by (rewrite pow256_1; unfold hvcc_b3; lia).
  unfold iso_hvccarray in *. rewrite !lenN_app, !lenN_be in *.
  fold (hvcc_b3 (iso_bit (hvccarray_completeness a)) (hvccarray_nal_unit_type a)).
  unfold dec_hvccarray. rewrite <- !app_assoc.
  do 2 rd_step. prog_norm. rewrite run_GetPos.
  pose proof (hvccnalus_len2 (hvccarray_nalus a)) as H2.
  match goal with |- context [?x <? ?y] =>
    replace (x <? y) with false by (symmetry; apply N.ltb_ge; clear -Hle H2; lia) end.
  cbv iota. prog_norm. rewrite run_Alloc'. rewrite to_nat_lenN'. rewrite !bind_bind.
  rewrite (run_rd_n_var (dec_hvccnalu m e) iso_hvccnalu e);
    [| intros; apply hvccnalu_dec; [apply Hn|..]; assumption | clear -Hle; lia].
  cbn [bind].
  rewrite hvcc_dec_b3_c, hvcc_dec_b3_n, iso_bit_pos by assumption.
  f_equal; [f_equal; destruct a; reflexivity | f_equal; clear; lia].
Qed.

(** ** HvcCBox *)
Ltac hvcc_bounds H :=
  unfold hvcc_wf in H; split_andb;
  repeat match goal with H : (_ <? _) = true |- _ => apply N.ltb_lt in H end.

Lemma hvcc_arrays_wf v : hvcc_wf v = true ->
  forall x, In x (hvcc_arrays v) -> hvccarray_wf x = true.
Proof. intros H. hvcc_bounds H. now apply forallb_forall. Qed.

Lemma hvcc_size_eq v : hvcc_size v = 31 + lenN (flat_map iso_hvccarray (hvcc_arrays v)).
Proof.
  unfold hvcc_size. rewrite lenN_flat_map.
  rewrite (sumN_map_ext_in (fun x => lenN (iso_hvccarray x)) hvccarray_size) by (intros; apply hvccarray_len).
  reflexivity.
Qed.

Lemma hvcc_payload_len v : lenN (iso_hvcc_payload v) + 8 = hvcc_size v.
Proof. rewrite hvcc_size_eq. unfold iso_hvcc_payload. rewrite !lenN_app, !lenN_be. lia. Qed.

Lemma hvcc_enc v : hvcc_wf v = true -> hvcc_size v < U32 ->
  wfin (enc_hvcc v) = Ok (hvcc_size v) /\ appender (enc_hvcc v) /\
  wout (enc_hvcc v) = be 4 (hvcc_size v) ++ be 4 0x68766343 ++ iso_hvcc_payload v.
Proof.
  intros H Hs. pose proof (hvcc_arrays_wf v H) as Ha. hvcc_bounds H.
  pose proof (iso_bit_lt (hvcc_general_tier_flag v)) as Ht1.
  pose proof (iso_bit_lt (hvcc_temporal_id_nested v)) as Ht2.
  unfold enc_hvcc, iso_hvcc_payload. cbv zeta.
  rewrite write_header_small by exact Hs. rewrite hvcc_code.
  rewrite !b2n_iso_bit.
  rewrite hvcc_enc_b1, hvcc_enc_b2, hvcc_enc_mss, !hvcc_enc_2, !hvcc_enc_3 by assumption.
  rewrite cast_u8_small by assumption.
  set (W := wr_each enc_hvccarray (hvcc_arrays v)).
  cbn [wbind wr wr_u8 wr_u16 wr_u32 wr_u].
  rewrite wr_u48_small by assumption.
  cbn [wbind wr wr_u8 wr_u16 wr_u32 wr_u wfin wout appender]. subst W.
  rewrite (wr_each_wfin_bind enc_hvccarray iso_hvccarray), (wr_each_wout_bind enc_hvccarray iso_hvccarray)
    by (intros x Hx; apply hvccarray_enc, Ha, Hx).
  cbn [wfin wout].
  split; [reflexivity|]. split.
  - apply wr_each_appender_bind; [intros x Hx; apply hvccarray_enc, Ha, Hx | exact I].
  - rewrite app_nil_r. reflexivity.
Qed.

Lemma hvcc_dec m v d l p post : hvcc_wf v = true -> p + hvcc_size v < 2^63 ->
  run (dec_hvcc m (hvcc_size v)) (mkStream d l (p + 8) (iso_hvcc_payload v ++ post))
  = (Ok v, mkStream d l (p + hvcc_size v) post).
Proof.
  intros H Hp. pose proof (hvcc_arrays_wf v H) as Ha. hvcc_bounds H.
  pose proof (iso_bit_lt (hvcc_general_tier_flag v)) as Ht1.
  pose proof (iso_bit_lt (hvcc_temporal_id_nested v)) as Ht2.
  pose proof (hvcc_size_eq v) as Hsz.
  unfold dec_hvcc, iso_hvcc_payload.
  fold (hvcc_b1 (hvcc_general_profile_space v) (iso_bit (hvcc_general_tier_flag v)) (hvcc_general_profile_idc v)).
  fold (hvcc_b2 (hvcc_constant_frame_rate v) (hvcc_num_temporal_layers v)
                (iso_bit (hvcc_temporal_id_nested v)) (hvcc_length_size_minus_one v)).
  assert (B1 : hvcc_b1 (hvcc_general_profile_space v) (iso_bit (hvcc_general_tier_flag v)) (hvcc_general_profile_idc v)
               < 256 ^ N.of_nat 1) by (rewrite pow256_1; unfold hvcc_b1; lia).
  assert (B2 : hvcc_b2 (hvcc_constant_frame_rate v) (hvcc_num_temporal_layers v)
                       (iso_bit (hvcc_temporal_id_nested v)) (hvcc_length_size_minus_one v)
               < 256 ^ N.of_nat 1) by (rewrite pow256_1; unfold hvcc_b2; lia).
  assert (B3 : 15 * 4096 + hvcc_min_spatial_segmentation_idc v < 256 ^ N.of_nat 2) by (rewrite pow256_2; lia).
  assert (B4 : 63 * 4 + hvcc_parallelism_type v < 256 ^ N.of_nat 1) by (rewrite pow256_1; lia).
  assert (B5 : 63 * 4 + hvcc_chroma_format_idc v < 256 ^ N.of_nat 1) by (rewrite pow256_1; lia).
  assert (B6 : 31 * 8 + hvcc_bit_depth_luma_minus8 v < 256 ^ N.of_nat 1) by (rewrite pow256_1; lia).
  assert (B7 : 31 * 8 + hvcc_bit_depth_chroma_minus8 v < 256 ^ N.of_nat 1) by (rewrite pow256_1; lia).
  rewrite <- !app_assoc.
  prog_norm. rewrite run_GetPos.
  rewrite run_sub64_ok by (clear; unfold HEADER_SIZE, Tables.HEADER_SIZE; lia).
  rewrite run_add64_ok by (clear -Hp; unfold HEADER_SIZE, Tables.HEADER_SIZE, U64; lia).
  do 13 rd_step.
  prog_norm. rewrite run_Alloc'. rewrite to_nat_lenN'.
  rewrite (run_rd_n_var (dec_hvccarray m (p + 8 - HEADER_SIZE + hvcc_size v)) iso_hvccarray
             (p + 8 - HEADER_SIZE + hvcc_size v));
    [| intros; apply hvccarray_dec; [apply Ha; assumption | assumption
                                     | clear -Hp; unfold HEADER_SIZE, Tables.HEADER_SIZE, U64; lia]
     | clear -Hsz; unfold HEADER_SIZE, Tables.HEADER_SIZE; lia].
  rewrite run_add64_ok by (clear -Hp; unfold HEADER_SIZE, Tables.HEADER_SIZE, U64; lia).
  prog_norm.
  rewrite run_SeekTo_here by (clear -Hsz; unfold HEADER_SIZE, Tables.HEADER_SIZE; lia).
  cbn [run].
  rewrite hvcc_dec_b1_s, hvcc_dec_b1_t, hvcc_dec_b1_i, hvcc_dec_b2_c, hvcc_dec_b2_n, hvcc_dec_b2_t,
    hvcc_dec_b2_s, hvcc_dec_mss, !hvcc_dec_2, !hvcc_dec_3, !iso_bit_pos by assumption.
  f_equal; [f_equal; destruct v; reflexivity | f_equal; clear -Hsz; lia].
Qed.

Theorem hvcc_roundtrip : leaf_roundtrip hvcc_wf hvcc_size 0x68766343 enc_hvcc dec_hvcc iso_hvcc_payload.
Proof.
  intros v H Hs. destruct (hvcc_enc v H Hs) as (H1 & H2 & H3).
  split; [exact H1|]. split; [exact H2|]. split; [exact H3|].
  split; [apply hvcc_payload_len|].
  intros m d l p post Hp. now apply hvcc_dec.
Qed.

(** ** Hev1Box *)
Lemma hev1_boxtype_hvcc : boxtype_of_u32 0x68766343 = HvcCBox.
Proof. vm_compute. reflexivity. Qed.
Lemma hev1_eqb_hvcc : boxtype_eqb HvcCBox HvcCBox = true.
Proof. vm_compute. reflexivity. Qed.

(** the payload in the shape the Rust code reads and writes it *)
Definition hev1_payload (v : hev1) : bytes :=
  be 4 0 ++ be 2 0 ++ be 2 (hev1_data_reference_index v) ++
  be 4 0 ++ be 8 0 ++ be 4 0 ++
  be 2 (hev1_width v) ++ be 2 (hev1_height v) ++
  be 4 (hev1_horizresolution v) ++ be 4 (hev1_vertresolution v) ++
  be 4 0 ++
  be 2 (hev1_frame_count v) ++
  repeat 0 32 ++
  be 2 (hev1_depth v) ++
  be 2 65535 ++
  be 4 (hvcc_size (hev1_hvcc v)) ++ be 4 0x68766343 ++ iso_hvcc_payload (hev1_hvcc v).

Lemma hev1_payload_iso v : iso_hev1_payload v = hev1_payload v.
Proof.
  unfold iso_hev1_payload, hev1_payload, iso_hev1_box.
  replace (8 + lenN (iso_hvcc_payload (hev1_hvcc v))) with (hvcc_size (hev1_hvcc v))
    by (rewrite <- hvcc_payload_len; lia).
  reflexivity.
Qed.

Lemma hev1_payload_len v : lenN (iso_hev1_payload v) + 8 = hev1_size v.
Proof.
  rewrite hev1_payload_iso. unfold hev1_payload, hev1_size.
  rewrite !lenN_app, !lenN_be, lenN_repeat. rewrite <- (hvcc_payload_len (hev1_hvcc v)).
  unfold HEADER_SIZE, Tables.HEADER_SIZE. lia.
Qed.

Lemma hev1_enc v : hev1_wf v = true -> hev1_size v < U32 ->
  wfin (enc_hev1 v) = Ok (hev1_size v) /\ appender (enc_hev1 v) /\
  wout (enc_hev1 v) = be 4 (hev1_size v) ++ be 4 0x68657631 ++ iso_hev1_payload v.
Proof.
  intros H Hs. rewrite hev1_payload_iso. unfold enc_hev1, hev1_payload. unfold hev1_wf in H. split_andb.
  assert (Hs2 : hvcc_size (hev1_hvcc v) < U32)
    by (clear -Hs; unfold hev1_size, HEADER_SIZE, Tables.HEADER_SIZE in Hs; lia).
  destruct (hvcc_enc (hev1_hvcc v)) as (E1 & E2 & E3); [assumption | exact Hs2 |].
  rewrite write_header_small by exact Hs. rewrite hev1_code.
  set (E := enc_hvcc (hev1_hvcc v)) in *.
  enc_norm. rewrite wfin_wr_zeros_bind, wout_wr_zeros_bind. enc_norm.
  rewrite wfin_bind, wout_bind by exact E2. rewrite E1, E3. cbn [res_bind wfin wout].
  split; [reflexivity|]. split.
  - cbn [appender]. apply appender_bind; [apply wr_zeros_out|]. intros _.
    cbn [appender]. apply appender_bind; [exact E2 | intros; exact I].
  - rewrite app_nil_r. rewrite <- ?app_assoc. reflexivity.
Qed.

Lemma hev1_dec m v d l p post : hev1_wf v = true -> hev1_size v < U32 -> p + hev1_size v < 2^63 ->
  run (dec_hev1 m (hev1_size v)) (mkStream d l (p + 8) (iso_hev1_payload v ++ post))
  = (Ok v, mkStream d l (p + hev1_size v) post).
Proof.
  intros H Hs Hp. rewrite hev1_payload_iso. unfold dec_hev1, hev1_payload.
  unfold hev1_wf in H. split_andb.
  assert (Hsz : hev1_size v = 86 + hvcc_size (hev1_hvcc v)) by reflexivity.
  assert (Hc : 31 <= hvcc_size (hev1_hvcc v)) by (rewrite hvcc_size_eq; lia).
  rewrite <- !app_assoc.
  prog_norm. rewrite run_GetPos.
  rewrite run_sub64_ok by (clear; unfold HEADER_SIZE, Tables.HEADER_SIZE; lia).
  do 12 rd_step.
  prog_norm.
  rewrite (run_SeekRel_app _ 32 (repeat 0 32)) by (first [reflexivity | clear -Hsz Hp; lia]).
  do 2 rd_step.
  match goal with |- context [mkStream d l ?q (be 4 (hvcc_size _) ++ _)] =>
    replace q with (p + 78 + 8) by (clear; lia) end.
  rewrite run_read_header_bind
    by (first [ clear -Hs Hsz; lia | clear -Hc; lia | clear; vm_compute; reflexivity ]).
  cbv beta iota.
  replace (hev1_size v <? hvcc_size (hev1_hvcc v)) with false
    by (symmetry; apply N.ltb_ge; clear -Hsz; lia).
  rewrite hev1_boxtype_hvcc, hev1_eqb_hvcc. cbv iota.
  rewrite run_bind.
  rewrite (hvcc_dec m (hev1_hvcc v) d l (p + 78 + 8)) by (first [assumption | clear -Hsz Hp; lia]).
  cbv beta iota.
  rewrite run_add64_ok by (clear -Hsz Hp; unfold HEADER_SIZE, Tables.HEADER_SIZE, U64; lia).
  prog_norm.
  rewrite run_SeekTo_here by (clear -Hsz; unfold HEADER_SIZE, Tables.HEADER_SIZE; lia).
  cbn [run bind]. f_equal.
  - destruct v; reflexivity.
  - f_equal. clear -Hsz. lia.
Qed.

Theorem hev1_roundtrip : leaf_roundtrip hev1_wf hev1_size 0x68657631 enc_hev1 dec_hev1 iso_hev1_payload.
Proof.
  intros v H Hs. destruct (hev1_enc v H Hs) as (H1 & H2 & H3).
  split; [exact H1|]. split; [exact H2|]. split; [exact H3|].
  split; [apply hev1_payload_len|].
  intros m d l p post Hp. now apply hev1_dec.
Qed.

Print Assumptions hvcc_roundtrip.
Print Assumptions hev1_roundtrip.
