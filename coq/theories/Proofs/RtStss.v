(** Round trip of [StssBox] *)
From MP4 Require Import TblKit BoxStss IsoStss.
From Coq Require Import ZifyN ZifyNat ZifyBool.
Open Scope string_scope.
Open Scope list_scope.
Open Scope N_scope.

Lemma stss_code : u32_of_boxtype (box_type_of "StssBox") = 0x73747373.
Proof. vm_compute. reflexivity. Qed.

Lemma stss_size_eq v : stss_size v = 8 + 4 + 4 + 4 * lenN (stss_entries v).
Proof. reflexivity. Qed.

Lemma stss_wr_entry_ok x : wfin (wr_u32 x) = Ok tt /\ wout (wr_u32 x) = be 4 x.
Proof. split; [reflexivity|]. cbn [wr_u32 wr_u wr wout]. apply app_nil_r. Qed.

Lemma stss_enc v : stss_wf v = true -> stss_size v < U32 ->
  wfin (enc_stss v) = Ok (stss_size v) /\
  wout (enc_stss v) = be 4 (stss_size v) ++ be 4 0x73747373 ++ iso_stss_payload v.
Proof.
  intros H Hs. unfold enc_stss, iso_stss_payload. unfold stss_wf in H. split_andb.
  rewrite write_header_small by exact Hs. rewrite stss_code.
  rewrite write_header_ext_small by assumption.
  set (W := tbl_wr_each wr_u32 (stss_entries v)).
  enc_norm. subst W.
  rewrite (tbl_wfin_each_bind _ (be 4)), (tbl_wout_each_bind _ (be 4))
    by (first [intros; exact I | intros; apply stss_wr_entry_ok]).
  cbn [wfin wout]. split; [reflexivity|].
  rewrite cast_u32_small by assumption. rewrite app_nil_r. reflexivity.
Qed.

Lemma stss_rd_entry_ok {B} es d l x (k' : N -> prog B) p' rest' :
  forallb (ufit 4) es = true -> In x es ->
  run (bind rd_u32 k') (mkStream d l p' (be 4 x ++ rest')) = run (k' x) (mkStream d l (p' + 4) rest').
Proof.
  intros Hall Hin. rewrite forallb_forall in Hall. apply Hall in Hin. split_andb.
  rd_step. reflexivity.
Qed.

Lemma stss_dec m v d l p post : stss_wf v = true -> p + stss_size v < 2^63 ->
  run (dec_stss m (stss_size v)) (mkStream d l (p + 8) (iso_stss_payload v ++ post))
  = (Ok v, mkStream d l (p + stss_size v) post).
Proof.
  intros H Hp. unfold dec_stss, iso_stss_payload. unfold stss_wf in H. split_andb.
  pose proof (stss_size_eq v) as Hsz.
  rewrite <- !app_assoc.
  prog_norm. cbn [run s_pos].
  rewrite run_sub64_ok by (clear; unfold HEADER_SIZE, Tables.HEADER_SIZE; lia).
  do 3 rd_step.
  rewrite tbl_guard_false by (first [ clear; lia | rewrite Hsz; reflexivity ]).
  prog_norm. rewrite run_Alloc.
  rewrite (run_rd_n_lenN_bind _ (be 4) 4) by (intros; now apply (stss_rd_entry_ok (stss_entries v))).
  rewrite run_add64_ok by (clear -Hsz Hp; unfold HEADER_SIZE, Tables.HEADER_SIZE, U64; lia).
  prog_norm.
  rewrite run_SeekTo_here by (clear -Hsz; unfold HEADER_SIZE, Tables.HEADER_SIZE; lia).
  cbn [run]. f_equal.
  - destruct v; reflexivity.
  - f_equal. clear -Hsz. lia.
Qed.

Lemma stss_payload_len v : lenN (iso_stss_payload v) + 8 = stss_size v.
Proof.
  rewrite stss_size_eq. unfold iso_stss_payload.
  rewrite !lenN_app, !lenN_be, (lenN_flat_map_const (be 4) 4) by (intros; apply lenN_be). lia.
Qed.

Lemma stss_appender v : stss_wf v = true -> stss_size v < U32 -> appender (enc_stss v).
Proof.
  intros H Hs. unfold enc_stss. rewrite write_header_small by exact Hs.
  unfold stss_wf in H. split_andb.
  rewrite write_header_ext_small by assumption.
  cbn [wbind appender wr wr_u32 wr_u].
  apply tbl_appender_each_bind; intros; exact I.
Qed.

Theorem stss_roundtrip : leaf_roundtrip stss_wf stss_size 0x73747373 enc_stss dec_stss iso_stss_payload.
Proof.
  intros v H Hs. destruct (stss_enc v H Hs) as [H1 H2].
  split; [exact H1|]. split; [now apply stss_appender|]. split; [exact H2|].
  split; [now apply stss_payload_len|].
  intros m d l p post Hp. now apply stss_dec.
Qed.

Print Assumptions stss_roundtrip.
