(** * C11 composed with C01 / C03: prefixes of the muxer's output and of ISO renderings

    [Props/C11.v] ([truncated_unfragmented]) compares the reader of a prefix with the reader of the
    complete file, with the same fuel on both sides and two hypotheses about [top_boxes].  This file
    - computes [lexec] (hence [top_boxes]) on a file that is the rendering of a list of top-level
      children whose bodies decode ([lexec_children]): the boxes are exactly the children;
    - removes the fuel coupling ([open_fuel_more]) and the build-mode coupling between opening and
      reading ([rendered_prefix]: the reader of ANY prefix that opens, with ANY fuel, has the moov, the
      ftyp and the track map of the reader of the complete file);
    - instantiates it for the bytes the muxer wrote ([mux_prefix_readback], with C01's
      [mux_open_readback]) and for the ISO files of C03 ([file_prefix_lookup], with [trak_lookup]). *)
From MP4 Require Import Hoare Reader GenericProofs GenericPrefix.
From MP4 Require Import LayoutKit LayoutProofs LayoutMore LayoutOpen LayoutOpenS LayoutTreeMono.
From MP4 Require Import MuxMoovDefs MuxMoovTables MuxMoovConf MuxOpenKit MuxOpenFacts MuxInv MuxTotal MuxOpen.
From MP4 Require Import KitCont RtMoov RtTrak RtFtyp IsoFtyp IsoMoov IsoFile LookupProofs FileLookup.
From Coq Require Import Lia ZifyN ZifyNat ZifyBool.
Open Scope string_scope.
Open Scope list_scope.
Open Scope N_scope.

(** ** [read_header] on a stream that is consistent with its data, at a rendered child *)
Lemma run_read_header_at c rest d p :
  child_wf c -> dropN p d = c_bytes c ++ rest ->
  run read_header (stream_at d p)
  = (Ok (boxtype_of_u32 (c_code c), c_s c), mkStream d (lenN d) (p + c_hlen c) (c_payload c ++ rest)).
Proof.
  intros Hw Hd.
  pose proof (run_read_header_child c rest (fun x => Ret x) d (lenN d) p Hw) as H.
  rewrite run_bind in H. unfold stream_at. rewrite Hd.
  destruct (run read_header (mkStream d (lenN d) p (c_bytes c ++ rest))) as [[x|e|y|] s1];
    cbn [run] in H; try discriminate H. exact H.
Qed.

(** the types of the top-level boxes of a rendering *)
Definition c_names (cs : list child) : list boxtype := map (fun c => boxtype_of_u32 (c_code c)) cs.

(** ** The loop of [open_fuel], box by box, on a rendering of children whose bodies decode:
    it decodes exactly the children, and ends with the fold of their puts at the end of the rendering *)
Lemma lexec_children m F0 : forall cs items,
  Forall2 (decodes_to_s (open_body m) F0) cs items -> Forall child_wf cs ->
  forall fuel a d p rest size,
  (F0 + length cs <= fuel)%nat -> p + total_len cs = size -> size < 2 ^ 63 ->
  dropN p d = render cs ++ rest ->
  exists tr, lexec m fuel size d a p = (Ok (open_put_all p cs items a, size), size, tr)
             /\ tnames tr = c_names cs.
Proof.
  intros cs items H2. induction H2 as [|c it cs items Hc H2 IH]; intros Hwf fuel a d p rest size Hf Hp Hsz Hd.
  - unfold total_len in Hp. cbn [map] in Hp. change (sumN []) with 0 in Hp. rewrite N.add_0_r in Hp. subst size.
    exists []. split; [|reflexivity].
    destruct fuel; cbn [lexec open_put_all]; rewrite N.ltb_irrefl; reflexivity.
  - assert (Hlen : total_len (c :: cs) = c_len c + total_len cs) by reflexivity.
    rewrite Hlen in Hp. subst size.
    inversion Hwf as [|? ? Hw1 Hw2]; subst.
    destruct fuel as [|fuel]; [exfalso; cbn [length] in Hf; clear -Hf; lia|].
    assert (Hpos : 0 < c_len c) by (unfold c_len, c_hlen; destruct (c_w64 c); clear; lia).
    assert (Hcs : c_s c <= c_len c) by (unfold c_s, c_len, c_hlen; destruct (c_w64 c); clear; lia).
    unfold render in Hd. cbn [flat_map] in Hd. rewrite <- app_assoc in Hd. fold (render cs) in Hd.
    assert (Hd' : dropN (p + c_len c) d = render cs ++ rest).
    { apply (dropN_split p (c_len c) d (c_bytes c)); [exact Hd | apply lenN_c_bytes]. }
    assert (Hdp : dropN (p + c_hlen c) d = c_payload c ++ render cs ++ rest).
    { unfold c_bytes in Hd. rewrite <- app_assoc in Hd.
      apply (dropN_split p (c_hlen c) d (c_hdr c)); [exact Hd | apply lenN_c_hdr]. }
    destruct (IH Hw2 fuel (open_put p it a) d (p + c_len c) rest (p + (c_len c + total_len cs))) as (tr & Htr & Hnames).
    + cbn [length] in Hf. clear -Hf. lia.
    + clear. lia.
    + exact Hsz.
    + exact Hd'.
    + exists ((p, boxtype_of_u32 (c_code c), c_s c) :: tr). split; [|cbn [tnames c_names map fst snd] in *; unfold tnames in Hnames; rewrite Hnames; reflexivity].
      cbn [lexec].
      destruct (N.ltb_spec p (p + (c_len c + total_len cs))) as [_|E]; [|exfalso; clear -E Hpos; lia].
      rewrite (run_read_header_at c (render cs ++ rest) d p Hw1 Hd).
      destruct (N.ltb_spec (p + (c_len c + total_len cs)) (c_s c)) as [E|_]; [exfalso; clear -E Hcs; lia|].
      destruct (N.eqb_spec (c_s c) 0) as [E|_]; [exfalso; unfold c_s in E; clear -E; lia|].
      pose proof (open_body_ok_at_s m F0 c it Hc) as Hb.
      assert (Hrun : run (open_dispatch m fuel p (boxtype_of_u32 (c_code c)) (c_s c) a)
                         (mkStream d (lenN d) (p + c_hlen c) (c_payload c ++ render cs ++ rest))
                     = (Ok (open_put p it a), mkStream d (lenN d) (p + c_len c) (render cs ++ rest))).
      { cbn [length] in Hf.
        unfold c_len, c_hlen, c_s in *. destruct (c_w64 c).
        - replace (p + 16) with (p + 8 + 8) in Hdp |- * by (clear; lia).
          rewrite Hb by (first [ clear -Hf; lia | unfold c_s; clear -Hsz; lia | exact Hdp ]).
          unfold c_s; stream_eq.
        - rewrite Hb by (first [ clear -Hf; lia | unfold c_s; clear -Hsz; lia | exact Hdp ]).
          unfold c_s; stream_eq. }
      rewrite Hrun. cbn [s_pos]. rewrite Htr. cbn [open_put_all]. reflexivity.
Qed.

(** in particular [top_boxes] of a rendering are its children *)
Lemma top_boxes_rendered m F0 cs items fuel :
  Forall2 (decodes_to_s (open_body m) F0) cs items -> Forall child_wf cs ->
  (F0 + length cs <= fuel)%nat -> lenN (render cs) < 2 ^ 63 ->
  tnames (top_boxes m fuel (render cs) 0) = c_names cs.
Proof.
  intros H2 Hwf Hf Hlen. unfold top_boxes.
  destruct (lexec_children m F0 cs items H2 Hwf fuel acc0 (render cs) 0 [] (lenN (render cs))) as (tr & Htr & Hn).
  - exact Hf.
  - rewrite lenN_render. clear. lia.
  - exact Hlen.
  - rewrite dropN_0, app_nil_r. reflexivity.
  - rewrite Htr. cbn [snd]. exact Hn.
Qed.

(** ** Prefix and complete file, same fuel: without movie fragments the two readers have the same track map
    (the content of [c11_unfragmented_lemma], GenericPrefix.v, before the sample call) *)
Lemma open_prefix_tracks m f n d pos rp sp r s :
  n <= lenN d ->
  run (open_fuel f m n) (stream_at (firstn (N.to_nat n) d) pos) = (Ok rp, sp) ->
  run (open_fuel f m (lenN d)) (stream_at d pos) = (Ok r, s) ->
  (length (filter is_moov (tnames (top_boxes m f d pos))) <= 1)%nat ->
  (length (filter is_ftyp (tnames (top_boxes m f d pos))) <= 1)%nat ->
  rd_moofs r = [] ->
  rd_moov rp = rd_moov r /\ rd_ftyp rp = rd_ftyp r /\ rd_tracks rp = rd_tracks r.
Proof.
  intros Hn Hp Hr Um Uf Hnf.
  destruct (open_prefix_lemma m _ _ _ _ _ _ _ _ _ Hn Hp Hr Um Uf) as (Emv & Eft & [more Hmore] & _).
  split; [exact Emv|]. split; [exact Eft|].
  rewrite Hnf in Hmore. symmetry in Hmore. apply app_eq_nil in Hmore as [Hpnf _].
  apply open_fuel_inv in Hp as (? & ? & ? & ? & ? & ? & ? & ? & _ & _ & P2 & P3 & _ & PT).
  apply open_fuel_inv in Hr as (? & ? & ? & ? & ? & ? & ? & ? & _ & _ & R2 & R3 & _ & RT).
  subst. rewrite Hpnf in PT. rewrite Hnf in RT. cbn [combine attach_moofs] in PT, RT.
  rewrite Emv in PT. congruence.
Qed.

(** ** Any fuel on the prefix: a rendering of children that decode, with at most one moov and one ftyp among
    them, whose complete reader [r] (the same from fuel [f0] on) has no movie fragments.  The reader of any
    prefix that opens, with any fuel [fp], has the moov, the ftyp and the track map of [r]. *)
Theorem rendered_prefix m F0 cs items f0 r s :
  Forall2 (decodes_to_s (open_body m) F0) cs items -> Forall child_wf cs -> lenN (render cs) < 2 ^ 63 ->
  (length (filter is_moov (c_names cs)) <= 1)%nat -> (length (filter is_ftyp (c_names cs)) <= 1)%nat ->
  let b := render cs in
  (forall fuel, (f0 <= fuel)%nat -> run (open_fuel fuel m (lenN b)) (stream_at b 0) = (Ok r, s)) ->
  rd_moofs r = [] ->
  forall n fp rp sp, n <= lenN b ->
    run (open_fuel fp m n) (stream_at (firstn (N.to_nat n) b) 0) = (Ok rp, sp) ->
    rd_moov rp = rd_moov r /\ rd_ftyp rp = rd_ftyp r /\ rd_tracks rp = rd_tracks r.
Proof.
  intros H2 Hwf Hlen Um Uf b Hopen Hnf n fp rp sp Hn Hp.
  set (F := Nat.max fp (Nat.max f0 (F0 + length cs))).
  assert (HpF : run (open_fuel F m n) (stream_at (firstn (N.to_nat n) b) 0) = (Ok rp, sp)).
  { rewrite (open_fuel_more m n fp F); [exact Hp | unfold F; lia | rewrite Hp; discriminate]. }
  assert (HrF : run (open_fuel F m (lenN b)) (stream_at b 0) = (Ok r, s)) by (apply Hopen; unfold F; lia).
  assert (Hnames : tnames (top_boxes m F b 0) = c_names cs).
  { apply (top_boxes_rendered m F0 cs items F H2 Hwf); [unfold F; lia | exact Hlen]. }
  apply (open_prefix_tracks m F n b 0 rp sp r s Hn HpF HrF); [rewrite Hnames; exact Um | rewrite Hnames; exact Uf | exact Hnf].
Qed.

(** two readers with the same track map make the same sample calls *)
Lemma rd_read_sample_tracks m r r' tid sid : rd_tracks r = rd_tracks r' ->
  rd_read_sample m r tid sid = rd_read_sample m r' tid sid.
Proof. intros E. unfold rd_read_sample. rewrite E. reflexivity. Qed.


(** ** Small facts *)
Lemma nthN_none {A} : forall (l : list A) n, nthN l n = None -> lenN l <= n.
Proof.
  induction l as [|x t IH]; intros n H; [unfold lenN; cbn [length]; lia|].
  cbn [nthN] in H. destruct (N.eqb_spec n 0) as [E|E]; [discriminate H|].
  specialize (IH (n - 1) H). unfold lenN in *. cbn [length]. lia.
Qed.

Lemma nth1_none {A} (l : list A) k : nth1 l k = None -> k = 0 \/ lenN l < k.
Proof.
  unfold nth1. destruct (N.eqb_spec k 0) as [E|E]; [now left|].
  intros H. apply nthN_none in H. right. lia.
Qed.

(** a sample call that returns a sample goes through a track of the reader *)
Lemma rd_read_sample_some_track m r tid sid st x :
  fst (run (rd_read_sample m r tid sid) st) = Ok (Some x) -> exists t, tracks_get tid (rd_tracks r) = Some t.
Proof.
  unfold rd_read_sample. destruct (tracks_get tid (rd_tracks r)) as [t|]; [eauto|].
  cbn [run fst]. discriminate.
Qed.

(** ** Part 1: every prefix of what the muxer wrote *)
Section MuxPrefix.
  Variables (m m' : mode) (cfg : mp4_conf) (ops : list mux_op) (cls : list rclass) (f : mfinal) (mv : moov).
  Hypothesis Hrun : run_mux m 0 cfg ops = Ok (cls, f).
  Hypothesis Hty : ops_typed ops = true.
  Hypothesis Hn : lenN (added_confs ops) < U32MAX.
  Hypothesis Hcfg : mp4_conf_rep cfg = true.
  Hypothesis Hconfs : forallb conf_rep (added_confs ops) = true.
  Hypothesis Hmv : moov_of_mfinal m f = Ok mv.
  Hypothesis Hsz : moov_size mv < U32.
  Hypothesis Hlen : lenN (mf_out f) + moov_size mv < 2 ^ 63.

  Let b : bytes := mf_out f ++ wout (enc_moov m mv).

  (** the muxer's bytes are the rendering of ftyp, mdat, moov, and the three bodies decode *)
  Lemma mp_layout : exists cs items F0,
    b = render cs /\ Forall2 (decodes_to_s (open_body m') F0) cs items /\ Forall child_wf cs /\
    lenN (render cs) < 2 ^ 63 /\ c_names cs = [FtypBox; MdatBox; MoovBox].
  Proof.
    pose proof (mo_moov_rd m cfg ops cls f mv) as Hm. feed Hm.
    destruct Hm as (f' & mv1 & Hf' & Hmv1 & Henc & Hsize & Hwf).
    pose proof (mo_layout m cfg ops cls f mv) as Hl. feed Hl.
    destruct (Hl (moov_rd mv1) Henc Hsize Hwf) as (big & payload & Hren & Hcwf & Htot).
    assert (Hsz2 : moov_size (moov_rd mv1) < U32) by (rewrite Hsize; exact Hsz).
    destruct (conf_ftyp_wf cfg Hcfg) as (Fw & Fs & _).
    exists (mo_children cfg big payload (moov_rd mv1)),
           [OI_ftyp (ftyp_of_conf cfg); OI_skip; OI_moov (moov_rd mv1)], (moov_fuel (moov_rd mv1)).
    split; [exact Hren|]. split; [|split; [exact Hcwf|split]].
    - unfold mo_children. constructor; [|constructor; [|constructor; [|constructor]]].
      + apply decodes_to_s_mono with (F0 := 0%nat); [lia|]. apply decodes_to_s_of. now apply open_child_ftyp.
      + apply decodes_to_s_mono with (F0 := 0%nat); [lia|]. apply decodes_to_s_of. apply open_child_mdat.
      + apply (open_child_moov_rt m' false m); assumption.
    - rewrite <- Hren. unfold mo_bytes. rewrite lenN_app.
      destruct (moov_roundtrip m (moov_rd mv1) Hwf Hsz2) as (_ & _ & Hout & Hplen & _).
      rewrite <- Henc, Hout, !lenN_app, !lenN_be. change (N.of_nat 4) with 4.
      rewrite Hsize in Hplen. clear -Hplen Hlen. lia.
    - unfold mo_children, c_names. cbn [map c_code]. rewrite bt_ftyp, bt_moov.
      change MDAT with 0x6d646174. rewrite bt_mdat. reflexivity.
  Qed.

  (** first half: the reader of any prefix that opens has the movie, the ftyp and the track map of the reader
      of the complete output *)
  Theorem mux_prefix_reader : forall r s,
    (forall fuel, (N.to_nat (lenN b) + 2 <= fuel)%nat -> run (open_fuel fuel m' (lenN b)) (stream_at b 0) = (Ok r, s)) ->
    rd_moofs r = [] ->
    forall n fp rp sp, n <= lenN b ->
      run (open_fuel fp m' n) (stream_at (firstn (N.to_nat n) b) 0) = (Ok rp, sp) ->
      rd_moov rp = rd_moov r /\ rd_ftyp rp = rd_ftyp r /\ rd_tracks rp = rd_tracks r.
  Proof.
    intros r s Hopen Hnf n fp rp sp Hle Hp.
    destruct mp_layout as (cs & items & F0 & Hb & H2 & Hwf & Hl & Hnames).
    rewrite Hb in *.
    apply (rendered_prefix m' F0 cs items (N.to_nat (lenN (render cs)) + 2) r s H2 Hwf Hl) with (n := n) (fp := fp) (sp := sp);
      try assumption; rewrite Hnames; cbn; lia.
  Qed.

  (** the same with the reader of the complete output that C01 describes: ftyp of the configuration, no fragments *)
  Corollary mux_prefix_reader_c01 : exists r,
    (forall fuel, (N.to_nat (lenN b) + 2 <= fuel)%nat ->
       run (open_fuel fuel m' (lenN b)) (stream_at b 0) = (Ok r, stream_at b (lenN b))) /\
    rd_ftyp r = ftyp_of_conf cfg /\ rd_moofs r = [] /\
    forall n fp rp sp, n <= lenN b ->
      run (open_fuel fp m' n) (stream_at (firstn (N.to_nat n) b) 0) = (Ok rp, sp) ->
      rd_moov rp = rd_moov r /\ rd_ftyp rp = rd_ftyp r /\ rd_tracks rp = rd_tracks r /\ rd_moofs rp = [].
  Proof.
    destruct (mux_open_readback m m' cfg ops cls f mv Hrun Hty Hn Hcfg Hconfs Hmv Hsz Hlen)
      as (r & Hopen & Hft & _ & Hnf & _).
    fold b in Hopen. exists r. split; [exact Hopen|]. split; [exact Hft|]. split; [exact Hnf|].
    intros n fp rp sp Hle Hp.
    destruct (mux_prefix_reader r _ Hopen Hnf n fp rp sp Hle Hp) as (E1 & E2 & E3).
    split; [exact E1|]. split; [exact E2|]. split; [exact E3|].
    (* no fragments in the prefix either: its moofs are an initial segment of none *)
    destruct mp_layout as (cs & items & F0 & Hb & H2 & Hwf & Hl & Hnames).
    set (F := Nat.max fp (Nat.max (N.to_nat (lenN b) + 2) (F0 + length cs))).
    assert (HpF : run (open_fuel F m' n) (stream_at (firstn (N.to_nat n) b) 0) = (Ok rp, sp)).
    { rewrite (open_fuel_more m' n fp F); [exact Hp | unfold F; lia | rewrite Hp; discriminate]. }
    assert (HrF : run (open_fuel F m' (lenN b)) (stream_at b 0) = (Ok r, stream_at b (lenN b))) by (apply Hopen; unfold F; lia).
    assert (Hn3 : tnames (top_boxes m' F b 0) = [FtypBox; MdatBox; MoovBox]).
    { rewrite Hb, <- Hnames. apply (top_boxes_rendered m' F0 cs items F H2 Hwf); [unfold F; lia | exact Hl]. }
    destruct (open_prefix_lemma m' F n b (N.to_nat n) 0 rp sp r _ Hle HpF HrF) as (_ & _ & [more Hmore] & _);
      [rewrite Hn3; cbn; lia | rewrite Hn3; cbn; lia |].
    rewrite Hnf in Hmore. symmetry in Hmore. apply app_eq_nil in Hmore as [Hmore _]. exact Hmore.
  Qed.

  (** the complete statement: a sample returned through the reader of a prefix is that sample of the history *)
  Theorem mux_prefix_readback : forall n fp rp sp, n <= lenN b ->
    run (open_fuel fp m' n) (stream_at (firstn (N.to_nat n) b) 0) = (Ok rp, sp) ->
    forall tid k p x,
      fst (run (rd_read_sample m' rp tid k) (stream_at (firstn (N.to_nat n) b) p)) = Ok (Some x) ->
      exists i c s, nth_error (added_confs ops) i = Some c /\ tid = N.of_nat i + 1 /\
        let ss := accepted_samples ops cls tid in
        nth1 ss k = Some s /\
        x = mkSample (sumN (map ws_duration (firstn (N.to_nat (k - 1)) ss))) (ws_duration s) (ws_rendering_offset s)
                     (ws_is_sync s) (ws_bytes s).
  Proof.
    intros n fp rp sp Hle Hp tid k p x Hx.
    destruct (mux_open_readback m m' cfg ops cls f mv Hrun Hty Hn Hcfg Hconfs Hmv Hsz Hlen)
      as (r & Hopen & _ & _ & Hnf & _ & _ & _ & Hids & Hnone & Htr).
    fold b in Hopen, Htr.
    destruct (mux_prefix_reader r _ Hopen Hnf n fp rp sp Hle Hp) as (_ & _ & Et).
    rewrite (rd_read_sample_tracks m' rp r tid k Et) in Hx.
    pose proof (read_sample_prefix_lemma m' r tid k b (N.to_nat n) p 0 (Some x) Hx) as Hfull.
    destruct (rd_read_sample_some_track _ _ _ _ _ _ Hfull) as (t0 & Hget).
    (* [tid] is one of the ids 1..count *)
    assert (Hin : In tid (map fst (rd_tracks r))).
    { destruct (in_dec N.eq_dec tid (map fst (rd_tracks r))) as [Hi|Hni]; [exact Hi|].
      specialize (Hnone tid Hni). unfold rd_sample_count in Hnone. rewrite Hget in Hnone. discriminate Hnone. }
    rewrite Hids in Hin. apply in_map_iff in Hin as (j & Hj & Hjin). apply in_seq in Hjin.
    destruct (nth_error (added_confs ops) (j - 1)) as [c|] eqn:Ec.
    2:{ apply nth_error_None in Ec. exfalso. clear -Ec Hjin. lia. }
    assert (Htid : tid = N.of_nat (j - 1) + 1) by (rewrite <- Hj; clear -Hjin; lia).
    destruct (Htr (j - 1)%nat c Ec) as (t & _ & _ & _ & Hsin & Hsout).
    rewrite <- Htid in Hsin, Hsout.
    destruct (nth1 (accepted_samples ops cls tid) k) as [s0|] eqn:Es.
    - exists (j - 1)%nat, c, s0. split; [exact Ec|]. split; [exact Htid|]. cbv zeta. split; [exact Es|].
      destruct (Hsin k s0 Es) as (_ & Hread). rewrite (Hread 0) in Hfull. injection Hfull as <-. reflexivity.
    - exfalso. apply nth1_none in Es. specialize (Hsout k Es (stream_at b 0)). rewrite Hfull in Hsout. exact Hsout.
  Qed.
End MuxPrefix.

(** ** Part 2: every prefix of an ISO rendering (ftyp, moov, mdat in either order) *)

(** what a successful [read_sample] returned, on ANY data: the bytes of the data at the sample's place, which
    lies inside the data *)
Lemma read_sample_some_inv m t k data pos off sz st dl sync x :
  sample_offset m t k = Ok off -> sample_size t k = Ok sz ->
  sample_time m t k = Ok (st, dl) -> is_sync_sample t k = Ok sync ->
  fst (run (read_sample m t k) (stream_at data pos)) = Ok (Some x) ->
  x = mkSample st dl (sample_rendering_offset t k) sync (firstn (N.to_nat sz) (skipn (N.to_nat off) data))
  /\ (sz = 0 \/ off + sz <= lenN data).
Proof.
  intros Ho Hs Ht Hy. unfold read_sample. rewrite Ho, Hs.
  unfold seek_to. cbn [bind run].
  pose proof (seek_abs_wf _ off (stream_at_wf data pos)) as [Hl Hv].
  assert (Hd : s_data (seek_abs (stream_at data pos) off) = data).
  { unfold seek_abs. destruct (s_pos (stream_at data pos) <=? off); reflexivity. }
  assert (Hp : s_pos (seek_abs (stream_at data pos) off) = off).
  { unfold seek_abs. destruct (s_pos (stream_at data pos) <=? off); reflexivity. }
  set (s1 := seek_abs (stream_at data pos) off) in *.
  rewrite Hd in Hv. rewrite Hp in Hv. rewrite lk_dropN_skipn in Hv.
  unfold rd_exact. cbn [bind run]. destruct (N.eqb_spec sz 0) as [->|Hz].
  - cbn [bind run alloc]. rewrite Ht. cbn [lift bind run]. rewrite Hy. cbn [lift bind run fst].
    intros H. injection H as <-. split; [reflexivity | now left].
  - rewrite Hv. destruct (splitN sz (skipn (N.to_nat off) data)) as [[h r]|] eqn:E; [|cbn [fst]; discriminate].
    apply splitN_some in E as [E1 E2].
    cbn [bind run alloc]. rewrite Ht. cbn [lift bind run]. rewrite Hy. cbn [lift bind run fst].
    intros H. injection H as <-.
    assert (Hh : firstn (N.to_nat sz) (skipn (N.to_nat off) data) = h).
    { rewrite E1. replace (N.to_nat sz) with (length h + 0)%nat by (unfold lenN in E2; lia).
      rewrite firstn_app_2. cbn [firstn]. apply app_nil_r. }
    split; [rewrite Hh; reflexivity|]. right.
    assert (Hl2 : lenN h <= lenN (skipn (N.to_nat off) data)).
    { rewrite E1, lenN_app. lia. }
    unfold lenN in *. rewrite skipn_length in Hl2. lia.
Qed.

Lemma file_children_names mdat_first wf wv wd ft v media :
  (length (filter is_moov (c_names (file_children mdat_first wf wv wd ft v media))) <= 1)%nat /\
  (length (filter is_ftyp (c_names (file_children mdat_first wf wv wd ft v media))) <= 1)%nat.
Proof.
  unfold file_children, c_names. destruct mdat_first; cbn [map c_code]; rewrite bt_ftyp, bt_moov, bt_mdat;
    cbn [filter is_moov is_ftyp length]; split; lia.
Qed.

Theorem file_prefix_lookup m m' (mdat_first wf wv wd : bool) (ft : ftyp) (v : moov) (media : bytes) :
  ftyp_wf ft = true -> ftyp_size ft < U32 -> moov_rt_wf v = true -> moov_size v < U32 ->
  NoDup (map trak_id (moov_traks v)) -> ~ In 0 (map trak_id (moov_traks v)) ->
  (forall t, In t (moov_traks v) -> consistent (trak_tables t) = true) ->
  let b := render (file_children mdat_first wf wv wd ft v media) in
  lenN b < 2 ^ 63 -> child_wf (mkChild wd 0x6d646174 media) ->
  forall n fp rp sp, n <= lenN b ->
    run (open_fuel fp m n) (stream_at (firstn (N.to_nat n) b) 0) = (Ok rp, sp) ->
    (rd_ftyp rp = ft /\ rd_moov rp = v /\ map fst (rd_tracks rp) = map trak_id (moov_traks v)) /\
    forall tid k p x,
      fst (run (rd_read_sample m' rp tid k) (stream_at (firstn (N.to_nat n) b) p)) = Ok (Some x) ->
      exists t, In t (moov_traks v) /\ tid = trak_id t /\
        let tb := trak_tables t in
        1 <= k <= t_stsz_count tb /\
        exists off sz dl ct,
          spec_offset tb k = Some off /\ spec_size tb k = Some sz /\
          spec_delta tb k = Some dl /\ spec_cts tb k = Some ct /\
          (sz = 0 \/ off + sz <= n) /\
          x = mkSample (spec_start tb k) dl ct (spec_sync tb k) (firstn (N.to_nat sz) (skipn (N.to_nat off) b)).
Proof.
  intros Fw Fs Vw Vs Hnd Hn0 Hcons b Hlen Hd n fp rp sp Hle Hp.
  destruct (file_children_decode m mdat_first wf wv wd ft v media Fw Fs Vw Vs Hd) as (H2 & Hwf & Hl3 & Hput).
  destruct (file_children_names mdat_first wf wv wd ft v media) as (Um & Uf).
  set (r := reader_of ft v [] (lenN b)).
  assert (Hopen : forall fuel, (moov_fuel v + 3 <= fuel)%nat ->
            run (open_fuel fuel m (lenN b)) (stream_at b 0) = (Ok r, stream_at b (lenN b))).
  { intros fuel Hfuel. apply (open_rendered m fuel _ (file_items mdat_first ft v) (moov_fuel v) ft v []); try assumption.
    rewrite Hl3. lia. }
  destruct (rendered_prefix m (moov_fuel v) _ _ (moov_fuel v + 3)%nat r _ H2 Hwf Hlen Um Uf Hopen eq_refl n fp rp sp Hle Hp)
    as (Emv & Eft & Et).
  split.
  { split; [exact Eft|]. split; [exact Emv|]. rewrite Et. apply reader_of_ids. }
  intros tid k p x Hx.
  rewrite (rd_read_sample_tracks m' rp r tid k Et) in Hx.
  destruct (rd_read_sample_some_track _ _ _ _ _ _ Hx) as (t0 & Hget0).
  assert (Hin : In tid (map trak_id (moov_traks v))).
  { destruct (in_dec N.eq_dec tid (map trak_id (moov_traks v))) as [Hi|Hni]; [exact Hi|].
    unfold r, reader_of in Hget0. cbn [rd_tracks] in Hget0.
    rewrite (tracks_get_map_none _ _ Hni) in Hget0. discriminate Hget0. }
  apply in_map_iff in Hin as (t & Htid & Hin). symmetry in Htid.
  exists t. split; [exact Hin|]. split; [exact Htid|]. cbv zeta.
  pose proof (reader_of_get ft v [] (lenN b) Hnd t Hin) as Hget. fold r in Hget. rewrite <- Htid in Hget.
  assert (Hw : trak_rt_wf t = true).
  { unfold moov_rt_wf in Vw. apply andb_true_iff in Vw as [Vw _]. apply andb_true_iff in Vw as [_ Vw].
    rewrite forallb_forall in Vw. exact (Vw t Hin). }
  destruct (trak_lookup m' t Hw (Hcons t Hin)) as (_ & Hk & Hout).
  unfold rd_read_sample in Hx. rewrite Hget in Hx.
  assert (Hr : 1 <= k <= t_stsz_count (trak_tables t)).
  { destruct (N.eq_dec k 0) as [E0|E0]; [exfalso; specialize (Hout k (or_introl E0) (stream_at (firstn (N.to_nat n) b) p)); rewrite Hx in Hout; exact Hout|].
    destruct (N.lt_ge_cases (t_stsz_count (trak_tables t)) k) as [E1|E1]; [exfalso; specialize (Hout k (or_intror E1) (stream_at (firstn (N.to_nat n) b) p)); rewrite Hx in Hout; exact Hout|].
    lia. }
  split; [exact Hr|].
  destruct (Hk k Hr) as (off & sz & dl & ct & H1 & H3 & H4 & H5 & H6 & H7 & H8 & H9 & H10 & _).
  exists off, sz, dl, ct. repeat (split; [assumption|]).
  destruct (read_sample_some_inv _ _ _ _ _ _ _ _ _ _ _ H6 H7 H8 H10 Hx) as (_ & Hfit).
  split.
  { destruct Hfit as [Hz|Hfit]; [now left|right].
    assert (lenN (firstn (N.to_nat n) b) <= n) by (unfold lenN; rewrite firstn_length; lia). lia. }
  pose proof (read_sample_prefix_lemma m' r tid k b (N.to_nat n) p 0 (Some x)) as Hfull.
  unfold rd_read_sample in Hfull. rewrite Hget in Hfull. specialize (Hfull Hx).
  destruct (read_sample_some_inv _ _ _ _ _ _ _ _ _ _ _ H6 H7 H8 H10 Hfull) as (-> & _).
  rewrite H9. reflexivity.
Qed.

Print Assumptions rendered_prefix.
Print Assumptions mux_prefix_reader.
Print Assumptions mux_prefix_reader_c01.
Print Assumptions mux_prefix_readback.
Print Assumptions file_prefix_lookup.
