(** * C07/C08: the contracts of the position-dependent leaves (data, emsg) *)
From MP4 Require Import Cost CostLeaf CostLoop CostCont.
From MP4 Require Import BoxData BoxEmsg.
From Coq Require Import ZArith ZifyN ZifyNat ZifyBool Lia.
Open Scope N_scope.

Section Boxes.
  Variable d : bytes.
  Hypothesis Hd : bytes_ok d = true.
  Hypothesis Hlen : lenN d < 2 ^ 62.

  (** data: [vec![0; start + size - current]] — the position decides the request *)
  Lemma data_spec m : dspec d (dec_data m) 1 400 1 0.
  Proof.
    intros p s H8 Hp Hs. apply ispec_of_csat, csat_of_cacc. unfold dec_data.
    cacc_go.
  Qed.

  (** emsg: two NUL-terminated strings read byte by byte up to the end of the box, then the
      message: everything is limited by [start + size - position] *)
  Lemma csat_emsg_cstr_loop n : forall p acc,
    csat d p (emsg_rd_cstr_loop n acc) (2 * N.of_nat n) 0 (fun _ p' => p <= p').
  Proof.
    induction n as [|n IH]; intros p acc; apply csat_of_cacc; cbn [emsg_rd_cstr_loop].
    - cacc_go.
    - cacc_step. cacc_step.
      + cacc_go.
      + eapply cacc_of_csat; [apply IH|carith|carith|]. cbn beta. intros; carith.
  Qed.

  Lemma csat_emsg_rd_string m start size p : start + size < U64 ->
    csat d p (emsg_rd_string m start size) (1 + 2 * (start + size - p)) 0 (fun _ p' => p <= p').
  Proof.
    intros Hov. apply csat_of_cacc. unfold emsg_rd_string, emsg_rd_cstr. cacc_step. cacc_step.
    eapply cacc_bind; [apply csat_emsg_cstr_loop|carith|carith|cbn beta; intros ? ? ?].
    cacc_go.
  Qed.

  Ltac emsg_str :=
    lazymatch goal with
    | |- cacc _ _ _ _ (bind (emsg_rd_string _ _ _) _) _ _ _ =>
        eapply cacc_bind; [apply csat_emsg_rd_string; carith|carith|carith|cbn beta; intros ? ? ?]
    end.

  Ltac cacc_loop_any :=
    lazymatch goal with
    | |- cacc _ _ _ _ (bind (rd_n _ _) _) _ _ _ =>
        eapply cacc_bind; [apply csat_bnd; [exact Hd|apply bnd_rd_n; bnd_synth]|carith|carith|cbn beta; intros ? ? _]
    end.

  Lemma emsg_spec m : dspec d (dec_emsg m) 6 400 1 0.
  Proof.
    intros p s H8 Hp Hs. apply ispec_of_csat, csat_of_cacc. unfold dec_emsg.
    repeat first [emsg_str | cacc_loop_any | cacc_step].
  Qed.
End Boxes.
