(** * Pieces of the end-to-end theorem that depend neither on the configuration nor on the tables:
    the reader's track map for distinct track ids; the lookups do not read [tr_id]. *)
From MP4 Require Import MuxMoovDefs.
From Coq Require Import Lia ZifyN ZifyNat ZifyBool.
Open Scope list_scope.
Open Scope N_scope.

(** ** [tracks_collect] on distinct keys *)
Lemma tracks_get_app_last k v l : tracks_get k (l ++ [(k, v)]) = Some v.
Proof.
  induction l as [|[k' v'] l IH]; cbn [app tracks_get].
  - now rewrite N.eqb_refl.
  - now rewrite IH.
Qed.

Lemma tracks_get_app_other k k' v l : k' <> k -> tracks_get k (l ++ [(k', v)]) = tracks_get k l.
Proof.
  intros Hn. induction l as [|[k2 v2] l IH]; cbn [app tracks_get].
  - destruct (N.eqb_spec k' k); [contradiction|reflexivity].
  - now rewrite IH.
Qed.

Lemma tracks_get_filter_other k k' l :
  k' <> k -> tracks_get k (filter (fun p => negb (fst p =? k')) l) = tracks_get k l.
Proof.
  intros Hn. induction l as [|[k2 v2] l IH]; cbn [filter tracks_get fst]; [reflexivity|].
  destruct (N.eqb_spec k2 k') as [E|E]; cbn [negb].
  - rewrite IH. subst k2. destruct (tracks_get k l); [reflexivity|].
    destruct (N.eqb_spec k' k); [contradiction|reflexivity].
  - cbn [tracks_get]. now rewrite IH.
Qed.

Lemma tracks_get_insert_same k v l : tracks_get k (tracks_insert k v l) = Some v.
Proof. unfold tracks_insert. apply tracks_get_app_last. Qed.

Lemma tracks_get_insert_other k k' v l : k' <> k -> tracks_get k (tracks_insert k' v l) = tracks_get k l.
Proof.
  intros Hn. unfold tracks_insert. rewrite tracks_get_app_other by exact Hn. now apply tracks_get_filter_other.
Qed.

Lemma filter_notin {A} (f : A -> bool) l : (forall x, In x l -> f x = true) -> filter f l = l.
Proof.
  induction l as [|x l IH]; cbn [filter]; intros H; [reflexivity|].
  rewrite (H x (or_introl eq_refl)). f_equal. apply IH. intros y Hy. apply H. now right.
Qed.

Definition trak_id (t : trak) : N := tkhd_track_id (trak_tkhd t).

Lemma tracks_collect_fold ts acc :
  fold_left (fun acc t => tracks_insert (trak_id t) (mp4track_from t) acc) ts acc
  = fold_left (fun acc t => tracks_insert (tkhd_track_id (trak_tkhd t)) (mp4track_from t) acc) ts acc.
Proof. reflexivity. Qed.

(** with distinct ids, nothing is ever replaced: the map lists the tracks in order *)
Lemma tracks_collect_nodup_gen ts : forall acc,
  NoDup (map fst acc ++ map trak_id ts) ->
  fold_left (fun acc t => tracks_insert (trak_id t) (mp4track_from t) acc) ts acc
  = acc ++ map (fun t => (trak_id t, mp4track_from t)) ts.
Proof.
  induction ts as [|t ts IH]; intros acc Hnd; cbn [fold_left map].
  - now rewrite app_nil_r.
  - assert (Hf : tracks_insert (trak_id t) (mp4track_from t) acc = acc ++ [(trak_id t, mp4track_from t)]).
    { unfold tracks_insert. f_equal. apply filter_notin. intros [k v] Hin. cbn [fst].
      apply negb_true_iff, N.eqb_neq. intros ->.
      cbn [map] in Hnd. apply NoDup_remove_2 in Hnd. apply Hnd.
      apply in_or_app. left. change (trak_id t) with (fst (trak_id t, v)). now apply in_map. }
    rewrite Hf, IH.
    + rewrite <- app_assoc. reflexivity.
    + rewrite map_app. cbn [map fst]. rewrite <- app_assoc. exact Hnd.
Qed.

Lemma tracks_collect_nodup ts : NoDup (map trak_id ts) ->
  tracks_collect ts = map (fun t => (trak_id t, mp4track_from t)) ts.
Proof.
  intros H. unfold tracks_collect. rewrite <- tracks_collect_fold.
  now rewrite (tracks_collect_nodup_gen ts []).
Qed.

Lemma tracks_get_map_nodup ts : NoDup (map trak_id ts) ->
  forall i t, nth_error ts i = Some t ->
    tracks_get (trak_id t) (map (fun t => (trak_id t, mp4track_from t)) ts) = Some (mp4track_from t).
Proof.
  induction ts as [|t0 ts IH]; intros Hnd i t Hi; [destruct i; discriminate|].
  inversion Hnd as [|? ? Hnotin Hnd']; subst. cbn [map tracks_get].
  destruct i as [|i]; cbn [nth_error] in Hi.
  - injection Hi as ->.
    assert (Hn : tracks_get (trak_id t) (map (fun t => (trak_id t, mp4track_from t)) ts) = None).
    { clear -Hnotin. induction ts as [|t1 ts IH]; cbn [map tracks_get]; [reflexivity|].
      rewrite IH by (intros H; apply Hnotin; now right).
      destruct (N.eqb_spec (trak_id t1) (trak_id t)) as [E|E]; [|reflexivity].
      exfalso. apply Hnotin. left. exact E. }
    rewrite Hn, N.eqb_refl. reflexivity.
  - now rewrite (IH Hnd' i t Hi).
Qed.

Lemma tracks_get_map_none ts k : ~ In k (map trak_id ts) ->
  tracks_get k (map (fun t => (trak_id t, mp4track_from t)) ts) = None.
Proof.
  induction ts as [|t1 ts IH]; cbn [map tracks_get]; intros Hn; [reflexivity|].
  rewrite IH by (intros H; apply Hn; now right).
  destruct (N.eqb_spec (trak_id t1) k) as [E|E]; [|reflexivity].
  exfalso. apply Hn. left. exact E.
Qed.

(** ** The lookups never read [tr_id] *)
Definition with_id (id : N) (t : Track.track) : Track.track :=
  Track.mkTrack id (Track.tr_tables t) (Track.tr_frags t) (Track.tr_default_sample_duration t).

Lemma sample_count_with_id id t : Track.sample_count (with_id id t) = Track.sample_count t.
Proof. reflexivity. Qed.
Lemma sample_size_with_id id t k : Track.sample_size (with_id id t) k = Track.sample_size t k.
Proof. reflexivity. Qed.
Lemma sample_time_with_id m id t k : Track.sample_time m (with_id id t) k = Track.sample_time m t k.
Proof. reflexivity. Qed.
Lemma sample_rendering_offset_with_id id t k :
  Track.sample_rendering_offset (with_id id t) k = Track.sample_rendering_offset t k.
Proof. reflexivity. Qed.
Lemma is_sync_sample_with_id id t k : Track.is_sync_sample (with_id id t) k = Track.is_sync_sample t k.
Proof. reflexivity. Qed.
Lemma sample_offset_with_id m id t k : Track.sample_offset m (with_id id t) k = Track.sample_offset m t k.
Proof. reflexivity. Qed.
Lemma read_sample_with_id m id t k : Track.read_sample m (with_id id t) k = Track.read_sample m t k.
Proof. reflexivity. Qed.

Print Assumptions tracks_collect_nodup.
