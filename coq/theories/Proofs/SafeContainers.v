(** * C06, container layer: every container decoder never panics

    For every container [xxx] of the model (stsd, stbl, dinf, minf, mdia, edts, trak, mvex,
    moov, traf, moof, ilst item, ilst, meta, udta), FOR ALL FUEL and in both build modes:

      [dec_xxx_fuel_sat fuel m : cont_sat (dec_xxx_fuel fuel m) xxx_ok]

    i.e. (Proofs/SafeLoop.v) from a stream over [d] (valid bytes, fewer than 2^62) positioned
    right after the box header ([8 <= p <= lenN d]) and for a declared size below 2^62 — the
    facts every call site has — the decoder does not panic, and IF it returns [Ok v] then
    [xxx_ok v].  [xxx_ok] collects the facts about the parsed values which the sample lookups
    of track.rs rely on (Proofs/SafeValues.v); it is [True] for the metadata boxes.

    Nothing is claimed about the final position: the parent's loop does not need it
    (SafeLoop.v). *)
From MP4 Require Import Hoare SafeLoop SafeLeaf1 SafeLeaf2 SafeLeaf3 SafeLeaf4 SafeValues.
From MP4 Require Import BoxStsd BoxStbl BoxMinf BoxMdia BoxEdts BoxTrak BoxMvex BoxMoov BoxTraf BoxMoof
     BoxIlst BoxMeta BoxUdta.
From Coq Require Import ZArith ZifyN ZifyNat ZifyBool Lia.
Open Scope N_scope.

(** ** the facts about container values *)
Definition opt_ok {A} (R : A -> Prop) (o : option A) : Prop :=
  match o with Some x => R x | None => True end.

Definition stbl_ok (v : stbl) : Prop :=
  stsz_ok (stbl_stsz v) /\ stts_ok (stbl_stts v) /\ stsc_ok (stbl_stsc v).
Definition minf_ok (v : minf) : Prop := stbl_ok (minf_stbl v).
Definition mdia_ok (v : mdia) : Prop := minf_ok (mdia_minf v).
Definition trak_ok (v : trak) : Prop := mdia_ok (trak_mdia v).
Definition mvex_ok (v : mvex) : Prop := trex_ok (mvex_trex v).
Definition moov_ok (v : moov) : Prop := opt_ok mvex_ok (moov_mvex v) /\ Forall trak_ok (moov_traks v).
Definition traf_ok (v : traf) : Prop := tfhd_ok (traf_tfhd v) /\ opt_ok trun_ok (traf_trun v).
Definition moof_ok (v : moof) : Prop := Forall traf_ok (moof_trafs v).

(** ** tactics for the [xxx_dispatch] proofs

    The context of a dispatch proof: [Hd : bytes_ok d = true], [Hl : lenN d < 2^62],
    [Hsz : size < 2^62], [H8 : 8 <= p], [Hp : p <= lenN d], [Hle : s <= size]. *)

(** a branch [skip_box m s ;;; Ret a] *)
Ltac disp_skip fin :=
  apply sat_skip_ret;
  [ match goal with H : 8 <= _ |- _ => exact H end
  | match goal with
      Hl : lenN _ < 2 ^ 62, Hp : _ <= lenN _, Hle : _ <= ?size, Hsz : ?size < 2 ^ 62 |- _ =>
        clear - Hl Hp Hle Hsz; unfold U64; lia
    end
  | fin ].

(** a branch [x <- dec s ;; Ret (f x)] with the contract [L] of [dec] *)
Ltac disp_call L fin :=
  eapply (sat_cont_ret _ _ _ _ _ _ _ L);
  [ match goal with H : bytes_ok _ = true |- _ => exact H end
  | match goal with H : lenN _ < 2 ^ 62 |- _ => exact H end
  | match goal with H : 8 <= _ |- _ => exact H end
  | match goal with H : _ <= lenN _ |- _ => exact H end
  | match goal with Hle : _ <= ?size, Hsz : ?size < 2 ^ 62 |- _ => clear - Hle Hsz; lia end
  | let a := fresh "v" in let p' := fresh "p" in let HR := fresh "HR" in intros a p' HR; fin ].

Ltac leafc L := constr:(cont_sat_of_leaf _ L).

(** the shape shared by all loop containers *)
Ltac cont_start :=
  intros d p size Hd Hl H8 Hp Hsz.

(** ** stsd (no loop) *)
Lemma dec_stsd_fuel_sat fuel m : cont_sat (dec_stsd_fuel fuel m) (fun _ => True).
Proof.
  cont_start. unfold dec_stsd_fuel. do 4 sat_step.
  apply sat_add64; [sat_arith|]. apply sat_add64; [sat_arith|].
  apply sat_bind_any.
  - match goal with |- sat _ _ (if ?b then _ else _) _ => destruct b; [|now apply sat_ret] end.
    apply sat_read_header; [exact Hd|]. intros name s q Hh Hq.
    destruct (N.ltb_spec size s) as [Hgt|Hle]; [apply sat_throw|].
    assert (H8q : 8 <= q) by (clear - Hh; lia).
    destruct name; try (now apply sat_ret);
      first [ disp_call (cont_sat_of_leaf _ (dec_avc1_fuel_sat fuel m)) ltac:(exact I)
            | disp_call (cont_sat_of_leaf _ (dec_hev1_sat m)) ltac:(exact I)
            | disp_call (cont_sat_of_leaf _ (dec_vp09_sat m)) ltac:(exact I)
            | disp_call (cont_sat_of_leaf _ (dec_mp4a_fuel_sat fuel m)) ltac:(exact I)
            | disp_call (cont_sat_of_leaf _ (dec_tx3g_sat m)) ltac:(exact I) ].
  - intros [[[[a h] p9] a4] t] p1.
    apply sat_container_epilogue; [sat_arith|exact I].
Qed.

(** ** stbl *)
Definition stbl_IA (a : stbl_acc) : Prop :=
  opt_ok stsz_ok (sa_stsz a) /\ opt_ok stts_ok (sa_stts a) /\ opt_ok stsc_ok (sa_stsc a).

Ltac stbl_fin :=
  idtac; match goal with HI : stbl_IA _ |- _ =>
    unfold stbl_IA in *; cbn [sa_stsd sa_stts sa_ctts sa_stss sa_stsc sa_stsz sa_stco sa_co64 opt_ok] in *;
    destruct HI as (? & ? & ?); repeat split; assumption
  end.

Lemma stbl_dispatch_sat d m size f name s a p :
  bytes_ok d = true -> lenN d < 2 ^ 62 -> size < 2 ^ 62 ->
  stbl_IA a -> 8 <= p -> p <= lenN d -> s <= size ->
  sat d p (stbl_dispatch m f name s a) (fun a' _ => stbl_IA a').
Proof.
  intros Hd Hl Hsz HI H8 Hp Hle. unfold stbl_dispatch.
  destruct name; try (disp_skip ltac:(exact HI));
    first [ disp_call (dec_stsd_fuel_sat f m) ltac:(stbl_fin)
          | disp_call (dec_stts_ok m) ltac:(stbl_fin)
          | disp_call (cont_sat_of_leaf _ (dec_ctts_sat m)) ltac:(stbl_fin)
          | disp_call (cont_sat_of_leaf _ (dec_stss_sat m)) ltac:(stbl_fin)
          | disp_call (dec_stsc_ok m) ltac:(stbl_fin)
          | disp_call (dec_stsz_ok m) ltac:(stbl_fin)
          | disp_call (cont_sat_of_leaf _ (dec_stco_sat m)) ltac:(stbl_fin)
          | disp_call (cont_sat_of_leaf _ (dec_co64_sat m)) ltac:(stbl_fin) ].
Qed.

Lemma dec_stbl_fuel_sat fuel m : cont_sat (dec_stbl_fuel fuel m) stbl_ok.
Proof.
  cont_start. unfold dec_stbl_fuel.
  apply sat_container_prologue; auto.
  apply sat_children_loop_bind with (IA := stbl_IA); [exact Hd| |repeat split; exact I|].
  - intros f name s a p0 HI H80 Hp0 Hle _. now apply stbl_dispatch_sat with (size := size).
  - intros a p1 (Hz & Ht & Hc).
    destruct (sa_stsd a); [|apply sat_throw]. destruct (sa_stts a); [|apply sat_throw].
    destruct (sa_stsc a); [|apply sat_throw]. destruct (sa_stsz a); [|apply sat_throw].
    cbn [opt_ok] in Hz, Ht, Hc.
    destruct (sa_stco a); [|destruct (sa_co64 a); [|apply sat_throw]];
      (apply sat_container_epilogue; [sat_arith|repeat split; assumption]).
Qed.

(** ** dinf on the shared loop *)
Lemma dinf_dispatch_sat d m size f name s a p :
  bytes_ok d = true -> lenN d < 2 ^ 62 -> size < 2 ^ 62 ->
  8 <= p -> p <= lenN d -> s <= size ->
  sat d p (dinf_dispatch m f name s a) (fun _ _ => True).
Proof.
  intros Hd Hl Hsz H8 Hp Hle. unfold dinf_dispatch.
  destruct name; try (disp_skip ltac:(exact I));
    disp_call (cont_sat_of_leaf _ (dec_dref_sat m)) ltac:(exact I).
Qed.

Lemma dec_dinf_fuel_sat fuel m : cont_sat (dec_dinf_fuel fuel m) (fun _ => True).
Proof.
  cont_start. unfold dec_dinf_fuel.
  apply sat_container_prologue; auto.
  apply sat_children_loop_bind with (IA := fun _ => True); [exact Hd| |exact I|].
  - intros f name s a p0 _ H80 Hp0 Hle _. now apply dinf_dispatch_sat with (size := size).
  - intros a p1 _. destruct a; [|apply sat_throw].
    apply sat_container_epilogue; [sat_arith|exact I].
Qed.

(** ** minf *)
Definition minf_IA (a : minf_acc) : Prop := opt_ok stbl_ok (snd a).

Lemma minf_dispatch_sat d m size f name s a p :
  bytes_ok d = true -> lenN d < 2 ^ 62 -> size < 2 ^ 62 ->
  minf_IA a -> 8 <= p -> p <= lenN d -> s <= size ->
  sat d p (minf_dispatch m f name s a) (fun a' _ => minf_IA a').
Proof.
  intros Hd Hl Hsz HI H8 Hp Hle. unfold minf_dispatch. destruct a as [[[vm sm] di] st].
  unfold minf_IA in *. cbn [snd] in *.
  destruct name; try (disp_skip ltac:(exact HI));
    first [ disp_call (dec_dinf_fuel_sat f m) ltac:(exact HI)
          | disp_call (cont_sat_of_leaf _ (dec_vmhd_sat m)) ltac:(exact HI)
          | disp_call (dec_stbl_fuel_sat f m) ltac:(exact HR)
          | disp_call (cont_sat_of_leaf _ (dec_smhd_sat m)) ltac:(exact HI) ].
Qed.

Lemma dec_minf_fuel_sat fuel m : cont_sat (dec_minf_fuel fuel m) minf_ok.
Proof.
  cont_start. unfold dec_minf_fuel.
  apply sat_container_prologue; auto.
  apply sat_children_loop_bind with (IA := minf_IA); [exact Hd| |exact I|].
  - intros f name s a p0 HI H80 Hp0 Hle _. now apply minf_dispatch_sat with (size := size).
  - intros [[[vm sm] di] st] p1 HI. unfold minf_IA in HI. cbn [snd] in HI.
    destruct di; [|apply sat_throw]. destruct st; [|apply sat_throw].
    apply sat_container_epilogue; [sat_arith|exact HI].
Qed.

(** ** mdia *)
Definition mdia_IA (a : mdia_acc) : Prop := opt_ok minf_ok (snd a).

Lemma mdia_dispatch_sat d m size f name s a p :
  bytes_ok d = true -> lenN d < 2 ^ 62 -> size < 2 ^ 62 ->
  mdia_IA a -> 8 <= p -> p <= lenN d -> s <= size ->
  sat d p (mdia_dispatch m f name s a) (fun a' _ => mdia_IA a').
Proof.
  intros Hd Hl Hsz HI H8 Hp Hle. unfold mdia_dispatch. destruct a as [[md hd] mi].
  unfold mdia_IA in *. cbn [snd] in *.
  destruct name; try (disp_skip ltac:(exact HI));
    first [ disp_call (cont_sat_of_leaf _ (dec_mdhd_sat m)) ltac:(exact HI)
          | disp_call (cont_sat_of_leaf _ (dec_hdlr_sat m)) ltac:(exact HI)
          | disp_call (dec_minf_fuel_sat f m) ltac:(exact HR) ].
Qed.

Lemma dec_mdia_fuel_sat fuel m : cont_sat (dec_mdia_fuel fuel m) mdia_ok.
Proof.
  cont_start. unfold dec_mdia_fuel.
  apply sat_container_prologue; auto.
  apply sat_children_loop_bind with (IA := mdia_IA); [exact Hd| |exact I|].
  - intros f name s a p0 HI H80 Hp0 Hle _. now apply mdia_dispatch_sat with (size := size).
  - intros [[md hd] mi] p1 HI. unfold mdia_IA in HI. cbn [snd] in HI.
    destruct md; [|apply sat_throw]. destruct hd; [|apply sat_throw]. destruct mi; [|apply sat_throw].
    apply sat_container_epilogue; [sat_arith|exact HI].
Qed.

(** ** edts (no loop) *)
Lemma dec_edts_fuel_sat fuel m : cont_sat (dec_edts_fuel fuel m) (fun _ => True).
Proof.
  cont_start. unfold dec_edts_fuel. do 2 sat_step.
  apply sat_add64; [sat_arith|]. apply sat_add64; [sat_arith|].
  apply sat_bind_any.
  - match goal with |- sat _ _ (if ?b then _ else _) _ => destruct b; [|now apply sat_ret] end.
    apply sat_read_header; [exact Hd|]. intros name s q Hh Hq.
    destruct (N.ltb_spec size s) as [Hgt|Hle]; [apply sat_throw|].
    assert (H8q : 8 <= q) by (clear - Hh; lia).
    destruct name; try (now apply sat_ret).
    disp_call (cont_sat_of_leaf _ (dec_elst_sat m)) ltac:(exact I).
  - intros el p1. apply sat_container_epilogue; [sat_arith|exact I].
Qed.
