(** * Layout independence over box trees: canonicity is preserved by forward steps

    [good_fwd]: if [T] is [good] and [lstep open_known T T'], then [T'] is [good] as soon as it is
    representable ([bt_wf]), shorter than 2^63 bytes, and its chunk-offset leaves are well-formed
    tables ([chunk_ok]: the step [ts_stco] / [ts_co64] puts ANY entries there).  Hence
    [C12_layout_independence_forward]: along forward steps only [TA] needs to be canonical.

    The argument is the one of LayoutTreeKit.v, level by level: [sem_fwd] (a step on a tree that
    has a [sem]), [lstep_fwd] (a step among the children of a loop), [node_fwd] (a container). *)
From MP4 Require Import LayoutKit LayoutProofs LayoutMore LayoutOpen LayoutOpenS Reader.
From MP4 Require Import C12 LayoutTreeKit LayoutTree LayoutTree2.
From MP4 Require Import IsoStco IsoCo64 RtStco RtCo64.
From Coq Require Import Relations Lia ZifyN ZifyNat ZifyBool.
Open Scope string_scope.
Open Scope list_scope.
Open Scope N_scope.

(** ** Sizes *)
Definition bt_small (t : btree) : Prop := c_len (bt_child t) < 2 ^ 63.

Lemma c_s_le_len c : c_s c <= c_len c.
Proof. unfold c_s, c_len, c_hlen. destruct (c_w64 c); lia. Qed.

Lemma c_len_le_total c cs : In c cs -> c_len c <= total_len cs.
Proof.
  induction cs as [|x t IH]; intros H; [destruct H|].
  change (total_len (x :: t)) with (c_len x + total_len t). destruct H as [->|H]; [lia|].
  specialize (IH H). lia.
Qed.

Lemma small_total cs : total_len cs < 2 ^ 63 -> Forall (fun c => c_len c < 2 ^ 63) cs.
Proof.
  intros H. apply Forall_forall. intros c Hc. pose proof (c_len_le_total c cs Hc). lia.
Qed.

Lemma Forall_map_iff {A B} (f : A -> B) (P : B -> Prop) l : Forall P (map f l) <-> Forall (fun x => P (f x)) l.
Proof. induction l as [|x t IH]; cbn [map]; split; intros H; constructor; inversion H; subst; auto; now apply IH. Qed.

Lemma bt_small_kids w code kids : bt_small (BNode w code kids) -> Forall bt_small kids.
Proof.
  unfold bt_small at 1. rewrite bt_child_node. unfold c_len. cbn [c_payload]. rewrite lenN_render.
  intros H. apply (Forall_map_iff bt_child (fun c => c_len c < 2 ^ 63)). apply small_total.
  unfold c_hlen in H. cbn [c_w64] in H. destruct w; lia.
Qed.

Lemma bt_small_file T : lenN (file_of T) < 2 ^ 63 -> Forall bt_small T.
Proof.
  unfold file_of. rewrite lenN_render. intros H.
  apply (Forall_map_iff bt_child (fun c => c_len c < 2 ^ 63)). now apply small_total.
Qed.

Lemma bt_small_s t : bt_small t -> c_s (bt_child t) < 2 ^ 63.
Proof. unfold bt_small. pose proof (c_s_le_len (bt_child t)). lia. Qed.

Lemma bt_wf_kids w code kids : bt_wf (BNode w code kids) -> Forall (fun k => child_wf (bt_child k)) kids.
Proof.
  intros H. inversion H as [|? ? ? _ Hk]; subst.
  eapply Forall_impl; [|exact Hk]. intros k. apply bt_wf_child.
Qed.

Lemma bt_wf_kids' w code kids : bt_wf (BNode w code kids) -> Forall bt_wf kids.
Proof. intros H. now inversion H. Qed.

(** ** The chunk-offset leaves are well-formed tables (whatever their entries) *)
Definition chunk_leaf_ok (c : child) : Prop :=
  (c_code c = 0x7374636f ->
   exists v spare, c_payload c = iso_stco_payload v ++ spare /\ stco_wf v = true /\ stco_size v < U32) /\
  (c_code c = 0x636f3634 ->
   exists v spare, c_payload c = iso_co64_payload v ++ spare /\ co64_wf v = true /\ co64_size v < U32).
Definition chunk_ok : btree -> Prop := bt_leaves chunk_leaf_ok.

Lemma chunk_ok_kids w code kids : chunk_ok (BNode w code kids) -> Forall chunk_ok kids.
Proof. intros H. now inversion H. Qed.

(** what a tree must satisfy to be the target of a step *)
Definition fit (t : btree) : Prop := bt_wf t /\ bt_small t /\ chunk_ok t.

Lemma fit_kids w code kids : fit (BNode w code kids) -> Forall fit kids.
Proof.
  intros (Hw & Hs & Hc).
  pose proof (bt_wf_kids' _ _ _ Hw) as H1. pose proof (bt_small_kids _ _ _ Hs) as H2.
  pose proof (chunk_ok_kids _ _ _ Hc) as H3.
  rewrite Forall_forall in *. intros k Hk. repeat split; auto.
Qed.

(** ** One level *)
Section LevelFwd.
  Context {Item : Type}.
  Variable body : nat -> boxtype -> N -> prog Item.
  Variable known : boxtype -> bool.
  Variable skip_it : Item.
  Variable sub : btree -> Item -> Prop.

  Hypothesis Hsub_shape : forall t it, sub t it ->
    exists w code kids kn, t = BNode w code kids /\ iterating code = Some kn
                           /\ known (boxtype_of_u32 code) = true.
  Hypothesis Hsub_fwd : forall a b it, tstep a b -> sub a it -> fit b -> exists it', sub b it'.
  Hypothesis Hchunk_fwd : forall c, known (boxtype_of_u32 (c_code c)) = true ->
    (c_code c = 0x7374636f \/ c_code c = 0x636f3634) -> chunk_leaf_ok c -> c_s c < 2 ^ 63 ->
    exists it, sem body known skip_it sub (BLeaf c) it.

  Lemma sem_fwd a b it : tstep a b -> sem body known skip_it sub a it -> fit b ->
    exists it', sem body known skip_it sub b it'.
  Proof.
    intros Hst Ha Hfit.
    pose proof (tstep_code a b Hst) as Hcode.
    destruct Ha as [ta Hka|ta ia Fa Hoa Hka Hsa Hda Hta|ta ia Hsuba].
    - exists skip_it. apply sem_skip. now rewrite <- Hcode.
    - assert (Hsb : c_s (bt_child b) < 2 ^ 63) by (apply bt_small_s; apply Hfit).
      inversion Hst; subst.
      + (* ts_hdr_leaf *)
        exists ia. apply (sem_opaque body known skip_it sub _ ia Fa); [exact I | exact Hka | exact Hsb | exact Hda |].
        intros sp Hsp. apply (Hta sp). destruct Hsp as [->|(c' & E & Hc')]; [now left|right].
        inversion E; subst. eexists; split; [reflexivity|exact Hc'].
      + (* ts_hdr_node *)
        exists ia. apply (sem_opaque body known skip_it sub _ ia Fa); [exact Hoa | exact Hka | exact Hsb | exact Hda |].
        intros sp Hsp. apply (Hta sp). destruct Hsp as [->|(c' & E & Hc')]; [now left|discriminate E].
      + (* ts_spare *)
        exists ia. cbn [bt_child] in *.
        assert (Hall : spare_allowed (BLeaf c) spare) by (right; eexists; split; [reflexivity|assumption]).
        apply (sem_opaque body known skip_it sub _ ia Fa); [exact I | exact Hka | exact Hsb | exact (Hta spare Hall) |].
        intros sp _. cbn [bt_child]. unfold with_tail. cbn [c_w64 c_code c_payload]. rewrite <- app_assoc.
        apply (Hta (spare ++ sp)). right. eexists; split; [reflexivity|assumption].
      + (* ts_stco *)
        cbn [bt_child] in *. destruct Hfit as (_ & _ & Hc). inversion Hc; subst.
        apply Hchunk_fwd; [exact Hka | now left | assumption | exact Hsb].
      + (* ts_co64 *)
        cbn [bt_child] in *. destruct Hfit as (_ & _ & Hc). inversion Hc; subst.
        apply Hchunk_fwd; [exact Hka | now right | assumption | exact Hsb].
      + (* ts_kids *)
        exfalso. cbn [opaque] in Hoa.
        match goal with H : iterating _ = Some _ |- _ => rewrite H in Hoa; discriminate Hoa end.
    - destruct (Hsub_fwd _ _ _ Hst Hsuba Hfit) as (it' & H'). exists it'. now apply sem_sub.
  Qed.

  Lemma lstep_fwd kids kids' items :
    lstep known kids kids' -> Forall2 (sem body known skip_it sub) kids items -> Forall fit kids' ->
    exists items', Forall2 (sem body known skip_it sub) kids' items'.
  Proof.
    intros Hl H Hfit.
    inversion Hl as [kn l1 l2 c Hunk Hwf|kn l1 l2 x y Hne|kn l1 l2 x y Hst]; subst.
    - apply Forall2_app_inv_l in H as (i1 & i2 & H1 & H2 & ->).
      exists (i1 ++ skip_it :: i2). apply Forall2_app; [exact H1|]. constructor; [|exact H2].
      now apply sem_skip.
    - apply Forall2_app_inv_l in H as (i1 & j & H1 & Hj & ->).
      inversion Hj as [|? ix ? j2 Hx Hj2]; subst. inversion Hj2 as [|? iy ? i2 Hy H2]; subst.
      exists (i1 ++ iy :: ix :: i2). apply Forall2_app; [exact H1|].
      constructor; [exact Hy|]. constructor; [exact Hx|]. exact H2.
    - apply Forall2_app_inv_l in H as (i1 & j & H1 & Hj & ->).
      inversion Hj as [|? ix ? i2 Hx H2]; subst.
      assert (Hy : fit y).
      { rewrite Forall_forall in Hfit. apply Hfit. apply in_or_app. right. now left. }
      destruct (sem_fwd x y ix Hst Hx Hy) as (iy & Hiy).
      exists (i1 ++ iy :: i2). apply Forall2_app; [exact H1|]. constructor; assumption.
  Qed.
End LevelFwd.

(** ** A container *)
Section NodeFwd.
  Context {Item Acc X PItem : Type}.
  Variable body : nat -> boxtype -> N -> prog Item.
  Variable known : boxtype -> bool.
  Variable skip_it : Item.
  Variable put : Item -> Acc -> Acc.
  Variable strip : Item -> Item.
  Variable sub : btree -> Item -> Prop.
  Variable acc0 : Acc.
  Variable finish : Acc -> option X.
  Variable strip_acc : Acc -> Acc.
  Variable strip_x : X -> X.
  Variable code : N.
  Variable mk : X -> PItem.

  Hypothesis Hiter : iterating code = Some known.
  Hypothesis Hhom_put : forall i a, strip_acc (put i a) = put (strip i) (strip_acc a).
  Hypothesis Hhom_acc0 : strip_acc acc0 = acc0.
  Hypothesis Hhom_fin : forall a, finish (strip_acc a) = option_map strip_x (finish a).
  Hypothesis Hlstep : forall kids kids' items items',
    (kids = kids' \/ lstep known kids kids') ->
    Forall2 (sem body known skip_it sub) kids items -> Forall2 (sem body known skip_it sub) kids' items' ->
    forall a, put_all put (map strip items) a = put_all put (map strip items') a.
  Hypothesis Hlstep_fwd : forall kids kids' items,
    lstep known kids kids' -> Forall2 (sem body known skip_it sub) kids items -> Forall fit kids' ->
    exists items', Forall2 (sem body known skip_it sub) kids' items'.

  Lemma strip_put_all' items a : strip_acc (put_all put items a) = put_all put (map strip items) (strip_acc a).
  Proof.
    revert a. induction items as [|i t IH]; intros a; [reflexivity|].
    cbn [map]. rewrite !put_all_cons, IH, Hhom_put. reflexivity.
  Qed.

  Lemma node_fwd a b it : tstep a b ->
    node body known skip_it put sub acc0 finish code mk a it -> fit b ->
    exists it', node body known skip_it put sub acc0 finish code mk b it'.
  Proof.
    intros Hst (w & kids & items & v & -> & Hk & Hwf & Hfin & Hs & ->) Hfit.
    inversion Hst; subst.
    - (* ts_hdr_node *)
      exists (mk v), b0, kids, items, v. repeat split; try assumption; try (apply bt_small_s; apply Hfit).
    - (* ts_kids *)
      match goal with
      | H : iterating code = Some ?kn, L : lstep ?kn kids ?k' |- _ =>
          assert (Hl : lstep known kids k') by (rewrite Hiter in H; injection H as <-; exact L);
          rename k' into kids'
      end.
      destruct (Hlstep_fwd kids kids' items Hl Hk (fit_kids _ _ _ Hfit)) as (items' & Hk').
      assert (E : finish (put_all put (map strip items') acc0) = Some (strip_x v)).
      { rewrite <- (Hlstep kids kids' items items' (or_intror Hl) Hk Hk').
        rewrite <- Hhom_acc0 at 1. rewrite <- strip_put_all', Hhom_fin, Hfin. reflexivity. }
      rewrite <- Hhom_acc0 in E at 1. rewrite <- strip_put_all', Hhom_fin in E.
      destruct (finish (put_all put items' acc0)) as [v'|] eqn:Hfin'; [|discriminate E].
      exists (mk v'), w, kids', items', v'. repeat split; try assumption.
      + apply (bt_wf_kids w code). apply Hfit.
      + apply bt_small_s. apply Hfit.
  Qed.
End NodeFwd.

(** ** The levels *)
Section WithMode.
Variable m : mode.

Ltac no_chunk_fwd_tac :=
  intros Hk [E|E] _ _; exfalso; rewrite E in Hk; vm_compute in Hk; discriminate Hk.

Lemma no_sub_fwd {Item} (a b : btree) (it : Item) : tstep a b -> no_sub a it -> fit b -> exists it' : Item, no_sub b it'.
Proof. intros _ []. Qed.

(** *** stbl *)
Lemma stbl_chunk_fwd c : stbl_known (boxtype_of_u32 (c_code c)) = true ->
  (c_code c = 0x7374636f \/ c_code c = 0x636f3634) -> chunk_leaf_ok c -> c_s c < 2 ^ 63 ->
  exists it, sem_stbl m (BLeaf c) it.
Proof.
  destruct c as [w code pl]. unfold chunk_leaf_ok, c_s. cbn [c_code c_payload].
  intros _ [E|E] [H1 H2] Hs; subst code.
  - destruct (H1 eq_refl) as (v & spare & -> & Hw & Hsz). exists (SI_stco v).
    apply sem_leaf_spare; [intros sp; now apply stbl_child_stco | vm_compute; reflexivity | exact Hs].
  - destruct (H2 eq_refl) as (v & spare & -> & Hw & Hsz). exists (SI_co64 v).
    apply sem_leaf_spare; [intros sp; now apply stbl_child_co64 | vm_compute; reflexivity | exact Hs].
Qed.

Definition stbl_lstep_fwd := lstep_fwd (stbl_body m) stbl_known SI_skip no_sub no_sub_fwd stbl_chunk_fwd.

Lemma node_stbl_fwd a b it : tstep a b -> node_stbl m a it -> fit b -> exists it', node_stbl m b it'.
Proof.
  apply (node_fwd (stbl_body m) stbl_known SI_skip stbl_put strip_SI no_sub stbl_acc0 stbl_finish
                  strip_sa strip_stbl 0x7374626c NI_stbl).
  - vm_compute. reflexivity.
  - intros i x. destruct i; reflexivity.
  - reflexivity.
  - intros x. unfold stbl_finish, strip_sa. cbn [sa_stsd sa_stts sa_ctts sa_stss sa_stsc sa_stsz sa_stco sa_co64].
    destruct (sa_stsd x), (sa_stts x), (sa_stsc x), (sa_stsz x); try reflexivity.
    destruct (sa_stco x), (sa_co64 x); reflexivity.
  - exact (stbl_lstep m).
  - exact stbl_lstep_fwd.
Qed.

(** *** dinf *)
Lemma dinf_chunk_fwd c : dinf_known (boxtype_of_u32 (c_code c)) = true ->
  (c_code c = 0x7374636f \/ c_code c = 0x636f3634) -> chunk_leaf_ok c -> c_s c < 2 ^ 63 ->
  exists it, sem_dinf m (BLeaf c) it.
Proof. no_chunk_fwd_tac. Qed.

Definition dinf_lstep_fwd := lstep_fwd (dinf_body m) dinf_known FI_skip no_sub no_sub_fwd dinf_chunk_fwd.

Lemma node_dinf_fwd a b it : tstep a b -> node_dinf m a it -> fit b -> exists it', node_dinf m b it'.
Proof.
  apply (node_fwd (dinf_body m) dinf_known FI_skip dinf_put (fun i => i) no_sub None dinf_finish
                  (fun x => x) (fun x => x) 0x64696e66 NI_dinf).
  - vm_compute. reflexivity.
  - intros i x. reflexivity.
  - reflexivity.
  - intros x. destruct (dinf_finish x); reflexivity.
  - exact (dinf_lstep m).
  - exact dinf_lstep_fwd.
Qed.

(** *** minf *)
Lemma sub_minf_fwd a b it : tstep a b -> sub_minf m a it -> fit b -> exists it', sub_minf m b it'.
Proof.
  intros Hst [H|H] Hfit.
  - destruct (node_stbl_fwd a b it Hst H Hfit) as (it' & H'). exists it'. now left.
  - destruct (node_dinf_fwd a b it Hst H Hfit) as (it' & H'). exists it'. now right.
Qed.

Lemma minf_chunk_fwd c : minf_known (boxtype_of_u32 (c_code c)) = true ->
  (c_code c = 0x7374636f \/ c_code c = 0x636f3634) -> chunk_leaf_ok c -> c_s c < 2 ^ 63 ->
  exists it, sem_minf m (BLeaf c) it.
Proof. no_chunk_fwd_tac. Qed.

Definition minf_lstep_fwd := lstep_fwd (minf_body m) minf_known NI_skip (sub_minf m) sub_minf_fwd minf_chunk_fwd.

Lemma node_minf_fwd a b it : tstep a b -> node_minf m a it -> fit b -> exists it', node_minf m b it'.
Proof.
  apply (node_fwd (minf_body m) minf_known NI_skip minf_put strip_NI (sub_minf m) (None, None, None, None)
                  minf_finish strip_na strip_minf 0x6d696e66 DI_minf).
  - vm_compute. reflexivity.
  - intros i [[[vm sm] di] st]. destruct i; reflexivity.
  - reflexivity.
  - intros [[[vm sm] [di|]] [st|]]; reflexivity.
  - exact (minf_lstep m).
  - exact minf_lstep_fwd.
Qed.

(** *** mdia *)
Lemma mdia_chunk_fwd c : mdia_known (boxtype_of_u32 (c_code c)) = true ->
  (c_code c = 0x7374636f \/ c_code c = 0x636f3634) -> chunk_leaf_ok c -> c_s c < 2 ^ 63 ->
  exists it, sem_mdia m (BLeaf c) it.
Proof. no_chunk_fwd_tac. Qed.

Definition mdia_lstep_fwd := lstep_fwd (mdia_body m) mdia_known DI_skip (node_minf m) node_minf_fwd mdia_chunk_fwd.

Lemma node_mdia_fwd a b it : tstep a b -> node_mdia m a it -> fit b -> exists it', node_mdia m b it'.
Proof.
  apply (node_fwd (mdia_body m) mdia_known DI_skip mdia_put strip_DI (node_minf m) (None, None, None)
                  mdia_finish strip_da strip_mdia 0x6d646961 TI_mdia).
  - vm_compute. reflexivity.
  - intros i [[md hd] mi]. destruct i; reflexivity.
  - reflexivity.
  - intros [[[md|] [hd|]] [mi|]]; reflexivity.
  - exact (mdia_lstep m).
  - exact mdia_lstep_fwd.
Qed.

(** *** trak *)
Lemma trak_chunk_fwd c : trak_known (boxtype_of_u32 (c_code c)) = true ->
  (c_code c = 0x7374636f \/ c_code c = 0x636f3634) -> chunk_leaf_ok c -> c_s c < 2 ^ 63 ->
  exists it, sem_trak m (BLeaf c) it.
Proof. no_chunk_fwd_tac. Qed.

Definition trak_lstep_fwd := lstep_fwd (trak_body m) trak_known TI_skip (node_mdia m) node_mdia_fwd trak_chunk_fwd.

Lemma node_trak_fwd a b it : tstep a b -> node_trak m a it -> fit b -> exists it', node_trak m b it'.
Proof.
  apply (node_fwd (trak_body m) trak_known TI_skip trak_put strip_TI (node_mdia m) (None, None, None, None)
                  trak_finish strip_ta strip_trak 0x7472616b VI_trak).
  - vm_compute. reflexivity.
  - intros i [[[tk ed] me] md]. destruct i; reflexivity.
  - reflexivity.
  - intros [[[[tk|] ed] me] [md|]]; reflexivity.
  - exact (trak_lstep m).
  - exact trak_lstep_fwd.
Qed.

(** *** udta, mvex *)
Lemma udta_chunk_fwd c : udta_known (boxtype_of_u32 (c_code c)) = true ->
  (c_code c = 0x7374636f \/ c_code c = 0x636f3634) -> chunk_leaf_ok c -> c_s c < 2 ^ 63 ->
  exists it, sem_udta m (BLeaf c) it.
Proof. no_chunk_fwd_tac. Qed.

Definition udta_lstep_fwd := lstep_fwd (udta_body m) udta_known UI_skip no_sub no_sub_fwd udta_chunk_fwd.

Lemma node_udta_fwd a b it : tstep a b -> node_udta m a it -> fit b -> exists it', node_udta m b it'.
Proof.
  apply (node_fwd (udta_body m) udta_known UI_skip udta_put (fun i => i) no_sub None udta_finish
                  (fun x => x) (fun x => x) 0x75647461 VI_udta).
  - vm_compute. reflexivity.
  - intros i x. reflexivity.
  - reflexivity.
  - intros x. reflexivity.
  - exact (udta_lstep m).
  - exact udta_lstep_fwd.
Qed.

Lemma mvex_chunk_fwd c : mvex_known (boxtype_of_u32 (c_code c)) = true ->
  (c_code c = 0x7374636f \/ c_code c = 0x636f3634) -> chunk_leaf_ok c -> c_s c < 2 ^ 63 ->
  exists it, sem_mvex m (BLeaf c) it.
Proof. no_chunk_fwd_tac. Qed.

Definition mvex_lstep_fwd := lstep_fwd (mvex_body m) mvex_known XI_skip no_sub no_sub_fwd mvex_chunk_fwd.

Lemma node_mvex_fwd a b it : tstep a b -> node_mvex m a it -> fit b -> exists it', node_mvex m b it'.
Proof.
  apply (node_fwd (mvex_body m) mvex_known XI_skip mvex_put (fun i => i) no_sub (None, None) mvex_finish
                  (fun x => x) (fun x => x) 0x6d766578 VI_mvex).
  - vm_compute. reflexivity.
  - intros i x. reflexivity.
  - reflexivity.
  - intros x. destruct (mvex_finish x); reflexivity.
  - exact (mvex_lstep m).
  - exact mvex_lstep_fwd.
Qed.

(** *** moov *)
Lemma sub_moov_fwd a b it : tstep a b -> sub_moov m a it -> fit b -> exists it', sub_moov m b it'.
Proof.
  intros Hst [H|[H|H]] Hfit.
  - destruct (node_trak_fwd a b it Hst H Hfit) as (it' & H'). exists it'. now left.
  - destruct (node_udta_fwd a b it Hst H Hfit) as (it' & H'). exists it'. right. now left.
  - destruct (node_mvex_fwd a b it Hst H Hfit) as (it' & H'). exists it'. right. now right.
Qed.

Lemma moov_chunk_fwd c : moov_known (boxtype_of_u32 (c_code c)) = true ->
  (c_code c = 0x7374636f \/ c_code c = 0x636f3634) -> chunk_leaf_ok c -> c_s c < 2 ^ 63 ->
  exists it, sem_moov m (BLeaf c) it.
Proof. no_chunk_fwd_tac. Qed.

Definition moov_lstep_fwd := lstep_fwd (moov_body m) moov_known VI_skip (sub_moov m) sub_moov_fwd moov_chunk_fwd.

Lemma node_moov_fwd a b it : tstep a b -> node_moov m a it -> fit b -> exists it', node_moov m b it'.
Proof.
  apply (node_fwd (moov_body m) moov_known VI_skip moov_put strip_VI (sub_moov m) (None, None, None, None, [])
                  moov_finish strip_va strip_moov 0x6d6f6f76 OI_moov).
  - vm_compute. reflexivity.
  - intros i [[[[mh me] ud] mx] tr]. destruct i; try reflexivity.
    cbn [strip_va moov_put strip_VI]. now rewrite map_app.
  - reflexivity.
  - intros [[[[[mh|] me] ud] mx] tr]; reflexivity.
  - exact (moov_lstep m).
  - exact moov_lstep_fwd.
Qed.

(** *** the top level *)
Lemma open_chunk_fwd c : open_known (boxtype_of_u32 (c_code c)) = true ->
  (c_code c = 0x7374636f \/ c_code c = 0x636f3634) -> chunk_leaf_ok c -> c_s c < 2 ^ 63 ->
  exists it, sem_open m (BLeaf c) it.
Proof. no_chunk_fwd_tac. Qed.

Definition open_lstep_fwd := lstep_fwd (open_body m) open_known OI_skip (node_moov m) node_moov_fwd open_chunk_fwd.

(** a forward step from a [good] list arrives at a [good] list *)
Theorem good_fwd T T' :
  good m T -> lstep open_known T T' ->
  Forall bt_wf T' -> lenN (file_of T') < 2 ^ 63 -> Forall chunk_ok T' -> good m T'.
Proof.
  intros (_ & _ & (items & S)) Hl W L C. split; [exact W|]. split; [exact L|].
  apply (open_lstep_fwd T T' items Hl S).
  pose proof (bt_small_file T' L) as Sm.
  rewrite Forall_forall in *. intros t Ht. repeat split; auto.
Qed.

(** forward steps: the target is representable, shorter than 2^63 bytes, and its chunk-offset
    leaves are well-formed tables *)
Definition fstep (T T' : list btree) : Prop :=
  lstep open_known T T' /\ Forall bt_wf T' /\ lenN (file_of T') < 2 ^ 63 /\ Forall chunk_ok T'.

Lemma fsteps_csteps T T' : clos_refl_trans _ fstep T T' ->
  good m T -> good m T' /\ clos_refl_sym_trans _ (cstep m) T T'.
Proof.
  induction 1 as [x y (Hl & W & L & C)|x|x y z _ IH1 _ IH2]; intros G.
  - assert (G' : good m y) by (now apply (good_fwd x y)).
    split; [exact G'|]. apply rst_step. exact (conj G (conj G' Hl)).
  - split; [exact G | apply rst_refl].
  - destruct (IH1 G) as [Gy C1]. destruct (IH2 Gy) as [Gz C2]. split; [exact Gz|].
    now apply rst_trans with y.
Qed.

(** only [TA] needs to be canonical *)
Theorem C12_layout_independence_forward TA TB ra :
  good m TA -> clos_refl_trans _ fstep TA TB ->
  opens m (file_of TA) ra -> rd_moofs ra = [] ->
  C12_conclusion m (file_of TA) (file_of TB) ra.
Proof.
  intros G Hc Ho Hm. destruct (fsteps_csteps TA TB Hc G) as [_ C].
  exact (C12_layout_independence_canonical m TA TB ra G C Ho Hm).
Qed.

End WithMode.

Print Assumptions good_fwd.
Print Assumptions C12_layout_independence_forward.
