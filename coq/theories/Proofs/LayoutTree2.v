(** * Layout independence over box trees: which trees are canonical

    Introduction rules for [sem] (LayoutTreeKit.v) at every level: skipped boxes (any type the
    loop does not interpret, any payload); the thirteen fixed-layout / table leaves as
    [iso_xxx_payload v ++ spare] for a well-formed [v] (either header form); the leaves without a
    spare-byte theorem (ftyp, emsg, dref, mehd, trex) and the boxes that do not iterate the way the
    loops do (stsd, edts, meta) as [iso_xxx_payload v]; the containers whose children have a
    [sem] and whose fold finishes.  These are the trees [C12_layout_independence_canonical]
    (LayoutTree.v) speaks about. *)
From MP4 Require Import LayoutKit LayoutProofs LayoutMore LayoutOpen LayoutOpenS Reader KitCont.
From MP4 Require Import C12 LayoutTreeKit LayoutTree.
From MP4 Require Import RtMvhd RtTkhd RtMdhd RtVmhd RtSmhd RtHdlr RtStts RtCtts RtStsc RtStsz RtStss RtStco RtCo64.
From MP4 Require Import IsoTkhd IsoMdhd IsoVmhd IsoSmhd IsoHdlr IsoStts IsoCtts IsoStsc IsoStsz IsoStss IsoStco IsoCo64.
From MP4 Require Import RtFtyp IsoFtyp RtEmsg IsoEmsg RtDinf IsoDinf RtMehd IsoMehd RtTrex IsoTrex.
From MP4 Require Import RtStsd IsoStsd RtEdts IsoEdts RtMeta IsoMetaBox.
From Coq Require Import Lia ZifyN ZifyNat ZifyBool.
Open Scope string_scope.
Open Scope list_scope.
Open Scope N_scope.

(** ** Generic rules *)
Section Intro.
  Context {Item : Type}.
  Variable body : nat -> boxtype -> N -> prog Item.
  Variable known : boxtype -> bool.
  Variable skip_it : Item.
  Variable sub : btree -> Item -> Prop.

  (** a leaf with spare bytes after a payload that decodes whatever follows it *)
  Lemma sem_leaf_spare w code pl spare it :
    (forall sp, decodes_to body 0 (mkChild w code (pl ++ sp)) it) ->
    known (boxtype_of_u32 code) = true -> 8 + lenN (pl ++ spare) < 2 ^ 63 ->
    sem body known skip_it sub (BLeaf (mkChild w code (pl ++ spare))) it.
  Proof.
    intros H Hk Hs. apply (sem_opaque body known skip_it sub _ it 0%nat).
    - exact I.
    - exact Hk.
    - exact Hs.
    - apply decodes_to_s_of. apply H.
    - intros sp _. apply decodes_to_s_of. unfold with_tail. cbn [bt_child c_w64 c_code c_payload].
      rewrite <- app_assoc. apply H.
  Qed.

  (** an opaque box whose type does not allow spare bytes *)
  Lemma sem_plain t it F0 :
    opaque t -> known (boxtype_of_u32 (c_code (bt_child t))) = true -> c_s (bt_child t) < 2 ^ 63 ->
    spare_ok (c_code (bt_child t)) = false ->
    decodes_to_s body F0 (bt_child t) it ->
    sem body known skip_it sub t it.
  Proof.
    intros Ho Hk Hs Hsp Hd. apply (sem_opaque body known skip_it sub t it F0); try assumption.
    intros sp [->|(c & -> & Hc)].
    - unfold with_tail. rewrite app_nil_r. destruct (bt_child t). exact Hd.
    - cbn [bt_child] in Hsp. rewrite Hc in Hsp. discriminate Hsp.
  Qed.
End Intro.

(** an opaque box from a container round trip *)
Lemma decodes_to_s_cont {Item X} (body : nat -> boxtype -> N -> prog Item) (m : mode)
      wf size code enc (dec : nat -> mode -> N -> prog X) payload fb (mk : X -> Item) name w v :
  cont_roundtrip_s wf size code enc dec payload fb ->
  boxtype_of_u32 code = name ->
  (forall f s st, run (body f name s) st = run (x <- dec f m s ;; Ret (mk x)) st) ->
  wf v = true -> size v < U32 ->
  decodes_to_s body (fb v) (mkChild w code (payload v)) (mk v) /\ 8 + lenN (payload v) = size v.
Proof.
  intros Hrt Hn Hb Hw Hs. destruct (Hrt v Hw Hs) as (_ & _ & _ & Hlen & Hdec).
  split; [|lia]. intros f d l q rest Hf Hq Hd. unfold c_s in *. cbn [c_code c_payload] in *.
  rewrite Hn, Hb, run_bind.
  replace (8 + lenN (payload v)) with (size v) in * by lia.
  rewrite (Hdec f m d l q rest Hf Hq Hd). reflexivity.
Qed.

Section WithMode.
Variable m : mode.

Ltac small_tac := unfold c_s; cbn [bt_child c_payload]; unfold U32 in *; lia.

(** ** stbl *)
Lemma sem_stbl_skip t : stbl_known (boxtype_of_u32 (c_code (bt_child t))) = false -> sem_stbl m t SI_skip.
Proof. apply sem_skip. Qed.

Lemma sem_stbl_stts w v spare : stts_wf v = true -> stts_size v < U32 -> lenN spare < 2 ^ 62 ->
  sem_stbl m (BLeaf (mkChild w 0x73747473 (iso_stts_payload v ++ spare))) (SI_stts v).
Proof.
  intros Hw Hs Hsp. apply sem_leaf_spare; [intros sp; now apply stbl_child_stts | vm_compute; reflexivity |].
  destruct (stts_roundtrip v Hw Hs) as (_ & _ & _ & Hl & _). rewrite lenN_app. unfold U32 in *. lia.
Qed.
Lemma sem_stbl_ctts w v spare : ctts_wf v = true -> ctts_size v < U32 -> lenN spare < 2 ^ 62 ->
  sem_stbl m (BLeaf (mkChild w 0x63747473 (iso_ctts_payload v ++ spare))) (SI_ctts v).
Proof.
  intros Hw Hs Hsp. apply sem_leaf_spare; [intros sp; now apply stbl_child_ctts | vm_compute; reflexivity |].
  destruct (ctts_roundtrip v Hw Hs) as (_ & _ & _ & Hl & _). rewrite lenN_app. unfold U32 in *. lia.
Qed.
Lemma sem_stbl_stss w v spare : stss_wf v = true -> stss_size v < U32 -> lenN spare < 2 ^ 62 ->
  sem_stbl m (BLeaf (mkChild w 0x73747373 (iso_stss_payload v ++ spare))) (SI_stss v).
Proof.
  intros Hw Hs Hsp. apply sem_leaf_spare; [intros sp; now apply stbl_child_stss | vm_compute; reflexivity |].
  destruct (stss_roundtrip v Hw Hs) as (_ & _ & _ & Hl & _). rewrite lenN_app. unfold U32 in *. lia.
Qed.
Lemma sem_stbl_stsc w v spare : stsc_wf v = true -> stsc_size v < U32 -> lenN spare < 2 ^ 62 ->
  sem_stbl m (BLeaf (mkChild w 0x73747363 (iso_stsc_payload v ++ spare))) (SI_stsc v).
Proof.
  intros Hw Hs Hsp. apply sem_leaf_spare; [intros sp; now apply stbl_child_stsc | vm_compute; reflexivity |].
  destruct (stsc_roundtrip v Hw Hs) as (_ & _ & _ & Hl & _). rewrite lenN_app. unfold U32 in *. lia.
Qed.
Lemma sem_stbl_stsz w v spare : stsz_wf v = true -> stsz_size v < U32 -> lenN spare < 2 ^ 62 ->
  sem_stbl m (BLeaf (mkChild w 0x7374737a (iso_stsz_payload v ++ spare))) (SI_stsz v).
Proof.
  intros Hw Hs Hsp. apply sem_leaf_spare; [intros sp; now apply stbl_child_stsz | vm_compute; reflexivity |].
  destruct (stsz_roundtrip v Hw Hs) as (_ & _ & _ & Hl & _). rewrite lenN_app. unfold U32 in *. lia.
Qed.
Lemma sem_stbl_stco w v spare : stco_wf v = true -> stco_size v < U32 -> lenN spare < 2 ^ 62 ->
  sem_stbl m (BLeaf (mkChild w 0x7374636f (iso_stco_payload v ++ spare))) (SI_stco v).
Proof.
  intros Hw Hs Hsp. apply sem_leaf_spare; [intros sp; now apply stbl_child_stco | vm_compute; reflexivity |].
  destruct (stco_roundtrip v Hw Hs) as (_ & _ & _ & Hl & _). rewrite lenN_app. unfold U32 in *. lia.
Qed.
Lemma sem_stbl_co64 w v spare : co64_wf v = true -> co64_size v < U32 -> lenN spare < 2 ^ 62 ->
  sem_stbl m (BLeaf (mkChild w 0x636f3634 (iso_co64_payload v ++ spare))) (SI_co64 v).
Proof.
  intros Hw Hs Hsp. apply sem_leaf_spare; [intros sp; now apply stbl_child_co64 | vm_compute; reflexivity |].
  destruct (co64_roundtrip v Hw Hs) as (_ & _ & _ & Hl & _). rewrite lenN_app. unfold U32 in *. lia.
Qed.

(** stsd does not iterate (see "Limits" in Props/C12.v): it is canonical as a whole *)
Lemma sem_stbl_stsd (me : mode) w v : stsd_rt_wf v = true -> stsd_size v < U32 ->
  sem_stbl m (BLeaf (mkChild w 0x73747364 (iso_stsd_payload v))) (SI_stsd v).
Proof.
  intros Hw Hs.
  destruct (decodes_to_s_cont (stbl_body m) m _ _ _ _ _ _ _ SI_stsd StsdBox w v
              (cont_s_of_cont _ _ _ _ _ _ _ (stsd_roundtrip me)) bt_stsd (fun _ _ _ => eq_refl) Hw Hs) as [Hd Hl].
  apply (sem_plain _ _ _ _ _ _ 1%nat);
    [exact I | cbn [bt_child c_code]; vm_compute; reflexivity | | cbn [bt_child c_code]; vm_compute; reflexivity | exact Hd].
  unfold c_s. cbn [bt_child c_payload]. unfold U32 in *. lia.
Qed.

(** ** dinf, mvex *)
Lemma sem_dinf_skip t : dinf_known (boxtype_of_u32 (c_code (bt_child t))) = false -> sem_dinf m t FI_skip.
Proof. apply sem_skip. Qed.

Lemma sem_dinf_dref w v : dref_wf v = true -> dref_size v < U32 ->
  sem_dinf m (BLeaf (mkChild w 0x64726566 (iso_dref_payload v))) (FI_dref v).
Proof.
  intros Hw Hs. destruct (dref_roundtrip v Hw Hs) as (_ & _ & _ & Hl & _).
  apply (sem_plain _ _ _ _ _ _ 0%nat);
    [exact I | cbn [bt_child c_code]; vm_compute; reflexivity | | cbn [bt_child c_code]; vm_compute; reflexivity | ].
  - unfold c_s. cbn [bt_child c_payload]. unfold U32 in *. lia.
  - apply decodes_to_s_of. now apply dinf_child_dref.
Qed.

Lemma sem_mvex_skip t : mvex_known (boxtype_of_u32 (c_code (bt_child t))) = false -> sem_mvex m t XI_skip.
Proof. apply sem_skip. Qed.

Lemma sem_mvex_mehd w v : mehd_wf v = true -> mehd_size v < U32 ->
  sem_mvex m (BLeaf (mkChild w 0x6d656864 (iso_mehd_payload v))) (XI_mehd v).
Proof.
  intros Hw Hs. destruct (mehd_roundtrip v Hw Hs) as (_ & _ & _ & Hl & _).
  apply (sem_plain _ _ _ _ _ _ 0%nat);
    [exact I | cbn [bt_child c_code]; vm_compute; reflexivity | | cbn [bt_child c_code]; vm_compute; reflexivity | ].
  - unfold c_s. cbn [bt_child c_payload]. unfold U32 in *. lia.
  - apply decodes_to_s_of. now apply mvex_child_mehd.
Qed.

Lemma sem_mvex_trex w v : trex_wf v = true -> trex_size v < U32 ->
  sem_mvex m (BLeaf (mkChild w 0x74726578 (iso_trex_payload v))) (XI_trex v).
Proof.
  intros Hw Hs. destruct (trex_roundtrip v Hw Hs) as (_ & _ & _ & Hl & _).
  apply (sem_plain _ _ _ _ _ _ 0%nat);
    [exact I | cbn [bt_child c_code]; vm_compute; reflexivity | | cbn [bt_child c_code]; vm_compute; reflexivity | ].
  - unfold c_s. cbn [bt_child c_payload]. unfold U32 in *. lia.
  - apply decodes_to_s_of. now apply mvex_child_trex.
Qed.

(** ** minf *)
Lemma sem_minf_skip t : minf_known (boxtype_of_u32 (c_code (bt_child t))) = false -> sem_minf m t NI_skip.
Proof. apply sem_skip. Qed.

Lemma sem_minf_vmhd w v spare : vmhd_wf v = true -> vmhd_size v < U32 -> lenN spare < 2 ^ 62 ->
  sem_minf m (BLeaf (mkChild w 0x766d6864 (iso_vmhd_payload v ++ spare))) (NI_vmhd v).
Proof.
  intros Hw Hs Hsp. apply sem_leaf_spare; [intros sp; now apply minf_child_vmhd | vm_compute; reflexivity |].
  destruct (vmhd_roundtrip v Hw Hs) as (_ & _ & _ & Hl & _). rewrite lenN_app. unfold U32 in *. lia.
Qed.
Lemma sem_minf_smhd w v spare : smhd_wf v = true -> smhd_size v < U32 -> lenN spare < 2 ^ 62 ->
  sem_minf m (BLeaf (mkChild w 0x736d6864 (iso_smhd_payload v ++ spare))) (NI_smhd v).
Proof.
  intros Hw Hs Hsp. apply sem_leaf_spare; [intros sp; now apply minf_child_smhd | vm_compute; reflexivity |].
  destruct (smhd_roundtrip v Hw Hs) as (_ & _ & _ & Hl & _). rewrite lenN_app. unfold U32 in *. lia.
Qed.

(** a container: its children have a [sem] one level down and the fold finishes *)
Lemma sem_minf_stbl w kids items v :
  Forall2 (sem_stbl m) kids items -> Forall (fun k => child_wf (bt_child k)) kids ->
  stbl_finish (put_all stbl_put items stbl_acc0) = Some v ->
  c_s (bt_child (BNode w 0x7374626c kids)) < 2 ^ 63 ->
  sem_minf m (BNode w 0x7374626c kids) (NI_stbl v).
Proof. intros H1 H2 H3 H4. apply sem_sub. left. exists w, kids, items, v. auto 10. Qed.

Lemma sem_minf_dinf w kids items v :
  Forall2 (sem_dinf m) kids items -> Forall (fun k => child_wf (bt_child k)) kids ->
  dinf_finish (put_all dinf_put items None) = Some v ->
  c_s (bt_child (BNode w 0x64696e66 kids)) < 2 ^ 63 ->
  sem_minf m (BNode w 0x64696e66 kids) (NI_dinf v).
Proof. intros H1 H2 H3 H4. apply sem_sub. right. exists w, kids, items, v. auto 10. Qed.

(** ** mdia *)
Lemma sem_mdia_skip t : mdia_known (boxtype_of_u32 (c_code (bt_child t))) = false -> sem_mdia m t DI_skip.
Proof. apply sem_skip. Qed.

Lemma sem_mdia_mdhd w v spare : mdhd_wf v = true -> mdhd_size v < U32 -> lenN spare < 2 ^ 62 ->
  sem_mdia m (BLeaf (mkChild w 0x6d646864 (iso_mdhd_payload v ++ spare))) (DI_mdhd v).
Proof.
  intros Hw Hs Hsp. apply sem_leaf_spare; [intros sp; now apply mdia_child_mdhd | vm_compute; reflexivity |].
  destruct (mdhd_roundtrip v Hw Hs) as (_ & _ & _ & Hl & _). rewrite lenN_app. unfold U32 in *. lia.
Qed.
Lemma sem_mdia_hdlr w v spare : hdlr_wf v = true -> hdlr_size v < U32 -> lenN spare < 2 ^ 62 ->
  sem_mdia m (BLeaf (mkChild w 0x68646c72 (IsoHdlr.iso_hdlr_payload v ++ spare))) (DI_hdlr v).
Proof.
  intros Hw Hs Hsp. apply sem_leaf_spare; [intros sp; now apply mdia_child_hdlr | vm_compute; reflexivity |].
  destruct (hdlr_roundtrip v Hw Hs) as (_ & _ & _ & Hl & _). rewrite lenN_app. unfold U32 in *. lia.
Qed.

Lemma sem_mdia_minf w kids items v :
  Forall2 (sem_minf m) kids items -> Forall (fun k => child_wf (bt_child k)) kids ->
  minf_finish (put_all minf_put items (None, None, None, None)) = Some v ->
  c_s (bt_child (BNode w 0x6d696e66 kids)) < 2 ^ 63 ->
  sem_mdia m (BNode w 0x6d696e66 kids) (DI_minf v).
Proof. intros H1 H2 H3 H4. apply sem_sub. exists w, kids, items, v. auto 10. Qed.

(** ** trak *)
Lemma sem_trak_skip t : trak_known (boxtype_of_u32 (c_code (bt_child t))) = false -> sem_trak m t TI_skip.
Proof. apply sem_skip. Qed.

Lemma sem_trak_tkhd w v spare : tkhd_wf v = true -> tkhd_size v < U32 -> lenN spare < 2 ^ 62 ->
  sem_trak m (BLeaf (mkChild w 0x746b6864 (iso_tkhd_payload v ++ spare))) (TI_tkhd v).
Proof.
  intros Hw Hs Hsp. apply sem_leaf_spare; [intros sp; now apply trak_child_tkhd | vm_compute; reflexivity |].
  destruct (tkhd_roundtrip v Hw Hs) as (_ & _ & _ & Hl & _). rewrite lenN_app. unfold U32 in *. lia.
Qed.

(** edts reads one child only: canonical as a whole *)
Lemma sem_trak_edts w v : edts_wf v = true -> edts_size v < U32 ->
  sem_trak m (BLeaf (mkChild w 0x65647473 (iso_edts_payload v))) (TI_edts v).
Proof.
  intros Hw Hs.
  assert (Hbt : boxtype_of_u32 0x65647473 = EdtsBox) by (vm_compute; reflexivity).
  destruct (decodes_to_s_cont (trak_body m) m _ _ _ _ _ _ _ TI_edts EdtsBox w v
              (cont_s_of_cont _ _ _ _ _ _ _ edts_roundtrip) Hbt (fun _ _ _ => eq_refl) Hw Hs) as [Hd Hl].
  apply (sem_plain _ _ _ _ _ _ 0%nat);
    [exact I | cbn [bt_child c_code]; vm_compute; reflexivity | | cbn [bt_child c_code]; vm_compute; reflexivity | exact Hd].
  unfold c_s. cbn [bt_child c_payload]. unfold U32 in *. lia.
Qed.

(** a meta box in the reference layout *)
Lemma sem_trak_meta w v : meta_rt_wf v = true -> meta_size v < U32 ->
  sem_trak m (BLeaf (mkChild w 0x6d657461 (iso_meta_payload v))) (TI_meta v).
Proof.
  intros Hw Hs.
  assert (Hbt : boxtype_of_u32 0x6d657461 = MetaBox) by (vm_compute; reflexivity).
  destruct (decodes_to_s_cont (trak_body m) m _ _ _ _ _ _ _ TI_meta MetaBox w v
              meta_roundtrip Hbt (fun _ _ _ => eq_refl) Hw Hs) as [Hd Hl].
  apply (sem_plain _ _ _ _ _ _ (meta_fuel v));
    [exact I | cbn [bt_child c_code]; vm_compute; reflexivity | | cbn [bt_child c_code]; vm_compute; reflexivity | exact Hd].
  unfold c_s. cbn [bt_child c_payload]. unfold U32 in *. lia.
Qed.

Lemma sem_trak_mdia w kids items v :
  Forall2 (sem_mdia m) kids items -> Forall (fun k => child_wf (bt_child k)) kids ->
  mdia_finish (put_all mdia_put items (None, None, None)) = Some v ->
  c_s (bt_child (BNode w 0x6d646961 kids)) < 2 ^ 63 ->
  sem_trak m (BNode w 0x6d646961 kids) (TI_mdia v).
Proof. intros H1 H2 H3 H4. apply sem_sub. exists w, kids, items, v. auto 10. Qed.

(** ** udta *)
Lemma sem_udta_skip t : udta_known (boxtype_of_u32 (c_code (bt_child t))) = false -> sem_udta m t UI_skip.
Proof. apply sem_skip. Qed.

Lemma sem_udta_meta w v : meta_rt_wf v = true -> meta_size v < U32 ->
  sem_udta m (BLeaf (mkChild w 0x6d657461 (iso_meta_payload v))) (UI_meta v).
Proof.
  intros Hw Hs.
  assert (Hbt : boxtype_of_u32 0x6d657461 = MetaBox) by (vm_compute; reflexivity).
  destruct (decodes_to_s_cont (udta_body m) m _ _ _ _ _ _ _ UI_meta MetaBox w v
              meta_roundtrip Hbt (fun _ _ _ => eq_refl) Hw Hs) as [Hd Hl].
  apply (sem_plain _ _ _ _ _ _ (meta_fuel v));
    [exact I | cbn [bt_child c_code]; vm_compute; reflexivity | | cbn [bt_child c_code]; vm_compute; reflexivity | exact Hd].
  unfold c_s. cbn [bt_child c_payload]. unfold U32 in *. lia.
Qed.

(** ** moov *)
Lemma sem_moov_skip t : moov_known (boxtype_of_u32 (c_code (bt_child t))) = false -> sem_moov m t VI_skip.
Proof. apply sem_skip. Qed.

Lemma sem_moov_mvhd w v spare : mvhd_wf v = true -> mvhd_size v < U32 -> lenN spare < 2 ^ 62 ->
  sem_moov m (BLeaf (mkChild w 0x6d766864 (mvhd_payload v ++ spare))) (VI_mvhd v).
Proof.
  intros Hw Hs Hsp. apply sem_leaf_spare; [intros sp; now apply moov_child_mvhd | vm_compute; reflexivity |].
  destruct (mvhd_roundtrip v Hw Hs) as (_ & _ & _ & Hl & _). rewrite lenN_app. unfold U32 in *. lia.
Qed.

Lemma sem_moov_meta w v : meta_rt_wf v = true -> meta_size v < U32 ->
  sem_moov m (BLeaf (mkChild w 0x6d657461 (iso_meta_payload v))) (VI_meta v).
Proof.
  intros Hw Hs.
  assert (Hbt : boxtype_of_u32 0x6d657461 = MetaBox) by (vm_compute; reflexivity).
  destruct (decodes_to_s_cont (moov_body m) m _ _ _ _ _ _ _ VI_meta MetaBox w v
              meta_roundtrip Hbt (fun _ _ _ => eq_refl) Hw Hs) as [Hd Hl].
  apply (sem_plain _ _ _ _ _ _ (meta_fuel v));
    [exact I | cbn [bt_child c_code]; vm_compute; reflexivity | | cbn [bt_child c_code]; vm_compute; reflexivity | exact Hd].
  unfold c_s. cbn [bt_child c_payload]. unfold U32 in *. lia.
Qed.

Lemma sem_moov_trak w kids items v :
  Forall2 (sem_trak m) kids items -> Forall (fun k => child_wf (bt_child k)) kids ->
  trak_finish (put_all trak_put items (None, None, None, None)) = Some v ->
  c_s (bt_child (BNode w 0x7472616b kids)) < 2 ^ 63 ->
  sem_moov m (BNode w 0x7472616b kids) (VI_trak v).
Proof. intros H1 H2 H3 H4. apply sem_sub. left. exists w, kids, items, v. auto 10. Qed.

Lemma sem_moov_udta w kids items v :
  Forall2 (sem_udta m) kids items -> Forall (fun k => child_wf (bt_child k)) kids ->
  udta_finish (put_all udta_put items None) = Some v ->
  c_s (bt_child (BNode w 0x75647461 kids)) < 2 ^ 63 ->
  sem_moov m (BNode w 0x75647461 kids) (VI_udta v).
Proof. intros H1 H2 H3 H4. apply sem_sub. right. left. exists w, kids, items, v. auto 10. Qed.

Lemma sem_moov_mvex w kids items v :
  Forall2 (sem_mvex m) kids items -> Forall (fun k => child_wf (bt_child k)) kids ->
  mvex_finish (put_all mvex_put items (None, None)) = Some v ->
  c_s (bt_child (BNode w 0x6d766578 kids)) < 2 ^ 63 ->
  sem_moov m (BNode w 0x6d766578 kids) (VI_mvex v).
Proof. intros H1 H2 H3 H4. apply sem_sub. right. right. exists w, kids, items, v. auto 10. Qed.

(** ** the top level *)
Lemma sem_open_skip t : open_known (boxtype_of_u32 (c_code (bt_child t))) = false -> sem_open m t OI_skip.
Proof. apply sem_skip. Qed.

(** in particular the media data, whatever it holds *)
Lemma sem_open_mdat w payload : sem_open m (BLeaf (mkChild w 0x6d646174 payload)) OI_skip.
Proof. apply sem_skip. vm_compute. reflexivity. Qed.

Lemma sem_open_ftyp w v : ftyp_wf v = true -> ftyp_size v < U32 ->
  sem_open m (BLeaf (mkChild w 0x66747970 (iso_ftyp_payload v))) (OI_ftyp v).
Proof.
  intros Hw Hs. destruct (ftyp_roundtrip v Hw Hs) as (_ & _ & _ & Hl & _).
  apply (sem_plain _ _ _ _ _ _ 0%nat);
    [exact I | cbn [bt_child c_code]; vm_compute; reflexivity | | cbn [bt_child c_code]; vm_compute; reflexivity | ].
  - unfold c_s. cbn [bt_child c_payload]. unfold U32 in *. lia.
  - apply decodes_to_s_of. now apply open_child_ftyp.
Qed.

Lemma sem_open_emsg w v : emsg_wf v = true -> emsg_size v < U32 ->
  sem_open m (BLeaf (mkChild w 0x656d7367 (iso_emsg_payload v))) (OI_emsg v).
Proof.
  intros Hw Hs. destruct (emsg_roundtrip v Hw Hs) as (_ & _ & _ & Hl & Hd).
  assert (Hbt : boxtype_of_u32 0x656d7367 = EmsgBox) by (vm_compute; reflexivity).
  apply (sem_plain _ _ _ _ _ _ 0%nat);
    [exact I | cbn [bt_child c_code]; vm_compute; reflexivity | | cbn [bt_child c_code]; vm_compute; reflexivity | ].
  - unfold c_s. cbn [bt_child c_payload]. unfold U32 in *. lia.
  - apply decodes_to_s_of.
    apply (decodes_to_leaf (open_body m) dec_emsg m OI_emsg EmsgBox); [exact Hbt | reflexivity |].
    exact (leaf_child_decodes0 _ _ _ _ _ _ emsg_roundtrip v Hw Hs).
Qed.

Lemma sem_open_moov w kids items v :
  Forall2 (sem_moov m) kids items -> Forall (fun k => child_wf (bt_child k)) kids ->
  moov_finish (put_all moov_put items (None, None, None, None, [])) = Some v ->
  c_s (bt_child (BNode w 0x6d6f6f76 kids)) < 2 ^ 63 ->
  sem_open m (BNode w 0x6d6f6f76 kids) (OI_moov v).
Proof. intros H1 H2 H3 H4. apply sem_sub. exists w, kids, items, v. auto 10. Qed.

End WithMode.

Print Assumptions sem_stbl_stco.
Print Assumptions sem_stbl_stsd.
Print Assumptions sem_moov_meta.
Print Assumptions sem_open_moov.
