(** Round trip of [TfdtBox] *)
From MP4 Require Import Kit BoxTfdt IsoTfdt.
From Coq Require Import ZifyN ZifyNat ZifyBool.
Open Scope string_scope.
Open Scope list_scope.
Open Scope N_scope.

Lemma tfdt_code : u32_of_boxtype (box_type_of "TfdtBox") = 0x74666474.
Proof. vm_compute. reflexivity. Qed.

Lemma tfdt_size_eq v : tfdt_version v < 2 ->
  tfdt_size v = if tfdt_version v =? 1 then 20 else 16.
Proof.
  intros H. unfold tfdt_size, HEADER_SIZE, HEADER_EXT_SIZE, Tables.HEADER_SIZE, Tables.HEADER_EXT_SIZE.
  destruct (N.eqb_spec (tfdt_version v) 1), (N.eqb_spec (tfdt_version v) 0); lia.
Qed.

Lemma tfdt_enc v : tfdt_wf v = true ->
  wfin (enc_tfdt v) = Ok (tfdt_size v) /\
  wout (enc_tfdt v) = be 4 (tfdt_size v) ++ be 4 0x74666474 ++ iso_tfdt_payload v.
Proof.
  intros H. unfold enc_tfdt, iso_tfdt_payload.
  unfold tfdt_wf in H. split_andb.
  match goal with H : tfdt_version v <? 2 = true |- _ => apply N.ltb_lt in H; pose proof (tfdt_size_eq v H) as Hsz end.
  rewrite write_header_small by (rewrite Hsz; destruct (tfdt_version v =? 1); reflexivity).
  rewrite tfdt_code.
  rewrite write_header_ext_small by assumption.
  destruct (N.eqb_spec (tfdt_version v) 1) as [E1|E1].
  - enc_norm. split; [reflexivity|]. rewrite <- ?app_assoc. reflexivity.
  - destruct (N.eqb_spec (tfdt_version v) 0) as [E0|E0]; [|exfalso; clear -H E0 E1; lia].
    enc_norm. split; [reflexivity|].
    split_andb. rewrite !cast_u32_small by assumption.
    rewrite <- ?app_assoc. reflexivity.
Qed.

Lemma tfdt_dec m v d l p post : tfdt_wf v = true -> p + tfdt_size v < 2^63 ->
  run (dec_tfdt m (tfdt_size v)) (mkStream d l (p + 8) (iso_tfdt_payload v ++ post))
  = (Ok v, mkStream d l (p + tfdt_size v) post).
Proof.
  intros H Hp. unfold dec_tfdt, iso_tfdt_payload.
  unfold tfdt_wf in H. split_andb.
  match goal with H : tfdt_version v <? 2 = true |- _ =>
     pose proof (ufit_version _ H) as Hv1; apply N.ltb_lt in H; pose proof (tfdt_size_eq v H) as Hsz end.
  rewrite <- !app_assoc.
  prog_norm. cbn [run s_pos].
  rewrite run_sub64_ok by (clear; unfold HEADER_SIZE, Tables.HEADER_SIZE; lia).
  do 2 rd_step.
  destruct (N.eqb_spec (tfdt_version v) 1) as [E1|E1].
  - cbv iota in *. split_andb. rewrite <- ?app_assoc.
    rd_step.
    rewrite run_add64_ok by (clear -Hsz Hp; unfold HEADER_SIZE, Tables.HEADER_SIZE, U64; lia).
    prog_norm.
    rewrite run_SeekTo_here by (clear -Hsz; unfold HEADER_SIZE, Tables.HEADER_SIZE; lia).
    cbn [run]. f_equal.
    + destruct v; reflexivity.
    + f_equal. clear -Hsz. lia.
  - destruct (N.eqb_spec (tfdt_version v) 0) as [E0|E0]; [|exfalso; clear -H E0 E1; lia].
    cbv iota in *. split_andb. rewrite <- ?app_assoc.
    rd_step.
    rewrite run_add64_ok by (clear -Hsz Hp; unfold HEADER_SIZE, Tables.HEADER_SIZE, U64; lia).
    prog_norm.
    rewrite run_SeekTo_here by (clear -Hsz; unfold HEADER_SIZE, Tables.HEADER_SIZE; lia).
    cbn [run]. f_equal.
    + destruct v; reflexivity.
    + f_equal. clear -Hsz. lia.
Qed.

Lemma tfdt_payload_len v : tfdt_wf v = true -> lenN (iso_tfdt_payload v) + 8 = tfdt_size v.
Proof.
  intros H. unfold tfdt_wf in H. split_andb.
  match goal with H : tfdt_version v <? 2 = true |- _ => apply N.ltb_lt in H; rewrite (tfdt_size_eq v H) end.
  unfold iso_tfdt_payload. destruct (tfdt_version v =? 1);
    rewrite ?lenN_app, ?lenN_be; reflexivity.
Qed.

Lemma tfdt_appender v : tfdt_wf v = true -> tfdt_size v < U32 -> appender (enc_tfdt v).
Proof.
  intros H Hs. unfold enc_tfdt. rewrite write_header_small by exact Hs.
  unfold tfdt_wf in H. split_andb.
  rewrite write_header_ext_small by assumption.
  destruct (tfdt_version v =? 1); [|destruct (tfdt_version v =? 0)];
    cbn [wbind appender wr wr_u8 wr_u16 wr_u32 wr_u64 wr_u wr_i32 wr_i]; exact I.
Qed.

Theorem tfdt_roundtrip : leaf_roundtrip tfdt_wf tfdt_size 0x74666474 enc_tfdt dec_tfdt iso_tfdt_payload.
Proof.
  intros v H Hs. destruct (tfdt_enc v H) as [H1 H2].
  split; [exact H1|]. split; [now apply tfdt_appender|]. split; [exact H2|].
  split; [now apply tfdt_payload_len|].
  intros m d l p post Hp. now apply tfdt_dec.
Qed.

Print Assumptions tfdt_roundtrip.
