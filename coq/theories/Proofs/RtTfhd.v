(** Round trip of [TfhdBox] *)
From MP4 Require Import Kit BoxTfhd IsoTfhd.
From Coq Require Import ZifyN ZifyNat ZifyBool.
Open Scope string_scope.
Open Scope list_scope.
Open Scope N_scope.

Lemma tfhd_code : u32_of_boxtype (box_type_of "TfhdBox") = 0x74666864.
Proof. vm_compute. reflexivity. Qed.

(** ** One optional field *)

(** the bytes of an optional field, keyed by the [Option] (what the encoder does) *)
Definition tfhd_opt_enc (w : nat) (o : option N) : bytes :=
  match o with Some x => be w x | None => [] end.

Definition tfhd_opt_len (flag flags w : N) : N := if tfhd_has flag flags then w else 0.

Lemma tfhd_has_iso flag flags : tfhd_has flag flags = iso_tfhd_present flag flags.
Proof.
  unfold tfhd_has, iso_tfhd_present. rewrite (N.land_comm flags flag).
  destruct (N.eqb_spec (N.land flag flags) 0) as [E|E], (N.ltb_spec 0 (N.land flag flags)) as [L|L];
    cbn [negb]; try reflexivity; exfalso; clear -E L; lia.
Qed.

Lemma tfhd_opt_iso flag flags w o : tfhd_opt_wf flag flags w o = true ->
  iso_tfhd_opt flag flags w o = tfhd_opt_enc w o.
Proof.
  unfold tfhd_opt_wf, iso_tfhd_opt. rewrite <- tfhd_has_iso. destruct o as [x|]; cbn [tfhd_opt_enc].
  - intros H. apply andb_true_iff in H as [-> _]. reflexivity.
  - intros H. apply negb_true_iff in H as ->. reflexivity.
Qed.

Lemma tfhd_opt_enc_len flag flags w o : tfhd_opt_wf flag flags w o = true ->
  lenN (tfhd_opt_enc w o) = tfhd_opt_len flag flags (N.of_nat w).
Proof.
  unfold tfhd_opt_wf, tfhd_opt_len. destruct o as [x|]; cbn [tfhd_opt_enc].
  - intros H. apply andb_true_iff in H as [-> _]. apply lenN_be.
  - intros H. apply negb_true_iff in H as ->. reflexivity.
Qed.

Lemma wout_tfhd_wr_opt_bind {B} w o (k : unit -> wprog B) :
  wout (wbind (tfhd_wr_opt w o) k) = tfhd_opt_enc w o ++ wout (k tt).
Proof. destruct o; reflexivity. Qed.
Lemma wfin_tfhd_wr_opt_bind {B} w o (k : unit -> wprog B) :
  wfin (wbind (tfhd_wr_opt w o) k) = wfin (k tt).
Proof. destruct o; reflexivity. Qed.
Lemma tfhd_wr_opt_appender w o : appender (tfhd_wr_opt w o).
Proof. destruct o; exact I. Qed.

Lemma run_tfhd_rd_opt_bind {A} flag flags w o rest (k : option N -> prog A) d l p :
  (0 < w)%nat -> tfhd_opt_wf flag flags w o = true ->
  run (bind (tfhd_rd_opt flag flags (rd_u w)) k) (mkStream d l p (tfhd_opt_enc w o ++ rest))
  = run (k o) (mkStream d l (p + tfhd_opt_len flag flags (N.of_nat w)) rest).
Proof.
  intros Hw H. unfold tfhd_opt_wf in H. unfold tfhd_rd_opt, tfhd_opt_len.
  destruct o as [x|]; cbn [tfhd_opt_enc].
  - apply andb_true_iff in H as [-> Hx]. apply ufit_lt in Hx.
    rewrite bind_bind. rewrite run_rd_u_bind by assumption. reflexivity.
  - apply negb_true_iff in H as ->. cbn [bind app]. now rewrite N.add_0_r.
Qed.

(** ** The box *)

Definition tfhd_payload (v : tfhd) : bytes :=
  be 1 (tfhd_version v) ++ be 3 (tfhd_flags v) ++ be 4 (tfhd_track_id v) ++
  tfhd_opt_enc 8 (tfhd_base_data_offset v) ++
  tfhd_opt_enc 4 (tfhd_sample_description_index v) ++
  tfhd_opt_enc 4 (tfhd_default_sample_duration v) ++
  tfhd_opt_enc 4 (tfhd_default_sample_size v) ++
  tfhd_opt_enc 4 (tfhd_default_sample_flags v).

(** the regenerated constants are the standard's masks *)
Lemma tfhd_flag_values :
  tfhd_FLAG_BASE_DATA_OFFSET = 0x000001 /\ tfhd_FLAG_SAMPLE_DESCRIPTION_INDEX = 0x000002 /\
  tfhd_FLAG_DEFAULT_SAMPLE_DURATION = 0x000008 /\ tfhd_FLAG_DEFAULT_SAMPLE_SIZE = 0x000010 /\
  tfhd_FLAG_DEFAULT_SAMPLE_FLAGS = 0x000020.
Proof. vm_compute. repeat split. Qed.

Lemma iso_tfhd_payload_eq v : tfhd_wf v = true -> iso_tfhd_payload v = tfhd_payload v.
Proof.
  intros H. unfold tfhd_wf in H.
  repeat match goal with H : _ && _ = true |- _ => apply andb_true_iff in H; destruct H end.
  destruct tfhd_flag_values as (F1 & F2 & F3 & F4 & F5).
  unfold iso_tfhd_payload, tfhd_payload.
  rewrite <- F1, <- F2, <- F3, <- F4, <- F5.
  rewrite !tfhd_opt_iso by assumption. reflexivity.
Qed.

Definition tfhd_optsum (v : tfhd) : N :=
  tfhd_opt_len tfhd_FLAG_BASE_DATA_OFFSET (tfhd_flags v) 8
  + tfhd_opt_len tfhd_FLAG_SAMPLE_DESCRIPTION_INDEX (tfhd_flags v) 4
  + tfhd_opt_len tfhd_FLAG_DEFAULT_SAMPLE_DURATION (tfhd_flags v) 4
  + tfhd_opt_len tfhd_FLAG_DEFAULT_SAMPLE_SIZE (tfhd_flags v) 4
  + tfhd_opt_len tfhd_FLAG_DEFAULT_SAMPLE_FLAGS (tfhd_flags v) 4.

Lemma tfhd_size_eq v : tfhd_size v = 16 + tfhd_optsum v.
Proof.
  unfold tfhd_size, tfhd_optsum, tfhd_opt_len, HEADER_SIZE, HEADER_EXT_SIZE, Tables.HEADER_SIZE, Tables.HEADER_EXT_SIZE.
  lia.
Qed.

Lemma tfhd_optsum_le v : tfhd_optsum v <= 24.
Proof.
  unfold tfhd_optsum, tfhd_opt_len.
  destruct (tfhd_has _ _), (tfhd_has _ _), (tfhd_has _ _), (tfhd_has _ _), (tfhd_has _ _); clear; lia.
Qed.

Lemma tfhd_enc v : tfhd_wf v = true ->
  wfin (enc_tfhd v) = Ok (tfhd_size v) /\
  wout (enc_tfhd v) = be 4 (tfhd_size v) ++ be 4 0x74666864 ++ iso_tfhd_payload v.
Proof.
  intros H. rewrite (iso_tfhd_payload_eq v H). unfold enc_tfhd, tfhd_payload.
  unfold tfhd_wf in H. split_andb.
  rewrite write_header_small
    by (rewrite tfhd_size_eq; pose proof (tfhd_optsum_le v) as L; clear -L; unfold U32; lia).
  rewrite tfhd_code.
  rewrite write_header_ext_small by assumption.
  enc_norm.
  rewrite !wfin_tfhd_wr_opt_bind, !wout_tfhd_wr_opt_bind.
  enc_norm. split; [reflexivity|].
  rewrite <- ?app_assoc. rewrite ?app_nil_r. reflexivity.
Qed.

Lemma tfhd_dec m v d l p post : tfhd_wf v = true -> p + tfhd_size v < 2^63 ->
  run (dec_tfhd m (tfhd_size v)) (mkStream d l (p + 8) (iso_tfhd_payload v ++ post))
  = (Ok v, mkStream d l (p + tfhd_size v) post).
Proof.
  intros H Hp. rewrite (iso_tfhd_payload_eq v H). unfold dec_tfhd, tfhd_payload.
  unfold tfhd_wf in H.
  repeat match goal with H : _ && _ = true |- _ => apply andb_true_iff in H; destruct H end.
  split_andb.
  pose proof (tfhd_size_eq v) as Hsz. unfold tfhd_optsum in Hsz.
  rewrite <- !app_assoc.
  prog_norm. cbn [run s_pos].
  rewrite run_sub64_ok by (clear; unfold HEADER_SIZE, Tables.HEADER_SIZE; lia).
  do 3 rd_step.
  rewrite (run_tfhd_rd_opt_bind tfhd_FLAG_BASE_DATA_OFFSET (tfhd_flags v) 8) by (first [assumption | clear; lia]).
  rewrite (run_tfhd_rd_opt_bind tfhd_FLAG_SAMPLE_DESCRIPTION_INDEX (tfhd_flags v) 4) by (first [assumption | clear; lia]).
  rewrite (run_tfhd_rd_opt_bind tfhd_FLAG_DEFAULT_SAMPLE_DURATION (tfhd_flags v) 4) by (first [assumption | clear; lia]).
  rewrite (run_tfhd_rd_opt_bind tfhd_FLAG_DEFAULT_SAMPLE_SIZE (tfhd_flags v) 4) by (first [assumption | clear; lia]).
  rewrite (run_tfhd_rd_opt_bind tfhd_FLAG_DEFAULT_SAMPLE_FLAGS (tfhd_flags v) 4) by (first [assumption | clear; lia]).
  change (N.of_nat 8) with 8. change (N.of_nat 4) with 4.
  rewrite run_add64_ok by (clear -Hsz Hp; unfold HEADER_SIZE, Tables.HEADER_SIZE, U64; lia).
  prog_norm.
  rewrite run_SeekTo_here by (clear -Hsz; unfold HEADER_SIZE, Tables.HEADER_SIZE; lia).
  cbn [run]. f_equal.
  - destruct v; reflexivity.
  - f_equal. clear -Hsz. lia.
Qed.

Lemma tfhd_payload_len v : tfhd_wf v = true -> lenN (iso_tfhd_payload v) + 8 = tfhd_size v.
Proof.
  intros H. rewrite (iso_tfhd_payload_eq v H). rewrite tfhd_size_eq.
  unfold tfhd_wf in H.
  repeat match goal with H : _ && _ = true |- _ => apply andb_true_iff in H; destruct H end.
  unfold tfhd_payload, tfhd_optsum.
  rewrite !lenN_app, !lenN_be.
  rewrite (tfhd_opt_enc_len tfhd_FLAG_BASE_DATA_OFFSET (tfhd_flags v)) by assumption.
  rewrite (tfhd_opt_enc_len tfhd_FLAG_SAMPLE_DESCRIPTION_INDEX (tfhd_flags v)) by assumption.
  rewrite (tfhd_opt_enc_len tfhd_FLAG_DEFAULT_SAMPLE_DURATION (tfhd_flags v)) by assumption.
  rewrite (tfhd_opt_enc_len tfhd_FLAG_DEFAULT_SAMPLE_SIZE (tfhd_flags v)) by assumption.
  rewrite (tfhd_opt_enc_len tfhd_FLAG_DEFAULT_SAMPLE_FLAGS (tfhd_flags v)) by assumption.
  change (N.of_nat 8) with 8. change (N.of_nat 4) with 4. lia.
Qed.

Lemma tfhd_appender v : tfhd_wf v = true -> tfhd_size v < U32 -> appender (enc_tfhd v).
Proof.
  intros H Hs. unfold enc_tfhd. rewrite write_header_small by exact Hs.
  unfold tfhd_wf in H. split_andb.
  rewrite write_header_ext_small by assumption.
  cbn [wbind appender wr wr_u8 wr_u16 wr_u32 wr_u64 wr_u].
  repeat (apply appender_bind; [apply tfhd_wr_opt_appender | intros]). exact I.
Qed.

Theorem tfhd_roundtrip : leaf_roundtrip tfhd_wf tfhd_size 0x74666864 enc_tfhd dec_tfhd iso_tfhd_payload.
Proof.
  intros v H Hs. destruct (tfhd_enc v H) as [H1 H2].
  split; [exact H1|]. split; [now apply tfhd_appender|]. split; [exact H2|].
  split; [now apply tfhd_payload_len|].
  intros m d l p post Hp. now apply tfhd_dec.
Qed.

Print Assumptions tfhd_roundtrip.
