(** * Property C02 at the level of bytes: the muxer's COMPLETE output passes the independent ISO validator

    [iso_check_file] ([Iso/IsoFile.v], written from the standard, over plain byte lists) accepts
    [mf_out f ++ wout (enc_moov m mv)] — everything the muxer model has written when [write_end]
    returns — for the per-track (sample count, summed duration) taken from the muxing history.

    It composes
    - stages 1–4 ([IsoParse1.v] .. [IsoParse4.v]): the independent parser on the ISO layouts;
    - [MuxOpen.v]: the moov the muxer writes has the same bytes as a well-formed moov ([mo_moov_rd]), and the
      complete output is ftyp, mdat, moov ([layout_ext] below repeats [mo_layout] with the lengths exposed);
    - C02 / C13 / C14 ([MuxInv.v], [MuxTotal.v]): what is proved about the tables and header fields. *)
From MP4 Require Import MuxMoovDefs MuxMoovTables MuxMoovConf MuxOpenKit MuxOpenFacts.
From MP4 Require Import MuxProofs MuxInv MuxTotal IsoFile MuxOpen.
From MP4 Require Import LayoutKit KitCont RtMoov RtFtyp IsoFtyp IsoMoov RtStbl RtMinf RtMdia RtTrak.
From MP4 Require Import IsoParse1 IsoParse2 IsoParse3 IsoParse4.
From Coq Require Import Lia ZifyN ZifyNat ZifyBool.
Open Scope string_scope.
Open Scope list_scope.
Open Scope N_scope.

(** per track, in track order: (number of accepted samples, their summed duration) *)
Definition expected (ops : list mux_op) (cls : list rclass) (f : mfinal) : list (N * N) :=
  map (fun i => let ss := accepted_samples ops cls (N.of_nat i + 1) in (lenN ss, sumN (map ws_duration ss)))
      (seq 0 (length (mf_tracks f))).

(** ** Lists *)
Lemma Forall2_nth_r {A B} (R : A -> B -> Prop) l1 l2 : Forall2 R l1 l2 ->
  forall i b, nth_error l2 i = Some b -> exists a, nth_error l1 i = Some a /\ R a b.
Proof.
  induction 1 as [|x y l1 l2 Hxy _ IH]; intros [|i] b H; cbn [nth_error] in *; try discriminate.
  - injection H as <-. eauto.
  - now apply IH.
Qed.

Lemma Forall2_map_eq {A B C} (g : A -> C) (h : B -> C) l1 l2 :
  Forall2 (fun a b => h b = g a) l1 l2 -> map h l2 = map g l1.
Proof. induction 1 as [|x y l1 l2 Hxy _ IH]; cbn [map]; [reflexivity | now rewrite Hxy, IH]. Qed.

Lemma Forall2_impl {A B} (R S : A -> B -> Prop) l1 l2 :
  (forall a b, R a b -> S a b) -> Forall2 R l1 l2 -> Forall2 S l1 l2.
Proof. intros H. induction 1; constructor; auto. Qed.

Lemma Forall2_map_r {A B C} (R : A -> C -> Prop) (g : B -> C) l1 l2 :
  Forall2 (fun a b => R a (g b)) l1 l2 -> Forall2 R l1 (map g l2).
Proof. induction 1; cbn [map]; constructor; auto. Qed.

Lemma Forall2_trans {A B C} (R : A -> B -> Prop) (S : B -> C -> Prop) l1 l2 l3 :
  Forall2 R l1 l2 -> Forall2 S l2 l3 -> Forall2 (fun a c => exists b, R a b /\ S b c) l1 l3.
Proof.
  intros H. revert l3. induction H as [|x y l1 l2 Hxy _ IH]; intros l3 H3; inversion H3; subst; constructor; eauto.
Qed.

Lemma forallb_combine_nth {A B} (Q : A * B -> bool) : forall l1 l2,
  (forall i a b, nth_error l1 i = Some a -> nth_error l2 i = Some b -> Q (a, b) = true) ->
  forallb Q (combine l1 l2) = true.
Proof.
  induction l1 as [|x t IH]; intros [|y u] H; cbn [combine forallb]; try reflexivity.
  apply andb_true_intro. split.
  - apply (H 0%nat); reflexivity.
  - apply IH. intros i a b Ha Hb. apply (H (S i)); assumption.
Qed.

Lemma list_eqb_refl l : list_eqb l l = true.
Proof. induction l as [|x t IH]; cbn [list_eqb]; [reflexivity | now rewrite N.eqb_refl, IH]. Qed.

Lemma within_mono lo lo' hi e : lo' <= lo -> within lo hi e = true -> within lo' hi e = true.
Proof.
  unfold within. intros Hl H. apply andb_true_iff in H as [H1 H2]. apply N.leb_le in H1.
  apply andb_true_intro. split; [apply N.leb_le; lia | exact H2].
Qed.

(** ** One track: what the independent parser reports for the trak the muxer wrote *)
Definition trk_rel (tf : tfinal) (it : itrack) : Prop :=
  it_track_id it = tf_track_id tf /\
  it_tkhd_version it = wh_tkhd_version (tf_hdr tf) /\ it_tkhd_duration it = wh_tkhd_duration (tf_hdr tf) /\
  it_mdhd_version it = wh_mdhd_version (tf_hdr tf) /\ it_timescale it = tc_timescale (tf_conf tf) /\
  it_mdhd_duration it = wh_mdhd_duration (tf_hdr tf) /\
  it_tables it = wire_tables (tf_tables tf) /\ it_containers_ok it = true.

Lemma tkhd_of_tfinal_version tf : tkhd_version (tkhd_of_tfinal tf) = wh_tkhd_version (tf_hdr tf).
Proof. unfold tkhd_of_tfinal, tkhd_set_dims. destruct (tc_media (tf_conf tf)); reflexivity. Qed.
Lemma tkhd_of_tfinal_duration tf : tkhd_duration (tkhd_of_tfinal tf) = wh_tkhd_duration (tf_hdr tf).
Proof. unfold tkhd_of_tfinal, tkhd_set_dims. destruct (tc_media (tf_conf tf)); reflexivity. Qed.

Lemma zero_first_strip es es' : map strip_first_sample es = map strip_first_sample es' ->
  map zero_first es = map zero_first es'.
Proof.
  intros H.
  assert (E : forall l, map zero_first l = map (fun t => mkStsc (fst (fst t)) (snd (fst t)) (snd t) 0) (map strip_first_sample l)).
  { intros l. rewrite map_map. reflexivity. }
  now rewrite !E, H.
Qed.

Lemma stsd_of_conf_entry c sd mx : stsd_of_conf c = Ok sd -> exists e, stsd_entry (stsd_rd (stsd_finish sd mx)) = Some e.
Proof.
  unfold stsd_of_conf. destruct c as [w h sps pps|w h|w h|br p fr chn|]; intros H.
  - destruct (avc1_new w h sps pps) as [a| | |]; try discriminate H. cbn [res_bind] in H. injection H as <-.
    eexists. reflexivity.
  - injection H as <-. eexists. reflexivity.
  - injection H as <-. eexists. reflexivity.
  - injection H as <-. unfold stsd_finish. cbn [stsd_mp4a]. eexists. reflexivity.
  - injection H as <-. eexists. reflexivity.
Qed.

Lemma trak_rel_of m tf es tk :
  derive_first_samples (t_stsc (tf_tables tf)) 1 = Some es ->
  trak_of_tfinal m (tfinal_with_stsc tf es) = Ok tk ->
  trak_entry (trak_rd tk) <> None /\ trk_rel tf (itrack_opt (trak_rd tk)).
Proof.
  intros Hes Htk.
  destruct (trak_of_tfinal_shape _ _ _ Htk) as (sd & Hsd & ->).
  change (tf_conf (tfinal_with_stsc tf es)) with (tf_conf tf) in *.
  destruct (stsd_of_conf_entry _ _ (tf_max_sample_size tf) Hsd) as (e & He).
  assert (E : trak_entry (trak_rd (mkTrak (tkhd_of_tfinal (tfinal_with_stsc tf es)) None None
           (mkMdia (mdhd_of_tfinal (tfinal_with_stsc tf es)) (hdlr_of_tfinal (tfinal_with_stsc tf es))
              (mkMinf (vmhd_of_conf (tc_media (tf_conf tf))) (smhd_of_conf (tc_media (tf_conf tf))) dinf_default
                      (stbl_of_tfinal sd (tfinal_with_stsc tf es)))))) = Some e) by exact He.
  split; [rewrite E; discriminate|].
  unfold trk_rel, itrack_opt. rewrite E. unfold itrack_of.
  cbn [it_track_id it_tkhd_version it_tkhd_duration it_mdhd_version it_timescale it_mdhd_duration it_tables it_containers_ok].
  unfold trak_rd, mdia_rd, minf_rd.
  cbn [trak_tkhd trak_mdia mdia_mdhd mdia_minf minf_stbl].
  repeat apply conj.
  - exact (tkhd_of_tfinal_id (tfinal_with_stsc tf es)).
  - exact (tkhd_of_tfinal_version (tfinal_with_stsc tf es)).
  - exact (tkhd_of_tfinal_duration (tfinal_with_stsc tf es)).
  - reflexivity.
  - reflexivity.
  - reflexivity.
  - change (stbl_tables (stbl_rd (stbl_of_tfinal sd (tfinal_with_stsc tf es))))
      with (stbl_tables (stbl_of_tfinal sd (tfinal_with_stsc tf es))).
    rewrite stbl_tables_of_tfinal. cbn [tf_tables tfinal_with_stsc].
    unfold wire_tables, tables_with_stsc.
    cbn [t_stsc t_stsz_size t_stsz_count t_stsz_sizes t_stco t_co64 t_stts t_ctts t_stss].
    f_equal. apply zero_first_strip. exact (derive_first_samples_strip _ _ _ Hes).
  - reflexivity.
Qed.

Section IsoMuxValid.
  Variables (m : mode) (cfg : mp4_conf) (ops : list mux_op) (cls : list rclass) (f : mfinal) (mv : moov).
  Hypothesis Hrun : run_mux m 0 cfg ops = Ok (cls, f).
  Hypothesis Hty : ops_typed ops = true.
  Hypothesis Hlen : lenN (mf_out f) + moov_size mv < 2 ^ 63.
  Hypothesis Hn : lenN (added_confs ops) < U32MAX.
  Hypothesis Hcfg : mp4_conf_rep cfg = true.
  Hypothesis Hconfs : forallb conf_rep (added_confs ops) = true.
  Hypothesis Hmv : moov_of_mfinal m f = Ok mv.
  Hypothesis Hsz : moov_size mv < U32.

  Lemma imv_pre : mux_pre 0 cfg ops.
  Proof. exact (mo_pre m cfg ops cls f mv Hrun Hty Hlen Hn Hcfg Hconfs Hsz). Qed.

  (** [mo_layout] with the lengths of the three boxes *)
  Lemma layout_ext mv2 : enc_moov m mv2 = enc_moov m mv -> moov_size mv2 = moov_size mv -> moov_rt_wf mv2 = true ->
    exists big payload,
      mf_out f ++ wout (enc_moov m mv) = render (mo_children cfg big payload mv2) /\
      Forall child_wf (mo_children cfg big payload mv2) /\
      lenN (iso_moov_payload mv2) + 8 < U32 /\
      8 + lenN (iso_ftyp_payload (ftyp_of_conf cfg)) = mf_mdat_pos f /\
      (if big then 16 else 8) + lenN (if big then payload else be 4 8 ++ be 4 WIDE ++ payload) = mf_mdat_size f /\
      mf_mdat_pos f + mf_mdat_size f = lenN (mf_out f) /\ mf_base f = 0.
  Proof.
    intros Henc Hsize Hwf.
    assert (Hsz2 : moov_size mv2 < U32) by (rewrite Hsize; exact Hsz).
    destruct (moov_roundtrip m mv2 Hwf Hsz2) as (_ & _ & Hout & Hplen & _).
    destruct (conf_ftyp_wf cfg Hcfg) as (Fw & Fs & Fb).
    destruct (ftyp_roundtrip (ftyp_of_conf cfg) Fw Fs) as (_ & _ & _ & Fplen & _).
    destruct (mux_out_length _ _ _ _ _ _ Hrun Hty) as (Hb0 & Hol).
    assert (H64 : mf_base f + lenN (mf_out f) < U64).
    { rewrite Hb0. unfold U64. change (2 ^ 63) with 9223372036854775808 in Hlen.
      change (2 ^ 64) with 18446744073709551616. lia. }
    destruct (c13_mdat_lemma _ _ _ _ _ _ imv_pre Hrun H64) as (_ & Hpos & Hsize' & (Hs16 & Hs64) & payload & Hsp & Hmo & _).
    set (big := U32MAX <? mf_mdat_size f) in *.
    exists big, payload.
    assert (Hfl : lenN (ftyp_bytes cfg) = 8 + lenN (iso_ftyp_payload (ftyp_of_conf cfg))).
    { rewrite Fb, !lenN_app, !lenN_be. change (N.of_nat 4) with 4. lia. }
    assert (Hml : (if big then 16 else 8) + lenN (if big then payload else be 4 8 ++ be 4 WIDE ++ payload) = mf_mdat_size f).
    { destruct big; [lia|]. rewrite !lenN_app, !lenN_be. change (N.of_nat 4) with 4. lia. }
    assert (Hrender : mf_out f ++ wout (enc_moov m mv) = render (mo_children cfg big payload mv2)).
    { rewrite <- Henc, Hout, Hmo, Fb.
      unfold mo_children, render. cbn [flat_map]. rewrite app_nil_r.
      unfold c_bytes, c_hdr. cbn [c_w64 c_code c_payload].
      unfold hdr32, hdr64.
      replace (8 + lenN (iso_ftyp_payload (ftyp_of_conf cfg))) with (ftyp_size (ftyp_of_conf cfg)) by (clear -Fplen; lia).
      replace (8 + lenN (iso_moov_payload mv2)) with (moov_size mv2) by (clear -Hplen; lia).
      destruct big.
      - replace (16 + lenN payload) with (mf_mdat_size f) by (clear -Hsp; lia).
        rewrite <- !app_assoc. reflexivity.
      - replace (8 + lenN (be 4 8 ++ be 4 WIDE ++ payload)) with (mf_mdat_size f)
          by (rewrite !lenN_app, !lenN_be; change (N.of_nat 4) with 4; clear -Hsp; lia).
        rewrite <- !app_assoc. reflexivity. }
    split; [exact Hrender|]. split; [|split; [|split; [|split; [|split]]]].
    - assert (Hc1 : 0x66747970 < U32) by (vm_compute; reflexivity).
      assert (Hc2 : MDAT < U32) by (vm_compute; reflexivity).
      assert (Hc3 : 0x6d6f6f76 < U32) by (vm_compute; reflexivity).
      unfold mo_children. apply Forall_cons; [|apply Forall_cons; [|apply Forall_cons; [|apply Forall_nil]]];
        unfold child_wf; cbn [c_w64 c_code c_payload]; (split; [assumption|]).
      + clear -Fplen Fs. lia.
      + destruct big eqn:Eb.
        * clear -Hsp Hs64. lia.
        * unfold big in Eb. apply N.ltb_ge in Eb. rewrite !lenN_app, !lenN_be.
          change (N.of_nat 4) with 4. unfold U32MAX in Eb. clear -Eb Hsp. lia.
      + clear -Hplen Hsz2. lia.
    - clear -Hplen Hsz2. lia.
    - rewrite Hpos, Hfl. lia.
    - exact Hml.
    - rewrite Hsize', Hb0. clear -Hpos Hol. lia.
    - exact Hb0.
  Qed.

  (** the tracks of the read-back moov against the finished tracks *)
  Lemma tracks_rel f' mv1 : mfinal_rd f = Some f' -> moov_of_mfinal m f' = Ok mv1 ->
    moov_mvhd (moov_rd mv1) = mvhd_of_mfinal f /\
    Forall (fun tk => trak_entry tk <> None) (moov_traks (moov_rd mv1)) /\
    Forall2 trk_rel (mf_tracks f) (map itrack_opt (moov_traks (moov_rd mv1))).
  Proof.
    intros Hf' Hmv1.
    unfold mfinal_rd in Hf'. destruct (tfinals_rd (mf_tracks f)) as [tfs'|] eqn:Etf; [|discriminate].
    cbn [option_map] in Hf'. injection Hf' as <-.
    unfold moov_of_mfinal in Hmv1. cbn [mf_tracks mfinal_with_tracks] in Hmv1.
    destruct (traks_of m tfs') as [ts| | |] eqn:Ets; try discriminate. cbn [res_bind] in Hmv1.
    injection Hmv1 as <-. cbn [moov_rd moov_traks moov_mvhd].
    split; [reflexivity|].
    pose proof (traks_of_Forall2 m _ _ Ets) as F2. pose proof (tfinals_rd_Forall2 _ _ Etf) as F1.
    pose proof (Forall2_trans _ _ _ _ _ F1 F2) as F3. clear F1 F2 Ets Etf.
    assert (F4 : Forall2 (fun tf tk => trak_entry (trak_rd tk) <> None /\ trk_rel tf (itrack_opt (trak_rd tk))) (mf_tracks f) ts).
    { eapply Forall2_impl; [|exact F3]. intros tf tk (tf' & Hrd & Htk).
      destruct (tfinal_rd_fields _ _ Hrd) as (es & Hes & ->). exact (trak_rel_of m tf es tk Hes Htk). }
    split.
    - apply Forall_forall. intros tk' Hin. apply in_map_iff in Hin as (tk & <- & Hin).
      destruct (Forall2_In_r _ _ _ _ F4 Hin) as (tf & _ & Hne & _). exact Hne.
    - rewrite map_map. apply Forall2_map_r. eapply Forall2_impl; [|exact F4]. intros tf tk (_ & Hr). exact Hr.
  Qed.

  Theorem mux_bytes_iso_valid_sec :
    iso_check_file 0 (expected ops cls f) (mf_out f ++ wout (enc_moov m mv)) = true.
  Proof.
    destruct (mo_moov_rd m cfg ops cls f mv Hrun Hty Hlen Hn Hcfg Hconfs Hmv Hsz) as (f' & mv1 & Hf' & Hmv1 & Henc & Hsize & Hwf).
    destruct (layout_ext (moov_rd mv1) Henc Hsize Hwf) as (big & payload & Hren & Hcwf & Hml & Hl1 & Hl2 & Hl3 & Hb0).
    destruct (tracks_rel f' mv1 Hf' Hmv1) as (Hmvhd & Hent & Hrel).
    pose proof imv_pre as Hpre.
    destruct (mux_valid _ _ _ _ _ _ Hrun Hty) as (Vt & Vw & Vd & Vm).
    destruct (mux_versions _ _ _ _ _ _ Hrun Hty) as (Vv & Vvt).
    destruct (c14_durations_lemma _ _ _ _ _ _ Hpre Hrun) as (Dt & _).
    destruct (c14_config_lemma _ _ _ _ _ _ Hpre Hrun) as (_ & _ & Hids & Hts & _).
    unfold iso_check_file. rewrite Hren. unfold mo_children in *.
    match type of Hcwf with
    | Forall child_wf [?c1; ?c2; ?c3] =>
        rewrite (iso_file_iso 0 c1 c2 c3 (moov_rd mv1) eq_refl eq_refl eq_refl eq_refl Hcwf Hml Hwf Hent)
    end.
    cbn [if_mdat if_tracks if_mvhd_timescale if_mvhd_duration if_mvhd_version ib_off ib_hdr ib_size ibox_of].
    rewrite Hmvhd. unfold mvhd_of_mfinal. cbn [mvhd_version mvhd_timescale mvhd_duration].
    set (its := map itrack_opt (moov_traks (moov_rd mv1))) in *.
    assert (Hl1' : c_len (mkChild false 0x66747970 (iso_ftyp_payload (ftyp_of_conf cfg))) = mf_mdat_pos f) by exact Hl1.
    assert (Hl2' : c_len (mkChild big MDAT (if big then payload else be 4 8 ++ be 4 WIDE ++ payload)) = mf_mdat_size f) by exact Hl2.
    rewrite N.add_0_l, Hl1', Hl2'. unfold c_hlen. cbn [c_w64].
    (* the projections of the parsed tracks *)
    assert (Eext : map (fun t => chunk_extents (offsets_of (it_tables t))
                                   (iso_chunk_counts (t_stsc (it_tables t)) (lenN (offsets_of (it_tables t))))
                                   (sizes_of (it_tables t))) its = map track_extents (mf_tracks f)).
    { apply Forall2_map_eq. eapply Forall2_impl; [|exact Hrel]. intros tf it (_ & _ & _ & _ & _ & _ & Et & _).
      rewrite Et. apply chunk_extents_wire. }
    assert (Etd : map it_tkhd_duration its = map (fun tf => wh_tkhd_duration (tf_hdr tf)) (mf_tracks f)).
    { apply Forall2_map_eq. eapply Forall2_impl; [|exact Hrel]. intros tf it (_ & _ & E & _). exact E. }
    assert (Eid : map it_track_id its = map tf_track_id (mf_tracks f)).
    { apply Forall2_map_eq. eapply Forall2_impl; [|exact Hrel]. intros tf it (E & _). exact E. }
    assert (Elen : length its = length (mf_tracks f)) by (symmetry; exact (Forall2_length _ _ _ Hrel)).
    rewrite Eext, Etd, Eid.
    repeat (apply andb_true_intro; split).
    - (* number of tracks *)
      apply N.eqb_eq. unfold expected, lenN. rewrite map_length, seq_length, Elen. reflexivity.
    - (* tables, media duration, containers *)
      apply forallb_combine_nth. intros i it e Hit He. cbn [fst snd].
      destruct (Forall2_nth_r _ _ _ Hrel i it Hit) as (tf & Hi & (_ & _ & _ & _ & _ & Emd & Et & Ec)).
      assert (Hlt : (i < length (mf_tracks f))%nat) by (apply nth_error_Some; rewrite Hi; discriminate).
      unfold expected in He. rewrite nth_error_map, (nth_error_seq_some 0 _ i Hlt) in He. cbn [option_map] in He.
      injection He as <-. cbn [fst snd plus].
      destruct (Vt i tf Hi) as (T1 & T2 & _).
      rewrite Et, track_tables_ok_wire, T1, Emd, T2, N.eqb_refl, Ec. reflexivity.
    - (* extents inside the mdat payload *)
      apply forallb_forall. intros l Hl. rewrite forallb_forall in Vw. specialize (Vw l Hl).
      apply forallb_forall. intros e He. rewrite forallb_forall in Vw. specialize (Vw e He).
      rewrite Hb0, N.add_0_l in Vw. rewrite Hl3.
      apply (within_mono (mf_mdat_pos f + 16)); [clear; destruct big; lia | exact Vw].
    - exact Vd.
    - (* header durations *)
      apply forallb_forall. intros it Hin. apply In_nth_error in Hin as (i & Hit).
      destruct (Forall2_nth_r _ _ _ Hrel i it Hit) as (tf & Hi & (_ & _ & Etk & _ & Ets & Emd & _)).
      destruct (Dt i tf Hi) as (Hnz & _ & _ & Htd & Hq).
      rewrite Etk, Ets, Emd, Hts.
      set (md := wh_mdhd_duration (tf_hdr tf)) in *. set (td := wh_tkhd_duration (tf_hdr tf)) in *.
      set (tts := tc_timescale (tf_conf tf)) in *. set (x := md * mc_timescale cfg) in *.
      apply andb_true_intro. split; [apply N.ltb_lt; clear -Hnz; lia|].
      unfold U64MAX in *. destruct (N.leb_spec (U64 - 1) (x / tts)) as [Hge|Hlt].
      + apply N.eqb_eq. rewrite Htd. clear -Hge. lia.
      + assert (Hq' : x / tts <= U64 - 1) by (clear -Hlt; lia). specialize (Hq Hq'). destruct Hq as [Q1 Q2].
        set (a := td * tts) in *. set (b := (td + 1) * tts) in *.
        apply andb_true_intro. split; apply N.leb_le; clear -Q1 Q2; lia.
    - (* movie duration *)
      apply N.eqb_eq. exact Vm.
    - exact Vv.
    - (* versions *)
      apply forallb_forall. intros it Hin. apply In_nth_error in Hin as (i & Hit).
      destruct (Forall2_nth_r _ _ _ Hrel i it Hit) as (tf & Hi & (_ & Etv & Etk & Emv & _ & Emd & _)).
      destruct (Vvt i tf Hi) as (V1 & V2). rewrite Etv, Etk, Emv, Emd, V1, V2. reflexivity.
    - (* track ids *)
      rewrite Hids, Elen. apply list_eqb_refl.
  Qed.
End IsoMuxValid.

Theorem mux_bytes_iso_valid : forall m cfg ops cls f mv,
  run_mux m 0 cfg ops = Ok (cls, f) -> ops_typed ops = true -> lenN (added_confs ops) < U32MAX ->
  mp4_conf_rep cfg = true -> forallb conf_rep (added_confs ops) = true ->
  moov_of_mfinal m f = Ok mv -> moov_size mv < U32 -> lenN (mf_out f) + moov_size mv < 2 ^ 63 ->
  iso_check_file 0 (expected ops cls f) (mf_out f ++ wout (enc_moov m mv)) = true.
Proof.
  intros m cfg ops cls f mv Hrun Hty Hn Hcfg Hconfs Hmv Hsz Hlen.
  exact (mux_bytes_iso_valid_sec m cfg ops cls f mv Hrun Hty Hlen Hn Hcfg Hconfs Hmv Hsz).
Qed.

(** in terms of [mux_bytes] *)
Corollary mux_bytes_iso_valid' : forall m cfg ops cls b,
  mux_bytes m 0 cfg ops = Ok (cls, b) -> ops_typed ops = true -> lenN (added_confs ops) < U32MAX ->
  mp4_conf_rep cfg = true -> forallb conf_rep (added_confs ops) = true ->
  exists f mv, run_mux m 0 cfg ops = Ok (cls, f) /\ moov_of_mfinal m f = Ok mv /\
    (moov_size mv < U32 -> lenN (mf_out f) + moov_size mv < 2 ^ 63 ->
     iso_check_file 0 (expected ops cls f) b = true).
Proof.
  intros m cfg ops cls b Hb Hty Hn Hcfg Hconfs.
  destruct (mux_bytes_inv m cfg ops cls b Hb) as (f & mv & Hrun & Hmv & ->).
  exists f, mv. split; [exact Hrun|]. split; [exact Hmv|]. intros Hsz Hlen.
  apply (mux_bytes_iso_valid m cfg ops cls f mv); assumption.
Qed.

(** non-vacuity on the two-track history of [WriterMoov.wm_ops]: the expectation is the history's, the validator
    accepts the model's bytes for it and rejects them for any other sample count or duration *)
Example imv_smoke :
  match run_mux Dbg 0 wm_cfg wm_ops with
  | Ok (cls, f) =>
      match moov_of_mfinal Dbg f with
      | Ok mv =>
          let b := mf_out f ++ wout (enc_moov Dbg mv) in
          expected wm_ops cls f = [(5, 2300); (3, 72000)] /\
          iso_check_file 0 (expected wm_ops cls f) b = true /\
          iso_check_file 0 [(5, 2300); (3, 71999)] b = false /\
          iso_check_file 0 [(4, 2300); (3, 72000)] b = false /\
          iso_check_file 0 [(5, 2300)] b = false
      | _ => False
      end
  | _ => False
  end.
Proof. vm_compute. repeat split; reflexivity. Qed.

Print Assumptions mux_bytes_iso_valid.
Print Assumptions mux_bytes_iso_valid'.
