(** * Layout invariance (property C12): containers

    Built on LayoutKit.v (the generic mechanisms).  This file contains
    - (i)   the 64-bit-header theorem instantiated for the leaf boxes that have a round trip;
    - (ii)  [skips] for the dispatch function of the reader and of every container built on
            [children_loop], hence [loop_gen_skip] for each of them;
    - (iv)  for stbl, minf, mdia, trak, moov: the dispatch function is "decode the body to an
            ITEM, then PUT the item into the accumulator" ([xxx_shape]); puts of items of
            different kinds commute ([xxx_put_comm]); hence [xxx_order_irrelevant];
    - the container theorems [dec_xxx_children]: a container whose payload is the rendering
      of a list of children (either header form each) whose bodies decode to items, decodes
      to [xxx_finish] of the fold of the puts; and [layout_invariance_xxx]: two such
      renderings whose item sequences differ by insertion of skipped children and swaps of
      adjacent children of different kinds decode to the same result. *)
From MP4 Require Import LayoutKit VlKit Reader.
From MP4 Require Import LayoutTailFixed LayoutTailTbl.
From MP4 Require Import IsoTkhd IsoMdhd IsoVmhd IsoSmhd IsoHdlr IsoStts IsoCtts IsoStsc IsoStsz IsoStss IsoStco IsoCo64.
From MP4 Require Import RtMvhd RtTkhd RtMdhd RtVmhd RtSmhd RtHdlr RtStts RtCtts RtStsc RtStsz RtStss RtStco RtCo64.
From Coq Require Import ZifyN ZifyNat ZifyBool.
Open Scope string_scope.
Open Scope list_scope.
Open Scope N_scope.

(** ** Generic container scheme *)
Definition opt_res_data {X} (o : option X) : res X :=
  match o with Some v => Ok v | None => Err EData end.

Section Container.
  Context {Acc Item : Type}.
  Variable dispatch : nat -> boxtype -> N -> Acc -> prog Acc.
  Variable body : nat -> boxtype -> N -> prog Item.
  Variable put : Item -> Acc -> Acc.

  (** the dispatch step decodes the body to an item (without looking at the accumulator) and
      then puts it *)
  Definition has_shape : Prop :=
    forall f name s a st,
      run (dispatch f name s a) st = run (it <- body f name s ;; Ret (put it a)) st.

  (** the body of child [c] decodes to [it], wherever it is *)
  Definition decodes_to (F0 : nat) (c : child) (it : Item) : Prop :=
    forall f d l q rest, (F0 <= f)%nat -> q + c_s c < 2 ^ 63 ->
      run (body f (boxtype_of_u32 (c_code c)) (c_s c)) (mkStream d l (q + 8) (c_payload c ++ rest))
      = (Ok it, mkStream d l (q + c_s c) rest).

  (** the statement does not mention the header form: mechanism (i) at the level of items *)
  Lemma decodes_to_with_w64 F0 c it b : decodes_to F0 c it -> decodes_to F0 (with_w64 b c) it.
  Proof. intros H. exact H. Qed.

  Lemma decodes_to_mono F0 F1 c it : (F0 <= F1)%nat -> decodes_to F0 c it -> decodes_to F1 c it.
  Proof. intros HF H f d l q rest Hf Hq. apply H; [lia | exact Hq]. Qed.

  Hypothesis Hshape : has_shape.

  Lemma decodes_body_ok F0 c it : decodes_to F0 c it -> body_ok dispatch F0 c (put it).
  Proof.
    intros H f a d l q rest Hf Hq. rewrite Hshape, run_bind, (H f d l q rest Hf Hq). reflexivity.
  Qed.

  Definition put_all (items : list Item) (a : Acc) : Acc := fold_left (fun x i => put i x) items a.

  Lemma apply_all_put items a : apply_all (map put items) a = put_all items a.
  Proof.
    revert a. induction items as [|i t IH]; intros a; [reflexivity|].
    unfold apply_all, put_all in *. cbn [map fold_left]. apply IH.
  Qed.

  Lemma put_all_app l1 l2 a : put_all (l1 ++ l2) a = put_all l2 (put_all l1 a).
  Proof. unfold put_all. apply fold_left_app. Qed.

  Lemma put_all_cons i l a : put_all (i :: l) a = put_all l (put i a).
  Proof. reflexivity. Qed.

  (** *** (iv) at the level of one dispatch step: two consecutive steps in either order.
      If child 1 then child 2 are processed successfully from [a], then processing child 2
      then child 1 (each on its own bytes) succeeds too, leaves the streams in the same places,
      and the accumulators agree provided the two puts commute. *)
  Lemma steps_swap f1 f2 n1 n2 s1 s2 a a1 a12 st1 st1' st2 st2' :
    run (dispatch f1 n1 s1 a) st1 = (Ok a1, st1') ->
    run (dispatch f2 n2 s2 a1) st2 = (Ok a12, st2') ->
    exists i1 i2,
      run (body f1 n1 s1) st1 = (Ok i1, st1') /\
      run (body f2 n2 s2) st2 = (Ok i2, st2') /\
      a12 = put i2 (put i1 a) /\
      run (dispatch f2 n2 s2 a) st2 = (Ok (put i2 a), st2') /\
      run (dispatch f1 n1 s1 (put i2 a)) st1 = (Ok (put i1 (put i2 a)), st1').
  Proof.
    intros H1 H2. rewrite Hshape, run_bind in H1. rewrite Hshape, run_bind in H2.
    revert H1 H2.
    destruct (run (body f1 n1 s1) st1) as [[i1| | |] t1] eqn:E1; try discriminate.
    destruct (run (body f2 n2 s2) st2) as [[i2| | |] t2] eqn:E2; try discriminate.
    cbn [run]. intros H1 H2. inversion H1; subst. inversion H2; subst.
    exists i1, i2. rewrite !Hshape, !run_bind, E1, E2. cbn [run]. auto.
  Qed.

  (** *** equivalence of item sequences *)
  Variable indep : Item -> Item -> Prop.
  Variable neutral : Item -> Prop.
  Hypothesis put_comm : forall i j a, indep i j -> put i (put j a) = put j (put i a).
  Hypothesis put_neutral : forall i a, neutral i -> put i a = a.

  Inductive items_equiv : list Item -> list Item -> Prop :=
  | ie_refl l : items_equiv l l
  | ie_sym l l' : items_equiv l l' -> items_equiv l' l
  | ie_trans l1 l2 l3 : items_equiv l1 l2 -> items_equiv l2 l3 -> items_equiv l1 l3
  | ie_insert l1 l2 i : neutral i -> items_equiv (l1 ++ l2) (l1 ++ i :: l2)
  | ie_swap l1 l2 i j : indep i j -> items_equiv (l1 ++ i :: j :: l2) (l1 ++ j :: i :: l2).

  Lemma items_equiv_put_all l l' : items_equiv l l' -> forall a, put_all l a = put_all l' a.
  Proof.
    induction 1 as [l|l l' _ IH|l1 l2 l3 _ IH1 _ IH2|l1 l2 i Hn|l1 l2 i j Hi]; intros a.
    - reflexivity.
    - symmetry. apply IH.
    - rewrite IH1. apply IH2.
    - rewrite !put_all_app, put_all_cons. now rewrite put_neutral.
    - rewrite !put_all_app, !put_all_cons. now rewrite (put_comm i j _ Hi).
  Qed.

  (** two consecutive dispatch steps whose items are independent (or one of which is neutral)
      can be performed in the other order, each on its own bytes: same accumulator, same
      stream positions *)
  Lemma steps_commute f1 f2 n1 n2 s1 s2 a a1 a12 st1 st1' st2 st2' :
    run (dispatch f1 n1 s1 a) st1 = (Ok a1, st1') ->
    run (dispatch f2 n2 s2 a1) st2 = (Ok a12, st2') ->
    (forall i1 i2, run (body f1 n1 s1) st1 = (Ok i1, st1') -> run (body f2 n2 s2) st2 = (Ok i2, st2') ->
                   indep i1 i2 \/ neutral i1 \/ neutral i2) ->
    exists a2,
      run (dispatch f2 n2 s2 a) st2 = (Ok a2, st2') /\
      run (dispatch f1 n1 s1 a2) st1 = (Ok a12, st1').
  Proof.
    intros H1 H2 Hi.
    destruct (steps_swap _ _ _ _ _ _ _ _ _ _ _ _ _ H1 H2) as (i1 & i2 & B1 & B2 & E & R2 & R1).
    exists (put i2 a). split; [exact R2|]. rewrite R1, E. f_equal. f_equal.
    destruct (Hi i1 i2 B1 B2) as [H|[H|H]].
    - now apply put_comm.
    - now rewrite !(put_neutral i1) by exact H.
    - now rewrite !(put_neutral i2) by exact H.
  Qed.
End Container.

Lemma c_s_le_total c cs : In c cs -> c_s c <= 8 + total_len cs.
Proof.
  induction cs as [|x t IH]; intros H; [destruct H|].
  change (total_len (x :: t)) with (c_len x + total_len t). destruct H as [->|H].
  - unfold c_s, c_len, c_hlen. destruct (c_w64 c); lia.
  - specialize (IH H). lia.
Qed.

Lemma run_finish_seek {X} m site start size (v : X) d l rest :
  start + size < 2 ^ 63 ->
  run (e <- add64 m site start size ;; skip_bytes_to e ;;; Ret v) (mkStream d l (start + size) rest)
  = (Ok v, mkStream d l (start + size) rest).
Proof.
  intros H. rewrite run_add64_ok by (clear -H; unfold U64; lia).
  unfold skip_bytes_to. rewrite run_seek_to_here by reflexivity. reflexivity.
Qed.

(** the frame shared by every container built on [children_loop]:
    [box_start; stream_position; start + size; loop; finish] *)
Theorem container_children {Acc Item X} m site
        (dispatch : nat -> boxtype -> N -> Acc -> prog Acc) (body : nat -> boxtype -> N -> prog Item)
        (put : Item -> Acc -> Acc) (acc0 : Acc)
        (K : Acc -> N -> N -> prog X) (finish : Acc -> option X) :
  has_shape dispatch body put ->
  (forall a start size d l rest, start + size < 2 ^ 63 ->
     run (K a start size) (mkStream d l (start + size) rest)
     = (opt_res_data (finish a), mkStream d l (start + size) rest)) ->
  forall fuel cs items F0 d l p rest,
  Forall2 (decodes_to body F0) cs items -> Forall child_wf cs ->
  (F0 + length cs <= fuel)%nat -> p + 8 + total_len cs < 2 ^ 63 ->
  run (start <- box_start m ;;
       current <- get_pos ;;
       end_ <- add64 m site start (8 + total_len cs) ;;
       a <- children_loop fuel m (Some (8 + total_len cs)) true end_ dispatch acc0 current ;;
       K a start (8 + total_len cs))
      (mkStream d l (p + 8) (render cs ++ rest))
  = (opt_res_data (finish (put_all put items acc0)), mkStream d l (p + 8 + total_len cs) rest).
Proof.
  intros Hshape HK fuel cs items F0 d l p rest H2 Hwf Hf Hp.
  unfold box_start. rewrite !bind_bind. cbn [bind get_pos run s_pos].
  rewrite run_sub64_ok by (clear; unfold HEADER_SIZE, Tables.HEADER_SIZE; lia).
  replace (p + 8 - HEADER_SIZE) with p by (unfold HEADER_SIZE, Tables.HEADER_SIZE; clear; lia).
  cbn [bind run s_pos].
  rewrite run_add64_ok by (clear -Hp; unfold U64; lia).
  replace (p + (8 + total_len cs)) with (p + 8 + total_len cs) by (clear; lia).
  rewrite run_bind.
  rewrite (loop_children m (8 + total_len cs) dispatch F0 cs (map put items)).
  - rewrite apply_all_put.
    replace (p + 8 + total_len cs) with (p + (8 + total_len cs)) by (clear; lia).
    apply HK. clear -Hp. lia.
  - clear -H2 Hshape. induction H2; cbn [map]; constructor; auto.
    now apply (decodes_body_ok dispatch body put Hshape).
  - exact Hwf.
  - apply Forall_forall. intros c Hc. now apply c_s_le_total.
  - exact Hf.
  - clear -Hp. lia.
Qed.

(** two renderings with equivalent item sequences give the same result *)
Theorem container_layout_invariance {Acc Item X} m site
        (dispatch : nat -> boxtype -> N -> Acc -> prog Acc) (body : nat -> boxtype -> N -> prog Item)
        (put : Item -> Acc -> Acc) (acc0 : Acc)
        (K : Acc -> N -> N -> prog X) (finish : Acc -> option X)
        (indep : Item -> Item -> Prop) (neutral : Item -> Prop) :
  has_shape dispatch body put ->
  (forall i j a, indep i j -> put i (put j a) = put j (put i a)) ->
  (forall i a, neutral i -> put i a = a) ->
  (forall a start size d l rest, start + size < 2 ^ 63 ->
     run (K a start size) (mkStream d l (start + size) rest)
     = (opt_res_data (finish a), mkStream d l (start + size) rest)) ->
  forall F0 cs items cs' items',
  Forall2 (decodes_to body F0) cs items -> Forall child_wf cs ->
  Forall2 (decodes_to body F0) cs' items' -> Forall child_wf cs' ->
  items_equiv indep neutral items items' ->
  forall fuel fuel' d l p rest d' l' p' rest',
  (F0 + length cs <= fuel)%nat -> p + 8 + total_len cs < 2 ^ 63 ->
  (F0 + length cs' <= fuel')%nat -> p' + 8 + total_len cs' < 2 ^ 63 ->
  let prog_of fuel n :=
      (start <- box_start m ;;
       current <- get_pos ;;
       end_ <- add64 m site start (8 + n) ;;
       a <- children_loop fuel m (Some (8 + n)) true end_ dispatch acc0 current ;;
       K a start (8 + n)) in
  exists r,
    run (prog_of fuel (total_len cs)) (mkStream d l (p + 8) (render cs ++ rest))
    = (r, mkStream d l (p + 8 + total_len cs) rest) /\
    run (prog_of fuel' (total_len cs')) (mkStream d' l' (p' + 8) (render cs' ++ rest'))
    = (r, mkStream d' l' (p' + 8 + total_len cs') rest').
Proof.
  intros Hshape Hcomm Hneu HK F0 cs items cs' items' H2 Hwf H2' Hwf' Heq
         fuel fuel' d l p rest d' l' p' rest' Hf Hp Hf' Hp' prog_of.
  exists (opt_res_data (finish (put_all put items acc0))). split.
  - unfold prog_of. now apply (container_children m site dispatch body put acc0 K finish Hshape HK fuel cs items F0).
  - rewrite (items_equiv_put_all put indep neutral Hcomm Hneu items items' Heq).
    unfold prog_of. now apply (container_children m site dispatch body put acc0 K finish Hshape HK fuel' cs' items' F0).
Qed.

(** ** (i) 64-bit headers on leaf boxes *)

(** For a box with a round-trip theorem: the rendering with a 16-byte header decodes to the
    same value as the rendering the encoder writes, and both end exactly after the payload
    (the first 8 bytes later than the second). *)
Theorem hdr64_equiv {X} wf size code enc (dec : mode -> N -> prog X) payload :
  leaf_roundtrip wf size code enc dec payload -> code < U32 ->
  forall v, wf v = true -> size v < U32 ->
  forall m d l p post, p + 8 + size v < 2 ^ 63 ->
    run (h <- read_header ;; dec m (snd h))
        (mkStream d l p (hdr64 code (lenN (payload v)) ++ payload v ++ post))
    = (Ok v, mkStream d l (p + 8 + size v) post)
    /\ run (h <- read_header ;; dec m (snd h)) (mkStream d l p (wout (enc v) ++ post))
       = (Ok v, mkStream d l (p + size v) post).
Proof.
  intros Hrt Hc v Hw Hs m d l p post Hp.
  destruct (Hrt v Hw Hs) as (_ & _ & Hout & Hl & Hd).
  assert (Hd' : leaf_decodes dec (8 + lenN (payload v)) (payload v) v).
  { replace (8 + lenN (payload v)) with (size v) by (clear -Hl; lia). exact Hd. }
  split.
  - rewrite (hdr64_leaf dec code (payload v) v m d l p post Hd' Hc) by (clear -Hl Hp; lia).
    f_equal. f_equal. clear -Hl. lia.
  - rewrite Hout. replace (size v) with (8 + lenN (payload v)) at 1 by (clear -Hl; lia).
    rewrite <- !app_assoc.
    pose proof (hdr32_leaf dec code (payload v) v m d l p post Hd' Hc) as H.
    unfold hdr32 in H. rewrite <- app_assoc in H. rewrite H by (clear -Hl Hp Hs; lia).
    f_equal. f_equal. clear -Hl. lia.
Qed.

Definition mvhd_hdr64 := hdr64_equiv _ _ _ _ _ _ mvhd_roundtrip eq_refl.
Definition tkhd_hdr64 := hdr64_equiv _ _ _ _ _ _ tkhd_roundtrip eq_refl.
Definition mdhd_hdr64 := hdr64_equiv _ _ _ _ _ _ mdhd_roundtrip eq_refl.
Definition vmhd_hdr64 := hdr64_equiv _ _ _ _ _ _ vmhd_roundtrip eq_refl.
Definition smhd_hdr64 := hdr64_equiv _ _ _ _ _ _ smhd_roundtrip eq_refl.
Definition hdlr_hdr64 := hdr64_equiv _ _ _ _ _ _ hdlr_roundtrip eq_refl.
Definition stts_hdr64 := hdr64_equiv _ _ _ _ _ _ stts_roundtrip eq_refl.
Definition ctts_hdr64 := hdr64_equiv _ _ _ _ _ _ ctts_roundtrip eq_refl.
Definition stsc_hdr64 := hdr64_equiv _ _ _ _ _ _ stsc_roundtrip eq_refl.
Definition stsz_hdr64 := hdr64_equiv _ _ _ _ _ _ stsz_roundtrip eq_refl.
Definition stss_hdr64 := hdr64_equiv _ _ _ _ _ _ stss_roundtrip eq_refl.
Definition stco_hdr64 := hdr64_equiv _ _ _ _ _ _ stco_roundtrip eq_refl.
Definition co64_hdr64 := hdr64_equiv _ _ _ _ _ _ co64_roundtrip eq_refl.

(** ** (ii) what each dispatch function hands to [skip_box] *)

Definition open_known (n : boxtype) : bool :=
  match n with FtypBox | MoovBox | MoofBox | EmsgBox => true | _ => false end.
Definition frag_known (n : boxtype) : bool :=
  match n with MoofBox => true | _ => false end.
Definition moov_known (n : boxtype) : bool :=
  match n with MvhdBox | MetaBox | MvexBox | TrakBox | UdtaBox => true | _ => false end.
Definition trak_known (n : boxtype) : bool :=
  match n with TkhdBox | EdtsBox | MetaBox | MdiaBox => true | _ => false end.
Definition mdia_known (n : boxtype) : bool :=
  match n with MdhdBox | HdlrBox | MinfBox => true | _ => false end.
Definition minf_known (n : boxtype) : bool :=
  match n with VmhdBox | SmhdBox | DinfBox | StblBox => true | _ => false end.
Definition stbl_known (n : boxtype) : bool :=
  match n with
  | StsdBox | SttsBox | CttsBox | StssBox | StscBox | StszBox | StcoBox | Co64Box => true
  | _ => false
  end.
Definition dinf_known (n : boxtype) : bool := match n with DrefBox => true | _ => false end.
Definition udta_known (n : boxtype) : bool := match n with MetaBox => true | _ => false end.
Definition mvex_known (n : boxtype) : bool := match n with MehdBox | TrexBox => true | _ => false end.
Definition moof_known (n : boxtype) : bool := match n with MfhdBox | TrafBox => true | _ => false end.
Definition traf_known (n : boxtype) : bool :=
  match n with TfhdBox | TfdtBox | TrunBox => true | _ => false end.

Lemma open_skips m name : open_known name = false -> skips m (open_dispatch m) name.
Proof.
  intros H f cur s [[[[ft mv] moofs] offs] emsgs]. destruct name; try discriminate H; reflexivity.
Qed.
Lemma frag_skips m name : frag_known name = false -> skips m (frag_dispatch m) name.
Proof. intros H f cur s [moofs offs]. destruct name; try discriminate H; reflexivity. Qed.
Lemma moov_skips m name : moov_known name = false -> skips m (fun f (_ : N) => moov_dispatch m f) name.
Proof.
  intros H f cur s [[[[mh me] ud] mx] tr]. destruct name; try discriminate H; reflexivity.
Qed.
Lemma trak_skips m name : trak_known name = false -> skips m (fun f (_ : N) => trak_dispatch m f) name.
Proof. intros H f cur s [[[tk ed] me] md]. destruct name; try discriminate H; reflexivity. Qed.
Lemma mdia_skips m name : mdia_known name = false -> skips m (fun f (_ : N) => mdia_dispatch m f) name.
Proof. intros H f cur s [[md hd] mi]. destruct name; try discriminate H; reflexivity. Qed.
Lemma minf_skips m name : minf_known name = false -> skips m (fun f (_ : N) => minf_dispatch m f) name.
Proof. intros H f cur s [[[vm sm] di] st]. destruct name; try discriminate H; reflexivity. Qed.
Lemma stbl_skips m name : stbl_known name = false -> skips m (fun f (_ : N) => stbl_dispatch m f) name.
Proof. intros H f cur s a. destruct name; try discriminate H; reflexivity. Qed.
Lemma dinf_skips m name : dinf_known name = false -> skips m (fun f (_ : N) => dinf_dispatch m f) name.
Proof. intros H f cur s a. destruct name; try discriminate H; reflexivity. Qed.
Lemma udta_skips m name : udta_known name = false -> skips m (fun f (_ : N) => udta_dispatch m f) name.
Proof. intros H f cur s a. destruct name; try discriminate H; reflexivity. Qed.
Lemma mvex_skips m name : mvex_known name = false -> skips m (fun f (_ : N) => mvex_dispatch m f) name.
Proof. intros H f cur s [me tr]. destruct name; try discriminate H; reflexivity. Qed.
Lemma moof_skips m name : moof_known name = false -> skips m (fun f (_ : N) => moof_dispatch m f) name.
Proof. intros H f cur s [mh tr]. destruct name; try discriminate H; reflexivity. Qed.
Lemma traf_skips m name : traf_known name = false -> skips m (fun f (_ : N) => traf_dispatch m f) name.
Proof. intros H f cur s [[fh fd] ru]. destruct name; try discriminate H; reflexivity. Qed.

(** no container (and not the reader) knows [free], [skip]-like codes outside the table, ... *)
Lemma unknown_code_not_known c :
  forallb (fun e => negb (snd e =? c)) Tables.boxtype_table = true ->
  let n := boxtype_of_u32 c in
  open_known n = false /\ frag_known n = false /\ moov_known n = false /\ trak_known n = false
  /\ mdia_known n = false /\ minf_known n = false /\ stbl_known n = false /\ dinf_known n = false
  /\ udta_known n = false /\ mvex_known n = false /\ moof_known n = false /\ traf_known n = false.
Proof. intros H. cbv zeta. rewrite (boxtype_of_u32_unknown c H). repeat split. Qed.

Lemma boxtype_of_u32_free : boxtype_of_u32 0x66726565 = FreeBox.
Proof. vm_compute. reflexivity. Qed.

(** the reader loop: the next iteration starts at the shifted position, which is also the
    [current] (moof offset) every later box is dispatched with *)
Theorem open_skip_unknown m fuel size acc c rest d l p :
  open_known (boxtype_of_u32 (c_code c)) = false ->
  child_wf c -> p < size -> c_s c <= size -> p + c_len c < 2 ^ 63 ->
  run (children_loop_at (S fuel) m (Some size) true size (open_dispatch m) acc p)
      (mkStream d l p (c_bytes c ++ rest))
  = run (children_loop_at fuel m (Some size) true size (open_dispatch m) acc (p + c_len c))
        (mkStream d l (p + c_len c) rest).
Proof.
  intros Hk Hw Hp Hs Hb. unfold children_loop_at.
  apply loop_gen_skip; try assumption. now apply open_skips.
Qed.

Theorem frag_skip_unknown m fuel size acc c rest d l p :
  frag_known (boxtype_of_u32 (c_code c)) = false ->
  child_wf c -> p < size -> c_s c <= size -> p + c_len c < 2 ^ 63 ->
  run (children_loop_at (S fuel) m (Some size) true size (frag_dispatch m) acc p)
      (mkStream d l p (c_bytes c ++ rest))
  = run (children_loop_at fuel m (Some size) true size (frag_dispatch m) acc (p + c_len c))
        (mkStream d l (p + c_len c) rest).
Proof.
  intros Hk Hw Hp Hs Hb. unfold children_loop_at.
  apply loop_gen_skip; try assumption. now apply frag_skips.
Qed.

(** the containers *)
Theorem container_skip_unknown {Acc} m (dispatch : nat -> boxtype -> N -> Acc -> prog Acc)
        fuel size end_ acc c rest d l p :
  skips m (fun f (_ : N) => dispatch f) (boxtype_of_u32 (c_code c)) ->
  child_wf c -> p < end_ -> c_s c <= size -> p + c_len c < 2 ^ 63 ->
  run (children_loop (S fuel) m (Some size) true end_ dispatch acc p)
      (mkStream d l p (c_bytes c ++ rest))
  = run (children_loop fuel m (Some size) true end_ dispatch acc (p + c_len c))
        (mkStream d l (p + c_len c) rest).
Proof. intros Hk Hw Hp Hs Hb. unfold children_loop. now apply loop_gen_skip. Qed.

Definition moov_skip_unknown m fuel size end_ acc c rest d l p
  (H : moov_known (boxtype_of_u32 (c_code c)) = false) :=
  container_skip_unknown m (moov_dispatch m) fuel size end_ acc c rest d l p (moov_skips m _ H).
Definition trak_skip_unknown m fuel size end_ acc c rest d l p
  (H : trak_known (boxtype_of_u32 (c_code c)) = false) :=
  container_skip_unknown m (trak_dispatch m) fuel size end_ acc c rest d l p (trak_skips m _ H).
Definition mdia_skip_unknown m fuel size end_ acc c rest d l p
  (H : mdia_known (boxtype_of_u32 (c_code c)) = false) :=
  container_skip_unknown m (mdia_dispatch m) fuel size end_ acc c rest d l p (mdia_skips m _ H).
Definition minf_skip_unknown m fuel size end_ acc c rest d l p
  (H : minf_known (boxtype_of_u32 (c_code c)) = false) :=
  container_skip_unknown m (minf_dispatch m) fuel size end_ acc c rest d l p (minf_skips m _ H).
Definition stbl_skip_unknown m fuel size end_ acc c rest d l p
  (H : stbl_known (boxtype_of_u32 (c_code c)) = false) :=
  container_skip_unknown m (stbl_dispatch m) fuel size end_ acc c rest d l p (stbl_skips m _ H).
Definition dinf_skip_unknown m fuel size end_ acc c rest d l p
  (H : dinf_known (boxtype_of_u32 (c_code c)) = false) :=
  container_skip_unknown m (dinf_dispatch m) fuel size end_ acc c rest d l p (dinf_skips m _ H).
Definition udta_skip_unknown m fuel size end_ acc c rest d l p
  (H : udta_known (boxtype_of_u32 (c_code c)) = false) :=
  container_skip_unknown m (udta_dispatch m) fuel size end_ acc c rest d l p (udta_skips m _ H).
Definition mvex_skip_unknown m fuel size end_ acc c rest d l p
  (H : mvex_known (boxtype_of_u32 (c_code c)) = false) :=
  container_skip_unknown m (mvex_dispatch m) fuel size end_ acc c rest d l p (mvex_skips m _ H).
Definition moof_skip_unknown m fuel size end_ acc c rest d l p
  (H : moof_known (boxtype_of_u32 (c_code c)) = false) :=
  container_skip_unknown m (moof_dispatch m) fuel size end_ acc c rest d l p (moof_skips m _ H).
Definition traf_skip_unknown m fuel size end_ acc c rest d l p
  (H : traf_known (boxtype_of_u32 (c_code c)) = false) :=
  container_skip_unknown m (traf_dispatch m) fuel size end_ acc c rest d l p (traf_skips m _ H).

(** ** (iv) items, puts, commutation — and the container theorems *)

Ltac shape_tac := rewrite bind_bind; reflexivity.

(** *** stbl *)
Inductive stbl_item :=
| SI_stsd (x : stsd) | SI_stts (x : stts) | SI_ctts (x : ctts) | SI_stss (x : stss)
| SI_stsc (x : stsc) | SI_stsz (x : stsz) | SI_stco (x : stco) | SI_co64 (x : co64) | SI_skip.

Definition stbl_body (m : mode) (fuel : nat) (name : boxtype) (s : N) : prog stbl_item :=
  match name with
  | StsdBox => x <- dec_stsd_fuel fuel m s ;; Ret (SI_stsd x)
  | SttsBox => x <- dec_stts m s ;; Ret (SI_stts x)
  | CttsBox => x <- dec_ctts m s ;; Ret (SI_ctts x)
  | StssBox => x <- dec_stss m s ;; Ret (SI_stss x)
  | StscBox => x <- dec_stsc m s ;; Ret (SI_stsc x)
  | StszBox => x <- dec_stsz m s ;; Ret (SI_stsz x)
  | StcoBox => x <- dec_stco m s ;; Ret (SI_stco x)
  | Co64Box => x <- dec_co64 m s ;; Ret (SI_co64 x)
  | _ => skip_box m s ;;; Ret SI_skip
  end.

Definition stbl_put (it : stbl_item) (a : stbl_acc) : stbl_acc :=
  match it with
  | SI_stsd x => mkStblAcc (Some x) (sa_stts a) (sa_ctts a) (sa_stss a) (sa_stsc a) (sa_stsz a) (sa_stco a) (sa_co64 a)
  | SI_stts x => mkStblAcc (sa_stsd a) (Some x) (sa_ctts a) (sa_stss a) (sa_stsc a) (sa_stsz a) (sa_stco a) (sa_co64 a)
  | SI_ctts x => mkStblAcc (sa_stsd a) (sa_stts a) (Some x) (sa_stss a) (sa_stsc a) (sa_stsz a) (sa_stco a) (sa_co64 a)
  | SI_stss x => mkStblAcc (sa_stsd a) (sa_stts a) (sa_ctts a) (Some x) (sa_stsc a) (sa_stsz a) (sa_stco a) (sa_co64 a)
  | SI_stsc x => mkStblAcc (sa_stsd a) (sa_stts a) (sa_ctts a) (sa_stss a) (Some x) (sa_stsz a) (sa_stco a) (sa_co64 a)
  | SI_stsz x => mkStblAcc (sa_stsd a) (sa_stts a) (sa_ctts a) (sa_stss a) (sa_stsc a) (Some x) (sa_stco a) (sa_co64 a)
  | SI_stco x => mkStblAcc (sa_stsd a) (sa_stts a) (sa_ctts a) (sa_stss a) (sa_stsc a) (sa_stsz a) (Some x) (sa_co64 a)
  | SI_co64 x => mkStblAcc (sa_stsd a) (sa_stts a) (sa_ctts a) (sa_stss a) (sa_stsc a) (sa_stsz a) (sa_stco a) (Some x)
  | SI_skip => a
  end.

Definition stbl_kind (it : stbl_item) : nat :=
  match it with
  | SI_stsd _ => 1 | SI_stts _ => 2 | SI_ctts _ => 3 | SI_stss _ => 4 | SI_stsc _ => 5
  | SI_stsz _ => 6 | SI_stco _ => 7 | SI_co64 _ => 8 | SI_skip => 0
  end%nat.
Definition stbl_indep (i j : stbl_item) : Prop := stbl_kind i <> stbl_kind j.
Definition stbl_neutral (i : stbl_item) : Prop := i = SI_skip.

Lemma stbl_shape m : has_shape (stbl_dispatch m) (stbl_body m) stbl_put.
Proof. intros f name s a st. destruct name; cbn [stbl_dispatch stbl_body]; shape_tac. Qed.

Lemma stbl_put_comm i j a : stbl_indep i j -> stbl_put i (stbl_put j a) = stbl_put j (stbl_put i a).
Proof. unfold stbl_indep. destruct i, j; cbn [stbl_kind]; intros H; try reflexivity; now elim H. Qed.
Lemma stbl_put_neutral i a : stbl_neutral i -> stbl_put i a = a.
Proof. intros ->. reflexivity. Qed.

Definition stbl_finish (a : stbl_acc) : option stbl :=
  match sa_stsd a, sa_stts a, sa_stsc a, sa_stsz a with
  | Some sd, Some ts, Some sc, Some sz =>
      match sa_stco a, sa_co64 a with
      | None, None => None
      | _, _ => Some (mkStbl sd ts (sa_ctts a) (sa_stss a) sc sz (sa_stco a) (sa_co64 a))
      end
  | _, _, _, _ => None
  end.

Definition stbl_K (m : mode) (a : stbl_acc) (start size : N) : prog stbl :=
  match sa_stsd a, sa_stts a, sa_stsc a, sa_stsz a with
  | Some sd, Some ts, Some sc, Some sz =>
      match sa_stco a, sa_co64 a with
      | None, None => Throw EData
      | _, _ =>
          e <- add64 m "stbl start+size" start size ;;
          skip_bytes_to e ;;;
          Ret (mkStbl sd ts (sa_ctts a) (sa_stss a) sc sz (sa_stco a) (sa_co64 a))
      end
  | _, _, _, _ => Throw EData
  end.

Lemma stbl_K_ok m a start size d l rest : start + size < 2 ^ 63 ->
  run (stbl_K m a start size) (mkStream d l (start + size) rest)
  = (opt_res_data (stbl_finish a), mkStream d l (start + size) rest).
Proof.
  intros H. unfold stbl_K, stbl_finish.
  destruct (sa_stsd a), (sa_stts a), (sa_stsc a), (sa_stsz a); try reflexivity.
  destruct (sa_stco a), (sa_co64 a); try reflexivity; now apply run_finish_seek.
Qed.

(** every child decodes to an item: the stbl decodes to [stbl_finish] of the fold *)
Theorem dec_stbl_children m fuel cs items F0 d l p rest :
  Forall2 (decodes_to (stbl_body m) F0) cs items -> Forall child_wf cs ->
  (F0 + length cs <= fuel)%nat -> p + 8 + total_len cs < 2 ^ 63 ->
  run (dec_stbl_fuel fuel m (8 + total_len cs)) (mkStream d l (p + 8) (render cs ++ rest))
  = (opt_res_data (stbl_finish (put_all stbl_put items stbl_acc0)),
     mkStream d l (p + 8 + total_len cs) rest).
Proof.
  intros H2 Hwf Hf Hp.
  exact (container_children m "stbl start+size" (stbl_dispatch m) (stbl_body m) stbl_put stbl_acc0
           (stbl_K m) stbl_finish (stbl_shape m) (stbl_K_ok m) fuel cs items F0 d l p rest H2 Hwf Hf Hp).
Qed.

Definition stbl_name_kind (n : boxtype) : nat :=
  match n with
  | StsdBox => 1 | SttsBox => 2 | CttsBox => 3 | StssBox => 4 | StscBox => 5
  | StszBox => 6 | StcoBox => 7 | Co64Box => 8 | _ => 0
  end%nat.

(** the kind of the item is determined by the type of the child *)
Ltac body_kind_tac R st :=
  rewrite run_bind in R;
  match type of R with context [run ?p st] => destruct (run p st) as [[?x| | |] ?t] end;
  try discriminate R; cbn [run] in R; inversion R; reflexivity.

Lemma stbl_body_kind m f n s st i st' :
  run (stbl_body m f n s) st = (Ok i, st') -> stbl_kind i = stbl_name_kind n.
Proof. intros R. destruct n; cbn [stbl_body] in R; body_kind_tac R st. Qed.

(** two consecutive children of different types, in either order *)
Theorem stbl_order_irrelevant m f1 f2 n1 n2 s1 s2 a a1 a12 st1 st1' st2 st2' :
  run (stbl_dispatch m f1 n1 s1 a) st1 = (Ok a1, st1') ->
  run (stbl_dispatch m f2 n2 s2 a1) st2 = (Ok a12, st2') ->
  stbl_name_kind n1 <> stbl_name_kind n2 ->
  exists a2,
    run (stbl_dispatch m f2 n2 s2 a) st2 = (Ok a2, st2') /\
    run (stbl_dispatch m f1 n1 s1 a2) st1 = (Ok a12, st1').
Proof.
  intros H1 H2 Hn.
  apply (steps_commute (stbl_dispatch m) (stbl_body m) stbl_put (stbl_shape m) stbl_indep stbl_neutral
           stbl_put_comm stbl_put_neutral _ _ _ _ _ _ _ _ _ _ _ _ _ H1 H2).
  intros i1 i2 B1 B2. left. unfold stbl_indep.
  now rewrite (stbl_body_kind _ _ _ _ _ _ _ B1), (stbl_body_kind _ _ _ _ _ _ _ B2).
Qed.

Theorem layout_invariance_stbl m F0 cs items cs' items' :
  Forall2 (decodes_to (stbl_body m) F0) cs items -> Forall child_wf cs ->
  Forall2 (decodes_to (stbl_body m) F0) cs' items' -> Forall child_wf cs' ->
  items_equiv stbl_indep stbl_neutral items items' ->
  forall fuel fuel' d l p rest d' l' p' rest',
  (F0 + length cs <= fuel)%nat -> p + 8 + total_len cs < 2 ^ 63 ->
  (F0 + length cs' <= fuel')%nat -> p' + 8 + total_len cs' < 2 ^ 63 ->
  exists r,
    run (dec_stbl_fuel fuel m (8 + total_len cs)) (mkStream d l (p + 8) (render cs ++ rest))
    = (r, mkStream d l (p + 8 + total_len cs) rest) /\
    run (dec_stbl_fuel fuel' m (8 + total_len cs')) (mkStream d' l' (p' + 8) (render cs' ++ rest'))
    = (r, mkStream d' l' (p' + 8 + total_len cs') rest').
Proof.
  intros H2 Hwf H2' Hwf' Heq fuel fuel' d l p rest d' l' p' rest' Hf Hp Hf' Hp'.
  exact (container_layout_invariance m "stbl start+size" (stbl_dispatch m) (stbl_body m) stbl_put stbl_acc0
           (stbl_K m) stbl_finish stbl_indep stbl_neutral (stbl_shape m) stbl_put_comm stbl_put_neutral
           (stbl_K_ok m) F0 cs items cs' items' H2 Hwf H2' Hwf' Heq
           fuel fuel' d l p rest d' l' p' rest' Hf Hp Hf' Hp').
Qed.

(** *** minf *)
Inductive minf_item :=
| NI_vmhd (x : vmhd) | NI_smhd (x : smhd) | NI_dinf (x : dinf) | NI_stbl (x : stbl) | NI_skip.

Definition minf_body (m : mode) (fuel : nat) (name : boxtype) (s : N) : prog minf_item :=
  match name with
  | VmhdBox => x <- dec_vmhd m s ;; Ret (NI_vmhd x)
  | SmhdBox => x <- dec_smhd m s ;; Ret (NI_smhd x)
  | DinfBox => x <- dec_dinf_fuel fuel m s ;; Ret (NI_dinf x)
  | StblBox => x <- dec_stbl_fuel fuel m s ;; Ret (NI_stbl x)
  | _ => skip_box m s ;;; Ret NI_skip
  end.

Definition minf_put (it : minf_item) (a : minf_acc) : minf_acc :=
  let '(vm, sm, di, st) := a in
  match it with
  | NI_vmhd x => (Some x, sm, di, st)
  | NI_smhd x => (vm, Some x, di, st)
  | NI_dinf x => (vm, sm, Some x, st)
  | NI_stbl x => (vm, sm, di, Some x)
  | NI_skip => (vm, sm, di, st)
  end.

Definition minf_kind (it : minf_item) : nat :=
  match it with NI_vmhd _ => 1 | NI_smhd _ => 2 | NI_dinf _ => 3 | NI_stbl _ => 4 | NI_skip => 0 end%nat.
Definition minf_name_kind (n : boxtype) : nat :=
  match n with VmhdBox => 1 | SmhdBox => 2 | DinfBox => 3 | StblBox => 4 | _ => 0 end%nat.
Definition minf_indep (i j : minf_item) : Prop := minf_kind i <> minf_kind j.
Definition minf_neutral (i : minf_item) : Prop := i = NI_skip.

Lemma minf_shape m : has_shape (minf_dispatch m) (minf_body m) minf_put.
Proof.
  intros f name s [[[vm sm] di] st] st0. destruct name; cbn [minf_dispatch minf_body]; shape_tac.
Qed.
Lemma minf_put_comm i j a : minf_indep i j -> minf_put i (minf_put j a) = minf_put j (minf_put i a).
Proof.
  unfold minf_indep. destruct a as [[[vm sm] di] st].
  destruct i, j; cbn [minf_kind]; intros H; try reflexivity; now elim H.
Qed.
Lemma minf_put_neutral i a : minf_neutral i -> minf_put i a = a.
Proof. intros ->. destruct a as [[[vm sm] di] st]. reflexivity. Qed.
Lemma minf_body_kind m f n s st i st' :
  run (minf_body m f n s) st = (Ok i, st') -> minf_kind i = minf_name_kind n.
Proof. intros R. destruct n; cbn [minf_body] in R; body_kind_tac R st. Qed.

Definition minf_finish (a : minf_acc) : option minf :=
  let '(vm, sm, di, st) := a in
  match di, st with Some d, Some t => Some (mkMinf vm sm d t) | _, _ => None end.

Definition minf_K (m : mode) (a : minf_acc) (start size : N) : prog minf :=
  let '(vm, sm, di, st) := a in
  match di, st with
  | Some d, Some t =>
      e <- add64 m "minf start+size" start size ;;
      skip_bytes_to e ;;;
      Ret (mkMinf vm sm d t)
  | _, _ => Throw EData
  end.

Lemma minf_K_ok m a start size d l rest : start + size < 2 ^ 63 ->
  run (minf_K m a start size) (mkStream d l (start + size) rest)
  = (opt_res_data (minf_finish a), mkStream d l (start + size) rest).
Proof.
  intros H. destruct a as [[[vm sm] [di|]] [st|]]; try reflexivity. now apply run_finish_seek.
Qed.

Theorem dec_minf_children m fuel cs items F0 d l p rest :
  Forall2 (decodes_to (minf_body m) F0) cs items -> Forall child_wf cs ->
  (F0 + length cs <= fuel)%nat -> p + 8 + total_len cs < 2 ^ 63 ->
  run (dec_minf_fuel fuel m (8 + total_len cs)) (mkStream d l (p + 8) (render cs ++ rest))
  = (opt_res_data (minf_finish (put_all minf_put items (None, None, None, None))),
     mkStream d l (p + 8 + total_len cs) rest).
Proof.
  intros H2 Hwf Hf Hp.
  exact (container_children m "minf start+size" (minf_dispatch m) (minf_body m) minf_put (None, None, None, None)
           (minf_K m) minf_finish (minf_shape m) (minf_K_ok m) fuel cs items F0 d l p rest H2 Hwf Hf Hp).
Qed.

Theorem minf_order_irrelevant m f1 f2 n1 n2 s1 s2 a a1 a12 st1 st1' st2 st2' :
  run (minf_dispatch m f1 n1 s1 a) st1 = (Ok a1, st1') ->
  run (minf_dispatch m f2 n2 s2 a1) st2 = (Ok a12, st2') ->
  minf_name_kind n1 <> minf_name_kind n2 ->
  exists a2,
    run (minf_dispatch m f2 n2 s2 a) st2 = (Ok a2, st2') /\
    run (minf_dispatch m f1 n1 s1 a2) st1 = (Ok a12, st1').
Proof.
  intros H1 H2 Hn.
  apply (steps_commute (minf_dispatch m) (minf_body m) minf_put (minf_shape m) minf_indep minf_neutral
           minf_put_comm minf_put_neutral _ _ _ _ _ _ _ _ _ _ _ _ _ H1 H2).
  intros i1 i2 B1 B2. left. unfold minf_indep.
  now rewrite (minf_body_kind _ _ _ _ _ _ _ B1), (minf_body_kind _ _ _ _ _ _ _ B2).
Qed.

Theorem layout_invariance_minf m F0 cs items cs' items' :
  Forall2 (decodes_to (minf_body m) F0) cs items -> Forall child_wf cs ->
  Forall2 (decodes_to (minf_body m) F0) cs' items' -> Forall child_wf cs' ->
  items_equiv minf_indep minf_neutral items items' ->
  forall fuel fuel' d l p rest d' l' p' rest',
  (F0 + length cs <= fuel)%nat -> p + 8 + total_len cs < 2 ^ 63 ->
  (F0 + length cs' <= fuel')%nat -> p' + 8 + total_len cs' < 2 ^ 63 ->
  exists r,
    run (dec_minf_fuel fuel m (8 + total_len cs)) (mkStream d l (p + 8) (render cs ++ rest))
    = (r, mkStream d l (p + 8 + total_len cs) rest) /\
    run (dec_minf_fuel fuel' m (8 + total_len cs')) (mkStream d' l' (p' + 8) (render cs' ++ rest'))
    = (r, mkStream d' l' (p' + 8 + total_len cs') rest').
Proof.
  intros H2 Hwf H2' Hwf' Heq fuel fuel' d l p rest d' l' p' rest' Hf Hp Hf' Hp'.
  exact (container_layout_invariance m "minf start+size" (minf_dispatch m) (minf_body m) minf_put
           (None, None, None, None)
           (minf_K m) minf_finish minf_indep minf_neutral (minf_shape m) minf_put_comm minf_put_neutral
           (minf_K_ok m) F0 cs items cs' items' H2 Hwf H2' Hwf' Heq
           fuel fuel' d l p rest d' l' p' rest' Hf Hp Hf' Hp').
Qed.

(** *** mdia *)
Inductive mdia_item := DI_mdhd (x : mdhd) | DI_hdlr (x : hdlr) | DI_minf (x : minf) | DI_skip.

Definition mdia_body (m : mode) (fuel : nat) (name : boxtype) (s : N) : prog mdia_item :=
  match name with
  | MdhdBox => x <- dec_mdhd m s ;; Ret (DI_mdhd x)
  | HdlrBox => x <- dec_hdlr m s ;; Ret (DI_hdlr x)
  | MinfBox => x <- dec_minf_fuel fuel m s ;; Ret (DI_minf x)
  | _ => skip_box m s ;;; Ret DI_skip
  end.

Definition mdia_put (it : mdia_item) (a : mdia_acc) : mdia_acc :=
  let '(md, hd, mi) := a in
  match it with
  | DI_mdhd x => (Some x, hd, mi)
  | DI_hdlr x => (md, Some x, mi)
  | DI_minf x => (md, hd, Some x)
  | DI_skip => (md, hd, mi)
  end.

Definition mdia_kind (it : mdia_item) : nat :=
  match it with DI_mdhd _ => 1 | DI_hdlr _ => 2 | DI_minf _ => 3 | DI_skip => 0 end%nat.
Definition mdia_name_kind (n : boxtype) : nat :=
  match n with MdhdBox => 1 | HdlrBox => 2 | MinfBox => 3 | _ => 0 end%nat.
Definition mdia_indep (i j : mdia_item) : Prop := mdia_kind i <> mdia_kind j.
Definition mdia_neutral (i : mdia_item) : Prop := i = DI_skip.

Lemma mdia_shape m : has_shape (mdia_dispatch m) (mdia_body m) mdia_put.
Proof.
  intros f name s [[md hd] mi] st0. destruct name; cbn [mdia_dispatch mdia_body]; shape_tac.
Qed.
Lemma mdia_put_comm i j a : mdia_indep i j -> mdia_put i (mdia_put j a) = mdia_put j (mdia_put i a).
Proof.
  unfold mdia_indep. destruct a as [[md hd] mi].
  destruct i, j; cbn [mdia_kind]; intros H; try reflexivity; now elim H.
Qed.
Lemma mdia_put_neutral i a : mdia_neutral i -> mdia_put i a = a.
Proof. intros ->. destruct a as [[md hd] mi]. reflexivity. Qed.
Lemma mdia_body_kind m f n s st i st' :
  run (mdia_body m f n s) st = (Ok i, st') -> mdia_kind i = mdia_name_kind n.
Proof. intros R. destruct n; cbn [mdia_body] in R; body_kind_tac R st. Qed.

Definition mdia_finish (a : mdia_acc) : option mdia :=
  let '(md, hd, mi) := a in
  match md, hd, mi with Some d, Some h, Some i => Some (mkMdia d h i) | _, _, _ => None end.

Definition mdia_K (m : mode) (a : mdia_acc) (start size : N) : prog mdia :=
  let '(md, hd, mi) := a in
  match md, hd, mi with
  | Some d, Some h, Some i =>
      e <- add64 m "mdia start+size" start size ;;
      skip_bytes_to e ;;;
      Ret (mkMdia d h i)
  | _, _, _ => Throw EData
  end.

Lemma mdia_K_ok m a start size d l rest : start + size < 2 ^ 63 ->
  run (mdia_K m a start size) (mkStream d l (start + size) rest)
  = (opt_res_data (mdia_finish a), mkStream d l (start + size) rest).
Proof.
  intros H. destruct a as [[[md|] [hd|]] [mi|]]; try reflexivity. now apply run_finish_seek.
Qed.

Theorem dec_mdia_children m fuel cs items F0 d l p rest :
  Forall2 (decodes_to (mdia_body m) F0) cs items -> Forall child_wf cs ->
  (F0 + length cs <= fuel)%nat -> p + 8 + total_len cs < 2 ^ 63 ->
  run (dec_mdia_fuel fuel m (8 + total_len cs)) (mkStream d l (p + 8) (render cs ++ rest))
  = (opt_res_data (mdia_finish (put_all mdia_put items (None, None, None))),
     mkStream d l (p + 8 + total_len cs) rest).
Proof.
  intros H2 Hwf Hf Hp.
  exact (container_children m "mdia start+size" (mdia_dispatch m) (mdia_body m) mdia_put (None, None, None)
           (mdia_K m) mdia_finish (mdia_shape m) (mdia_K_ok m) fuel cs items F0 d l p rest H2 Hwf Hf Hp).
Qed.

Theorem mdia_order_irrelevant m f1 f2 n1 n2 s1 s2 a a1 a12 st1 st1' st2 st2' :
  run (mdia_dispatch m f1 n1 s1 a) st1 = (Ok a1, st1') ->
  run (mdia_dispatch m f2 n2 s2 a1) st2 = (Ok a12, st2') ->
  mdia_name_kind n1 <> mdia_name_kind n2 ->
  exists a2,
    run (mdia_dispatch m f2 n2 s2 a) st2 = (Ok a2, st2') /\
    run (mdia_dispatch m f1 n1 s1 a2) st1 = (Ok a12, st1').
Proof.
  intros H1 H2 Hn.
  apply (steps_commute (mdia_dispatch m) (mdia_body m) mdia_put (mdia_shape m) mdia_indep mdia_neutral
           mdia_put_comm mdia_put_neutral _ _ _ _ _ _ _ _ _ _ _ _ _ H1 H2).
  intros i1 i2 B1 B2. left. unfold mdia_indep.
  now rewrite (mdia_body_kind _ _ _ _ _ _ _ B1), (mdia_body_kind _ _ _ _ _ _ _ B2).
Qed.

Theorem layout_invariance_mdia m F0 cs items cs' items' :
  Forall2 (decodes_to (mdia_body m) F0) cs items -> Forall child_wf cs ->
  Forall2 (decodes_to (mdia_body m) F0) cs' items' -> Forall child_wf cs' ->
  items_equiv mdia_indep mdia_neutral items items' ->
  forall fuel fuel' d l p rest d' l' p' rest',
  (F0 + length cs <= fuel)%nat -> p + 8 + total_len cs < 2 ^ 63 ->
  (F0 + length cs' <= fuel')%nat -> p' + 8 + total_len cs' < 2 ^ 63 ->
  exists r,
    run (dec_mdia_fuel fuel m (8 + total_len cs)) (mkStream d l (p + 8) (render cs ++ rest))
    = (r, mkStream d l (p + 8 + total_len cs) rest) /\
    run (dec_mdia_fuel fuel' m (8 + total_len cs')) (mkStream d' l' (p' + 8) (render cs' ++ rest'))
    = (r, mkStream d' l' (p' + 8 + total_len cs') rest').
Proof.
  intros H2 Hwf H2' Hwf' Heq fuel fuel' d l p rest d' l' p' rest' Hf Hp Hf' Hp'.
  exact (container_layout_invariance m "mdia start+size" (mdia_dispatch m) (mdia_body m) mdia_put
           (None, None, None)
           (mdia_K m) mdia_finish mdia_indep mdia_neutral (mdia_shape m) mdia_put_comm mdia_put_neutral
           (mdia_K_ok m) F0 cs items cs' items' H2 Hwf H2' Hwf' Heq
           fuel fuel' d l p rest d' l' p' rest' Hf Hp Hf' Hp').
Qed.

(** *** trak *)
Inductive trak_item :=
| TI_tkhd (x : tkhd) | TI_edts (x : edts) | TI_meta (x : meta) | TI_mdia (x : mdia) | TI_skip.

Definition trak_body (m : mode) (fuel : nat) (name : boxtype) (s : N) : prog trak_item :=
  match name with
  | TkhdBox => x <- dec_tkhd m s ;; Ret (TI_tkhd x)
  | EdtsBox => x <- dec_edts_fuel fuel m s ;; Ret (TI_edts x)
  | MetaBox => x <- dec_meta_fuel fuel m s ;; Ret (TI_meta x)
  | MdiaBox => x <- dec_mdia_fuel fuel m s ;; Ret (TI_mdia x)
  | _ => skip_box m s ;;; Ret TI_skip
  end.

Definition trak_put (it : trak_item) (a : trak_acc) : trak_acc :=
  let '(tk, ed, me, md) := a in
  match it with
  | TI_tkhd x => (Some x, ed, me, md)
  | TI_edts x => (tk, Some x, me, md)
  | TI_meta x => (tk, ed, Some x, md)
  | TI_mdia x => (tk, ed, me, Some x)
  | TI_skip => (tk, ed, me, md)
  end.

Definition trak_kind (it : trak_item) : nat :=
  match it with TI_tkhd _ => 1 | TI_edts _ => 2 | TI_meta _ => 3 | TI_mdia _ => 4 | TI_skip => 0 end%nat.
Definition trak_name_kind (n : boxtype) : nat :=
  match n with TkhdBox => 1 | EdtsBox => 2 | MetaBox => 3 | MdiaBox => 4 | _ => 0 end%nat.
Definition trak_indep (i j : trak_item) : Prop := trak_kind i <> trak_kind j.
Definition trak_neutral (i : trak_item) : Prop := i = TI_skip.

Lemma trak_shape m : has_shape (trak_dispatch m) (trak_body m) trak_put.
Proof.
  intros f name s [[[tk ed] me] md] st0. destruct name; cbn [trak_dispatch trak_body]; shape_tac.
Qed.
Lemma trak_put_comm i j a : trak_indep i j -> trak_put i (trak_put j a) = trak_put j (trak_put i a).
Proof.
  unfold trak_indep. destruct a as [[[tk ed] me] md].
  destruct i, j; cbn [trak_kind]; intros H; try reflexivity; now elim H.
Qed.
Lemma trak_put_neutral i a : trak_neutral i -> trak_put i a = a.
Proof. intros ->. destruct a as [[[tk ed] me] md]. reflexivity. Qed.
Lemma trak_body_kind m f n s st i st' :
  run (trak_body m f n s) st = (Ok i, st') -> trak_kind i = trak_name_kind n.
Proof. intros R. destruct n; cbn [trak_body] in R; body_kind_tac R st. Qed.

Definition trak_finish (a : trak_acc) : option trak :=
  let '(tk, ed, me, md) := a in
  match tk, md with Some t, Some d => Some (mkTrak t ed me d) | _, _ => None end.

Definition trak_K (m : mode) (a : trak_acc) (start size : N) : prog trak :=
  let '(tk, ed, me, md) := a in
  match tk, md with
  | Some t, Some d =>
      e <- add64 m "trak start+size" start size ;;
      skip_bytes_to e ;;;
      Ret (mkTrak t ed me d)
  | _, _ => Throw EData
  end.

Lemma trak_K_ok m a start size d l rest : start + size < 2 ^ 63 ->
  run (trak_K m a start size) (mkStream d l (start + size) rest)
  = (opt_res_data (trak_finish a), mkStream d l (start + size) rest).
Proof.
  intros H. destruct a as [[[[tk|] ed] me] [md|]]; try reflexivity. now apply run_finish_seek.
Qed.

Theorem dec_trak_children m fuel cs items F0 d l p rest :
  Forall2 (decodes_to (trak_body m) F0) cs items -> Forall child_wf cs ->
  (F0 + length cs <= fuel)%nat -> p + 8 + total_len cs < 2 ^ 63 ->
  run (dec_trak_fuel fuel m (8 + total_len cs)) (mkStream d l (p + 8) (render cs ++ rest))
  = (opt_res_data (trak_finish (put_all trak_put items (None, None, None, None))),
     mkStream d l (p + 8 + total_len cs) rest).
Proof.
  intros H2 Hwf Hf Hp.
  exact (container_children m "trak start+size" (trak_dispatch m) (trak_body m) trak_put (None, None, None, None)
           (trak_K m) trak_finish (trak_shape m) (trak_K_ok m) fuel cs items F0 d l p rest H2 Hwf Hf Hp).
Qed.

Theorem trak_order_irrelevant m f1 f2 n1 n2 s1 s2 a a1 a12 st1 st1' st2 st2' :
  run (trak_dispatch m f1 n1 s1 a) st1 = (Ok a1, st1') ->
  run (trak_dispatch m f2 n2 s2 a1) st2 = (Ok a12, st2') ->
  trak_name_kind n1 <> trak_name_kind n2 ->
  exists a2,
    run (trak_dispatch m f2 n2 s2 a) st2 = (Ok a2, st2') /\
    run (trak_dispatch m f1 n1 s1 a2) st1 = (Ok a12, st1').
Proof.
  intros H1 H2 Hn.
  apply (steps_commute (trak_dispatch m) (trak_body m) trak_put (trak_shape m) trak_indep trak_neutral
           trak_put_comm trak_put_neutral _ _ _ _ _ _ _ _ _ _ _ _ _ H1 H2).
  intros i1 i2 B1 B2. left. unfold trak_indep.
  now rewrite (trak_body_kind _ _ _ _ _ _ _ B1), (trak_body_kind _ _ _ _ _ _ _ B2).
Qed.

Theorem layout_invariance_trak m F0 cs items cs' items' :
  Forall2 (decodes_to (trak_body m) F0) cs items -> Forall child_wf cs ->
  Forall2 (decodes_to (trak_body m) F0) cs' items' -> Forall child_wf cs' ->
  items_equiv trak_indep trak_neutral items items' ->
  forall fuel fuel' d l p rest d' l' p' rest',
  (F0 + length cs <= fuel)%nat -> p + 8 + total_len cs < 2 ^ 63 ->
  (F0 + length cs' <= fuel')%nat -> p' + 8 + total_len cs' < 2 ^ 63 ->
  exists r,
    run (dec_trak_fuel fuel m (8 + total_len cs)) (mkStream d l (p + 8) (render cs ++ rest))
    = (r, mkStream d l (p + 8 + total_len cs) rest) /\
    run (dec_trak_fuel fuel' m (8 + total_len cs')) (mkStream d' l' (p' + 8) (render cs' ++ rest'))
    = (r, mkStream d' l' (p' + 8 + total_len cs') rest').
Proof.
  intros H2 Hwf H2' Hwf' Heq fuel fuel' d l p rest d' l' p' rest' Hf Hp Hf' Hp'.
  exact (container_layout_invariance m "trak start+size" (trak_dispatch m) (trak_body m) trak_put
           (None, None, None, None)
           (trak_K m) trak_finish trak_indep trak_neutral (trak_shape m) trak_put_comm trak_put_neutral
           (trak_K_ok m) F0 cs items cs' items' H2 Hwf H2' Hwf' Heq
           fuel fuel' d l p rest d' l' p' rest' Hf Hp Hf' Hp').
Qed.

(** *** moov: the traks are pushed in file order, so two traks do NOT commute (same kind);
    every other pair of different types does *)
Inductive moov_item :=
| VI_mvhd (x : mvhd) | VI_meta (x : meta) | VI_mvex (x : mvex) | VI_trak (x : trak) | VI_udta (x : udta)
| VI_skip.

Definition moov_body (m : mode) (fuel : nat) (name : boxtype) (s : N) : prog moov_item :=
  match name with
  | MvhdBox => x <- dec_mvhd m s ;; Ret (VI_mvhd x)
  | MetaBox => x <- dec_meta_fuel fuel m s ;; Ret (VI_meta x)
  | MvexBox => x <- dec_mvex_fuel fuel m s ;; Ret (VI_mvex x)
  | TrakBox => x <- dec_trak_fuel fuel m s ;; Ret (VI_trak x)
  | UdtaBox => x <- dec_udta_fuel fuel m s ;; Ret (VI_udta x)
  | _ => skip_box m s ;;; Ret VI_skip
  end.

Definition moov_put (it : moov_item) (a : moov_acc) : moov_acc :=
  let '(mh, me, ud, mx, tr) := a in
  match it with
  | VI_mvhd x => (Some x, me, ud, mx, tr)
  | VI_meta x => (mh, Some x, ud, mx, tr)
  | VI_mvex x => (mh, me, ud, Some x, tr)
  | VI_trak x => (mh, me, ud, mx, tr ++ [x])
  | VI_udta x => (mh, me, Some x, mx, tr)
  | VI_skip => (mh, me, ud, mx, tr)
  end.

Definition moov_kind (it : moov_item) : nat :=
  match it with
  | VI_mvhd _ => 1 | VI_meta _ => 2 | VI_mvex _ => 3 | VI_trak _ => 4 | VI_udta _ => 5 | VI_skip => 0
  end%nat.
Definition moov_name_kind (n : boxtype) : nat :=
  match n with MvhdBox => 1 | MetaBox => 2 | MvexBox => 3 | TrakBox => 4 | UdtaBox => 5 | _ => 0 end%nat.
Definition moov_indep (i j : moov_item) : Prop := moov_kind i <> moov_kind j.
Definition moov_neutral (i : moov_item) : Prop := i = VI_skip.

Lemma moov_shape m : has_shape (moov_dispatch m) (moov_body m) moov_put.
Proof.
  intros f name s [[[[mh me] ud] mx] tr] st0. destruct name; cbn [moov_dispatch moov_body]; shape_tac.
Qed.
Lemma moov_put_comm i j a : moov_indep i j -> moov_put i (moov_put j a) = moov_put j (moov_put i a).
Proof.
  unfold moov_indep. destruct a as [[[[mh me] ud] mx] tr].
  destruct i, j; cbn [moov_kind]; intros H; try reflexivity; now elim H.
Qed.
Lemma moov_put_neutral i a : moov_neutral i -> moov_put i a = a.
Proof. intros ->. destruct a as [[[[mh me] ud] mx] tr]. reflexivity. Qed.
Lemma moov_body_kind m f n s st i st' :
  run (moov_body m f n s) st = (Ok i, st') -> moov_kind i = moov_name_kind n.
Proof. intros R. destruct n; cbn [moov_body] in R; body_kind_tac R st. Qed.

Definition moov_finish (a : moov_acc) : option moov :=
  let '(mh, me, ud, mx, tr) := a in
  match mh with Some h => Some (mkMoov h me mx tr ud) | None => None end.

Definition moov_K (m : mode) (a : moov_acc) (start size : N) : prog moov :=
  let '(mh, me, ud, mx, tr) := a in
  match mh with
  | Some h =>
      e <- add64 m "moov start+size" start size ;;
      skip_bytes_to e ;;;
      Ret (mkMoov h me mx tr ud)
  | None => Throw EData
  end.

Lemma moov_K_ok m a start size d l rest : start + size < 2 ^ 63 ->
  run (moov_K m a start size) (mkStream d l (start + size) rest)
  = (opt_res_data (moov_finish a), mkStream d l (start + size) rest).
Proof.
  intros H. destruct a as [[[[[mh|] me] ud] mx] tr]; try reflexivity. now apply run_finish_seek.
Qed.

Theorem dec_moov_children m fuel cs items F0 d l p rest :
  Forall2 (decodes_to (moov_body m) F0) cs items -> Forall child_wf cs ->
  (F0 + length cs <= fuel)%nat -> p + 8 + total_len cs < 2 ^ 63 ->
  run (dec_moov_fuel fuel m (8 + total_len cs)) (mkStream d l (p + 8) (render cs ++ rest))
  = (opt_res_data (moov_finish (put_all moov_put items (None, None, None, None, []))),
     mkStream d l (p + 8 + total_len cs) rest).
Proof.
  intros H2 Hwf Hf Hp.
  exact (container_children m "moov start+size" (moov_dispatch m) (moov_body m) moov_put
           (None, None, None, None, [])
           (moov_K m) moov_finish (moov_shape m) (moov_K_ok m) fuel cs items F0 d l p rest H2 Hwf Hf Hp).
Qed.

Theorem moov_order_irrelevant m f1 f2 n1 n2 s1 s2 a a1 a12 st1 st1' st2 st2' :
  run (moov_dispatch m f1 n1 s1 a) st1 = (Ok a1, st1') ->
  run (moov_dispatch m f2 n2 s2 a1) st2 = (Ok a12, st2') ->
  moov_name_kind n1 <> moov_name_kind n2 ->
  exists a2,
    run (moov_dispatch m f2 n2 s2 a) st2 = (Ok a2, st2') /\
    run (moov_dispatch m f1 n1 s1 a2) st1 = (Ok a12, st1').
Proof.
  intros H1 H2 Hn.
  apply (steps_commute (moov_dispatch m) (moov_body m) moov_put (moov_shape m) moov_indep moov_neutral
           moov_put_comm moov_put_neutral _ _ _ _ _ _ _ _ _ _ _ _ _ H1 H2).
  intros i1 i2 B1 B2. left. unfold moov_indep.
  now rewrite (moov_body_kind _ _ _ _ _ _ _ B1), (moov_body_kind _ _ _ _ _ _ _ B2).
Qed.

Theorem layout_invariance_moov m F0 cs items cs' items' :
  Forall2 (decodes_to (moov_body m) F0) cs items -> Forall child_wf cs ->
  Forall2 (decodes_to (moov_body m) F0) cs' items' -> Forall child_wf cs' ->
  items_equiv moov_indep moov_neutral items items' ->
  forall fuel fuel' d l p rest d' l' p' rest',
  (F0 + length cs <= fuel)%nat -> p + 8 + total_len cs < 2 ^ 63 ->
  (F0 + length cs' <= fuel')%nat -> p' + 8 + total_len cs' < 2 ^ 63 ->
  exists r,
    run (dec_moov_fuel fuel m (8 + total_len cs)) (mkStream d l (p + 8) (render cs ++ rest))
    = (r, mkStream d l (p + 8 + total_len cs) rest) /\
    run (dec_moov_fuel fuel' m (8 + total_len cs')) (mkStream d' l' (p' + 8) (render cs' ++ rest'))
    = (r, mkStream d' l' (p' + 8 + total_len cs') rest').
Proof.
  intros H2 Hwf H2' Hwf' Heq fuel fuel' d l p rest d' l' p' rest' Hf Hp Hf' Hp'.
  exact (container_layout_invariance m "moov start+size" (moov_dispatch m) (moov_body m) moov_put
           (None, None, None, None, [])
           (moov_K m) moov_finish moov_indep moov_neutral (moov_shape m) moov_put_comm moov_put_neutral
           (moov_K_ok m) F0 cs items cs' items' H2 Hwf H2' Hwf' Heq
           fuel fuel' d l p rest d' l' p' rest' Hf Hp Hf' Hp').
Qed.

(** the same type twice is NOT order-irrelevant: the later child wins (Option fields) /
    the list order changes (traks) *)
Lemma stbl_same_kind_last_wins x y a :
  stbl_put (SI_stts y) (stbl_put (SI_stts x) a) = stbl_put (SI_stts y) a.
Proof. reflexivity. Qed.
Lemma moov_traks_in_file_order x y a :
  snd (moov_put (VI_trak y) (moov_put (VI_trak x) a)) = snd a ++ [x; y].
Proof. destruct a as [[[[mh me] ud] mx] tr]. cbn [moov_put snd]. now rewrite <- app_assoc. Qed.

(** ** (iii) for hdlr: the name is read up to its NUL terminator, so spare bytes after the
    terminator are ignored too (they are read into the buffer and cut off) *)
Theorem hdlr_tail_ignored : tail_ignored hdlr_wf hdlr_size dec_hdlr iso_hdlr_payload.
Proof.
  intros v H m d l p spare post Hp. unfold hdlr_wf in H. split_andb.
  match goal with H : vl_str_ok _ = true |- _ => apply vl_str_ok_inv in H as [Hu Hn] end.
  pose proof (hdlr_size_eq v) as Hsz.
  unfold dec_hdlr, iso_hdlr_payload.
  change (be 4 0 ++ be 4 0 ++ be 4 0) with (repeat 0 12).
  rewrite <- !app_assoc.
  rewrite run_box_start.
  do 4 rd_step.
  prog_norm.
  rewrite (run_SeekRel_app _ 12 (repeat 0 12)) by (first [reflexivity | clear -Hp Hsz; lia]).
  rewrite checked_sub_ok
    by (clear -Hsz; unfold HEADER_SIZE, HEADER_EXT_SIZE, Tables.HEADER_SIZE, Tables.HEADER_EXT_SIZE; lia).
  change ([0] ++ spare ++ post) with ((0 :: spare) ++ post).
  rewrite (app_assoc (hdlr_name v) (0 :: spare) post).
  rewrite (run_rd_vec_bind _ (hdlr_name v ++ 0 :: spare))
    by (rewrite lenN_app, lenN_cons; clear -Hsz;
        unfold HEADER_SIZE, HEADER_EXT_SIZE, Tables.HEADER_SIZE, Tables.HEADER_EXT_SIZE; lia).
  rewrite vl_trim_nul_app by exact Hn. rewrite vl_utf8_or_default_ok by exact Hu.
  prog_norm. rewrite run_finish;
    [| clear -Hsz; unfold HEADER_SIZE, HEADER_EXT_SIZE, Tables.HEADER_SIZE, Tables.HEADER_EXT_SIZE; lia
     | clear -Hp; unfold U64; lia].
  f_equal.
  - destruct v; reflexivity.
  - f_equal. clear -Hsz.
    unfold HEADER_SIZE, HEADER_EXT_SIZE, Tables.HEADER_SIZE, Tables.HEADER_EXT_SIZE. lia.
Qed.

(** ** Children that decode: leaves (either header, spare bytes), skipped boxes, nested containers *)

(** (i) + (iii) in one statement: the body [payload v ++ spare] is a [leaf_decodes] body *)
Lemma leaf_child_decodes {X} wf size code enc (dec : mode -> N -> prog X) payload :
  leaf_roundtrip wf size code enc dec payload -> tail_ignored wf size dec payload ->
  forall v spare, wf v = true -> size v < U32 ->
  leaf_decodes dec (8 + lenN (payload v ++ spare)) (payload v ++ spare) v.
Proof.
  intros Hrt Ht v spare Hw Hs. destruct (Hrt v Hw Hs) as (_ & _ & _ & Hl & _).
  replace (8 + lenN (payload v ++ spare)) with (size v + lenN spare) by (rewrite lenN_app; clear -Hl; lia).
  now apply (tail_ignored_decodes wf).
Qed.

(** without (iii), for boxes whose last field extends to the end of the box (hdlr) *)
Lemma leaf_child_decodes0 {X} wf size code enc (dec : mode -> N -> prog X) payload :
  leaf_roundtrip wf size code enc dec payload ->
  forall v, wf v = true -> size v < U32 ->
  leaf_decodes dec (8 + lenN (payload v)) (payload v) v.
Proof.
  intros Hrt v Hw Hs. destruct (Hrt v Hw Hs) as (_ & _ & _ & Hl & Hd).
  replace (8 + lenN (payload v)) with (size v) by (clear -Hl; lia). exact Hd.
Qed.

Lemma decodes_to_leaf {Item X} (body : nat -> boxtype -> N -> prog Item) (dec : mode -> N -> prog X)
      m (mk : X -> Item) name c v :
  boxtype_of_u32 (c_code c) = name ->
  (forall f s st, run (body f name s) st = run (x <- dec m s ;; Ret (mk x)) st) ->
  leaf_decodes dec (c_s c) (c_payload c) v -> decodes_to body 0 c (mk v).
Proof.
  intros Hn Hb Hd f d l q rest _ Hq. rewrite Hn, Hb, run_bind, (Hd m d l q rest Hq). reflexivity.
Qed.

Lemma decodes_to_nested {Item X} (body : nat -> boxtype -> N -> prog Item)
      (decf : nat -> mode -> N -> prog X) m (mk : X -> Item) name c cs F v :
  boxtype_of_u32 (c_code c) = name -> c_payload c = render cs ->
  (forall f s st, run (body f name s) st = run (x <- decf f m s ;; Ret (mk x)) st) ->
  (forall fuel d l p rest, (F <= fuel)%nat -> p + 8 + total_len cs < 2 ^ 63 ->
     run (decf fuel m (8 + total_len cs)) (mkStream d l (p + 8) (render cs ++ rest))
     = (Ok v, mkStream d l (p + 8 + total_len cs) rest)) ->
  decodes_to body F c (mk v).
Proof.
  intros Hn Hpay Hb Hd f d l q rest Hf Hq. rewrite Hn, Hb, run_bind.
  unfold c_s in *. rewrite Hpay in *. rewrite lenN_render in *.
  rewrite (Hd f d l q rest Hf) by (clear -Hq; lia).
  cbn [run]. stream_eq.
Qed.

Lemma bt_stts : boxtype_of_u32 0x73747473 = SttsBox. Proof. vm_compute. reflexivity. Qed.
Lemma bt_ctts : boxtype_of_u32 0x63747473 = CttsBox. Proof. vm_compute. reflexivity. Qed.
Lemma bt_stss : boxtype_of_u32 0x73747373 = StssBox. Proof. vm_compute. reflexivity. Qed.
Lemma bt_stsc : boxtype_of_u32 0x73747363 = StscBox. Proof. vm_compute. reflexivity. Qed.
Lemma bt_stsz : boxtype_of_u32 0x7374737a = StszBox. Proof. vm_compute. reflexivity. Qed.
Lemma bt_stco : boxtype_of_u32 0x7374636f = StcoBox. Proof. vm_compute. reflexivity. Qed.
Lemma bt_co64 : boxtype_of_u32 0x636f3634 = Co64Box. Proof. vm_compute. reflexivity. Qed.
Lemma bt_stsd : boxtype_of_u32 0x73747364 = StsdBox. Proof. vm_compute. reflexivity. Qed.
Lemma bt_vmhd : boxtype_of_u32 0x766d6864 = VmhdBox. Proof. vm_compute. reflexivity. Qed.
Lemma bt_smhd : boxtype_of_u32 0x736d6864 = SmhdBox. Proof. vm_compute. reflexivity. Qed.
Lemma bt_dinf : boxtype_of_u32 0x64696e66 = DinfBox. Proof. vm_compute. reflexivity. Qed.
Lemma bt_stbl : boxtype_of_u32 0x7374626c = StblBox. Proof. vm_compute. reflexivity. Qed.
Lemma bt_mdhd : boxtype_of_u32 0x6d646864 = MdhdBox. Proof. vm_compute. reflexivity. Qed.
Lemma bt_hdlr : boxtype_of_u32 0x68646c72 = HdlrBox. Proof. vm_compute. reflexivity. Qed.
Lemma bt_minf : boxtype_of_u32 0x6d696e66 = MinfBox. Proof. vm_compute. reflexivity. Qed.
Lemma bt_tkhd : boxtype_of_u32 0x746b6864 = TkhdBox. Proof. vm_compute. reflexivity. Qed.
Lemma bt_mdia : boxtype_of_u32 0x6d646961 = MdiaBox. Proof. vm_compute. reflexivity. Qed.
Lemma bt_mvhd : boxtype_of_u32 0x6d766864 = MvhdBox. Proof. vm_compute. reflexivity. Qed.
Lemma bt_trak : boxtype_of_u32 0x7472616b = TrakBox. Proof. vm_compute. reflexivity. Qed.

(** *** stbl children *)
Lemma stbl_child_skip m c : stbl_known (boxtype_of_u32 (c_code c)) = false -> decodes_to (stbl_body m) 0 c SI_skip.
Proof.
  intros H f d l q rest _ Hq. destruct (boxtype_of_u32 (c_code c)); try discriminate H; cbn [stbl_body];
    rewrite (run_skip_box_bind m (c_s c)) by (first [reflexivity | exact Hq]); reflexivity.
Qed.
Lemma stbl_child_stts m w64 v spare : stts_wf v = true -> stts_size v < U32 ->
  decodes_to (stbl_body m) 0 (mkChild w64 0x73747473 (iso_stts_payload v ++ spare)) (SI_stts v).
Proof.
  intros Hw Hs. apply (decodes_to_leaf (stbl_body m) dec_stts m SI_stts SttsBox); [exact bt_stts | reflexivity |].
  exact (leaf_child_decodes _ _ _ _ _ _ stts_roundtrip stts_tail_ignored v spare Hw Hs).
Qed.
Lemma stbl_child_ctts m w64 v spare : ctts_wf v = true -> ctts_size v < U32 ->
  decodes_to (stbl_body m) 0 (mkChild w64 0x63747473 (iso_ctts_payload v ++ spare)) (SI_ctts v).
Proof.
  intros Hw Hs. apply (decodes_to_leaf (stbl_body m) dec_ctts m SI_ctts CttsBox); [exact bt_ctts | reflexivity |].
  exact (leaf_child_decodes _ _ _ _ _ _ ctts_roundtrip ctts_tail_ignored v spare Hw Hs).
Qed.
Lemma stbl_child_stss m w64 v spare : stss_wf v = true -> stss_size v < U32 ->
  decodes_to (stbl_body m) 0 (mkChild w64 0x73747373 (iso_stss_payload v ++ spare)) (SI_stss v).
Proof.
  intros Hw Hs. apply (decodes_to_leaf (stbl_body m) dec_stss m SI_stss StssBox); [exact bt_stss | reflexivity |].
  exact (leaf_child_decodes _ _ _ _ _ _ stss_roundtrip stss_tail_ignored v spare Hw Hs).
Qed.
Lemma stbl_child_stsc m w64 v spare : stsc_wf v = true -> stsc_size v < U32 ->
  decodes_to (stbl_body m) 0 (mkChild w64 0x73747363 (iso_stsc_payload v ++ spare)) (SI_stsc v).
Proof.
  intros Hw Hs. apply (decodes_to_leaf (stbl_body m) dec_stsc m SI_stsc StscBox); [exact bt_stsc | reflexivity |].
  exact (leaf_child_decodes _ _ _ _ _ _ stsc_roundtrip stsc_tail_ignored v spare Hw Hs).
Qed.
Lemma stbl_child_stsz m w64 v spare : stsz_wf v = true -> stsz_size v < U32 ->
  decodes_to (stbl_body m) 0 (mkChild w64 0x7374737a (iso_stsz_payload v ++ spare)) (SI_stsz v).
Proof.
  intros Hw Hs. apply (decodes_to_leaf (stbl_body m) dec_stsz m SI_stsz StszBox); [exact bt_stsz | reflexivity |].
  exact (leaf_child_decodes _ _ _ _ _ _ stsz_roundtrip stsz_tail_ignored v spare Hw Hs).
Qed.
Lemma stbl_child_stco m w64 v spare : stco_wf v = true -> stco_size v < U32 ->
  decodes_to (stbl_body m) 0 (mkChild w64 0x7374636f (iso_stco_payload v ++ spare)) (SI_stco v).
Proof.
  intros Hw Hs. apply (decodes_to_leaf (stbl_body m) dec_stco m SI_stco StcoBox); [exact bt_stco | reflexivity |].
  exact (leaf_child_decodes _ _ _ _ _ _ stco_roundtrip stco_tail_ignored v spare Hw Hs).
Qed.
Lemma stbl_child_co64 m w64 v spare : co64_wf v = true -> co64_size v < U32 ->
  decodes_to (stbl_body m) 0 (mkChild w64 0x636f3634 (iso_co64_payload v ++ spare)) (SI_co64 v).
Proof.
  intros Hw Hs. apply (decodes_to_leaf (stbl_body m) dec_co64 m SI_co64 Co64Box); [exact bt_co64 | reflexivity |].
  exact (leaf_child_decodes _ _ _ _ _ _ co64_roundtrip co64_tail_ignored v spare Hw Hs).
Qed.

(** *** minf children *)
Lemma minf_child_skip m c : minf_known (boxtype_of_u32 (c_code c)) = false -> decodes_to (minf_body m) 0 c NI_skip.
Proof.
  intros H f d l q rest _ Hq. destruct (boxtype_of_u32 (c_code c)); try discriminate H; cbn [minf_body];
    rewrite (run_skip_box_bind m (c_s c)) by (first [reflexivity | exact Hq]); reflexivity.
Qed.
Lemma minf_child_vmhd m w64 v spare : vmhd_wf v = true -> vmhd_size v < U32 ->
  decodes_to (minf_body m) 0 (mkChild w64 0x766d6864 (iso_vmhd_payload v ++ spare)) (NI_vmhd v).
Proof.
  intros Hw Hs. apply (decodes_to_leaf (minf_body m) dec_vmhd m NI_vmhd VmhdBox); [exact bt_vmhd | reflexivity |].
  exact (leaf_child_decodes _ _ _ _ _ _ vmhd_roundtrip vmhd_tail_ignored v spare Hw Hs).
Qed.
Lemma minf_child_smhd m w64 v spare : smhd_wf v = true -> smhd_size v < U32 ->
  decodes_to (minf_body m) 0 (mkChild w64 0x736d6864 (iso_smhd_payload v ++ spare)) (NI_smhd v).
Proof.
  intros Hw Hs. apply (decodes_to_leaf (minf_body m) dec_smhd m NI_smhd SmhdBox); [exact bt_smhd | reflexivity |].
  exact (leaf_child_decodes _ _ _ _ _ _ smhd_roundtrip smhd_tail_ignored v spare Hw Hs).
Qed.
(** a whole stbl whose own children were re-laid-out is the same item of the minf *)
Lemma minf_child_stbl m w64 cs items F0 v :
  Forall2 (decodes_to (stbl_body m) F0) cs items -> Forall child_wf cs ->
  stbl_finish (put_all stbl_put items stbl_acc0) = Some v ->
  decodes_to (minf_body m) (F0 + length cs) (mkChild w64 0x7374626c (render cs)) (NI_stbl v).
Proof.
  intros H2 Hwf Hfin.
  apply (decodes_to_nested (minf_body m) dec_stbl_fuel m NI_stbl StblBox _ cs); [exact bt_stbl | reflexivity | reflexivity |].
  intros fuel d l p rest Hf Hp. rewrite (dec_stbl_children m fuel cs items F0) by assumption.
  now rewrite Hfin.
Qed.

(** *** mdia children *)
Lemma mdia_child_skip m c : mdia_known (boxtype_of_u32 (c_code c)) = false -> decodes_to (mdia_body m) 0 c DI_skip.
Proof.
  intros H f d l q rest _ Hq. destruct (boxtype_of_u32 (c_code c)); try discriminate H; cbn [mdia_body];
    rewrite (run_skip_box_bind m (c_s c)) by (first [reflexivity | exact Hq]); reflexivity.
Qed.
Lemma mdia_child_mdhd m w64 v spare : mdhd_wf v = true -> mdhd_size v < U32 ->
  decodes_to (mdia_body m) 0 (mkChild w64 0x6d646864 (iso_mdhd_payload v ++ spare)) (DI_mdhd v).
Proof.
  intros Hw Hs. apply (decodes_to_leaf (mdia_body m) dec_mdhd m DI_mdhd MdhdBox); [exact bt_mdhd | reflexivity |].
  exact (leaf_child_decodes _ _ _ _ _ _ mdhd_roundtrip mdhd_tail_ignored v spare Hw Hs).
Qed.
Lemma mdia_child_hdlr m w64 v spare : hdlr_wf v = true -> hdlr_size v < U32 ->
  decodes_to (mdia_body m) 0 (mkChild w64 0x68646c72 (iso_hdlr_payload v ++ spare)) (DI_hdlr v).
Proof.
  intros Hw Hs. apply (decodes_to_leaf (mdia_body m) dec_hdlr m DI_hdlr HdlrBox); [exact bt_hdlr | reflexivity |].
  exact (leaf_child_decodes _ _ _ _ _ _ hdlr_roundtrip hdlr_tail_ignored v spare Hw Hs).
Qed.
Lemma mdia_child_minf m w64 cs items F0 v :
  Forall2 (decodes_to (minf_body m) F0) cs items -> Forall child_wf cs ->
  minf_finish (put_all minf_put items (None, None, None, None)) = Some v ->
  decodes_to (mdia_body m) (F0 + length cs) (mkChild w64 0x6d696e66 (render cs)) (DI_minf v).
Proof.
  intros H2 Hwf Hfin.
  apply (decodes_to_nested (mdia_body m) dec_minf_fuel m DI_minf MinfBox _ cs); [exact bt_minf | reflexivity | reflexivity |].
  intros fuel d l p rest Hf Hp. rewrite (dec_minf_children m fuel cs items F0) by assumption.
  now rewrite Hfin.
Qed.

(** *** trak children *)
Lemma trak_child_skip m c : trak_known (boxtype_of_u32 (c_code c)) = false -> decodes_to (trak_body m) 0 c TI_skip.
Proof.
  intros H f d l q rest _ Hq. destruct (boxtype_of_u32 (c_code c)); try discriminate H; cbn [trak_body];
    rewrite (run_skip_box_bind m (c_s c)) by (first [reflexivity | exact Hq]); reflexivity.
Qed.
Lemma trak_child_tkhd m w64 v spare : tkhd_wf v = true -> tkhd_size v < U32 ->
  decodes_to (trak_body m) 0 (mkChild w64 0x746b6864 (iso_tkhd_payload v ++ spare)) (TI_tkhd v).
Proof.
  intros Hw Hs. apply (decodes_to_leaf (trak_body m) dec_tkhd m TI_tkhd TkhdBox); [exact bt_tkhd | reflexivity |].
  exact (leaf_child_decodes _ _ _ _ _ _ tkhd_roundtrip tkhd_tail_ignored v spare Hw Hs).
Qed.
Lemma trak_child_mdia m w64 cs items F0 v :
  Forall2 (decodes_to (mdia_body m) F0) cs items -> Forall child_wf cs ->
  mdia_finish (put_all mdia_put items (None, None, None)) = Some v ->
  decodes_to (trak_body m) (F0 + length cs) (mkChild w64 0x6d646961 (render cs)) (TI_mdia v).
Proof.
  intros H2 Hwf Hfin.
  apply (decodes_to_nested (trak_body m) dec_mdia_fuel m TI_mdia MdiaBox _ cs); [exact bt_mdia | reflexivity | reflexivity |].
  intros fuel d l p rest Hf Hp. rewrite (dec_mdia_children m fuel cs items F0) by assumption.
  now rewrite Hfin.
Qed.

(** *** moov children *)
Lemma moov_child_skip m c : moov_known (boxtype_of_u32 (c_code c)) = false -> decodes_to (moov_body m) 0 c VI_skip.
Proof.
  intros H f d l q rest _ Hq. destruct (boxtype_of_u32 (c_code c)); try discriminate H; cbn [moov_body];
    rewrite (run_skip_box_bind m (c_s c)) by (first [reflexivity | exact Hq]); reflexivity.
Qed.
Lemma moov_child_mvhd m w64 v spare : mvhd_wf v = true -> mvhd_size v < U32 ->
  decodes_to (moov_body m) 0 (mkChild w64 0x6d766864 (mvhd_payload v ++ spare)) (VI_mvhd v).
Proof.
  intros Hw Hs. apply (decodes_to_leaf (moov_body m) dec_mvhd m VI_mvhd MvhdBox); [exact bt_mvhd | reflexivity |].
  exact (leaf_child_decodes _ _ _ _ _ _ mvhd_roundtrip mvhd_tail_ignored v spare Hw Hs).
Qed.
Lemma moov_child_trak m w64 cs items F0 v :
  Forall2 (decodes_to (trak_body m) F0) cs items -> Forall child_wf cs ->
  trak_finish (put_all trak_put items (None, None, None, None)) = Some v ->
  decodes_to (moov_body m) (F0 + length cs) (mkChild w64 0x7472616b (render cs)) (VI_trak v).
Proof.
  intros H2 Hwf Hfin.
  apply (decodes_to_nested (moov_body m) dec_trak_fuel m VI_trak TrakBox _ cs); [exact bt_trak | reflexivity | reflexivity |].
  intros fuel d l p rest Hf Hp. rewrite (dec_trak_children m fuel cs items F0) by assumption.
  now rewrite Hfin.
Qed.
