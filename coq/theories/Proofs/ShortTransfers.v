(** * Short transfers and interrupted calls are transparent (property C10, second half)

    The Rust library moves bytes only through [std::io::Read::read_exact] and
    [std::io::Write::write_all] (directly or through the [byteorder] extension traits).  In the
    model ([Base/Prog.v]) such a transfer is ONE node ([RdExact n] / [WrAll l]) that moves
    everything at once.  A real stream may transfer fewer bytes per raw [read] / [write] call
    than requested, or fail a call with [ErrorKind::Interrupted].  [std]'s loops are

<<
    read_exact(buf): while !buf.is_empty() { match self.read(buf) {
                        Ok(0) => break, Ok(n) => buf = &mut buf[n..],
                        Err(e) if e.kind()==Interrupted => {}, Err(e) => return Err(e) } }
                     if !buf.is_empty() { Err(UnexpectedEof) } else { Ok(()) }
    write_all(buf):  while !buf.is_empty() { match self.write(buf) {
                        Ok(0) => return Err(WriteZero), Ok(n) => buf = &buf[n..],
                        Err(e) if e.kind()==Interrupted => {}, Err(e) => return Err(e) } }
                     Ok(())
>>

    This file models the two loops over a stream whose raw calls follow an arbitrary
    _schedule_ ([list ev], one event consumed per raw call), gives the interpreters
    [run_sched] / [wrun_sched] in which every [RdExact] / [WrAll] node is such a loop, and
    proves that every program returns the same result and leaves the same stream as under
    [run] / [wrun]:

    - [short_reads_transparent]  : [stream_wf s -> fst (run_sched p s sched) = run p s];
    - [short_writes_transparent] : [w_base w = 0 -> fst (wrun_sched p w sched) = wrun p w]
      (general form [short_writes_transparent_gen] for a stream with any base, under the
      condition that the run never seeks before the base: see the remark there). *)
From MP4 Require Import Prog.
Open Scope list_scope.
Open Scope N_scope.

(** ** C1. Schedules and the raw calls *)

(** One event per raw [read] / [write] call:
    - [Intr]    : the call fails with [ErrorKind::Interrupted], nothing is transferred;
    - [Short k] : the call transfers at most [N.max k 1] bytes (and at most what is requested,
                  and, for a read, at most what is available);
    - when the schedule is exhausted, a call transfers everything requested (and available). *)
Inductive ev := Short (k : N) | Intr.

(** [takeN n l]: the first [n] elements of [l] (all of [l] if it is shorter) and the rest.
    Structural on the list, so a huge count costs nothing. *)
Fixpoint takeN (n : N) (l : bytes) {struct l} : bytes * bytes :=
  if n =? 0 then ([], l)
  else match l with
       | [] => ([], [])
       | b :: t => let (h, r) := takeN (n - 1) t in (b :: h, r)
       end.

(** A raw [read] call that succeeds, with a buffer of [cap] bytes: transfers
    [min cap available] bytes and advances the position by that amount
    ([Cursor::read]); at end of data it transfers nothing ([Ok(0)]). *)
Definition raw_read (cap : N) (s : stream) : bytes * stream :=
  let (h, r) := takeN cap (s_view s) in
  (h, mkStream (s_data s) (s_len s) (s_pos s + lenN h) r).

(** A raw [write] call that accepts exactly the bytes [h]: they are stored at the current
    position, which advances by their number (this is what [wrun] does for [WrAll h]). *)
Definition raw_write (h : bytes) (w : wstream) : wstream :=
  mkW (w_base w) (write_at (w_pos w - w_base w) h (w_buf w)) (w_pos w + lenN h).

(** ** C2. The loops, by structural recursion on the schedule *)

(** [rx sched want s acc c]: the [read_exact] loop with [want] bytes still to fill, [acc] the
    bytes obtained so far, [c] the number of raw calls made so far.  Result:
    [(Some bytes | None = UnexpectedEof, stream after, (remaining schedule, raw calls))].

    When the schedule is exhausted ([[]]) every raw call is a full one: the first transfers
    [min want available] bytes; if that is all that was wanted the loop ends, otherwise the
    data is used up ([raw_read_drained]) and the loop ends with [UnexpectedEof] — immediately
    if the call returned [Ok(0)], after one more call (which returns [Ok(0)]) if not. *)
Fixpoint rx (sched : list ev) (want : N) (s : stream) (acc : bytes) (c : N) {struct sched}
  : option bytes * stream * (list ev * N) :=
  if want =? 0 then (Some acc, s, (sched, c))
  else match sched with
       | Intr :: t => rx t want s acc (c + 1)                 (* Interrupted: retry *)
       | Short k :: t =>
           let (h, s') := raw_read (N.min (N.max k 1) want) s in
           match h with
           | [] => (None, s', (t, c + 1))                      (* Ok(0) => break => UnexpectedEof *)
           | _ :: _ => rx t (want - lenN h) s' (acc ++ h) (c + 1)
           end
       | [] =>
           let (h, s') := raw_read want s in
           if lenN h =? want then (Some (acc ++ h), s', ([], c + 1))
           else (None, s', ([], c + match h with [] => 1 | _ :: _ => 2 end))
       end.

(** [wx sched l w c]: the [write_all] loop with [l] still to write.  Result:
    [(true | false = WriteZero, stream after, (remaining schedule, raw calls))]. *)
Fixpoint wx (sched : list ev) (l : bytes) (w : wstream) (c : N) {struct sched}
  : bool * wstream * (list ev * N) :=
  match l with
  | [] => (true, w, (sched, c))
  | _ :: _ =>
      match sched with
      | Intr :: t => wx t l w (c + 1)                          (* Interrupted: retry *)
      | Short k :: t =>
          let (h, r) := takeN (N.max k 1) l in
          match h with
          | [] => (false, w, (t, c + 1))                       (* Ok(0) => Err(WriteZero) *)
          | _ :: _ => wx t r (raw_write h w) (c + 1)
          end
      | [] => (true, raw_write l w, ([], c + 1))
      end
  end.

(** *** List lemmas *)

Lemma takeN_spec n l h r : takeN n l = (h, r) -> l = h ++ r /\ lenN h = N.min n (lenN l).
Proof.
  revert n h r; induction l as [|b t IH]; intros n h r H; cbn [takeN] in H.
  - destruct (n =? 0); inversion H; subst; split; auto; change (lenN (@nil N)) with 0; lia.
  - destruct (N.eqb_spec n 0) as [->|Hn].
    + inversion H; subst. split; auto.
    + destruct (takeN (n - 1) t) as [h' r'] eqn:E. inversion H; subst.
      apply IH in E as [-> E2]. split; auto. rewrite !lenN_cons, E2. lia.
Qed.

Lemma lenN_0_nil {A} (l : list A) : lenN l = 0 -> l = [].
Proof. destruct l; auto. rewrite lenN_cons. lia. Qed.

(** Splitting after a prefix that is not longer than the count. *)
Lemma splitN_app_le h1 r1 n : lenN h1 <= n ->
  splitN n (h1 ++ r1) =
  match splitN (n - lenN h1) r1 with Some (h2, r) => Some (h1 ++ h2, r) | None => None end.
Proof.
  revert n; induction h1 as [|b t IH]; intros n H.
  - change (lenN (@nil N)) with 0. rewrite N.sub_0_r. cbn [app].
    destruct (splitN n r1) as [[h2 r]|]; reflexivity.
  - rewrite lenN_cons in *. cbn [app splitN].
    destruct (N.eqb_spec n 0); [lia|].
    rewrite IH by lia. replace (n - 1 - lenN t) with (n - (1 + lenN t)) by lia.
    destruct (splitN (n - (1 + lenN t)) r1) as [[h2 r]|]; reflexivity.
Qed.

Lemma firstnN_app {A} k (a b : list A) : lenN a = k -> firstn (N.to_nat k) (a ++ b) = a.
Proof.
  intros <-. unfold lenN. rewrite Nat2N.id, firstn_app, Nat.sub_diag, firstn_all, firstn_O.
  apply app_nil_r.
Qed.

Lemma lenN_firstn {A} k (l : list A) : k <= lenN l -> lenN (firstn (N.to_nat k) l) = k.
Proof. unfold lenN. intros H. rewrite firstn_length. lia. Qed.

Lemma write_at_at_end l buf : write_at (lenN buf) l buf = buf ++ l.
Proof.
  unfold write_at. rewrite N.leb_refl.
  replace (N.to_nat (lenN buf)) with (length buf) by (unfold lenN; lia).
  rewrite firstn_all. rewrite dropN_all by lia. now rewrite app_nil_r.
Qed.

(** Writing [l1 ++ l2] at [off] is writing [l1] at [off], then [l2] right after it. *)
Lemma write_at_app off l1 l2 buf :
  write_at off (l1 ++ l2) buf = write_at (off + lenN l1) l2 (write_at off l1 buf).
Proof.
  unfold write_at at 1 3.
  destruct (N.leb_spec off (lenN buf)) as [Hle|Hgt].
  - set (pre := firstn (N.to_nat off) buf).
    assert (Hpre : lenN pre = off) by (apply lenN_firstn; exact Hle).
    unfold write_at.
    rewrite !lenN_app, Hpre, dropN_lenN.
    destruct (N.leb_spec (off + lenN l1) (off + (lenN l1 + (lenN buf - (off + lenN l1)))));
      [|lia].
    rewrite (app_assoc pre l1).
    rewrite firstnN_app by (rewrite lenN_app; lia).
    replace (off + lenN l1 + lenN l2) with (lenN l2 + (off + lenN l1)) by lia.
    rewrite <- (dropN_dropN (lenN l2) (off + lenN l1) ((pre ++ l1) ++ _)).
    rewrite (dropN_app_n (off + lenN l1) (pre ++ l1)) by (rewrite lenN_app; lia).
    rewrite dropN_dropN.
    rewrite <- !app_assoc. do 4 f_equal. lia.
  - replace (off + lenN l1) with (lenN (buf ++ repeatN 0 (off - lenN buf) ++ l1))
      by (rewrite !lenN_app, lenN_repeatN; lia).
    rewrite write_at_at_end. rewrite <- !app_assoc. reflexivity.
Qed.

(** *** The raw calls *)

Lemma raw_read_spec cap s h s' : raw_read cap s = (h, s') ->
  exists r, s_view s = h ++ r /\ lenN h = N.min cap (lenN (s_view s)) /\
            s' = mkStream (s_data s) (s_len s) (s_pos s + lenN h) r.
Proof.
  unfold raw_read. destruct (takeN cap (s_view s)) as [h0 r0] eqn:E. intros H.
  inversion H; subst. apply takeN_spec in E as [E1 E2]. exists r0. auto.
Qed.

(** After a raw call that returned fewer bytes than its buffer holds the data is used up,
    and every further raw call returns [Ok(0)] and leaves the stream where it is: this is
    what the exhausted-schedule case of [rx] relies on. *)
Lemma raw_read_drained cap s h s' : raw_read cap s = (h, s') -> lenN h < cap ->
  s_view s' = [] /\ forall cap', raw_read cap' s' = ([], s').
Proof.
  intros H Hlt. apply raw_read_spec in H as (r & Hv & Hl & ->).
  assert (r = []) as ->.
  { apply lenN_0_nil. rewrite Hv, lenN_app in Hl. lia. }
  split; [reflexivity|]. intros cap'. unfold raw_read. cbn [s_view s_data s_len s_pos takeN].
  destruct (cap' =? 0); change (lenN (@nil N)) with 0; rewrite N.add_0_r; reflexivity.
Qed.

(** *** The [read_exact] loop computes [splitN] *)

(** Whatever the schedule: if [want] bytes are available the loop returns exactly them and
    leaves the stream [want] bytes further; otherwise it fails with [UnexpectedEof] having
    consumed everything that was available. *)
Lemma rx_spec_gen sched : forall want s acc c,
  fst (rx sched want s acc c) =
  match splitN want (s_view s) with
  | Some (h, r) => (Some (acc ++ h), mkStream (s_data s) (s_len s) (s_pos s + want) r)
  | None => (None, mkStream (s_data s) (s_len s) (s_pos s + lenN (s_view s)) [])
  end.
Proof.
  induction sched as [|e t IH]; intros want s acc c.
  - (* schedule exhausted *)
    cbn [rx]. destruct (N.eqb_spec want 0) as [->|Hw].
    + rewrite splitN_0. destruct s as [d0 ln0 p0 v0]; cbn [fst s_data s_len s_pos s_view].
      now rewrite app_nil_r, N.add_0_r.
    + destruct (raw_read want s) as [h s'] eqn:E.
      apply raw_read_spec in E as (r & Hv & Hl & ->).
      destruct (N.eqb_spec (lenN h) want) as [Hh|Hh].
      * cbn [fst]. rewrite Hv, (splitN_app_n want h r Hh). now rewrite Hh.
      * assert (r = []) as ->.
        { apply lenN_0_nil. rewrite Hv, lenN_app in Hl. lia. }
        rewrite app_nil_r in Hv. cbn [fst].
        rewrite splitN_short by (rewrite Hv in *; lia). now rewrite Hv.
  - cbn [rx]. destruct (N.eqb_spec want 0) as [->|Hw].
    + rewrite splitN_0. destruct s as [d0 ln0 p0 v0]; cbn [fst s_data s_len s_pos s_view].
      now rewrite app_nil_r, N.add_0_r.
    + destruct e as [k|]; [|apply IH].
      destruct (raw_read (N.min (N.max k 1) want) s) as [h s'] eqn:E.
      apply raw_read_spec in E as (r & Hv & Hl & ->).
      destruct h as [|b h].
      * (* Ok(0): nothing is available *)
        change (lenN (@nil N)) with 0 in *. cbn [app] in Hv.
        assert (Hnil : s_view s = []) by (apply lenN_0_nil; lia).
        cbn [fst]. rewrite Hnil in *. subst r. cbn [splitN].
        destruct (N.eqb_spec want 0); [lia|]. reflexivity.
      * rewrite IH. cbn [s_data s_len s_pos s_view]. rewrite Hv.
        rewrite (splitN_app_le (b :: h) r want) by lia.
        destruct (splitN (want - lenN (b :: h)) r) as [[h2 r2]|] eqn:E2.
        -- rewrite <- app_assoc.
           replace (s_pos s + lenN (b :: h) + (want - lenN (b :: h))) with (s_pos s + want) by lia.
           reflexivity.
        -- rewrite lenN_app, N.add_assoc. reflexivity.
Qed.

Definition rx_result (o : option bytes * stream * (list ev * N)) : option (bytes * bytes) :=
  match o with
  | (Some h, s', _) => Some (h, s_view s')
  | (None, _, _) => None
  end.

(** The form asked for: the loop, started with nothing accumulated, returns [splitN n view]
    (for [n = 0] too). *)
Theorem rx_spec : forall sched n s c, rx_result (rx sched n s [] c) = splitN n (s_view s).
Proof.
  intros sched n s c. pose proof (rx_spec_gen sched n s [] c) as H.
  destruct (rx sched n s [] c) as [[o s'] sc]. cbn [fst] in H. unfold rx_result.
  destruct (splitN n (s_view s)) as [[h r]|]; inversion H; subst; reflexivity.
Qed.

(** *** The [write_all] loop writes the whole buffer, as one [write_at] *)

Lemma wx_spec sched : forall l w c, w_base w <= w_pos w ->
  fst (wx sched l w c) = (true, match l with [] => w | _ :: _ => raw_write l w end).
Proof.
  induction sched as [|e t IH]; intros l w c Hb.
  - destruct l; reflexivity.
  - destruct l as [|b l]; [reflexivity|]. cbn [wx].
    destruct e as [k|]; [|now apply IH].
    destruct (takeN (N.max k 1) (b :: l)) as [h r] eqn:E.
    apply takeN_spec in E as [Hl Hh]. rewrite lenN_cons in Hh.
    destruct h as [|b' h]; [change (lenN (@nil N)) with 0 in Hh; lia|].
    rewrite IH by (cbn [raw_write w_base w_pos]; lia).
    rewrite Hl. f_equal. destruct r as [|b2 r]; [now rewrite app_nil_r|].
    unfold raw_write. cbn [w_base w_buf w_pos].
    rewrite (write_at_app (w_pos w - w_base w)), lenN_app. f_equal; [f_equal|]; lia.
Qed.

(** ** C3. Interpreters over a scheduled stream *)

(** [run] with every [RdExact] replaced by the loop.  Seeks and [stream_position] are single
    calls that consume no schedule event ([Interrupted] is retried only by the two loops).
    [c] counts the raw [read] calls. *)
Fixpoint run_sched_c {A} (p : prog A) (s : stream) (sc : list ev) (c : N)
  : res A * stream * (list ev * N) :=
  match p with
  | Ret a => (Ok a, s, (sc, c))
  | Throw e => (Err e, s, (sc, c))
  | Crash x => (Panic x, s, (sc, c))
  | Spin => (OutOfFuel, s, (sc, c))
  | RdExact n k =>
      match rx sc n s [] c with
      | (Some h, s', (sc', c')) => run_sched_c (k h) s' sc' c'
      | (None, s', scc) => (Err EIo, s', scc)
      end
  | SeekTo q k => run_sched_c k (seek_abs s q) sc c
  | SeekRel d k =>
      match seek_cur s d with
      | Some s' => run_sched_c k s' sc c
      | None => (Err EIo, s, (sc, c))
      end
  | GetPos k => run_sched_c (k (s_pos s)) s sc c
  | Alloc _ k => run_sched_c k s sc c
  | Step k => run_sched_c k s sc c
  end.

(** Result, final stream, (remaining schedule, number of raw [read] calls). *)
Definition run_sched {A} (p : prog A) (s : stream) (sched : list ev)
  : res A * stream * (list ev * N) := run_sched_c p s sched 0.

Fixpoint wrun_sched_c {A} (p : wprog A) (w : wstream) (sc : list ev) (c : N)
  : res A * wstream * (list ev * N) :=
  match p with
  | WRet a => (Ok a, w, (sc, c))
  | WThrow e => (Err e, w, (sc, c))
  | WCrash x => (Panic x, w, (sc, c))
  | WrAll l k =>
      match wx sc l w c with
      | (true, w', (sc', c')) => wrun_sched_c k w' sc' c'
      | (false, w', scc) => (Err EIo, w', scc)                 (* WriteZero *)
      end
  | WSeekTo q k => wrun_sched_c k (mkW (w_base w) (w_buf w) q) sc c
  | WGetPos k => wrun_sched_c (k (w_pos w)) w sc c
  end.

(** Result, final stream, (remaining schedule, number of raw [write] calls). *)
Definition wrun_sched {A} (p : wprog A) (w : wstream) (sched : list ev)
  : res A * wstream * (list ev * N) := wrun_sched_c p w sched 0.

(** *** Reads *)

Lemma short_reads_transparent_c {A} (p : prog A) : forall s sc c,
  stream_wf s -> fst (run_sched_c p s sc c) = run p s.
Proof.
  induction p as [a|e|x| |n k IH|q k IH|d k IH|k IH|n k IH|k IH]; intros s sc c Hs;
    cbn [run_sched_c run fst]; auto.
  - pose proof (rx_spec_gen sc n s [] c) as Hrx.
    destruct (rx sc n s [] c) as [[o s'] [sc' c']]. cbn [fst] in Hrx.
    destruct (N.eqb_spec n 0) as [->|Hn].
    + rewrite splitN_0 in Hrx. inversion Hrx; subst. cbn [app].
      rewrite IH;
        [|destruct s as [d0 ln0 p0 v0]; cbn [s_data s_len s_pos s_view]; rewrite N.add_0_r; exact Hs].
      destruct s as [d0 ln0 p0 v0]; cbn [s_data s_len s_pos s_view]. now rewrite N.add_0_r.
    + destruct (splitN n (s_view s)) as [[h r]|] eqn:E; inversion Hrx; subst; cbn [app].
      * apply IH. destruct Hs as [Hl Hv]. split; cbn [s_data s_len s_pos s_view]; auto.
        apply splitN_dropN in E. rewrite E, Hv, dropN_dropN. f_equal. lia.
      * cbn [fst]. unfold eof_stream. destruct Hs as [Hl Hv].
        do 2 f_equal. rewrite Hv, dropN_lenN, Hl. lia.
  - apply IH. now apply seek_abs_wf.
  - destruct (seek_cur s d) as [s'|] eqn:E; [|reflexivity].
    apply IH. unfold seek_cur in E.
    destruct ((Z.of_N (s_pos s) + d <? 0) || (Z.of_N U64 <=? Z.of_N (s_pos s) + d))%Z;
      [discriminate|]. inversion E; subst. now apply seek_abs_wf.
Qed.

(** Every reader program, on every well-formed stream, under every schedule of short and
    interrupted raw calls: same result AND same final stream (data, position, rest) as under
    [run], also when the run fails (in particular at an [UnexpectedEof], where both leave the
    stream at its end). *)
Theorem short_reads_transparent : forall A (p : prog A) s sched,
  stream_wf s -> fst (run_sched p s sched) = run p s.
Proof. intros A p s sched Hs. unfold run_sched. now apply short_reads_transparent_c. Qed.

(** [stream_wf] is needed only for the final stream after an [UnexpectedEof]: [run] then puts the
    position at [max pos s_len], the loop at [pos + bytes that were available]; these agree when
    [s_len] and [s_view] describe the same data (every [stream_at] stream, and every stream
    [run] reaches from one: [run_wf]).  On an ill-formed record they differ: *)
Example short_reads_needs_wf :
  let s := mkStream [] 5 0 [1] in
  run (rd_exact 2) s = (Err EIo, mkStream [] 5 5 [])
  /\ fst (run_sched (rd_exact 2) s []) = (Err EIo, mkStream [] 5 1 []).
Proof. vm_compute. split; reflexivity. Qed.

(** *** Writes *)

(** [wseeks_in_range p w]: along the run of [p] from [w], no [seek] goes before the stream
    position [w_base w] at which the modelled buffer starts.  (The model does not hold the bytes
    before [w_base]; a position before it is mapped to offset [0] by the truncated subtraction
    in [wrun], so there two consecutive writes would not land at consecutive offsets.  This is
    an artefact of [wstream], not of the library.)  It holds for every program when
    [w_base w = 0] ([wseeks_in_range_base0]). *)
Fixpoint wseeks_in_range {A} (p : wprog A) (w : wstream) : Prop :=
  match p with
  | WrAll l k =>
      wseeks_in_range k (match l with [] => w | _ :: _ => raw_write l w end)
  | WSeekTo q k => w_base w <= q /\ wseeks_in_range k (mkW (w_base w) (w_buf w) q)
  | WGetPos k => wseeks_in_range (k (w_pos w)) w
  | _ => True
  end.

Lemma wseeks_in_range_base0 {A} (p : wprog A) : forall w, w_base w = 0 -> wseeks_in_range p w.
Proof.
  induction p as [a|e|x|l k IH|q k IH|k IH]; intros w Hw; cbn [wseeks_in_range]; auto.
  - apply IH. destruct l; auto.
  - split; [lia|]. now apply IH.
Qed.

Lemma short_writes_transparent_c {A} (p : wprog A) : forall w sc c,
  w_base w <= w_pos w -> wseeks_in_range p w -> fst (wrun_sched_c p w sc c) = wrun p w.
Proof.
  induction p as [a|e|x|l k IH|q k IH|k IH]; intros w sc c Hb Hr;
    cbn [wrun_sched_c wrun fst wseeks_in_range] in *; auto.
  - pose proof (wx_spec sc l w c Hb) as Hwx.
    destruct (wx sc l w c) as [[ok w'] [sc' c']]. cbn [fst] in Hwx. inversion Hwx; subst.
    destruct l as [|b l].
    + now apply IH.
    + apply IH; [cbn [raw_write w_base w_pos]; lia | exact Hr].
  - destruct Hr as [Hq Hr]. now apply IH.
Qed.

(** General form: a stream with any base, provided the position starts, and every seek of
    the run stays, at or after the base. *)
Theorem short_writes_transparent_gen : forall A (p : wprog A) w sched,
  w_base w <= w_pos w -> wseeks_in_range p w -> fst (wrun_sched p w sched) = wrun p w.
Proof. intros A p w sched Hb Hr. unfold wrun_sched. now apply short_writes_transparent_c. Qed.

(** Every writer program, on every stream whose buffer starts at position 0, under every
    schedule of short and interrupted raw calls: same result, buffer and position as under
    [wrun] (and the [WriteZero] branch of the loop is never taken). *)
Theorem short_writes_transparent : forall A (p : wprog A) w sched,
  w_base w = 0 -> fst (wrun_sched p w sched) = wrun p w.
Proof.
  intros A p w sched Hw. apply short_writes_transparent_gen; [lia|].
  now apply wseeks_in_range_base0.
Qed.

(** Without the condition the statement is false, for the reason given at [wseeks_in_range]:
    base 10, position 0, three bytes written as 1 + 2. *)
Example short_writes_needs_range :
  let w := mkW 10 [0; 0; 0] 0 in
  wrun (wr [1; 2; 3]) w = (Ok tt, mkW 10 [1; 2; 3] 3)
  /\ fst (wrun_sched (wr [1; 2; 3]) w [Short 1]) = (Ok tt, mkW 10 [2; 3; 0] 3).
Proof. vm_compute. split; reflexivity. Qed.

(** ** Non-vacuity *)

Definition ex_sched : list ev := [Short 1; Intr; Short 2; Intr; Intr; Short 1].
Definition ex_data : bytes := [10; 11; 12; 13; 14; 15; 16; 17; 18; 19].
Definition ex_read (a b : N) : prog (bytes * bytes) :=
  x <- rd_exact a ;; y <- rd_exact b ;; Ret (x, y).

(** Reading 3 then 5 bytes.  Raw calls: [Short 1] 1 byte, [Intr], [Short 2] 2 bytes (first
    [read_exact] done after 3 calls); [Intr], [Intr], [Short 1] 1 byte, then the schedule is
    exhausted and one call brings the remaining 4 bytes: 7 raw calls for 2 [read_exact]s, same
    bytes and same final stream as the plain run. *)
Example ex_read_3_5 :
  run_sched (ex_read 3 5) (stream_at ex_data 0) ex_sched =
    (Ok ([10; 11; 12], [13; 14; 15; 16; 17]), mkStream ex_data 10 8 [18; 19], ([], 7))
  /\ run (ex_read 3 5) (stream_at ex_data 0) =
    (Ok ([10; 11; 12], [13; 14; 15; 16; 17]), mkStream ex_data 10 8 [18; 19]).
Proof. vm_compute. split; reflexivity. Qed.

(** One byte per call: 8 raw calls, 2 events left. *)
Example ex_read_bytewise :
  run_sched (ex_read 3 5) (stream_at ex_data 0) (repeat (Short 0) 10) =
    (Ok ([10; 11; 12], [13; 14; 15; 16; 17]), mkStream ex_data 10 8 [18; 19],
     ([Short 0; Short 0], 8)).
Proof. vm_compute. reflexivity. Qed.

(** Reading 3 then 9 bytes of 10: the second loop gets 1 + 6 bytes, then [Ok(0)]:
    [UnexpectedEof] after 3 + 5 raw calls, the stream left at its end, as under [run]. *)
Example ex_read_eof :
  run_sched (ex_read 3 9) (stream_at ex_data 0) ex_sched = (Err EIo, mkStream ex_data 10 10 [], ([], 8))
  /\ run (ex_read 3 9) (stream_at ex_data 0) = (Err EIo, mkStream ex_data 10 10 []).
Proof. vm_compute. split; reflexivity. Qed.

(** Writing 3 then 5 bytes over a 2-byte buffer, then patching the first byte: 3 + 4 + 1 raw
    calls, same buffer and position. *)
Definition ex_write : wprog N :=
  (wr [1; 2; 3] ;;; wr [4; 5; 6; 7; 8] ;;; p <- wpos ;; wseek 0 ;;; wr [9] ;;; WRet p)%wprog.
Example ex_write_3_5 :
  wrun_sched ex_write (mkW 0 [0; 0] 0) ex_sched = (Ok 8, mkW 0 [9; 2; 3; 4; 5; 6; 7; 8] 1, ([], 8))
  /\ wrun ex_write (mkW 0 [0; 0] 0) = (Ok 8, mkW 0 [9; 2; 3; 4; 5; 6; 7; 8] 1).
Proof. vm_compute. split; reflexivity. Qed.

Print Assumptions rx_spec.
Print Assumptions write_at_app.
Print Assumptions short_reads_transparent.
Print Assumptions short_writes_transparent_gen.
Print Assumptions short_writes_transparent.
