(** * End to end: the reader opens what the muxer wrote, byte for byte

    [mux_bytes] (WriterMoov.v) is everything the muxer has written when [write_end] returns:
    [mf_out f ++ wout (enc_moov m mv)].  This file proves that [open_fuel] (the model of
    [Mp4Reader::read_header]) on exactly those bytes succeeds, which reader it returns, and that
    the reader's accessors and sample calls return the configuration and the samples of the muxing
    history.  It composes:
      - C13/C14 (MuxTotal.v): the layout of [mf_out f] (ftyp, mdat header in either size form, payload);
      - C01 (MuxInv.v, MuxReadback.v): the tables of every finished track are [consistent] and the lookups on them return the history;
      - C04 (RtFtyp.v, RtMoov.v and everything below): [ftyp] and [moov] round trips against the ISO layouts;
      - C12's loop theorem on consistent streams (LayoutOpenS.v);
      - MuxMoovConf.v / MuxMoovTables.v: the boxes the muxer builds are representable, and the two places where the value the
        reader returns differs from the value the muxer holds in memory (never on the wire): stsc [first_sample] (re-derived by the
        decoder) and avcC [length_size_minus_one] (0xff in [AvcCBox::new], two bits on the wire). *)
From MP4 Require Import MuxMoovDefs MuxMoovTables MuxMoovConf MuxOpenKit MuxOpenFacts LayoutOpenS.
From MP4 Require Import MuxProofs MuxInv MuxTotal MuxReadback LookupProofs IsoFile.
From MP4 Require Import LayoutKit LayoutProofs LayoutMore LayoutOpen KitCont RtMoov RtFtyp IsoFtyp IsoMoov RtStbl RtMinf RtMdia RtTrak.
From Coq Require Import Lia ZifyN ZifyNat ZifyBool.
Open Scope string_scope.
Open Scope list_scope.
Open Scope N_scope.

(** ** Lists built element by element *)
Lemma traks_of_Forall2 m : forall tfs ts, traks_of m tfs = Ok ts ->
  Forall2 (fun tf tk => trak_of_tfinal m tf = Ok tk) tfs ts.
Proof.
  induction tfs as [|tf tfs IH]; intros ts H; cbn [traks_of] in H.
  - injection H as <-. constructor.
  - destruct (trak_of_tfinal m tf) as [tk| | |] eqn:E; try discriminate. cbn [res_bind] in H.
    destruct (traks_of m tfs) as [ts'| | |] eqn:E2; try discriminate. cbn [res_bind] in H.
    injection H as <-. constructor; [exact E | now apply IH].
Qed.

Lemma tfinals_rd_Forall2 : forall tfs tfs', tfinals_rd tfs = Some tfs' ->
  Forall2 (fun tf tf' => tfinal_rd tf = Some tf') tfs tfs'.
Proof.
  induction tfs as [|tf tfs IH]; intros tfs' H; cbn [tfinals_rd] in H.
  - injection H as <-. constructor.
  - destruct (tfinal_rd tf) as [tf'|] eqn:E; try discriminate.
    destruct (tfinals_rd tfs) as [r|] eqn:E2; try discriminate.
    injection H as <-. constructor; [exact E | now apply IH].
Qed.

Lemma tfinals_rd_some tfs : Forall (fun tf => exists tf', tfinal_rd tf = Some tf') tfs -> exists tfs', tfinals_rd tfs = Some tfs'.
Proof.
  induction 1 as [|tf tfs (tf' & E) _ (r & IH)]; cbn [tfinals_rd].
  - eexists; reflexivity.
  - rewrite E, IH. eexists; reflexivity.
Qed.

Lemma Forall2_nth {A B} (R : A -> B -> Prop) l1 l2 : Forall2 R l1 l2 ->
  forall i a, nth_error l1 i = Some a -> exists b, nth_error l2 i = Some b /\ R a b.
Proof.
  induction 1 as [|x y l1 l2 Hxy _ IH]; intros [|i] a H; cbn [nth_error] in *; try discriminate.
  - injection H as <-. eauto.
  - now apply IH.
Qed.

Lemma Forall2_In_r {A B} (R : A -> B -> Prop) l1 l2 b :
  Forall2 R l1 l2 -> In b l2 -> exists a, In a l1 /\ R a b.
Proof.
  induction 1 as [|x y l1 l2 Hxy _ IH]; intros Hin; [destruct Hin|].
  destruct Hin as [->|Hin].
  - exists x. split; [now left|exact Hxy].
  - destruct (IH Hin) as (a & Ha & Hr). exists a. split; [now right|exact Hr].
Qed.

Lemma Forall2_length {A B} (R : A -> B -> Prop) l1 l2 : Forall2 R l1 l2 -> length l1 = length l2.
Proof. induction 1; cbn [length]; congruence. Qed.

(** ** The finished track as the reader will see it *)
Lemma tfinal_rd_fields tf tf' : tfinal_rd tf = Some tf' ->
  exists es, derive_first_samples (t_stsc (tf_tables tf)) 1 = Some es /\ tf' = tfinal_with_stsc tf es.
Proof.
  unfold tfinal_rd. destruct (derive_first_samples (t_stsc (tf_tables tf)) 1) as [es|]; [|discriminate].
  cbn [option_map]. intros H. injection H as <-. eauto.
Qed.

(** the shape of the trak the muxer builds *)
Lemma trak_of_tfinal_shape m tf tk : trak_of_tfinal m tf = Ok tk ->
  exists sd, stsd_of_conf (tc_media (tf_conf tf)) = Ok sd /\
    tk = mkTrak (tkhd_of_tfinal tf) None None
           (mkMdia (mdhd_of_tfinal tf) (hdlr_of_tfinal tf)
              (mkMinf (vmhd_of_conf (tc_media (tf_conf tf))) (smhd_of_conf (tc_media (tf_conf tf))) dinf_default
                      (stbl_of_tfinal sd tf))).
Proof.
  unfold trak_of_tfinal. destruct (stsd_of_conf (tc_media (tf_conf tf))) as [sd| | |]; try discriminate.
  cbn [res_bind]. intros H. injection H as <-. eauto.
Qed.

Lemma tkhd_of_tfinal_id tf : tkhd_track_id (tkhd_of_tfinal tf) = tf_track_id tf.
Proof. unfold tkhd_of_tfinal, tkhd_set_dims. destruct (tc_media (tf_conf tf)); reflexivity. Qed.

Lemma stbl_tables_wf_rd s : stbl_tables_wf (stbl_rd s) = stbl_tables_wf s.
Proof. destruct s as [a0 a1 a2 a3 a4 a5 a6 a7]. unfold stbl_rd. cbn [stbl_stsd stbl_stts stbl_ctts stbl_stss stbl_stsc stbl_stsz stbl_stco stbl_co64]. apply stbl_tables_wf_stsd. Qed.

(** one read-back trak is well formed for the container round trip *)
Lemma trak_rd_wf m tf es tk :
  conf_check (tf_conf tf) = Ok tt -> conf_rep (tf_conf tf) = true -> ufit 4 (tf_track_id tf) = true ->
  whdr_ok (tf_hdr tf) ->
  consistent (tf_tables tf) = true -> stsz_shape (tf_tables tf) = true -> co64_shape (tf_tables tf) = true ->
  derive_first_samples (t_stsc (tf_tables tf)) 1 = Some es ->
  trak_of_tfinal m (tfinal_with_stsc tf es) = Ok tk -> trak_size tk < U32 ->
  trak_rt_wf (trak_rd tk) = true.
Proof.
  intros Hc Hr Hid Hh Hcons Hsz Hco Hes Htk Hsize.
  destruct (trak_of_tfinal_shape _ _ _ Htk) as (sd & Hsd & ->).
  change (tf_conf (tfinal_with_stsc tf es)) with (tf_conf tf) in *.
  destruct (conf_boxes_wf tf sd Hc Hr Hid Hh Hsd) as (W1 & W2 & W3 & W4 & W5 & W6 & W7).
  pose proof (stbl_le_trak_size (mkTrak (tkhd_of_tfinal (tfinal_with_stsc tf es)) None None
           (mkMdia (mdhd_of_tfinal (tfinal_with_stsc tf es)) (hdlr_of_tfinal (tfinal_with_stsc tf es))
              (mkMinf (vmhd_of_conf (tc_media (tf_conf tf))) (smhd_of_conf (tc_media (tf_conf tf))) dinf_default
                      (stbl_of_tfinal sd (tfinal_with_stsc tf es)))))) as Hle.
  cbn [trak_mdia mdia_minf minf_stbl] in Hle.
  assert (Hstbl : stbl_size (stbl_of_tfinal sd (tfinal_with_stsc tf es)) < U32) by lia.
  pose proof (stbl_of_tfinal_wf sd tf es Hcons Hsz Hco Hes Hstbl) as Wt.
  unfold trak_rt_wf, trak_rd. cbn [trak_tkhd trak_edts trak_meta trak_mdia].
  change (tkhd_of_tfinal (tfinal_with_stsc tf es)) with (tkhd_of_tfinal tf).
  rewrite W1. cbn [andb].
  unfold mdia_rt_wf, mdia_rd. cbn [mdia_mdhd mdia_hdlr mdia_minf].
  change (mdhd_of_tfinal (tfinal_with_stsc tf es)) with (mdhd_of_tfinal tf).
  change (hdlr_of_tfinal (tfinal_with_stsc tf es)) with (hdlr_of_tfinal tf).
  rewrite W2, W3. cbn [andb].
  unfold minf_rt_wf, minf_rd. cbn [minf_vmhd minf_smhd minf_dinf minf_stbl].
  rewrite W6.
  assert (Hv : match vmhd_of_conf (tc_media (tf_conf tf)) with Some x => vmhd_wf x | None => true end = true)
    by (destruct (vmhd_of_conf (tc_media (tf_conf tf))); auto).
  assert (Hs : match smhd_of_conf (tc_media (tf_conf tf)) with Some x => smhd_wf x | None => true end = true)
    by (destruct (smhd_of_conf (tc_media (tf_conf tf))); auto).
  rewrite Hv, Hs. cbn [andb].
  rewrite stbl_rt_wf_split, stbl_tables_wf_rd, Wt, andb_true_r.
  unfold stbl_rd. cbn [stbl_stsd]. unfold stbl_of_tfinal at 1. cbn [stbl_stsd].
  change (tf_max_sample_size (tfinal_with_stsc tf es)) with (tf_max_sample_size tf). exact W7.
Qed.

Lemma consistent_derives tb : consistent tb = true -> exists es, derive_first_samples (t_stsc tb) 1 = Some es.
Proof.
  intros Hc. destruct (lk_lookup_sound Dbg tb Hc) as (t & Ht & _). unfold lk_track_of in Ht.
  destruct (derive_first_samples (t_stsc tb) 1) as [es|]; [eauto|discriminate].
Qed.

Lemma ufit4_lt x : x < U32 -> ufit 4 x = true.
Proof. intros H. unfold ufit. apply N.ltb_lt. change (2 ^ (8 * N.of_nat 4)) with U32. exact H. Qed.

Section MuxOpen.
  Variables (m m' : mode) (cfg : mp4_conf) (ops : list mux_op) (cls : list rclass) (f : mfinal) (mv : moov).
  Hypothesis Hrun : run_mux m 0 cfg ops = Ok (cls, f).
  Hypothesis Hty : ops_typed ops = true.
  Hypothesis Hlen : lenN (mf_out f) + moov_size mv < 2 ^ 63.     (* the output is shorter than 2^63 bytes *)
  Hypothesis Hn : lenN (added_confs ops) < U32MAX.
  Hypothesis Hcfg : mp4_conf_rep cfg = true.
  Hypothesis Hconfs : forallb conf_rep (added_confs ops) = true.
  Hypothesis Hmv : moov_of_mfinal m f = Ok mv.
  Hypothesis Hsz : moov_size mv < U32.

  Lemma Hfit : history_fits 0 cfg ops cls = true.
  Proof.
    destruct (mux_out_length _ _ _ _ _ _ Hrun Hty) as (_ & E). unfold history_fits. apply N.ltb_lt.
    change (2 ^ 63) with 9223372036854775808 in *. lia.
  Qed.

  Lemma mo_pre : mux_pre 0 cfg ops.
  Proof. exact (mux_pre_of 0 cfg ops cls Hty Hfit Hn). Qed.

  (** everything known about finished track [i] *)
  Record track_facts (i : nat) (tf : tfinal) : Prop := mkTrackFacts {
    tfa_id : tf_track_id tf = N.of_nat i + 1;
    tfa_idfit : ufit 4 (tf_track_id tf) = true;
    tfa_conf : nth_error (added_confs ops) i = Some (tf_conf tf);
    tfa_check : conf_check (tf_conf tf) = Ok tt;
    tfa_rep : conf_rep (tf_conf tf) = true;
    tfa_hdr : whdr_ok (tf_hdr tf);
    tfa_cons : consistent (tf_tables tf) = true;
    tfa_count : t_stsz_count (tf_tables tf) = lenN (accepted_samples ops cls (N.of_nat i + 1));
    tfa_stsz : stsz_shape (tf_tables tf) = true;
    tfa_co64 : co64_shape (tf_tables tf) = true }.

  Lemma mo_track_facts i tf : nth_error (mf_tracks f) i = Some tf -> track_facts i tf.
  Proof.
    intros Hi. pose proof mo_pre as Hpre.
    destruct (mux_track_ids _ _ _ _ _ _ Hpre Hrun i tf Hi) as (Hid & Hconf & Hcheck).
    destruct (c14_config_lemma _ _ _ _ _ _ Hpre Hrun) as (_ & Hcs & _).
    destruct (c13_versions_lemma _ _ _ _ _ _ Hpre Hrun) as (Hv & _).
    destruct (Hv i tf Hi) as (_ & V1 & V2 & V3 & V4).
    destruct (mux_fidelity_history _ _ _ _ _ _ Hrun Hty Hfit i tf Hi) as (Hc & Hcnt & _).
    destruct (mux_tables_shape _ _ _ _ _ _ Hrun Hty tf (nth_error_In _ _ Hi)) as (S1 & S2).
    assert (Hlt : (i < length (added_confs ops))%nat) by (apply nth_error_Some; rewrite Hconf; discriminate).
    constructor; auto.
    - rewrite Hid. apply ufit4_lt. unfold lenN, U32MAX, U32 in *. lia.
    - rewrite forallb_forall in Hconfs. apply Hconfs. exact (nth_error_In _ _ Hconf).
    - repeat split; assumption.
  Qed.

  (** ** The read-back form of the finished movie exists *)
  Lemma mo_rd_exists : exists f', mfinal_rd f = Some f'.
  Proof.
    unfold mfinal_rd.
    destruct (tfinals_rd_some (mf_tracks f)) as (tfs' & E).
    - apply Forall_forall. intros tf Hin. apply In_nth_error in Hin as (i & Hi).
      pose proof (mo_track_facts i tf Hi) as F.
      destruct (consistent_derives _ (tfa_cons _ _ F)) as (es & Hes).
      unfold tfinal_rd. rewrite Hes. eexists; reflexivity.
    - rewrite E. eexists; reflexivity.
  Qed.

  (** ** The moov the reader will return: well formed for the round trip, same bytes *)
  Lemma mo_moov_rd : exists f' mv1,
    mfinal_rd f = Some f' /\ moov_of_mfinal m f' = Ok mv1 /\
    enc_moov m (moov_rd mv1) = enc_moov m mv /\ moov_size (moov_rd mv1) = moov_size mv /\
    moov_rt_wf (moov_rd mv1) = true.
  Proof.
    destruct mo_rd_exists as (f' & Hf').
    destruct (enc_moov_rd m f f' mv Hf' Hmv) as (mv1 & Hmv1 & Henc & Hsize).
    exists f', mv1. split; [exact Hf'|]. split; [exact Hmv1|].
    split; [rewrite moov_rd_enc; exact Henc|]. split; [rewrite moov_rd_size; exact Hsize|].
    (* well-formedness *)
    unfold mfinal_rd in Hf'. destruct (tfinals_rd (mf_tracks f)) as [tfs'|] eqn:Etf; [|discriminate].
    cbn [option_map] in Hf'. injection Hf' as <-.
    unfold moov_of_mfinal in Hmv1. cbn [mf_tracks mfinal_with_tracks] in Hmv1.
    destruct (traks_of m tfs') as [ts| | |] eqn:Ets; try discriminate. cbn [res_bind] in Hmv1.
    injection Hmv1 as <-.
    unfold moov_rt_wf, moov_rd. cbn [moov_mvhd moov_meta moov_mvex moov_traks moov_udta].
    assert (Wm : mvhd_wf (mvhd_of_mfinal (mfinal_with_tracks f tfs')) = true).
    { destruct (c13_versions_lemma _ _ _ _ _ _ mo_pre Hrun) as (_ & V1 & V2).
      destruct (c14_config_lemma _ _ _ _ _ _ mo_pre Hrun) as (_ & _ & _ & Ht & _).
      apply mfinal_mvhd_wf; cbn [mf_mvhd_timescale mf_mvhd_duration mf_mvhd_version mfinal_with_tracks]; auto.
      rewrite Ht. unfold mp4_conf_rep in Hcfg. apply andb_true_iff in Hcfg as [Hc _].
      apply andb_true_iff in Hc as [_ Hc]. exact Hc. }
    rewrite Wm. cbn [andb]. rewrite andb_true_r.
    apply forallb_forall. intros tk' Hin. apply in_map_iff in Hin as (tk & <- & Hin).
    pose proof (traks_of_Forall2 m _ _ Ets) as F2.
    destruct (Forall2_In_r _ _ _ _ F2 Hin) as (tf' & Hin' & Htk).
    pose proof (tfinals_rd_Forall2 _ _ Etf) as F1.
    destruct (Forall2_In_r _ _ _ _ F1 Hin') as (tf & Hintf & Hrd).
    apply In_nth_error in Hintf as (i & Hi).
    pose proof (mo_track_facts i tf Hi) as F.
    destruct (tfinal_rd_fields _ _ Hrd) as (es & Hes & ->).
    apply (trak_rd_wf m tf es tk); try (apply F); auto.
    (* size *)
    assert (Hle : trak_size tk <= moov_size (mkMoov (mvhd_of_mfinal (mfinal_with_tracks f tfs')) None None ts None)).
    { apply trak_in_moov_size. exact Hin. }
    lia.
  Qed.

  (** ** The complete output is the rendering of three top-level boxes *)
  Definition mo_bytes : bytes := mf_out f ++ wout (enc_moov m mv).

  Definition mo_children (big : bool) (payload : bytes) (mv2 : moov) : list child :=
    [ mkChild false 0x66747970 (iso_ftyp_payload (ftyp_of_conf cfg));
      mkChild big MDAT (if big then payload else be 4 8 ++ be 4 WIDE ++ payload);
      mkChild false 0x6d6f6f76 (iso_moov_payload mv2) ].

  Lemma mo_layout mv2 : enc_moov m mv2 = enc_moov m mv -> moov_size mv2 = moov_size mv -> moov_rt_wf mv2 = true ->
    exists big payload,
      mo_bytes = render (mo_children big payload mv2) /\
      Forall child_wf (mo_children big payload mv2) /\
      total_len (mo_children big payload mv2) = lenN mo_bytes.
  Proof.
    intros Henc Hsize Hwf.
    assert (Hsz2 : moov_size mv2 < U32) by (rewrite Hsize; exact Hsz).
    destruct (moov_roundtrip m mv2 Hwf Hsz2) as (_ & _ & Hout & Hplen & _).
    destruct (conf_ftyp_wf cfg Hcfg) as (Fw & Fs & Fb).
    destruct (ftyp_roundtrip (ftyp_of_conf cfg) Fw Fs) as (_ & _ & _ & Fplen & _).
    destruct (mux_out_length _ _ _ _ _ _ Hrun Hty) as (Hb0 & Hol).
    assert (H64 : mf_base f + lenN (mf_out f) < U64).
    { rewrite Hb0. unfold U64. change (2 ^ 63) with 9223372036854775808 in Hlen.
      change (2 ^ 64) with 18446744073709551616. lia. }
    destruct (c13_mdat_lemma _ _ _ _ _ _ mo_pre Hrun H64) as (_ & _ & _ & (Hs16 & Hs64) & payload & Hsp & Hmo & _).
    set (big := U32MAX <? mf_mdat_size f) in *.
    exists big, payload.
    assert (Hrender : mo_bytes = render (mo_children big payload mv2)).
    { unfold mo_bytes. rewrite <- Henc, Hout, Hmo, Fb.
      unfold mo_children, render. cbn [flat_map]. rewrite app_nil_r.
      unfold c_bytes, c_hdr. cbn [c_w64 c_code c_payload].
      unfold hdr32, hdr64.
      replace (8 + lenN (iso_ftyp_payload (ftyp_of_conf cfg))) with (ftyp_size (ftyp_of_conf cfg)) by (clear -Fplen; lia).
      replace (8 + lenN (iso_moov_payload mv2)) with (moov_size mv2) by (clear -Hplen; lia).
      destruct big.
      - replace (16 + lenN payload) with (mf_mdat_size f) by (clear -Hsp; lia).
        rewrite <- !app_assoc. reflexivity.
      - replace (8 + lenN (be 4 8 ++ be 4 WIDE ++ payload)) with (mf_mdat_size f)
          by (rewrite !lenN_app, !lenN_be; change (N.of_nat 4) with 4; clear -Hsp; lia).
        rewrite <- !app_assoc. reflexivity. }
    split; [exact Hrender|]. split.
    - assert (Hc1 : 0x66747970 < U32) by (vm_compute; reflexivity).
      assert (Hc2 : MDAT < U32) by (vm_compute; reflexivity).
      assert (Hc3 : 0x6d6f6f76 < U32) by (vm_compute; reflexivity).
      unfold mo_children. apply Forall_cons; [|apply Forall_cons; [|apply Forall_cons; [|apply Forall_nil]]];
        unfold child_wf; cbn [c_w64 c_code c_payload]; (split; [assumption|]).
      + clear -Fplen Fs. lia.
      + destruct big eqn:Eb.
        * clear -Hsp Hs64. lia.
        * unfold big in Eb. apply N.ltb_ge in Eb. rewrite !lenN_app, !lenN_be.
          change (N.of_nat 4) with 4. unfold U32MAX in Eb. clear -Eb Hsp. lia.
      + clear -Hplen Hsz2. lia.
    - rewrite Hrender. symmetry. apply lenN_render.
  Qed.

  (** ** Opening the output *)
  Lemma mo_trak_ids f' mv1 : mfinal_rd f = Some f' -> moov_of_mfinal m f' = Ok mv1 ->
    map trak_id (moov_traks (moov_rd mv1)) = map tf_track_id (mf_tracks f).
  Proof.
    intros Hf' Hmv1.
    unfold mfinal_rd in Hf'. destruct (tfinals_rd (mf_tracks f)) as [tfs'|] eqn:Etf; [|discriminate].
    cbn [option_map] in Hf'. injection Hf' as <-.
    unfold moov_of_mfinal in Hmv1. cbn [mf_tracks mfinal_with_tracks] in Hmv1.
    destruct (traks_of m tfs') as [ts| | |] eqn:Ets; try discriminate. cbn [res_bind] in Hmv1.
    injection Hmv1 as <-. cbn [moov_rd moov_traks].
    pose proof (traks_of_Forall2 m _ _ Ets) as F2. pose proof (tfinals_rd_Forall2 _ _ Etf) as F1.
    clear -F1 F2. revert ts F2. induction F1 as [|tf tf' l l' Hrd _ IH]; intros ts F2; inversion F2 as [|? tk ? ts' Htk F2']; subst.
    - reflexivity.
    - cbn [map]. f_equal; [|now apply IH].
      destruct (tfinal_rd_fields _ _ Hrd) as (es & _ & ->).
      destruct (trak_of_tfinal_shape _ _ _ Htk) as (sd & _ & ->).
      unfold trak_id, trak_rd. cbn [trak_tkhd]. exact (tkhd_of_tfinal_id (tfinal_with_stsc tf es)).
  Qed.

  Theorem mo_open : exists f' mv1,
    mfinal_rd f = Some f' /\ moov_of_mfinal m f' = Ok mv1 /\
    let mv2 := moov_rd mv1 in
    let r := mkReader (ftyp_of_conf cfg) mv2 [] [] (map (fun t => (trak_id t, mp4track_from t)) (moov_traks mv2)) (lenN mo_bytes) in
    forall fuel, (moov_fuel mv2 + 3 <= fuel)%nat ->
      run (open_fuel fuel m' (lenN mo_bytes)) (stream_at mo_bytes 0) = (Ok r, stream_at mo_bytes (lenN mo_bytes)).
  Proof.
    destruct mo_moov_rd as (f' & mv1 & Hf' & Hmv1 & Henc & Hsize & Hwf).
    exists f', mv1. split; [exact Hf'|]. split; [exact Hmv1|]. intros mv2 r fuel Hfuel.
    destruct (mo_layout mv2 Henc Hsize Hwf) as (big & payload & Hren & Hcwf & Htot).
    assert (Hsz2 : moov_size mv2 < U32) by (unfold mv2; rewrite Hsize; exact Hsz).
    destruct (conf_ftyp_wf cfg Hcfg) as (Fw & Fs & _).
    assert (Hlb : lenN mo_bytes < 2 ^ 63).
    { unfold mo_bytes. rewrite lenN_app.
      destruct (moov_roundtrip m mv2 Hwf Hsz2) as (_ & _ & Hout & Hplen & _).
      rewrite <- Henc. fold mv2. rewrite Hout, !lenN_app, !lenN_be. change (N.of_nat 4) with 4.
      unfold mv2 in *. rewrite Hsize in Hplen. clear -Hplen Hlen. lia. }
    pose proof (open_fuel_children_s m' fuel (mo_children big payload mv2)
                  [OI_ftyp (ftyp_of_conf cfg); OI_skip; OI_moov mv2] (moov_fuel mv2) mo_bytes (lenN mo_bytes) 0 []) as Hopen.
    rewrite N.add_0_l, app_nil_r, Htot, <- Hren in Hopen.
    unfold stream_at. rewrite dropN_0.
    rewrite Hopen; clear Hopen.
    - (* the result *)
      f_equal.
      + unfold mo_children, open_put_all, open_put. cbn [open_result].
        assert (Hids : map trak_id (moov_traks mv2) = map tf_track_id (mf_tracks f)) by (apply (mo_trak_ids f' mv1); assumption).
        destruct (mux_ids_nodup _ _ _ _ _ _ mo_pre Hrun) as (_ & Hnd & Hn0).
        assert (Hex : existsb (fun t => tkhd_track_id (trak_tkhd t) =? 0) (moov_traks mv2) = false).
        { apply Bool.not_true_is_false. intros E. apply existsb_exists in E as (t & Hin & Et).
          apply N.eqb_eq in Et. apply Hn0. rewrite <- Hids. rewrite <- Et. apply (in_map trak_id). exact Hin. }
        rewrite Hex. cbn [res_bind]. rewrite tracks_collect_nodup by (rewrite Hids; exact Hnd). reflexivity.
      + f_equal. symmetry. apply dropN_all. lia.
    - (* children decode *)
      unfold mo_children. constructor; [|constructor; [|constructor; [|constructor]]].
      + apply decodes_to_s_mono with (F0 := 0%nat); [lia|]. apply decodes_to_s_of. now apply open_child_ftyp.
      + apply decodes_to_s_mono with (F0 := 0%nat); [lia|]. apply decodes_to_s_of. apply open_child_mdat.
      + apply (open_child_moov_rt m' false m); assumption.
    - exact Hcwf.
    - unfold mo_children. cbn [length]. lia.
    - exact Hlb.
    - rewrite dropN_0. reflexivity.
  Qed.

  (** ** The tracks of the reader and what its calls return *)
  Definition mo_reader (mv1 : moov) : mp4reader :=
    let mv2 := moov_rd mv1 in
    mkReader (ftyp_of_conf cfg) mv2 [] [] (map (fun t => (trak_id t, mp4track_from t)) (moov_traks mv2)) (lenN mo_bytes).

  (** the sample [s] written as the [k]-th accepted sample of a track whose accepted samples are [ss] *)
  Definition sample_written (ss : list wsample) (k : N) (s : wsample) : Track.sample :=
    mkSample (sumN (map ws_duration (firstn (N.to_nat (k - 1)) ss)))
             (ws_duration s) (ws_rendering_offset s) (ws_is_sync s) (ws_bytes s).

  Theorem mo_tracks f' mv1 : mfinal_rd f = Some f' -> moov_of_mfinal m f' = Ok mv1 ->
    let r := mo_reader mv1 in
    map fst (rd_tracks r) = map N.of_nat (seq 1 (length (mf_tracks f))) /\
    (forall tid, ~ In tid (map fst (rd_tracks r)) -> tracks_get tid (rd_tracks r) = None) /\
    forall i tf, nth_error (mf_tracks f) i = Some tf ->
      let tid := N.of_nat i + 1 in
      let ss := accepted_samples ops cls tid in
      exists t, tracks_get tid (rd_tracks r) = Some t /\
        conf_survives (tf_conf tf) tid t /\
        rd_sample_count r tid = Ok (lenN ss) /\
        (forall k s, nth1 ss k = Some s ->
           (exists off, rd_sample_offset m' r tid k = Ok off /\
                        16 + lenN (ftyp_bytes cfg) <= off /\ off + lenN (ws_bytes s) <= lenN (mf_out f)) /\
           forall pos, fst (run (rd_read_sample m' r tid k) (stream_at mo_bytes pos)) = Ok (Some (sample_written ss k s))) /\
        (forall k, k = 0 \/ lenN ss < k ->
           forall st, match fst (run (rd_read_sample m' r tid k) st) with
                      | Ok (Some _) => False
                      | Panic _ => False
                      | _ => True
                      end).
  Proof.
    intros Hf' Hmv1 r.
    pose proof (mo_trak_ids f' mv1 Hf' Hmv1) as Hids.
    destruct (mux_ids_nodup _ _ _ _ _ _ mo_pre Hrun) as (Hseq & Hnd & _).
    assert (Hfst : map fst (rd_tracks r) = map trak_id (moov_traks (moov_rd mv1))).
    { unfold r, mo_reader. cbn [rd_tracks]. rewrite map_map. reflexivity. }
    split; [rewrite Hfst, Hids; exact Hseq|]. split.
    { intros tid Hnin. unfold r, mo_reader. cbn [rd_tracks]. apply tracks_get_map_none. rewrite <- Hfst. exact Hnin. }
    intros i tf Hi tid ss.
    pose proof (mo_track_facts i tf Hi) as F.
    (* the i-th trak of the reader *)
    unfold mfinal_rd in Hf'. destruct (tfinals_rd (mf_tracks f)) as [tfs'|] eqn:Etf; [|discriminate].
    cbn [option_map] in Hf'. injection Hf' as <-.
    unfold moov_of_mfinal in Hmv1. cbn [mf_tracks mfinal_with_tracks] in Hmv1.
    destruct (traks_of m tfs') as [ts| | |] eqn:Ets; try discriminate. cbn [res_bind] in Hmv1.
    injection Hmv1 as <-.
    destruct (Forall2_nth _ _ _ (tfinals_rd_Forall2 _ _ Etf) i tf Hi) as (tf' & Hi' & Hrd).
    destruct (Forall2_nth _ _ _ (traks_of_Forall2 m _ _ Ets) i tf' Hi') as (tk & Hik & Htk).
    destruct (tfinal_rd_fields _ _ Hrd) as (es & Hes & ->).
    assert (Hnth : nth_error (moov_traks (moov_rd (mkMoov (mvhd_of_mfinal (mfinal_with_tracks f tfs')) None None ts None))) i
                   = Some (trak_rd tk)).
    { cbn [moov_rd moov_traks]. rewrite nth_error_map, Hik. reflexivity. }
    assert (Hid : trak_id (trak_rd tk) = tid).
    { destruct (trak_of_tfinal_shape _ _ _ Htk) as (sd & _ & ->). unfold trak_id, trak_rd. cbn [trak_tkhd].
      rewrite (tkhd_of_tfinal_id (tfinal_with_stsc tf es)). exact (tfa_id _ _ F). }
    exists (mp4track_from (trak_rd tk)).
    assert (Hget : tracks_get tid (rd_tracks r) = Some (mp4track_from (trak_rd tk))).
    { unfold r, mo_reader. cbn [rd_tracks]. rewrite <- Hid.
      apply (tracks_get_map_nodup _ (eq_ind_r (fun l => NoDup l) Hnd Hids) i). exact Hnth. }
    split; [exact Hget|].
    split.
    { destruct (conf_survives_accessors_rd m tf es tk (tfa_rep _ _ F) Htk) as (_ & C).
      rewrite (tfa_id _ _ F) in C. exact C. }
    (* the lookups *)
    assert (Hview : track_view (mp4track_from (trak_rd tk)) = with_id tid (mkTrack 1 (lk_tables_of (tf_tables tf) es) [] 0)).
    { transitivity (track_view (mp4track_from tk)).
      - destruct (trak_of_tfinal_shape _ _ _ Htk) as (sd & _ & ->). reflexivity.
      - rewrite (track_view_of_tfinal m _ _ Htk). unfold with_id. cbn [tr_tables tr_frags tr_default_sample_duration tf_track_id tfinal_with_stsc tf_tables].
        rewrite (tfa_id _ _ F). reflexivity. }
    destruct (mux_then_lookup m m' 0 cfg ops cls f Hrun Hty Hfit i tf Hi) as (t0 & Ht0 & Hcnt & Hin & Hout).
    fold tid in Hcnt, Hin, Hout. fold ss in Hcnt, Hin, Hout.
    unfold lk_track_of in Ht0. rewrite Hes in Ht0. injection Ht0 as <-.
    split.
    { unfold rd_sample_count. rewrite Hget, Hview, sample_count_with_id, Hcnt. reflexivity. }
    split.
    - intros k s Hs.
      destruct (Hin k (rb_nth1_range _ _ _ Hs)) as (s0 & Hs0 & R). rewrite Hs in Hs0. injection Hs0 as <-.
      destruct R as (_ & _ & _ & _ & off & Hoff & Hlo & Hhi & Hread).
      destruct (mux_out_length _ _ _ _ _ _ Hrun Hty) as (Hb0 & _).
      destruct (c13_mdat_lemma _ _ _ _ _ _ mo_pre Hrun) as (_ & Hmp & _).
      { rewrite Hb0. destruct (mux_out_length _ _ _ _ _ _ Hrun Hty) as (_ & E). unfold U64.
        change (2 ^ 63) with 9223372036854775808 in Hlen. change (2 ^ 64) with 18446744073709551616. lia. }
      unfold rd_sample_offset, rd_read_sample. rewrite Hget, Hview, sample_offset_with_id, read_sample_with_id, Hoff.
      split.
      + exists off. split; [reflexivity|]. rewrite Hmp, Hb0 in *. split; lia.
      + intros pos. destruct (Hread [] (wout (enc_moov m mv)) pos) as (s' & E & _).
        { rewrite Hb0. reflexivity. }
        cbn [app] in E. unfold mo_bytes. rewrite E. reflexivity.
    - intros k Hk st. unfold rd_read_sample. rewrite Hget, Hview, read_sample_with_id. exact (Hout k Hk st).
  Qed.
End MuxOpen.

(** ** The fuel the driver hands to [open_fuel] ([|data| + 2]) is enough *)
Lemma mo_fuel_enough m f' mv1 (out : bytes) :
  moov_of_mfinal m f' = Ok mv1 -> 32 <= lenN out ->
  (moov_fuel (moov_rd mv1) + 3 <= N.to_nat (lenN out + moov_size mv1) + 2)%nat.
Proof.
  intros Hmv1 Hout.
  unfold moov_of_mfinal in Hmv1. destruct (traks_of m (mf_tracks f')) as [ts| | |] eqn:Ets; try discriminate.
  cbn [res_bind] in Hmv1. injection Hmv1 as <-.
  pose proof (moov_traks_count (mkMoov (mvhd_of_mfinal f') None None ts None)) as Hc. cbn [moov_traks] in Hc.
  unfold moov_fuel, moov_rd. cbn [moov_traks moov_meta moov_udta]. rewrite map_length, map_map.
  assert (Hm : (list_max (map (fun x => trak_fuel (trak_rd x)) ts) <= 20)%nat).
  { apply list_max_le. apply Forall_forall. intros n Hin. apply in_map_iff in Hin as (tk & <- & Hin).
    pose proof (traks_of_Forall2 m _ _ Ets) as F2. destruct (Forall2_In_r _ _ _ _ F2 Hin) as (tf & _ & Htk).
    destruct (trak_of_tfinal_shape _ _ _ Htk) as (sd & _ & ->). unfold trak_fuel, trak_rd. cbn [trak_meta]. lia. }
  unfold lenN in *. lia.
Qed.

(** [mux_bytes] is [run_mux], the moov, and its encoding *)
Lemma mux_bytes_inv m cfg ops cls b :
  mux_bytes m 0 cfg ops = Ok (cls, b) ->
  exists f mv, run_mux m 0 cfg ops = Ok (cls, f) /\ moov_of_mfinal m f = Ok mv /\
               b = mf_out f ++ wout (enc_moov m mv).
Proof.
  unfold mux_bytes. destruct (run_mux m 0 cfg ops) as [[cls0 f]| | |] eqn:E1; try discriminate. cbn [res_bind]. cbv beta iota.
  destruct (moov_of_mfinal m f) as [mv| | |] eqn:E2; try discriminate. cbn [res_bind]. cbv beta iota.
  destruct (wfin (enc_moov m mv)); try discriminate. cbn [res_bind]. cbv beta iota.
  intros H. injection H as <- <-. exists f, mv. repeat split. exact E2.
Qed.

(** feed a section lemma every hypothesis that is in the context *)
Ltac feed T :=
  repeat lazymatch type of T with
         | ?A -> _ => let H := fresh "Hfeed" in assert (H : A) by assumption; specialize (T H); clear H
         end.

(** ** The theorem in one statement *)
Theorem mux_open_readback m m' cfg ops cls f mv :
  run_mux m 0 cfg ops = Ok (cls, f) -> ops_typed ops = true -> lenN (added_confs ops) < U32MAX ->
  mp4_conf_rep cfg = true -> forallb conf_rep (added_confs ops) = true ->
  moov_of_mfinal m f = Ok mv -> moov_size mv < U32 -> lenN (mf_out f) + moov_size mv < 2 ^ 63 ->
  let b := mf_out f ++ wout (enc_moov m mv) in
  exists r,
    (forall fuel, (N.to_nat (lenN b) + 2 <= fuel)%nat ->
       run (open_fuel fuel m' (lenN b)) (stream_at b 0) = (Ok r, stream_at b (lenN b))) /\
    rd_ftyp r = ftyp_of_conf cfg /\ rd_size r = lenN b /\ rd_moofs r = [] /\ rd_emsgs r = [] /\
    rd_timescale r = mc_timescale cfg /\ mvhd_duration (moov_mvhd (rd_moov r)) = mf_mvhd_duration f /\
    map fst (rd_tracks r) = map N.of_nat (seq 1 (length (added_confs ops))) /\
    (forall tid, ~ In tid (map fst (rd_tracks r)) -> rd_sample_count r tid = Err EData) /\
    forall i c, nth_error (added_confs ops) i = Some c ->
      let tid := N.of_nat i + 1 in
      let ss := accepted_samples ops cls tid in
      exists t, tracks_get tid (rd_tracks r) = Some t /\
        conf_survives c tid t /\
        rd_sample_count r tid = Ok (lenN ss) /\
        (forall k s, nth1 ss k = Some s ->
           (exists off, rd_sample_offset m' r tid k = Ok off /\
                        16 + lenN (ftyp_bytes cfg) <= off /\ off + lenN (ws_bytes s) <= lenN (mf_out f)) /\
           forall pos, fst (run (rd_read_sample m' r tid k) (stream_at b pos)) =
                       Ok (Some (mkSample (sumN (map ws_duration (firstn (N.to_nat (k - 1)) ss)))
                                          (ws_duration s) (ws_rendering_offset s) (ws_is_sync s) (ws_bytes s)))) /\
        (forall k, k = 0 \/ lenN ss < k ->
           forall st, match fst (run (rd_read_sample m' r tid k) st) with
                      | Ok (Some _) => False
                      | Panic _ => False
                      | _ => True
                      end).
Proof.
  intros Hrun Hty Hn Hcfg Hconfs Hmv Hsz Hlen b.
  pose proof (mo_open m m' cfg ops cls f mv) as Ho. feed Ho.
  destruct Ho as (f' & mv1 & Hf' & Hmv1 & Hopen). cbv zeta in Hopen.
  pose proof (mo_tracks m m' cfg ops cls f mv) as Ht. feed Ht. specialize (Ht f' mv1 Hf' Hmv1).
  destruct Ht as (Hids & Hnone & Htr).
  destruct (enc_moov_rd m f f' mv Hf' Hmv) as (mv1' & Hmv1' & _ & Hsize). rewrite Hmv1 in Hmv1'. injection Hmv1' as <-.
  pose proof (mo_pre m cfg ops cls f mv) as Hpre. feed Hpre.
  destruct (c14_config_lemma _ _ _ _ _ _ Hpre Hrun) as (_ & Hconf & _ & Hts & _).
  destruct (mux_out_length _ _ _ _ _ _ Hrun Hty) as (_ & Hol).
  exists (mo_reader m cfg f mv mv1).
  assert (Hb : lenN b = lenN (mf_out f) + moov_size mv1).
  { pose proof (mo_moov_rd m cfg ops cls f mv) as Hm. feed Hm.
    destruct Hm as (f2 & mv2 & Hf2 & Hmv2 & Henc & Hsz2 & Hwf).
    rewrite Hf' in Hf2. injection Hf2 as <-. rewrite Hmv1 in Hmv2. injection Hmv2 as <-.
    assert (Hs3 : moov_size (moov_rd mv1) < U32) by (rewrite Hsz2; exact Hsz).
    destruct (moov_roundtrip m (moov_rd mv1) Hwf Hs3) as (_ & _ & Hout & Hplen & _).
    unfold b. rewrite lenN_app, <- Henc, Hout, !lenN_app, !lenN_be. change (N.of_nat 4) with 4.
    rewrite moov_rd_size in Hplen. lia. }
  split.
  { intros fuel Hfuel. apply Hopen.
    pose proof (mo_fuel_enough m f' mv1 (mf_out f) Hmv1) as Hfe.
    rewrite Hb in Hfuel. assert (32 <= lenN (mf_out f)) by (rewrite Hol; unfold ftyp_bytes; rewrite !lenN_app, !lenN_be; change (N.of_nat 4) with 4; lia).
    specialize (Hfe H). lia. }
  split; [reflexivity|]. split; [reflexivity|]. split; [reflexivity|]. split; [reflexivity|].
  assert (Hmvhd : moov_mvhd (moov_rd mv1) = mvhd_of_mfinal f).
  { unfold mfinal_rd in Hf'. destruct (tfinals_rd (mf_tracks f)) as [tfs'|]; [|discriminate]. cbn [option_map] in Hf'. injection Hf' as <-.
    unfold moov_of_mfinal in Hmv1. destruct (traks_of m (mf_tracks (mfinal_with_tracks f tfs'))) as [ts| | |]; try discriminate.
    cbn [res_bind] in Hmv1. injection Hmv1 as <-. reflexivity. }
  split.
  { unfold rd_timescale, mo_reader. cbn [rd_moov]. rewrite Hmvhd. unfold mvhd_of_mfinal. cbn [mvhd_timescale]. exact Hts. }
  split.
  { unfold mo_reader. cbn [rd_moov]. rewrite Hmvhd. reflexivity. }
  split.
  { rewrite Hids. rewrite <- Hconf, map_length. reflexivity. }
  split.
  { intros tid Hnin. unfold rd_sample_count. rewrite (Hnone tid Hnin). reflexivity. }
  intros i c Hc tid ss.
  assert (Hi : exists tf, nth_error (mf_tracks f) i = Some tf /\ tf_conf tf = c).
  { rewrite <- Hconf, nth_error_map in Hc. destruct (nth_error (mf_tracks f) i) as [tf|]; [|discriminate].
    cbn [option_map] in Hc. injection Hc as <-. eauto. }
  destruct Hi as (tf & Hi & <-).
  destruct (Htr i tf Hi) as (t & Hget & Hsurv & Hcnt & Hin & Hout).
  exists t. split; [exact Hget|]. split; [exact Hsurv|]. split; [exact Hcnt|]. split; [|exact Hout].
  intros k s Hs. destruct (Hin k s Hs) as (Ho & Hr). split; [exact Ho|]. intros pos. exact (Hr pos).
Qed.

Print Assumptions trak_rd_wf.
Print Assumptions mo_moov_rd.
Print Assumptions mux_open_readback.
Print Assumptions mo_open.
Print Assumptions mo_tracks.
