(** Round trip of [TrexBox] *)
From MP4 Require Import Kit BoxTrex IsoTrex.
From Coq Require Import ZifyN ZifyNat ZifyBool.
Open Scope string_scope.
Open Scope list_scope.
Open Scope N_scope.

Lemma trex_code : u32_of_boxtype (box_type_of "TrexBox") = 0x74726578.
Proof. vm_compute. reflexivity. Qed.

Lemma trex_size_eq v : trex_size v = 32.
Proof. reflexivity. Qed.

Lemma trex_enc v : trex_wf v = true ->
  wfin (enc_trex v) = Ok (trex_size v) /\
  wout (enc_trex v) = be 4 (trex_size v) ++ be 4 0x74726578 ++ iso_trex_payload v.
Proof.
  intros H. unfold enc_trex, iso_trex_payload.
  unfold trex_wf in H. split_andb.
  rewrite write_header_small by (rewrite trex_size_eq; reflexivity).
  rewrite trex_code.
  rewrite write_header_ext_small by assumption.
  enc_norm. split; [reflexivity|].
  rewrite <- ?app_assoc. reflexivity.
Qed.

Lemma trex_dec m v d l p post : trex_wf v = true -> p + trex_size v < 2^63 ->
  run (dec_trex m (trex_size v)) (mkStream d l (p + 8) (iso_trex_payload v ++ post))
  = (Ok v, mkStream d l (p + trex_size v) post).
Proof.
  intros H Hp. unfold dec_trex, iso_trex_payload.
  unfold trex_wf in H. split_andb.
  pose proof (trex_size_eq v) as Hsz.
  rewrite <- !app_assoc.
  prog_norm. cbn [run s_pos].
  rewrite run_sub64_ok by (clear; unfold HEADER_SIZE, Tables.HEADER_SIZE; lia).
  do 7 rd_step.
  rewrite run_add64_ok by (clear -Hsz Hp; unfold HEADER_SIZE, Tables.HEADER_SIZE, U64; lia).
  prog_norm.
  rewrite run_SeekTo_here by (clear -Hsz; unfold HEADER_SIZE, Tables.HEADER_SIZE; lia).
  cbn [run]. f_equal.
  - destruct v as []; reflexivity.
  - f_equal. clear -Hsz. lia.
Qed.

Lemma trex_payload_len v : lenN (iso_trex_payload v) + 8 = trex_size v.
Proof.
  rewrite trex_size_eq. unfold iso_trex_payload.
  rewrite ?lenN_app, ?lenN_be. reflexivity.
Qed.

Lemma trex_appender v : trex_wf v = true -> trex_size v < U32 -> appender (enc_trex v).
Proof.
  intros H Hs. unfold enc_trex. rewrite write_header_small by exact Hs.
  unfold trex_wf in H. split_andb.
  rewrite write_header_ext_small by assumption.
  cbn [wbind appender wr wr_u8 wr_u16 wr_u32 wr_u64 wr_u wr_i16 wr_i32 wr_i]. exact I.
Qed.

Theorem trex_roundtrip : leaf_roundtrip trex_wf trex_size 0x74726578 enc_trex dec_trex iso_trex_payload.
Proof.
  intros v H Hs. destruct (trex_enc v H) as [H1 H2].
  split; [exact H1|]. split; [now apply trex_appender|]. split; [exact H2|].
  split; [now apply trex_payload_len|].
  intros m d l p post Hp. now apply trex_dec.
Qed.

Print Assumptions trex_roundtrip.
