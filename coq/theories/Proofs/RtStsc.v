(** Round trip of [StscBox] *)
From MP4 Require Import TblKit BoxStsc IsoStsc.
From Coq Require Import ZifyN ZifyNat ZifyBool.
Open Scope string_scope.
Open Scope list_scope.
Open Scope N_scope.

Lemma stsc_code : u32_of_boxtype (box_type_of "StscBox") = 0x73747363.
Proof. vm_compute. reflexivity. Qed.

Lemma stsc_size_eq v : stsc_size v = 8 + 4 + 4 + 12 * lenN (stsc_entries v).
Proof. reflexivity. Qed.

Lemma stsc_wr_entry_ok e :
  wfin (stsc_wr_entry e) = Ok tt /\ wout (stsc_wr_entry e) = iso_stsc_entry e.
Proof.
  unfold stsc_wr_entry, iso_stsc_entry. enc_norm. split; [reflexivity|]. now rewrite app_nil_r.
Qed.

Lemma stsc_enc v : stsc_wf v = true -> stsc_size v < U32 ->
  wfin (enc_stsc v) = Ok (stsc_size v) /\
  wout (enc_stsc v) = be 4 (stsc_size v) ++ be 4 0x73747363 ++ iso_stsc_payload v.
Proof.
  intros H Hs. unfold enc_stsc, iso_stsc_payload. unfold stsc_wf in H. split_andb.
  rewrite write_header_small by exact Hs. rewrite stsc_code.
  rewrite write_header_ext_small by assumption.
  set (W := tbl_wr_each stsc_wr_entry (stsc_entries v)).
  enc_norm. subst W.
  rewrite (tbl_wfin_each_bind _ iso_stsc_entry), (tbl_wout_each_bind _ iso_stsc_entry)
    by (first [intros; exact I | intros; apply stsc_wr_entry_ok]).
  cbn [wfin wout]. split; [reflexivity|].
  rewrite cast_u32_small by assumption. rewrite app_nil_r. reflexivity.
Qed.

(** what the first loop of [read_box] yields for an entry: [first_sample: 0] *)
Definition stsc_zero (e : stsc_ent) : stsc_ent :=
  mkStscEnt (stsc_e_first_chunk e) (stsc_e_samples_per_chunk e) (stsc_e_sample_description_index e) 0.

Lemma lenN_map {A B} (f : A -> B) l : lenN (map f l) = lenN l.
Proof. unfold lenN. now rewrite map_length. Qed.

Lemma stsc_rd_entry_ok {B} es d l x (k' : stsc_ent -> prog B) p' rest' :
  forallb stsc_ent_wf es = true -> In x (map stsc_zero es) ->
  run (bind stsc_rd_entry k') (mkStream d l p' (iso_stsc_entry x ++ rest'))
  = run (k' x) (mkStream d l (p' + 12) rest').
Proof.
  intros Hall Hin. apply in_map_iff in Hin as (e & <- & Hin).
  rewrite forallb_forall in Hall. apply Hall in Hin.
  unfold stsc_ent_wf in Hin. split_andb.
  unfold stsc_rd_entry, iso_stsc_entry, stsc_zero.
  cbn [stsc_e_first_chunk stsc_e_samples_per_chunk stsc_e_sample_description_index].
  rewrite <- !app_assoc.
  do 3 rd_step. prog_norm. do 2 f_equal. clear. lia.
Qed.

(** the second loop restores exactly the [first_sample] fields that [stsc_first_ok] checks *)
Lemma stsc_fill_ok {B} es sid (k : list stsc_ent -> prog B) s :
  stsc_first_ok es sid = true ->
  run (bind (stsc_fill (map stsc_zero es) sid) k) s = run (k es) s.
Proof.
  revert sid k. induction es as [|e t IH]; intros sid k H; [reflexivity|].
  cbn [stsc_first_ok] in H. apply andb_true_iff in H as [H1 H2]. apply N.eqb_eq in H1.
  assert (He : mkStscEnt (stsc_e_first_chunk e) (stsc_e_samples_per_chunk e)
                         (stsc_e_sample_description_index e) sid = e)
    by (destruct e as [a b c f]; cbn in *; now subst).
  destruct t as [|nx t'].
  - cbn [map stsc_fill bind step stsc_zero
         stsc_e_first_chunk stsc_e_samples_per_chunk stsc_e_sample_description_index].
    rewrite run_Step. now rewrite He.
  - change (map stsc_zero (e :: nx :: t')) with (stsc_zero e :: map stsc_zero (nx :: t')).
    cbn [stsc_fill].
    change (map stsc_zero (nx :: t')) with (stsc_zero nx :: map stsc_zero t') at 1.
    cbv iota.
    change (stsc_next_id (stsc_zero e) (stsc_zero nx) sid) with (stsc_next_id e nx sid).
    destruct (stsc_next_id e nx sid) as [sid'|]; [|discriminate].
    cbn [bind step]. rewrite run_Step.
    rewrite bind_bind. rewrite IH by exact H2.
    cbn [bind stsc_zero stsc_e_first_chunk stsc_e_samples_per_chunk stsc_e_sample_description_index].
    now rewrite He.
Qed.

Lemma stsc_dec m v d l p post : stsc_wf v = true -> p + stsc_size v < 2^63 ->
  run (dec_stsc m (stsc_size v)) (mkStream d l (p + 8) (iso_stsc_payload v ++ post))
  = (Ok v, mkStream d l (p + stsc_size v) post).
Proof.
  intros H Hp. unfold dec_stsc, iso_stsc_payload. unfold stsc_wf in H. split_andb.
  pose proof (stsc_size_eq v) as Hsz.
  rewrite <- !app_assoc.
  prog_norm. cbn [run s_pos].
  rewrite run_sub64_ok by (clear; unfold HEADER_SIZE, Tables.HEADER_SIZE; lia).
  do 3 rd_step.
  rewrite tbl_guard_false by (first [ clear; lia | rewrite Hsz; reflexivity ]).
  prog_norm. rewrite run_Alloc.
  replace (flat_map iso_stsc_entry (stsc_entries v))
    with (flat_map iso_stsc_entry (map stsc_zero (stsc_entries v)))
    by (rewrite flat_map_map; reflexivity).
  rewrite <- (lenN_map stsc_zero (stsc_entries v)) at 1.
  rewrite (run_rd_n_lenN_bind _ iso_stsc_entry 12) by (intros; now apply (stsc_rd_entry_ok (stsc_entries v))).
  rewrite lenN_map.
  rewrite stsc_fill_ok by assumption.
  rewrite run_add64_ok by (clear -Hsz Hp; unfold HEADER_SIZE, Tables.HEADER_SIZE, U64; lia).
  prog_norm.
  rewrite run_SeekTo_here by (clear -Hsz; unfold HEADER_SIZE, Tables.HEADER_SIZE; lia).
  cbn [run]. f_equal.
  - destruct v; reflexivity.
  - f_equal. clear -Hsz. lia.
Qed.

Lemma stsc_entry_len e : lenN (iso_stsc_entry e) = 12.
Proof. unfold iso_stsc_entry. rewrite !lenN_app, !lenN_be. reflexivity. Qed.

Lemma stsc_payload_len v : lenN (iso_stsc_payload v) + 8 = stsc_size v.
Proof.
  rewrite stsc_size_eq. unfold iso_stsc_payload.
  rewrite !lenN_app, !lenN_be, (lenN_flat_map_const iso_stsc_entry 12) by apply stsc_entry_len. lia.
Qed.

Lemma stsc_appender v : stsc_wf v = true -> stsc_size v < U32 -> appender (enc_stsc v).
Proof.
  intros H Hs. unfold enc_stsc. rewrite write_header_small by exact Hs.
  unfold stsc_wf in H. split_andb.
  rewrite write_header_ext_small by assumption.
  cbn [wbind appender wr wr_u32 wr_u].
  apply tbl_appender_each_bind; intros; exact I.
Qed.

Theorem stsc_roundtrip : leaf_roundtrip stsc_wf stsc_size 0x73747363 enc_stsc dec_stsc iso_stsc_payload.
Proof.
  intros v H Hs. destruct (stsc_enc v H Hs) as [H1 H2].
  split; [exact H1|]. split; [now apply stsc_appender|]. split; [exact H2|].
  split; [now apply stsc_payload_len|].
  intros m d l p post Hp. now apply stsc_dec.
Qed.

Print Assumptions stsc_roundtrip.
