(** * C06, lookup layer: the sample lookups of track.rs never panic

    [Model/Track.v] keeps the panic sites of the Rust code as explicit [Panic] results
    ([entries.get(stsc_index).unwrap()], [self.trafs[traf_idx]], the slice
    [sample_durations[..sample_idx]], [sample_durations[sample_idx]]) and computes in the build
    mode [m] where Rust computes unchecked ([sub_w]/[mul_w]/[add_w]: panic in [Dbg], wrap in
    [Rel]).  This file shows that none of them is reached, for EVERY track view satisfying
    [view_ok] — three facts about the integer WIDTH of fields (a [u32] field is below 2^32), one
    about [StscBox::read_box] (the first derived [first_sample] is at least 1) and one about
    [TrunBox::read_box] (one duration per sample when the flag is set) — and every sample id
    that is a [u32].  No consistency between the tables is assumed: table lengths, counts,
    offsets, chunk numbers are arbitrary.

    The hypotheses are needed: [sample_time_needs_*] below are [vm_compute] witnesses of a
    panic for views violating each of them.  [SafeReader.v] shows that every reader value
    returned by [open_fuel] / [open_fragment_fuel] has only [view_ok] views. *)
From MP4 Require Import Hoare Track.
From Coq Require Import ZArith ZifyN ZifyNat ZifyBool Lia.
Open Scope N_scope.

Definition np {A} (r : res A) : Prop := is_panic r = false.

Lemma np_res_bind {A B} (r : res A) (k : A -> res B) :
  np r -> (forall a, r = Ok a -> np (k a)) -> np (res_bind r k).
Proof. destruct r; cbn; auto. Qed.

Lemma np_ok {A} (a : A) : np (Ok a). Proof. reflexivity. Qed.
Lemma np_err {A} e : np (@Err A e). Proof. reflexivity. Qed.

(** ** the facts about a track view *)
Definition tables_ok (tb : tables) : Prop :=
  t_stsz_size tb < U32
  /\ Forall (fun e => snd e < U32) (t_stts tb)
  /\ match t_stsc tb with e :: _ => 1 <= sc_first_sample e | [] => True end.

Definition fragrun_ok (f : fragrun) : Prop :=
  match fr_default_duration f with Some x => x < U32 | None => True end
  /\ (fr_has_trun f = true -> N.land FLAG_SAMPLE_DURATION (fr_flags f) <> 0 ->
      lenN (fr_durations f) = fr_sample_count f).

Definition view_ok (t : track) : Prop :=
  tables_ok (tr_tables t) /\ Forall fragrun_ok (tr_frags t) /\ tr_default_sample_duration t < U32.

Lemma mul_lt_U64 a b : a < U32 -> b < U32 -> a * b < U64.
Proof.
  unfold U32, U64. intros Ha Hb.
  assert (a * b <= 4294967295 * 4294967295) by (apply N.mul_le_mono; lia). lia.
Qed.

(** ** [stsc_index] *)
Lemma stsc_index_from_np es : forall i last sid, np (stsc_index_from es i last sid).
Proof.
  induction es as [|e t IH]; intros i last sid; cbn [stsc_index_from]; [reflexivity|].
  destruct (sid <? sc_first_sample e); [destruct (i =? 0); reflexivity|apply IH].
Qed.

Lemma stsc_index_np tb sid : np (stsc_index tb sid).
Proof. unfold stsc_index. destruct (t_stsc tb); [reflexivity|apply stsc_index_from_np]. Qed.

Lemma stsc_index_from_lt es : forall i last sid idx,
  last < i + lenN es -> stsc_index_from es i last sid = Ok idx -> idx < i + lenN es.
Proof.
  induction es as [|e t IH]; intros i last sid idx Hl; cbn [stsc_index_from].
  - intros [= <-]. exact Hl.
  - rewrite lenN_cons in *. destruct (sid <? sc_first_sample e).
    + destruct (N.eqb_spec i 0); [discriminate|]. intros [= <-]. lia.
    + intros H. apply IH in H; lia.
Qed.

(** the index is inside the table: [entries.get(stsc_index).unwrap()] cannot fail *)
Lemma stsc_index_lt tb sid idx : stsc_index tb sid = Ok idx -> idx < lenN (t_stsc tb).
Proof.
  unfold stsc_index. destruct (t_stsc tb) as [|e t] eqn:E; [discriminate|].
  intros H. apply stsc_index_from_lt in H; [lia|]. rewrite lenN_cons. lia.
Qed.

(** sample id 0 lies before the first entry *)
Lemma stsc_index_pos tb sid idx :
  match t_stsc tb with e :: _ => 1 <= sc_first_sample e | [] => True end ->
  stsc_index tb sid = Ok idx -> 1 <= sid.
Proof.
  unfold stsc_index. destruct (t_stsc tb) as [|e t]; [discriminate|]. intros H1.
  cbn [stsc_index_from]. destruct (N.ltb_spec sid (sc_first_sample e)).
  - cbn. discriminate.
  - intros _. lia.
Qed.

(** ** [chunk_offset], [sum_sizes], [sum_run_sizes] *)
Lemma chunk_offset_np tb c : np (chunk_offset tb c).
Proof.
  unfold chunk_offset.
  destruct (t_stco tb) as [l|]; [|destruct (t_co64 tb) as [l|]; [|reflexivity]];
    (destruct (checked_sub c 1) as [i|]; [destruct (nthN l i)|]; reflexivity).
Qed.

Lemma sum_sizes_np l : forall cnt acc, np (sum_sizes l cnt acc).
Proof.
  induction l as [|x t IH]; intros cnt acc; cbn [sum_sizes]; destruct (cnt =? 0); try reflexivity.
  apply IH.
Qed.

Lemma sum_run_sizes_np l : forall cnt acc, np (sum_run_sizes l cnt acc).
Proof.
  induction l as [|x t IH]; intros cnt acc; cbn [sum_run_sizes]; destruct (cnt =? 0); try reflexivity.
  destruct (checked_add U64 acc x); [apply IH|reflexivity].
Qed.

(** ** [find_traf_idx_and_sample_idx] *)
Lemma find_traf_from_spec fs : forall idx offset g ti si,
  find_traf_from fs idx offset g = Some (ti, si) ->
  idx <= ti /\ si <= g
  /\ exists f, nthN fs (ti - idx) = Some f /\ fr_has_trun f = true /\ si < fr_sample_count f.
Proof.
  induction fs as [|f t IH]; intros idx offset g ti si; cbn [find_traf_from]; [discriminate|].
  assert (Hshift : forall o, find_traf_from t (idx + 1) o g = Some (ti, si) ->
            idx <= ti /\ si <= g /\
            exists f0, nthN (f :: t) (ti - idx) = Some f0 /\ fr_has_trun f0 = true /\ si < fr_sample_count f0).
  { intros o H. apply IH in H as (H1 & H2 & f0 & H3 & H4 & H5).
    split; [lia|]. split; [exact H2|]. exists f0. split; [|auto]. cbn [nthN].
    destruct (N.eqb_spec (ti - idx) 0); [lia|]. now replace (ti - idx - 1) with (ti - (idx + 1)) by lia. }
  destruct (fr_has_trun f) eqn:Ht.
  - destruct (N.ltb_spec (g - offset) (fr_sample_count f)).
    + intros [= <- <-]. split; [lia|]. split; [lia|]. exists f. rewrite N.sub_diag. cbn. auto.
    + destruct (checked_add U32 offset (fr_sample_count f)); [apply Hshift|discriminate].
  - apply Hshift.
Qed.

Lemma find_traf_spec t sid ti si : find_traf t sid = Some (ti, si) ->
  1 <= sid /\ si < sid
  /\ exists f, nthN (tr_frags t) ti = Some f /\ fr_has_trun f = true /\ si < fr_sample_count f.
Proof.
  unfold find_traf, checked_sub. destruct (N.leb_spec 1 sid) as [H1|]; [|discriminate].
  intros HF. apply find_traf_from_spec in HF as (_ & H2 & f & H3 & H4). rewrite N.sub_0_r in H3.
  split; [assumption|]. split; [lia|]. eauto.
Qed.

(** ** [sample_size] *)
Lemma sample_size_np t sid : np (sample_size t sid).
Proof.
  unfold sample_size. destruct (tr_frags t) as [|f0 fs] eqn:Ef.
  - destruct (0 <? t_stsz_size (tr_tables t)); [reflexivity|].
    destruct (checked_sub sid 1) as [i|]; [destruct (nthN _ i)|]; reflexivity.
  - destruct (find_traf t sid) as [[ti si]|] eqn:E; [|reflexivity].
    apply find_traf_spec in E as (_ & _ & f & H1 & _). rewrite Ef in H1. rewrite H1.
    destruct (nthN (fr_sizes f) si); reflexivity.
Qed.

(** ** [sample_offset] *)
Lemma sample_offset_np m t sid : view_ok t -> sid < U32 -> np (sample_offset m t sid).
Proof.
  intros ((Hz & _ & _) & _ & _) Hs. unfold sample_offset. destruct (tr_frags t) as [|f0 fs] eqn:Ef.
  - apply np_res_bind; [apply stsc_index_np|]. intros idx Hidx.
    apply stsc_index_lt, nthN_lt in Hidx as [e He]. rewrite He.
    destruct (N.eqb_spec (sc_samples_per_chunk e) 0) as [|Hspc]; [reflexivity|].
    unfold checked_sub at 1. destruct (N.leb_spec (sc_first_sample e) sid) as [Hfs|]; [|reflexivity].
    destruct (checked_add U32 _ (sc_first_chunk e)) as [chunk_id|]; [|reflexivity].
    apply np_res_bind; [apply chunk_offset_np|]. intros coff _.
    rewrite sub_w_ok by exact Hfs. cbn [res_bind].
    assert (Hmod : (sid - sc_first_sample e) mod sc_samples_per_chunk e <= sid).
    { pose proof (N.mod_le (sid - sc_first_sample e) _ Hspc). lia. }
    rewrite sub_w_ok by exact Hmod. cbn [res_bind].
    apply np_res_bind.
    + destruct (0 <? t_stsz_size (tr_tables t)).
      * rewrite sub_w_ok by lia. cbn [res_bind]. rewrite mul_w_ok; [reflexivity|].
        apply mul_lt_U64; [lia|exact Hz].
      * destruct (checked_sub _ 1); [apply sum_sizes_np|]. destruct (_ =? 0); reflexivity.
    + intros inchunk _. destruct (checked_add U64 coff inchunk); reflexivity.
  - destruct (find_traf t sid) as [[ti si]|] eqn:E; [|reflexivity].
    apply find_traf_spec in E as (_ & Hsi & f & H1 & _). rewrite Ef in H1. rewrite H1.
    apply np_res_bind.
    + destruct (if fr_has_trun f then fr_data_offset f else None) as [dz|]; [|reflexivity].
      destruct ((_ <? 0)%Z || _); reflexivity.
    + intros off _. rewrite sub_w_ok.
      * cbn [res_bind]. apply sum_run_sizes_np.
      * unfold cast_w. pose proof (N.mod_le si U32). unfold U32 in *. lia.
Qed.

(** a successful [sample_offset] means the sample id is at least 1: [read_sample] calls
    [sample_time], whose [sample_id - sample_count] starts with [sample_count = 1], only then *)
Lemma sample_offset_ok_pos m t sid off : view_ok t -> sample_offset m t sid = Ok off -> 1 <= sid.
Proof.
  intros ((_ & _ & Hc) & _ & _). unfold sample_offset. destruct (tr_frags t) as [|f0 fs] eqn:Ef.
  - destruct (stsc_index (tr_tables t) sid) as [idx| | |] eqn:E; cbn [res_bind]; try discriminate.
    intros _. exact (stsc_index_pos _ _ _ Hc E).
  - destruct (find_traf t sid) as [[ti si]|] eqn:E; [|discriminate].
    intros _. now apply find_traf_spec in E as (H & _).
Qed.

(** ** [sample_time] *)
Lemma stts_scan_np m sid : sid < U32 -> forall es sc el,
  Forall (fun e => snd e < U32) es -> sc <= sid -> el <= sc * 4294967295 ->
  np (stts_scan m es sc el sid).
Proof.
  intros Hs. induction es as [|[cnt delta] t IH]; intros sc el Hall Hsc Hel; cbn [stts_scan];
    [reflexivity|].
  inversion Hall as [|? ? Hd Hall']; subst. cbn [snd] in Hd.
  unfold checked_add. destruct (N.ltb_spec (sc + cnt) U32) as [Hn|]; [|reflexivity].
  assert (Hcd : cnt * delta <= cnt * 4294967295) by (apply N.mul_le_mono_l; unfold U32 in Hd; lia).
  destruct (N.ltb_spec sid (sc + cnt)) as [Hlt|Hge].
  - rewrite sub_w_ok by exact Hsc. cbn [res_bind].
    assert (Hkd : (sid - sc) * delta <= (sid - sc) * 4294967295)
      by (apply N.mul_le_mono_l; unfold U32 in Hd; lia).
    rewrite mul_w_ok by (apply mul_lt_U64; [unfold U32 in *; lia|exact Hd]). cbn [res_bind].
    rewrite add_w_ok; [reflexivity|]. unfold U32, U64 in *. lia.
  - rewrite mul_w_ok by (apply mul_lt_U64; [unfold U32 in *; lia|exact Hd]). cbn [res_bind].
    rewrite add_w_ok by (unfold U32, U64 in *; lia). cbn [res_bind].
    apply IH; [exact Hall'|exact Hge|lia].
Qed.

Lemma sum_durations_go_np l : forall cnt acc, np (sum_durations_go l cnt acc).
Proof.
  induction l as [|x t IH]; intros cnt acc; cbn [sum_durations_go]; destruct (cnt =? 0); try reflexivity.
  destruct (checked_add U64 acc x); [apply IH|reflexivity].
Qed.

Lemma sample_time_np m t sid : view_ok t -> 1 <= sid -> sid < U32 -> np (sample_time m t sid).
Proof.
  intros ((_ & Hst & _) & Hfr & Hdsd) H1 Hs. unfold sample_time.
  destruct (tr_frags t) as [|f0 fs] eqn:Ef.
  - apply stts_scan_np; [exact Hs|exact Hst|exact H1|lia].
  - destruct (find_traf t sid) as [[ti si]|] eqn:E.
    + apply find_traf_spec in E as (_ & Hsi & f & Hn & Htr & Hcnt). rewrite Ef in Hn. rewrite Hn.
      assert (Hok : fragrun_ok f).
      { rewrite Forall_forall in Hfr. apply Hfr. rewrite nthN_nth_error in Hn.
        eapply nth_error_In. exact Hn. }
      destruct Hok as [Hdd Hlen]. rewrite Htr. cbn [andb].
      destruct (N.eqb_spec (N.land FLAG_SAMPLE_DURATION (fr_flags f)) 0) as [|Hfl]; cbn [negb].
      * rewrite mul_w_ok.
        -- cbn [res_bind]. destruct (checked_add U64 _ _); reflexivity.
        -- apply mul_lt_U64; [lia|]. destruct (fr_default_duration f); [exact Hdd|exact Hdsd].
      * specialize (Hlen Htr Hfl). unfold sum_durations.
        destruct (N.ltb_spec (lenN (fr_durations f)) si); [lia|].
        apply np_res_bind; [apply sum_durations_go_np|]. intros so _.
        destruct (nthN_lt (fr_durations f) si) as [x ->]; [lia|].
        destruct (checked_add U64 _ so); reflexivity.
    + cbn [andb]. rewrite mul_w_ok.
      * cbn [res_bind]. destruct (checked_add U64 _ _); reflexivity.
      * apply mul_lt_U64; [lia|exact Hdsd].
Qed.

(** ** [is_sync_sample], [sample_count], [sample_rendering_offset]: total functions *)
Lemma is_sync_sample_np t sid : np (is_sync_sample t sid).
Proof.
  unfold is_sync_sample. destruct (tr_frags t).
  - destruct (t_stss (tr_tables t)); reflexivity.
  - destruct (_ =? 0); reflexivity.
Qed.

(** ** [read_sample] on any stream *)
Lemma run_lift_bind_np {A B} (r : res A) (k : A -> prog B) s :
  np r -> (forall a, np (fst (run (k a) s))) -> np (fst (run (bind (lift r) k) s)).
Proof. intros Hr Hk. rewrite run_bind, run_lift. destruct r; cbn in *; auto. Qed.

Lemma read_sample_np m t sid s : view_ok t -> sid < U32 -> np (fst (run (read_sample m t sid) s)).
Proof.
  intros Hv Hs. unfold read_sample.
  pose proof (sample_offset_np m t sid Hv Hs) as Ho.
  destruct (sample_offset m t sid) as [off|[]|x|] eqn:Eo; try reflexivity; [|discriminate Ho].
  pose proof (sample_size_np t sid) as Hz.
  destruct (sample_size t sid) as [sz|[]|x|] eqn:Ez; try reflexivity; [|discriminate Hz].
  pose proof (sample_offset_ok_pos m t sid off Hv Eo) as H1.
  assert (Hk : forall buf s', np (fst (run
            (alloc (2 * sz + 32) ;;;
             '(st, dur) <- lift (sample_time m t sid) ;;
             sync <- lift (is_sync_sample t sid) ;;
             Ret (Some (mkSample st dur (sample_rendering_offset t sid) sync buf))) s'))).
  { intros buf s'. unfold alloc. cbn [bind run].
    apply run_lift_bind_np; [now apply sample_time_np|]. intros [st dur].
    apply run_lift_bind_np; [apply is_sync_sample_np|]. intros sync. reflexivity. }
  unfold seek_to, rd_exact. cbn [bind run].
  destruct (sz =? 0); [apply Hk|].
  destruct (splitN sz _) as [[h r]|]; [apply Hk|reflexivity].
Qed.

(** ** The hypotheses are needed (model-level witnesses; none of these views is the view of a
    parsed file, see SafeReader.v) *)
Definition tables0 : tables := mkTables [mkStsc 1 1 1 1] 0 0 [] (Some []) None [] None None.

(** [sample_time(0)]: [sample_id - sample_count] underflows in a debug build. It is not reachable
    through [read_sample]: [sample_offset(0)] fails first *)
Example sample_time_needs_sid_pos :
  let t := mkTrack 1 (mkTables [mkStsc 1 1 1 1] 0 0 [] (Some []) None [(1, 1)] None None) [] 0 in
  view_ok t /\ is_panic (sample_time Dbg t 0) = true /\ sample_offset Dbg t 0 = Err EData.
Proof.
  split; [|vm_compute; split; reflexivity].
  split; [|split; [constructor|vm_compute; reflexivity]].
  split; [vm_compute; reflexivity|]. split; [|cbn; lia].
  constructor; [vm_compute; reflexivity|constructor].
Qed.

(** a derived [first_sample] of 0 would let sample id 0 through to [sample_time] *)
Example read_sample_needs_first_sample_pos :
  let t := mkTrack 1 (mkTables [mkStsc 1 1 1 0] 1 0 [] (Some [0]) None [(1, 1)] None None) [] 0 in
  is_panic (fst (run (read_sample Dbg t 0) (stream_at [7] 0))) = true.
Proof. vm_compute. reflexivity. Qed.

(** a [sample_delta] or [sample_size] wider than a [u32] overflows the unchecked [u64] products *)
Example sample_time_needs_u32_delta :
  let t := mkTrack 1 (mkTables [mkStsc 1 1 1 1] 0 0 [] (Some []) None [(3, 2 ^ 63)] None None) [] 0 in
  is_panic (sample_time Dbg t 3) = true.
Proof. vm_compute. reflexivity. Qed.

(** a duration vector shorter than [sample_count] makes the slice panic (both build modes) *)
Example sample_time_needs_durations_length :
  let f := mkFragrun 0 None None None true FLAG_SAMPLE_DURATION 2 None [5] [1; 1] [] in
  let t := mkTrack 1 tables0 [f] 0 in
  is_panic (sample_time Dbg t 2) = true /\ is_panic (sample_time Rel t 2) = true.
Proof. vm_compute. split; reflexivity. Qed.
