(** The well-formedness predicates of the container round trips ([x_rt_wf], Proofs/RtX.v) imply the
    models' [x_wf] (Model/BoxX.v): they only add what the struct cannot carry through the wire
    format (one sample entry in stsd, a chunk-offset table in stbl, canonical raw box types in
    meta).  And a summary of the container round trips. *)
From MP4 Require Import KitCont BoxMoov BoxMoof
     RtStsd RtStbl RtMinf RtMdia RtEdts RtTrak RtMvex RtTraf RtMoof RtIlst RtMeta RtUdta RtMoov.
Open Scope list_scope.
Open Scope N_scope.

Ltac wf_join := repeat match goal with |- _ && _ = true => apply andb_true_iff; split end; assumption.

Lemma forallb_impl {A} (f g : A -> bool) l :
  (forall x, f x = true -> g x = true) -> forallb f l = true -> forallb g l = true.
Proof.
  intros H. induction l as [|x t IH]; cbn [forallb]; [auto|].
  intros E. apply andb_true_iff in E as [E1 E2]. rewrite (H x E1), (IH E2). reflexivity.
Qed.

Lemma opt_wf_impl {A} (f g : A -> bool) (o : option A) :
  (forall x, f x = true -> g x = true) ->
  match o with Some x => f x | None => true end = true ->
  match o with Some x => g x | None => true end = true.
Proof. destruct o; auto. Qed.

Lemma stsd_rt_wf_wf v : stsd_rt_wf v = true -> stsd_wf v = true.
Proof. unfold stsd_rt_wf. intros H. now apply andb_true_iff in H as [H _]. Qed.

Lemma stbl_rt_wf_wf v : stbl_rt_wf v = true -> stbl_wf v = true.
Proof.
  unfold stbl_rt_wf, stbl_wf. intros H. split_andb.
  match goal with E : stsd_rt_wf _ = true |- _ => apply stsd_rt_wf_wf in E end. wf_join.
Qed.

Lemma minf_rt_wf_wf v : minf_rt_wf v = true -> minf_wf v = true.
Proof.
  unfold minf_rt_wf, minf_wf. intros H. split_andb.
  match goal with E : stbl_rt_wf _ = true |- _ => apply stbl_rt_wf_wf in E end.
  wf_join.
Qed.

Lemma mdia_rt_wf_wf v : mdia_rt_wf v = true -> mdia_wf v = true.
Proof.
  unfold mdia_rt_wf, mdia_wf. intros H. split_andb.
  match goal with E : minf_rt_wf _ = true |- _ => apply minf_rt_wf_wf in E end.
  wf_join.
Qed.

Lemma meta_rt_wf_wf v : meta_rt_wf v = true -> meta_wf v = true.
Proof. unfold meta_rt_wf. intros H. now apply andb_true_iff in H as [H _]. Qed.

Lemma udta_rt_wf_wf v : udta_rt_wf v = true -> udta_wf v = true.
Proof. unfold udta_rt_wf, udta_wf. apply opt_wf_impl, meta_rt_wf_wf. Qed.

Lemma trak_rt_wf_wf v : trak_rt_wf v = true -> trak_wf v = true.
Proof.
  unfold trak_rt_wf, trak_wf. intros H. split_andb.
  match goal with E : mdia_rt_wf _ = true |- _ => apply mdia_rt_wf_wf in E end.
  match goal with E : match trak_meta v with Some _ => _ | None => _ end = true |- _ =>
    apply (opt_wf_impl _ _ _ meta_rt_wf_wf) in E end.
  wf_join.
Qed.

Lemma mvex_rt_wf_wf v : mvex_rt_wf v = true -> mvex_wf v = true.
Proof. exact (fun H => H). Qed.

Lemma traf_rt_wf_wf v : traf_rt_wf v = true -> traf_wf v = true.
Proof. exact (fun H => H). Qed.

Lemma moof_rt_wf_wf v : moof_rt_wf v = true -> moof_wf v = true.
Proof. exact (fun H => H). Qed.

Lemma moov_rt_wf_wf v : moov_rt_wf v = true -> moov_wf v = true.
Proof.
  unfold moov_rt_wf, moov_wf. intros H. split_andb.
  match goal with E : forallb trak_rt_wf _ = true |- _ => apply (forallb_impl _ _ _ trak_rt_wf_wf) in E end.
  match goal with E : match moov_meta v with Some _ => _ | None => _ end = true |- _ =>
    apply (opt_wf_impl _ _ _ meta_rt_wf_wf) in E end.
  match goal with E : match moov_udta v with Some _ => _ | None => _ end = true |- _ =>
    apply (opt_wf_impl _ _ _ udta_rt_wf_wf) in E end.
  wf_join.
Qed.

(** ** All container round trips (C04, container part) *)
Theorem containers_roundtrip (me : mode) :
  cont_roundtrip stsd_rt_wf stsd_size 0x73747364 (enc_stsd me) dec_stsd_fuel IsoStsd.iso_stsd_payload (fun _ => 1%nat)
  /\ cont_roundtrip stbl_rt_wf stbl_size 0x7374626c (enc_stbl me) dec_stbl_fuel IsoStbl.iso_stbl_payload (fun _ => 9%nat)
  /\ cont_roundtrip minf_rt_wf minf_size 0x6d696e66 (enc_minf me) dec_minf_fuel IsoMinf.iso_minf_payload (fun _ => 13%nat)
  /\ cont_roundtrip mdia_rt_wf mdia_size 0x6d646961 (enc_mdia me) dec_mdia_fuel IsoMdia.iso_mdia_payload (fun _ => 16%nat)
  /\ cont_roundtrip edts_wf edts_size 0x65647473 enc_edts dec_edts_fuel IsoEdts.iso_edts_payload (fun _ => 0%nat)
  /\ cont_roundtrip mvex_rt_wf mvex_size 0x6d766578 enc_mvex dec_mvex_fuel IsoMvex.iso_mvex_payload mvex_fuel
  /\ cont_roundtrip traf_rt_wf traf_size 0x74726166 enc_traf dec_traf_fuel IsoTraf.iso_traf_payload traf_fuel
  /\ cont_roundtrip moof_rt_wf moof_size 0x6d6f6f66 enc_moof dec_moof_fuel IsoMoof.iso_moof_payload moof_fuel
  /\ cont_roundtrip ilst_wf ilst_size 0x696c7374 enc_ilst dec_ilst_fuel IsoIlst.iso_ilst_payload ilst_fuel
  /\ cont_roundtrip_s meta_rt_wf meta_size 0x6d657461 enc_meta dec_meta_fuel IsoMetaBox.iso_meta_payload meta_fuel
  /\ cont_roundtrip_s udta_rt_wf udta_size 0x75647461 enc_udta dec_udta_fuel IsoUdta.iso_udta_payload udta_fuel
  /\ cont_roundtrip_s trak_rt_wf trak_size 0x7472616b (enc_trak me) dec_trak_fuel IsoTrak.iso_trak_payload trak_fuel
  /\ cont_roundtrip_s moov_rt_wf moov_size 0x6d6f6f76 (enc_moov me) dec_moov_fuel IsoMoov.iso_moov_payload moov_fuel.
Proof.
  split; [apply stsd_roundtrip|]. split; [apply stbl_roundtrip|]. split; [apply minf_roundtrip|].
  split; [apply mdia_roundtrip|]. split; [apply edts_roundtrip|]. split; [apply (mvex_roundtrip me)|].
  split; [apply (traf_roundtrip me)|]. split; [apply (moof_roundtrip me)|]. split; [apply ilst_roundtrip|].
  split; [apply meta_roundtrip|]. split; [apply (udta_roundtrip me)|]. split; [apply trak_roundtrip|].
  apply moov_roundtrip.
Qed.

Print Assumptions containers_roundtrip.
