(** * The sample-table boxes the muxer builds (task B) *)
From MP4 Require Import MuxMoovDefs Kit RtStsd RtStbl.
From Coq Require Import Lia ZArith NArith List Bool.
Open Scope string_scope.
Open Scope list_scope.
Open Scope N_scope.

(** ** B3. The reader's view of the built box is the tables *)

Lemma map_id_ext {A} (f : A -> A) (l : list A) : (forall x, f x = x) -> map f l = l.
Proof. intros H. induction l as [|x t IH]; cbn [map]; [reflexivity | now rewrite H, IH]. Qed.

Lemma stbl_tables_of_tfinal sd tf : stbl_tables (stbl_of_tfinal sd tf) = tf_tables tf.
Proof.
  unfold stbl_tables, stbl_of_tfinal.
  destruct (tf_tables tf) as [sc zs zc zl co c64 ts ct ss].
  cbn [stbl_stsc stbl_stsz stbl_stco stbl_co64 stbl_stts stbl_ctts stbl_stss
       t_stsc t_stsz_size t_stsz_count t_stsz_sizes t_stco t_co64 t_stts t_ctts t_stss
       stsc_entries stsz_sample_size stsz_sample_count stsz_sample_sizes stts_entries].
  f_equal.
  - rewrite map_map. apply map_id_ext. intros [a b c d]. reflexivity.
  - destruct co; reflexivity.
  - destruct c64; reflexivity.
  - rewrite map_map. apply map_id_ext. intros [a b]. reflexivity.
  - destruct ct as [es|]; cbn [option_map ctts_entries]; [|reflexivity].
    f_equal. rewrite map_map. apply map_id_ext. intros [a b]. reflexivity.
  - destruct ss; reflexivity.
Qed.

Lemma tkhd_set_dims_track_id c t : tkhd_track_id (tkhd_set_dims c t) = tkhd_track_id t.
Proof. destruct c, t; reflexivity. Qed.

Lemma track_view_of_tfinal m tf tk : trak_of_tfinal m tf = Ok tk ->
  track_view (mp4track_from tk) = Track.mkTrack (tf_track_id tf) (tf_tables tf) [] 0.
Proof.
  unfold trak_of_tfinal. intros H.
  destruct (stsd_of_conf (tc_media (tf_conf tf))) as [sd| | |]; cbn [res_bind] in H; try discriminate H.
  injection H as <-.
  unfold track_view, mp4track_from.
  cbn [mt_trak mt_trafs mt_moof_offsets mt_default_sample_duration trak_tkhd trak_mdia mdia_minf minf_stbl frag_views].
  rewrite stbl_tables_of_tfinal. f_equal.
  unfold tkhd_of_tfinal. cbv zeta. rewrite tkhd_set_dims_track_id. reflexivity.
Qed.

(** ** B1. The encoder does not look at [first_sample] *)

Lemma derive_first_samples_strip es : forall sid es',
  derive_first_samples es sid = Some es' -> map strip_first_sample es' = map strip_first_sample es.
Proof.
  induction es as [|e t IH]; intros sid es' H.
  - cbn [derive_first_samples] in H. injection H as <-. reflexivity.
  - cbn [derive_first_samples] in H. destruct t as [|nx t'].
    + injection H as <-. reflexivity.
    + destruct (checked_sub (sc_first_chunk nx) (sc_first_chunk e)) as [d|]; [|discriminate H].
      destruct (checked_mul U32 d (sc_samples_per_chunk e)) as [dm|]; [|discriminate H].
      destruct (checked_add U32 dm sid) as [sid'|]; [|discriminate H].
      destruct (derive_first_samples (nx :: t') sid') as [r|] eqn:E; [|discriminate H].
      injection H as <-. apply IH in E.
      change (map strip_first_sample (?a :: ?l)) with (strip_first_sample a :: map strip_first_sample l).
      rewrite E. reflexivity.
Qed.

Lemma strip_wr_each es : forall es', map strip_first_sample es = map strip_first_sample es' ->
  tbl_wr_each stsc_wr_entry (map stsc_ent_of es) = tbl_wr_each stsc_wr_entry (map stsc_ent_of es')
  /\ length es = length es'.
Proof.
  induction es as [|e t IH]; intros [|e' t'] H; cbn [map] in H; try discriminate H.
  - split; reflexivity.
  - injection H as H1 H2 H3 Ht. destruct (IH _ Ht) as [Hw Hl].
    split; [| cbn [length]; now rewrite Hl].
    cbn [map tbl_wr_each]. rewrite Hw.
    unfold stsc_wr_entry, stsc_ent_of.
    cbn [stsc_e_first_chunk stsc_e_samples_per_chunk stsc_e_sample_description_index].
    rewrite H1, H2, H3. reflexivity.
Qed.

Lemma enc_stsc_strip es es' : map strip_first_sample es = map strip_first_sample es' ->
  enc_stsc (BoxStsc.mkStsc 0 0 (map stsc_ent_of es)) = enc_stsc (BoxStsc.mkStsc 0 0 (map stsc_ent_of es'))
  /\ stsc_size (BoxStsc.mkStsc 0 0 (map stsc_ent_of es)) = stsc_size (BoxStsc.mkStsc 0 0 (map stsc_ent_of es')).
Proof.
  intros H. destruct (strip_wr_each _ _ H) as [Hw Hl].
  unfold enc_stsc, stsc_size, lenN. cbn [stsc_entries stsc_version stsc_flags].
  rewrite !map_length, Hl, Hw. split; reflexivity.
Qed.

Lemma enc_stbl_stsc_congr m a b c d sc sc' e f g :
  enc_stsc sc = enc_stsc sc' -> stsc_size sc = stsc_size sc' ->
  enc_stbl m (mkStbl a b c d sc e f g) = enc_stbl m (mkStbl a b c d sc' e f g)
  /\ stbl_size (mkStbl a b c d sc e f g) = stbl_size (mkStbl a b c d sc' e f g).
Proof.
  intros H1 H2. unfold enc_stbl, stbl_size.
  cbn [stbl_stsd stbl_stts stbl_ctts stbl_stss stbl_stsc stbl_stsz stbl_stco stbl_co64].
  rewrite H1, H2. split; reflexivity.
Qed.

Lemma enc_stbl_strip m sd tf es es' : map strip_first_sample es = map strip_first_sample es' ->
  enc_stbl m (stbl_of_tfinal sd (tfinal_with_stsc tf es)) = enc_stbl m (stbl_of_tfinal sd (tfinal_with_stsc tf es'))
  /\ stbl_size (stbl_of_tfinal sd (tfinal_with_stsc tf es)) = stbl_size (stbl_of_tfinal sd (tfinal_with_stsc tf es')).
Proof.
  intros H. destruct (enc_stsc_strip _ _ H) as [H1 H2].
  unfold stbl_of_tfinal, tfinal_with_stsc, tables_with_stsc.
  cbn [tf_tables tf_max_sample_size t_stsc t_stsz_size t_stsz_count t_stsz_sizes t_stco t_co64 t_stts t_ctts t_stss].
  now apply enc_stbl_stsc_congr.
Qed.

(** [tf] is [tfinal_with_stsc tf] of its own stsc entries *)
Lemma tfinal_with_stsc_self tf : tfinal_with_stsc tf (t_stsc (tf_tables tf)) = tf.
Proof. destruct tf as [c i [sc zs zc zl co c64 ts ct ss] h mx]. reflexivity. Qed.

Lemma trak_of_tfinal_strip m tf es es' tk : map strip_first_sample es = map strip_first_sample es' ->
  trak_of_tfinal m (tfinal_with_stsc tf es) = Ok tk ->
  exists tk', trak_of_tfinal m (tfinal_with_stsc tf es') = Ok tk'
    /\ enc_trak m tk' = enc_trak m tk /\ trak_size tk' = trak_size tk.
Proof.
  intros H Ht. unfold trak_of_tfinal in *.
  change (tf_conf (tfinal_with_stsc tf es)) with (tf_conf tf) in Ht.
  change (tf_conf (tfinal_with_stsc tf es')) with (tf_conf tf).
  destruct (stsd_of_conf (tc_media (tf_conf tf))) as [sd| | |]; cbn [res_bind] in *; try discriminate Ht.
  injection Ht as <-. eexists. split; [reflexivity|].
  destruct (enc_stbl_strip m sd tf _ _ H) as [H1 H2].
  unfold enc_trak, trak_size, enc_mdia, mdia_size, enc_minf, minf_size.
  cbn [trak_tkhd trak_edts trak_meta trak_mdia mdia_mdhd mdia_hdlr mdia_minf minf_vmhd minf_smhd minf_dinf minf_stbl].
  rewrite H1, H2. split; reflexivity.
Qed.

Lemma trak_of_tfinal_rd m tf tf' tk : tfinal_rd tf = Some tf' -> trak_of_tfinal m tf = Ok tk ->
  exists tk', trak_of_tfinal m tf' = Ok tk' /\ enc_trak m tk' = enc_trak m tk /\ trak_size tk' = trak_size tk.
Proof.
  unfold tfinal_rd. intros H Ht.
  destruct (derive_first_samples (t_stsc (tf_tables tf)) 1) as [es|] eqn:E; cbn [option_map] in H; [|discriminate H].
  injection H as <-. apply derive_first_samples_strip in E.
  rewrite <- (tfinal_with_stsc_self tf) in Ht.
  eapply trak_of_tfinal_strip; [|exact Ht]. symmetry. exact E.
Qed.

Lemma traks_of_rd m tfs : forall tfs' ts, tfinals_rd tfs = Some tfs' -> traks_of m tfs = Ok ts ->
  exists ts', traks_of m tfs' = Ok ts'
    /\ wr_each (enc_trak m) ts' = wr_each (enc_trak m) ts /\ map trak_size ts' = map trak_size ts.
Proof.
  induction tfs as [|tf rest IH]; intros tfs' ts H Ht.
  - cbn [tfinals_rd] in H. injection H as <-. cbn [traks_of] in *. injection Ht as <-.
    exists []. repeat split; reflexivity.
  - cbn [tfinals_rd] in H.
    destruct (tfinal_rd tf) as [tf'|] eqn:E1; [|discriminate H].
    destruct (tfinals_rd rest) as [rest'|] eqn:E2; [|discriminate H].
    injection H as <-. cbn [traks_of] in *.
    destruct (trak_of_tfinal m tf) as [tk| | |] eqn:E3; cbn [res_bind] in Ht; try discriminate Ht.
    destruct (traks_of m rest) as [ts0| | |] eqn:E4; cbn [res_bind] in Ht; try discriminate Ht.
    injection Ht as <-.
    destruct (trak_of_tfinal_rd m tf tf' tk E1 E3) as (tk' & Hk & He & Hs).
    destruct (IH rest' ts0 eq_refl eq_refl) as (ts' & Hk' & He' & Hs').
    exists (tk' :: ts'). rewrite Hk, Hk'. cbn [res_bind]. split; [reflexivity|].
    cbn [wr_each map]. rewrite He, He', Hs, Hs'. split; reflexivity.
Qed.

Theorem enc_moov_rd m f f' mv : mfinal_rd f = Some f' -> moov_of_mfinal m f = Ok mv ->
  exists mv', moov_of_mfinal m f' = Ok mv' /\ enc_moov m mv' = enc_moov m mv /\ moov_size mv' = moov_size mv.
Proof.
  unfold mfinal_rd, moov_of_mfinal. intros H Hm.
  destruct (tfinals_rd (mf_tracks f)) as [ts|] eqn:E; cbn [option_map] in H; [|discriminate H].
  injection H as <-.
  destruct (traks_of m (mf_tracks f)) as [tks| | |] eqn:Et; cbn [res_bind] in Hm; try discriminate Hm.
  injection Hm as <-.
  destruct (traks_of_rd m _ _ _ E Et) as (tks' & Hk & He & Hs).
  unfold mfinal_with_tracks at 1. cbn [mf_tracks]. rewrite Hk. cbn [res_bind].
  eexists. split; [reflexivity|].
  unfold enc_moov, moov_size.
  cbn [moov_mvhd moov_meta moov_mvex moov_traks moov_udta].
  rewrite He, Hs. split; reflexivity.
Qed.

(** ** B2. The built sample-table boxes are well formed once [first_sample] is the derived one *)

(** [stbl_rt_wf] without its first conjunct (the stsd) *)
Definition stbl_tables_wf (v : stbl) : bool :=
  stts_wf (stbl_stts v)
  && match stbl_ctts v with Some x => ctts_wf x | None => true end
  && match stbl_stss v with Some x => stss_wf x | None => true end
  && stsc_wf (stbl_stsc v) && stsz_wf (stbl_stsz v)
  && match stbl_stco v with Some x => stco_wf x | None => true end
  && match stbl_co64 v with Some x => co64_wf x | None => true end
  && match stbl_stco v, stbl_co64 v with None, None => false | _, _ => true end.

Lemma stbl_rt_wf_split v : stbl_rt_wf v = stsd_rt_wf (stbl_stsd v) && stbl_tables_wf v.
Proof. unfold stbl_rt_wf, stbl_tables_wf. destruct (stsd_rt_wf (stbl_stsd v)); reflexivity. Qed.

Lemma stbl_tables_wf_stsd sd sd' a b c d e f g :
  stbl_tables_wf (mkStbl sd a b c d e f g) = stbl_tables_wf (mkStbl sd' a b c d e f g).
Proof. reflexivity. Qed.

(** what [consistent] does not say *)
Definition stsz_shape (tb : tables) : bool :=
  if t_stsz_size tb =? 0 then true else match t_stsz_sizes tb with [] => true | _ => false end.

(** with both offset tables present [consistent] constrains stco only *)
Definition co64_shape (tb : tables) : bool :=
  match t_stco tb, t_co64 tb with
  | Some _, Some l => forallb (fun o => o <? U64) l
  | _, _ => true
  end.

Lemma stco_xor_co64_shape tb :
  match t_stco tb, t_co64 tb with Some _, Some _ => false | _, _ => true end = true -> co64_shape tb = true.
Proof. unfold co64_shape. destruct (t_stco tb), (t_co64 tb); intros H; try reflexivity; discriminate H. Qed.

Lemma ufit4_ltb x : ufit 4 x = (x <? U32).
Proof. unfold ufit. rewrite pow256_4. reflexivity. Qed.
Lemma ufit8_ltb x : ufit 8 x = (x <? U64).
Proof. unfold ufit. rewrite pow256_8. reflexivity. Qed.
Lemma ufit4_of_lt x : x < U32 -> ufit 4 x = true.
Proof. intros H. rewrite ufit4_ltb. now apply N.ltb_lt. Qed.
Lemma ufit1_0 : ufit 1 0 = true. Proof. reflexivity. Qed.
Lemma ufit3_0 : ufit 3 0 = true. Proof. reflexivity. Qed.
Lemma sfit4_32 z : sfit 4 z = fits_signed 32 z.
Proof. reflexivity. Qed.

Lemma lenN_map {A B} (f : A -> B) l : lenN (map f l) = lenN l.
Proof. unfold lenN. now rewrite map_length. Qed.

Lemma forallb_map {A B} (f : A -> B) p l : forallb p (map f l) = forallb (fun x => p (f x)) l.
Proof. induction l as [|x t IH]; cbn [map forallb]; [reflexivity | now rewrite IH]. Qed.

Lemma forallb_impl {A} (p q : A -> bool) l :
  (forall x, p x = true -> q x = true) -> forallb p l = true -> forallb q l = true.
Proof.
  intros Hpq. induction l as [|x t IH]; cbn [forallb]; [reflexivity|].
  intros H. apply andb_true_iff in H as [H1 H2]. now rewrite (Hpq _ H1), (IH H2).
Qed.

Lemma stts_built_wf l :
  forallb (fun e => (fst e <? U32) && (snd e <? U32)) l = true -> lenN l < U32 ->
  stts_wf (mkStts 0 0 (map (fun e => mkSttsEntry (fst e) (snd e)) l)) = true.
Proof.
  intros H Hl. unfold stts_wf. cbn [stts_version stts_flags stts_entries].
  rewrite ufit1_0, ufit3_0, lenN_map, (ufit4_of_lt _ Hl), forallb_map. cbn [andb].
  revert H. apply forallb_impl. intros [a b] H. unfold stts_entry_wf.
  cbn [stts_e_sample_count stts_e_sample_delta fst snd] in *. now rewrite !ufit4_ltb.
Qed.

Lemma ctts_built_wf l :
  forallb (fun e => (fst e <? U32) && fits_signed 32 (snd e)) l = true -> lenN l < U32 ->
  ctts_wf (mkCtts 0 0 (map (fun e => mkCttsEntry (fst e) (snd e)) l)) = true.
Proof.
  intros H Hl. unfold ctts_wf. cbn [ctts_version ctts_flags ctts_entries].
  rewrite ufit1_0, ufit3_0, lenN_map, (ufit4_of_lt _ Hl), forallb_map. cbn [andb].
  revert H. apply forallb_impl. intros [a b] H. unfold ctts_entry_wf.
  cbn [ctts_e_sample_count ctts_e_sample_offset fst snd] in *. now rewrite ufit4_ltb, sfit4_32.
Qed.

Lemma stss_built_wf l n : forallb (fun x => x <=? n) l = true -> n < U32 -> lenN l < U32 ->
  stss_wf (mkStss 0 0 l) = true.
Proof.
  intros H Hn Hl. unfold stss_wf. cbn [stss_version stss_flags stss_entries].
  rewrite ufit1_0, ufit3_0, (ufit4_of_lt _ Hl). cbn [andb].
  revert H. apply forallb_impl. intros x H. apply N.leb_le in H. apply ufit4_of_lt. lia.
Qed.

Lemma stco_built_wf l : forallb (fun o => o <? U32) l = true -> lenN l < U32 ->
  stco_wf (mkStco 0 0 l) = true.
Proof.
  intros H Hl. unfold stco_wf. cbn [stco_version stco_flags stco_entries].
  rewrite ufit1_0, ufit3_0, (ufit4_of_lt _ Hl). cbn [andb].
  revert H. apply forallb_impl. intros x H. now rewrite ufit4_ltb.
Qed.

Lemma co64_built_wf l : forallb (fun o => o <? U64) l = true -> lenN l < U32 ->
  co64_wf (mkCo64 0 0 l) = true.
Proof.
  intros H Hl. unfold co64_wf. cbn [co64_version co64_flags co64_entries].
  rewrite ufit1_0, ufit3_0, (ufit4_of_lt _ Hl). cbn [andb].
  revert H. apply forallb_impl. intros x H. now rewrite ufit8_ltb.
Qed.

Lemma stsz_built_wf sz n sizes : sz < U32 -> n < U32 ->
  (if 0 <? sz then true else lenN sizes =? n) = true ->
  forallb (fun s => s <? U32) sizes = true ->
  (if sz =? 0 then true else match sizes with [] => true | _ => false end) = true ->
  stsz_wf (mkStsz 0 0 sz n sizes) = true.
Proof.
  intros Hsz Hn Hlen Hall Hshape. unfold stsz_wf.
  cbn [stsz_version stsz_flags stsz_sample_size stsz_sample_count stsz_sample_sizes].
  rewrite ufit1_0, ufit3_0, (ufit4_of_lt _ Hsz), (ufit4_of_lt _ Hn). cbn [andb].
  destruct (sz =? 0) eqn:E; [|exact Hshape].
  apply N.eqb_eq in E. subst sz. change (0 <? 0) with false in Hlen.
  apply N.eqb_eq in Hlen. rewrite Hlen, N.eqb_refl. cbn [andb].
  revert Hall. apply forallb_impl. intros x H. now rewrite ufit4_ltb.
Qed.

(** the stsc entries: field bounds from [runs_ok], [stsc_first_ok] from [derive_first_samples] *)
Definition strip_wf (t : N * N * N) : bool :=
  let '(a, b, c) := t in ufit 4 a && ufit 4 b && ufit 4 c.

Lemma stsc_ent_wf_strip e : stsc_ent_wf (stsc_ent_of e) = strip_wf (strip_first_sample e).
Proof. reflexivity. Qed.

Lemma runs_ok_strip_wf runs : forall ef nch, runs_ok runs ef nch = true -> nch < U32 ->
  forallb strip_wf (map strip_first_sample runs) = true.
Proof.
  induction runs as [|e t IH]; intros ef nch H Hn; [reflexivity|].
  cbn [runs_ok] in H.
  repeat match goal with Hc : _ && _ = true |- _ => apply andb_true_iff in Hc; destruct Hc end.
  cbn [map forallb]. rewrite (IH None nch) by assumption. rewrite andb_true_r.
  unfold strip_wf, strip_first_sample.
  repeat match goal with
         | Hc : (_ <? _) = true |- _ => apply N.ltb_lt in Hc
         | Hc : (_ <=? _) = true |- _ => apply N.leb_le in Hc
         end.
  rewrite !ufit4_of_lt; [reflexivity | | |]; lia.
Qed.

Lemma stsc_first_ok_cons2 e nx t sid :
  stsc_first_ok (e :: nx :: t) sid
  = (stsc_e_first_sample e =? sid)
    && match stsc_next_id e nx sid with None => false | Some s => stsc_first_ok (nx :: t) s end.
Proof. reflexivity. Qed.

Lemma derive_first_ok runs : forall sid es, derive_first_samples runs sid = Some es ->
  stsc_first_ok (map stsc_ent_of es) sid = true.
Proof.
  induction runs as [|e t IH]; intros sid es H.
  - cbn [derive_first_samples] in H. injection H as <-. reflexivity.
  - cbn [derive_first_samples] in H. destruct t as [|nx t'].
    + injection H as <-. cbn [map stsc_first_ok stsc_ent_of stsc_e_first_sample].
      now rewrite N.eqb_refl.
    + destruct (checked_sub (sc_first_chunk nx) (sc_first_chunk e)) as [d|] eqn:E1; [|discriminate H].
      destruct (checked_mul U32 d (sc_samples_per_chunk e)) as [dm|] eqn:E2; [|discriminate H].
      destruct (checked_add U32 dm sid) as [sid'|] eqn:E3; [|discriminate H].
      destruct (derive_first_samples (nx :: t') sid') as [r|] eqn:E; [|discriminate H].
      injection H as <-.
      pose proof (derive_first_samples_strip _ _ _ E) as Hs.
      apply IH in E.
      destruct r as [|nx' r']; [discriminate Hs|].
      cbn [map] in Hs. injection Hs as Hc _ _ _.
      cbn [map] in E |- *. rewrite stsc_first_ok_cons2.
      match goal with |- context [stsc_next_id ?a ?b ?c] =>
        assert (Hn : stsc_next_id a b c = Some sid') end.
      { unfold stsc_next_id, stsc_ent_of.
        cbn [stsc_e_first_chunk stsc_e_samples_per_chunk sc_first_chunk sc_samples_per_chunk].
        rewrite Hc, E1, E2, E3. reflexivity. }
      rewrite Hn. cbn [stsc_ent_of stsc_e_first_sample sc_first_sample].
      rewrite N.eqb_refl. exact E.
Qed.

Lemma stsc_built_wf runs ef nch es : runs_ok runs ef nch = true -> nch < U32 ->
  derive_first_samples runs 1 = Some es -> lenN es < U32 ->
  stsc_wf (BoxStsc.mkStsc 0 0 (map stsc_ent_of es)) = true.
Proof.
  intros Hr Hn Hd Hl. unfold stsc_wf. cbn [stsc_version stsc_flags stsc_entries].
  rewrite ufit1_0, ufit3_0, lenN_map, (ufit4_of_lt _ Hl), (derive_first_ok _ _ _ Hd). cbn [andb].
  rewrite andb_true_r, forallb_map.
  change (forallb (fun x => stsc_ent_wf (stsc_ent_of x)) es)
    with (forallb (fun x => strip_wf (strip_first_sample x)) es).
  rewrite <- (forallb_map strip_first_sample strip_wf), (derive_first_samples_strip _ _ _ Hd).
  eapply runs_ok_strip_wf; eassumption.
Qed.

Lemma andb8_intro a b c d e f g h :
  a = true -> b = true -> c = true -> d = true -> e = true -> f = true -> g = true -> h = true ->
  a && b && c && d && e && f && g && h = true.
Proof. intros -> -> -> -> -> -> -> ->. reflexivity. Qed.

Theorem stbl_of_tfinal_wf sd tf es :
  consistent (tf_tables tf) = true ->
  stsz_shape (tf_tables tf) = true -> co64_shape (tf_tables tf) = true ->
  derive_first_samples (t_stsc (tf_tables tf)) 1 = Some es ->
  stbl_size (stbl_of_tfinal sd (tfinal_with_stsc tf es)) < U32 ->
  stbl_tables_wf (stbl_of_tfinal sd (tfinal_with_stsc tf es)) = true.
Proof.
  destruct tf as [c i [sc zs zc zl co c64 ts ct ss] h mx].
  unfold stbl_of_tfinal, tfinal_with_stsc, tables_with_stsc, stsz_shape, co64_shape, stbl_tables_wf, stbl_size.
  cbn [tf_tables tf_max_sample_size t_stsc t_stsz_size t_stsz_count t_stsz_sizes t_stco t_co64 t_stts t_ctts t_stss
       stbl_stsd stbl_stts stbl_ctts stbl_stss stbl_stsc stbl_stsz stbl_stco stbl_co64].
  intros Hc Hz Hco Hd Hs.
  unfold consistent, chunk_offsets in Hc.
  cbn [t_stsc t_stsz_size t_stsz_count t_stsz_sizes t_stco t_co64 t_stts t_ctts t_stss] in Hc.
  assert (HU : U32 = 4294967296) by reflexivity.
  destruct ct as [ct|], ss as [ss|], co as [co|], c64 as [c64|];
    cbn [option_map] in Hs |- *; cbv beta iota zeta in Hc;
    unfold stts_size, ctts_size, stss_size, stsc_size, stsz_size, stco_size, co64_size,
      HEADER_SIZE, HEADER_EXT_SIZE, Tables.HEADER_SIZE, Tables.HEADER_EXT_SIZE in Hs;
    cbn [stts_entries ctts_entries stss_entries stsc_entries stsz_sample_sizes stco_entries co64_entries] in Hs;
    rewrite ?lenN_map in Hs;
    repeat match goal with H : _ && _ = true |- _ => apply andb_true_iff in H; destruct H end;
    try discriminate;
    repeat match goal with H : (_ <? _) = true |- _ => apply N.ltb_lt in H end;
    cbv beta iota; apply andb8_intro;
    first
      [ reflexivity
      | apply stts_built_wf; [assumption | lia]
      | apply ctts_built_wf; [assumption | lia]
      | apply (stss_built_wf _ zc); [assumption | lia | lia]
      | eapply stsc_built_wf; [eassumption | lia | eassumption | lia]
      | apply stsz_built_wf; [assumption | lia | assumption | assumption | assumption]
      | apply stco_built_wf; [assumption | lia]
      | apply co64_built_wf; [assumption | lia] ].
Qed.

(** the statement with a representable stsd *)
Corollary stbl_of_tfinal_rt_wf sd tf es :
  consistent (tf_tables tf) = true ->
  stsz_shape (tf_tables tf) = true -> co64_shape (tf_tables tf) = true ->
  derive_first_samples (t_stsc (tf_tables tf)) 1 = Some es ->
  stsd_rt_wf (stsd_finish sd (tf_max_sample_size tf)) = true ->
  stbl_size (stbl_of_tfinal sd (tfinal_with_stsc tf es)) < U32 ->
  stbl_rt_wf (stbl_of_tfinal sd (tfinal_with_stsc tf es)) = true.
Proof.
  intros Hc Hz Hco Hd Hsd Hs. rewrite stbl_rt_wf_split.
  rewrite (stbl_of_tfinal_wf sd tf es Hc Hz Hco Hd Hs), andb_true_r. exact Hsd.
Qed.

(** the two extra hypotheses are needed: consistent tables violating one of them whose box is not
    well formed (a co64 entry of 2^64 next to an stco; a sample_sizes table next to a fixed sample_size) *)
Example co64_shape_needed c i h mx sd :
  let tb := mkTables [Track.mkStsc 1 1 1 1] 0 1 [5] (Some [100]) (Some [U64]) [(1, 10)] None None in
  let tf := mkTf c i tb h mx in
  consistent tb = true /\ stsz_shape tb = true /\ co64_shape tb = false
  /\ derive_first_samples (t_stsc tb) 1 = Some (t_stsc tb)
  /\ stbl_tables_wf (stbl_of_tfinal sd (tfinal_with_stsc tf (t_stsc tb))) = false.
Proof. vm_compute. repeat split; reflexivity. Qed.

Example stsz_shape_needed c i h mx sd :
  let tb := mkTables [Track.mkStsc 1 1 1 1] 5 1 [7] (Some [100]) None [(1, 10)] None None in
  let tf := mkTf c i tb h mx in
  consistent tb = true /\ stsz_shape tb = false /\ co64_shape tb = true
  /\ derive_first_samples (t_stsc tb) 1 = Some (t_stsc tb)
  /\ stbl_tables_wf (stbl_of_tfinal sd (tfinal_with_stsc tf (t_stsc tb))) = false.
Proof. vm_compute. repeat split; reflexivity. Qed.

Print Assumptions stbl_tables_of_tfinal.
Print Assumptions track_view_of_tfinal.
Print Assumptions enc_moov_rd.
Print Assumptions stbl_of_tfinal_wf.
Print Assumptions stbl_of_tfinal_rt_wf.
