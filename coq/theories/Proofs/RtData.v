(** Round trip of [DataBox] *)
From MP4 Require Import Kit VlKit BoxData IsoData.
From Coq Require Import ZifyN ZifyNat ZifyBool.
Open Scope string_scope.
Open Scope list_scope.
Open Scope N_scope.

Lemma data_code : u32_of_boxtype (box_type_of "DataBox") = 0x64617461.
Proof. vm_compute. reflexivity. Qed.

Definition data_type_cond (n : string) : bool :=
  match datatype_try_from (datatype_discr n) with
  | Ok n' => String.eqb n' n
  | _ => false
  end.

Lemma data_type_names n : data_type_cond n = true ->
  n = "Binary" \/ n = "Text" \/ n = "Image" \/ n = "TempoCpil".
Proof.
  unfold data_type_cond, datatype_try_from, enum_try_from, Tables.DataType_tryfrom.
  generalize (datatype_discr n). intros x. cbn [lookup_n].
  destruct (x =? 0); [|destruct (x =? 1); [|destruct (x =? 13); [|destruct (x =? 21)]]];
    try discriminate; intros H; apply String.eqb_eq in H; auto.
Qed.

Lemma data_type_ok n : data_type_cond n = true ->
  be 1 0 ++ be 3 (iso_data_type_code n) = be 4 (datatype_discr n)
  /\ datatype_discr n < 256 ^ N.of_nat 4
  /\ datatype_try_from (datatype_discr n) = Ok n.
Proof.
  intros H. destruct (data_type_names n H) as [ -> | [ -> | [ -> | -> ] ] ]; vm_compute; auto.
Qed.

Lemma data_size_eq v : data_size v = 16 + lenN (data_data v).
Proof. unfold data_size, HEADER_SIZE, Tables.HEADER_SIZE. lia. Qed.

Lemma data_enc v : data_wf v = true -> data_size v < U32 ->
  wspec (enc_data v) (data_size v) (be 4 (data_size v) ++ be 4 0x64617461 ++ iso_data_payload v).
Proof.
  intros H Hs. unfold data_wf in H. split_andb.
  match goal with H : match _ with _ => _ end = true |- _ =>
    destruct (data_type_ok _ H) as (E1 & E2 & E3) end.
  unfold enc_data, iso_data_payload. rewrite <- data_code.
  eapply wspec_out.
  - wspec_go.
  - rewrite (app_assoc (be 1 0)), E1. rewrite <- !app_assoc, ?app_nil_r. reflexivity.
Qed.

Lemma data_payload_len v : lenN (iso_data_payload v) + 8 = data_size v.
Proof. rewrite data_size_eq. unfold iso_data_payload. rewrite ?lenN_app, ?lenN_be. lia. Qed.

Lemma data_dec m v d l p post : data_wf v = true -> p + data_size v < 2 ^ 63 ->
  run (dec_data m (data_size v)) (mkStream d l (p + 8) (iso_data_payload v ++ post))
  = (Ok v, mkStream d l (p + data_size v) post).
Proof.
  intros H Hp. unfold data_wf in H. split_andb.
  match goal with H : match _ with _ => _ end = true |- _ =>
    destruct (data_type_ok _ H) as (E1 & E2 & E3) end.
  pose proof (data_size_eq v) as Hsz.
  unfold dec_data, iso_data_payload.
  rewrite (app_assoc (be 1 0)), E1.
  change (be 2 0 ++ be 2 0 ++ data_data v) with (be 4 0 ++ data_data v).
  rewrite <- !app_assoc.
  rewrite run_box_start.
  rd_step. rewrite E3. rd_step.
  rewrite run_GetPos.
  rewrite run_add64_ok by (clear -Hp; unfold U64; lia).
  rewrite checked_sub_ok by (clear -Hsz; lia).
  rewrite (run_rd_vec_bind _ (data_data v)) by (clear -Hsz; lia).
  cbn [run]. f_equal.
  - destruct v; reflexivity.
  - f_equal. clear -Hsz. lia.
Qed.

Theorem data_roundtrip : leaf_roundtrip data_wf data_size 0x64617461 enc_data dec_data iso_data_payload.
Proof.
  apply leaf_roundtrip_intro.
  - apply data_enc.
  - intros; apply data_payload_len.
  - intros; now apply data_dec.
Qed.

Print Assumptions data_roundtrip.
