(** Round trip of [ElstBox] *)
From MP4 Require Import TblKit BoxElst IsoElst.
From Coq Require Import ZifyN ZifyNat ZifyBool.
Open Scope string_scope.
Open Scope list_scope.
Open Scope N_scope.

Lemma elst_code : u32_of_boxtype (box_type_of "ElstBox") = 0x656c7374.
Proof. vm_compute. reflexivity. Qed.

Lemma elst_size_eq v :
  elst_size v = 8 + 4 + 4 + (if elst_version v =? 1 then 20 else 12) * lenN (elst_entries v).
Proof.
  unfold elst_size, HEADER_SIZE, HEADER_EXT_SIZE, Tables.HEADER_SIZE, Tables.HEADER_EXT_SIZE.
  destruct (elst_version v =? 1); lia.
Qed.

Lemma elst_wr_entry_ok ver e : elst_entry_wf ver e = true ->
  wfin (elst_wr_entry ver e) = Ok tt /\ wout (elst_wr_entry ver e) = iso_elst_entry ver e.
Proof.
  intros H. unfold elst_entry_wf in H. unfold elst_wr_entry, iso_elst_entry.
  destruct (ver =? 1); split_andb; enc_norm; (split; [reflexivity|]).
  - rewrite <- !app_assoc. now rewrite app_nil_r.
  - rewrite !cast_u32_small by assumption. rewrite <- !app_assoc. now rewrite app_nil_r.
Qed.

Lemma elst_wr_entry_app ver e : appender (elst_wr_entry ver e).
Proof. unfold elst_wr_entry. destruct (ver =? 1); exact I. Qed.

Lemma elst_enc v : elst_wf v = true -> elst_size v < U32 ->
  wfin (enc_elst v) = Ok (elst_size v) /\
  wout (enc_elst v) = be 4 (elst_size v) ++ be 4 0x656c7374 ++ iso_elst_payload v.
Proof.
  intros H Hs. unfold enc_elst, iso_elst_payload. unfold elst_wf in H. split_andb.
  rewrite write_header_small by exact Hs. rewrite elst_code.
  rewrite write_header_ext_small by assumption.
  match goal with H : forallb _ _ = true |- _ => rewrite forallb_forall in H end.
  set (W := tbl_wr_each (elst_wr_entry (elst_version v)) (elst_entries v)).
  enc_norm. subst W.
  rewrite (tbl_wfin_each_bind _ (iso_elst_entry (elst_version v))),
          (tbl_wout_each_bind _ (iso_elst_entry (elst_version v)))
    by (first [intros; apply elst_wr_entry_app | intros; apply elst_wr_entry_ok; auto]).
  cbn [wfin wout]. split; [reflexivity|].
  rewrite cast_u32_small by assumption. rewrite app_nil_r. reflexivity.
Qed.

Lemma elst_entry_len ver e : lenN (iso_elst_entry ver e) = if ver =? 1 then 20 else 12.
Proof.
  unfold iso_elst_entry. destruct (ver =? 1); rewrite !lenN_app, !lenN_be; reflexivity.
Qed.

Lemma elst_rd_entry_ok {B} ver es d l x (k' : elst_entry -> prog B) p' rest' :
  forallb (elst_entry_wf ver) es = true -> In x es ->
  run (bind (elst_rd_entry ver) k') (mkStream d l p' (iso_elst_entry ver x ++ rest'))
  = run (k' x) (mkStream d l (p' + (if ver =? 1 then 20 else 12)) rest').
Proof.
  intros Hall Hin. rewrite forallb_forall in Hall. apply Hall in Hin.
  unfold elst_entry_wf in Hin. unfold elst_rd_entry, iso_elst_entry.
  destruct (ver =? 1); split_andb; rewrite <- !app_assoc; do 4 rd_step; prog_norm;
    destruct x as [a b c e];
    cbn [elst_e_segment_duration elst_e_media_time elst_e_media_rate elst_e_media_rate_fraction];
    do 2 f_equal; clear; lia.
Qed.

Lemma elst_dec m v d l p post : elst_wf v = true -> p + elst_size v < 2^63 ->
  run (dec_elst m (elst_size v)) (mkStream d l (p + 8) (iso_elst_payload v ++ post))
  = (Ok v, mkStream d l (p + elst_size v) post).
Proof.
  intros H Hp. unfold dec_elst, iso_elst_payload. unfold elst_wf in H. split_andb.
  pose proof (elst_size_eq v) as Hsz.
  rewrite <- !app_assoc.
  prog_norm. cbn [run s_pos].
  rewrite run_sub64_ok by (clear; unfold HEADER_SIZE, Tables.HEADER_SIZE; lia).
  do 3 rd_step.
  rewrite (tbl_guard_false _ _ _ _ (lenN (elst_entries v)))
    by (first [ clear; destruct (elst_version v =? 1); lia
              | rewrite Hsz; unfold HEADER_SIZE, HEADER_EXT_SIZE, Tables.HEADER_SIZE, Tables.HEADER_EXT_SIZE;
                clear; destruct (elst_version v =? 1); lia ]).
  prog_norm. rewrite run_Alloc.
  rewrite (run_rd_n_lenN_bind _ (iso_elst_entry (elst_version v)) (if elst_version v =? 1 then 20 else 12))
    by (intros; now apply (elst_rd_entry_ok _ (elst_entries v))).
  rewrite run_add64_ok by (clear -Hsz Hp; unfold HEADER_SIZE, Tables.HEADER_SIZE, U64; lia).
  prog_norm.
  rewrite run_SeekTo_here by (clear -Hsz; unfold HEADER_SIZE, Tables.HEADER_SIZE; lia).
  cbn [run]. f_equal.
  - destruct v; reflexivity.
  - f_equal. clear -Hsz. lia.
Qed.

Lemma elst_payload_len v : lenN (iso_elst_payload v) + 8 = elst_size v.
Proof.
  rewrite elst_size_eq. unfold iso_elst_payload.
  rewrite !lenN_app, !lenN_be,
    (lenN_flat_map_const (iso_elst_entry (elst_version v)) (if elst_version v =? 1 then 20 else 12))
    by apply elst_entry_len.
  lia.
Qed.

Lemma elst_appender v : elst_wf v = true -> elst_size v < U32 -> appender (enc_elst v).
Proof.
  intros H Hs. unfold enc_elst. rewrite write_header_small by exact Hs.
  unfold elst_wf in H. split_andb.
  rewrite write_header_ext_small by assumption.
  cbn [wbind appender wr wr_u32 wr_u].
  apply tbl_appender_each_bind; intros; [apply elst_wr_entry_app | exact I].
Qed.

Theorem elst_roundtrip : leaf_roundtrip elst_wf elst_size 0x656c7374 enc_elst dec_elst iso_elst_payload.
Proof.
  intros v H Hs. destruct (elst_enc v H Hs) as [H1 H2].
  split; [exact H1|]. split; [now apply elst_appender|]. split; [exact H2|].
  split; [now apply elst_payload_len|].
  intros m d l p post Hp. now apply elst_dec.
Qed.

Print Assumptions elst_roundtrip.
