(** * Lemmas shared by the round-trip proofs of the sample-table boxes *)
From MP4 Require Export Kit TblPrim.
From Coq Require Import ZifyN ZifyNat ZifyBool.
Open Scope string_scope.
Open Scope list_scope.
Open Scope N_scope.

(** ** the write loop *)
Lemma tbl_wr_each_appender {A} (f : A -> wprog unit) l :
  (forall x, appender (f x)) -> appender (tbl_wr_each f l).
Proof.
  intros H. induction l as [|x t IH]; cbn [tbl_wr_each appender]; [exact I|].
  apply appender_bind; [apply H | intros _; exact IH].
Qed.

Lemma tbl_wr_each_spec {A} (f : A -> wprog unit) (enc : A -> bytes) l :
  (forall x, appender (f x)) ->
  (forall x, In x l -> wfin (f x) = Ok tt /\ wout (f x) = enc x) ->
  wfin (tbl_wr_each f l) = Ok tt /\ wout (tbl_wr_each f l) = flat_map enc l.
Proof.
  intros Ha H. induction l as [|x t IH]; cbn [tbl_wr_each flat_map wfin wout]; [auto|].
  destruct (H x (or_introl eq_refl)) as [H1 H2].
  destruct IH as [I1 I2]; [intros y Hy; apply H; now right|].
  rewrite wfin_bind, wout_bind by apply Ha. rewrite H1, H2. cbn [res_bind]. now rewrite I1, I2.
Qed.

Lemma tbl_wr_each_bind {A B} (f : A -> wprog unit) (enc : A -> bytes) l (k : unit -> wprog B) :
  (forall x, appender (f x)) ->
  (forall x, In x l -> wfin (f x) = Ok tt /\ wout (f x) = enc x) ->
  wfin (wbind (tbl_wr_each f l) k) = wfin (k tt) /\
  wout (wbind (tbl_wr_each f l) k) = flat_map enc l ++ wout (k tt).
Proof.
  intros Ha H. destruct (tbl_wr_each_spec f enc l Ha H) as [H1 H2].
  rewrite wfin_bind, wout_bind by (apply tbl_wr_each_appender, Ha).
  rewrite H1, H2. cbn [res_bind]. auto.
Qed.

Lemma tbl_wfin_each_bind {A B} (f : A -> wprog unit) (enc : A -> bytes) l (k : unit -> wprog B) :
  (forall x, appender (f x)) ->
  (forall x, In x l -> wfin (f x) = Ok tt /\ wout (f x) = enc x) ->
  wfin (wbind (tbl_wr_each f l) k) = wfin (k tt).
Proof. intros Ha H. apply (tbl_wr_each_bind f enc l k Ha H). Qed.

Lemma tbl_wout_each_bind {A B} (f : A -> wprog unit) (enc : A -> bytes) l (k : unit -> wprog B) :
  (forall x, appender (f x)) ->
  (forall x, In x l -> wfin (f x) = Ok tt /\ wout (f x) = enc x) ->
  wout (wbind (tbl_wr_each f l) k) = flat_map enc l ++ wout (k tt).
Proof. intros Ha H. apply (tbl_wr_each_bind f enc l k Ha H). Qed.

Lemma tbl_appender_each_bind {A B} (f : A -> wprog unit) l (k : unit -> wprog B) :
  (forall x, appender (f x)) -> appender (k tt) -> appender (wbind (tbl_wr_each f l) k).
Proof.
  intros Ha Hk. apply appender_bind; [apply tbl_wr_each_appender, Ha | intros []; exact Hk].
Qed.

(** ** lengths *)
Lemma lenN_flat_map_const {A} (enc : A -> bytes) n l :
  (forall x, lenN (enc x) = n) -> lenN (flat_map enc l) = n * lenN l.
Proof.
  intros H. induction l as [|x t IH]; cbn [flat_map].
  - change (lenN (@nil A)) with 0. change (lenN (@nil N)) with 0. lia.
  - rewrite lenN_app, lenN_cons, H, IH. lia.
Qed.

Lemma to_nat_lenN {A} (l : list A) : N.to_nat (lenN l) = length l.
Proof. unfold lenN. apply Nat2N.id. Qed.

Lemma flat_map_map {A B C} (g : A -> B) (f : B -> list C) l :
  flat_map f (map g l) = flat_map (fun x => f (g x)) l.
Proof. induction l as [|x t IH]; cbn [map flat_map]; [reflexivity|]. now rewrite IH. Qed.

Lemma flat_map_ext_in {A B} (f g : A -> list B) l :
  (forall x, In x l -> f x = g x) -> flat_map f l = flat_map g l.
Proof.
  intros H. induction l as [|x t IH]; cbn [flat_map]; [reflexivity|].
  rewrite H by (now left). rewrite IH; [reflexivity|]. intros y Hy. apply H. now right.
Qed.

(** the guard [count > (size - 12 - other) / esz] of the table boxes is false on the exact size *)
Lemma tbl_guard_ok esz n : esz <> 0 -> (esz * n / esz <? n) = false.
Proof. intros H. rewrite N.mul_comm, N.div_mul by exact H. apply N.ltb_irrefl. Qed.

Lemma tbl_guard_false size hdr other esz n :
  esz <> 0 -> size = hdr + other + esz * n -> ((size - hdr - other) / esz <? n) = false.
Proof.
  intros H ->. replace (hdr + other + esz * n - hdr - other) with (esz * n) by lia.
  now apply tbl_guard_ok.
Qed.

(** [rd_n] over the N-length of the list, as it appears in the decoders *)
Lemma run_rd_n_lenN_bind {A B} (body : prog A) (encode : A -> bytes) (elen : N) (xs : list A)
      (k : list A -> prog B) d l p rest :
  (forall x (k' : A -> prog B) p' rest', In x xs ->
      run (bind body k') (mkStream d l p' (encode x ++ rest')) = run (k' x) (mkStream d l (p' + elen) rest')) ->
  run (bind (rd_n (N.to_nat (lenN xs)) body) k) (mkStream d l p (flat_map encode xs ++ rest))
  = run (k xs) (mkStream d l (p + elen * lenN xs) rest).
Proof. rewrite to_nat_lenN. apply run_rd_n_bind. Qed.

Lemma run_Alloc {A} n (k : prog A) s : run (Alloc n k) s = run k s.
Proof. reflexivity. Qed.
Lemma run_Step {A} (k : prog A) s : run (Step k) s = run k s.
Proof. reflexivity. Qed.
