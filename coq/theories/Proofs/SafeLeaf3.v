(** * C06, leaf layer (3): hdlr, data, emsg, trun, url / dref / dinf, vp09 never panic
    — statements as in SafeLeaf1.v *)
From MP4 Require Import Hoare SafeLeaf1.
From MP4 Require Import BoxHdlr BoxData BoxEmsg BoxTrun BoxDinf BoxVpcc BoxVp09.
From Coq Require Import ZArith ZifyN ZifyNat ZifyBool Lia.
Open Scope N_scope.

Ltac leaf_start := intros d p size Hd Hl H8 Hp Hs.

Ltac sat_loop_any body_tac :=
  eapply sat_rd_n_bind with (I := fun _ => True);
  [ exact I
  | let p' := fresh "p" in intros p' _; apply sat_bind_ret; body_tac; sat_go; exact I
  | let l := fresh "l" in let p' := fresh "p" in intros l p' _ ].

(** ** hdlr *)
Lemma dec_hdlr_sat m : leaf_sat (dec_hdlr m).
Proof. leaf_start. unfold dec_hdlr. sat_go; sat_arith. Qed.
Definition dec_hdlr_safe m : leaf_safe (dec_hdlr m) := leaf_safe_of_sat _ (dec_hdlr_sat m).

(** ** data: [DataType::try_from] fails with an error, never a panic; the box is read to its
    end rather than skipped *)
Lemma sat_enum_try_from {B} d p tbl x (k : string -> prog B) Q :
  (forall n, sat d p (k n) Q) -> sat d p (bind (lift (enum_try_from tbl x)) k) Q.
Proof.
  intros H. unfold enum_try_from. destruct (lookup_n x tbl); cbn [lift bind]; [apply H|apply sat_throw].
Qed.

Lemma dec_data_sat m : leaf_sat (dec_data m).
Proof.
  leaf_start. unfold dec_data. sat_go.
  unfold datatype_try_from. apply sat_enum_try_from. intros data_type.
  sat_go. sat_bools. sat_arith.
Qed.
Definition dec_data_safe m : leaf_safe (dec_data m) := leaf_safe_of_sat _ (dec_data_sat m).

(** ** emsg *)
Lemma sat_emsg_rd_cstr_loop d p n acc : bytes_ok d = true ->
  sat d p (emsg_rd_cstr_loop n acc) (fun _ _ => True).
Proof.
  intros Hd. revert p acc; induction n as [|n IH]; intros p acc; cbn [emsg_rd_cstr_loop].
  - apply sat_throw.
  - sat_go; [exact I|]. apply IH.
Qed.

Lemma sat_emsg_rd_string {B} d p m start size (k : bytes -> prog B) Q :
  bytes_ok d = true -> start + size < U64 ->
  (forall s p', sat d p' (k s) Q) ->
  sat d p (bind (emsg_rd_string m start size) k) Q.
Proof.
  intros Hd Hs H. unfold emsg_rd_string, emsg_rd_cstr. sat_go.
  eapply sat_bind; [apply sat_emsg_rd_cstr_loop; exact Hd|]. cbn beta. intros bs p' _.
  sat_go; apply H.
Qed.

Lemma dec_emsg_sat m : leaf_sat (dec_emsg m).
Proof.
  leaf_start. unfold dec_emsg. sat_go.
  - apply sat_emsg_rd_string; [exact Hd|sat_arith|]. intros s1 p1.
    apply sat_bind_assoc.
    apply sat_emsg_rd_string; [exact Hd|sat_arith|]. intros s2 p2.
    sat_go. sat_loop_any idtac. sat_go; sat_arith.
  - apply sat_emsg_rd_string; [exact Hd|sat_arith|]. intros s1 p1.
    apply sat_bind_assoc.
    apply sat_emsg_rd_string; [exact Hd|sat_arith|]. intros s2 p2.
    sat_go. sat_loop_any idtac. sat_go; sat_arith.
Qed.
Definition dec_emsg_safe m : leaf_safe (dec_emsg m) := leaf_safe_of_sat _ (dec_emsg_sat m).

(** ** trun *)
Lemma sat_trun_rd_opt {B} d p b (k : option N -> prog B) Q :
  bytes_ok d = true -> (forall o p', sat d p' (k o) Q) -> sat d p (bind (trun_rd_opt b) k) Q.
Proof. intros Hd H. unfold trun_rd_opt. destruct b; sat_go; apply H. Qed.

Lemma sat_trun_rd_row d p flags : bytes_ok d = true -> sat d p (trun_rd_row flags) (fun _ _ => True).
Proof.
  intros Hd. unfold trun_rd_row.
  apply sat_trun_rd_opt; [exact Hd|]. intros o1 p1.
  apply sat_trun_rd_opt; [exact Hd|]. intros o2 p2.
  apply sat_trun_rd_opt; [exact Hd|]. intros o3 p3.
  apply sat_trun_rd_opt; [exact Hd|]. intros o4 p4.
  now apply sat_ret.
Qed.

(** the optional fields and the conditional [reserve]s are stepped over without a case split
    (2^7 paths otherwise), and the size test is not kept: nothing after it depends on it *)
Lemma dec_trun_sat m : leaf_sat (dec_trun m).
Proof.
  leaf_start. unfold dec_trun. do 3 sat_step.
  apply sat_bind_any; [destruct (trun_has trun_FLAG_DATA_OFFSET flags); sat_go; exact I|].
  intros data_offset p1.
  apply sat_bind_any; [destruct (trun_has trun_FLAG_FIRST_SAMPLE_FLAGS flags); sat_go; exact I|].
  intros first_sample_flags p2.
  match goal with |- sat _ _ (if ?b then _ else _) _ => destruct b; [apply sat_throw|] end.
  apply sat_bind_any; [destruct (trun_has trun_FLAG_SAMPLE_DURATION flags); sat_go; exact I|].
  intros _ p3.
  apply sat_bind_any; [destruct (trun_has trun_FLAG_SAMPLE_SIZE flags); sat_go; exact I|].
  intros _ p4.
  apply sat_bind_any; [destruct (trun_has trun_FLAG_SAMPLE_FLAGS flags); sat_go; exact I|].
  intros _ p5.
  apply sat_bind_any; [destruct (trun_has trun_FLAG_SAMPLE_CTS flags); sat_go; exact I|].
  intros _ p6.
  apply sat_bind_any; [|intros rows p7].
  - apply sat_rd_n_inv with (I := fun _ => True); [exact I|].
    intros p' _. now apply sat_trun_rd_row.
  - clear - Hd Hl H8 Hp Hs. sat_go; sat_arith.
Qed.
Definition dec_trun_safe m : leaf_safe (dec_trun m) := leaf_safe_of_sat _ (dec_trun_sat m).

(** ** url, dref, dinf *)
Lemma dec_url_sat m : leaf_sat (dec_url m).
Proof. leaf_start. unfold dec_url. sat_go; sat_arith. Qed.
Definition dec_url_safe m : leaf_safe (dec_url m) := leaf_safe_of_sat _ (dec_url_sat m).

Lemma sat_dref_loop d m n size end_ u current p :
  bytes_ok d = true -> lenN d < 2 ^ 62 -> size < 2 ^ 62 ->
  sat d p (dref_loop m n size end_ u current) (fun _ _ => True).
Proof.
  intros Hd Hl Hs. revert u current p; induction n as [|n IH]; intros u current p; cbn [dref_loop].
  - now apply sat_ret.
  - sat_go; try exact I; sat_bools.
    + apply (sat_leaf_bind (dec_url m)); [apply dec_url_sat|auto|auto|sat_arith|auto|sat_arith|].
      intros x. sat_go. apply IH.
    + sat_go. apply IH.
Qed.

Lemma dec_dref_sat m : leaf_sat (dec_dref m).
Proof.
  leaf_start. unfold dec_dref. sat_go.
  eapply sat_bind; [apply sat_dref_loop; auto|]. cbn beta. intros u p1 _.
  sat_go; sat_arith.
Qed.
Definition dec_dref_safe m : leaf_safe (dec_dref m) := leaf_safe_of_sat _ (dec_dref_sat m).

Lemma sat_dinf_loop d m fuel size end_ x current p :
  bytes_ok d = true -> lenN d < 2 ^ 62 -> size < 2 ^ 62 ->
  sat d p (dinf_loop m fuel size end_ x current) (fun _ _ => True).
Proof.
  intros Hd Hl Hs. revert x current p; induction fuel as [|fuel IH]; intros x current p; cbn [dinf_loop].
  - sat_go; exact I.
  - sat_go; try exact I; sat_bools.
    + apply (sat_leaf_bind (dec_dref m)); [apply dec_dref_sat|auto|auto|sat_arith|auto|sat_arith|].
      intros y. sat_go. apply IH.
    + sat_go. apply IH.
Qed.

Lemma dec_dinf_sat m : leaf_sat (dec_dinf m).
Proof.
  leaf_start. unfold dec_dinf. sat_go.
  eapply sat_bind; [apply sat_dinf_loop; auto|]. cbn beta. intros x p1 _.
  sat_go; sat_arith.
Qed.
Definition dec_dinf_safe m : leaf_safe (dec_dinf m) := leaf_safe_of_sat _ (dec_dinf_sat m).

(** ** vp09: fixed fields, then a child header and [dec_vpcc] on the child's declared size *)
Lemma dec_vp09_sat m : leaf_sat (dec_vp09 m).
Proof.
  leaf_start. unfold dec_vp09. sat_go. sat_bools.
  apply (sat_leaf_bind (dec_vpcc m)); [apply dec_vpcc_sat|auto|auto|sat_arith|auto|sat_arith|].
  intros vp. sat_go; sat_arith.
Qed.
Definition dec_vp09_safe m : leaf_safe (dec_vp09 m) := leaf_safe_of_sat _ (dec_vp09_sat m).
