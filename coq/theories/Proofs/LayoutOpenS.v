(** * The top-level loop on a stream that is consistent with its data

    [open_fuel_children] (LayoutOpen.v) asks every child body to decode on ANY stream state
    [(d, view)]; a [moov] box that may contain a [meta] box cannot promise that ([meta] seeks
    backwards, so it re-reads its data).  Every stream that exists at run time is consistent:
    the view is what the data holds at the position.  This file repeats the loop theorem for
    such streams: [decodes_to_s] is [decodes_to] with the hypothesis
    [dropN (q + 8) d = c_payload c ++ rest], which is what [cont_roundtrip_s] needs, and
    [open_fuel_children_s] is [open_fuel_children] for a stream with [dropN p d = render cs ++ rest]. *)
From MP4 Require Import LayoutKit LayoutProofs LayoutMore LayoutOpen Reader KitCont RtMoov RtFtyp IsoFtyp IsoMoov.
From Coq Require Import ZifyN ZifyNat ZifyBool.
Open Scope string_scope.
Open Scope list_scope.
Open Scope N_scope.

Definition body_ok_at_s {Acc} (dispatch : nat -> N -> boxtype -> N -> Acc -> prog Acc) (F0 : nat)
           (c : child) (upd : N -> Acc -> Acc) : Prop :=
  forall f cur a d l q rest, (F0 <= f)%nat -> q + c_s c < 2 ^ 63 ->
    dropN (q + 8) d = c_payload c ++ rest ->
    run (dispatch f cur (boxtype_of_u32 (c_code c)) (c_s c) a) (mkStream d l (q + 8) (c_payload c ++ rest))
    = (Ok (upd cur a), mkStream d l (q + c_s c) rest).

Lemma body_ok_at_s_of {Acc} (dispatch : nat -> N -> boxtype -> N -> Acc -> prog Acc) F0 c upd :
  body_ok_at dispatch F0 c upd -> body_ok_at_s dispatch F0 c upd.
Proof. intros H f cur a d l q rest Hf Hq _. now apply H. Qed.

Lemma dropN_split {A} a b (d : list A) h t : dropN a d = h ++ t -> lenN h = b -> dropN (a + b) d = t.
Proof.
  intros H Hb. rewrite N.add_comm, <- dropN_dropN, H. now apply dropN_app_n.
Qed.

Theorem loop_gen_children_s {Acc R} m csz (dispatch : nat -> N -> boxtype -> N -> Acc -> prog Acc)
        (fin : Acc -> N -> R) F0 :
  forall (cs : list child) (upds : list (N -> Acc -> Acc)),
  Forall2 (body_ok_at_s dispatch F0) cs upds ->
  Forall child_wf cs ->
  Forall (fun c => guard_ok csz (c_s c)) cs ->
  forall fuel acc d l p rest,
  (F0 + length cs <= fuel)%nat ->
  p + total_len cs < 2 ^ 63 ->
  dropN p d = render cs ++ rest ->
  run (children_loop_gen fuel m csz true (p + total_len cs) dispatch fin acc p)
      (mkStream d l p (render cs ++ rest))
  = (Ok (fin (apply_at p cs upds acc) (p + total_len cs)), mkStream d l (p + total_len cs) rest).
Proof.
  intros cs upds H2. induction H2 as [|c u cs upds Hc H2 IH]; intros Hwf Hsz fuel acc d l p rest Hf Hp Hd.
  - unfold total_len. cbn [map sumN fold_right render flat_map app apply_at].
    rewrite N.add_0_r. rewrite children_loop_gen_done by (clear; lia). reflexivity.
  - inversion Hwf as [|? ? Hw1 Hw2]; subst. inversion Hsz as [|? ? Hs1 Hs2]; subst.
    destruct fuel as [|fuel]; [exfalso; cbn [length] in Hf; clear -Hf; lia|].
    assert (Hlen : total_len (c :: cs) = c_len c + total_len cs) by reflexivity.
    assert (Hpos : 0 < c_len c) by (unfold c_len, c_hlen; destruct (c_w64 c); clear; lia).
    unfold render in Hd |- *. cbn [flat_map apply_at] in Hd |- *. rewrite <- app_assoc in Hd |- *.
    fold (render cs) in Hd |- *.
    assert (Hd' : dropN (p + c_len c) d = render cs ++ rest).
    { apply (dropN_split p (c_len c) d (c_bytes c)); [exact Hd | apply lenN_c_bytes]. }
    assert (Hdp : dropN (p + c_hlen c) d = c_payload c ++ render cs ++ rest).
    { unfold c_bytes in Hd. rewrite <- app_assoc in Hd.
      apply (dropN_split p (c_hlen c) d (c_hdr c)); [exact Hd | apply lenN_c_hdr]. }
    rewrite (loop_gen_step fuel m csz true _ _ _ acc (u p acc) c).
    + rewrite Hlen.
      replace (p + (c_len c + total_len cs)) with (p + c_len c + total_len cs) by (clear; lia).
      apply (IH Hw2 Hs2 fuel (u p acc) d l (p + c_len c) rest).
      * cbn [length] in Hf. clear -Hf. lia.
      * rewrite Hlen in Hp. clear -Hp. lia.
      * exact Hd'.
    + exact Hw1.
    + rewrite Hlen. clear -Hpos. lia.
    + exact Hs1.
    + rewrite Hlen in Hp. cbn [length] in Hf.
      unfold c_len, c_hlen, c_s in *. destruct (c_w64 c).
      * replace (p + 16) with (p + 8 + 8) in Hdp |- * by (clear; lia).
        rewrite Hc by (first [ clear -Hf; lia | unfold c_s; clear -Hp; lia | exact Hdp ]).
        unfold c_s; stream_eq.
      * rewrite Hc by (first [ clear -Hf; lia | unfold c_s; clear -Hp; lia | exact Hdp ]).
        unfold c_s; stream_eq.
Qed.

(** ** The reader *)
Definition decodes_to_s {Item} (body : nat -> boxtype -> N -> prog Item) (F0 : nat) (c : child) (it : Item) : Prop :=
  forall f d l q rest, (F0 <= f)%nat -> q + c_s c < 2 ^ 63 ->
    dropN (q + 8) d = c_payload c ++ rest ->
    run (body f (boxtype_of_u32 (c_code c)) (c_s c)) (mkStream d l (q + 8) (c_payload c ++ rest))
    = (Ok it, mkStream d l (q + c_s c) rest).

Lemma decodes_to_s_of {Item} (body : nat -> boxtype -> N -> prog Item) F0 c it :
  decodes_to body F0 c it -> decodes_to_s body F0 c it.
Proof. intros H f d l q rest Hf Hq _. now apply H. Qed.

Lemma decodes_to_s_mono {Item} (body : nat -> boxtype -> N -> prog Item) F0 F1 c it :
  (F0 <= F1)%nat -> decodes_to_s body F0 c it -> decodes_to_s body F1 c it.
Proof. intros HF H f d l q rest Hf Hq Hd. apply H; [lia | exact Hq | exact Hd]. Qed.

Lemma open_body_ok_at_s m F0 c it :
  decodes_to_s (open_body m) F0 c it -> body_ok_at_s (open_dispatch m) F0 c (fun cur => open_put cur it).
Proof.
  intros H f cur a d l q rest Hf Hq Hd. rewrite open_shape, run_bind, (H f d l q rest Hf Hq Hd). reflexivity.
Qed.

Theorem open_fuel_children_s m fuel cs items F0 d l p rest :
  Forall2 (decodes_to_s (open_body m) F0) cs items -> Forall child_wf cs ->
  (F0 + length cs <= fuel)%nat -> p + total_len cs < 2 ^ 63 ->
  dropN p d = render cs ++ rest ->
  run (open_fuel fuel m (p + total_len cs)) (mkStream d l p (render cs ++ rest))
  = (open_result (open_put_all p cs items (None, None, [], [], [])) (total_len cs),
     mkStream d l (p + total_len cs) rest).
Proof.
  intros H2 Hwf Hf Hp Hd. unfold open_fuel. cbn [bind get_pos run s_pos].
  rewrite run_bind. unfold children_loop_at.
  rewrite (loop_gen_children_s m (Some (p + total_len cs)) (open_dispatch m) pair F0 cs
             (map (fun it cur => open_put cur it) items)).
  - rewrite apply_at_open_put.
    destruct (open_put_all p cs items (None, None, [], [], [])) as [[[[ft mv] moofs] offs] emsgs].
    cbn [open_result]. destruct ft as [f|]; [|reflexivity]. destruct mv as [v|]; [|reflexivity].
    rewrite run_sub64_ok by (clear; lia).
    replace (p + total_len cs - p) with (total_len cs) by (clear; lia).
    destruct (existsb (fun t => tkhd_track_id (trak_tkhd t) =? 0) (moov_traks v)); [reflexivity|].
    rewrite run_bind.
    destruct moofs as [|mf moofs].
    + reflexivity.
    + rewrite run_lift.
      destruct (attach_moofs (moov_default_sample_duration v) (combine (mf :: moofs) offs)
                             (tracks_collect (moov_traks v))); reflexivity.
  - clear -H2. induction H2; cbn [map]; constructor; auto. now apply open_body_ok_at_s.
  - exact Hwf.
  - apply Forall_forall. intros c Hc. cbn [guard_ok]. pose proof (c_s_le_total_len c cs Hc). lia.
  - exact Hf.
  - exact Hp.
  - exact Hd.
Qed.

(** ** A [moov] child, from the container round trip (C04): any well-formed [moov] value, rendered
    by the ISO reference layout, either header form *)
Lemma open_child_moov_rt m w64 (me : mode) v :
  moov_rt_wf v = true -> moov_size v < U32 ->
  decodes_to_s (open_body m) (moov_fuel v) (mkChild w64 0x6d6f6f76 (iso_moov_payload v)) (OI_moov v).
Proof.
  intros Hw Hs f d l q rest Hf Hq Hd.
  destruct (moov_roundtrip me v Hw Hs) as (_ & _ & _ & Hlen & Hdec).
  unfold c_s in *. cbn [c_code c_payload] in *. rewrite bt_moov. cbn [open_body]. rewrite run_bind.
  replace (8 + lenN (iso_moov_payload v)) with (moov_size v) in * by (clear -Hlen; lia).
  rewrite (Hdec f m d l q rest Hf Hq Hd). reflexivity.
Qed.

Print Assumptions open_fuel_children_s.
Print Assumptions open_child_moov_rt.
