(** * C06, leaf layer (4): the codec-configuration boxes never panic
    avcC / avc1, hvcC / hev1, the esds descriptors / esds / mp4a.
    The fuelled decoders are proved FOR ALL FUEL (running out of fuel is [Spin], not a panic);
    the unfuelled entry points are instances. Statements as in SafeLeaf1.v. *)
From MP4 Require Import Hoare.
From MP4 Require Import BoxAvc1 BoxHev1 BoxMp4a.
From Coq Require Import ZArith ZifyN ZifyNat ZifyBool Lia.
Open Scope N_scope.

Ltac leaf_start := intros d p size Hd Hl H8 Hp Hs.

(** ** avcC, avc1 *)
Lemma sat_dec_nalunit d p : bytes_ok d = true -> sat d p dec_nalunit (fun _ _ => True).
Proof. intros Hd. unfold dec_nalunit. sat_go. exact I. Qed.

Lemma dec_avcc_sat m : leaf_sat (dec_avcc m).
Proof.
  leaf_start. unfold dec_avcc. sat_go.
  eapply sat_rd_n_bind with (I := fun _ => True);
    [exact I | intros p' _; now apply sat_dec_nalunit | intros sps p1 _].
  sat_go.
  eapply sat_rd_n_bind with (I := fun _ => True);
    [exact I | intros p' _; now apply sat_dec_nalunit | intros pps p2 _].
  sat_go; sat_arith.
Qed.
Definition dec_avcc_safe m : leaf_safe (dec_avcc m) := leaf_safe_of_sat _ (dec_avcc_sat m).

Lemma sat_avc1_find d m fuel start size e p :
  bytes_ok d = true -> lenN d < 2 ^ 62 -> size < 2 ^ 62 -> start + size < U64 ->
  sat d p (avc1_find m fuel start size e) (fun _ p' => p' = start + size).
Proof.
  intros Hd Hl Hs He. revert p; induction fuel as [|fuel IH]; intros p; cbn [avc1_find].
  - apply sat_spin.
  - sat_go; sat_bools.
    + apply (sat_leaf_bind (dec_avcc m)); [apply dec_avcc_sat|auto|auto|sat_arith|auto|sat_arith|].
      intros a. sat_go. reflexivity.
    + apply IH.
Qed.

Lemma dec_avc1_fuel_sat fuel m : leaf_sat (dec_avc1_fuel fuel m).
Proof.
  leaf_start. unfold dec_avc1_fuel. sat_go.
  eapply sat_bind; [apply sat_avc1_find; auto; sat_arith|]. cbn beta. intros a p1 ->.
  now apply sat_ret.
Qed.
Definition dec_avc1_fuel_safe fuel m : leaf_safe (dec_avc1_fuel fuel m) :=
  leaf_safe_of_sat _ (dec_avc1_fuel_sat fuel m).

Lemma dec_avc1_sat m : leaf_sat (dec_avc1 m).
Proof. intros d p size. unfold dec_avc1. apply dec_avc1_fuel_sat. Qed.
Definition dec_avc1_safe m : leaf_safe (dec_avc1 m) := leaf_safe_of_sat _ (dec_avc1_sat m).

(** ** hvcC, hev1 *)
Lemma sat_dec_hvccnalu d p m e : bytes_ok d = true -> lenN d < 2 ^ 62 ->
  sat d p (dec_hvccnalu m e) (fun _ _ => True).
Proof. intros Hd Hl. unfold dec_hvccnalu. sat_go; exact I. Qed.

Lemma sat_dec_hvccarray d p m e : bytes_ok d = true -> lenN d < 2 ^ 62 ->
  sat d p (dec_hvccarray m e) (fun _ _ => True).
Proof.
  intros Hd Hl. unfold dec_hvccarray. sat_go.
  eapply sat_rd_n_bind with (I := fun _ => True);
    [exact I | intros p' _; now apply sat_dec_hvccnalu | intros l p1 _].
  now apply sat_ret.
Qed.

Lemma dec_hvcc_sat m : leaf_sat (dec_hvcc m).
Proof.
  leaf_start. unfold dec_hvcc. sat_go.
  eapply sat_rd_n_bind with (I := fun _ => True);
    [exact I | intros p' _; now apply sat_dec_hvccarray | intros l p1 _].
  sat_go; sat_arith.
Qed.
Definition dec_hvcc_safe m : leaf_safe (dec_hvcc m) := leaf_safe_of_sat _ (dec_hvcc_sat m).

Lemma dec_hev1_sat m : leaf_sat (dec_hev1 m).
Proof.
  leaf_start. unfold dec_hev1. sat_go. sat_bools.
  apply (sat_leaf_bind (dec_hvcc m)); [apply dec_hvcc_sat|auto|auto|sat_arith|auto|sat_arith|].
  intros a. sat_go; sat_arith.
Qed.
Definition dec_hev1_safe m : leaf_safe (dec_hev1 m) := leaf_safe_of_sat _ (dec_hev1_sat m).

(** ** the esds descriptors *)

(** the length accumulated by [read_desc] is a [u32] *)
Lemma lor_lt_pow2 a b n : a < 2 ^ n -> b < 2 ^ n -> N.lor a b < 2 ^ n.
Proof.
  intros Ha Hb. destruct (N.eq_dec (N.lor a b) 0) as [E|E].
  - rewrite E. apply N.neq_0_lt_0, N.pow_nonzero. lia.
  - apply N.log2_lt_pow2; [lia|]. rewrite N.log2_lor.
    destruct (N.eq_dec a 0) as [->|Ha0]; destruct (N.eq_dec b 0) as [->|Hb0].
    + cbn in E. contradiction.
    + change (N.log2 0) with 0. rewrite N.max_r by lia. apply N.log2_lt_pow2; lia.
    + change (N.log2 0) with 0. rewrite N.max_l by lia. apply N.log2_lt_pow2; lia.
    + apply N.max_lub_lt; apply N.log2_lt_pow2; lia.
Qed.

Lemma desc_len_step size b : b < 256 -> N.lor (cast_w U32 (N.shiftl size 7)) (N.land b 127) < U32.
Proof.
  intros Hb. change U32 with (2 ^ 32). apply lor_lt_pow2.
  - unfold cast_w. apply N.mod_lt. lia.
  - eapply N.le_lt_trans with 127; [|lia].
    change 127 with (N.ones 7). rewrite N.land_ones. 
    pose proof (N.mod_lt b (2 ^ 7)). change (N.ones 7) with (2 ^ 7 - 1). lia.
Qed.

Lemma sat_read_desc_len d p n size : bytes_ok d = true -> size < U32 ->
  sat d p (read_desc_len n size) (fun sz p' => sz < U32 /\ (p' <= lenN d \/ p' = p)).
Proof.
  intros Hd. revert p size; induction n as [|n IH]; intros p size Hs; cbn [read_desc_len].
  - apply sat_ret. auto.
  - sat_go.
    + split; [now apply desc_len_step|]. left. sat_arith.
    + eapply sat_conseq; [|apply IH; now apply desc_len_step].
      cbn beta. intros sz p' [H1 H2]. split; [exact H1|]. left. sat_arith.
Qed.

Lemma sat_read_desc {B} d p (k : N * N -> prog B) Q : bytes_ok d = true ->
  (forall tag size p', size < U32 -> p' <= lenN d -> sat d p' (k (tag, size)) Q) ->
  sat d p (bind read_desc k) Q.
Proof.
  intros Hd H. unfold read_desc. sat_go.
  eapply sat_bind; [apply sat_read_desc_len; [exact Hd|unfold U32; lia]|].
  cbn beta. intros sz p' [H1 H2]. cbn [bind]. apply H; [exact H1|sat_arith].
Qed.

Lemma sat_get_chan_conf {B} d p byte_b freq_index ext (k : N -> prog B) Q : bytes_ok d = true ->
  (forall c p', sat d p' (k c) Q) -> sat d p (bind (get_chan_conf byte_b freq_index ext) k) Q.
Proof. intros Hd H. unfold get_chan_conf. sat_go; apply H. Qed.

Lemma sat_dec_decspecific d p size : bytes_ok d = true ->
  sat d p (dec_decspecific size) (fun _ _ => True).
Proof.
  intros Hd. unfold dec_decspecific. sat_go.
  - apply sat_get_chan_conf; [exact Hd|]. intros c p'. now apply sat_ret.
  - apply sat_get_chan_conf; [exact Hd|]. intros c p'. now apply sat_ret.
Qed.

(** [clamp_desc_size]: at most the size read, and the descriptor ends at or before the end of
    its container when it starts before it *)
Lemma clamp_desc_size_le sz e pos : clamp_desc_size sz e pos <= sz.
Proof. unfold clamp_desc_size. apply N.le_min_l. Qed.

Lemma clamp_desc_size_end sz e pos : pos <= e -> pos + clamp_desc_size sz e pos <= e.
Proof. unfold clamp_desc_size. intros H. clear -H. lia. Qed.

Lemma clamp_desc_size_u32 sz e pos : sz < U32 -> clamp_desc_size sz e pos < U32.
Proof. intros H. pose proof (clamp_desc_size_le sz e pos) as L. clear -H L. lia. Qed.

Lemma sat_decconfig_loop d fuel current e ds p : bytes_ok d = true ->
  sat d p (decconfig_loop fuel current e ds) (fun _ _ => True).
Proof.
  intros Hd. revert current ds p; induction fuel as [|fuel IH]; intros current ds p;
    cbn [decconfig_loop].
  - apply sat_spin.
  - sat_go; [|exact I]. apply sat_read_desc; [exact Hd|]. intros tag sz p' Hsz Hp'.
    sat_go.
    + eapply sat_bind; [apply sat_dec_decspecific; exact Hd|]. cbn beta. intros r1 p1 _.
      sat_go. apply IH.
    + apply IH.
Qed.

(** called right after [read_desc]: the position is inside the data and the size is a [u32] *)
Lemma sat_dec_decconfig_fuel d fuel m size p : bytes_ok d = true -> lenN d < 2 ^ 62 ->
  p <= lenN d -> size < U32 ->
  sat d p (dec_decconfig_fuel fuel m size) (fun _ _ => True).
Proof.
  intros Hd Hl Hp Hs. unfold dec_decconfig_fuel. sat_go.
  eapply sat_bind; [apply sat_decconfig_loop; exact Hd|]. cbn beta. intros r1 p1 _.
  now apply sat_ret.
Qed.

Lemma sat_esdesc_loop d m fuel current e dc sc p : bytes_ok d = true -> lenN d < 2 ^ 62 ->
  sat d p (esdesc_loop m fuel current e dc sc) (fun _ _ => True).
Proof.
  intros Hd Hl. revert current dc sc p; induction fuel as [|fuel IH]; intros current dc sc p;
    cbn [esdesc_loop].
  - apply sat_spin.
  - sat_go; [|exact I]. apply sat_read_desc; [exact Hd|]. intros tag sz p' Hsz Hp'.
    sat_go.
    + unfold dec_decconfig.
      eapply sat_bind; [apply sat_dec_decconfig_fuel; auto using clamp_desc_size_u32|]. cbn beta. intros r1 p1 _.
      sat_go. apply IH.
    + unfold dec_slconfig. sat_go. apply IH.
    + apply IH.
Qed.

Lemma sat_dec_esdesc_fuel d fuel m size p : bytes_ok d = true -> lenN d < 2 ^ 62 ->
  p <= lenN d -> size < U32 ->
  sat d p (dec_esdesc_fuel fuel m size) (fun _ _ => True).
Proof.
  intros Hd Hl Hp Hs. unfold dec_esdesc_fuel. sat_go.
  eapply sat_bind; [apply sat_esdesc_loop; auto|]. cbn beta. intros [dc sc] p1 _.
  now apply sat_ret.
Qed.

(** ** esds *)
Lemma sat_esds_loop d m fuel current e x p : bytes_ok d = true -> lenN d < 2 ^ 62 ->
  sat d p (esds_loop m fuel current e x) (fun _ _ => True).
Proof.
  intros Hd Hl. revert current x p; induction fuel as [|fuel IH]; intros current x p;
    cbn [esds_loop].
  - apply sat_spin.
  - sat_go; [|exact I]. apply sat_read_desc; [exact Hd|]. intros tag sz p' Hsz Hp'.
    sat_go; [|exact I]. unfold dec_esdesc.
    eapply sat_bind; [apply sat_dec_esdesc_fuel; auto using clamp_desc_size_u32|]. cbn beta. intros y p1 _.
    sat_go. apply IH.
Qed.

Lemma dec_esds_fuel_sat fuel m : leaf_sat (dec_esds_fuel fuel m).
Proof.
  leaf_start. unfold dec_esds_fuel. sat_go.
  eapply sat_bind; [apply sat_esds_loop; auto|]. cbn beta. intros r1 p1 _.
  sat_go; sat_arith.
Qed.
Definition dec_esds_fuel_safe fuel m : leaf_safe (dec_esds_fuel fuel m) :=
  leaf_safe_of_sat _ (dec_esds_fuel_sat fuel m).

Lemma dec_esds_sat m : leaf_sat (dec_esds m).
Proof. intros d p size. unfold dec_esds. apply dec_esds_fuel_sat. Qed.
Definition dec_esds_safe m : leaf_safe (dec_esds m) := leaf_safe_of_sat _ (dec_esds_sat m).

(** ** mp4a *)
Lemma sat_mp4a_find d m fuel size e p : bytes_ok d = true -> lenN d < 2 ^ 62 -> size < 2 ^ 62 ->
  sat d p (mp4a_find m fuel size e) (fun _ _ => True).
Proof.
  intros Hd Hl Hs. revert p; induction fuel as [|fuel IH]; intros p; cbn [mp4a_find].
  - apply sat_spin.
  - sat_go; try exact I; sat_bools.
    + apply (sat_leaf_bind (dec_esds m)); [apply dec_esds_sat|auto|auto|sat_arith|auto|sat_arith|].
      intros a. now apply sat_ret.
    + apply IH.
    + apply IH.
Qed.

Lemma dec_mp4a_fuel_sat fuel m : leaf_sat (dec_mp4a_fuel fuel m).
Proof.
  leaf_start. unfold dec_mp4a_fuel. sat_go.
  - eapply sat_bind; [apply sat_mp4a_find; auto|]. cbn beta. intros a p1 _. sat_go. reflexivity.
  - eapply sat_bind; [apply sat_mp4a_find; auto|]. cbn beta. intros a p1 _. sat_go. reflexivity.
Qed.
Definition dec_mp4a_fuel_safe fuel m : leaf_safe (dec_mp4a_fuel fuel m) :=
  leaf_safe_of_sat _ (dec_mp4a_fuel_sat fuel m).

Lemma dec_mp4a_sat m : leaf_sat (dec_mp4a m).
Proof. intros d p size. unfold dec_mp4a. apply dec_mp4a_fuel_sat. Qed.
Definition dec_mp4a_safe m : leaf_safe (dec_mp4a m) := leaf_safe_of_sat _ (dec_mp4a_sat m).
