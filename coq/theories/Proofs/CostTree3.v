(** * C07/C08, composition (3): the containers that are not of the standard shape
      (edts, avc1, stsd, dref, meta) *)
From MP4 Require Import Cost CostLeaf CostLeaf3 CostLoop CostCont CostTree CostTree2.
From MP4 Require Import SafeLeaf4.
From MP4 Require Import BoxEdts BoxElst BoxAvc1 BoxStsd BoxMp4a BoxHev1 BoxVp09 BoxTx3g.
From Coq Require Import ZArith ZifyN ZifyNat ZifyBool Lia.
Open Scope N_scope.

Ltac carith ::= lv_norm; sat_bools; rewrite ?N2Nat.id in *; sat_consts; lia.

(** a child decoder on the spine, with its contract [lem] *)
Ltac cacc_kid lem :=
  eapply cacc_child; [apply lem; first [assumption | lia | (unfold fuel_ok in *; sat_consts; lia)] | carith | carith | intros ?].

Section Tree3.
  Variable d : bytes.
  Hypothesis Hd : bytes_ok d = true.
  Hypothesis Hlen : lenN d < 2 ^ 62.

  Lemma edts_ok m : fok d 1 (fun f s => dec_edts_fuel f m s).
  Proof.
    intros f p s H8 Hp Hs Hf. apply ispec_of_csat, csat_of_cacc. unfold dec_edts_fuel.
    do 5 cacc_step.
    - cacc_step. cacc_step. cacc_step. cacc_step; [cacc_go|].
      match goal with
      | |- cacc ?d0 ?p0 ?w0 ?a0 (bind (match ?b0 with FtypBox => _ | _ => _ end) ?k0) ?W0 ?Al0 ?Q0 =>
          assert (Hdflt : cacc d0 p0 w0 a0 (bind (Ret (@None elst)) k0) W0 Al0 Q0) by cacc_go
      end.
      destruct b; try exact Hdflt; clear Hdflt.
      apply cacc_assoc. cacc_kid (elst_ok d Hd Hlen m). cacc_go.
    - cacc_go.
  Qed.

  Lemma avcc_ok m : dok d 0 (dec_avcc m).
  Proof.
    apply (dok_leaf d Hd Hlen _ (fun _ => 18750000) (fun _ => 18750000) (avcc_cost m));
      [intros; unfold lv0_W, lv0_A; lia..|apply dec_avcc_sat].
  Qed.

  (** avc1: the child search loop advances by at least one byte per iteration *)
  Lemma avc1_find_ok m f : forall cur start size e,
    fuel_ok d f cur -> size < 2 ^ 62 -> start + size < U64 ->
    csat d cur (avc1_find m f start size e)
         (21 * (e - cur) + (lvA 0 * size + lvB 0 + 30)) (lvAl 0 * size + lvBl 0)
         (fun _ p' => p' = start + size).
  Proof.
    induction f as [|f IH]; intros cur start size e Hf Hsz Hov.
    - destruct Hf as [Hf _]. cbn in Hf. lia.
    - apply csat_of_cacc. cbn [avc1_find]. cacc_step. cacc_step; [cacc_go|].
      cacc_step. cacc_step. cacc_step; [cacc_go|]. cacc_step; [cacc_go|].
      assert (Hf1 : fuel_ok d f p1) by (destruct Hf as [_ Hf]; unfold fuel_ok; lia).
      cacc_step.
      + cacc_kid (avcc_ok m). cacc_go.
      + cacc_step.
        assert (Hf2 : fuel_ok d f (p1 - 8 + n)).
        { destruct Hf as [_ Hf]. destruct Hf1 as [Hf1 _]. unfold fuel_ok. sat_bools. lia. }
        eapply cacc_of_csat; [apply (IH _ start size e Hf2 Hsz Hov)|carith|carith|auto].
  Qed.
End Tree3.
