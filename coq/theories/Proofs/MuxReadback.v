(** * Mux, then look up: the reader's lookup functions applied to the muxer's tables return the muxed samples
    (composition of [MuxInv.mux_fidelity_history] (C01) and [LookupProofs.lk_lookup_sound] /
    [lk_read_sample_sound] (C03); restated in [Props/C01Readback.v])

    The muxer's in-memory stsc entries carry a [sc_first_sample] that is never serialised and is wrong for the
    run created by the final flush ([MuxInv.writer_first_sample_refuted]); the composition therefore goes
    through [lk_track_of] (= [C03.track_of]), which re-derives that field from the wire fields exactly as the
    stsc decoder does.  The specification functions and [consistent] read only wire fields, so C01's conclusion
    about [tf_tables tf] is literally the hypothesis of C03. *)
From MP4 Require Import Writer SampleTable MuxProofs MuxInv LookupProofs.
From Coq Require Import ZArith ZifyN ZifyNat ZifyBool Lia.
Open Scope list_scope.
Open Scope N_scope.

(** ** 1-based access into the accepted history *)
Lemma rb_nth1_in {A} (l : list A) k : 1 <= k <= lenN l -> exists x, nth1 l k = Some x.
Proof.
  intros H. unfold nth1. destruct (N.eqb_spec k 0); [lia|]. apply nthN_lt. lia.
Qed.

Lemma rb_nth1_range {A} (l : list A) k x : nth1 l k = Some x -> 1 <= k <= lenN l.
Proof.
  unfold nth1. destruct (N.eqb_spec k 0); [discriminate|]. intros H. apply nthN_some_ltN in H. lia.
Qed.

(** ** the bytes [read_sample] delivers are a slice of the muxer's output, wherever the output is placed *)
Lemma rb_slice_placed (pre out tail : bytes) off n :
  lenN pre <= off -> off + n <= lenN pre + lenN out ->
  firstn (N.to_nat n) (skipn (N.to_nat off) (pre ++ out ++ tail)) = sliceN (off - lenN pre) n out.
Proof.
  intros H1 H2. rewrite <- lk_dropN_skipn. change (firstn (N.to_nat n) (dropN off (pre ++ out ++ tail)))
    with (sliceN off n (pre ++ out ++ tail)).
  unfold sliceN at 1. rewrite dropN_app_ge by exact H1. fold (sliceN (off - lenN pre) n (out ++ tail)).
  apply sliceN_app_l. lia.
Qed.

(** the absolute position of the mdat box is not before the start of the output *)
Lemma rb_base_le_mdat m base cfg ops cls f :
  run_mux m base cfg ops = Ok (cls, f) -> ops_typed ops = true -> mf_base f <= mf_mdat_pos f.
Proof.
  intros H Hty. destruct (run_mux_inv _ _ _ _ _ _ H Hty) as (done & _ & _ & _ & _ & _ & _ & E1 & E2 & _).
  rewrite E1, E2. lia.
Qed.

(** ** The per-sample read-back statement *)
Definition readback_sample (m' : mode) (f : mfinal) (t : track) (ss : list wsample) (k : N) (s : wsample) : Prop :=
  let start := sumN (map ws_duration (firstn (N.to_nat (k - 1)) ss)) in
  sample_size t k = Ok (lenN (ws_bytes s)) /\
  sample_time m' t k = Ok (start, ws_duration s) /\
  sample_rendering_offset t k = ws_rendering_offset s /\
  is_sync_sample t k = Ok (ws_is_sync s) /\
  exists off,
    sample_offset m' t k = Ok off /\
    mf_mdat_pos f + 16 <= off /\ off + lenN (ws_bytes s) <= mf_base f + lenN (mf_out f) /\
    forall pre tail pos, lenN pre = mf_base f ->
      exists s',
        run (read_sample m' t k) (stream_at (pre ++ mf_out f ++ tail) pos) =
          (Ok (Some (mkSample start (ws_duration s) (ws_rendering_offset s) (ws_is_sync s) (ws_bytes s))), s') /\
        s_data s' = pre ++ mf_out f ++ tail /\ s_pos s' = off + lenN (ws_bytes s).

(** ** Main theorem.  [m] is the build mode of the muxer run, [m'] that of the reader: independent. *)
Theorem mux_then_lookup m m' base cfg ops cls f :
  run_mux m base cfg ops = Ok (cls, f) -> ops_typed ops = true -> history_fits base cfg ops cls = true ->
  forall i tf, nth_error (mf_tracks f) i = Some tf ->
    let ss := accepted_samples ops cls (N.of_nat i + 1) in
    exists t, lk_track_of (tf_tables tf) = Some t /\ sample_count t = lenN ss /\
      (forall k, 1 <= k <= lenN ss -> exists s, nth1 ss k = Some s /\ readback_sample m' f t ss k s) /\
      (forall k, k = 0 \/ lenN ss < k ->
         forall st, match fst (run (read_sample m' t k) st) with
                    | Ok (Some _) => False
                    | Panic _ => False
                    | _ => True
                    end).
Proof.
  intros H Hty Hfit i tf Hn ss.
  destruct (mux_fidelity_history _ _ _ _ _ _ H Hty Hfit i tf Hn) as (Hc & Hcnt & Hfid). fold ss in Hcnt, Hfid.
  pose proof (rb_base_le_mdat _ _ _ _ _ _ H Hty) as Hbase.
  destruct (lk_lookup_sound m' _ Hc) as (t & Ht & Hsc & Hin & Hout).
  destruct (lk_read_sample_sound m' _ Hc) as (t2 & Ht2 & Hrd).
  rewrite Ht in Ht2. injection Ht2 as <-.
  exists t. split; [exact Ht|]. split; [rewrite Hsc; exact Hcnt|]. rewrite Hcnt in Hin, Hout, Hrd. split.
  - intros k Hk. destruct (rb_nth1_in ss k Hk) as [s Hs]. exists s. split; [exact Hs|].
    destruct (Hfid k s Hs) as (F1 & F2 & F3 & F4 & F5 & off & F6 & F7 & F8 & F9).
    destruct (Hin k Hk) as (off1 & sz1 & dl1 & ct1 & L1 & L2 & L3 & L4 & L5 & L6 & L7 & L8 & L9).
    rewrite F6 in L1. rewrite F1 in L2. rewrite F2 in L3. rewrite F4 in L4.
    injection L1 as <-. injection L2 as <-. injection L3 as <-. injection L4 as <-.
    unfold readback_sample. cbv zeta. rewrite <- F3, <- F5.
    split; [exact L6|]. split; [exact L7|]. split; [exact L8|]. split; [exact L9|].
    exists off. split; [exact L5|]. split; [exact F7|]. split; [exact F8|].
    intros pre tail pos Hpre.
    destruct (Hrd k Hk) as (off2 & sz2 & dl2 & ct2 & R1 & R2 & R3 & R4 & R5).
    rewrite F6 in R1. rewrite F1 in R2. rewrite F2 in R3. rewrite F4 in R4.
    injection R1 as <-. injection R2 as <-. injection R3 as <-. injection R4 as <-.
    destruct (R5 (pre ++ mf_out f ++ tail) pos) as (s' & E & Ed & Ep).
    { rewrite !lenN_app, Hpre. lia. }
    exists s'. split; [|split; [exact Ed|exact Ep]]. rewrite E, rb_slice_placed by (rewrite Hpre; lia). rewrite Hpre, F9. reflexivity.
  - exact Hout.
Qed.

(** the same for a history index given as in C01: every accepted sample, by its position *)
Corollary mux_then_lookup_nth m m' base cfg ops cls f :
  run_mux m base cfg ops = Ok (cls, f) -> ops_typed ops = true -> history_fits base cfg ops cls = true ->
  forall i tf, nth_error (mf_tracks f) i = Some tf ->
    let ss := accepted_samples ops cls (N.of_nat i + 1) in
    exists t, lk_track_of (tf_tables tf) = Some t /\
      forall k s, nth1 ss k = Some s -> readback_sample m' f t ss k s.
Proof.
  intros H Hty Hfit i tf Hn ss.
  destruct (mux_then_lookup m m' _ _ _ _ _ H Hty Hfit i tf Hn) as (t & Ht & _ & Hin & _). fold ss in Hin.
  exists t. split; [exact Ht|]. intros k s Hs. destruct (Hin k (rb_nth1_range _ _ _ Hs)) as (s0 & Hs0 & R).
  rewrite Hs in Hs0. injection Hs0 as <-. exact R.
Qed.

(** the output placed at stream position 0 ([base = 0]): the data is the muxer's output followed by anything
    (in the real file: the moov box) *)
Corollary mux_then_read_base0 m m' cfg ops cls f :
  run_mux m 0 cfg ops = Ok (cls, f) -> ops_typed ops = true -> history_fits 0 cfg ops cls = true ->
  forall i tf, nth_error (mf_tracks f) i = Some tf ->
    let ss := accepted_samples ops cls (N.of_nat i + 1) in
    exists t, lk_track_of (tf_tables tf) = Some t /\
      forall k s, nth1 ss k = Some s ->
        forall tail pos,
          fst (run (read_sample m' t k) (stream_at (mf_out f ++ tail) pos)) =
            Ok (Some (mkSample (sumN (map ws_duration (firstn (N.to_nat (k - 1)) ss)))
                               (ws_duration s) (ws_rendering_offset s) (ws_is_sync s) (ws_bytes s))).
Proof.
  intros H Hty Hfit i tf Hn ss.
  destruct (mux_then_lookup_nth m m' _ _ _ _ _ H Hty Hfit i tf Hn) as (t & Ht & Hin). fold ss in Hin.
  exists t. split; [exact Ht|]. intros k s Hs tail pos.
  destruct (Hin k s Hs) as (_ & _ & _ & _ & off & _ & _ & _ & R).
  destruct (mux_out_length _ _ _ _ _ _ H Hty) as [Eb _].
  destruct (R [] tail pos) as (s' & E & _); [rewrite Eb; reflexivity|].
  cbn [app] in E. rewrite E. reflexivity.
Qed.

Print Assumptions mux_then_lookup.
