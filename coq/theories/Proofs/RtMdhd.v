(** Round trip of [MdhdBox] *)
From MP4 Require Import Kit BoxMdhd IsoTables IsoMdhd.
From Coq Require Import ZifyN ZifyNat ZifyBool.
Open Scope string_scope.
Open Scope list_scope.
Open Scope N_scope.

Lemma mdhd_code : u32_of_boxtype (box_type_of "MdhdBox") = 0x6d646864.
Proof. vm_compute. reflexivity. Qed.

(** ** The packed language, by exhaustion over the 32^3 representable strings *)
Definition mdhd_chars : list N := map N.of_nat (seq 96 32).
Definition mdhd_triples : list (N * N * N) :=
  flat_map (fun a => flat_map (fun b => map (fun c => (a, b, c)) mdhd_chars) mdhd_chars) mdhd_chars.
Definition mdhd_lang_check (abc : N * N * N) : bool :=
  let '(a, b, c) := abc in
  (language_code [a; b; c] =? iso_lang_pack a b c)
  && (if list_eq_dec N.eq_dec (language_string (iso_lang_pack a b c)) [a; b; c] then true else false)
  && (iso_lang_pack a b c <? 32768).

Lemma mdhd_lang_all : forallb mdhd_lang_check mdhd_triples = true.
Proof. vm_compute. reflexivity. Qed.

Lemma mdhd_chars_In a : in_range 96 127 a = true -> In a mdhd_chars.
Proof.
  unfold in_range. intros H. apply andb_true_iff in H as [H1 H2].
  apply N.leb_le in H1. apply N.leb_le in H2.
  unfold mdhd_chars. apply in_map_iff. exists (N.to_nat a). split; [lia|].
  apply in_seq. lia.
Qed.

Lemma mdhd_lang_ok s : mdhd_lang_wf s = true ->
  language_code s = iso_mdhd_lang s
  /\ language_string (iso_mdhd_lang s) = s
  /\ iso_mdhd_lang s < 256 ^ N.of_nat 2.
Proof.
  intros H. destruct s as [|a [|b [|c [|? ?]]]]; try discriminate H.
  cbn [mdhd_lang_wf] in H.
  apply andb_true_iff in H as [H Hc]. apply andb_true_iff in H as [Ha Hb].
  cbn [iso_mdhd_lang].
  pose proof mdhd_lang_all as A. rewrite forallb_forall in A.
  assert (Hin : In (a, b, c) mdhd_triples).
  { unfold mdhd_triples. apply in_flat_map. exists a. split; [now apply mdhd_chars_In|].
    apply in_flat_map. exists b. split; [now apply mdhd_chars_In|].
    apply in_map. now apply mdhd_chars_In. }
  specialize (A _ Hin). unfold mdhd_lang_check in A.
  apply andb_true_iff in A as [A A3]. apply andb_true_iff in A as [A1 A2].
  apply N.eqb_eq in A1. apply N.ltb_lt in A3.
  split; [exact A1|]. split.
  - destruct (list_eq_dec N.eq_dec (language_string (iso_lang_pack a b c)) [a; b; c]); [assumption|discriminate].
  - rewrite pow256_2. clear -A3. lia.
Qed.

Lemma mdhd_size_eq v : mdhd_version v < 2 ->
  mdhd_size v = if mdhd_version v =? 1 then 44 else 32.
Proof.
  intros H. unfold mdhd_size, HEADER_SIZE, HEADER_EXT_SIZE, Tables.HEADER_SIZE, Tables.HEADER_EXT_SIZE.
  destruct (N.eqb_spec (mdhd_version v) 1), (N.eqb_spec (mdhd_version v) 0); lia.
Qed.

Lemma mdhd_enc v : mdhd_wf v = true ->
  wfin (enc_mdhd v) = Ok (mdhd_size v) /\
  wout (enc_mdhd v) = be 4 (mdhd_size v) ++ be 4 0x6d646864 ++ iso_mdhd_payload v.
Proof.
  intros H. unfold enc_mdhd, iso_mdhd_payload.
  unfold mdhd_wf in H. split_andb.
  match goal with H : mdhd_version v <? 2 = true |- _ => apply N.ltb_lt in H; pose proof (mdhd_size_eq v H) as Hsz end.
  match goal with H : mdhd_lang_wf _ = true |- _ => destruct (mdhd_lang_ok _ H) as (L1 & L2 & L3) end.
  rewrite write_header_small by (rewrite Hsz; destruct (mdhd_version v =? 1); reflexivity).
  rewrite mdhd_code.
  rewrite write_header_ext_small by assumption.
  rewrite L1.
  destruct (N.eqb_spec (mdhd_version v) 1) as [E1|E1].
  - enc_norm. split; [reflexivity|].
    rewrite <- !app_assoc. reflexivity.
  - destruct (N.eqb_spec (mdhd_version v) 0) as [E0|E0]; [|exfalso; clear -H E0 E1; lia].
    enc_norm. split; [reflexivity|].
    split_andb. rewrite !cast_u32_small by assumption.
    rewrite <- !app_assoc. reflexivity.
Qed.

Lemma mdhd_dec m v d l p post : mdhd_wf v = true -> p + mdhd_size v < 2^63 ->
  run (dec_mdhd m (mdhd_size v)) (mkStream d l (p + 8) (iso_mdhd_payload v ++ post))
  = (Ok v, mkStream d l (p + mdhd_size v) post).
Proof.
  intros H Hp. unfold dec_mdhd, iso_mdhd_payload.
  unfold mdhd_wf in H. split_andb.
  match goal with H : mdhd_version v <? 2 = true |- _ =>
     pose proof (ufit_version _ H) as Hv1; apply N.ltb_lt in H; pose proof (mdhd_size_eq v H) as Hsz end.
  match goal with H : mdhd_lang_wf _ = true |- _ => destruct (mdhd_lang_ok _ H) as (L1 & L2 & L3) end.
  rewrite <- !app_assoc.
  prog_norm. cbn [run s_pos].
  rewrite run_sub64_ok by (clear; unfold HEADER_SIZE, Tables.HEADER_SIZE; lia).
  do 2 rd_step.
  destruct (N.eqb_spec (mdhd_version v) 1) as [E1|E1].
  - cbv iota in *. split_andb. rewrite <- !app_assoc.
    do 5 rd_step.
    rewrite run_add64_ok by (clear -Hsz Hp; unfold HEADER_SIZE, Tables.HEADER_SIZE, U64; lia).
    prog_norm.
    (* [pre_defined] is not read; [skip_bytes_to] steps over it *)
    rewrite run_SeekTo_fwd by (clear -Hsz; unfold HEADER_SIZE, Tables.HEADER_SIZE; lia).
    rewrite (dropN_app_n _ (be 2 0) post)
      by (rewrite lenN_be; clear -Hsz; unfold HEADER_SIZE, Tables.HEADER_SIZE; lia).
    cbn [run]. rewrite L2. f_equal.
    + destruct v; reflexivity.
    + f_equal. clear -Hsz. unfold HEADER_SIZE, Tables.HEADER_SIZE. lia.
  - destruct (N.eqb_spec (mdhd_version v) 0) as [E0|E0]; [|exfalso; clear -H E0 E1; lia].
    cbv iota in *. split_andb. rewrite <- !app_assoc.
    do 5 rd_step.
    rewrite run_add64_ok by (clear -Hsz Hp; unfold HEADER_SIZE, Tables.HEADER_SIZE, U64; lia).
    prog_norm.
    rewrite run_SeekTo_fwd by (clear -Hsz; unfold HEADER_SIZE, Tables.HEADER_SIZE; lia).
    rewrite (dropN_app_n _ (be 2 0) post)
      by (rewrite lenN_be; clear -Hsz; unfold HEADER_SIZE, Tables.HEADER_SIZE; lia).
    cbn [run]. rewrite L2. f_equal.
    + destruct v; reflexivity.
    + f_equal. clear -Hsz. unfold HEADER_SIZE, Tables.HEADER_SIZE. lia.
Qed.

Lemma mdhd_payload_len v : mdhd_wf v = true -> lenN (iso_mdhd_payload v) + 8 = mdhd_size v.
Proof.
  intros H. unfold mdhd_wf in H. split_andb.
  match goal with H : mdhd_version v <? 2 = true |- _ => apply N.ltb_lt in H; rewrite (mdhd_size_eq v H) end.
  unfold iso_mdhd_payload. destruct (mdhd_version v =? 1);
    rewrite ?lenN_app, ?lenN_be; reflexivity.
Qed.

Lemma mdhd_appender v : mdhd_wf v = true -> mdhd_size v < U32 -> appender (enc_mdhd v).
Proof.
  intros H Hs. unfold enc_mdhd. rewrite write_header_small by exact Hs.
  unfold mdhd_wf in H. split_andb.
  rewrite write_header_ext_small by assumption.
  destruct (mdhd_version v =? 1); [|destruct (mdhd_version v =? 0)];
    cbn [wbind appender wr wr_u8 wr_u16 wr_u32 wr_u64 wr_u wr_i32 wr_i]; exact I.
Qed.

Theorem mdhd_roundtrip : leaf_roundtrip mdhd_wf mdhd_size 0x6d646864 enc_mdhd dec_mdhd iso_mdhd_payload.
Proof.
  intros v H Hs. destruct (mdhd_enc v H) as [H1 H2].
  split; [exact H1|]. split; [now apply mdhd_appender|]. split; [exact H2|].
  split; [now apply mdhd_payload_len|].
  intros m d l p post Hp. now apply mdhd_dec.
Qed.

Print Assumptions mdhd_roundtrip.
