(** * C07/C08: opening a file — [Mp4Reader::read_header] terminates and costs at most a fixed
      linear function of the file length, in stream calls, bytes moved, CPU steps and allocation *)
From MP4 Require Import Cost CostLeaf CostLoop CostCont CostTree CostTree2 CostTree7.
From MP4 Require Import Reader.
From Coq Require Import ZArith ZifyN ZifyNat ZifyBool Lia.
Open Scope N_scope.

(** the constants of the theorem (level 8 of [CostTree.lvl]) *)
Definition open_A : N := Eval vm_compute in lvA 8.
Definition open_B : N := Eval vm_compute in lvB 8.
Definition open_Al : N := Eval vm_compute in lvAl 8.
Definition open_Bl : N := Eval vm_compute in lvBl 8.

Lemma attach_trafs_not_oof dsd off trafs tracks : attach_trafs dsd off trafs tracks <> OutOfFuel.
Proof.
  revert tracks; induction trafs as [|tf rest IH]; intros tracks; cbn [attach_trafs]; [discriminate|].
  destruct (tracks_get _ tracks); [apply IH|discriminate].
Qed.

Lemma attach_moofs_not_oof dsd ms tracks : attach_moofs dsd ms tracks <> OutOfFuel.
Proof.
  revert tracks; induction ms as [|[mf off] rest IH]; intros tracks; cbn [attach_moofs]; [discriminate|].
  pose proof (attach_trafs_not_oof dsd off (moof_trafs mf) tracks) as H.
  destruct (attach_trafs dsd off (moof_trafs mf) tracks); cbn [res_bind]; try discriminate; [apply IH|congruence].
Qed.

Section Open.
  Variable d : bytes.
  Hypothesis Hd : bytes_ok d = true.
  Hypothesis Hlen : lenN d < 2 ^ 62.

  Lemma open_dispatch_ok m f cur name s acc p :
    8 <= p -> p <= lenN d -> 1 <= s -> s < 2 ^ 62 -> fuel_ok d f p ->
    ispec d (open_dispatch m f cur name s acc) p s (lvA 7 * s + lvB 7) (lvAl 7 * s + lvBl 7).
  Proof.
    intros H8 Hp Hs1 Hs Hf. destruct acc as [[[[ft mv] moofs] offs] emsgs].
    destruct name; cbn [open_dispatch];
      first [ disp_child (ftyp_ok d Hd Hlen m) | disp_child (moov_ok d Hd Hlen m)
            | disp_child (moof_ok d Hd Hlen m) | disp_child (emsg_ok d Hd Hlen m) | disp_skip ].
  Qed.

  (** the part of [read_header] after the loop touches no stream *)
  Lemma open_tail_bnd m start (r : open_acc * N) :
    bnd (let '((ft, mv, moofs, offs, emsgs), current) := r in
         match ft, mv with
         | Some f, Some v =>
             sz <- sub64 m "read_header current-start" current start ;;
             if existsb (fun t => tkhd_track_id (trak_tkhd t) =? 0) (moov_traks v)
             then Throw EData
             else
               let tracks := tracks_collect (moov_traks v) in
               tracks' <- (match moofs with
                           | [] => Ret tracks
                           | _ => lift (attach_moofs (moov_default_sample_duration v) (combine moofs offs) tracks)
                           end) ;;
               Ret (mkReader f v moofs emsgs tracks' sz)
         | _, _ => Throw EData
         end) 0 0.
  Proof.
    destruct r as [[[[[ft mv] moofs] offs] emsgs] current].
    destruct ft as [f|]; [|apply bnd_Throw]. destruct mv as [v|]; [|apply bnd_Throw].
    apply (bnd_weaken _ (0 + 0) (0 + 0)); [|lia|lia]. eapply bnd_bind; [apply bnd_sub64|]. intros sz.
    destruct (existsb _ _); [apply bnd_Throw|]. cbn zeta.
    apply (bnd_weaken _ (0 + 0) (0 + 0)); [|lia|lia]. eapply bnd_bind; [|intros; apply bnd_Ret].
    destruct moofs; [apply bnd_Ret|apply bnd_lift, attach_moofs_not_oof].
  Qed.

  Lemma open_mrun m fuel : lenN d < N.of_nat fuel ->
    let '(r, _, k) := mrun (open_fuel fuel m (lenN d)) d 0 in
    r <> OutOfFuel /\ cwork k <= open_A * lenN d + open_B /\ c_asum k <= open_Al * lenN d + open_Bl.
  Proof.
    intros Hfuel. unfold open_fuel. unfold get_pos at 1. cbn [bind]. rewrite mrun_GetPos, mrun_bind.
    assert (Hf : fuel_ok d fuel 0) by (unfold fuel_ok; lia).
    pose proof (loop_cost d Hd Hlen m (lenN d) (lenN d) (open_dispatch m) pair
                          (lvA 7) (lvB 7) (lvAl 7) (lvBl 7) Hlen) as L.
    assert (HD : forall f cur name s acc p, p = cur + 8 \/ p = cur + 16 -> p <= lenN d ->
                   1 <= s -> s <= lenN d -> fuel_ok d f p ->
                   ispec d (open_dispatch m f cur name s acc) p s (lvA 7 * s + lvB 7) (lvAl 7 * s + lvBl 7)).
    { intros f cur name s acc p Hp Hpl Hs1 Hs2 Hf0. apply open_dispatch_ok; auto; [destruct Hp; lia|lia]. }
    specialize (L HD fuel (None, None, [], [], []) 0 Hf). unfold children_loop_at.
    destruct (mrun (children_loop_gen fuel m (Some (lenN d)) true (lenN d) (open_dispatch m) pair
                                      (None, None, [], [], []) 0) d 0) as [[r1 p1] k1].
    destruct L as (L1 & L2 & L3).
    assert (EA : open_A = 4 * lvA 7 + 2 * lvB 7 + 100) by reflexivity.
    assert (EB : open_B = 2 * lvB 7 + 200) by reflexivity.
    assert (EAl : open_Al = 4 * lvAl 7 + 2 * lvBl 7) by reflexivity.
    assert (EBl : open_Bl = 2 * lvBl 7) by reflexivity.
    rewrite N.sub_0_r in L2, L3.
    destruct r1 as [r|e|x|]; [| | |congruence].
    2,3: rewrite cwork_cadd, casum_cadd; change (cwork c_op) with 1; change (c_asum c_op) with 0;
         (split; [discriminate|]); split; lia.
    pose proof (open_tail_bnd m 0 r d p1 Hd) as T.
    destruct (mrun _ d p1) as [[r2 p2] k2]. destruct T as (T1 & T2 & T3).
    rewrite !cwork_cadd, !casum_cadd. change (cwork c_op) with 1. change (c_asum c_op) with 0.
    split; [exact T1|]. split; lia.
  Qed.

  (** [read_fragment_header]: the same loop with fewer arms *)
  Lemma frag_dispatch_ok m f cur name s acc p :
    8 <= p -> p <= lenN d -> 1 <= s -> s < 2 ^ 62 -> fuel_ok d f p ->
    ispec d (frag_dispatch m f cur name s acc) p s (lvA 7 * s + lvB 7) (lvAl 7 * s + lvBl 7).
  Proof.
    intros H8 Hp Hs1 Hs Hf. destruct acc as [moofs offs].
    destruct name; cbn [frag_dispatch]; first [ disp_child (moof_ok d Hd Hlen m) | disp_skip ].
  Qed.

  Lemma frag_tail_bnd m (rd : mp4reader) start (x : frag_acc * N) :
    bnd (let '((moofs, offs), current) := x in
         match moofs with
         | [] => Throw EData
         | _ =>
             sz <- sub64 m "read_fragment_header current-start" current start ;;
             let tracks := tracks_collect (moov_traks (rd_moov rd)) in
             tracks' <- lift (attach_moofs (moov_default_sample_duration (rd_moov rd)) (combine moofs offs) tracks) ;;
             Ret (mkReader (rd_ftyp rd) (rd_moov rd) moofs [] tracks' sz)
         end) 0 0.
  Proof.
    destruct x as [[moofs offs] current]. destruct moofs as [|mf moofs]; [apply bnd_Throw|].
    apply (bnd_weaken _ (0 + 0) (0 + 0)); [|lia|lia]. eapply bnd_bind; [apply bnd_sub64|]. intros sz. cbn zeta.
    apply (bnd_weaken _ (0 + 0) (0 + 0)); [|lia|lia].
    eapply bnd_bind; [apply bnd_lift, attach_moofs_not_oof|intros; apply bnd_Ret].
  Qed.

  Lemma open_fragment_mrun m rd fuel : lenN d < N.of_nat fuel ->
    let '(r, _, k) := mrun (open_fragment_fuel fuel m rd (lenN d)) d 0 in
    r <> OutOfFuel /\ cwork k <= open_A * lenN d + open_B /\ c_asum k <= open_Al * lenN d + open_Bl.
  Proof.
    intros Hfuel. unfold open_fragment_fuel. unfold get_pos at 1. cbn [bind]. rewrite mrun_GetPos, mrun_bind.
    assert (Hf : fuel_ok d fuel 0) by (unfold fuel_ok; lia).
    pose proof (loop_cost d Hd Hlen m (lenN d) (lenN d) (frag_dispatch m) pair
                          (lvA 7) (lvB 7) (lvAl 7) (lvBl 7) Hlen) as L.
    assert (HD : forall f cur name s acc p, p = cur + 8 \/ p = cur + 16 -> p <= lenN d ->
                   1 <= s -> s <= lenN d -> fuel_ok d f p ->
                   ispec d (frag_dispatch m f cur name s acc) p s (lvA 7 * s + lvB 7) (lvAl 7 * s + lvBl 7)).
    { intros f cur name s acc p Hp Hpl Hs1 Hs2 Hf0. apply frag_dispatch_ok; auto; [destruct Hp; lia|lia]. }
    specialize (L HD fuel ([], []) 0 Hf). unfold children_loop_at.
    destruct (mrun (children_loop_gen fuel m (Some (lenN d)) true (lenN d) (frag_dispatch m) pair
                                      ([], []) 0) d 0) as [[r1 p1] k1].
    destruct L as (L1 & L2 & L3).
    assert (EA : open_A = 4 * lvA 7 + 2 * lvB 7 + 100) by reflexivity.
    assert (EB : open_B = 2 * lvB 7 + 200) by reflexivity.
    assert (EAl : open_Al = 4 * lvAl 7 + 2 * lvBl 7) by reflexivity.
    assert (EBl : open_Bl = 2 * lvBl 7) by reflexivity.
    rewrite N.sub_0_r in L2, L3.
    destruct r1 as [r|e|x|]; [| | |congruence].
    2,3: rewrite cwork_cadd, casum_cadd; change (cwork c_op) with 1; change (c_asum c_op) with 0;
         (split; [discriminate|]); split; lia.
    pose proof (frag_tail_bnd m rd 0 r d p1 Hd) as T.
    destruct (mrun _ d p1) as [[r2 p2] k2]. destruct T as (T1 & T2 & T3).
    rewrite !cwork_cadd, !casum_cadd. change (cwork c_op) with 1. change (c_asum c_op) with 0.
    split; [exact T1|]. split; lia.
  Qed.
End Open.

(** ** The theorems, on [runm] *)
Theorem open_terminates data m fuel :
  bytes_ok data = true -> lenN data < 2 ^ 62 -> lenN data < N.of_nat fuel ->
  fst (fst (runm (open_fuel fuel m (lenN data)) (stream_at data 0) (meter0 None))) <> OutOfFuel.
Proof.
  intros Hd Hlen Hf. pose proof (open_mrun data Hd Hlen m fuel Hf) as H.
  rewrite mrun_unfold in H. apply H.
Qed.

Theorem open_cost data m fuel :
  bytes_ok data = true -> lenN data < 2 ^ 62 -> lenN data < N.of_nat fuel ->
  let mt := snd (runm (open_fuel fuel m (lenN data)) (stream_at data 0) (meter0 None)) in
  m_ops mt <= open_A * lenN data + open_B
  /\ m_bytes mt <= open_A * lenN data + open_B
  /\ m_steps mt <= open_A * lenN data + open_B
  /\ m_alloc_max mt <= open_Al * lenN data + open_Bl
  /\ m_alloc_sum mt <= open_Al * lenN data + open_Bl.
Proof.
  intros Hd Hlen Hf. pose proof (open_mrun data Hd Hlen m fuel Hf) as H.
  pose proof (mrun_amax_le_asum (open_fuel fuel m (lenN data)) data 0) as Hm.
  rewrite mrun_unfold in H, Hm. cbn [snd] in Hm. destruct H as (_ & Hw & Ha).
  cbn zeta. set (mt := snd (runm _ _ _)) in *. unfold cwork, cost_of in *. cbn [c_ops c_bytes c_steps c_asum c_amax] in *.
  repeat split; lia.
Qed.

Theorem open_fragment_terminates data m rd fuel :
  bytes_ok data = true -> lenN data < 2 ^ 62 -> lenN data < N.of_nat fuel ->
  fst (fst (runm (open_fragment_fuel fuel m rd (lenN data)) (stream_at data 0) (meter0 None))) <> OutOfFuel.
Proof.
  intros Hd Hlen Hf. pose proof (open_fragment_mrun data Hd Hlen m rd fuel Hf) as H.
  rewrite mrun_unfold in H. apply H.
Qed.

Theorem open_fragment_cost data m rd fuel :
  bytes_ok data = true -> lenN data < 2 ^ 62 -> lenN data < N.of_nat fuel ->
  let mt := snd (runm (open_fragment_fuel fuel m rd (lenN data)) (stream_at data 0) (meter0 None)) in
  m_ops mt <= open_A * lenN data + open_B
  /\ m_bytes mt <= open_A * lenN data + open_B
  /\ m_steps mt <= open_A * lenN data + open_B
  /\ m_alloc_max mt <= open_Al * lenN data + open_Bl
  /\ m_alloc_sum mt <= open_Al * lenN data + open_Bl.
Proof.
  intros Hd Hlen Hf. pose proof (open_fragment_mrun data Hd Hlen m rd fuel Hf) as H.
  pose proof (mrun_amax_le_asum (open_fragment_fuel fuel m rd (lenN data)) data 0) as Hm.
  rewrite mrun_unfold in H, Hm. cbn [snd] in Hm. destruct H as (_ & Hw & Ha).
  cbn zeta. set (mt := snd (runm _ _ _)) in *. unfold cwork, cost_of in *. cbn [c_ops c_bytes c_steps c_asum c_amax] in *.
  repeat split; lia.
Qed.

Print Assumptions open_cost.
Print Assumptions open_fragment_cost.
