(** * [C12_statement] (Props/C12.v) is FALSE as stated

    The closure [clos_refl_sym_trans (lstep open_known)] is symmetric, and [ts_spare] appends
    spare bytes to ANY leaf with a [spare_ok] type, whatever its payload.  Read backwards it
    REMOVES the last bytes of such a leaf, and nothing says that the removed bytes were spare:
    an mvhd whose last 10 bytes are cut off is one [ts_spare] step below the complete mvhd.
    The complete file opens, the truncated one does not. *)
From MP4 Require Import C12.
From MP4 Require Import LayoutKit LayoutProofs LayoutOpen Reader RtMvhd RtFtyp IsoFtyp.
From MP4 Require Import LayoutTreeMono.
From Coq Require Import Relations.
Open Scope string_scope.
Open Scope list_scope.
Open Scope N_scope.

Definition rf_ftyp : child := mkChild false 0x66747970 (iso_ftyp_payload (mkFtyp 0x69736f6d 512 [0x69736f6d])).
Definition rf_mvhd_cut : child := mkChild false 0x6d766864 (firstn 90 (mvhd_payload mvhd_default)).
Definition rf_spare : bytes := skipn 90 (mvhd_payload mvhd_default).

Definition rf_TB : list btree := [BLeaf rf_ftyp; BNode false 0x6d6f6f76 [BLeaf rf_mvhd_cut]].
Definition rf_TA : list btree := [BLeaf rf_ftyp; BNode false 0x6d6f6f76 [BLeaf (with_tail rf_spare rf_mvhd_cut)]].

Lemma rf_step : lstep open_known rf_TB rf_TA.
Proof.
  apply (ls_inside open_known [BLeaf rf_ftyp] []).
  apply (ts_kids false 0x6d6f6f76 moov_known); [vm_compute; reflexivity|].
  apply (ls_inside moov_known [] []).
  apply ts_spare. vm_compute. reflexivity.
Qed.

Lemma rf_wf : Forall bt_wf rf_TA /\ Forall bt_wf rf_TB.
Proof.
  split; repeat constructor; vm_compute; reflexivity.
Qed.

Lemma rf_tight : Forall (bt_leaves meta_tight) rf_TA /\ Forall (bt_leaves meta_tight) rf_TB.
Proof.
  split; repeat constructor; intros H; vm_compute in H; discriminate H.
Qed.

Lemma rf_A_opens : exists ra, opens Dbg (file_of rf_TA) ra /\ rd_moofs ra = [].
Proof.
  eexists. split.
  - exists 5%nat. vm_compute. reflexivity.
  - reflexivity.
Qed.

Lemma rf_B_does_not_open : forall rb, ~ opens Dbg (file_of rf_TB) rb.
Proof.
  intros rb [fuel H].
  destruct fuel as [|[|[|fuel]]]; vm_compute in H; discriminate H.
Qed.

Theorem C12_statement_refuted : ~ C12_statement.
Proof.
  intros H.
  destruct rf_A_opens as (ra & Ho & Hm).
  destruct rf_wf as [WA WB]. destruct rf_tight as [TA TB].
  destruct (H Dbg rf_TA rf_TB ra WA WB TA TB (rst_sym _ _ _ _ (rst_step _ _ _ _ rf_step)) Ho Hm)
    as (rb & Hb & _).
  exact (rf_B_does_not_open rb Hb).
Qed.
Print Assumptions C12_statement_refuted.

(** ** A single FORWARD step already changes the result on a non-canonical leaf

    An mvhd that declares 4 bytes less than its fields need (its [next_track_id] is missing) and is
    followed by a sibling: [MvhdBox::read_box] reads the missing field out of the SIBLING's header
    (the size field of the free box, 11) and then seeks back to the declared end, so the file opens.
    One [ts_spare] step (4 spare bytes after the mvhd) and the field is read from the spare bytes:
    both files open, to different [mvhd] values.  So the statement with the one-directional closure
    is false too; what it needs is that the leaf decodes INSIDE its own bytes (a canonical payload
    followed by spare bytes), which is the hypothesis [LayoutTree.v] adds. *)
Definition rf_mvhd_cut4 : child := mkChild false 0x6d766864 (firstn 96 (mvhd_payload mvhd_default)).
Definition rf_free : child := mkChild false 0x66726565 [1; 2; 3].
Definition rf_FA : list btree :=
  [BLeaf rf_ftyp; BNode false 0x6d6f6f76 [BLeaf rf_mvhd_cut4; BLeaf rf_free]].
Definition rf_FB : list btree :=
  [BLeaf rf_ftyp; BNode false 0x6d6f6f76 [BLeaf (with_tail [0; 0; 0; 99] rf_mvhd_cut4); BLeaf rf_free]].

Lemma rf_fwd_step : lstep open_known rf_FA rf_FB.
Proof.
  apply (ls_inside open_known [BLeaf rf_ftyp] []).
  apply (ts_kids false 0x6d6f6f76 moov_known); [vm_compute; reflexivity|].
  apply (ls_inside moov_known [] [BLeaf rf_free]).
  apply ts_spare. vm_compute. reflexivity.
Qed.

Theorem forward_spare_step_changes_the_movie :
  lstep open_known rf_FA rf_FB /\
  Forall bt_wf rf_FA /\ Forall bt_wf rf_FB /\
  Forall (bt_leaves meta_tight) rf_FA /\ Forall (bt_leaves meta_tight) rf_FB /\
  (exists ra, opens Dbg (file_of rf_FA) ra) /\ (exists rb, opens Dbg (file_of rf_FB) rb) /\
  (forall ra, opens Dbg (file_of rf_FA) ra -> mvhd_next_track_id (moov_mvhd (rd_moov ra)) = 11) /\
  (forall rb, opens Dbg (file_of rf_FB) rb -> mvhd_next_track_id (moov_mvhd (rd_moov rb)) = 99).
Proof.
  split; [exact rf_fwd_step|].
  split; [repeat constructor; vm_compute; reflexivity|].
  split; [repeat constructor; vm_compute; reflexivity|].
  split; [repeat constructor; intros H; vm_compute in H; discriminate H|].
  split; [repeat constructor; intros H; vm_compute in H; discriminate H|].
  split; [eexists; exists 5%nat; vm_compute; reflexivity|].
  split; [eexists; exists 5%nat; vm_compute; reflexivity|].
  split.
  - intros ra [fuel H].
    assert (E : run (open_fuel fuel Dbg (lenN (file_of rf_FA))) (stream_at (file_of rf_FA) 0)
                = run (open_fuel 5 Dbg (lenN (file_of rf_FA))) (stream_at (file_of rf_FA) 0)).
    { apply open_fuel_det; [rewrite H; discriminate | vm_compute; discriminate]. }
    rewrite E in H.
    apply (f_equal (res_map (fun r => mvhd_next_track_id (moov_mvhd (rd_moov r))))) in H.
    vm_compute in H. injection H as H. symmetry. exact H.
  - intros rb [fuel H].
    assert (E : run (open_fuel fuel Dbg (lenN (file_of rf_FB))) (stream_at (file_of rf_FB) 0)
                = run (open_fuel 5 Dbg (lenN (file_of rf_FB))) (stream_at (file_of rf_FB) 0)).
    { apply open_fuel_det; [rewrite H; discriminate | vm_compute; discriminate]. }
    rewrite E in H.
    apply (f_equal (res_map (fun r => mvhd_next_track_id (moov_mvhd (rd_moov r))))) in H.
    vm_compute in H. injection H as H. symmetry. exact H.
Qed.
Print Assumptions forward_spare_step_changes_the_movie.
