(** * Programs over a stream: a free monad and its interpreters

    Library code that takes a [Read + Seek] is modelled as a [prog] tree whose
    nodes are exactly the things such code can do to the outside world:
    [read_exact], [seek] (absolute / relative), [stream_position], an
    allocation request, one step of CPU work in a loop that touches no
    stream, returning, failing with an [Error], panicking.  There is NO
    "catch" node: whatever an interpreter signals ([Err EIo] at end of file or
    on an injected fault) propagates to the caller, exactly as [?] does in the
    Rust code.  The few places where the Rust code inspects an error operate
    on the results of pure functions and are written as such in the model.

    Two interpreters:
    - [run]   : the stream only (Cursor semantics) — used by all value proofs;
    - [runm]  : stream + meters (stream calls, bytes moved, loop steps,
                allocation requests) + an optional injected fault — used by
                the cost, memory and I/O-failure theorems.
    [runm_run] shows they agree when no fault is armed. *)
From MP4 Require Export Res.
Open Scope N_scope.

Inductive prog (A : Type) : Type :=
| Ret (a : A)
| Throw (e : err)
| Crash (site : string)
| Spin
| RdExact (n : N) (k : bytes -> prog A)
| SeekTo (p : N) (k : prog A)
| SeekRel (d : Z) (k : prog A)
| GetPos (k : N -> prog A)
| Alloc (n : N) (k : prog A)
| Step (k : prog A).
Arguments Ret {A} a.
Arguments Throw {A} e.
Arguments Crash {A} site.
Arguments Spin {A}.
Arguments RdExact {A} n k.
Arguments SeekTo {A} p k.
Arguments SeekRel {A} d k.
Arguments GetPos {A} k.
Arguments Alloc {A} n k.
Arguments Step {A} k.

Fixpoint bind {A B} (p : prog A) (f : A -> prog B) : prog B :=
  match p with
  | Ret a => f a
  | Throw e => Throw e
  | Crash s => Crash s
  | Spin => Spin
  | RdExact n k => RdExact n (fun l => bind (k l) f)
  | SeekTo q k => SeekTo q (bind k f)
  | SeekRel d k => SeekRel d (bind k f)
  | GetPos k => GetPos (fun x => bind (k x) f)
  | Alloc n k => Alloc n (bind k f)
  | Step k => Step (bind k f)
  end.

Declare Scope prog_scope.
Delimit Scope prog_scope with prog.
Notation "x <- p ;; q" := (bind p (fun x => q))
  (at level 61, p at next level, right associativity) : prog_scope.
Notation "' pat <- p ;; q" := (bind p (fun x => match x with pat => q end))
  (at level 61, pat pattern, p at next level, right associativity) : prog_scope.
Notation "p ;;; q" := (bind p (fun _ => q))
  (at level 61, right associativity) : prog_scope.
Open Scope prog_scope.

Definition lift {A} (r : res A) : prog A :=
  match r with
  | Ok a => Ret a
  | Err e => Throw e
  | Panic s => Crash s
  | OutOfFuel => Spin
  end.

Definition rd_exact (n : N) : prog bytes := RdExact n (fun l => Ret l).
Definition seek_to (p : N) : prog unit := SeekTo p (Ret tt).
Definition seek_rel (d : Z) : prog unit := SeekRel d (Ret tt).
Definition get_pos : prog N := GetPos (fun p => Ret p).
Definition alloc (n : N) : prog unit := Alloc n (Ret tt).
Definition step : prog unit := Step (Ret tt).

(** ** The stream (std::io::Cursor semantics) *)

Record stream := mkStream { s_data : bytes; s_len : N; s_pos : N; s_view : bytes }.

Definition stream_wf (s : stream) : Prop :=
  s_len s = lenN (s_data s) /\ s_view s = dropN (s_pos s) (s_data s).

Definition stream_at (data : bytes) (pos : N) : stream :=
  mkStream data (lenN data) pos (dropN pos data).

Definition seek_abs (s : stream) (p : N) : stream :=
  if s_pos s <=? p
  then mkStream (s_data s) (s_len s) p (dropN (p - s_pos s) (s_view s))
  else mkStream (s_data s) (s_len s) p (dropN p (s_data s)).

(** [SeekFrom::Current(d)]: fails on a negative or overflowing target. *)
Definition seek_cur (s : stream) (d : Z) : option stream :=
  let t := (Z.of_N (s_pos s) + d)%Z in
  if ((t <? 0) || (Z.of_N U64 <=? t))%Z then None
  else Some (seek_abs s (Z.to_N t)).

Definition eof_stream (s : stream) : stream :=
  mkStream (s_data s) (s_len s) (N.max (s_pos s) (s_len s)) [].

Fixpoint run {A} (p : prog A) (s : stream) : res A * stream :=
  match p with
  | Ret a => (Ok a, s)
  | Throw e => (Err e, s)
  | Crash x => (Panic x, s)
  | Spin => (OutOfFuel, s)
  | RdExact n k =>
      if n =? 0 then run (k []) s
      else match splitN n (s_view s) with
           | Some (h, r) => run (k h) (mkStream (s_data s) (s_len s) (s_pos s + n) r)
           | None => (Err EIo, eof_stream s)
           end
  | SeekTo q k => run k (seek_abs s q)
  | SeekRel d k =>
      match seek_cur s d with
      | Some s' => run k s'
      | None => (Err EIo, s)
      end
  | GetPos k => run (k (s_pos s)) s
  | Alloc _ k => run k s
  | Step k => run k s
  end.

Lemma run_bind {A B} (p : prog A) (f : A -> prog B) s :
  run (bind p f) s =
  match run p s with
  | (Ok a, s') => run (f a) s'
  | (Err e, s') => (Err e, s')
  | (Panic x, s') => (Panic x, s')
  | (OutOfFuel, s') => (OutOfFuel, s')
  end.
Proof.
  revert s; induction p as [a|e|x| |n k IH|q k IH|d k IH|k IH|n k IH|k IH]; intros s;
    cbn [bind run]; auto.
  - destruct (n =? 0); auto. destruct (splitN n (s_view s)) as [[h r]|]; auto.
  - destruct (seek_cur s d); auto.
Qed.

(** [run] cannot tell [bind (bind p f) g] from [bind p (fun a => bind (f a) g)] *)
Lemma bind_bind {A B C} (p : prog A) (f : A -> prog B) (g : B -> prog C) s :
  run (bind (bind p f) g) s = run (bind p (fun a => bind (f a) g)) s.
Proof.
  revert s; induction p as [a|e|x| |n k IH|q k IH|d k IH|k IH|n k IH|k IH]; intros s;
    cbn [bind run]; auto.
  - destruct (n =? 0); auto. destruct (splitN n (s_view s)) as [[h r]|]; auto.
  - destruct (seek_cur s d); auto.
Qed.

Lemma run_lift {A} (r : res A) s : run (lift r) s = (r, s).
Proof. destruct r; reflexivity. Qed.

(** Well-formedness of the stream is an invariant of [run]. *)
Lemma seek_abs_wf s p : stream_wf s -> stream_wf (seek_abs s p).
Proof.
  intros [Hl Hv]. unfold seek_abs. destruct (N.leb_spec (s_pos s) p); split; cbn; auto.
  rewrite Hv, dropN_dropN. f_equal. lia.
Qed.

Lemma run_wf {A} (p : prog A) s : stream_wf s -> stream_wf (snd (run p s)).
Proof.
  revert s; induction p as [a|e|x| |n k IH|q k IH|d k IH|k IH|n k IH|k IH]; intros s Hs;
    cbn [run snd]; auto.
  - destruct (N.eqb_spec n 0); auto.
    destruct (splitN n (s_view s)) as [[h r]|] eqn:E.
    + apply IH. destruct Hs as [Hl Hv]. split; cbn; auto.
      apply splitN_dropN in E. rewrite E, Hv, dropN_dropN. f_equal. lia.
    + cbn. destruct Hs as [Hl Hv]. split; cbn; auto.
      symmetry. apply dropN_all. lia.
  - apply IH. now apply seek_abs_wf.
  - unfold seek_cur.
    destruct ((Z.of_N (s_pos s) + d <? 0) || (Z.of_N U64 <=? Z.of_N (s_pos s) + d))%Z; cbn; auto.
    apply IH. now apply seek_abs_wf.
Qed.

Lemma stream_at_wf data pos : stream_wf (stream_at data pos).
Proof. split; reflexivity. Qed.

(** ** Meters and fault injection *)

Record meter := mkMeter {
  m_ops : N;          (* stream calls issued: read_exact (n>0), seek, stream_position *)
  m_bytes : N;        (* bytes transferred by read_exact *)
  m_steps : N;        (* loop steps that touch no stream *)
  m_alloc_max : N;    (* largest single allocation request *)
  m_alloc_sum : N;    (* sum of allocation requests *)
  m_fault : option N; (* Some k: the (k+1)-th stream call from now fails *)
  m_fired : bool      (* the fault was delivered *)
}.

Definition meter0 (fault : option N) : meter := mkMeter 0 0 0 0 0 fault false.

(** One stream call: either the armed fault fires, or the call is counted. *)
Definition op_tick (m : meter) : option meter :=
  match m_fault m with
  | Some 0 => None
  | Some k => Some (mkMeter (m_ops m + 1) (m_bytes m) (m_steps m) (m_alloc_max m) (m_alloc_sum m)
                            (Some (k - 1)) (m_fired m))
  | None => Some (mkMeter (m_ops m + 1) (m_bytes m) (m_steps m) (m_alloc_max m) (m_alloc_sum m)
                          None (m_fired m))
  end.
Definition fire (m : meter) : meter :=
  mkMeter (m_ops m + 1) (m_bytes m) (m_steps m) (m_alloc_max m) (m_alloc_sum m) None true.
Definition add_bytes (m : meter) (n : N) : meter :=
  mkMeter (m_ops m) (m_bytes m + n) (m_steps m) (m_alloc_max m) (m_alloc_sum m) (m_fault m) (m_fired m).
Definition add_step (m : meter) : meter :=
  mkMeter (m_ops m) (m_bytes m) (m_steps m + 1) (m_alloc_max m) (m_alloc_sum m) (m_fault m) (m_fired m).
Definition add_alloc (m : meter) (n : N) : meter :=
  mkMeter (m_ops m) (m_bytes m) (m_steps m) (N.max (m_alloc_max m) n) (m_alloc_sum m + n)
          (m_fault m) (m_fired m).

Fixpoint runm {A} (p : prog A) (s : stream) (m : meter) : res A * stream * meter :=
  match p with
  | Ret a => (Ok a, s, m)
  | Throw e => (Err e, s, m)
  | Crash x => (Panic x, s, m)
  | Spin => (OutOfFuel, s, m)
  | RdExact n k =>
      if n =? 0 then runm (k []) s m
      else match op_tick m with
           | None => (Err EIo, s, fire m)
           | Some m1 =>
               match splitN n (s_view s) with
               | Some (h, r) =>
                   runm (k h) (mkStream (s_data s) (s_len s) (s_pos s + n) r) (add_bytes m1 n)
               | None => (Err EIo, eof_stream s, m1)
               end
           end
  | SeekTo q k =>
      match op_tick m with
      | None => (Err EIo, s, fire m)
      | Some m1 => runm k (seek_abs s q) m1
      end
  | SeekRel d k =>
      match op_tick m with
      | None => (Err EIo, s, fire m)
      | Some m1 =>
          match seek_cur s d with
          | Some s' => runm k s' m1
          | None => (Err EIo, s, m1)
          end
      end
  | GetPos k =>
      match op_tick m with
      | None => (Err EIo, s, fire m)
      | Some m1 => runm (k (s_pos s)) s m1
      end
  | Alloc n k => runm k s (add_alloc m n)
  | Step k => runm k s (add_step m)
  end.

Lemma op_tick_nofault m : m_fault m = None ->
  exists m1, op_tick m = Some m1 /\ m_fault m1 = None.
Proof. intros H. unfold op_tick. rewrite H. eexists; split; reflexivity. Qed.

(** With no fault armed the metered run computes what the plain run computes. *)
Lemma runm_run {A} (p : prog A) s m : m_fault m = None ->
  let '(r, s', m') := runm p s m in run p s = (r, s') /\ m_fault m' = None.
Proof.
  revert s m; induction p as [a|e|x| |n k IH|q k IH|d k IH|k IH|n k IH|k IH]; intros s m Hm;
    cbn [runm run]; auto.
  - destruct (n =? 0); [now apply IH|].
    destruct (op_tick_nofault m Hm) as (m1 & -> & H1).
    destruct (splitN n (s_view s)) as [[h r]|]; [|auto].
    apply IH. exact H1.
  - destruct (op_tick_nofault m Hm) as (m1 & -> & H1). now apply IH.
  - destruct (op_tick_nofault m Hm) as (m1 & -> & H1).
    destruct (seek_cur s d); [now apply IH|auto].
  - destruct (op_tick_nofault m Hm) as (m1 & -> & H1). now apply IH.
  - now apply IH.
  - now apply IH.
Qed.

Lemma runm_bind {A B} (p : prog A) (f : A -> prog B) s m :
  runm (bind p f) s m =
  match runm p s m with
  | (Ok a, s', m') => runm (f a) s' m'
  | (Err e, s', m') => (Err e, s', m')
  | (Panic x, s', m') => (Panic x, s', m')
  | (OutOfFuel, s', m') => (OutOfFuel, s', m')
  end.
Proof.
  revert s m; induction p as [a|e|x| |n k IH|q k IH|d k IH|k IH|n k IH|k IH]; intros s m;
    cbn [bind runm]; auto.
  - destruct (n =? 0); auto. destruct (op_tick m); auto.
    destruct (splitN n (s_view s)) as [[h r]|]; auto.
  - destruct (op_tick m); auto.
  - destruct (op_tick m); auto. destruct (seek_cur s d); auto.
  - destruct (op_tick m); auto.
Qed.

(** *** The architecture's free theorem about I/O failures (property C10, model half):
    for EVERY program, if the injected fault is delivered during the run, the
    result is [Err EIo] — never success, never a panic, never another error. *)
Theorem fault_surfaces {A} (p : prog A) s m :
  m_fired m = false ->
  let '(r, _, m') := runm p s m in m_fired m' = true -> r = Err EIo.
Proof.
  revert s m; induction p as [a|e|x| |n k IH|q k IH|d k IH|k IH|n k IH|k IH]; intros s m Hm;
    cbn [runm]; try (intros H; congruence).
  - destruct (n =? 0); [now apply IH|].
    unfold op_tick. destruct (m_fault m) as [[|j]|]; cbn; auto;
      (destruct (splitN n (s_view s)) as [[h r]|]; [apply IH; exact Hm | cbn; intros; congruence]).
  - unfold op_tick. destruct (m_fault m) as [[|j]|]; cbn; auto; apply IH; exact Hm.
  - unfold op_tick. destruct (m_fault m) as [[|j]|]; cbn; auto;
      (destruct (seek_cur s d); [apply IH; exact Hm | cbn; intros; congruence]).
  - unfold op_tick. destruct (m_fault m) as [[|j]|]; cbn; auto; apply IH; exact Hm.
  - apply IH. exact Hm.
  - apply IH. exact Hm.
Qed.

(** A fault that is armed within the number of calls the run makes is delivered
    (so the theorem above is not vacuous): see [Proofs/IoFaults.v]. *)

(** ** Writers: [Write + Seek] programs *)

Inductive wprog (A : Type) : Type :=
| WRet (a : A)
| WThrow (e : err)
| WCrash (site : string)
| WrAll (l : bytes) (k : wprog A)
| WSeekTo (p : N) (k : wprog A)
| WGetPos (k : N -> wprog A).
Arguments WRet {A} a.
Arguments WThrow {A} e.
Arguments WCrash {A} site.
Arguments WrAll {A} l k.
Arguments WSeekTo {A} p k.
Arguments WGetPos {A} k.

Fixpoint wbind {A B} (p : wprog A) (f : A -> wprog B) : wprog B :=
  match p with
  | WRet a => f a
  | WThrow e => WThrow e
  | WCrash s => WCrash s
  | WrAll l k => WrAll l (wbind k f)
  | WSeekTo q k => WSeekTo q (wbind k f)
  | WGetPos k => WGetPos (fun x => wbind (k x) f)
  end.

Declare Scope wprog_scope.
Delimit Scope wprog_scope with wprog.
Notation "x <- p ;; q" := (wbind p (fun x => q))
  (at level 61, p at next level, right associativity) : wprog_scope.
Notation "' pat <- p ;; q" := (wbind p (fun x => match x with pat => q end))
  (at level 61, pat pattern, p at next level, right associativity) : wprog_scope.
Notation "p ;;; q" := (wbind p (fun _ => q))
  (at level 61, right associativity) : wprog_scope.

Definition wlift {A} (r : res A) : wprog A :=
  match r with
  | Ok a => WRet a
  | Err e => WThrow e
  | Panic s => WCrash s
  | OutOfFuel => WCrash "out of fuel"
  end.

Definition wr (l : bytes) : wprog unit := WrAll l (WRet tt).
Definition wseek (p : N) : wprog unit := WSeekTo p (WRet tt).
Definition wpos : wprog N := WGetPos (fun p => WRet p).

(** Output stream: [w_buf] holds the bytes from stream position [w_base] on
    (a muxer may be handed a stream that is not at position 0). Writing past
    the end zero-fills, as [Cursor<Vec<u8>>] does. *)
Record wstream := mkW { w_base : N; w_buf : bytes; w_pos : N }.

Definition write_at (off : N) (l : bytes) (buf : bytes) : bytes :=
  let n := lenN buf in
  if off <=? n
  then firstn (N.to_nat off) buf ++ l ++ dropN (off + lenN l) buf
  else buf ++ repeatN 0 (off - n) ++ l.

Fixpoint wrun {A} (p : wprog A) (w : wstream) : res A * wstream :=
  match p with
  | WRet a => (Ok a, w)
  | WThrow e => (Err e, w)
  | WCrash x => (Panic x, w)
  | WrAll l k =>
      match l with
      | [] => wrun k w
      | _ => wrun k (mkW (w_base w) (write_at (w_pos w - w_base w) l (w_buf w)) (w_pos w + lenN l))
      end
  | WSeekTo q k => wrun k (mkW (w_base w) (w_buf w) q)
  | WGetPos k => wrun (k (w_pos w)) w
  end.

Lemma wrun_bind {A B} (p : wprog A) (f : A -> wprog B) w :
  wrun (wbind p f) w =
  match wrun p w with
  | (Ok a, w') => wrun (f a) w'
  | (Err e, w') => (Err e, w')
  | (Panic x, w') => (Panic x, w')
  | (OutOfFuel, w') => (OutOfFuel, w')
  end.
Proof.
  revert w; induction p as [a|e|x|l k IH|q k IH|k IH]; intros w; cbn [wbind wrun]; auto.
  destruct l; auto.
Qed.

(** Metered / faulty writer run: [Some k] fails the (k+1)-th stream call. *)
Fixpoint wrunm {A} (p : wprog A) (w : wstream) (m : meter) : res A * wstream * meter :=
  match p with
  | WRet a => (Ok a, w, m)
  | WThrow e => (Err e, w, m)
  | WCrash x => (Panic x, w, m)
  | WrAll l k =>
      match l with
      | [] => wrunm k w m
      | _ => match op_tick m with
             | None => (Err EIo, w, fire m)
             | Some m1 =>
                 wrunm k (mkW (w_base w) (write_at (w_pos w - w_base w) l (w_buf w)) (w_pos w + lenN l))
                       (add_bytes m1 (lenN l))
             end
      end
  | WSeekTo q k =>
      match op_tick m with
      | None => (Err EIo, w, fire m)
      | Some m1 => wrunm k (mkW (w_base w) (w_buf w) q) m1
      end
  | WGetPos k =>
      match op_tick m with
      | None => (Err EIo, w, fire m)
      | Some m1 => wrunm (k (w_pos w)) w m1
      end
  end.

Theorem wfault_surfaces {A} (p : wprog A) w m :
  m_fired m = false ->
  let '(r, _, m') := wrunm p w m in m_fired m' = true -> r = Err EIo.
Proof.
  revert w m; induction p as [a|e|x|l k IH|q k IH|k IH]; intros w m Hm;
    cbn [wrunm]; try (intros H; congruence).
  - destruct l as [|b l]; [now apply IH|].
    unfold op_tick. destruct (m_fault m) as [[|j]|]; cbn; auto; apply IH; exact Hm.
  - unfold op_tick. destruct (m_fault m) as [[|j]|]; cbn; auto; apply IH; exact Hm.
  - unfold op_tick. destruct (m_fault m) as [[|j]|]; cbn; auto; apply IH; exact Hm.
Qed.

Lemma wrunm_wrun {A} (p : wprog A) w m : m_fault m = None ->
  let '(r, w', m') := wrunm p w m in wrun p w = (r, w') /\ m_fault m' = None.
Proof.
  revert w m; induction p as [a|e|x|l k IH|q k IH|k IH]; intros w m Hm; cbn [wrunm wrun]; auto.
  - destruct l as [|b l]; [now apply IH|].
    destruct (op_tick_nofault m Hm) as (m1 & -> & H1). apply IH. exact H1.
  - destruct (op_tick_nofault m Hm) as (m1 & -> & H1). now apply IH.
  - destruct (op_tick_nofault m Hm) as (m1 & -> & H1). now apply IH.
Qed.

(** Bytes a pure appender writes (no seeks): used by the box encoders. *)
Fixpoint wout {A} (p : wprog A) : bytes :=
  match p with
  | WrAll l k => l ++ wout k
  | _ => []
  end.
