(** * A small Hoare logic over [run] for "never panics" proofs (property C06)

    [triple P c Q]: from every stream satisfying [P], the program [c]
    - does not panic,
    - and if it returns [Ok a] the final stream satisfies [Q a].
    Nothing is claimed after an error (the model has no catch node: an [Err]
    propagates to the caller of the library) nor when the fuel of a fuelled loop
    runs out.

    Two layers:
    - [triple] with arbitrary assertions on streams, and the structural rules
      (ret, throw, bind, consequence, ghost variables, case split, lift);
    - [sat d p c Q]: the same judgement for the well-formed stream over the
      byte string [d] positioned at [p] — a well-formed stream IS
      [stream_at d p] — with a postcondition on the result and the final
      POSITION.  All primitive rules (RdExact, SeekTo, SeekRel, GetPos, Alloc,
      Step, the reads of Prim.v, [rd_n], [read_header], [box_start],
      [skip_box]...) are stated for [sat], where they are one-liners, and
      [triple_of_sat]/[sat_of_triple] convert between the two.

    The state invariant carried between boxes is [Inv]. The tactic [sat_go]
    steps through a straight-line decoder and leaves arithmetic side
    conditions, which [sat_arith] (lia after unfolding the constants)
    discharges. *)
From MP4 Require Export Prim.
From Coq Require Import ZArith ZifyN ZifyNat ZifyBool Lia.
Open Scope string_scope.
Open Scope list_scope.
Open Scope N_scope.

(** ** The judgement *)

Definition outcome {A} (r : res A * stream) (Q : A -> stream -> Prop) : Prop :=
  match r with
  | (Ok a, s') => Q a s'
  | (Err _, _) => True
  | (Panic _, _) => False
  | (OutOfFuel, _) => True
  end.

Definition triple {A} (P : stream -> Prop) (c : prog A) (Q : A -> stream -> Prop) : Prop :=
  forall s, P s -> outcome (run c s) Q.

(** the brief's formulation, for the record *)
Lemma triple_unfold {A} (P : stream -> Prop) (c : prog A) (Q : A -> stream -> Prop) :
  triple P c Q <->
  (forall s, P s -> match run c s with
                    | (Ok a, s') => Q a s'
                    | (Err _, _) => True
                    | (Panic _, _) => False
                    | (OutOfFuel, _) => True
                    end).
Proof. reflexivity. Qed.

Lemma outcome_no_panic {A} (r : res A * stream) Q : outcome r Q -> is_panic (fst r) = false.
Proof. destruct r as [[a|e|x|] s]; cbn; intros H; auto; contradiction. Qed.

Lemma triple_no_panic {A} P (c : prog A) Q s : triple P c Q -> P s -> is_panic (fst (run c s)) = false.
Proof. intros H Hs. exact (outcome_no_panic _ _ (H s Hs)). Qed.

Lemma outcome_mono {A} (r : res A * stream) (Q Q' : A -> stream -> Prop) :
  (forall a s, Q a s -> Q' a s) -> outcome r Q -> outcome r Q'.
Proof. destruct r as [[a|e|x|] s]; cbn; auto. Qed.

(** ** Facts about [run] that hold for every program *)

Lemma seek_abs_data s q : s_data (seek_abs s q) = s_data s /\ s_len (seek_abs s q) = s_len s.
Proof. unfold seek_abs. destruct (s_pos s <=? q); split; reflexivity. Qed.

Lemma run_data_len {A} (c : prog A) s :
  s_data (snd (run c s)) = s_data s /\ s_len (snd (run c s)) = s_len s.
Proof.
  revert s; induction c as [a|e|x| |n k IH|q k IH|d k IH|k IH|n k IH|k IH]; intros s;
    cbn [run snd]; auto.
  - destruct (n =? 0); auto.
    destruct (splitN n (s_view s)) as [[h r]|]; [|cbn; auto].
    destruct (IH h (mkStream (s_data s) (s_len s) (s_pos s + n) r)) as [H1 H2]. cbn in *. auto.
  - destruct (IH (seek_abs s q)) as [H1 H2]. destruct (seek_abs_data s q) as [H3 H4].
    split; congruence.
  - unfold seek_cur.
    destruct ((Z.of_N (s_pos s) + d <? 0) || (Z.of_N U64 <=? Z.of_N (s_pos s) + d))%Z; cbn; auto.
    destruct (IH (seek_abs s (Z.to_N (Z.of_N (s_pos s) + d)))) as [H1 H2].
    destruct (seek_abs_data s (Z.to_N (Z.of_N (s_pos s) + d))) as [H3 H4].
    split; congruence.
Qed.

Lemma run_data {A} (c : prog A) s : s_data (snd (run c s)) = s_data s.
Proof. apply run_data_len. Qed.
Lemma run_len {A} (c : prog A) s : s_len (snd (run c s)) = s_len s.
Proof. apply run_data_len. Qed.

(** a well-formed stream is determined by its data and its position *)
Lemma wf_stream_at s : stream_wf s -> s = stream_at (s_data s) (s_pos s).
Proof. destruct s as [d l p v]. intros [H1 H2]. cbn in *. subst. reflexivity. Qed.

Lemma run_at {A} (c : prog A) d p :
  snd (run c (stream_at d p)) = stream_at d (s_pos (snd (run c (stream_at d p)))).
Proof.
  pose proof (run_wf c (stream_at d p) (stream_at_wf d p)) as Hw.
  pose proof (run_data c (stream_at d p)) as Hd.
  rewrite (wf_stream_at _ Hw) at 1. rewrite Hd. reflexivity.
Qed.

(** ** The invariant carried from box to box *)

Definition Inv (s : stream) : Prop :=
  stream_wf s /\ bytes_ok (s_data s) = true /\ s_len s < 2 ^ 62 /\ s_pos s < 2 ^ 64.

Lemma Inv_at d p : bytes_ok d = true -> lenN d < 2 ^ 62 -> p < 2 ^ 64 -> Inv (stream_at d p).
Proof. intros. split; [apply stream_at_wf|]. cbn. auto. Qed.

Lemma Inv_inv s : Inv s ->
  s = stream_at (s_data s) (s_pos s) /\ bytes_ok (s_data s) = true
  /\ lenN (s_data s) < 2 ^ 62 /\ s_len s = lenN (s_data s) /\ s_pos s < 2 ^ 64.
Proof.
  intros (Hw & Hb & Hl & Hp). split; [now apply wf_stream_at|].
  destruct Hw as [Hw1 Hw2]. rewrite <- Hw1. auto.
Qed.

(** the entry point of the whole library: a file of fewer than 2^62 valid bytes at position 0 *)
Lemma Inv_start d : bytes_ok d = true -> lenN d < 2 ^ 62 -> Inv (stream_at d 0).
Proof. intros. apply Inv_at; auto. lia. Qed.

(** ** Structural rules for [triple] *)

Lemma triple_ret {A} (P : stream -> Prop) (a : A) (Q : A -> stream -> Prop) :
  (forall s, P s -> Q a s) -> triple P (Ret a) Q.
Proof. intros H s Hs. cbn. auto. Qed.

Lemma triple_throw {A} P e (Q : A -> stream -> Prop) : triple P (Throw e) Q.
Proof. intros s Hs. exact I. Qed.

Lemma triple_spin {A} P (Q : A -> stream -> Prop) : triple P Spin Q.
Proof. intros s Hs. exact I. Qed.

(** a [Crash] node is fine only where it cannot be reached *)
Lemma triple_crash {A} (P : stream -> Prop) x (Q : A -> stream -> Prop) :
  (forall s, P s -> False) -> triple P (Crash x) Q.
Proof. intros H s Hs. cbn. eauto. Qed.

Lemma triple_bind {A B} P (c : prog A) (R : A -> stream -> Prop) (f : A -> prog B) Q :
  triple P c R -> (forall a, triple (R a) (f a) Q) -> triple P (bind c f) Q.
Proof.
  intros Hc Hf s Hs. rewrite run_bind. specialize (Hc s Hs).
  destruct (run c s) as [[a|e|x|] s']; cbn in *; auto. now apply Hf.
Qed.

Lemma triple_conseq {A} (P P' : stream -> Prop) (c : prog A) (Q Q' : A -> stream -> Prop) :
  (forall s, P' s -> P s) -> (forall a s, Q a s -> Q' a s) -> triple P c Q -> triple P' c Q'.
Proof. intros HP HQ H s Hs. eapply outcome_mono; [exact HQ|]. auto. Qed.

Lemma triple_pre {A} (P P' : stream -> Prop) (c : prog A) Q :
  (forall s, P' s -> P s) -> triple P c Q -> triple P' c Q.
Proof. intros HP. apply triple_conseq; auto. Qed.

Lemma triple_post {A} P (c : prog A) (Q Q' : A -> stream -> Prop) :
  (forall a s, Q a s -> Q' a s) -> triple P c Q -> triple P c Q'.
Proof. intros HQ. apply triple_conseq; auto. Qed.

(** ghost variables: fix the initial state (hence any function of it) *)
Lemma triple_ghost {A} (P : stream -> Prop) (c : prog A) Q :
  (forall s0, P s0 -> triple (fun s => s = s0) c Q) -> triple P c Q.
Proof. intros H s Hs. exact (H s Hs s eq_refl). Qed.

Lemma triple_exists {A X} (P : X -> stream -> Prop) (c : prog A) Q :
  (forall x, triple (P x) c Q) -> triple (fun s => exists x, P x s) c Q.
Proof. intros H s [x Hx]. exact (H x s Hx). Qed.

(** pure facts of the precondition can be moved to the context *)
Lemma triple_pure {A} (X : Prop) (P : stream -> Prop) (c : prog A) Q :
  (X -> triple P c Q) -> triple (fun s => X /\ P s) c Q.
Proof. intros H s [HX Hs]. exact (H HX s Hs). Qed.

Lemma triple_false {A} (P : stream -> Prop) (c : prog A) Q :
  (forall s, P s -> False) -> triple P c Q.
Proof. intros H s Hs. destruct (H s Hs). Qed.

(** conjunction of postconditions / frame for a fact [run] cannot change *)
Lemma triple_and {A} P (c : prog A) (Q1 Q2 : A -> stream -> Prop) :
  triple P c Q1 -> triple P c Q2 -> triple P c (fun a s => Q1 a s /\ Q2 a s).
Proof.
  intros H1 H2 s Hs. specialize (H1 s Hs). specialize (H2 s Hs).
  destruct (run c s) as [[a|e|x|] s']; cbn in *; auto.
Qed.

(** the data and length never change: they can be framed around any triple *)
Lemma triple_frame {A} (P : stream -> Prop) (c : prog A) Q d l :
  triple P c Q ->
  triple (fun s => P s /\ s_data s = d /\ s_len s = l) c
         (fun a s' => Q a s' /\ s_data s' = d /\ s_len s' = l).
Proof.
  intros H s (Hs & Hd & Hl). specialize (H s Hs).
  pose proof (run_data c s) as H1. pose proof (run_len c s) as H2.
  destruct (run c s) as [[a|e|x|] s']; cbn in *; auto. repeat split; congruence.
Qed.

(** case splits *)
Lemma triple_if {A} P (b : bool) (c1 c2 : prog A) Q :
  (b = true -> triple P c1 Q) -> (b = false -> triple P c2 Q) -> triple P (if b then c1 else c2) Q.
Proof. destruct b; auto. Qed.

Lemma triple_cases {A} (X : Prop) P (c : prog A) Q :
  X \/ ~ X -> (X -> triple P c Q) -> (~ X -> triple P c Q) -> triple P c Q.
Proof. intros [H|H]; auto. Qed.

(** [lift] of a pure fixed-width computation *)
Lemma triple_lift {A} (P : stream -> Prop) (r : res A) (Q : A -> stream -> Prop) :
  (forall s, P s -> outcome (r, s) Q) -> triple P (lift r) Q.
Proof. intros H s Hs. rewrite run_lift. auto. Qed.

(** ** Primitive rules on a single state *)

Lemma triple_RdExact {A} (P : stream -> Prop) n (k : bytes -> prog A) Q :
  (n = 0 -> triple P (k []) Q) ->
  (n <> 0 -> forall h, lenN h = n ->
     triple (fun s' => exists s r, P s /\ s_view s = h ++ r
                                   /\ s' = mkStream (s_data s) (s_len s) (s_pos s + n) r) (k h) Q) ->
  triple P (RdExact n k) Q.
Proof.
  intros H0 Hn s Hs. cbn [run]. destruct (N.eqb_spec n 0) as [E|E]; [now apply H0|].
  destruct (splitN n (s_view s)) as [[h r]|] eqn:Es; [|exact I].
  apply splitN_some in Es as [E1 E2]. apply (Hn E h E2). exists s, r. auto.
Qed.

Lemma triple_SeekTo {A} (P : stream -> Prop) q (k : prog A) Q :
  triple (fun s' => exists s, P s /\ s' = seek_abs s q) k Q -> triple P (SeekTo q k) Q.
Proof. intros H s Hs. cbn [run]. apply H. eauto. Qed.

Lemma triple_SeekRel {A} (P : stream -> Prop) dz (k : prog A) Q :
  triple (fun s' => exists s, P s /\ seek_cur s dz = Some s') k Q -> triple P (SeekRel dz k) Q.
Proof. intros H s Hs. cbn [run]. destruct (seek_cur s dz) as [s'|] eqn:E; [|exact I]. apply H. eauto. Qed.

Lemma triple_GetPos {A} (P : stream -> Prop) (k : N -> prog A) Q :
  (forall p, triple (fun s => P s /\ s_pos s = p) (k p) Q) -> triple P (GetPos k) Q.
Proof. intros H s Hs. cbn [run]. apply (H (s_pos s)). auto. Qed.

Lemma triple_Alloc {A} P n (k : prog A) Q : triple P k Q -> triple P (Alloc n k) Q.
Proof. intros H s Hs. cbn [run]. auto. Qed.

Lemma triple_Step {A} P (k : prog A) Q : triple P k Q -> triple P (Step k) Q.
Proof. intros H s Hs. cbn [run]. auto. Qed.

(** ** The positional judgement *)

Definition sat {A} (d : bytes) (p : N) (c : prog A) (Q : A -> N -> Prop) : Prop :=
  outcome (run c (stream_at d p)) (fun a s' => exists p', s' = stream_at d p' /\ Q a p').

Lemma sat_of_triple {A} (P : stream -> Prop) (c : prog A) (Q : A -> stream -> Prop) d p :
  triple P c Q -> P (stream_at d p) -> sat d p c (fun a p' => Q a (stream_at d p')).
Proof.
  intros H Hs. specialize (H _ Hs). unfold sat. pose proof (run_at c d p) as E.
  destruct (run c (stream_at d p)) as [[a|e|x|] s']; cbn in *; auto.
  exists (s_pos s'). split; [exact E|]. now rewrite <- E.
Qed.

Lemma triple_of_sat {A} (P : stream -> Prop) (c : prog A) (Q : A -> stream -> Prop) :
  (forall s, P s -> stream_wf s) ->
  (forall d p, P (stream_at d p) -> sat d p c (fun a p' => Q a (stream_at d p'))) ->
  triple P c Q.
Proof.
  intros Hw H s Hs. pose proof (wf_stream_at s (Hw s Hs)) as E. rewrite E in Hs.
  specialize (H _ _ Hs). unfold sat in H. rewrite <- E in H.
  destruct (run c s) as [[a|e|x|] s']; cbn in *; auto. destruct H as (p' & -> & HQ). exact HQ.
Qed.

(** the usual shape: precondition [Inv] + a condition on data and position; the data is
    unchanged, [Inv] is re-established, the postcondition speaks about the final position *)
Lemma triple_Inv_of_sat {A} (c : prog A) (Pre : bytes -> N -> Prop) (Post : bytes -> N -> A -> N -> Prop) :
  (forall d p, bytes_ok d = true -> lenN d < 2 ^ 62 -> p < 2 ^ 64 -> Pre d p ->
     sat d p c (fun a p' => p' < 2 ^ 64 /\ Post d p a p')) ->
  forall d0 p0,
  triple (fun s => Inv s /\ s_data s = d0 /\ s_pos s = p0 /\ Pre d0 p0) c
         (fun a s' => Inv s' /\ s_data s' = d0 /\ Post d0 p0 a (s_pos s')).
Proof.
  intros H d0 p0. apply triple_of_sat.
  - intros s (Hi & _). apply Hi.
  - intros d p (Hi & Hd & Hp & Hpre). cbn in Hd, Hp. subst d0 p0.
    apply Inv_inv in Hi. cbn in Hi. destruct Hi as (_ & Hb & Hl & _ & Hp).
    specialize (H d p Hb Hl Hp Hpre). unfold sat in *.
    eapply outcome_mono; [|exact H]. cbn beta. intros a s' (p' & -> & Hp' & HQ).
    exists p'. split; [reflexivity|]. cbn. split; [|auto]. now apply Inv_at.
Qed.

(** *** structural rules *)
Lemma sat_ret {A} d p (a : A) (Q : A -> N -> Prop) : Q a p -> sat d p (Ret a) Q.
Proof. intros H. unfold sat. cbn. eauto. Qed.

Lemma sat_throw {A} d p e (Q : A -> N -> Prop) : sat d p (Throw e) Q.
Proof. exact I. Qed.

Lemma sat_spin {A} d p (Q : A -> N -> Prop) : sat d p Spin Q.
Proof. exact I. Qed.

Lemma sat_bind {A B} d p (c : prog A) (R : A -> N -> Prop) (f : A -> prog B) Q :
  sat d p c R -> (forall a p', R a p' -> sat d p' (f a) Q) -> sat d p (bind c f) Q.
Proof.
  unfold sat. intros Hc Hf. rewrite run_bind.
  destruct (run c (stream_at d p)) as [[a|e|x|] s']; cbn in *; auto.
  destruct Hc as (p' & -> & HR). now apply Hf.
Qed.

Lemma sat_conseq {A} d p (c : prog A) (Q Q' : A -> N -> Prop) :
  (forall a p', Q a p' -> Q' a p') -> sat d p c Q -> sat d p c Q'.
Proof.
  intros HQ. unfold sat. apply outcome_mono. intros a s (p' & -> & H). eauto.
Qed.

(** a program and [bind c Ret] run alike: lets the bind rules fire on a trailing call *)
Lemma sat_bind_ret {A} d p (c : prog A) Q : sat d p (bind c (fun a => Ret a)) Q -> sat d p c Q.
Proof.
  unfold sat. rewrite run_bind. destruct (run c (stream_at d p)) as [[a|e|x|] s']; cbn; auto.
Qed.

Lemma sat_bind_assoc {A B C} d p (c : prog A) (f : A -> prog B) (g : B -> prog C) Q :
  sat d p (bind c (fun a => bind (f a) g)) Q -> sat d p (bind (bind c f) g) Q.
Proof. unfold sat. now rewrite bind_bind. Qed.

Lemma sat_lift {A} d p (r : res A) (Q : A -> N -> Prop) :
  match r with Ok a => Q a p | Panic _ => False | _ => True end -> sat d p (lift r) Q.
Proof. unfold sat. rewrite run_lift. destruct r; cbn; eauto. Qed.

Lemma sat_lift_bind {A B} d p (r : res A) (k : A -> prog B) Q :
  match r with Ok a => sat d p (k a) Q | Panic _ => False | _ => True end ->
  sat d p (bind (lift r) k) Q.
Proof. destruct r; cbn [lift bind]; auto; intros H; solve [exact I | destruct H]. Qed.

(** *** stream primitives *)
Lemma seek_abs_at d p q : seek_abs (stream_at d p) q = stream_at d q.
Proof.
  unfold seek_abs, stream_at. cbn [s_pos s_data s_len s_view].
  destruct (N.leb_spec p q); [|reflexivity].
  rewrite dropN_dropN. do 2 f_equal. lia.
Qed.

Lemma bytes_ok_dropN n l : bytes_ok l = true -> bytes_ok (dropN n l) = true.
Proof.
  revert n; induction l as [|b t IH]; intros n H; cbn [dropN]; destruct (n =? 0); auto.
  cbn [bytes_ok forallb] in H. apply andb_true_iff in H as [_ H]. now apply IH.
Qed.

Lemma sat_RdExact {A} d p n (k : bytes -> prog A) Q :
  bytes_ok d = true ->
  (n = 0 -> sat d p (k []) Q) ->
  (n <> 0 -> forall l, lenN l = n -> bytes_ok l = true -> p + n <= lenN d -> sat d (p + n) (k l) Q) ->
  sat d p (RdExact n k) Q.
Proof.
  intros Hd H0 Hn. unfold sat. cbn [run]. destruct (N.eqb_spec n 0) as [E|E]; [now apply H0|].
  cbn [stream_at s_view s_data s_len s_pos].
  destruct (splitN n (dropN p d)) as [[h r]|] eqn:Es; [|exact I].
  pose proof (splitN_dropN _ _ _ _ Es) as Er. apply splitN_some in Es as [E1 E2].
  rewrite dropN_dropN in Er. subst r.
  replace (mkStream d (lenN d) (p + n) (dropN (n + p) d)) with (stream_at d (p + n))
    by (unfold stream_at; do 2 f_equal; lia).
  apply (Hn E h E2).
  - pose proof (bytes_ok_dropN p d Hd) as Hb. rewrite E1, bytes_ok_app in Hb.
    now apply andb_true_iff in Hb as [Hb _].
  - pose proof (dropN_lenN p d) as Hl. rewrite E1, lenN_app, E2 in Hl. lia.
Qed.

Lemma sat_SeekTo {A} d p q (k : prog A) Q : sat d q k Q -> sat d p (SeekTo q k) Q.
Proof. unfold sat. cbn [run]. now rewrite seek_abs_at. Qed.

Lemma sat_SeekRel {A} d p dz (k : prog A) Q :
  ((0 <= Z.of_N p + dz < 2 ^ 64)%Z -> sat d (Z.to_N (Z.of_N p + dz)) k Q) ->
  sat d p (SeekRel dz k) Q.
Proof.
  intros H. unfold sat. cbn [run]. unfold seek_cur. cbn [stream_at s_pos].
  destruct (Z.ltb_spec (Z.of_N p + dz) 0); [exact I|].
  destruct (Z.leb_spec (Z.of_N U64) (Z.of_N p + dz)); [exact I|].
  cbn [orb]. fold (stream_at d p). rewrite seek_abs_at. apply H. unfold U64 in *. lia.
Qed.

Lemma sat_GetPos {A} d p (k : N -> prog A) Q : sat d p (k p) Q -> sat d p (GetPos k) Q.
Proof. auto. Qed.

Lemma sat_Alloc {A} d p n (k : prog A) Q : sat d p k Q -> sat d p (Alloc n k) Q.
Proof. auto. Qed.

Lemma sat_Step {A} d p (k : prog A) Q : sat d p k Q -> sat d p (Step k) Q.
Proof. auto. Qed.

(** *** the reads of Prim.v *)

(** a read of a nonzero constant number of bytes *)
Lemma sat_rd {A} d p n (k : bytes -> prog A) Q :
  bytes_ok d = true -> n <> 0 ->
  (forall l, lenN l = n -> bytes_ok l = true -> p + n <= lenN d -> sat d (p + n) (k l) Q) ->
  sat d p (RdExact n k) Q.
Proof. intros Hd Hn H. apply sat_RdExact; auto. intros E. contradiction. Qed.

Lemma unbe_bound l w : lenN l = N.of_nat w -> bytes_ok l = true -> unbe l < 256 ^ N.of_nat w.
Proof. intros <- H. now apply unbe_lt. Qed.

(** [rd_u w]: the value is below [256^w] and the stream held [w] more bytes *)
Lemma sat_rd_u {A} d p w (k : N -> prog A) Q :
  bytes_ok d = true -> (0 < w)%nat ->
  (forall x, x < 256 ^ N.of_nat w -> p + N.of_nat w <= lenN d -> sat d (p + N.of_nat w) (k x) Q) ->
  sat d p (bind (rd_u w) k) Q.
Proof.
  intros Hd Hw H. unfold rd_u. cbn [bind]. apply sat_rd; [exact Hd|lia|].
  intros l Hl Hb Hp. apply H; auto. now apply unbe_bound.
Qed.

Lemma sat_rd_i {A} d p w (k : Z -> prog A) Q :
  bytes_ok d = true -> (0 < w)%nat ->
  (forall z, p + N.of_nat w <= lenN d -> sat d (p + N.of_nat w) (k z) Q) ->
  sat d p (bind (rd_i w) k) Q.
Proof.
  intros Hd Hw H. unfold rd_i. cbn [bind]. apply sat_rd; [exact Hd|lia|].
  intros l Hl Hb Hp. apply H; auto.
Qed.

(** [rd_vec n] / [rd_arr n] for a length that may be zero *)
Lemma sat_rd_vec {A} d p n (k : bytes -> prog A) Q :
  bytes_ok d = true ->
  (forall l, lenN l = n -> bytes_ok l = true -> p + n <= lenN d \/ n = 0 -> sat d (p + n) (k l) Q) ->
  sat d p (bind (rd_vec n) k) Q.
Proof.
  intros Hd H. unfold rd_vec. cbn [bind]. apply sat_Alloc. apply sat_RdExact; [exact Hd| |].
  - intros ->. specialize (H [] eq_refl eq_refl (or_intror eq_refl)). now rewrite N.add_0_r in H.
  - intros Hn l Hl Hb Hp. apply H; auto.
Qed.

Lemma sat_rd_arr {A} d p n (k : bytes -> prog A) Q :
  bytes_ok d = true ->
  (forall l, lenN l = n -> bytes_ok l = true -> p + n <= lenN d \/ n = 0 -> sat d (p + n) (k l) Q) ->
  sat d p (bind (rd_arr n) k) Q.
Proof.
  intros Hd H. unfold rd_arr. cbn [bind]. apply sat_RdExact; [exact Hd| |].
  - intros ->. specialize (H [] eq_refl eq_refl (or_intror eq_refl)). now rewrite N.add_0_r in H.
  - intros Hn l Hl Hb Hp. apply H; auto.
Qed.

(** *** fixed-width arithmetic: in range, hence the same in both build modes *)
Lemma sat_add64 {A} d p m site a b (k : N -> prog A) Q :
  a + b < U64 -> sat d p (k (a + b)) Q -> sat d p (bind (add64 m site a b) k) Q.
Proof. intros H. unfold add64. rewrite add_w_ok by exact H. auto. Qed.
Lemma sat_sub64 {A} d p m site a b (k : N -> prog A) Q :
  b <= a -> sat d p (k (a - b)) Q -> sat d p (bind (sub64 m site a b) k) Q.
Proof. intros H. unfold sub64. rewrite sub_w_ok by exact H. auto. Qed.
Lemma sat_mul64 {A} d p m site a b (k : N -> prog A) Q :
  a * b < U64 -> sat d p (k (a * b)) Q -> sat d p (bind (mul64 m site a b) k) Q.
Proof. intros H. unfold mul64. rewrite mul_w_ok by exact H. auto. Qed.
Lemma sat_add32 {A} d p m site a b (k : N -> prog A) Q :
  a + b < U32 -> sat d p (k (a + b)) Q -> sat d p (bind (add32 m site a b) k) Q.
Proof. intros H. unfold add32. rewrite add_w_ok by exact H. auto. Qed.
Lemma sat_sub32 {A} d p m site a b (k : N -> prog A) Q :
  b <= a -> sat d p (k (a - b)) Q -> sat d p (bind (sub32 m site a b) k) Q.
Proof. intros H. unfold sub32. rewrite sub_w_ok by exact H. auto. Qed.
Lemma sat_mul32 {A} d p m site a b (k : N -> prog A) Q :
  a * b < U32 -> sat d p (k (a * b)) Q -> sat d p (bind (mul32 m site a b) k) Q.
Proof. intros H. unfold mul32. rewrite mul_w_ok by exact H. auto. Qed.
Lemma sat_div_w {A} d p site a b (k : N -> prog A) Q :
  b <> 0 -> sat d p (k (a / b)) Q -> sat d p (bind (lift (div_w site a b)) k) Q.
Proof. intros H. rewrite div_w_ok by exact H. auto. Qed.
Lemma sat_rem_w {A} d p site a b (k : N -> prog A) Q :
  b <> 0 -> sat d p (k (a mod b)) Q -> sat d p (bind (lift (rem_w site a b)) k) Q.
Proof. intros H. rewrite rem_w_ok by exact H. auto. Qed.

(** the wrapped results of a release build stay below the modulus *)
Lemma add_w_lt m W site a b x : 0 < W -> add_w m W site a b = Ok x -> x < W.
Proof.
  unfold add_w. intros HW. destruct (N.ltb_spec (a + b) W); [intros [= <-]; auto|].
  destruct m; [discriminate|]. intros [= <-]. apply N.mod_lt. lia.
Qed.

(** *** [box_start], [skip_bytes], [skip_bytes_to], [skip_box], [read_header_ext] *)
Lemma sat_box_start {A} d p m (k : N -> prog A) Q :
  8 <= p -> sat d p (k (p - 8)) Q -> sat d p (bind (box_start m) k) Q.
Proof.
  intros Hp H. unfold box_start. apply sat_bind_assoc. unfold get_pos. cbn [bind].
  apply sat_GetPos. apply sat_sub64; [exact Hp|exact H].
Qed.

Lemma to_signed_64_small n : n < 2 ^ 63 -> to_signed 64 (n mod U64) = Z.of_N n.
Proof.
  intros H. unfold to_signed. rewrite N.mod_small by (unfold U64; lia).
  change (2 ^ (64 - 1)) with (2 ^ 63). destruct (N.ltb_spec n (2 ^ 63)); lia.
Qed.

(** [skip_bytes n]: never panics whatever [n]; for [n < 2^63] it moves forward by [n] *)
Lemma sat_SeekRel_skip {A} d p n (k : prog A) Q :
  (forall p', p' < 2 ^ 64 -> (n < 2 ^ 63 -> p' = p + n) -> sat d p' k Q) ->
  sat d p (SeekRel (to_signed 64 (n mod U64)) k) Q.
Proof.
  intros H. apply sat_SeekRel. intros Hr. apply H; [lia|].
  intros Hn. rewrite to_signed_64_small by exact Hn. lia.
Qed.

Lemma sat_skip_bytes {A} d p n (k : unit -> prog A) Q :
  (forall p', p' < 2 ^ 64 -> (n < 2 ^ 63 -> p' = p + n) -> sat d p' (k tt) Q) ->
  sat d p (bind (skip_bytes n) k) Q.
Proof. intros H. unfold skip_bytes, seek_rel. cbn [bind]. now apply sat_SeekRel_skip. Qed.

Lemma sat_skip_bytes_to {A} d p q (k : unit -> prog A) Q :
  sat d q (k tt) Q -> sat d p (bind (skip_bytes_to q) k) Q.
Proof. intros H. unfold skip_bytes_to, seek_to. cbn [bind]. now apply sat_SeekTo. Qed.

Lemma sat_skip_box {A} d p m size (k : unit -> prog A) Q :
  8 <= p -> p - 8 + size < U64 -> sat d (p - 8 + size) (k tt) Q ->
  sat d p (bind (skip_box m size) k) Q.
Proof.
  intros Hp Hs H. unfold skip_box. apply sat_bind_assoc. apply sat_box_start; [exact Hp|].
  apply sat_bind_assoc. apply sat_add64; [exact Hs|]. unfold seek_to. cbn [bind].
  now apply sat_SeekTo.
Qed.

Lemma sat_read_header_ext {A} d p (k : N * N -> prog A) Q :
  bytes_ok d = true ->
  (forall v f, v < 256 -> f < 16777216 -> p + 4 <= lenN d -> sat d (p + 4) (k (v, f)) Q) ->
  sat d p (bind read_header_ext k) Q.
Proof.
  intros Hd H. unfold read_header_ext. apply sat_bind_assoc. apply sat_rd_u; [exact Hd|lia|].
  intros v Hv Hp1. apply sat_bind_assoc. apply sat_rd_u; [exact Hd|lia|].
  intros f Hf Hp2. cbn [bind]. rewrite pow256_1 in Hv. rewrite pow256_3 in Hf.
  replace (p + N.of_nat 1 + N.of_nat 3) with (p + 4) in * by lia. apply H; auto.
Qed.

(** *** [read_header]: 8 or 16 bytes; afterwards the position is at least 8 and inside the
    data, and [box_start] gives back a position not before the header's first byte *)
Lemma unbe_firstn_lt l n : bytes_ok l = true -> unbe (firstn n l) < 256 ^ N.of_nat n.
Proof.
  intros H. rewrite <- (firstn_skipn n l), bytes_ok_app in H. apply andb_true_iff in H as [H _].
  pose proof (unbe_lt _ H) as Hl. eapply N.lt_le_trans; [exact Hl|].
  apply N.pow_le_mono_r; [lia|]. unfold lenN. rewrite firstn_length. lia.
Qed.

Lemma sat_read_header {A} d p (k : boxtype * N -> prog A) Q :
  bytes_ok d = true ->
  (forall name size p', (p' = p + 8 /\ size < U32) \/ (p' = p + 16 /\ size < U64 - 8) ->
     p' <= lenN d -> sat d p' (k (name, size)) Q) ->
  sat d p (bind read_header k) Q.
Proof.
  intros Hd H. unfold read_header. apply sat_bind_assoc. apply sat_rd_arr; [exact Hd|].
  intros buf Hl Hb Hp. destruct Hp as [Hp|Hp]; [|discriminate].
  pose proof (unbe_firstn_lt buf 4 Hb) as Hsz. rewrite pow256_4 in Hsz.
  destruct (unbe (firstn 4 buf) =? 1).
  - apply sat_bind_assoc. apply sat_rd_arr; [exact Hd|].
    intros buf2 Hl2 Hb2 Hp2. destruct Hp2 as [Hp2|Hp2]; [|discriminate].
    pose proof (unbe_lt _ Hb2) as Hlg. rewrite Hl2 in Hlg. change (256 ^ 8) with U64 in Hlg.
    destruct (unbe buf2 =? 0).
    + cbn [bind]. apply H; [right; split; [lia|unfold U64; lia]|lia].
    + destruct (N.ltb_spec (unbe buf2) 16); cbn [bind]; [apply sat_throw|].
      apply H; [right; split; [lia|lia]|lia].
  - cbn [bind]. apply H; [left; split; [reflexivity|exact Hsz]|exact Hp].
Qed.

(** ** Counted loops *)

(** [I i p]: the invariant after [i] iterations at position [p]; [R]: what every element satisfies *)
Lemma sat_rd_n {A} d (body : prog A) (I : nat -> N -> Prop) (R : A -> Prop) n p :
  I O p ->
  (forall i p', (i < n)%nat -> I i p' -> sat d p' body (fun x p'' => I (S i) p'' /\ R x)) ->
  sat d p (rd_n n body) (fun l p' => I n p' /\ length l = n /\ Forall R l).
Proof.
  revert I p. induction n as [|n IH]; intros I p H0 Hb.
  - cbn [rd_n]. apply sat_ret. auto.
  - cbn [rd_n]. eapply sat_bind; [apply (Hb O p); [lia|exact H0]|].
    intros x p1 [H1 Hx]. cbn beta.
    eapply sat_bind; [apply (IH (fun i => I (S i)) p1 H1)|].
    + intros i p' Hi HI. apply Hb; [lia|exact HI].
    + intros r p2 (H2 & Hlen & Hall). apply sat_ret. cbn [length]. auto.
Qed.

(** the common case: an invariant on the position only *)
Lemma sat_rd_n_inv {A} d (body : prog A) (I : N -> Prop) n p :
  I p -> (forall p', I p' -> sat d p' body (fun _ p'' => I p'')) ->
  sat d p (rd_n n body) (fun _ p' => I p').
Proof.
  intros H0 Hb. eapply sat_conseq; [|apply (sat_rd_n d body (fun _ => I) (fun _ => True) n p H0)].
  - cbn beta. intros a p' H. apply H.
  - intros i p' _ HI. eapply sat_conseq; [|apply Hb; exact HI]. cbn beta. auto.
Qed.

(** the bind forms *)
Lemma sat_rd_n_bind {A B} d (body : prog A) (I : N -> Prop) n p (k : list A -> prog B) Q :
  I p -> (forall p', I p' -> sat d p' body (fun _ p'' => I p'')) ->
  (forall l p', I p' -> sat d p' (k l) Q) ->
  sat d p (bind (rd_n n body) k) Q.
Proof.
  intros H0 Hb Hk. eapply sat_bind; [apply (sat_rd_n_inv d body I n p H0 Hb)|].
  intros l p' HI. now apply Hk.
Qed.

(** ** Fuelled / structural recursion: plain induction on the fuel works because the
    judgement accepts [Spin]; this packages the pattern [forall fuel x p, I x p -> sat ..] *)
Lemma sat_fuel_ind {A X} d (loop : nat -> X -> prog A) (I : X -> N -> Prop) (Q : X -> A -> N -> Prop) :
  (forall x p, I x p -> sat d p (loop O x) (Q x)) ->
  (forall fuel, (forall x p, I x p -> sat d p (loop fuel x) (Q x)) ->
                forall x p, I x p -> sat d p (loop (S fuel) x) (Q x)) ->
  forall fuel x p, I x p -> sat d p (loop fuel x) (Q x).
Proof. intros H0 HS. induction fuel as [|fuel IH]; auto. Qed.

(** ** Automation *)

Lemma HEADER_SIZE_eq : HEADER_SIZE = 8. Proof. reflexivity. Qed.
Lemma HEADER_EXT_SIZE_eq : HEADER_EXT_SIZE = 4. Proof. reflexivity. Qed.

(** arithmetic side conditions *)
Ltac sat_consts :=
  rewrite ?HEADER_SIZE_eq, ?HEADER_EXT_SIZE_eq in *;
  unfold U8, U16, U24, U32, U48, U64 in *;
  rewrite ?pow256_1, ?pow256_2, ?pow256_3, ?pow256_4, ?pow256_6, ?pow256_8 in *;
  change (N.of_nat 1) with 1 in *; change (N.of_nat 2) with 2 in *;
  change (N.of_nat 3) with 3 in *; change (N.of_nat 4) with 4 in *;
  change (N.of_nat 6) with 6 in *; change (N.of_nat 8) with 8 in *.

Ltac sat_arith := sat_consts; lia.

(** normalise the program under the judgement so that its head is a constructor, a [bind] of
    a call, or a case distinction *)
Ltac sat_norm :=
  unfold rd_u8, rd_u16, rd_u24, rd_u32, rd_u48, rd_u64, rd_i8, rd_i16, rd_i32,
         get_pos, skip_bytes_to, seek_to, seek_rel, alloc, step;
  cbn [bind].

Ltac find_bytes_ok :=
  match goal with H : bytes_ok _ = true |- _ => exact H end.

(** after a successful read from [p] the fact [p <= lenN d] is subsumed by the new one *)
Ltac sat_clear_pos d p :=
  try match goal with H : p <= lenN d |- _ => clear H end.

(** [Hsk : n < 2^63 -> p' = p + n]: discharge the premise when it is plain arithmetic *)
Ltac sat_skip_fwd H :=
  try (match type of H with ?X -> _ =>
         let Hx := fresh in assert (Hx : X) by sat_arith; specialize (H Hx); clear Hx end).

(** one step; fails when the head is something it does not know *)
Ltac sat_step :=
  sat_norm;
  lazymatch goal with
  | |- sat _ _ (Ret _) _ => apply sat_ret
  | |- sat _ _ (Throw _) _ => apply sat_throw
  | |- sat _ _ Spin _ => apply sat_spin
  | |- sat _ _ (GetPos _) _ => apply sat_GetPos
  | |- sat _ _ (SeekTo _ _) _ => apply sat_SeekTo
  | |- sat _ _ (Alloc _ _) _ => apply sat_Alloc
  | |- sat _ _ (Step _) _ => apply sat_Step
  | |- sat _ _ (SeekRel (to_signed 64 (_ mod U64)) _) _ =>
      apply sat_SeekRel_skip; let p' := fresh "p" in let H1 := fresh "Hlt" in let H2 := fresh "Hsk" in
      intros p' H1 H2; sat_skip_fwd H2
  | |- sat ?d ?p (bind (rd_u ?w) _) _ =>
      apply sat_rd_u; [find_bytes_ok | (clear; lia) |];
      let n := eval vm_compute in (N.of_nat w) in
      let b := eval vm_compute in (256 ^ N.of_nat w) in
      change (N.of_nat w) with n; change (256 ^ n) with b;
      let x := fresh "x" in let H1 := fresh "Hx" in let H2 := fresh "Hp" in intros x H1 H2;
      sat_clear_pos d p
  | |- sat ?d ?p (bind (rd_i ?w) _) _ =>
      apply sat_rd_i; [find_bytes_ok | (clear; lia) |];
      let n := eval vm_compute in (N.of_nat w) in
      change (N.of_nat w) with n;
      let x := fresh "z" in let H2 := fresh "Hp" in intros x H2;
      sat_clear_pos d p
  | |- sat _ _ (bind (rd_vec _) _) _ =>
      apply sat_rd_vec; [find_bytes_ok |];
      let l := fresh "l" in let H1 := fresh "Hl" in let H2 := fresh "Hb" in let H3 := fresh "Hp" in
      intros l H1 H2 H3
  | |- sat _ _ (bind (rd_arr _) _) _ =>
      apply sat_rd_arr; [find_bytes_ok |];
      let l := fresh "l" in let H1 := fresh "Hl" in let H2 := fresh "Hb" in let H3 := fresh "Hp" in
      intros l H1 H2 H3
  | |- sat _ _ (bind read_header_ext _) _ =>
      apply sat_read_header_ext; [find_bytes_ok |];
      let v := fresh "version" in let f := fresh "flags" in
      let H1 := fresh "Hv" in let H2 := fresh "Hf" in let H3 := fresh "Hp" in
      intros v f H1 H2 H3
  | |- sat _ _ (bind read_header _) _ =>
      apply sat_read_header; [find_bytes_ok |];
      let nm := fresh "name" in let sz := fresh "hsize" in let p' := fresh "p" in
      let H1 := fresh "Hh" in let H2 := fresh "Hp" in
      intros nm sz p' H1 H2
  | |- sat _ _ (bind (box_start _) _) _ => apply sat_box_start; [try sat_arith |]
  | |- sat _ _ (bind (skip_bytes _) _) _ =>
      apply sat_skip_bytes; let p' := fresh "p" in let H1 := fresh "Hlt" in let H2 := fresh "Hsk" in
      intros p' H1 H2; sat_skip_fwd H2
  | |- sat _ _ (bind (skip_bytes_to _) _) _ => apply sat_skip_bytes_to
  | |- sat _ _ (bind (skip_box _ _) _) _ => apply sat_skip_box; [try sat_arith | try sat_arith |]
  | |- sat _ _ (bind (add64 _ _ _ _) _) _ => apply sat_add64; [try sat_arith |]
  | |- sat _ _ (bind (sub64 _ _ _ _) _) _ => apply sat_sub64; [try sat_arith |]
  | |- sat _ _ (bind (mul64 _ _ _ _) _) _ => apply sat_mul64; [try sat_arith |]
  | |- sat _ _ (bind (add32 _ _ _ _) _) _ => apply sat_add32; [try sat_arith |]
  | |- sat _ _ (bind (sub32 _ _ _ _) _) _ => apply sat_sub32; [try sat_arith |]
  | |- sat _ _ (bind (mul32 _ _ _ _) _) _ => apply sat_mul32; [try sat_arith |]
  | |- sat _ _ (bind (lift (div_w _ _ _)) _) _ => apply sat_div_w; [try sat_arith |]
  | |- sat _ _ (bind (lift (rem_w _ _ _)) _) _ => apply sat_rem_w; [try sat_arith |]
  | |- sat _ _ (bind (bind _ _) _) _ => apply sat_bind_assoc
  | |- sat _ _ (bind (if ?b then _ else _) _) _ => destruct b eqn:?
  | |- sat _ _ (if ?b then _ else _) _ => destruct b eqn:?
  | |- sat _ _ (bind (match ?x with Some _ => _ | None => _ end) _) _ => destruct x eqn:?
  | |- sat _ _ (match ?x with Some _ => _ | None => _ end) _ => destruct x eqn:?
  | |- sat _ _ (bind (let '(_, _) := ?x in _) _) _ => destruct x
  | |- sat _ _ (let '(_, _) := ?x in _) _ => destruct x
  end.

Ltac sat_go := repeat sat_step.

(** boolean tests to arithmetic facts *)
Ltac sat_bools :=
  repeat match goal with
         | H : (_ <? _) = true |- _ => apply N.ltb_lt in H
         | H : (_ <? _) = false |- _ => apply N.ltb_ge in H
         | H : (_ <=? _) = true |- _ => apply N.leb_le in H
         | H : (_ <=? _) = false |- _ => apply N.leb_gt in H
         | H : (_ =? _) = true |- _ => apply N.eqb_eq in H
         | H : (_ =? _) = false |- _ => apply N.eqb_neq in H
         | H : _ || _ = false |- _ => apply orb_false_iff in H; destruct H
         | H : _ && _ = true |- _ => apply andb_true_iff in H; destruct H
         | H : negb _ = true |- _ => apply negb_true_iff in H
         | H : negb _ = false |- _ => apply negb_false_iff in H
         | H : checked_sub _ _ = Some _ |- _ =>
             unfold checked_sub in H;
             match type of H with (if ?b then _ else _) = _ => destruct b eqn:?; [|discriminate] end;
             injection H as H
         end.

(** ** The statement proved for every leaf decoder

    A leaf decoder is called right after [read_header] returned [(name, size)]: the position is
    at least 8 and inside the data, and the containers have compared [size] with the size of the
    parent, hence with the length of the file. On success the box has been skipped to its end. *)
Definition leaf_sat {A} (dec : N -> prog A) : Prop :=
  forall d p size, bytes_ok d = true -> lenN d < 2 ^ 62 ->
    8 <= p -> p <= lenN d -> size < 2 ^ 62 ->
    sat d p (dec size) (fun _ p' => p' = p - 8 + size).

Definition leaf_pre (d0 : bytes) (p0 size : N) (s : stream) : Prop :=
  Inv s /\ s_data s = d0 /\ s_pos s = p0 /\ 8 <= p0 /\ p0 <= lenN d0 /\ size < 2 ^ 62.
Definition leaf_post (d0 : bytes) (p0 size : N) (s' : stream) : Prop :=
  Inv s' /\ s_data s' = d0 /\ s_pos s' = p0 - 8 + size.

Definition leaf_safe {A} (dec : N -> prog A) : Prop :=
  forall size d0 p0, triple (leaf_pre d0 p0 size) (dec size) (fun _ s' => leaf_post d0 p0 size s').

Lemma leaf_safe_of_sat {A} (dec : N -> prog A) : leaf_sat dec -> leaf_safe dec.
Proof.
  intros H size d0 p0.
  pose proof (triple_Inv_of_sat (dec size)
                (fun d p => 8 <= p /\ p <= lenN d /\ size < 2 ^ 62)
                (fun d p _ p' => p' = p - 8 + size)) as T.
  cbn beta in T.
  assert (T' := fun X => T X d0 p0). clear T.
  eapply triple_conseq; [| |apply T'].
  - intros s (Hi & Hd & Hp & H1 & H2 & H3). auto 8.
  - cbn beta. intros a s' (Hi & Hd & Hp). split; auto.
  - intros d p Hb Hl Hp (H1 & H2 & H3). eapply sat_conseq; [|apply H; auto].
    cbn beta. intros _ p' ->. split; [lia|reflexivity].
Qed.

(** and back, for use inside another decoder's proof *)
Lemma leaf_sat_of_safe {A} (dec : N -> prog A) : leaf_safe dec -> leaf_sat dec.
Proof.
  intros H d p size Hb Hl H1 H2 H3.
  assert (Hpre : leaf_pre d p size (stream_at d p)).
  { split; [apply Inv_at; auto; lia|]. cbn. auto. }
  pose proof (sat_of_triple _ _ _ d p (H size d p) Hpre) as S.
  eapply sat_conseq; [|exact S]. cbn beta. intros _ p' (_ & _ & E). exact E.
Qed.

(** the bind form used when a decoder calls a leaf decoder after [read_header] *)
Lemma sat_leaf_bind {A B} (dec : N -> prog A) d p size (k : A -> prog B) Q :
  leaf_sat dec -> bytes_ok d = true -> lenN d < 2 ^ 62 -> 8 <= p -> p <= lenN d -> size < 2 ^ 62 ->
  (forall a, sat d (p - 8 + size) (k a) Q) ->
  sat d p (bind (dec size) k) Q.
Proof.
  intros H Hb Hl H1 H2 H3 Hk. eapply sat_bind; [apply H; auto|].
  cbn beta. intros a p' ->. apply Hk.
Qed.

(** the leaf contract in plain words: no panic from any stream the call sites can present *)
Lemma leaf_sat_no_panic {A} (dec : N -> prog A) : leaf_sat dec ->
  forall d p size, bytes_ok d = true -> lenN d < 2 ^ 62 -> 8 <= p -> p <= lenN d -> size < 2 ^ 62 ->
    is_panic (fst (run (dec size) (stream_at d p))) = false.
Proof. intros H d p size Hb Hl H1 H2 H3. exact (outcome_no_panic _ _ (H d p size Hb Hl H1 H2 H3)). Qed.

Lemma leaf_safe_no_panic {A} (dec : N -> prog A) : leaf_safe dec ->
  forall s size, Inv s -> 8 <= s_pos s -> s_pos s <= s_len s -> size < 2 ^ 62 ->
    is_panic (fst (run (dec size) s)) = false.
Proof.
  intros H s size Hi H1 H2 H3.
  apply (triple_no_panic _ _ _ s (H size (s_data s) (s_pos s))).
  destruct (Inv_inv s Hi) as (_ & _ & _ & E & _). rewrite E in H2.
  repeat split; auto; apply Hi.
Qed.

(** when nothing about the intermediate position matters (avoids a case split on [c]) *)
Lemma sat_bind_any {A B} d p (c : prog A) (k : A -> prog B) Q :
  sat d p c (fun _ _ => True) -> (forall a p', sat d p' (k a) Q) -> sat d p (bind c k) Q.
Proof. intros Hc Hk. eapply sat_bind; [exact Hc|]. intros a p' _. apply Hk. Qed.
