(** * Bytes: big-endian integer codecs and list utilities indexed by [N].

    A byte is an [N] below 256; byte strings are [list N].  Everything here
    is executable (used by the extracted model) and comes with the lemmas the
    box round-trip proofs are built from. *)
From Coq Require Export List NArith ZArith Lia Bool.
From Coq Require Import ZifyN ZifyNat ZifyBool.
Export ListNotations.
Open Scope N_scope.

Ltac Zify.zify_post_hook ::= Z.div_mod_to_equations.

Arguments N.add : simpl never.
Arguments N.sub : simpl never.
Arguments N.mul : simpl never.
Arguments N.div : simpl never.
Arguments N.modulo : simpl never.
Arguments N.pow : simpl never.
Arguments N.eqb : simpl never.
Arguments N.ltb : simpl never.
Arguments N.leb : simpl never.
Arguments N.land : simpl never.
Arguments N.lor : simpl never.
Arguments N.shiftl : simpl never.
Arguments N.shiftr : simpl never.
Arguments N.of_nat : simpl never.
Arguments N.to_nat : simpl never.

Definition bytes := list N.

Definition byte_ok (b : N) : bool := b <? 256.
Definition bytes_ok (l : bytes) : bool := forallb byte_ok l.

Definition lenN {A} (l : list A) : N := N.of_nat (length l).

Lemma lenN_app {A} (l1 l2 : list A) : lenN (l1 ++ l2) = lenN l1 + lenN l2.
Proof. unfold lenN. rewrite app_length. lia. Qed.

Lemma lenN_nil {A} : lenN (@nil A) = 0.
Proof. reflexivity. Qed.

Lemma lenN_cons {A} (x : A) l : lenN (x :: l) = 1 + lenN l.
Proof. unfold lenN. cbn [length]. lia. Qed.

Lemma bytes_ok_app l1 l2 : bytes_ok (l1 ++ l2) = bytes_ok l1 && bytes_ok l2.
Proof. unfold bytes_ok. apply forallb_app. Qed.

(** ** Little/big endian *)

Fixpoint le (w : nat) (x : N) : bytes :=
  match w with
  | O => []
  | S w' => x mod 256 :: le w' (x / 256)
  end.

Definition be (w : nat) (x : N) : bytes := rev (le w x).

Fixpoint unle (l : bytes) : N :=
  match l with
  | [] => 0
  | b :: t => b + 256 * unle t
  end.

Definition unbe (l : bytes) : N := unle (rev l).

Lemma le_length w x : length (le w x) = w.
Proof. revert x; induction w as [|w IH]; intros x; cbn [le length]; auto. Qed.

Lemma be_length w x : length (be w x) = w.
Proof. unfold be. rewrite rev_length. apply le_length. Qed.

Lemma lenN_be w x : lenN (be w x) = N.of_nat w.
Proof. unfold lenN. now rewrite be_length. Qed.

Lemma le_ok w x : bytes_ok (le w x) = true.
Proof.
  revert x; induction w as [|w IH]; intros x; cbn [le bytes_ok forallb]; auto.
  fold (bytes_ok (le w (x / 256))). rewrite IH, andb_true_r.
  unfold byte_ok. apply N.ltb_lt. apply N.mod_lt. lia.
Qed.

Lemma bytes_ok_rev l : bytes_ok (rev l) = bytes_ok l.
Proof.
  induction l as [|a l IH]; cbn [rev]; auto.
  rewrite bytes_ok_app, IH. cbn [bytes_ok forallb]. rewrite andb_true_r, andb_comm. reflexivity.
Qed.

Lemma be_ok w x : bytes_ok (be w x) = true.
Proof. unfold be. rewrite bytes_ok_rev. apply le_ok. Qed.

Lemma unle_le w x : x < 256 ^ N.of_nat w -> unle (le w x) = x.
Proof.
  revert x; induction w as [|w IH]; intros x Hx.
  - cbn in *. change (256 ^ N.of_nat 0) with 1 in Hx. lia.
  - cbn [le unle]. rewrite IH.
    + pose proof (N.div_mod x 256). lia.
    + replace (N.of_nat (S w)) with (N.succ (N.of_nat w)) in Hx by lia.
      rewrite N.pow_succ_r' in Hx. apply N.div_lt_upper_bound; lia.
Qed.

Lemma unbe_be w x : x < 256 ^ N.of_nat w -> unbe (be w x) = x.
Proof. intros H. unfold unbe, be. rewrite rev_involutive. now apply unle_le. Qed.

Lemma unle_lt l : bytes_ok l = true -> unle l < 256 ^ lenN l.
Proof.
  induction l as [|b t IH]; intros H.
  - cbn. change (256 ^ lenN []) with 1. lia.
  - cbn [bytes_ok forallb] in H. apply andb_true_iff in H as [Hb Ht].
    specialize (IH Ht). unfold byte_ok in Hb. apply N.ltb_lt in Hb.
    cbn [unle]. rewrite lenN_cons.
    replace (1 + lenN t) with (N.succ (lenN t)) by lia. rewrite N.pow_succ_r'. lia.
Qed.

Lemma le_unle l : bytes_ok l = true -> le (length l) (unle l) = l.
Proof.
  induction l as [|b t IH]; intros H; cbn [length le unle]; auto.
  cbn [bytes_ok forallb] in H. apply andb_true_iff in H as [Hb Ht].
  unfold byte_ok in Hb. apply N.ltb_lt in Hb.
  replace ((b + 256 * unle t) mod 256) with b by lia.
  replace ((b + 256 * unle t) / 256) with (unle t) by lia.
  now rewrite IH.
Qed.

Lemma be_unbe l : bytes_ok l = true -> be (length l) (unbe l) = l.
Proof.
  intros H. unfold be, unbe. rewrite <- (rev_length l).
  rewrite le_unle by now rewrite bytes_ok_rev. apply rev_involutive.
Qed.

Lemma unbe_lt l : bytes_ok l = true -> unbe l < 256 ^ lenN l.
Proof.
  intros H. unfold unbe.
  replace (lenN l) with (lenN (rev l)) by (unfold lenN; now rewrite rev_length).
  apply unle_lt. now rewrite bytes_ok_rev.
Qed.

(** ** Two's complement *)

Definition to_signed (bits : N) (x : N) : Z :=
  if x <? 2 ^ (bits - 1) then Z.of_N x else (Z.of_N x - Z.of_N (2 ^ bits))%Z.

Definition of_signed (bits : N) (z : Z) : N :=
  Z.to_N (z mod Z.of_N (2 ^ bits))%Z.

Definition fits_signed (bits : N) (z : Z) : bool :=
  ((- Z.of_N (2 ^ (bits - 1)) <=? z) && (z <? Z.of_N (2 ^ (bits - 1))))%Z.

Lemma pow2_split bits : 0 < bits -> 2 ^ bits = 2 * 2 ^ (bits - 1).
Proof.
  intros H. replace bits with (N.succ (bits - 1)) at 1 by lia.
  now rewrite N.pow_succ_r'.
Qed.

Lemma to_of_signed bits z : 0 < bits -> fits_signed bits z = true ->
  to_signed bits (of_signed bits z) = z.
Proof.
  intros Hb H. unfold fits_signed in H. apply andb_true_iff in H as [H1 H2].
  apply Z.leb_le in H1. apply Z.ltb_lt in H2.
  unfold to_signed, of_signed.
  pose proof (pow2_split bits Hb) as Hp.
  assert (0 < 2 ^ (bits - 1)) by (apply N.neq_0_lt_0, N.pow_nonzero; lia).
  destruct (Z.ltb_spec z 0) as [Hz|Hz].
  - assert (E : (z mod Z.of_N (2 ^ bits) = z + Z.of_N (2 ^ bits))%Z).
    { symmetry. apply Z.mod_unique_pos with (q := (-1)%Z); lia. }
    rewrite E. destruct (N.ltb_spec (Z.to_N (z + Z.of_N (2 ^ bits))) (2 ^ (bits - 1))); lia.
  - rewrite Z.mod_small by lia.
    destruct (N.ltb_spec (Z.to_N z) (2 ^ (bits - 1))); lia.
Qed.

Lemma of_signed_lt bits z : of_signed bits z < 2 ^ bits.
Proof.
  unfold of_signed.
  assert (0 < 2 ^ bits) by (apply N.neq_0_lt_0, N.pow_nonzero; lia).
  pose proof (Z.mod_pos_bound z (Z.of_N (2 ^ bits))). lia.
Qed.

Lemma of_to_signed bits x : 0 < bits -> x < 2 ^ bits -> of_signed bits (to_signed bits x) = x.
Proof.
  intros Hb Hx. unfold to_signed, of_signed.
  pose proof (pow2_split bits Hb) as Hp.
  destruct (N.ltb_spec x (2 ^ (bits - 1))).
  - rewrite Z.mod_small by lia. lia.
  - replace (Z.of_N x - Z.of_N (2 ^ bits))%Z with (Z.of_N x + (-1) * Z.of_N (2 ^ bits))%Z by lia.
    rewrite Z.mod_add by lia. rewrite Z.mod_small by lia. lia.
Qed.

Lemma to_signed_fits bits x : 0 < bits -> x < 2 ^ bits -> fits_signed bits (to_signed bits x) = true.
Proof.
  intros Hb Hx. unfold fits_signed, to_signed.
  pose proof (pow2_split bits Hb) as Hp.
  destruct (N.ltb_spec x (2 ^ (bits - 1))); apply andb_true_iff; split;
    try apply Z.leb_le; try apply Z.ltb_lt; lia.
Qed.

(** ** Splitting and dropping with an [N] count (structural on the list, so a
    count of 2^63 costs nothing) *)

Fixpoint splitN (n : N) (l : bytes) {struct l} : option (bytes * bytes) :=
  if n =? 0 then Some ([], l)
  else match l with
       | [] => None
       | b :: t => match splitN (n - 1) t with
                   | Some (h, r) => Some (b :: h, r)
                   | None => None
                   end
       end.

Fixpoint dropN {A} (n : N) (l : list A) {struct l} : list A :=
  if n =? 0 then l
  else match l with
       | [] => []
       | _ :: t => dropN (n - 1) t
       end.

Lemma splitN_0 l : splitN 0 l = Some ([], l).
Proof. destruct l; reflexivity. Qed.

Lemma splitN_app l1 l2 : splitN (lenN l1) (l1 ++ l2) = Some (l1, l2).
Proof.
  induction l1 as [|b t IH].
  - cbn [app]. change (lenN []) with 0. apply splitN_0.
  - rewrite lenN_cons. cbn [app splitN].
    destruct (N.eqb_spec (1 + lenN t) 0); [lia|].
    replace (1 + lenN t - 1) with (lenN t) by lia. now rewrite IH.
Qed.

Lemma splitN_app_n n l1 l2 : lenN l1 = n -> splitN n (l1 ++ l2) = Some (l1, l2).
Proof. intros <-. apply splitN_app. Qed.

Lemma splitN_some n l h r : splitN n l = Some (h, r) -> l = h ++ r /\ lenN h = n.
Proof.
  revert n h r; induction l as [|b t IH]; intros n h r H; cbn [splitN] in H.
  - destruct (N.eqb_spec n 0); [|discriminate]. inversion H; subst. split; auto.
  - destruct (N.eqb_spec n 0).
    + inversion H; subst. split; auto.
    + destruct (splitN (n - 1) t) as [[h' r']|] eqn:E; [|discriminate].
      inversion H; subst. apply IH in E as [-> E2]. split; auto.
      rewrite lenN_cons. lia.
Qed.

Lemma splitN_none n l : splitN n l = None -> lenN l < n.
Proof.
  revert n; induction l as [|b t IH]; intros n H; cbn [splitN] in H.
  - destruct (N.eqb_spec n 0); [discriminate|]. change (lenN []) with 0. lia.
  - destruct (N.eqb_spec n 0); [discriminate|].
    destruct (splitN (n - 1) t) as [[h' r']|] eqn:E; [discriminate|].
    apply IH in E. rewrite lenN_cons. lia.
Qed.

Lemma splitN_short n l : lenN l < n -> splitN n l = None.
Proof.
  intros H. destruct (splitN n l) as [[h r]|] eqn:E; auto.
  apply splitN_some in E as [-> E]. rewrite lenN_app in H. lia.
Qed.

Lemma dropN_0 {A} (l : list A) : dropN 0 l = l.
Proof. destruct l; reflexivity. Qed.

Lemma dropN_app {A} (l1 l2 : list A) : dropN (lenN l1) (l1 ++ l2) = l2.
Proof.
  induction l1 as [|b t IH].
  - cbn [app]. apply dropN_0.
  - rewrite lenN_cons. cbn [app dropN].
    destruct (N.eqb_spec (1 + lenN t) 0); [lia|].
    now replace (1 + lenN t - 1) with (lenN t) by lia.
Qed.

Lemma dropN_app_n {A} n (l1 l2 : list A) : lenN l1 = n -> dropN n (l1 ++ l2) = l2.
Proof. intros <-. apply dropN_app. Qed.

Lemma dropN_all {A} n (l : list A) : lenN l <= n -> dropN n l = [].
Proof.
  revert n; induction l as [|b t IH]; intros n H; cbn [dropN].
  - now destruct (n =? 0).
  - rewrite lenN_cons in H. destruct (N.eqb_spec n 0); [lia|]. apply IH. lia.
Qed.

Lemma dropN_lenN {A} n (l : list A) : lenN (dropN n l) = lenN l - n.
Proof.
  revert n; induction l as [|b t IH]; intros n; cbn [dropN].
  - destruct (n =? 0); change (lenN (@nil A)) with 0; lia.
  - destruct (N.eqb_spec n 0); [subst; lia|]. rewrite IH, lenN_cons. lia.
Qed.

Lemma dropN_dropN {A} a b (l : list A) : dropN a (dropN b l) = dropN (a + b) l.
Proof.
  revert a b; induction l as [|x t IH]; intros a b.
  - cbn [dropN]. destruct (b =? 0), (a + b =? 0); cbn [dropN]; destruct (a =? 0); reflexivity.
  - cbn [dropN]. destruct (N.eqb_spec b 0).
    + subst. rewrite N.add_0_r. reflexivity.
    + destruct (N.eqb_spec (a + b) 0); [lia|]. rewrite IH. f_equal. lia.
Qed.

Lemma splitN_dropN n l h r : splitN n l = Some (h, r) -> r = dropN n l.
Proof.
  intros H. apply splitN_some in H as [-> <-]. now rewrite dropN_app.
Qed.

(** [nthN]: 0-based lookup with an [N] index *)
Fixpoint nthN {A} (l : list A) (n : N) {struct l} : option A :=
  match l with
  | [] => None
  | x :: t => if n =? 0 then Some x else nthN t (n - 1)
  end.

Lemma nthN_nth_error {A} (l : list A) n : nthN l n = nth_error l (N.to_nat n).
Proof.
  revert n; induction l as [|x t IH]; intros n; cbn [nthN].
  - now destruct (N.to_nat n).
  - destruct (N.eqb_spec n 0).
    + subst. reflexivity.
    + rewrite IH. replace (N.to_nat n) with (S (N.to_nat (n - 1))) by lia. reflexivity.
Qed.

Lemma nthN_lt {A} (l : list A) n : n < lenN l -> exists x, nthN l n = Some x.
Proof.
  intros H. rewrite nthN_nth_error.
  destruct (nth_error l (N.to_nat n)) eqn:E; eauto.
  apply nth_error_None in E. unfold lenN in H. lia.
Qed.

Lemma nthN_ge {A} (l : list A) n : lenN l <= n -> nthN l n = None.
Proof.
  intros H. rewrite nthN_nth_error. apply nth_error_None. unfold lenN in H. lia.
Qed.

Definition repeatN {A} (x : A) (n : N) : list A := repeat x (N.to_nat n).

Lemma lenN_repeatN {A} (x : A) n : lenN (repeatN x n) = n.
Proof. unfold lenN, repeatN. rewrite repeat_length. lia. Qed.

(** sums *)
Definition sumN (l : list N) : N := fold_right N.add 0 l.

Lemma sumN_app l1 l2 : sumN (l1 ++ l2) = sumN l1 + sumN l2.
Proof.
  induction l1 as [|a l IH].
  - cbn [app]. unfold sumN at 2. cbn [fold_right]. lia.
  - cbn [app]. unfold sumN in *. cbn [fold_right]. rewrite IH. lia.
Qed.

(** Powers used everywhere *)
Lemma pow256_1 : 256 ^ N.of_nat 1 = 256.  Proof. reflexivity. Qed.
Lemma pow256_2 : 256 ^ N.of_nat 2 = 65536.  Proof. reflexivity. Qed.
Lemma pow256_3 : 256 ^ N.of_nat 3 = 16777216.  Proof. reflexivity. Qed.
Lemma pow256_4 : 256 ^ N.of_nat 4 = 4294967296.  Proof. reflexivity. Qed.
Lemma pow256_6 : 256 ^ N.of_nat 6 = 281474976710656.  Proof. reflexivity. Qed.
Lemma pow256_8 : 256 ^ N.of_nat 8 = 18446744073709551616.  Proof. reflexivity. Qed.

Definition U8  : N := 256.
Definition U16 : N := 65536.
Definition U24 : N := 16777216.
Definition U32 : N := 4294967296.
Definition U48 : N := 281474976710656.
Definition U64 : N := 18446744073709551616.
