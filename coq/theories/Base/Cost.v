(** * A metered Hoare logic over [runm] with no fault armed (properties C07, C08)

    [runm] threads a [meter] through the run.  With no fault armed the meter only
    accumulates, and what a program adds to it does not depend on what it held before
    ([runm_madd]); the stream stays the well-formed stream over the same bytes
    ([runm_mrun]).  So a metered run from [stream_at d p] is a function

      [mrun c d p : res A * N (final position) * cost (what the run added to the meters)]

    and the judgement [msat d p k0 c Q] says: running [c] from position [p] of [d], having
    already spent [k0], ends with result [r] at position [p'] with accumulated cost [k], and
    [Q r p' k].  (EVERY result is covered: errors and panics cost too.)

    Three layers:
    - [cost], [mrun] and its defining equations ([mrun_Ret] ... [mrun_bind]);
    - [msat] and its rules (Ret/Throw/bind/RdExact/SeekTo/SeekRel/GetPos/Alloc/Step/rd_n/fuel);
    - [bnd c W Al]: a STATE-INDEPENDENT bound — whatever the stream holds, [c] performs at most
      [W] units of work (stream calls + bytes moved + CPU steps), requests at most [Al] bytes
      of allocation in total (hence in any single request), and does not run out of fuel.
      All straight-line decoders and counted loops with a checked count are bounded this way;
      [bnd_sound] transfers the bound to [mrun].

    Key facts: [mrun_RdExact_ok_inside] (a successful read of [n] bytes from [p] implies
    [p + n <= lenN d]); [fwd_bytes_le_advance] (without backward seeks the bytes moved are at most
    the distance travelled); [mrun_amax_le_asum]. *)
From MP4 Require Export Hoare.
From Coq Require Import ZArith ZifyN ZifyNat ZifyBool Lia.
Open Scope string_scope.
Open Scope list_scope.
Open Scope N_scope.

(** ** Costs *)
Record cost := mkCost { c_ops : N; c_bytes : N; c_steps : N; c_amax : N; c_asum : N }.

Definition c0 : cost := mkCost 0 0 0 0 0.
Definition cadd (a b : cost) : cost :=
  mkCost (c_ops a + c_ops b) (c_bytes a + c_bytes b) (c_steps a + c_steps b)
         (N.max (c_amax a) (c_amax b)) (c_asum a + c_asum b).
Definition c_op : cost := mkCost 1 0 0 0 0.
Definition c_rd (n : N) : cost := mkCost 1 n 0 0 0.
Definition c_step : cost := mkCost 0 0 1 0 0.
Definition c_alloc (n : N) : cost := mkCost 0 0 0 n n.

(** work = stream calls + bytes moved + CPU-only loop steps *)
Definition cwork (k : cost) : N := c_ops k + c_bytes k + c_steps k.

Definition cost_of (m : meter) : cost :=
  mkCost (m_ops m) (m_bytes m) (m_steps m) (m_alloc_max m) (m_alloc_sum m).
Definition madd (m : meter) (k : cost) : meter :=
  mkMeter (m_ops m + c_ops k) (m_bytes m + c_bytes k) (m_steps m + c_steps k)
          (N.max (m_alloc_max m) (c_amax k)) (m_alloc_sum m + c_asum k) (m_fault m) (m_fired m).

Lemma cost_eq a b :
  c_ops a = c_ops b -> c_bytes a = c_bytes b -> c_steps a = c_steps b ->
  c_amax a = c_amax b -> c_asum a = c_asum b -> a = b.
Proof. destruct a, b; cbn; intros; subst; reflexivity. Qed.

Lemma cadd_0_l k : cadd c0 k = k.
Proof. apply cost_eq; cbn; lia. Qed.
Lemma cadd_0_r k : cadd k c0 = k.
Proof. apply cost_eq; cbn; lia. Qed.
Lemma cadd_assoc a b c : cadd (cadd a b) c = cadd a (cadd b c).
Proof. apply cost_eq; cbn; lia. Qed.

Lemma cwork_cadd a b : cwork (cadd a b) = cwork a + cwork b.
Proof. unfold cwork; cbn; lia. Qed.
Lemma casum_cadd a b : c_asum (cadd a b) = c_asum a + c_asum b.
Proof. reflexivity. Qed.
Lemma camax_cadd a b : c_amax (cadd a b) = N.max (c_amax a) (c_amax b).
Proof. reflexivity. Qed.

Lemma cost_of_madd m k : cost_of (madd m k) = cadd (cost_of m) k.
Proof. reflexivity. Qed.
Lemma cost_of_meter0 f : cost_of (meter0 f) = c0.
Proof. reflexivity. Qed.

Lemma meter_eq a b :
  m_ops a = m_ops b -> m_bytes a = m_bytes b -> m_steps a = m_steps b ->
  m_alloc_max a = m_alloc_max b -> m_alloc_sum a = m_alloc_sum b ->
  m_fault a = m_fault b -> m_fired a = m_fired b -> a = b.
Proof. destruct a, b; cbn; intros; subst; reflexivity. Qed.

(** ** The meter only accumulates *)
Definition tick (m : meter) : meter :=
  mkMeter (m_ops m + 1) (m_bytes m) (m_steps m) (m_alloc_max m) (m_alloc_sum m) None (m_fired m).

Lemma op_tick_none m : m_fault m = None -> op_tick m = Some (tick m).
Proof. intros H. unfold op_tick. rewrite H. reflexivity. Qed.

Lemma runm_madd {A} (c : prog A) s m : m_fault m = None ->
  runm c s m = let '(r, s', m') := runm c s (meter0 None) in (r, s', madd m (cost_of m')).
Proof.
  revert s m; induction c as [a|e|x| |n k IH|q k IH|dz k IH|k IH|n k IH|k IH]; intros s m Hm;
    cbn [runm].
  1-4: f_equal; apply meter_eq; cbn; try lia; auto.
  - destruct (n =? 0); [now apply IH|].
    rewrite (op_tick_none m Hm), (op_tick_none (meter0 None) eq_refl).
    destruct (splitN n (s_view s)) as [[h r]|].
    + rewrite (IH h _ (add_bytes (tick m) n) eq_refl).
      rewrite (IH h _ (add_bytes (tick (meter0 None)) n) eq_refl).
      destruct (runm (k h) _ (meter0 None)) as [[r0 s0] m0].
      f_equal. apply meter_eq; cbn; try lia; auto.
    + f_equal. apply meter_eq; cbn; try lia; auto.
  - rewrite (op_tick_none m Hm), (op_tick_none (meter0 None) eq_refl).
    rewrite (IH _ (tick m) eq_refl), (IH _ (tick (meter0 None)) eq_refl).
    destruct (runm k _ (meter0 None)) as [[r0 s0] m0].
    f_equal. apply meter_eq; cbn; try lia; auto.
  - rewrite (op_tick_none m Hm), (op_tick_none (meter0 None) eq_refl).
    destruct (seek_cur s dz) as [s1|].
    + rewrite (IH _ (tick m) eq_refl), (IH _ (tick (meter0 None)) eq_refl).
      destruct (runm k _ (meter0 None)) as [[r0 s0] m0].
      f_equal. apply meter_eq; cbn; try lia; auto.
    + f_equal. apply meter_eq; cbn; try lia; auto.
  - rewrite (op_tick_none m Hm), (op_tick_none (meter0 None) eq_refl).
    rewrite (IH _ _ (tick m) eq_refl), (IH _ _ (tick (meter0 None)) eq_refl).
    destruct (runm (k (s_pos s)) _ (meter0 None)) as [[r0 s0] m0].
    f_equal. apply meter_eq; cbn; try lia; auto.
  - rewrite (IH _ (add_alloc m n) Hm), (IH _ (add_alloc (meter0 None) n) eq_refl).
    destruct (runm k _ (meter0 None)) as [[r0 s0] m0].
    f_equal. apply meter_eq; cbn; try lia; auto.
  - rewrite (IH _ (add_step m) Hm), (IH _ (add_step (meter0 None)) eq_refl).
    destruct (runm k _ (meter0 None)) as [[r0 s0] m0].
    f_equal. apply meter_eq; cbn; try lia; auto.
Qed.

(** ** The positional metered run *)
Definition mrun {A} (c : prog A) (d : bytes) (p : N) : res A * N * cost :=
  let '(r, s, m) := runm c (stream_at d p) (meter0 None) in (r, s_pos s, cost_of m).

(** the link to [runm] from any meter without a fault, and to [run] *)
Lemma runm_mrun {A} (c : prog A) d p m : m_fault m = None ->
  runm c (stream_at d p) m = let '(r, p', k) := mrun c d p in (r, stream_at d p', madd m k).
Proof.
  intros Hm. rewrite (runm_madd c _ m Hm). unfold mrun.
  pose proof (runm_run c (stream_at d p) (meter0 None) eq_refl) as H.
  pose proof (run_at c d p) as Hat.
  destruct (runm c (stream_at d p) (meter0 None)) as [[r s'] m']. destruct H as [H _].
  rewrite H in Hat. cbn [snd] in Hat. rewrite Hat at 1. reflexivity.
Qed.

Lemma mrun_run {A} (c : prog A) d p :
  let '(r, p', _) := mrun c d p in run c (stream_at d p) = (r, stream_at d p').
Proof.
  pose proof (runm_mrun c d p (meter0 None) eq_refl) as H.
  pose proof (runm_run c (stream_at d p) (meter0 None) eq_refl) as R.
  destruct (mrun c d p) as [[r p'] k]. rewrite H in R. apply R.
Qed.

(** the statement in terms of [runm] and [meter0] directly, for the top-level theorems *)
Lemma mrun_unfold {A} (c : prog A) d p :
  mrun c d p = (fst (fst (runm c (stream_at d p) (meter0 None))),
                s_pos (snd (fst (runm c (stream_at d p) (meter0 None)))),
                cost_of (snd (runm c (stream_at d p) (meter0 None)))).
Proof. unfold mrun. destruct (runm c (stream_at d p) (meter0 None)) as [[r s] m]. reflexivity. Qed.

(** *** defining equations *)
Lemma mrun_Ret {A} (a : A) d p : mrun (Ret a) d p = (Ok a, p, c0).
Proof. reflexivity. Qed.
Lemma mrun_Throw {A} e d p : mrun (@Throw A e) d p = (Err e, p, c0).
Proof. reflexivity. Qed.
Lemma mrun_Crash {A} x d p : mrun (@Crash A x) d p = (Panic x, p, c0).
Proof. reflexivity. Qed.
Lemma mrun_Spin {A} d p : mrun (@Spin A) d p = (OutOfFuel, p, c0).
Proof. reflexivity. Qed.

Definition res_cast {A B} (r : res A) : res B :=
  match r with Ok _ => OutOfFuel | Err e => Err e | Panic x => Panic x | OutOfFuel => OutOfFuel end.

Lemma mrun_bind {A B} (c : prog A) (f : A -> prog B) d p :
  mrun (bind c f) d p =
  let '(r, p1, k1) := mrun c d p in
  match r with
  | Ok a => let '(r2, p2, k2) := mrun (f a) d p1 in (r2, p2, cadd k1 k2)
  | Err e => (Err e, p1, k1)
  | Panic x => (Panic x, p1, k1)
  | OutOfFuel => (OutOfFuel, p1, k1)
  end.
Proof.
  unfold mrun at 1. rewrite runm_bind.
  rewrite (runm_mrun c d p (meter0 None) eq_refl).
  destruct (mrun c d p) as [[r p1] k1].
  destruct r as [a|e|x|];
    try (cbn [s_pos stream_at]; f_equal; apply cost_eq; cbn; lia).
  rewrite (runm_mrun (f a) d p1 (madd (meter0 None) k1) eq_refl).
  destruct (mrun (f a) d p1) as [[r2 p2] k2]. cbn [s_pos stream_at].
  f_equal; try (apply cost_eq; cbn; lia).
Qed.

(** what the stream holds at [p] *)
Lemma splitN_at d p n : n <> 0 ->
  (p + n <= lenN d /\ exists h, splitN n (dropN p d) = Some (h, dropN (p + n) d) /\ lenN h = n
                                /\ (bytes_ok d = true -> bytes_ok h = true))
  \/ (lenN d < p + n /\ splitN n (dropN p d) = None).
Proof.
  intros Hn. destruct (splitN n (dropN p d)) as [[h r]|] eqn:E.
  - left. pose proof (splitN_dropN _ _ _ _ E) as Er. rewrite dropN_dropN in Er.
    apply splitN_some in E as [E1 E2].
    pose proof (dropN_lenN p d) as Hl. rewrite E1, lenN_app, E2 in Hl.
    split; [lia|]. exists h. replace (p + n) with (n + p) by lia. subst r. repeat split; auto.
    intros Hd. pose proof (bytes_ok_dropN p d Hd) as Hb. rewrite E1, bytes_ok_app in Hb.
    now apply andb_true_iff in Hb as [Hb _].
  - right. apply splitN_none in E. rewrite dropN_lenN in E. split; [lia|reflexivity].
Qed.

Lemma mrun_RdExact_0 {A} (k : bytes -> prog A) d p : mrun (RdExact 0 k) d p = mrun (k []) d p.
Proof. reflexivity. Qed.

Lemma stream_at_adv d p n :
  mkStream d (lenN d) (p + n) (dropN (p + n) d) = stream_at d (p + n).
Proof. reflexivity. Qed.

Lemma mrun_RdExact {A} n (k : bytes -> prog A) d p : n <> 0 ->
  (p + n <= lenN d /\ exists h, lenN h = n /\ (bytes_ok d = true -> bytes_ok h = true) /\
     mrun (RdExact n k) d p = let '(r, p', c) := mrun (k h) d (p + n) in (r, p', cadd (c_rd n) c))
  \/ (lenN d < p + n /\ mrun (RdExact n k) d p = (Err EIo, N.max p (lenN d), c_op)).
Proof.
  intros Hn. destruct (splitN_at d p n Hn) as [(Hle & h & Es & Hl & Hb)|(Hlt & Es)].
  - left. split; [exact Hle|]. exists h. repeat split; auto.
    unfold mrun at 1. cbn [runm]. apply N.eqb_neq in Hn. rewrite Hn.
    cbn [op_tick meter0 m_fault stream_at s_view s_data s_len s_pos]. rewrite Es.
    rewrite stream_at_adv. rewrite runm_mrun by reflexivity.
    destruct (mrun (k h) d (p + n)) as [[r p'] c]. cbn [s_pos stream_at].
    f_equal; try (apply cost_eq; cbn; lia).
  - right. split; [exact Hlt|].
    unfold mrun. cbn [runm]. apply N.eqb_neq in Hn. rewrite Hn.
    cbn [op_tick meter0 m_fault stream_at s_view s_data s_len s_pos]. rewrite Es. reflexivity.
Qed.

(** KEY FACT: a read that succeeds was inside the data *)
Lemma mrun_RdExact_ok_inside {A} n (k : bytes -> prog A) d p : n <> 0 ->
  fst (fst (mrun (RdExact n k) d p)) <> Err EIo -> p + n <= lenN d.
Proof.
  intros Hn H. destruct (mrun_RdExact n k d p Hn) as [(Hle & _)|(Hlt & E)]; [exact Hle|].
  rewrite E in H. cbn in H. congruence.
Qed.

Lemma mrun_SeekTo {A} q (k : prog A) d p :
  mrun (SeekTo q k) d p = let '(r, p', c) := mrun k d q in (r, p', cadd c_op c).
Proof.
  unfold mrun at 1. cbn [runm op_tick meter0 m_fault]. rewrite seek_abs_at.
  rewrite runm_mrun by reflexivity. destruct (mrun k d q) as [[r p'] c]. cbn [s_pos stream_at].
  f_equal; try (apply cost_eq; cbn; lia).
Qed.

Lemma mrun_SeekRel {A} dz (k : prog A) d p :
  mrun (SeekRel dz k) d p =
  if ((Z.of_N p + dz <? 0) || (Z.of_N U64 <=? Z.of_N p + dz))%Z then (Err EIo, p, c_op)
  else let '(r, p', c) := mrun k d (Z.to_N (Z.of_N p + dz)) in (r, p', cadd c_op c).
Proof.
  unfold mrun at 1. cbn [runm op_tick meter0 m_fault]. unfold seek_cur. cbn [stream_at s_pos].
  destruct ((Z.of_N p + dz <? 0) || (Z.of_N U64 <=? Z.of_N p + dz))%Z; [reflexivity|].
  fold (stream_at d p). rewrite seek_abs_at.
  rewrite runm_mrun by reflexivity.
  destruct (mrun k d (Z.to_N (Z.of_N p + dz))) as [[r p'] c]. cbn [s_pos stream_at].
  f_equal; try (apply cost_eq; cbn; lia).
Qed.

Lemma mrun_GetPos {A} (k : N -> prog A) d p :
  mrun (GetPos k) d p = let '(r, p', c) := mrun (k p) d p in (r, p', cadd c_op c).
Proof.
  unfold mrun at 1. cbn [runm op_tick meter0 m_fault stream_at s_pos]. fold (stream_at d p).
  rewrite runm_mrun by reflexivity. destruct (mrun (k p) d p) as [[r p'] c]. cbn [s_pos stream_at].
  f_equal; try (apply cost_eq; cbn; lia).
Qed.

Lemma mrun_Alloc {A} n (k : prog A) d p :
  mrun (Alloc n k) d p = let '(r, p', c) := mrun k d p in (r, p', cadd (c_alloc n) c).
Proof.
  unfold mrun at 1. cbn [runm]. rewrite runm_mrun by reflexivity.
  destruct (mrun k d p) as [[r p'] c]. cbn [s_pos stream_at].
  f_equal; try (apply cost_eq; cbn; lia).
Qed.

Lemma mrun_Step {A} (k : prog A) d p :
  mrun (Step k) d p = let '(r, p', c) := mrun k d p in (r, p', cadd c_step c).
Proof.
  unfold mrun at 1. cbn [runm]. rewrite runm_mrun by reflexivity.
  destruct (mrun k d p) as [[r p'] c]. cbn [s_pos stream_at].
  f_equal; try (apply cost_eq; cbn; lia).
Qed.

Lemma mrun_lift {A} (r : res A) d p : mrun (lift r) d p = (r, p, c0).
Proof. destruct r; reflexivity. Qed.

(** the largest single request is at most the sum of the requests *)
Lemma mrun_amax_le_asum {A} (c : prog A) d p :
  c_amax (snd (mrun c d p)) <= c_asum (snd (mrun c d p)).
Proof.
  revert p; induction c as [a|e|x| |n k IH|q k IH|dz k IH|k IH|n k IH|k IH]; intros p;
    try (cbn; lia).
  - destruct (N.eqb_spec n 0) as [->|Hn]; [rewrite mrun_RdExact_0; apply IH|].
    destruct (mrun_RdExact n k d p Hn) as [(_ & h & _ & _ & E)|(_ & E)]; rewrite E.
    + specialize (IH h (p + n)). destruct (mrun (k h) d (p + n)) as [[r p'] c]. cbn in *. lia.
    + cbn. lia.
  - rewrite mrun_SeekTo. specialize (IH q). destruct (mrun k d q) as [[r p'] c]. cbn in *. lia.
  - rewrite mrun_SeekRel.
    destruct ((Z.of_N p + dz <? 0) || (Z.of_N U64 <=? Z.of_N p + dz))%Z; [cbn; lia|].
    specialize (IH (Z.to_N (Z.of_N p + dz))).
    destruct (mrun k d (Z.to_N (Z.of_N p + dz))) as [[r p'] c]. cbn in *. lia.
  - rewrite mrun_GetPos. specialize (IH p p). destruct (mrun (k p) d p) as [[r p'] c]. cbn in *. lia.
  - rewrite mrun_Alloc. specialize (IH p). destruct (mrun k d p) as [[r p'] c]. cbn in *. lia.
  - rewrite mrun_Step. specialize (IH p). destruct (mrun k d p) as [[r p'] c]. cbn in *. lia.
Qed.

(** ** The judgement *)
Definition msat {A} (d : bytes) (p : N) (k0 : cost) (c : prog A) (Q : res A -> N -> cost -> Prop) : Prop :=
  let '(r, p', k) := mrun c d p in Q r p' (cadd k0 k).

Lemma msat_runm {A} d p (c : prog A) Q : msat d p c0 c Q ->
  let '(r, s, m) := runm c (stream_at d p) (meter0 None) in
  exists p', s = stream_at d p' /\ Q r p' (cost_of m).
Proof.
  unfold msat. intros H. rewrite (runm_mrun c d p (meter0 None) eq_refl).
  destruct (mrun c d p) as [[r p'] k]. exists p'. split; [reflexivity|].
  rewrite cadd_0_l in H. rewrite cost_of_madd, cost_of_meter0, cadd_0_l. exact H.
Qed.

Lemma msat_conseq {A} d p k0 (c : prog A) (Q Q' : res A -> N -> cost -> Prop) :
  (forall r p' k, Q r p' k -> Q' r p' k) -> msat d p k0 c Q -> msat d p k0 c Q'.
Proof. unfold msat. destruct (mrun c d p) as [[r p'] k]. auto. Qed.

(** what was spent before is a frame *)
Lemma msat_frame {A} d p k0 (c : prog A) Q :
  msat d p c0 c (fun r p' k => Q r p' (cadd k0 k)) -> msat d p k0 c Q.
Proof. unfold msat. destruct (mrun c d p) as [[r p'] k]. now rewrite cadd_0_l. Qed.

Lemma msat_Ret {A} d p k0 (a : A) (Q : res A -> N -> cost -> Prop) : Q (Ok a) p k0 -> msat d p k0 (Ret a) Q.
Proof. unfold msat. rewrite mrun_Ret, cadd_0_r. auto. Qed.
Lemma msat_Throw {A} d p k0 e (Q : res A -> N -> cost -> Prop) : Q (Err e) p k0 -> msat d p k0 (Throw e) Q.
Proof. unfold msat. rewrite mrun_Throw, cadd_0_r. auto. Qed.
Lemma msat_Crash {A} d p k0 x (Q : res A -> N -> cost -> Prop) : Q (Panic x) p k0 -> msat d p k0 (Crash x) Q.
Proof. unfold msat. rewrite mrun_Crash, cadd_0_r. auto. Qed.
Lemma msat_Spin {A} d p k0 (Q : res A -> N -> cost -> Prop) : Q OutOfFuel p k0 -> msat d p k0 Spin Q.
Proof. unfold msat. rewrite mrun_Spin, cadd_0_r. auto. Qed.

(** bind: costs add (allocation maxima combine by [max], inside [cadd]); a failure of the
    first part is the failure of the whole *)
Lemma msat_bind {A B} d p k0 (c : prog A) (f : A -> prog B) Q :
  msat d p k0 c (fun r p1 k1 =>
    match r with
    | Ok a => msat d p1 k1 (f a) Q
    | Err e => Q (Err e) p1 k1
    | Panic x => Q (Panic x) p1 k1
    | OutOfFuel => Q OutOfFuel p1 k1
    end) ->
  msat d p k0 (bind c f) Q.
Proof.
  unfold msat. rewrite mrun_bind. destruct (mrun c d p) as [[r p1] k1].
  destruct r as [a|e|x|]; auto.
  destruct (mrun (f a) d p1) as [[r2 p2] k2]. now rewrite cadd_assoc.
Qed.

Lemma msat_lift_bind {A B} d p k0 (r : res A) (f : A -> prog B) Q :
  match r with
  | Ok a => msat d p k0 (f a) Q
  | Err e => Q (Err e) p k0
  | Panic x => Q (Panic x) p k0
  | OutOfFuel => Q OutOfFuel p k0
  end -> msat d p k0 (bind (lift r) f) Q.
Proof.
  intros H. apply msat_bind. unfold msat at 1. rewrite mrun_lift, cadd_0_r. exact H.
Qed.

(** [RdExact n]: one stream call; [n] bytes are moved only when the read succeeds, and then
    [p + n <= lenN d]; at end of data the call is still counted and the position is
    [max p (lenN d)] (Cursor semantics) *)
Lemma msat_RdExact {A} d p k0 n (k : bytes -> prog A) Q :
  (n = 0 -> msat d p k0 (k []) Q) ->
  (n <> 0 -> p + n <= lenN d -> forall l, lenN l = n -> (bytes_ok d = true -> bytes_ok l = true) ->
     msat d (p + n) (cadd k0 (c_rd n)) (k l) Q) ->
  (n <> 0 -> lenN d < p + n -> Q (Err EIo) (N.max p (lenN d)) (cadd k0 c_op)) ->
  msat d p k0 (RdExact n k) Q.
Proof.
  intros H0 H1 H2. destruct (N.eq_dec n 0) as [->|Hn]; [exact (H0 eq_refl)|].
  unfold msat. destruct (mrun_RdExact n k d p Hn) as [(Hle & h & Hl & Hb & E)|(Hlt & E)]; rewrite E.
  - specialize (H1 Hn Hle h Hl Hb). unfold msat in H1.
    destruct (mrun (k h) d (p + n)) as [[r p'] c]. now rewrite <- cadd_assoc.
  - now apply H2.
Qed.

Lemma msat_SeekTo {A} d p k0 q (k : prog A) Q :
  msat d q (cadd k0 c_op) k Q -> msat d p k0 (SeekTo q k) Q.
Proof.
  unfold msat. rewrite mrun_SeekTo. destruct (mrun k d q) as [[r p'] c]. now rewrite cadd_assoc.
Qed.

Lemma msat_SeekRel {A} d p k0 dz (k : prog A) Q :
  ((0 <= Z.of_N p + dz < 2 ^ 64)%Z -> msat d (Z.to_N (Z.of_N p + dz)) (cadd k0 c_op) k Q) ->
  (~ (0 <= Z.of_N p + dz < 2 ^ 64)%Z -> Q (Err EIo) p (cadd k0 c_op)) ->
  msat d p k0 (SeekRel dz k) Q.
Proof.
  intros H1 H2. unfold msat. rewrite mrun_SeekRel.
  destruct (Z.ltb_spec (Z.of_N p + dz) 0); cbn [orb].
  - apply H2. lia.
  - destruct (Z.leb_spec (Z.of_N U64) (Z.of_N p + dz)).
    + apply H2. unfold U64 in *. lia.
    + assert (Hr : (0 <= Z.of_N p + dz < 2 ^ 64)%Z) by (unfold U64 in *; lia).
      specialize (H1 Hr). unfold msat in H1.
      destruct (mrun k d (Z.to_N (Z.of_N p + dz))) as [[r p'] c]. now rewrite <- cadd_assoc.
Qed.

Lemma msat_GetPos {A} d p k0 (k : N -> prog A) Q :
  msat d p (cadd k0 c_op) (k p) Q -> msat d p k0 (GetPos k) Q.
Proof.
  unfold msat. rewrite mrun_GetPos. destruct (mrun (k p) d p) as [[r p'] c]. now rewrite cadd_assoc.
Qed.

Lemma msat_Alloc {A} d p k0 n (k : prog A) Q :
  msat d p (cadd k0 (c_alloc n)) k Q -> msat d p k0 (Alloc n k) Q.
Proof.
  unfold msat. rewrite mrun_Alloc. destruct (mrun k d p) as [[r p'] c]. now rewrite cadd_assoc.
Qed.

Lemma msat_Step {A} d p k0 (k : prog A) Q :
  msat d p (cadd k0 c_step) k Q -> msat d p k0 (Step k) Q.
Proof.
  unfold msat. rewrite mrun_Step. destruct (mrun k d p) as [[r p'] c]. now rewrite cadd_assoc.
Qed.

(** *** counted loops: [n] iterations cost at most [n] times the body.
    [I i p k]: after [i] iterations we are at [p] having spent [k]; [E r p k]: what holds when the
    loop is left through a failure of the body *)
Lemma msat_rd_n {A} d (body : prog A) (I : nat -> N -> cost -> Prop)
      (E : res (list A) -> N -> cost -> Prop) n p k0 :
  I O p k0 ->
  (forall i p1 k1, (i < n)%nat -> I i p1 k1 ->
     msat d p1 k1 body (fun r p2 k2 =>
       match r with
       | Ok _ => I (S i) p2 k2
       | Err e => E (Err e) p2 k2
       | Panic x => E (Panic x) p2 k2
       | OutOfFuel => E OutOfFuel p2 k2
       end)) ->
  msat d p k0 (rd_n n body) (fun r p' k =>
    match r with Ok l => I n p' k /\ length l = n | _ => E r p' k end).
Proof.
  revert I p k0. induction n as [|n IH]; intros I p k0 H0 Hb.
  - cbn [rd_n]. apply msat_Ret. auto.
  - cbn [rd_n]. apply msat_bind.
    eapply msat_conseq; [|apply (Hb O p k0); [lia|exact H0]].
    cbn beta. intros r p1 k1. destruct r as [x|e|y|]; auto.
    intros H1. apply msat_bind.
    eapply msat_conseq; [|apply (IH (fun i => I (S i)) p1 k1 H1)].
    + cbn beta. intros r p2 k2. destruct r as [l|e|y|]; auto.
      intros [H2 Hl]. apply msat_Ret. cbn [length]. auto.
    + intros i p2 k2 Hi HI. apply Hb; [lia|exact HI].
Qed.

(** *** fuelled recursion: plain induction on the fuel *)
Lemma msat_fuel_ind {A X} d (loop : nat -> X -> prog A) (I : nat -> X -> N -> cost -> Prop)
      (Q : nat -> X -> N -> cost -> res A -> N -> cost -> Prop) :
  (forall x p k, I O x p k -> msat d p k (loop O x) (Q O x p k)) ->
  (forall fuel, (forall x p k, I fuel x p k -> msat d p k (loop fuel x) (Q fuel x p k)) ->
                forall x p k, I (S fuel) x p k -> msat d p k (loop (S fuel) x) (Q (S fuel) x p k)) ->
  forall fuel x p k, I fuel x p k -> msat d p k (loop fuel x) (Q fuel x p k).
Proof. intros H0 HS. induction fuel as [|fuel IH]; auto. Qed.

(** ** Forward-only programs move at most as many bytes as they travel *)
Fixpoint fwd {A} (c : prog A) : Prop :=
  match c with
  | Ret _ | Throw _ | Crash _ | Spin => True
  | RdExact n k => forall l, fwd (k l)
  | SeekTo _ _ => False
  | SeekRel dz k => (0 <= dz)%Z /\ fwd k
  | GetPos k => forall p, fwd (k p)
  | Alloc _ k => fwd k
  | Step k => fwd k
  end.

(** outside the data nothing can be read any more *)
Lemma fwd_outside {A} (c : prog A) d q : fwd c -> lenN d < q ->
  let '(r, p', k) := mrun c d q in c_bytes k = 0 /\ q <= p'.
Proof.
  revert q; induction c as [a|e|x| |n k IH|q' k IH|dz k IH|k IH|n k IH|k IH]; intros q Hf Hq;
    cbn [fwd] in Hf; try (cbn; lia).
  - destruct (N.eqb_spec n 0) as [->|Hn]; [rewrite mrun_RdExact_0; now apply IH|].
    destruct (mrun_RdExact n k d q Hn) as [(Hle & _)|(_ & E)]; [lia|]. rewrite E. cbn. lia.
  - destruct Hf as [Hz Hf]. rewrite mrun_SeekRel.
    destruct ((Z.of_N q + dz <? 0) || (Z.of_N U64 <=? Z.of_N q + dz))%Z; [cbn; lia|].
    assert (Hq' : lenN d < Z.to_N (Z.of_N q + dz)) by lia.
    specialize (IH _ Hf Hq'). destruct (mrun k d (Z.to_N (Z.of_N q + dz))) as [[r p'] c].
    cbn in *. lia.
  - rewrite mrun_GetPos. specialize (IH q q (Hf q) Hq).
    destruct (mrun (k q) d q) as [[r p'] c]. cbn in *. lia.
  - rewrite mrun_Alloc. specialize (IH q Hf Hq). destruct (mrun k d q) as [[r p'] c].
    cbn in *. lia.
  - rewrite mrun_Step. specialize (IH q Hf Hq). destruct (mrun k d q) as [[r p'] c].
    cbn in *. lia.
Qed.

(** KEY FACT: without backward seeks, the bytes moved are at most the distance travelled *)
Lemma fwd_bytes_le_advance {A} (c : prog A) d p : fwd c -> p <= lenN d ->
  let '(r, p', k) := mrun c d p in p + c_bytes k <= p'.
Proof.
  revert p; induction c as [a|e|x| |n k IH|q k IH|dz k IH|k IH|n k IH|k IH]; intros p Hf Hp;
    cbn [fwd] in Hf; try (cbn; lia).
  - destruct (N.eqb_spec n 0) as [->|Hn]; [rewrite mrun_RdExact_0; now apply IH|].
    destruct (mrun_RdExact n k d p Hn) as [(Hle & h & _ & _ & E)|(_ & E)]; rewrite E.
    + specialize (IH h (p + n) (Hf h) Hle). destruct (mrun (k h) d (p + n)) as [[r p'] c].
      cbn in *. lia.
    + cbn. lia.
  - destruct Hf as [Hz Hf]. rewrite mrun_SeekRel.
    destruct ((Z.of_N p + dz <? 0) || (Z.of_N U64 <=? Z.of_N p + dz))%Z; [cbn; lia|].
    assert (Hpq : p <= Z.to_N (Z.of_N p + dz)) by lia.
    destruct (N.le_gt_cases (Z.to_N (Z.of_N p + dz)) (lenN d)) as [Hin|Hout].
    + specialize (IH _ Hf Hin). destruct (mrun k d (Z.to_N (Z.of_N p + dz))) as [[r p'] c].
      cbn in *. lia.
    + pose proof (fwd_outside k d _ Hf Hout) as G.
      destruct (mrun k d (Z.to_N (Z.of_N p + dz))) as [[r p'] c]. cbn in *. lia.
  - rewrite mrun_GetPos. specialize (IH p p (Hf p) Hp). destruct (mrun (k p) d p) as [[r p'] c].
    cbn in *. lia.
  - rewrite mrun_Alloc. specialize (IH p Hf Hp). destruct (mrun k d p) as [[r p'] c]. cbn in *. lia.
  - rewrite mrun_Step. specialize (IH p Hf Hp). destruct (mrun k d p) as [[r p'] c]. cbn in *. lia.
Qed.

(** ** State-independent bounds

    [bnd c W Al]: from EVERY position of EVERY (valid) byte string, [c] does at most [W] units of
    work (stream calls + bytes moved + steps), requests at most [Al] bytes of allocation in total,
    and does not run out of fuel.  [acc w a c W Al] is the same with [w]/[a] already spent:
    the form in which a decoder is stepped through. *)
Definition bnd {A} (c : prog A) (W Al : N) : Prop :=
  forall d p, bytes_ok d = true ->
    let '(r, _, k) := mrun c d p in r <> OutOfFuel /\ cwork k <= W /\ c_asum k <= Al.

Definition acc {A} (w a : N) (c : prog A) (W Al : N) : Prop :=
  forall d p, bytes_ok d = true ->
    let '(r, _, k) := mrun c d p in r <> OutOfFuel /\ w + cwork k <= W /\ a + c_asum k <= Al.

Lemma bnd_of_acc {A} (c : prog A) W Al : acc 0 0 c W Al -> bnd c W Al.
Proof. intros H d p Hd. specialize (H d p Hd). destruct (mrun c d p) as [[r p'] k]. exact H. Qed.

Lemma acc_of_bnd {A} w a (c : prog A) W Al W1 A1 :
  bnd c W1 A1 -> w + W1 <= W -> a + A1 <= Al -> acc w a c W Al.
Proof.
  intros H H1 H2 d p Hd. specialize (H d p Hd). destruct (mrun c d p) as [[r p'] k].
  destruct H as (Hr & Hw & Ha). repeat split; auto; lia.
Qed.

Lemma bnd_weaken {A} (c : prog A) W Al W' Al' : bnd c W Al -> W <= W' -> Al <= Al' -> bnd c W' Al'.
Proof.
  intros H H1 H2 d p Hd. specialize (H d p Hd). destruct (mrun c d p) as [[r p'] k].
  destruct H as (Hr & Hw & Ha). repeat split; auto; lia.
Qed.

Lemma bnd_ext {A} (c c' : prog A) W Al :
  (forall d p, mrun c' d p = mrun c d p) -> bnd c W Al -> bnd c' W Al.
Proof. intros E H d p Hd. rewrite E. now apply H. Qed.

Lemma acc_ext {A} w a (c c' : prog A) W Al :
  (forall d p, mrun c' d p = mrun c d p) -> acc w a c W Al -> acc w a c' W Al.
Proof. intros E H d p Hd. rewrite E. now apply H. Qed.

(** the single-request bound that comes with the sum *)
Lemma bnd_amax {A} (c : prog A) W Al d p : bnd c W Al -> bytes_ok d = true ->
  c_amax (snd (mrun c d p)) <= Al.
Proof.
  intros H Hd. pose proof (mrun_amax_le_asum c d p) as Hm. specialize (H d p Hd).
  destruct (mrun c d p) as [[r p'] k]. cbn [snd] in *. lia.
Qed.

Lemma bnd_Ret {A} (a : A) : bnd (Ret a) 0 0.
Proof. intros d p _. rewrite mrun_Ret. unfold cwork; cbn; repeat split; try lia; discriminate. Qed.
Lemma bnd_Throw {A} e : bnd (@Throw A e) 0 0.
Proof. intros d p _. rewrite mrun_Throw. unfold cwork; cbn; repeat split; try lia; discriminate. Qed.
Lemma bnd_Crash {A} x : bnd (@Crash A x) 0 0.
Proof. intros d p _. rewrite mrun_Crash. unfold cwork; cbn; repeat split; try lia; discriminate. Qed.

Lemma bnd_bind {A B} (c : prog A) (f : A -> prog B) W1 A1 W2 A2 :
  bnd c W1 A1 -> (forall a, bnd (f a) W2 A2) -> bnd (bind c f) (W1 + W2) (A1 + A2).
Proof.
  intros H1 H2 d p Hd. rewrite mrun_bind. specialize (H1 d p Hd).
  destruct (mrun c d p) as [[r p1] k1]. destruct H1 as (Hr & Hw & Ha).
  destruct r as [a|e|x|]; try (repeat split; [discriminate|lia|lia]); [|congruence].
  specialize (H2 a d p1 Hd). destruct (mrun (f a) d p1) as [[r2 p2] k2].
  destruct H2 as (Hr2 & Hw2 & Ha2). rewrite cwork_cadd, casum_cadd. repeat split; auto; lia.
Qed.

Lemma mrun_bind_assoc {A B C} (c : prog A) (f : A -> prog B) (g : B -> prog C) d p :
  mrun (bind (bind c f) g) d p = mrun (bind c (fun a => bind (f a) g)) d p.
Proof.
  rewrite !mrun_bind. destruct (mrun c d p) as [[r p1] k1]. destruct r as [a|e|x|]; auto.
  rewrite mrun_bind. destruct (mrun (f a) d p1) as [[r2 p2] k2]. destruct r2 as [b|e|x|]; auto.
  destruct (mrun (g b) d p2) as [[r3 p3] k3]. now rewrite cadd_assoc.
Qed.

Lemma mrun_bind_ret {A} (c : prog A) d p : mrun (bind c (fun a => Ret a)) d p = mrun c d p.
Proof.
  rewrite mrun_bind. destruct (mrun c d p) as [[r p1] k1]. destruct r as [a|e|x|]; auto.
  rewrite mrun_Ret, cadd_0_r. reflexivity.
Qed.

(** *** stepping rules for [acc] *)
Lemma acc_Ret {A} w a (x : A) W Al : w <= W -> a <= Al -> acc w a (Ret x) W Al.
Proof. intros. eapply acc_of_bnd; [apply bnd_Ret|lia|lia]. Qed.
Lemma acc_Throw {A} w a e W Al : w <= W -> a <= Al -> acc w a (@Throw A e) W Al.
Proof. intros. eapply acc_of_bnd; [apply bnd_Throw|lia|lia]. Qed.
Lemma acc_Crash {A} w a x W Al : w <= W -> a <= Al -> acc w a (@Crash A x) W Al.
Proof. intros. eapply acc_of_bnd; [apply bnd_Crash|lia|lia]. Qed.

Lemma acc_bind {A B} w a (c : prog A) (f : A -> prog B) W Al W1 A1 :
  bnd c W1 A1 -> w + W1 <= W -> a + A1 <= Al ->
  (forall x, acc (w + W1) (a + A1) (f x) W Al) -> acc w a (bind c f) W Al.
Proof.
  intros H1 Hw Ha H2 d p Hd. rewrite mrun_bind. specialize (H1 d p Hd).
  destruct (mrun c d p) as [[r p1] k1]. destruct H1 as (Hr & Hw1 & Ha1).
  destruct r as [x|e|y|]; try (repeat split; [discriminate|lia|lia]); [|congruence].
  specialize (H2 x d p1 Hd). destruct (mrun (f x) d p1) as [[r2 p2] k2].
  destruct H2 as (Hr2 & Hw2 & Ha2). rewrite cwork_cadd, casum_cadd. repeat split; auto; lia.
Qed.

Lemma acc_assoc {A B C} w a (c : prog A) (f : A -> prog B) (g : B -> prog C) W Al :
  acc w a (bind c (fun x => bind (f x) g)) W Al -> acc w a (bind (bind c f) g) W Al.
Proof. apply acc_ext. intros. apply mrun_bind_assoc. Qed.

(** *** the primitive nodes *)
Lemma bnd_RdExact {A} n (k : bytes -> prog A) W Al :
  (forall l, lenN l = n -> bytes_ok l = true -> bnd (k l) W Al) -> bnd (RdExact n k) (1 + n + W) Al.
Proof.
  intros H d p Hd. destruct (N.eq_dec n 0) as [->|Hn].
  - rewrite mrun_RdExact_0. specialize (H [] eq_refl eq_refl d p Hd).
    destruct (mrun (k []) d p) as [[r p'] c]. destruct H as (Hr & Hw & Ha). repeat split; auto; lia.
  - destruct (mrun_RdExact n k d p Hn) as [(_ & h & Hl & Hb & E)|(_ & E)]; rewrite E.
    + specialize (H h Hl (Hb Hd) d (p + n) Hd). destruct (mrun (k h) d (p + n)) as [[r p'] c].
      destruct H as (Hr & Hw & Ha). rewrite cwork_cadd, casum_cadd.
      unfold cwork at 1. cbn [c_rd c_ops c_bytes c_steps c_asum]. repeat split; auto; lia.
    + unfold cwork; cbn; repeat split; try lia; discriminate.
Qed.

Lemma bnd_SeekTo {A} q (k : prog A) W Al : bnd k W Al -> bnd (SeekTo q k) (1 + W) Al.
Proof.
  intros H d p Hd. rewrite mrun_SeekTo. specialize (H d q Hd). destruct (mrun k d q) as [[r p'] c].
  destruct H as (Hr & Hw & Ha). rewrite cwork_cadd, casum_cadd. unfold cwork at 1. cbn.
  repeat split; auto; lia.
Qed.

Lemma bnd_SeekRel {A} dz (k : prog A) W Al : bnd k W Al -> bnd (SeekRel dz k) (1 + W) Al.
Proof.
  intros H d p Hd. rewrite mrun_SeekRel.
  destruct ((Z.of_N p + dz <? 0) || (Z.of_N U64 <=? Z.of_N p + dz))%Z.
  - unfold cwork; cbn; repeat split; try lia; discriminate.
  - specialize (H d (Z.to_N (Z.of_N p + dz)) Hd).
    destruct (mrun k d (Z.to_N (Z.of_N p + dz))) as [[r p'] c].
    destruct H as (Hr & Hw & Ha). rewrite cwork_cadd, casum_cadd. unfold cwork at 1. cbn.
    repeat split; auto; lia.
Qed.

Lemma bnd_GetPos {A} (k : N -> prog A) W Al : (forall q, bnd (k q) W Al) -> bnd (GetPos k) (1 + W) Al.
Proof.
  intros H d p Hd. rewrite mrun_GetPos. specialize (H p d p Hd). destruct (mrun (k p) d p) as [[r p'] c].
  destruct H as (Hr & Hw & Ha). rewrite cwork_cadd, casum_cadd. unfold cwork at 1. cbn.
  repeat split; auto; lia.
Qed.

Lemma bnd_Alloc {A} n (k : prog A) W Al : bnd k W Al -> bnd (Alloc n k) W (n + Al).
Proof.
  intros H d p Hd. rewrite mrun_Alloc. specialize (H d p Hd). destruct (mrun k d p) as [[r p'] c].
  destruct H as (Hr & Hw & Ha). rewrite cwork_cadd, casum_cadd. unfold cwork at 1. cbn.
  repeat split; auto; lia.
Qed.

Lemma bnd_Step {A} (k : prog A) W Al : bnd k W Al -> bnd (Step k) (1 + W) Al.
Proof.
  intros H d p Hd. rewrite mrun_Step. specialize (H d p Hd). destruct (mrun k d p) as [[r p'] c].
  destruct H as (Hr & Hw & Ha). rewrite cwork_cadd, casum_cadd. unfold cwork at 1. cbn.
  repeat split; auto; lia.
Qed.

Lemma bnd_lift {A} (r : res A) : r <> OutOfFuel -> bnd (lift r) 0 0.
Proof. intros H d p _. rewrite mrun_lift. unfold cwork. cbn. repeat split; auto; lia. Qed.

(** *** the calls of Prim.v *)
Lemma bnd_get_pos : bnd get_pos 1 0.
Proof. apply (bnd_GetPos (fun p => Ret p) 0 0). intros. apply bnd_Ret. Qed.
Lemma bnd_seek_to q : bnd (seek_to q) 1 0.
Proof. apply (bnd_SeekTo q (Ret tt) 0 0). apply bnd_Ret. Qed.
Lemma bnd_seek_rel dz : bnd (seek_rel dz) 1 0.
Proof. apply (bnd_SeekRel dz (Ret tt) 0 0). apply bnd_Ret. Qed.
Lemma bnd_alloc n : bnd (alloc n) 0 n.
Proof. eapply bnd_weaken; [apply (bnd_Alloc n (Ret tt) 0 0); apply bnd_Ret|lia|lia]. Qed.
Lemma bnd_step : bnd step 1 0.
Proof. apply (bnd_Step (Ret tt) 0 0). apply bnd_Ret. Qed.

Lemma bnd_rd_u w : bnd (rd_u w) (1 + N.of_nat w) 0.
Proof.
  unfold rd_u. eapply bnd_weaken; [apply (bnd_RdExact _ _ 0 0); intros; apply bnd_Ret|lia|lia].
Qed.
Lemma bnd_rd_i w : bnd (rd_i w) (1 + N.of_nat w) 0.
Proof.
  unfold rd_i. eapply bnd_weaken; [apply (bnd_RdExact _ _ 0 0); intros; apply bnd_Ret|lia|lia].
Qed.
Lemma bnd_rd_u8 : bnd rd_u8 2 0.   Proof. exact (bnd_rd_u 1). Qed.
Lemma bnd_rd_u16 : bnd rd_u16 3 0. Proof. exact (bnd_rd_u 2). Qed.
Lemma bnd_rd_u24 : bnd rd_u24 4 0. Proof. exact (bnd_rd_u 3). Qed.
Lemma bnd_rd_u32 : bnd rd_u32 5 0. Proof. exact (bnd_rd_u 4). Qed.
Lemma bnd_rd_u48 : bnd rd_u48 7 0. Proof. exact (bnd_rd_u 6). Qed.
Lemma bnd_rd_u64 : bnd rd_u64 9 0. Proof. exact (bnd_rd_u 8). Qed.
Lemma bnd_rd_i8 : bnd rd_i8 2 0.   Proof. exact (bnd_rd_i 1). Qed.
Lemma bnd_rd_i16 : bnd rd_i16 3 0. Proof. exact (bnd_rd_i 2). Qed.
Lemma bnd_rd_i32 : bnd rd_i32 5 0. Proof. exact (bnd_rd_i 4). Qed.

Lemma bnd_rd_arr n : bnd (rd_arr n) (1 + n) 0.
Proof.
  unfold rd_arr. eapply bnd_weaken; [apply (bnd_RdExact _ _ 0 0); intros; apply bnd_Ret|lia|lia].
Qed.
(** [vec![0; n]] + [read_exact]: the request is [n] whether or not [n] bytes exist *)
Lemma bnd_rd_vec n : bnd (rd_vec n) (1 + n) n.
Proof.
  unfold rd_vec. eapply bnd_weaken;
    [apply bnd_Alloc; apply (bnd_RdExact _ _ 0 0); intros; apply bnd_Ret|lia|lia].
Qed.

Lemma add_w_not_oof m W s a b : add_w m W s a b <> OutOfFuel.
Proof. unfold add_w. destruct (a + b <? W); [discriminate|]. destruct m; discriminate. Qed.
Lemma sub_w_not_oof m W s a b : sub_w m W s a b <> OutOfFuel.
Proof. unfold sub_w. destruct (b <=? a); [discriminate|]. destruct m; discriminate. Qed.
Lemma mul_w_not_oof m W s a b : mul_w m W s a b <> OutOfFuel.
Proof. unfold mul_w. destruct (a * b <? W); [discriminate|]. destruct m; discriminate. Qed.
Lemma div_w_not_oof s a b : div_w s a b <> OutOfFuel.
Proof. unfold div_w. destruct (b =? 0); discriminate. Qed.
Lemma rem_w_not_oof s a b : rem_w s a b <> OutOfFuel.
Proof. unfold rem_w. destruct (b =? 0); discriminate. Qed.

Lemma bnd_add64 m s a b : bnd (add64 m s a b) 0 0.
Proof. apply bnd_lift, add_w_not_oof. Qed.
Lemma bnd_sub64 m s a b : bnd (sub64 m s a b) 0 0.
Proof. apply bnd_lift, sub_w_not_oof. Qed.
Lemma bnd_mul64 m s a b : bnd (mul64 m s a b) 0 0.
Proof. apply bnd_lift, mul_w_not_oof. Qed.
Lemma bnd_add32 m s a b : bnd (add32 m s a b) 0 0.
Proof. apply bnd_lift, add_w_not_oof. Qed.
Lemma bnd_sub32 m s a b : bnd (sub32 m s a b) 0 0.
Proof. apply bnd_lift, sub_w_not_oof. Qed.
Lemma bnd_mul32 m s a b : bnd (mul32 m s a b) 0 0.
Proof. apply bnd_lift, mul_w_not_oof. Qed.
Lemma bnd_div_w s a b : bnd (lift (div_w s a b)) 0 0.
Proof. apply bnd_lift, div_w_not_oof. Qed.
Lemma bnd_rem_w s a b : bnd (lift (rem_w s a b)) 0 0.
Proof. apply bnd_lift, rem_w_not_oof. Qed.

Lemma bnd_box_start m : bnd (box_start m) 1 0.
Proof.
  unfold box_start. eapply bnd_weaken; [eapply bnd_bind; [apply bnd_get_pos|intros; apply bnd_sub64]|lia|lia].
Qed.
Lemma bnd_skip_bytes n : bnd (skip_bytes n) 1 0.
Proof. apply bnd_seek_rel. Qed.
Lemma bnd_skip_bytes_to q : bnd (skip_bytes_to q) 1 0.
Proof. apply bnd_seek_to. Qed.
Lemma bnd_skip_box m size : bnd (skip_box m size) 2 0.
Proof.
  unfold skip_box. eapply bnd_weaken;
    [eapply bnd_bind; [apply bnd_box_start|intros; eapply bnd_bind; [apply bnd_add64|intros; apply bnd_seek_to]]
    |lia|lia].
Qed.
Lemma bnd_read_header_ext : bnd read_header_ext 6 0.
Proof.
  unfold read_header_ext. eapply bnd_weaken;
    [eapply bnd_bind; [apply bnd_rd_u8|intros; eapply bnd_bind; [apply bnd_rd_u24|intros; apply bnd_Ret]]
    |lia|lia].
Qed.
(** [BoxHeader::read]: 8 or 16 bytes in one or two calls *)
Lemma bnd_read_header : bnd read_header 18 0.
Proof.
  unfold read_header. apply (bnd_weaken _ (1 + 8 + 9) (0 + 0)); [|lia|lia].
  eapply bnd_bind; [apply bnd_rd_arr|].
  intros buf. cbn beta zeta. destruct (unbe (firstn 4 buf) =? 1).
  - apply (bnd_weaken _ (1 + 8 + 0) (0 + 0)); [|lia|lia]. eapply bnd_bind; [apply bnd_rd_arr|].
    intros buf2. cbn beta zeta. destruct (unbe buf2 =? 0); [apply bnd_Ret|].
    destruct (unbe buf2 <? 16); [apply bnd_Throw|apply bnd_Ret].
  - eapply bnd_weaken; [apply bnd_Ret|lia|lia].
Qed.

(** *** counted loops: [n] iterations cost at most [n] times the body *)
Lemma bnd_rd_n {A} (body : prog A) n Wb Ab :
  bnd body Wb Ab -> bnd (rd_n n body) (N.of_nat n * Wb) (N.of_nat n * Ab).
Proof.
  intros Hb. induction n as [|n IH].
  - cbn [rd_n]. apply bnd_Ret.
  - cbn [rd_n]. eapply bnd_weaken.
    + eapply bnd_bind; [exact Hb|]. intros x. eapply bnd_bind; [exact IH|]. intros r. apply bnd_Ret.
    + lia.
    + lia.
Qed.

(** a value read by [rd_u w] is below [256^w] *)
Lemma acc_rd_u {B} w0 a w (f : N -> prog B) W Al :
  w0 + (1 + N.of_nat w) <= W -> a <= Al ->
  (forall x, x < 256 ^ N.of_nat w -> acc (w0 + (1 + N.of_nat w)) a (f x) W Al) ->
  acc w0 a (bind (rd_u w) f) W Al.
Proof.
  intros Hw Ha H d p Hd. unfold rd_u. cbn [bind].
  destruct (N.eq_dec (N.of_nat w) 0) as [E|Hn].
  - rewrite E in *. rewrite mrun_RdExact_0.
    assert (Hx : unbe [] < 256 ^ 0) by (cbn; lia).
    specialize (H (unbe []) Hx d p Hd). destruct (mrun (f (unbe [])) d p) as [[r p'] c].
    destruct H as (Hr & Hw' & Ha'). repeat split; auto; lia.
  - destruct (mrun_RdExact _ (fun l => f (unbe l)) d p Hn) as [(_ & h & Hl & Hb & E)|(_ & E)]; rewrite E.
    + specialize (H (unbe h) (unbe_bound h w Hl (Hb Hd)) d (p + N.of_nat w) Hd).
      destruct (mrun (f (unbe h)) d (p + N.of_nat w)) as [[r p'] c].
      destruct H as (Hr & Hw' & Ha'). rewrite cwork_cadd, casum_cadd. unfold cwork at 1.
      cbn [c_rd c_ops c_bytes c_steps c_asum]. repeat split; auto; lia.
    + unfold cwork; cbn; repeat split; try lia; discriminate.
Qed.

(** ** Stepping tactics *)
Ltac bnd_prim :=
  first [ apply bnd_rd_u8 | apply bnd_rd_u16 | apply bnd_rd_u24 | apply bnd_rd_u32
        | apply bnd_rd_u48 | apply bnd_rd_u64 | apply bnd_rd_i8 | apply bnd_rd_i16 | apply bnd_rd_i32
        | apply bnd_rd_u | apply bnd_rd_i | apply bnd_rd_vec | apply bnd_rd_arr
        | apply bnd_read_header_ext | apply bnd_read_header
        | apply bnd_box_start | apply bnd_skip_bytes_to | apply bnd_skip_bytes | apply bnd_skip_box
        | apply bnd_add64 | apply bnd_sub64 | apply bnd_mul64
        | apply bnd_add32 | apply bnd_sub32 | apply bnd_mul32
        | apply bnd_div_w | apply bnd_rem_w
        | apply bnd_get_pos | apply bnd_seek_to | apply bnd_seek_rel | apply bnd_alloc | apply bnd_step
        | apply bnd_Ret | apply bnd_Throw | apply bnd_Crash ].

Ltac acc_arith := sat_consts; lia.

(** one step along the spine of a decoder; fails on a head it does not know *)
Ltac acc_step :=
  lazymatch goal with
  | |- acc _ _ (Ret _) _ _ => apply acc_Ret; [acc_arith|acc_arith]
  | |- acc _ _ (Throw _) _ _ => apply acc_Throw; [acc_arith|acc_arith]
  | |- acc _ _ (Crash _) _ _ => apply acc_Crash; [acc_arith|acc_arith]
  | |- acc _ _ (bind (Ret _) _) _ _ => cbn [bind]
  | |- acc _ _ (bind (Throw _) _) _ _ => cbn [bind]
  | |- acc _ _ (bind (Crash _) _) _ _ => cbn [bind]
  | |- acc _ _ (bind (bind _ _) _) _ _ => apply acc_assoc
  | |- acc _ _ (bind (if ?b then _ else _) _) _ _ => destruct b eqn:?
  | |- acc _ _ (if ?b then _ else _) _ _ => destruct b eqn:?
  | |- acc _ _ (bind (match ?x with Some _ => _ | None => _ end) _) _ _ => destruct x eqn:?
  | |- acc _ _ (match ?x with Some _ => _ | None => _ end) _ _ => destruct x eqn:?
  | |- acc _ _ (bind (let '(_, _) := ?x in _) _) _ _ => destruct x
  | |- acc _ _ (let '(_, _) := ?x in _) _ _ => destruct x
  | |- acc _ _ (bind _ _) _ _ =>
      eapply acc_bind; [bnd_prim | acc_arith | acc_arith | intros ?]
  | |- acc _ _ _ _ _ => eapply acc_of_bnd; [bnd_prim | acc_arith | acc_arith]
  end.

Ltac acc_go := repeat acc_step.
