(** * Results, build modes and fixed-width arithmetic

    [res] is the outcome of a library call in the model:
    - [Ok a]      the call returned [Ok(a)];
    - [Err EIo]   it returned [Err(Error::IoError(_))];
    - [Err EData] it returned any other [Error] variant;
    - [Panic s]   it panicked at site [s] (overflow check, division by zero,
                  index out of bounds, [unwrap]/[expect], byteorder assertion);
    - [OutOfFuel] model-only: the fuelled loop did not finish (theorems about
                  termination show it unreachable).

    [mode] distinguishes a build with arithmetic-overflow checks ([Dbg], the
    cargo debug profile) from one that wraps ([Rel]). *)
From Coq Require Export String.
From MP4 Require Export Bytes.
Open Scope N_scope.

(** [ENotFound] is [Error::EntryInStblNotFound], the one error the library itself inspects
    ([read_sample] turns it into [Ok(None)]); it is compared with the implementation as [EData]. *)
Inductive err := EIo | EData | ENotFound.
Inductive res (A : Type) : Type :=
| Ok (a : A)
| Err (e : err)
| Panic (site : string)
| OutOfFuel.
Arguments Ok {A} a.
Arguments Err {A} e.
Arguments Panic {A} site.
Arguments OutOfFuel {A}.

Inductive mode := Dbg | Rel.

Definition res_bind {A B} (r : res A) (k : A -> res B) : res B :=
  match r with
  | Ok a => k a
  | Err e => Err e
  | Panic s => Panic s
  | OutOfFuel => OutOfFuel
  end.

Definition res_map {A B} (f : A -> B) (r : res A) : res B :=
  res_bind r (fun a => Ok (f a)).

Definition is_panic {A} (r : res A) : bool :=
  match r with Panic _ => true | _ => false end.
Definition is_ok {A} (r : res A) : bool :=
  match r with Ok _ => true | _ => false end.
Definition is_oof {A} (r : res A) : bool :=
  match r with OutOfFuel => true | _ => false end.

(** Outcome class, the granularity at which model and implementation are compared. *)
Inductive rclass := COk | CIo | CData | CPanic | COof.
Definition class_of {A} (r : res A) : rclass :=
  match r with
  | Ok _ => COk | Err EIo => CIo | Err EData => CData | Err ENotFound => CData
  | Panic _ => CPanic | OutOfFuel => COof
  end.

(** ** Fixed-width unsigned arithmetic: [W] is the modulus (2^8, 2^16, 2^32, 2^64) *)

Definition add_w (m : mode) (W : N) (site : string) (a b : N) : res N :=
  if a + b <? W then Ok (a + b)
  else match m with Dbg => Panic site | Rel => Ok ((a + b) mod W) end.

Definition sub_w (m : mode) (W : N) (site : string) (a b : N) : res N :=
  if b <=? a then Ok (a - b)
  else match m with Dbg => Panic site | Rel => Ok ((a + W - b mod W) mod W) end.

Definition mul_w (m : mode) (W : N) (site : string) (a b : N) : res N :=
  if a * b <? W then Ok (a * b)
  else match m with Dbg => Panic site | Rel => Ok ((a * b) mod W) end.

(** Division and remainder by zero panic in every build. *)
Definition div_w (site : string) (a b : N) : res N :=
  if b =? 0 then Panic site else Ok (a / b).
Definition rem_w (site : string) (a b : N) : res N :=
  if b =? 0 then Panic site else Ok (a mod b).

(** [checked_*] / [saturating_*] as in Rust. *)
Definition checked_add (W a b : N) : option N := if a + b <? W then Some (a + b) else None.
Definition checked_sub (a b : N) : option N := if b <=? a then Some (a - b) else None.
Definition checked_mul (W a b : N) : option N := if a * b <? W then Some (a * b) else None.
Definition sat_add (W a b : N) : N := if a + b <? W then a + b else W - 1.
Definition sat_sub (a b : N) : N := a - b.  (* N subtraction truncates at 0 *)

(** [as] casts *)
Definition cast_w (W x : N) : N := x mod W.

Lemma add_w_ok m W s a b : a + b < W -> add_w m W s a b = Ok (a + b).
Proof. intros H. unfold add_w. now apply N.ltb_lt in H as ->. Qed.
Lemma sub_w_ok m W s a b : b <= a -> sub_w m W s a b = Ok (a - b).
Proof. intros H. unfold sub_w. now apply N.leb_le in H as ->. Qed.
Lemma mul_w_ok m W s a b : a * b < W -> mul_w m W s a b = Ok (a * b).
Proof. intros H. unfold mul_w. now apply N.ltb_lt in H as ->. Qed.
Lemma div_w_ok s a b : b <> 0 -> div_w s a b = Ok (a / b).
Proof. intros H. unfold div_w. now apply N.eqb_neq in H as ->. Qed.
Lemma rem_w_ok s a b : b <> 0 -> rem_w s a b = Ok (a mod b).
Proof. intros H. unfold rem_w. now apply N.eqb_neq in H as ->. Qed.

Lemma add_w_rel_no_panic W s a b : is_panic (add_w Rel W s a b) = false.
Proof. unfold add_w. now destruct (a + b <? W). Qed.
Lemma sub_w_rel_no_panic W s a b : is_panic (sub_w Rel W s a b) = false.
Proof. unfold sub_w. now destruct (b <=? a). Qed.
Lemma mul_w_rel_no_panic W s a b : is_panic (mul_w Rel W s a b) = false.
Proof. unfold mul_w. now destruct (a * b <? W). Qed.

Definition opt_res {A} (e : err) (o : option A) : res A :=
  match o with Some a => Ok a | None => Err e end.
