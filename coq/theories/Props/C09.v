(** * Property C09 — sample lookup in fragmented files follows movie-fragment semantics

    Statements only; the specification ([frag_consistent], [frag_expand]) is in
    [Spec/Fragment.v], written from ISO/IEC 14496-12 §8.8 without reference to the
    lookup code; the proofs are in [Proofs/FragProofs.v].

    [frag_expand fs d] lists (offset, size, start time, duration, composition
    offset) of every sample of the track's runs [fs] in file order, where [d]
    is the movie-level (trex) default duration.  The sync flag is not part of C09.

    [frag_consistent] admits track fragments WITHOUT a track run ([fr_has_trun f = false],
    a traf with only tfhd [+ tfdt]): such a fragment carries no run data, needs no
    decode-time box and defines no samples; the samples of the other fragments are
    numbered across it, and the fragment index the lookup uses (into [trafs] and
    [moof_offsets]) still counts it. *)
From MP4 Require Import Fragment FragProofs.
Open Scope list_scope.
Open Scope N_scope.

(** For EVERY consistent fragmented track, in both build modes: the sample count is
    the sum of the run counts; sample k (1-based, across fragments) is looked up with
    exactly the offset, size, start time, duration and composition offset the standard
    defines; a sample number outside 1..count is answered with an error (never a
    sample, never a panic). *)
Theorem frag_lookup_sound : forall m id tb fs dflt,
  fs <> [] -> frag_consistent fs dflt = true ->
  let t := mkTrack id tb fs dflt in
  sample_count t = lenN (frag_expand fs dflt) /\
  lenN (frag_expand fs dflt) = sumN (map fr_sample_count fs) /\
  (forall k, 1 <= k <= lenN (frag_expand fs dflt) ->
     exists off sz st du ct,
       nthN (frag_expand fs dflt) (k - 1) = Some (off, sz, st, du, ct) /\
       sample_offset m t k = Ok off /\ sample_size t k = Ok sz /\
       sample_time m t k = Ok (st, du) /\ sample_rendering_offset t k = ct) /\
  (forall k, k = 0 \/ lenN (frag_expand fs dflt) < k ->
     forall s, run (read_sample m t k) s = (Err EData, s)).
Proof. exact frag_lookup_sound_lemma. Qed.
Print Assumptions frag_lookup_sound.

(** [read_sample] on a stream (at any position) whose data holds [sz] bytes at [off]
    returns exactly those bytes with the start time, duration and composition offset
    of the specification. *)
Theorem frag_read_sample_sound : forall m id tb fs dflt k,
  fs <> [] -> frag_consistent fs dflt = true ->
  lenN fs < U32 ->     (* the number of track fragments fits the u32 the code casts it to *)
  1 <= k <= lenN (frag_expand fs dflt) ->
  exists off sz st du ct,
    nthN (frag_expand fs dflt) (k - 1) = Some (off, sz, st, du, ct) /\
    forall pre bytes post pos, lenN pre = off -> lenN bytes = sz ->
    exists sync,
      fst (run (read_sample m (mkTrack id tb fs dflt) k) (stream_at (pre ++ bytes ++ post) pos))
      = Ok (Some (mkSample st du ct sync bytes)).
Proof. exact frag_read_sample_sound_lemma. Qed.
Print Assumptions frag_read_sample_sound.

(** ** Non-vacuity: four track fragments — default-base-is-moof with a positive data
    offset, tfhd default duration and signed composition offsets; explicit base data
    offset with a negative data offset and per-sample durations, no composition
    offsets; a run without samples; default base without data offset, movie-level
    default duration. *)
Definition ex_frags : list fragrun := [
  mkFragrun 100 None       (Some 512) (Some 0)    true 0xA01 3 (Some 8%Z)      []         [10; 20; 30] [0; 1024; 4294966784];
  mkFragrun 180 (Some 300) None       (Some 1536) true 0x301 2 (Some (-100)%Z) [500; 524] [7; 9]       [];
  mkFragrun 250 None       None       (Some 2560) true 0x200 0 None            []         []           [];
  mkFragrun 400 None       None       (Some 2560) true 0xA00 2 None            []         [5; 6]       [4294967295; 3]
].
Definition ex_track : track := mkTrack 1 (mkTables [] 0 0 [] None None [] None None) ex_frags 1000.
Definition ex_data : bytes := map (fun i => N.of_nat i mod 256) (seq 0 420).

Example frag_example :
  frag_consistent ex_frags 1000 = true
  /\ frag_expand ex_frags 1000 =
       [ (108, 10, 0, 512, 0%Z); (118, 20, 512, 512, 1024%Z); (138, 30, 1024, 512, (-512)%Z);
         (200, 7, 1536, 500, 0%Z); (207, 9, 2036, 524, 0%Z);
         (400, 5, 2560, 1000, (-1)%Z); (405, 6, 3560, 1000, 3%Z) ]
  /\ sample_count ex_track = 7
  /\ map (fun k => (sample_offset Dbg ex_track k, sample_size ex_track k, sample_time Dbg ex_track k,
                    sample_rendering_offset ex_track k)) [1; 2; 3; 4; 5; 6; 7]
     = map (fun x => let '(o, s, t, d, c) := x in (Ok o, Ok s, Ok (t, d), c)) (frag_expand ex_frags 1000)
  /\ map (fun k => fst (run (read_sample Rel ex_track k) (stream_at ex_data 3))) [0; 8]
     = [Err EData; Err EData]
  /\ match fst (run (read_sample Dbg ex_track 5) (stream_at ex_data 3)) with
     | Ok (Some s) => (sm_start_time s, sm_duration s, sm_rendering_offset s, sm_bytes s)
                      = (2036, 524, 0%Z, [207; 208; 209; 210; 211; 212; 213; 214; 215])
     | _ => False
     end.
Proof. vm_compute. repeat split; reflexivity. Qed.

(** ** Non-vacuity for a track fragment WITHOUT a track run: a run of 2 samples, a fragment
    with only tfhd (default duration, explicit base data offset) and no tfdt, a run of 3
    samples.  The fragment without a run is consistent, contributes no sample, and the samples
    are numbered across it: sample 3 is the first sample of the THIRD fragment (index 2 of the
    full fragment list), at the third moof offset 900 plus the data offset 16. *)
Definition ex2_frags : list fragrun := [
  mkFragrun 100 None       (Some 512) (Some 0)    true  0x201 2 (Some 8%Z)  []  [10; 20]    [];
  mkFragrun 500 (Some 777) (Some 333) None        false 0     0 None        []  []          [];
  mkFragrun 900 None       None       (Some 1024) true  0xB01 3 (Some 16%Z) [100; 200; 300] [4; 5; 6] [0; 4294967295; 7]
].
Definition ex2_track : track := mkTrack 1 (mkTables [] 0 0 [] None None [] None None) ex2_frags 1000.
Definition ex2_data : bytes := map (fun i => N.of_nat i mod 256) (seq 0 940).

Example frag_example_without_run :
  frag_consistent ex2_frags 1000 = true
  /\ map (run_consistent 1000) ex2_frags = [true; true; true]
  /\ frag_expand ex2_frags 1000 =
       [ (108, 10, 0, 512, 0%Z); (118, 20, 512, 512, 0%Z);
         (916, 4, 1024, 100, 0%Z); (920, 5, 1124, 200, (-1)%Z); (925, 6, 1324, 300, 7%Z) ]
  /\ sample_count ex2_track = 5
  /\ map (find_traf ex2_track) [0; 1; 2; 3; 4; 5; 6]
     = [None; Some (0, 0); Some (0, 1); Some (2, 0); Some (2, 1); Some (2, 2); None]
  /\ sample_offset Dbg ex2_track 3 = Ok (900 + 16)
  /\ map (fun k => (sample_offset Dbg ex2_track k, sample_size ex2_track k, sample_time Dbg ex2_track k,
                    sample_rendering_offset ex2_track k)) [1; 2; 3; 4; 5]
     = map (fun x => let '(o, s, t, d, c) := x in (Ok o, Ok s, Ok (t, d), c)) (frag_expand ex2_frags 1000)
  /\ map (fun k => (sample_offset Rel ex2_track k, sample_size ex2_track k, sample_time Rel ex2_track k,
                    sample_rendering_offset ex2_track k)) [1; 2; 3; 4; 5]
     = map (fun x => let '(o, s, t, d, c) := x in (Ok o, Ok s, Ok (t, d), c)) (frag_expand ex2_frags 1000)
  /\ map (fun k => fst (run (read_sample Rel ex2_track k) (stream_at ex2_data 3))) [0; 6]
     = [Err EData; Err EData]
  /\ match fst (run (read_sample Dbg ex2_track 3) (stream_at ex2_data 0)) with
     | Ok (Some s) => (sm_start_time s, sm_duration s, sm_rendering_offset s, sm_bytes s)
                      = (1024, 100, 0%Z, [148; 149; 150; 151])
     | _ => False
     end.
Proof. vm_compute. repeat split; reflexivity. Qed.

(** a fragment list made only of fragments without a run is consistent and has no samples *)
Example frag_example_only_without_run :
  let fs := [mkFragrun 500 None None None false 0 0 None [] [] []] in
  frag_consistent fs 1000 = true /\ frag_expand fs 1000 = []
  /\ sample_count (mkTrack 1 (mkTables [] 0 0 [] None None [] None None) fs 1000) = 0
  /\ fst (run (read_sample Dbg (mkTrack 1 (mkTables [] 0 0 [] None None [] None None) fs 1000) 1) (stream_at [] 0))
     = Err EData.
Proof. vm_compute. repeat split; reflexivity. Qed.

(** a fragment without a run that nevertheless carries run data is rejected *)
Example frag_without_run_with_data_inconsistent :
  run_consistent 1000 (mkFragrun 500 None None None false 0 1 None [] [] []) = false
  /\ run_consistent 1000 (mkFragrun 500 None None None false 0 0 None [] [4] []) = false
  /\ run_consistent 1000 (mkFragrun 500 None None None false 1 0 None [] [] []) = false
  /\ run_consistent 1000 (mkFragrun 500 None None None false 0 0 (Some 0%Z) [] [] []) = false.
Proof. vm_compute. repeat split; reflexivity. Qed.

(** the view [Reader.traf_fragrun] builds for a decoded traf without a trun is such a fragment: it is consistent as
    soon as its header fields fit their widths (which the decoder guarantees) *)
From MP4 Require Reader.
Lemma traf_without_trun_consistent : forall t off d, BoxTraf.traf_trun t = None ->
  fr_has_trun (Reader.traf_fragrun t off) = false /\
  run_consistent d (Reader.traf_fragrun t off) = header_fits (Reader.traf_fragrun t off).
Proof.
  intros t off d H. unfold run_consistent, without_run_consistent, Reader.traf_fragrun. rewrite H.
  cbn [fr_has_trun fr_sample_count fr_sizes fr_durations fr_cts fr_flags fr_data_offset is_nil].
  split; reflexivity.
Qed.
Print Assumptions traf_without_trun_consistent.

(** ** Known finding D94: several track runs in one track fragment.
    ISO/IEC 14496-12 8.8.8 allows any number of [trun] boxes in a [traf]; [TrafBox] has one slot and [TrafBox::read_box]
    overwrites it for every [trun] child, so only the LAST run of a track fragment survives decoding and the samples of the
    earlier runs are lost ([frag_lookup_sound] above is about track fragments with at most one run, which is all the
    decoder can deliver).  Witness on the decoder model: a traf with two runs decodes to the traf holding the second. *)
From MP4 Require BoxTraf.
Definition d94_run1 : BoxTrun.trun :=
  BoxTrun.mkTrun 0 (BoxTrun.trun_FLAG_DATA_OFFSET + BoxTrun.trun_FLAG_SAMPLE_SIZE) 2 (Some 100%Z) None [] [2; 2] [] [].
Definition d94_run2 : BoxTrun.trun :=
  BoxTrun.mkTrun 0 (BoxTrun.trun_FLAG_DATA_OFFSET + BoxTrun.trun_FLAG_SAMPLE_SIZE) 3 (Some 104%Z) None [] [3; 3; 3] [] [].
Definition d94_traf_bytes : bytes :=
  let body := wout (BoxTfhd.enc_tfhd (BoxTraf.traf_tfhd BoxTraf.traf_test))
              ++ wout (BoxTrun.enc_trun d94_run1) ++ wout (BoxTrun.enc_trun d94_run2) in
  be 4 (8 + lenN body) ++ be 4 0x74726166 ++ body.
Example traf_keeps_last_trun :
  fst (run (h <- read_header ;; BoxTraf.dec_traf_fuel 6 Dbg (snd h)) (stream_at d94_traf_bytes 0))
  = Ok (BoxTraf.mkTraf (BoxTraf.traf_tfhd BoxTraf.traf_test) None (Some d94_run2)).
Proof. vm_compute. reflexivity. Qed.
