(** * Property C15 — reader results depend only on the file and the arguments

    "The result of reading a sample, its offset, a count or any accessor depends only on the
    file and the arguments: any order, repetition or interleaving of such calls, including
    calls that fail, returns the same results as a fresh reader asked once."

    Statements only; proofs in [Proofs/GenericProofs.v] (and [Base/Hoare.v] for [run_data]).

    Why this holds in the model, and what each part rests on:
    - the reader VALUE ([mp4reader]: parsed boxes, track map) is not threaded through the
      calls: [rd_sample_count], [rd_sample_offset] and all accessors of [Model/Reader.v] are
      Gallina functions of it, and [rd_read_sample] is a stream program that takes it as a
      parameter and returns only the sample.  That the Rust methods do not mutate [self]
      (other than the stream position inside [self.reader]) is the model-to-code
      correspondence for these methods ([&self] receivers; [read_sample] takes [&mut self]
      only to reach the stream), checked by the differential tests, not proved here;
    - the only state that survives a call is therefore the stream.  Its CONTENT is never
      modified by a read program ([stream_content_immutable]); its POSITION is irrelevant
      because [read_sample] starts with an absolute seek to an offset computed from the
      tables ([read_sample_position_independent]);
    - hence any schedule of calls, successful or failing, returns call by call what a fresh
      reader returns ([schedule_independent]).

    Determinism of parsing and muxing (same input, same output) needs no theorem: [open_fuel],
    [run_mux] and the encoders are Gallina functions, so e.g. [run_mux m b c ops = run_mux m b
    c ops] is [eq_refl] and says nothing.  The content of "deterministic" for the Rust code
    (no dependence on HashMap iteration order, addresses, time) lies in the correspondence
    between the code and these functions; the model side only adds that the metered
    interpreter used for the cost theorems computes the same values as the plain one
    ([metering_does_not_change_results], from [runm_run]). *)
From MP4 Require Import Hoare Reader GenericProofs.
Open Scope list_scope.
Open Scope N_scope.

(** ** The result of [read_sample] does not depend on where earlier calls left the stream.
    For EVERY reader value (also one no file produces), track id, sample id, file content and
    pair of positions. *)
Theorem read_sample_position_independent : forall m r tid sid data p p',
  fst (run (rd_read_sample m r tid sid) (stream_at data p)) =
  fst (run (rd_read_sample m r tid sid) (stream_at data p')).
Proof. exact read_sample_position_independent_lemma. Qed.
Print Assumptions read_sample_position_independent.

(** the general reason: a program that, after CPU-only nodes, either ends or seeks absolutely *)
Theorem absolute_seek_position_independent : forall A (p : prog A),
  pos_indep p -> forall d p1 p2, fst (run p (stream_at d p1)) = fst (run p (stream_at d p2)).
Proof. exact @pos_indep_run. Qed.
Print Assumptions absolute_seek_position_independent.

(** ** No read program modifies the content (or the length) of the stream. *)
Theorem stream_content_immutable : forall A (p : prog A) s,
  s_data (snd (run p s)) = s_data s /\ s_len (snd (run p s)) = s_len s.
Proof. exact @run_data_len. Qed.
Print Assumptions stream_content_immutable.

(** ** Schedules.
    [do_call m r c s] performs one call [c] (read a sample / sample offset / sample count) on
    reader [r] whose stream is in state [s] and returns the result and the stream state it
    leaves; [do_calls m r cs s] performs the calls [cs] one after the other, each on the
    stream state left by the previous one, and lists the results.

    Whatever the schedule (order, repetitions, failing calls in between) and wherever the
    stream stood at the beginning, the i-th result is what the i-th call returns on a fresh
    reader (stream at any position [pos0], e.g. where opening left it). *)
Theorem schedule_independent : forall m r data cs pos pos0,
  do_calls m r cs (stream_at data pos) =
  map (fun c => fst (do_call m r c (stream_at data pos0))) cs.
Proof. exact schedule_independent_lemma. Qed.
Print Assumptions schedule_independent.

(** [do_call] / [do_calls] are what the text above says *)
Theorem do_call_def : forall m r c s,
  do_call m r c s =
  match c with
  | CallReadSample tid sid =>
      let '(x, s') := run (rd_read_sample m r tid sid) s in (ResSample x, s')
  | CallSampleOffset tid sid => (ResOffset (rd_sample_offset m r tid sid), s)
  | CallSampleCount tid => (ResCount (rd_sample_count r tid), s)
  end.
Proof. intros; reflexivity. Qed.
Theorem do_calls_def : forall m r c cs s,
  do_calls m r [] s = [] /\
  do_calls m r (c :: cs) s = (let '(x, s') := do_call m r c s in x :: do_calls m r cs s').
Proof. intros; split; reflexivity. Qed.

(** special case: calling again on the stream a call left behind (whether it succeeded or
    failed, at end of file or anywhere) returns the same result *)
Theorem retry_same_result : forall m r tid sid data pos,
  let '(x, s') := run (rd_read_sample m r tid sid) (stream_at data pos) in
  fst (run (rd_read_sample m r tid sid) s') = x.
Proof. exact retry_same_result_lemma. Qed.
Print Assumptions retry_same_result.

(** ** Metering does not change results (all value theorems are about [run]). *)
Theorem metering_does_not_change_results : forall A (p : prog A) s,
  let '(r, s', m') := runm p s (meter0 None) in run p s = (r, s') /\ m_fired m' = false.
Proof. exact @no_fault_same_result_lemma. Qed.
Print Assumptions metering_does_not_change_results.

(** ** Non-vacuity on concrete data: the reader of [reader_test_file] (3 samples in track 1).
    A schedule with repetitions, reversed order, a missing track (error), sample ids out of
    range ([Ok None] / error), started at three different stream positions (0, middle, beyond
    the end), gives the fresh results; three of them are successful sample reads with
    different bytes. *)
Definition c15_schedule : list rcall :=
  [ CallReadSample 1 3; CallSampleCount 1; CallReadSample 1 1; CallReadSample 9 1;
    CallReadSample 1 3; CallSampleOffset 1 2; CallReadSample 1 4; CallReadSample 1 0;
    CallReadSample 1 2; CallSampleOffset 1 7; CallReadSample 1 1; CallSampleCount 9 ].

Definition result_class (x : rcall_result) : rclass * option (option bytes) :=
  match x with
  | ResSample r => (class_of r, match r with Ok o => Some (option_map Track.sm_bytes o) | _ => None end)
  | ResOffset r => (class_of r, None)
  | ResCount r => (class_of r, None)
  end.

Example c15_schedule_example :
  match fst (run (open_fuel 2000 Dbg (lenN reader_test_file)) (stream_at reader_test_file 0)) with
  | Ok r =>
      let fresh := map (fun c => fst (do_call Dbg r c (stream_at reader_test_file 0))) c15_schedule in
      do_calls Dbg r c15_schedule (stream_at reader_test_file 0) = fresh
      /\ do_calls Dbg r c15_schedule (stream_at reader_test_file 77) = fresh
      /\ do_calls Dbg r c15_schedule (stream_at reader_test_file 100000) = fresh
      /\ do_calls Dbg r (rev c15_schedule) (stream_at reader_test_file 5) = rev fresh
      /\ map (fun x => fst (result_class x)) fresh
         = [COk; COk; COk; CData; COk; COk; COk; CData; COk; CData; COk; CData]
      /\ nth 0 (map result_class fresh) (COk, None)
         = (COk, Some (Some (firstn 30 (skipn 78 reader_test_file))))
      /\ nth 2 (map result_class fresh) (COk, None)
         = (COk, Some (Some (firstn 10 (skipn 48 reader_test_file))))
      /\ nth 6 (map result_class fresh) (COk, None) = (COk, Some None)
  | _ => False
  end.
Proof. vm_compute. repeat split; reflexivity. Qed.

(** on a truncated stream the failing read (I/O error at end of file) does not disturb later
    calls either *)
Example c15_failing_calls_example :
  match fst (run (open_fuel 2000 Dbg (lenN reader_test_file)) (stream_at reader_test_file 0)) with
  | Ok r =>
      let cut := firstn 70 reader_test_file in      (* sample 1 complete, 2 cut, 3 missing *)
      let cs := [CallReadSample 1 3; CallReadSample 1 1; CallReadSample 1 2; CallReadSample 1 1] in
      do_calls Dbg r cs (stream_at cut 0)
      = map (fun c => fst (do_call Dbg r c (stream_at cut 0))) cs
      /\ map (fun x => fst (result_class x)) (do_calls Dbg r cs (stream_at cut 0)) = [CIo; COk; CIo; COk]
  | _ => False
  end.
Proof. vm_compute. repeat split; reflexivity. Qed.

(** ** The tie of the model's state to the source (regenerated by translator/rust2gen.py on every run).
    The model's reader is the immutable record [mp4reader] (ftyp, moov, moofs, emsgs, tracks, size) plus the stream; a track is
    [mp4track] (trak, trafs, moof_offsets, default_sample_duration); the muxer's state is [twriter] / [mwriter].  The determinism and
    history-independence theorems above are about THIS state.  The source's structs have exactly these fields, and the crate uses no
    interior mutability or global state ([Cell], [RefCell], [Mutex], atomics, [static mut], [thread_local!], ...): the only hits of the
    scan are the [BufReader] of the convenience function [read_mp4] in src/lib.rs.  A cache or cursor added to one of these structs
    breaks this lemma: the model's state space is no longer the code's. *)
Lemma state_is_the_models :
  Tables.struct_fields =
    [ ("Mp4Reader", ["reader"; "ftyp"; "moov"; "moofs"; "emsgs"; "tracks"; "size"]);
      ("Mp4Track", ["trak"; "trafs"; "moof_offsets"; "default_sample_duration"]);
      ("Mp4TrackWriter", ["trak"; "sample_id"; "fixed_sample_size"; "is_fixed_sample_size"; "chunk_samples"; "chunk_duration";
                          "chunk_buffer"; "samples_per_chunk"; "duration_per_chunk"]);
      ("Mp4Writer", ["writer"; "tracks"; "mdat_pos"; "timescale"; "duration"]) ]%string
  /\ Tables.interior_mutability = [ ("src/lib.rs", "BufReader"); ("src/lib.rs", "BufReader"); ("src/lib.rs", "BufReader") ]%string.
Proof. split; reflexivity. Qed.
