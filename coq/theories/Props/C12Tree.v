(** Property C12 — layout independence as ONE theorem over box trees (statements only; proofs in Proofs/LayoutTree*.v, 2985 lines).

    Vocabulary (Props/C12.v): [btree] (a leaf is any box taken as a whole, a node a box whose payload is the rendering of its children), [file_of],
    [lstep known] / [tstep] (one layout step: insert a box the loop skips, swap two siblings of different types, change a header form, append spare bytes
    to a fixed-layout / table box, rewrite the entries of a chunk-offset table, or any of these inside a container that iterates), [opens m f r]
    (some fuel opens [f] to the reader [r]), [strip_chunk_offsets].  [C12_conclusion m A B ra]: the file [B] opens to a reader with the same brands,
    metadata, every box of the moov except the chunk-offset entries, the same tracks, per-sample sizes / times / rendering offsets / sync flags, and — when
    the chunk offsets were rewritten by the displacement of the media data — sample offsets shifted by exactly that displacement and the same sample bytes.

    1. [C12_statement] as first written (ANY well-formed trees, the SYMMETRIC closure of the steps) is FALSE: [C12_statement_refuted].  Read backwards,
       "append spare bytes" truncates a box; and one FORWARD spare step already changes the movie when a fixed-layout box declares fewer bytes than its
       fields need ([forward_spare_step_changes_the_movie]: [MvhdBox::read_box] reads [next_track_id] out of the following sibling and seeks back) —
       such a file is not a valid encoding of a movie, which is what the property quantifies over.
    2. The theorem holds for CANONICAL trees ([good m T]: well-formed, shorter than 2^63 bytes, and every tree has a structural decoding [sem_open]:
       a box the loop skips is arbitrary; an interpreted leaf decodes at any position of any consistent stream, for spare-able types with any spare tail;
       an interpreted container's children are canonical one level down and its fold finishes).  [LayoutTree2.v] shows the ISO renderings of well-formed
       values are canonical (13 spare-able leaves as [iso_xxx_payload v ++ spare], ftyp/emsg/dref/mehd/trex/stsd/edts/meta as [iso_xxx_payload v], the
       container rules), so every file the round-trip theorems describe is covered.
       - [C12_layout_independence_canonical]: any chain of steps (symmetric closure) through canonical lists;
       - [C12_layout_independence_forward]: only the START is assumed canonical; forward steps preserve canonicity ([fstep]: the target is well-formed,
         short enough, and its rewritten chunk-offset tables fit their boxes).
    3. [open_fuel_det] (LayoutTreeMono.v): the result of opening does not depend on the fuel once it is not [OutOfFuel] (every fuelled decoder is
       monotone in its fuel), which makes the [exists fuel] in [opens] harmless.
    Non-vacuity: [C12_tree_ex] — a complete file (ftyp, moov with a full trak down to the tables, mdat) and the chain: free box inserted at the top,
    3 spare bytes after tkhd, 64-bit header on stbl, chunk offsets rewritten 634 -> 664 five containers deep. *)
From MP4 Require Import Reader LayoutKit LayoutProofs LayoutMore LayoutOpen C12 LayoutTreeMono LayoutTreeRefute LayoutTreeKit LayoutTree LayoutTree2 LayoutTree3 LayoutTreeEx.
From Coq Require Import Relations List.
Import ListNotations.
Open Scope list_scope.
Open Scope N_scope.

Theorem C12_first_statement_is_false : ~ C12_statement.
Proof. exact C12_statement_refuted. Qed.
Print Assumptions C12_first_statement_is_false.

Theorem C12_tree_canonical : forall m TA TB ra,
  good m TA -> clos_refl_sym_trans _ (cstep m) TA TB ->
  opens m (file_of TA) ra -> rd_moofs ra = [] ->
  C12_conclusion m (file_of TA) (file_of TB) ra.
Proof. exact C12_layout_independence_canonical. Qed.
Print Assumptions C12_tree_canonical.

Theorem C12_tree_forward : forall m TA TB ra,
  good m TA -> clos_refl_trans _ (fstep) TA TB ->
  opens m (file_of TA) ra -> rd_moofs ra = [] ->
  C12_conclusion m (file_of TA) (file_of TB) ra.
Proof. exact C12_layout_independence_forward. Qed.
Print Assumptions C12_tree_forward.

(** the conclusion is word for word that of [C12_statement] *)
Theorem C12_conclusion_is_the_statements :
  C12_statement <->
  (forall m TA TB ra,
     Forall bt_wf TA -> Forall bt_wf TB ->
     Forall (bt_leaves meta_tight) TA -> Forall (bt_leaves meta_tight) TB ->
     clos_refl_sym_trans _ (lstep open_known) TA TB ->
     opens m (file_of TA) ra -> rd_moofs ra = [] ->
     C12_conclusion m (file_of TA) (file_of TB) ra).
Proof. exact C12_statement_unfolded. Qed.

Theorem C12_open_is_fuel_independent : forall m size f f' s,
  fst (run (open_fuel f m size) s) <> OutOfFuel -> fst (run (open_fuel f' m size) s) <> OutOfFuel ->
  run (open_fuel f m size) s = run (open_fuel f' m size) s.
Proof. exact open_fuel_det. Qed.
Print Assumptions C12_open_is_fuel_independent.

Theorem C12_tree_ex : forall ra,
  opens Dbg (file_of ex_T0) ra -> C12_conclusion Dbg (file_of ex_T0) (file_of ex_T4) ra.
Proof. exact ex_tree_layout_independence. Qed.
Print Assumptions C12_tree_ex.
