(** Property C04 / C05 — every box codec round-trips, is size-exact, and its bytes are the ISO layout.
    One theorem per box, restated here from Proofs/Rt*.v (statement pinned; proof = the lemma).
    [leaf_roundtrip wf size code enc dec iso_payload] (Proofs/Kit.v) says, for every value v with wf v and size v < 2^32:
      - the encoder returns [size v], never seeks, and writes exactly  be32(size v) ++ be32(code) ++ iso_payload v  (C05: the ISO layout,
        [iso_payload] is written from the standard in Iso/*.v without reference to the encoder);  |payload| + 8 = size v  (size-exact);
      - decoding those bytes at ANY stream position, followed by ANY sibling bytes, in either build mode, returns v and leaves the stream
        exactly at the end of the box.
    [desc_roundtrip] (Proofs/RtMp4a.v) is the same statement for the MPEG-4 descriptors (tag + expandable length instead of a box header). *)
From MP4 Require Import Kit.
From MP4 Require Import BoxAvc1 BoxCo64 BoxCtts BoxData BoxDinf BoxElst BoxEmsg BoxFtyp BoxHdlr BoxHev1 BoxMdhd BoxMehd BoxMfhd BoxMp4a BoxMvhd BoxSmhd BoxStco BoxStsc BoxStss BoxStsz BoxStts BoxTfdt BoxTfhd BoxTkhd BoxTrex BoxTrun BoxTx3g BoxVmhd BoxVp09 BoxVpcc.
From MP4 Require Import IsoAvc1 IsoCo64 IsoCtts IsoData IsoDinf IsoElst IsoEmsg IsoFtyp IsoHdlr IsoHev1 IsoMdhd IsoMehd IsoMfhd IsoMp4a IsoSmhd IsoStco IsoStsc IsoStss IsoStsz IsoStts IsoTfdt IsoTfhd IsoTkhd IsoTrex IsoTrun IsoTx3g IsoVmhd IsoVp09 IsoVpcc.
From MP4 Require Import RtAvc1 RtCo64 RtCtts RtData RtDinf RtElst RtEmsg RtFtyp RtHdlr RtHev1 RtMdhd RtMehd RtMfhd RtMp4a RtMvhd RtSmhd RtStco RtStsc RtStss RtStsz RtStts RtTfdt RtTfhd RtTkhd RtTrex RtTrun RtTx3g RtVmhd RtVp09 RtVpcc.

Theorem C04_avcc_roundtrip : leaf_roundtrip avcc_wf avcc_size 0x61766343 enc_avcc dec_avcc iso_avcc_payload.
Proof. exact (avcc_roundtrip). Qed.
Print Assumptions C04_avcc_roundtrip.

Theorem C04_avc1_roundtrip : leaf_roundtrip avc1_wf avc1_size 0x61766331 enc_avc1 dec_avc1 iso_avc1_payload.
Proof. exact (avc1_roundtrip). Qed.
Print Assumptions C04_avc1_roundtrip.

Theorem C04_co64_roundtrip : leaf_roundtrip co64_wf co64_size 0x636f3634 enc_co64 dec_co64 iso_co64_payload.
Proof. exact (co64_roundtrip). Qed.
Print Assumptions C04_co64_roundtrip.

Theorem C04_ctts_roundtrip : leaf_roundtrip ctts_wf ctts_size 0x63747473 enc_ctts dec_ctts iso_ctts_payload.
Proof. exact (ctts_roundtrip). Qed.
Print Assumptions C04_ctts_roundtrip.

Theorem C04_data_roundtrip : leaf_roundtrip data_wf data_size 0x64617461 enc_data dec_data iso_data_payload.
Proof. exact (data_roundtrip). Qed.
Print Assumptions C04_data_roundtrip.

Theorem C04_url_roundtrip : leaf_roundtrip url_wf url_size 0x75726c20 enc_url dec_url iso_url_payload.
Proof. exact (url_roundtrip). Qed.
Print Assumptions C04_url_roundtrip.

Theorem C04_dref_roundtrip : leaf_roundtrip dref_wf dref_size 0x64726566 enc_dref dec_dref iso_dref_payload.
Proof. exact (dref_roundtrip). Qed.
Print Assumptions C04_dref_roundtrip.

Theorem C04_dinf_roundtrip : leaf_roundtrip dinf_wf dinf_size 0x64696e66 enc_dinf dec_dinf iso_dinf_payload.
Proof. exact (dinf_roundtrip). Qed.
Print Assumptions C04_dinf_roundtrip.

Theorem C04_elst_roundtrip : leaf_roundtrip elst_wf elst_size 0x656c7374 enc_elst dec_elst iso_elst_payload.
Proof. exact (elst_roundtrip). Qed.
Print Assumptions C04_elst_roundtrip.

Theorem C04_emsg_roundtrip : leaf_roundtrip emsg_wf emsg_size 0x656d7367 enc_emsg dec_emsg iso_emsg_payload.
Proof. exact (emsg_roundtrip). Qed.
Print Assumptions C04_emsg_roundtrip.

Theorem C04_ftyp_roundtrip : leaf_roundtrip ftyp_wf ftyp_size 0x66747970 enc_ftyp dec_ftyp iso_ftyp_payload.
Proof. exact (ftyp_roundtrip). Qed.
Print Assumptions C04_ftyp_roundtrip.

Theorem C04_hdlr_roundtrip : leaf_roundtrip hdlr_wf hdlr_size 0x68646c72 enc_hdlr dec_hdlr iso_hdlr_payload.
Proof. exact (hdlr_roundtrip). Qed.
Print Assumptions C04_hdlr_roundtrip.

Theorem C04_hvcc_roundtrip : leaf_roundtrip hvcc_wf hvcc_size 0x68766343 enc_hvcc dec_hvcc iso_hvcc_payload.
Proof. exact (hvcc_roundtrip). Qed.
Print Assumptions C04_hvcc_roundtrip.

Theorem C04_hev1_roundtrip : leaf_roundtrip hev1_wf hev1_size 0x68657631 enc_hev1 dec_hev1 iso_hev1_payload.
Proof. exact (hev1_roundtrip). Qed.
Print Assumptions C04_hev1_roundtrip.

Theorem C04_mdhd_roundtrip : leaf_roundtrip mdhd_wf mdhd_size 0x6d646864 enc_mdhd dec_mdhd iso_mdhd_payload.
Proof. exact (mdhd_roundtrip). Qed.
Print Assumptions C04_mdhd_roundtrip.

Theorem C04_mehd_roundtrip : leaf_roundtrip mehd_wf mehd_size 0x6d656864 enc_mehd dec_mehd iso_mehd_payload.
Proof. exact (mehd_roundtrip). Qed.
Print Assumptions C04_mehd_roundtrip.

Theorem C04_mfhd_roundtrip : leaf_roundtrip mfhd_wf mfhd_size 0x6d666864 enc_mfhd dec_mfhd iso_mfhd_payload.
Proof. exact (mfhd_roundtrip). Qed.
Print Assumptions C04_mfhd_roundtrip.

Theorem C04_slconfig_roundtrip : desc_roundtrip slconfig_wf 6 1 enc_slconfig (fun _ => dec_slconfig) iso_slconfig.
Proof. exact (slconfig_roundtrip). Qed.
Print Assumptions C04_slconfig_roundtrip.

Theorem C04_decspecific_roundtrip m0 : desc_roundtrip decspecific_wf 5 2 (enc_decspecific m0) (fun _ => dec_decspecific) iso_decspecific.
Proof. exact (decspecific_roundtrip m0). Qed.
Print Assumptions C04_decspecific_roundtrip.

Theorem C04_decconfig_roundtrip m0 : desc_roundtrip decconfig_wf 4 17 (enc_decconfig m0) dec_decconfig iso_decconfig.
Proof. exact (decconfig_roundtrip m0). Qed.
Print Assumptions C04_decconfig_roundtrip.

Theorem C04_esdesc_roundtrip m0 : desc_roundtrip esdesc_wf 3 25 (enc_esdesc m0) dec_esdesc iso_esdesc.
Proof. exact (esdesc_roundtrip m0). Qed.
Print Assumptions C04_esdesc_roundtrip.

Theorem C04_esds_roundtrip m0 : leaf_roundtrip esds_wf esds_size 0x65736473 (enc_esds m0) dec_esds iso_esds_payload.
Proof. exact (esds_roundtrip m0). Qed.
Print Assumptions C04_esds_roundtrip.

Theorem C04_mp4a_roundtrip m0 : leaf_roundtrip mp4a_wf mp4a_size 0x6d703461 (enc_mp4a m0) dec_mp4a iso_mp4a_payload.
Proof. exact (mp4a_roundtrip m0). Qed.
Print Assumptions C04_mp4a_roundtrip.

Theorem C04_mvhd_roundtrip : leaf_roundtrip mvhd_wf mvhd_size 0x6d766864 enc_mvhd dec_mvhd mvhd_payload.
Proof. exact (mvhd_roundtrip). Qed.
Print Assumptions C04_mvhd_roundtrip.

Theorem C04_smhd_roundtrip : leaf_roundtrip smhd_wf smhd_size 0x736d6864 enc_smhd dec_smhd iso_smhd_payload.
Proof. exact (smhd_roundtrip). Qed.
Print Assumptions C04_smhd_roundtrip.

Theorem C04_stco_roundtrip : leaf_roundtrip stco_wf stco_size 0x7374636f enc_stco dec_stco iso_stco_payload.
Proof. exact (stco_roundtrip). Qed.
Print Assumptions C04_stco_roundtrip.

Theorem C04_stsc_roundtrip : leaf_roundtrip stsc_wf stsc_size 0x73747363 enc_stsc dec_stsc iso_stsc_payload.
Proof. exact (stsc_roundtrip). Qed.
Print Assumptions C04_stsc_roundtrip.

Theorem C04_stss_roundtrip : leaf_roundtrip stss_wf stss_size 0x73747373 enc_stss dec_stss iso_stss_payload.
Proof. exact (stss_roundtrip). Qed.
Print Assumptions C04_stss_roundtrip.

Theorem C04_stsz_roundtrip : leaf_roundtrip stsz_wf stsz_size 0x7374737a enc_stsz dec_stsz iso_stsz_payload.
Proof. exact (stsz_roundtrip). Qed.
Print Assumptions C04_stsz_roundtrip.

Theorem C04_stts_roundtrip : leaf_roundtrip stts_wf stts_size 0x73747473 enc_stts dec_stts iso_stts_payload.
Proof. exact (stts_roundtrip). Qed.
Print Assumptions C04_stts_roundtrip.

Theorem C04_tfdt_roundtrip : leaf_roundtrip tfdt_wf tfdt_size 0x74666474 enc_tfdt dec_tfdt iso_tfdt_payload.
Proof. exact (tfdt_roundtrip). Qed.
Print Assumptions C04_tfdt_roundtrip.

Theorem C04_tfhd_roundtrip : leaf_roundtrip tfhd_wf tfhd_size 0x74666864 enc_tfhd dec_tfhd iso_tfhd_payload.
Proof. exact (tfhd_roundtrip). Qed.
Print Assumptions C04_tfhd_roundtrip.

Theorem C04_tkhd_roundtrip : leaf_roundtrip tkhd_wf tkhd_size 0x746b6864 enc_tkhd dec_tkhd iso_tkhd_payload.
Proof. exact (tkhd_roundtrip). Qed.
Print Assumptions C04_tkhd_roundtrip.

Theorem C04_trex_roundtrip : leaf_roundtrip trex_wf trex_size 0x74726578 enc_trex dec_trex iso_trex_payload.
Proof. exact (trex_roundtrip). Qed.
Print Assumptions C04_trex_roundtrip.

Theorem C04_trun_roundtrip : leaf_roundtrip trun_wf trun_size 0x7472756e enc_trun dec_trun iso_trun_payload.
Proof. exact (trun_roundtrip). Qed.
Print Assumptions C04_trun_roundtrip.

Theorem C04_tx3g_roundtrip : leaf_roundtrip tx3g_wf tx3g_size 0x74783367 enc_tx3g dec_tx3g iso_tx3g_payload.
Proof. exact (tx3g_roundtrip). Qed.
Print Assumptions C04_tx3g_roundtrip.

Theorem C04_vmhd_roundtrip : leaf_roundtrip vmhd_wf vmhd_size 0x766d6864 enc_vmhd dec_vmhd iso_vmhd_payload.
Proof. exact (vmhd_roundtrip). Qed.
Print Assumptions C04_vmhd_roundtrip.

Theorem C04_vp09_roundtrip : leaf_roundtrip vp09_wf vp09_size 0x76703039 enc_vp09 dec_vp09 iso_vp09_payload.
Proof. exact (vp09_roundtrip). Qed.
Print Assumptions C04_vp09_roundtrip.

Theorem C04_vpcc_roundtrip : leaf_roundtrip vpcc_wf vpcc_size 0x76706343 enc_vpcc dec_vpcc iso_vpcc_payload.
Proof. exact (vpcc_roundtrip). Qed.
Print Assumptions C04_vpcc_roundtrip.


(** ** Containers (Proofs/Rt{Stsd,Stbl,Minf,Mdia,Edts,Mvex,Traf,Moof,Ilst,Meta,Udta,Trak,Moov}.v)
    [cont_roundtrip] (Proofs/KitCont.v) is [leaf_roundtrip] with the decoder's fuel quantified above an explicit bound;
    [cont_roundtrip_s] additionally requires the stream's cached view to be consistent with its data
    (MetaBox::read_box seeks backwards). The payloads are the children's complete ISO renderings (Iso/Iso<Box>.v).
    [x_rt_wf] = [x_wf] plus what the struct cannot represent: at most one sample entry, at least one of stco/co64,
    no duplicate metadata keys, canonical box types in MetaBox::Unknown (RtContWf.v states each with a witness). *)
From MP4 Require Import BoxStsd BoxStbl BoxMinf BoxMdia BoxEdts BoxMvex BoxTraf BoxMoof BoxIlst BoxMeta BoxUdta BoxTrak BoxMoov.
From MP4 Require IsoStsd IsoStbl IsoMinf IsoMdia IsoEdts IsoMvex IsoTraf IsoMoof IsoIlst IsoMetaBox IsoUdta IsoTrak IsoMoov.
From MP4 Require Import KitCont RtStsd RtStbl RtMinf RtMdia RtEdts RtTrak RtMvex RtTraf RtMoof RtIlst RtMeta RtUdta RtMoov RtContWf.
Theorem C04_containers_roundtrip : forall me : mode,
  cont_roundtrip stsd_rt_wf stsd_size 0x73747364 (enc_stsd me) dec_stsd_fuel IsoStsd.iso_stsd_payload (fun _ => 1%nat)
  /\ cont_roundtrip stbl_rt_wf stbl_size 0x7374626c (enc_stbl me) dec_stbl_fuel IsoStbl.iso_stbl_payload (fun _ => 9%nat)
  /\ cont_roundtrip minf_rt_wf minf_size 0x6d696e66 (enc_minf me) dec_minf_fuel IsoMinf.iso_minf_payload (fun _ => 13%nat)
  /\ cont_roundtrip mdia_rt_wf mdia_size 0x6d646961 (enc_mdia me) dec_mdia_fuel IsoMdia.iso_mdia_payload (fun _ => 16%nat)
  /\ cont_roundtrip edts_wf edts_size 0x65647473 enc_edts dec_edts_fuel IsoEdts.iso_edts_payload (fun _ => 0%nat)
  /\ cont_roundtrip mvex_rt_wf mvex_size 0x6d766578 enc_mvex dec_mvex_fuel IsoMvex.iso_mvex_payload mvex_fuel
  /\ cont_roundtrip traf_rt_wf traf_size 0x74726166 enc_traf dec_traf_fuel IsoTraf.iso_traf_payload traf_fuel
  /\ cont_roundtrip moof_rt_wf moof_size 0x6d6f6f66 enc_moof dec_moof_fuel IsoMoof.iso_moof_payload moof_fuel
  /\ cont_roundtrip ilst_wf ilst_size 0x696c7374 enc_ilst dec_ilst_fuel IsoIlst.iso_ilst_payload ilst_fuel
  /\ cont_roundtrip_s meta_rt_wf meta_size 0x6d657461 enc_meta dec_meta_fuel IsoMetaBox.iso_meta_payload meta_fuel
  /\ cont_roundtrip_s udta_rt_wf udta_size 0x75647461 enc_udta dec_udta_fuel IsoUdta.iso_udta_payload udta_fuel
  /\ cont_roundtrip_s trak_rt_wf trak_size 0x7472616b (enc_trak me) dec_trak_fuel IsoTrak.iso_trak_payload trak_fuel
  /\ cont_roundtrip_s moov_rt_wf moov_size 0x6d6f6f76 (enc_moov me) dec_moov_fuel IsoMoov.iso_moov_payload moov_fuel.
Proof. exact containers_roundtrip. Qed.
Print Assumptions C04_containers_roundtrip.
