(** Property C11 (truncated files) composed with C09 (movie fragments) — FRAGMENTED files from bytes.
    Statements only; proofs in Proofs/FragPrefix.v.

    C11: "For every proper prefix of a valid file, given with the prefix's own length, opening either fails with an
    error or succeeds; when it succeeds, each sample read either fails with an error or is identical in bytes and
    timing to that sample of the complete file."

    [Props/C11.v] ([truncated_fragmented]) relates the reader of a prefix to the reader of the complete file, with the
    same fuel and the same build mode on both sides and two hypotheses about [top_boxes].  Here the file is the
    fragmented file of [Props/C09Open.v]
        b = ftyp  moov  (moof  mdat)*                       ([ff_bytes wf wv ft v frags])
    under EXACTLY the hypotheses of [fragmented_file_lookup]; the prefix is opened with ANY fuel, in any build mode
    [m], read in any build mode [m'], and the conclusion speaks of the movie-fragment SPECIFICATION
    ([Spec/Fragment.v], [frag_expand]) applied to the fragment list of the COMPLETE file.

    - [C11_frag_open]: the reader [rp] of any prefix (length [n]) that opens has the ftyp and the moov of the file; its
      movie fragments are the first [j] moofs of the file, where [j] is the number of moof boxes that START before
      the cut ([frag_positions]: the byte positions of the moof boxes, see [moof_positions_are_positions] in
      C09Open.v); the lookup view of every track holds exactly the fragments [file_fragruns k (firstn j mps)] — the
      trafs naming the track in those first [j] moofs, in file order.
    - [C11_frag_lookup]: for every track of the moov that has a fragment among those first [j] and whose COMPLETE
      fragment list is [frag_consistent]: whatever sample [rd_read_sample] returns through [rp] on the prefix has
      the start time, the duration and the composition offset [frag_expand] lists for that sample number in the
      complete file, its bytes are the bytes of the COMPLETE file at the specified offset, and that byte range lies
      inside the prefix ([sz = 0 \/ off + sz <= n]).  The sample number lies within the samples of the first [j]
      fragments.  A track id the moov does not have is answered with an error.
      Not claimed (see the two witnesses at the end of [Props/C11.v]): the sync flag, which the library computes
      from the number of fragments seen so far; tracks WITHOUT a fragment among the first [j] moofs, which the
      reader of the prefix serves from the sample tables of the moov.
    Route: direct.  The fragment list of the prefix's reader is an initial segment of the complete one, and
    [frag_expand] of an initial segment is an initial segment of [frag_expand] ([frag_expand_app],
    [frag_expand_prefix_nth] in FragPrefix.v); [truncated_fragmented] is not used. *)
From MP4 Require Import Hoare Reader GenericProofs GenericPrefix.
From MP4 Require Import Fragment FragFile MuxOpenKit LayoutKit RtMoov RtMoof IsoFile C09Open C11 FragPrefix.
From Coq Require Import List NArith ZArith Lia.
Import ListNotations.
Open Scope list_scope.
Open Scope N_scope.

(** ** Part 1: the reader of a prefix *)
Definition C11_frag_open_statement : Prop :=
  forall m (wf wv : bool) (ft : ftyp) (v : moov) (frags : list fragment),
  ftyp_wf ft = true -> ftyp_size ft < U32 ->
  moov_rt_wf v = true -> moov_size v < U32 ->
  Forall fragment_ok frags ->
  lenN (ff_bytes wf wv ft v frags) < 2 ^ 63 ->
  NoDup (map trak_id (moov_traks v)) -> ~ In 0 (map trak_id (moov_traks v)) ->
  (forall g tf, In g frags -> In tf (moof_trafs (fg_moof g)) -> In (traf_tid tf) (map trak_id (moov_traks v))) ->
  let b := ff_bytes wf wv ft v frags in
  let mps := ff_moofs wf wv ft v frags in
  let d := moov_default_sample_duration v in
  forall n fp rp sp, n <= lenN b ->
    run (open_fuel fp m n) (stream_at (firstn (N.to_nat n) b) 0) = (Ok rp, sp) ->
    exists j, (j <= length frags)%nat /\
      (* [j] is the number of moof boxes that start before the cut *)
      (forall x q, nth_error (frag_positions (ff_head_len wf wv ft v) frags) x = Some q -> (q < n <-> (x < j)%nat)) /\
      rd_ftyp rp = ft /\ rd_moov rp = v /\ rd_moofs rp = firstn j (map fg_moof frags) /\ rd_emsgs rp = [] /\
      map fst (rd_tracks rp) = map trak_id (moov_traks v) /\
      (forall k, ~ In k (map trak_id (moov_traks v)) -> tracks_get k (rd_tracks rp) = None) /\
      forall t, In t (moov_traks v) ->
        exists t', tracks_get (trak_id t) (rd_tracks rp) = Some t' /\ mt_trak t' = t /\
          track_view t' = Track.mkTrack (trak_id t) (stbl_tables (minf_stbl (mdia_minf (trak_mdia t))))
                                        (file_fragruns (trak_id t) (firstn j mps))
                                        (match file_fragruns (trak_id t) (firstn j mps) with [] => 0 | _ => d end).

Theorem C11_frag_open : C11_frag_open_statement.
Proof.
  (* [~ In 0 ...] is not needed: it is implied by the success of [open_fuel] on the prefix *)
  intros m wf wv ft v frags H1 H2 H3 H4 H5 H6 H7 _ H9.
  exact (ff_prefix_open m wf wv ft v frags H1 H2 H3 H4 H5 H6 H7 H9).
Qed.
Print Assumptions C11_frag_open.

(** ** Part 2: the samples read through the reader of a prefix *)
Definition C11_frag_lookup_statement : Prop :=
  forall m (wf wv : bool) (ft : ftyp) (v : moov) (frags : list fragment),
  ftyp_wf ft = true -> ftyp_size ft < U32 ->
  moov_rt_wf v = true -> moov_size v < U32 ->
  Forall fragment_ok frags ->
  lenN (ff_bytes wf wv ft v frags) < 2 ^ 63 ->
  NoDup (map trak_id (moov_traks v)) -> ~ In 0 (map trak_id (moov_traks v)) ->
  (forall g tf, In g frags -> In tf (moof_trafs (fg_moof g)) -> In (traf_tid tf) (map trak_id (moov_traks v))) ->
  forall m',                           (* the build mode of the sample reads; [m] is the build mode of [read_header] *)
  let b := ff_bytes wf wv ft v frags in
  let mps := ff_moofs wf wv ft v frags in
  let d := moov_default_sample_duration v in
  forall n fp rp sp, n <= lenN b ->
    run (open_fuel fp m n) (stream_at (firstn (N.to_nat n) b) 0) = (Ok rp, sp) ->
    exists j, (j <= length frags)%nat /\
      (forall x q, nth_error (frag_positions (ff_head_len wf wv ft v) frags) x = Some q -> (q < n <-> (x < j)%nat)) /\
      rd_ftyp rp = ft /\ rd_moov rp = v /\ rd_moofs rp = firstn j (map fg_moof frags) /\
      (forall tid, ~ In tid (map trak_id (moov_traks v)) ->
         forall sid s, run (rd_read_sample m' rp tid sid) s = (Err EData, s)) /\
      forall t, In t (moov_traks v) ->
        let k := trak_id t in
        let fs := file_fragruns k mps in                 (* the fragments of the track in the COMPLETE file *)
        file_fragruns k (firstn j mps) <> [] ->          (* the track has a fragment in the prefix *)
        frag_consistent fs d = true ->
        forall sid p x,
          fst (run (rd_read_sample m' rp k sid) (stream_at (firstn (N.to_nat n) b) p)) = Ok (Some x) ->
          1 <= sid <= lenN (frag_expand (file_fragruns k (firstn j mps)) d) /\
          exists off sz st du ct,
            nthN (frag_expand fs d) (sid - 1) = Some (off, sz, st, du, ct) /\
            Track.sm_start_time x = st /\ Track.sm_duration x = du /\ Track.sm_rendering_offset x = ct /\
            Track.sm_bytes x = firstn (N.to_nat sz) (skipn (N.to_nat off) b) /\
            (sz = 0 \/ off + sz <= n).

Theorem C11_frag_lookup : C11_frag_lookup_statement.
Proof.
  intros m wf wv ft v frags H1 H2 H3 H4 H5 H6 H7 _ H9.
  exact (ff_prefix_lookup m wf wv ft v frags H1 H2 H3 H4 H5 H6 H7 H9).
Qed.
Print Assumptions C11_frag_lookup.

(** the two facts about the specification the direct route rests on *)
Theorem frag_expand_of_more_fragments : forall fs gs d,
  frag_expand (fs ++ gs) d = frag_expand fs d ++ frag_expand gs d.
Proof. exact frag_expand_app. Qed.

Theorem frag_consistent_initial_segment : forall fs gs d,
  frag_consistent (fs ++ gs) d = true -> frag_consistent fs d = true.
Proof. exact frag_consistent_app_l. Qed.

(** ** Non-vacuity: ALL prefixes of the file of [Props/C09Open.v]
    ([ex9_file], 1635 bytes: ftyp, moov (two tracks), moof at 1312 (two samples of track 1 at 1492 and 1495, one of
    track 2 at 1497), mdat, moof at 1501 (a traf of track 2 without a run, one sample of track 1 at 1633), mdat with
    the 16-byte header; every hypothesis of the theorems holds: [ex9_hyps], [ex9_spec]).
    Among the prefix lengths 0..1635 exactly 16 open (any other ends with an error, never a panic, never out of
    fuel): 1312 (ftyp moov), 1484 (the first moof complete), 1492..1501 (the first mdat header complete; its payload
    may be cut), 1617 (the second moof complete), 1633..1635 (the second mdat header complete).
    The number of movie fragments of the reader is the number of moof boxes starting before the cut.
    For the cut at 1634, INSIDE the second fragment's mdat (it cuts the last sample, bytes 1633..1634): the samples
    of the first fragment are the specification's (bytes of the complete file), the cut one is an I/O error.
    For the cut at 1496, inside the first mdat: sample 1 of track 1 is served, sample 2 (1495..1496) and the sample of
    track 2 are I/O errors, sample 3 (second fragment, unknown to this reader) is a data error. *)
Definition c11f_open (n : N) : res mp4reader :=
  fst (run (open_fuel 40 Rel n) (stream_at (firstn (N.to_nat n) ex9_file) 0)).
Definition c11f_read (n : N) (rp : mp4reader) (tid k : N) : res (option Track.sample) :=
  fst (run (rd_read_sample Dbg rp tid k) (stream_at (firstn (N.to_nat n) ex9_file) 0)).

Example C11_frag_prefixes_ex :
  let all := upto (lenN ex9_file + 1) in
  lenN ex9_file = 1635 /\
  frag_positions (ff_head_len false false ex9_ftyp ex9_moov) ex9_frags = [1312; 1501] /\
  filter (fun n => is_ok (c11f_open n)) all
  = [1312; 1484] ++ map N.of_nat (seq 1492 10) ++ [1617; 1633; 1634; 1635] /\
  map (fun n => match c11f_open n with Ok r => Some (lenN (rd_moofs r)) | _ => None end) [1312; 1484; 1492; 1501; 1617; 1633; 1635]
  = [Some 0; Some 1; Some 1; Some 1; Some 2; Some 2; Some 2] /\
  lenN (filter (fun n => match c11f_open n with Err EData => true | _ => false end) all) = 1274 /\
  lenN (filter (fun n => match c11f_open n with Err EIo => true | _ => false end) all) = 346 /\
  frag_expand (file_fragruns 1 ex9_mps) 512 = [(1492, 3, 0, 1000, 0%Z); (1495, 2, 1000, 1000, 0%Z); (1633, 2, 2000, 512, 0%Z)] /\
  frag_expand (file_fragruns 2 ex9_mps) 512 = [(1497, 4, 7, 300, (-1)%Z)] /\
  match c11f_open 1634 with
  | Ok rp =>
      rd_moov rp = ex9_moov /\ rd_moofs rp = map fg_moof ex9_frags /\
      map (c11f_read 1634 rp 1) [0; 1; 2; 3; 4]
      = [ Err EData;
          Ok (Some (Track.mkSample 0 1000 0%Z true [11; 12; 13]));
          Ok (Some (Track.mkSample 1000 1000 0%Z true [21; 22]));
          Err EIo;
          Err EData ] /\
      map (c11f_read 1634 rp 2) [1; 2]
      = [ Ok (Some (Track.mkSample 7 300 (-1)%Z true [31; 32; 33; 34])); Err EData ]
  | _ => False
  end /\
  match c11f_open 1496 with
  | Ok rp =>
      rd_moov rp = ex9_moov /\ rd_moofs rp = [fg_moof (mkFragment (ex9_moof1 ex9_x1) false false ex9_media1)] /\
      map (c11f_read 1496 rp 1) [1; 2; 3]
      = [ Ok (Some (Track.mkSample 0 1000 0%Z true [11; 12; 13])); Err EIo; Err EData ] /\
      map (c11f_read 1496 rp 2) [1; 2] = [ Err EIo; Err EData ]
  | _ => False
  end.
Proof. vm_compute. repeat split; reflexivity. Qed.

(** the theorem applied to the example: whatever sample the reader of ANY prefix that reaches beyond the start of the
    first moof box (1312 < n) returns for track 1, with any fuel, in either build mode, is one of the three the
    specification lists, and lies inside the prefix.  (The prefix of length 1312 = "ftyp moov" opens as an
    unfragmented file and serves track 1 from the sample tables of its trak: the restriction to tracks with a
    fragment in the prefix, first witness of [Props/C11.v].) *)
Definition c11f_view (x : Track.sample) : N * N * Z * bytes :=
  (Track.sm_start_time x, Track.sm_duration x, Track.sm_rendering_offset x, Track.sm_bytes x).

Example C11_frag_prefix_applies : forall m m' n fp rp sp, 1312 < n <= lenN ex9_file ->
  run (open_fuel fp m n) (stream_at (firstn (N.to_nat n) ex9_file) 0) = (Ok rp, sp) ->
  rd_moov rp = ex9_moov /\
  forall k p x,
    fst (run (rd_read_sample m' rp 1 k) (stream_at (firstn (N.to_nat n) ex9_file) p)) = Ok (Some x) ->
    (k = 1 /\ 1495 <= n /\ c11f_view x = (0, 1000, 0%Z, [11; 12; 13])) \/
    (k = 2 /\ 1497 <= n /\ c11f_view x = (1000, 1000, 0%Z, [21; 22])) \/
    (k = 3 /\ 1635 <= n /\ c11f_view x = (2000, 512, 0%Z, [41; 42])).
Proof.
  intros m m' n fp rp sp [Hn1 Hn2] Hp.
  destruct ex9_hyps as (H1 & H2 & H3 & H4 & H5 & H6 & H7 & H8 & H9).
  destruct (C11_frag_lookup m false false ex9_ftyp ex9_moov ex9_frags H1 H2 H3 H4 H5 H6 H7 H8 H9 m' n fp rp sp Hn2 Hp)
    as (j & Hj & Hwhich & _ & Emv & _ & _ & Htr).
  split; [exact Emv|].
  assert (Hj0 : (0 < j)%nat).
  { apply (Hwhich 0%nat 1312); [vm_compute; reflexivity | exact Hn1]. }
  change (length ex9_frags) with 2%nat in Hj.
  specialize (Htr (ex9_trak 1) (or_introl eq_refl)).
  change (trak_id (ex9_trak 1)) with 1 in Htr.
  change (ff_moofs false false ex9_ftyp ex9_moov ex9_frags) with ex9_mps in Htr.
  change (moov_default_sample_duration ex9_moov) with 512 in Htr.
  change (ff_bytes false false ex9_ftyp ex9_moov ex9_frags) with ex9_file in Htr.
  destruct ex9_spec as (_ & _ & _ & _ & C1 & _ & E1 & _).
  cbv zeta in Htr. rewrite E1 in Htr.
  assert (Hne : file_fragruns 1 (firstn j ex9_mps) <> []).
  { assert (Hj12 : j = 1%nat \/ j = 2%nat) by (clear -Hj Hj0; lia).
    destruct Hj12 as [-> | ->]; intros E; vm_compute in E; discriminate E. }
  intros k p x Hx.
  destruct (Htr Hne C1 k p x Hx) as ((Hk1 & _) & off & sz & st & du & ct & En & Est & Edu & Ect & Eb & Hfit).
  unfold c11f_view. rewrite Est, Edu, Ect, Eb. clear Est Edu Ect Eb.
  assert (Hk3 : k = 1 \/ k = 2 \/ k = 3).
  { destruct (N.le_gt_cases k 3) as [L|G]; [clear -Hk1 L; lia|exfalso].
    assert (Hnone : nthN [(1492, 3, 0, 1000, 0%Z); (1495, 2, 1000, 1000, 0%Z); (1633, 2, 2000, 512, 0%Z)] (k - 1) = None).
    { cbn [nthN]. destruct (N.eqb_spec (k - 1) 0) as [E|_]; [exfalso; clear -E G; lia|].
      destruct (N.eqb_spec (k - 1 - 1) 0) as [E|_]; [exfalso; clear -E G; lia|].
      destruct (N.eqb_spec (k - 1 - 1 - 1) 0) as [E|_]; [exfalso; clear -E G; lia|]. reflexivity. }
    rewrite Hnone in En. discriminate En. }
  destruct Hk3 as [-> | [-> | ->]]; vm_compute in En; injection En as <- <- <- <- <-;
    (destruct Hfit as [Hz|Hfit]; [discriminate Hz|]).
  - left. split; [reflexivity|]. split; [exact Hfit|]. vm_compute. reflexivity.
  - right; left. split; [reflexivity|]. split; [exact Hfit|]. vm_compute. reflexivity.
  - right; right. split; [reflexivity|]. split; [exact Hfit|]. vm_compute. reflexivity.
Qed.
