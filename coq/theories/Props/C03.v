(** * Property C03 — sample lookup in non-fragmented files follows the ISO/IEC 14496-12
    sample-table semantics

    Statements only; proofs are in [Proofs/LookupProofs.v].  The specification side
    ([spec_offset], [spec_size], [spec_delta], [spec_start], [spec_cts], [spec_sync],
    [consistent], all from [Spec/SampleTable.v]) reads only the wire fields of the
    tables; the model side is [Model/Track.v] (the lookup functions of [src/track.rs]).
    Both build modes are covered ([m : mode]: [Dbg] panics on overflow, [Rel] wraps);
    table sizes are unbounded. *)
From MP4 Require Import SampleTable LookupProofs.
Open Scope list_scope.
Open Scope N_scope.

(** what the reader builds from the wire tables: [first_sample] is derived as
    [StscBox::read_box] derives it *)
Definition track_of (tb : tables) : option track :=
  match derive_first_samples (t_stsc tb) 1 with
  | Some es =>
      Some (mkTrack 1 (mkTables es (t_stsz_size tb) (t_stsz_count tb) (t_stsz_sizes tb)
                                (t_stco tb) (t_co64 tb) (t_stts tb) (t_ctts tb) (t_stss tb)) [] 0)
  | None => None
  end.

(** Every sample id in [1..count] is looked up as the standard prescribes; ids outside that
    range (any [N], in particular any u32) never yield a sample and never panic. *)
Theorem lookup_sound : forall m tb, consistent tb = true ->
  exists t, track_of tb = Some t /\ sample_count t = t_stsz_count tb /\
    (forall k, 1 <= k <= t_stsz_count tb ->
       exists off sz dl ct,
         spec_offset tb k = Some off /\ spec_size tb k = Some sz /\
         spec_delta tb k = Some dl /\ spec_cts tb k = Some ct /\
         sample_offset m t k = Ok off /\ sample_size t k = Ok sz /\
         sample_time m t k = Ok (spec_start tb k, dl) /\
         sample_rendering_offset t k = ct /\
         is_sync_sample t k = Ok (spec_sync tb k)) /\
    (forall k, k = 0 \/ t_stsz_count tb < k ->
       forall s, match fst (run (read_sample m t k) s) with
                 | Ok (Some _) => False
                 | Panic _ => False
                 | _ => True
                 end).
Proof. exact lk_lookup_sound. Qed.
Print Assumptions lookup_sound.

(** [read_sample] on any stream position over data that holds the sample returns exactly the
    sample the standard describes, with the bytes [data[off .. off+sz)]. *)
Theorem read_sample_sound : forall m tb, consistent tb = true ->
  exists t, track_of tb = Some t /\
    forall k, 1 <= k <= t_stsz_count tb ->
      exists off sz dl ct,
        spec_offset tb k = Some off /\ spec_size tb k = Some sz /\
        spec_delta tb k = Some dl /\ spec_cts tb k = Some ct /\
        forall data pos, off + sz <= lenN data ->
          exists s',
            run (read_sample m t k) (stream_at data pos) =
              (Ok (Some (mkSample (spec_start tb k) dl ct (spec_sync tb k)
                                  (firstn (N.to_nat sz) (skipn (N.to_nat off) data)))), s')
            /\ s_data s' = data /\ s_pos s' = off + sz.
Proof. exact lk_read_sample_sound. Qed.
Print Assumptions read_sample_sound.

(** ** Non-vacuity: concrete consistent table sets *)

(** three stsc runs (5 chunks holding 3,3,1,2,2 samples), per-sample sizes with zero-sized
    samples, 32-bit chunk offsets, stts with an empty run, ctts with negative offsets, stss *)
Definition c03_ex1 : tables :=
  mkTables [mkStsc 1 3 1 0; mkStsc 3 1 1 0; mkStsc 4 2 2 0]
           0 11 [10; 0; 5; 7; 0; 0; 3; 100; 1; 0; 9]
           (Some [100; 115; 122; 1000; 2000]) None
           [(4, 10); (0, 7); (7, 20)]
           (Some [(1, 0%Z); (5, (-2)%Z); (5, 3%Z)])
           (Some [1; 5; 9]).

Example c03_ex1_consistent : consistent c03_ex1 = true.
Proof. vm_compute. reflexivity. Qed.

(** fixed sample size, three stsc runs (3 chunks holding 2,1,4 samples), 64-bit chunk offsets
    above 4 GiB, no ctts, no stss *)
Definition c03_ex2 : tables :=
  mkTables [mkStsc 1 2 1 0; mkStsc 2 1 1 0; mkStsc 3 4 1 0]
           4 7 []
           None (Some [4294967301; 8589934592; 1099511627776])
           [(7, 1000)]
           None
           None.

Example c03_ex2_consistent : consistent c03_ex2 = true.
Proof. vm_compute. reflexivity. Qed.

(** what the specification (and hence, by [lookup_sound], the code) says for them *)
Example c03_ex1_sample8 :
  (spec_offset c03_ex1 8, spec_size c03_ex1 8, spec_start c03_ex1 8, spec_delta c03_ex1 8,
   spec_cts c03_ex1 8, spec_sync c03_ex1 8, spec_sync c03_ex1 9)
  = (Some 1000, Some 100, 100, Some 20, Some 3%Z, false, true).
Proof. vm_compute. reflexivity. Qed.

Example c03_ex1_sample6 :
  (spec_offset c03_ex1 6, spec_size c03_ex1 6, spec_start c03_ex1 6, spec_cts c03_ex1 6)
  = (Some 122, Some 0, 60, Some (-2)%Z).
Proof. vm_compute. reflexivity. Qed.

Example c03_ex1_code :
  option_map (fun t => (sample_offset Dbg t 8, sample_size t 8, sample_time Rel t 8,
                        sample_rendering_offset t 8, is_sync_sample t 9,
                        fst (run (read_sample Dbg t 12) (stream_at [] 0)),
                        fst (run (read_sample Dbg t 0) (stream_at [] 0))))
             (track_of c03_ex1)
  = Some (Ok 1000, Ok 100, Ok (100, 20), 3%Z, Ok true, Ok None, Err EData).
Proof. vm_compute. reflexivity. Qed.

Example c03_ex2_sample7 :
  (spec_offset c03_ex2 7, spec_size c03_ex2 7, spec_start c03_ex2 7, spec_delta c03_ex2 7,
   spec_cts c03_ex2 7, spec_sync c03_ex2 7)
  = (Some (1099511627776 + 12), Some 4, 6000, Some 1000, Some 0%Z, true).
Proof. vm_compute. reflexivity. Qed.
