(** * Property C08 — memory use is bounded by the input length, not by fields in the input

    "Opening an input of n bytes (given with its true length), and reading any of its samples, never
    allocates more than a fixed linear function of n, in total or in a single request: no size,
    count or length field taken from the input is trusted for allocation beyond the data that can
    actually be present."

    Statements only; proofs in [Base/Cost.v], [Proofs/CostLeaf*.v], [Proofs/CostOpen.v],
    [Proofs/CostSample.v] (see C07.v for the reading of [runm] and the meters).

    - [m_alloc_max]: the largest single allocation request ([Vec::with_capacity(n)], [vec![0; n]],
      the growth of [read_to_end]); [m_alloc_sum]: the sum of all requests.  The decoders emit the
      request BEFORE the reads that fill the buffer, as the Rust code does.
    - the constants are explicit numerals: [open_Al = 1224001114112],
      [open_Bl = 4800000000] (generous, see C07.v).
    - the core facts are the per-box ones: every table box compares its entry count with
      [(size - header) / entry_size] before [Vec::with_capacity(count)], so its requests are at
      most [size] (twice [size] where the in-memory entry is larger than the wire entry), and the
      containers compare [size] with the parent's size, hence with the file length.
    - two codec-configuration fields are NOT compared with the box size before the allocation:
      the NAL-unit length of avcC (u16: one request of at most 65 535 bytes, [avcc_cost]) and
      [num_of_arrays] of hvcC (u8: 255 * 32 bytes).  They are bounded by the constants the field
      widths allow; avcC's 18 750 000 is what makes [open_Bl] large.
    - [num_nalus] of an hvcC array (u16, 32 bytes of bookkeeping per unit) IS compared since the fix
      "check the hvcC nal unit count against the box before allocating":
      [2 * num_nalus <= end - position], so that request is at most 16 times the bytes left in the
      box (it used to be 2 MiB from a box of 34 bytes: example [C08_hvcc_count_rejected]), and a
      whole hvcC box requests at most [17 * size + 8160] bytes ([C08_hvcc_linear]). *)
From MP4 Require Import Cost Reader CostLeaf CostLeaf2 CostLeaf3 CostLoop CostCont CostHvcc CostOpen CostSample CostProps.
From MP4 Require Import BoxStts BoxCtts BoxStsc BoxStsz BoxStss BoxStco BoxCo64 BoxElst BoxTrun
     BoxHdlr BoxAvc1 BoxHev1.
From MP4 Require Track.
Open Scope list_scope.
Open Scope N_scope.

Definition C08_statement : Prop :=
  (forall data m fuel, bytes_ok data = true -> lenN data < 2 ^ 62 -> lenN data < N.of_nat fuel ->
     let mt := snd (runm (open_fuel fuel m (lenN data)) (stream_at data 0) (meter0 None)) in
     m_alloc_max mt <= open_Al * lenN data + open_Bl /\ m_alloc_sum mt <= open_Al * lenN data + open_Bl)
  /\ (forall data m rd fuel, bytes_ok data = true -> lenN data < 2 ^ 62 -> lenN data < N.of_nat fuel ->
     let mt := snd (runm (open_fragment_fuel fuel m rd (lenN data)) (stream_at data 0) (meter0 None)) in
     m_alloc_max mt <= open_Al * lenN data + open_Bl /\ m_alloc_sum mt <= open_Al * lenN data + open_Bl)
  /\ (forall m rd tid sid data p,
     let mt := snd (runm (rd_read_sample m rd tid sid) (stream_at data p) (meter0 None)) in
     m_alloc_max mt <= 2 * lenN data + 32 /\ m_alloc_sum mt <= 2 * lenN data + 32).

Theorem C08 : C08_statement.
Proof. exact c08_all. Qed.
Print Assumptions C08.

(** ** The per-box facts: [bnd c W Al] says that from every position of every input, [c] requests
    at most [Al] bytes in total (hence in any single request) and does at most [W] units of work *)
Theorem C08_stts : forall m size, bnd (dec_stts m size) (2 * size + 40) size.
Proof. exact stts_cost. Qed.
Theorem C08_ctts : forall m size, bnd (dec_ctts m size) (2 * size + 40) size.
Proof. exact ctts_cost. Qed.
Theorem C08_stsc : forall m size, bnd (dec_stsc m size) (2 * size + 40) (2 * size).
Proof. exact stsc_cost. Qed.
Theorem C08_stsz : forall m size, bnd (dec_stsz m size) (2 * size + 40) size.
Proof. exact stsz_cost. Qed.
Theorem C08_stss : forall m size, bnd (dec_stss m size) (2 * size + 40) size.
Proof. exact stss_cost. Qed.
Theorem C08_stco : forall m size, bnd (dec_stco m size) (2 * size + 40) size.
Proof. exact stco_cost. Qed.
Theorem C08_co64 : forall m size, bnd (dec_co64 m size) (2 * size + 40) size.
Proof. exact co64_cost. Qed.
Theorem C08_elst : forall m size, bnd (dec_elst m size) (2 * size + 40) (2 * size).
Proof. exact elst_cost. Qed.
Theorem C08_trun : forall m size, bnd (dec_trun m size) (2 * size + 40) size.
Proof. exact trun_cost. Qed.
Theorem C08_hdlr : forall m size, bnd (dec_hdlr m size) (size + 400) size.
Proof. exact hdlr_cost. Qed.
(** the codec boxes, from ANY position of ANY input: constants of the field widths *)
Theorem C08_avcc : forall m size, bnd (dec_avcc m size) 18750000 18750000.
Proof. exact avcc_cost. Qed.
Theorem C08_hvcc : forall m size, bnd (dec_hvcc m size) hvcc_W hvcc_A.
Proof. exact hvcc_cost. Qed.

(** hvcC and hev1 called where the readers call them (at [p], right after a header that announced
    [size], inside data shorter than 2^62): the requests are linear in the announced size, with the
    255 * 32 bytes of the unchecked [num_of_arrays] as the constant.  [mrun c d p] is the metered
    run of [c] on data [d] from position [p]: result, final position, cost. *)
Theorem C08_hvcc_linear : forall d m p size,
  bytes_ok d = true -> lenN d < 2 ^ 62 -> 8 <= p -> p <= lenN d -> size < 2 ^ 62 ->
  let '(r, _, k) := mrun (dec_hvcc m size) d p in
  r <> OutOfFuel /\ cwork k <= 3 * size + 1600 /\ c_amax k <= 17 * size + 8160 /\ c_asum k <= 17 * size + 8160.
Proof.
  intros d m p size Hd Hl H8 Hp Hs. pose proof (hvcc_spec d Hd Hl m p size H8 Hp Hs) as H.
  pose proof (mrun_amax_le_asum (dec_hvcc m size) d p) as Hm.
  unfold ispec in H. destruct (mrun (dec_hvcc m size) d p) as [[r p'] k]. cbn [snd] in Hm.
  destruct H as (H1 & H2 & H3 & _). repeat split; auto. now apply (N.le_trans _ _ _ Hm).
Qed.
Theorem C08_hev1_linear : forall d m p size,
  bytes_ok d = true -> lenN d < 2 ^ 62 -> 8 <= p -> p <= lenN d -> size < 2 ^ 62 ->
  let '(r, _, k) := mrun (dec_hev1 m size) d p in
  r <> OutOfFuel /\ cwork k <= 3 * size + 1800 /\ c_amax k <= 17 * size + 8160 /\ c_asum k <= 17 * size + 8160.
Proof.
  intros d m p size Hd Hl H8 Hp Hs. pose proof (hev1_spec d Hd Hl m p size H8 Hp Hs) as H.
  pose proof (mrun_amax_le_asum (dec_hev1 m size) d p) as Hm.
  unfold ispec in H. destruct (mrun (dec_hev1 m size) d p) as [[r p'] k]. cbn [snd] in Hm.
  destruct H as (H1 & H2 & H3 & _). repeat split; auto. now apply (N.le_trans _ _ _ Hm).
Qed.
Print Assumptions C08_hvcc_linear.
Print Assumptions C08_hev1_linear.

(** what a [bnd] gives for the single largest request *)
Theorem C08_single_request : forall {A} (c : prog A) W Al d p,
  bnd c W Al -> bytes_ok d = true -> c_amax (snd (mrun c d p)) <= Al.
Proof. exact @bnd_amax. Qed.

(** ** Non-vacuity *)
Example C08_open_test_file :
  let data := reader_test_file in
  let mt := snd (runm (open_fuel 886 Dbg (lenN data)) (stream_at data 0) (meter0 None)) in
  lenN data = 885 /\ m_alloc_max mt = 48 /\ m_alloc_sum mt = 170.
Proof. vm_compute. repeat split; reflexivity. Qed.

(** a 20-byte stts box announcing 2^32 - 1 entries is rejected before any allocation *)
Example C08_stts_huge_count :
  let data := be 4 20 ++ be 4 0x73747473 ++ [0; 0; 0; 0] ++ be 4 4294967295 ++ [0; 0; 0; 0] in
  let '(r, _, mt) := runm (h <- read_header ;; dec_stts Dbg (snd h)) (stream_at data 0) (meter0 None) in
  r = Err EData /\ m_alloc_sum mt = 0.
Proof. vm_compute. split; reflexivity. Qed.

(** reading sample 2 (20 bytes) of the test file requests 72 bytes *)
Example C08_read_sample_test_file :
  match fst (fst (runm (open_fuel 886 Dbg 885) (stream_at reader_test_file 0) (meter0 None))) with
  | Ok rd =>
      let mt := snd (runm (rd_read_sample Dbg rd 1 2) (stream_at reader_test_file 0) (meter0 None)) in
      m_alloc_max mt = 72 /\ m_alloc_sum mt = 72
  | _ => False
  end.
Proof. vm_compute. split; reflexivity. Qed.

(** regression (fix "check the hvcC nal unit count against the box before allocating"): a 34-byte
    hvcC box whose single array announces 65 535 NAL units used to make [Vec::with_capacity]
    request 2 097 120 bytes before the first read failed.  The count is now compared with the bytes
    left in the box (2 bytes per NAL unit at least): the box is rejected as invalid data and the
    only request is the 32 bytes of the one-element [arrays] vector; nothing is requested for the
    NAL units. *)
Example C08_hvcc_count_rejected :
  let data := be 4 34 ++ be 4 0x68766343 ++ repeatN 0 22 ++ [1] ++ [0] ++ [255; 255] in
  let '(r, _, mt) := runm (h <- read_header ;; dec_hvcc Dbg (snd h)) (stream_at data 0) (meter0 None) in
  lenN data = 34 /\ r = Err EData /\ m_alloc_max mt = 32 /\ m_alloc_sum mt = 32.
Proof. vm_compute. repeat split; reflexivity. Qed.

(** the count that exactly fits is accepted: 3 NAL units of length 0 in the 6 bytes left *)
Example C08_hvcc_count_fits :
  let data := be 4 40 ++ be 4 0x68766343 ++ repeatN 0 22 ++ [1] ++ [0] ++ [0; 3] ++ repeatN 0 6 in
  let '(r, _, mt) := runm (h <- read_header ;; dec_hvcc Dbg (snd h)) (stream_at data 0) (meter0 None) in
  lenN data = 40 /\ is_ok r = true /\ m_alloc_max mt = 96 /\ m_alloc_sum mt = 128.
Proof. vm_compute. repeat split; reflexivity. Qed.

(** the avcC constant is attained: a 16-byte avcC box with one SPS of announced length 65 535
    requests 65 535 bytes (then the read fails).  It is within [open_Bl]. *)
Example C08_avcc_overallocation :
  let data := be 4 16 ++ be 4 0x61766343 ++ [1; 100; 0; 31; 255; 225] ++ [255; 255] in
  let '(r, _, mt) := runm (h <- read_header ;; dec_avcc Dbg (snd h)) (stream_at data 0) (meter0 None) in
  lenN data = 16 /\ r = Err EIo /\ m_alloc_max mt = 65535 /\ m_alloc_sum mt = 65559.
Proof. vm_compute. repeat split; reflexivity. Qed.
