(** Property C08 — placeholder until the allocation proofs land *)
From MP4 Require Import Loop.
