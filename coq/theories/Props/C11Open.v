(** Property C11 (truncated files) composed with C01 and with C03 — statements only; proofs in Proofs/MuxPrefix.v.

    [Props/C11.v] ([truncated_unfragmented]) relates the reader of a prefix to "the reader of the complete file", with
    the same fuel on both sides, the same build mode for opening and reading, and two hypotheses about [top_boxes].
    Here those hypotheses are discharged for the two families of valid files the development describes, the prefix
    is opened with ANY fuel, and the conclusion speaks of the muxing HISTORY / the sample-table SPECIFICATION:

    - [C11_mux_prefix_statement]: under exactly the hypotheses of [C01_open_statement] (Props/C01Open.v), whatever a
      reader opened on ANY prefix of the muxer's bytes returns as a sample IS that sample of the history.
      [C11_mux_prefix_reader_statement]: that reader has the movie, the ftyp and the track map of the reader of the
      complete output, and no fragments.
      The muxer writes ftyp, mdat, moov: the moov is last.  Evaluation ([C11_mux_prefixes_ex]) shows that for the
      history of C01's example the ONLY prefix that opens is the complete output (every proper prefix fails with an
      error, none panics), so for the muxer's layout the theorem says something only for [n = |b|] (any fuel) —
      unless some proper prefix of some muxer output opens, which is NOT excluded by a proof here (see the report of
      this task: "every proper prefix of the muxer's output fails to open" is true on the example and unproved in
      general; it needs that the moov decoder reads every byte of its box).
    - [C11_file_prefix_statement]: under exactly the hypotheses of [C03_open_statement] (Props/C03Open.v; files
      ftyp, moov, mdat or ftyp, mdat, moov, each box in either header form, the moov the ISO rendering of any
      well-formed movie with consistent tables), for every prefix that opens (any fuel; reading in any build mode):
      its reader has the ftyp, the movie and the track ids of the file, and every sample it returns is the sample
      the specification describes for that track and id — start time, duration, composition offset, sync flag —
      with the bytes of the COMPLETE file at the specified offset, and that byte range lies inside the prefix.
      With the moov before the mdat proper prefixes do open ([C11_file_prefixes_ex]). *)
From MP4 Require Import Hoare Reader GenericProofs GenericPrefix.
From MP4 Require Import MuxMoovDefs MuxMoovConf MuxInv MuxTotal MuxOpen MuxOpenKit LayoutKit RtMoov RtFtyp IsoFtyp IsoMoov FileLookup.
From MP4 Require Import C01Open C03Open C11 MuxPrefix.
Open Scope string_scope.
Open Scope list_scope.
Open Scope N_scope.

(** ** Part 1: every prefix of what the muxer wrote *)
Definition C11_mux_prefix_statement : Prop := forall m m' cfg ops cls f mv,
  run_mux m 0 cfg ops = Ok (cls, f) -> ops_typed ops = true -> lenN (added_confs ops) < U32MAX ->
  mp4_conf_rep cfg = true -> forallb conf_rep (added_confs ops) = true ->
  moov_of_mfinal m f = Ok mv -> moov_size mv < U32 -> lenN (mf_out f) + moov_size mv < 2 ^ 63 ->
  let b := mf_out f ++ wout (enc_moov m mv) in
  forall n fp rp sp, n <= lenN b ->
    run (open_fuel fp m' n) (stream_at (firstn (N.to_nat n) b) 0) = (Ok rp, sp) ->
    forall tid k p x,
      fst (run (rd_read_sample m' rp tid k) (stream_at (firstn (N.to_nat n) b) p)) = Ok (Some x) ->
      exists i c s, nth_error (added_confs ops) i = Some c /\ tid = N.of_nat i + 1 /\
        let ss := accepted_samples ops cls tid in
        nth1 ss k = Some s /\
        x = mkSample (sumN (map ws_duration (firstn (N.to_nat (k - 1)) ss))) (ws_duration s) (ws_rendering_offset s)
                     (ws_is_sync s) (ws_bytes s).

Theorem C11_mux_prefix : C11_mux_prefix_statement.
Proof. exact mux_prefix_readback. Qed.
Print Assumptions C11_mux_prefix.

(** the first half on its own: [r] is the reader of the complete output (the one of [C01_open_statement]) *)
Definition C11_mux_prefix_reader_statement : Prop := forall m m' cfg ops cls f mv,
  run_mux m 0 cfg ops = Ok (cls, f) -> ops_typed ops = true -> lenN (added_confs ops) < U32MAX ->
  mp4_conf_rep cfg = true -> forallb conf_rep (added_confs ops) = true ->
  moov_of_mfinal m f = Ok mv -> moov_size mv < U32 -> lenN (mf_out f) + moov_size mv < 2 ^ 63 ->
  let b := mf_out f ++ wout (enc_moov m mv) in
  exists r,
    (forall fuel, (N.to_nat (lenN b) + 2 <= fuel)%nat ->
       run (open_fuel fuel m' (lenN b)) (stream_at b 0) = (Ok r, stream_at b (lenN b))) /\
    rd_ftyp r = ftyp_of_conf cfg /\ rd_moofs r = [] /\
    forall n fp rp sp, n <= lenN b ->
      run (open_fuel fp m' n) (stream_at (firstn (N.to_nat n) b) 0) = (Ok rp, sp) ->
      rd_moov rp = rd_moov r /\ rd_ftyp rp = rd_ftyp r /\ rd_tracks rp = rd_tracks r /\ rd_moofs rp = [].

Theorem C11_mux_prefix_reader : C11_mux_prefix_reader_statement.
Proof. exact mux_prefix_reader_c01. Qed.
Print Assumptions C11_mux_prefix_reader.

(** Non-vacuity and what evaluation says about the muxer's layout: for the history of [C01_open_hypotheses]
    ([exo_cfg], [exo_ops]: every hypothesis holds, see there) the output has 1174 bytes; among ALL prefix lengths
    0..1174 (opened in the other build mode, with the fuel of the drivers) exactly one opens: the complete output;
    every proper prefix ends with an error (1103 times a data error, 71 times an I/O error), never a panic and never
    out of fuel; and through the reader of the complete output, obtained with a fuel other than the drivers', the
    samples are the history's. *)
Definition c11o_open (b : bytes) (fuel : nat) (n : N) : res mp4reader :=
  fst (run (open_fuel fuel Rel n) (stream_at (firstn (N.to_nat n) b) 0)).

Example C11_mux_prefixes_ex :
  match mux_bytes Dbg 0 exo_cfg exo_ops with
  | Ok (_, b) =>
      let all := upto (lenN b + 1) in
      let fuel := (N.to_nat (lenN b) + 2)%nat in
      lenN b = 1174 /\
      filter (fun n => is_ok (c11o_open b fuel n)) all = [lenN b] /\
      lenN (filter (fun n => match c11o_open b fuel n with Err EData => true | _ => false end) all) = 1103 /\
      lenN (filter (fun n => match c11o_open b fuel n with Err EIo => true | _ => false end) all) = 71 /\
      match c11o_open b 40 (lenN b) with
      | Ok rp =>
          map (fun k => fst (run (rd_read_sample Rel rp 1 k) (stream_at b 0))) [1; 2; 3; 4] =
            [Ok (Some (mkSample 0 3000 0 true [1; 2; 3]));
             Ok (Some (mkSample 3000 3001 1500 false [4]));
             Ok (Some (mkSample 6001 2999 0 false [5; 6]));
             Ok None]
      | _ => False
      end
  | _ => False
  end.
Proof. vm_compute. repeat split; reflexivity. Qed.

(** ** Part 2: every prefix of an ISO rendering *)
Definition C11_file_prefix_statement : Prop :=
  forall (m m' : mode) (mdat_first wf wv wd : bool) (ft : ftyp) (v : moov) (media : bytes),
  ftyp_wf ft = true -> ftyp_size ft < U32 -> moov_rt_wf v = true -> moov_size v < U32 ->
  NoDup (map trak_id (moov_traks v)) -> ~ In 0 (map trak_id (moov_traks v)) ->
  (forall t, In t (moov_traks v) -> consistent (stbl_tables (minf_stbl (mdia_minf (trak_mdia t)))) = true) ->
  let cf := mkChild wf 0x66747970 (iso_ftyp_payload ft) in
  let cv := mkChild wv 0x6d6f6f76 (iso_moov_payload v) in
  let cd := mkChild wd 0x6d646174 media in
  let b := render (if mdat_first then [cf; cd; cv] else [cf; cv; cd]) in
  lenN b < 2 ^ 63 -> child_wf cd ->
  forall n fp rp sp, n <= lenN b ->
    run (open_fuel fp m n) (stream_at (firstn (N.to_nat n) b) 0) = (Ok rp, sp) ->
    (rd_ftyp rp = ft /\ rd_moov rp = v /\ map fst (rd_tracks rp) = map trak_id (moov_traks v)) /\
    forall tid k p x,
      fst (run (rd_read_sample m' rp tid k) (stream_at (firstn (N.to_nat n) b) p)) = Ok (Some x) ->
      exists t, In t (moov_traks v) /\ tid = trak_id t /\
        let tb := stbl_tables (minf_stbl (mdia_minf (trak_mdia t))) in
        1 <= k <= t_stsz_count tb /\
        exists off sz dl ct,
          spec_offset tb k = Some off /\ spec_size tb k = Some sz /\
          spec_delta tb k = Some dl /\ spec_cts tb k = Some ct /\
          (sz = 0 \/ off + sz <= n) /\
          x = mkSample (spec_start tb k) dl ct (spec_sync tb k) (firstn (N.to_nat sz) (skipn (N.to_nat off) b)).

Theorem C11_file_prefix : C11_file_prefix_statement.
Proof. exact file_prefix_lookup. Qed.
Print Assumptions C11_file_prefix.

(** Non-vacuity: the first track of C03's example ([c03o_stbl1]: three samples of 4, 3, 2 bytes in two chunks, two
    stsc runs, ctts, stss) in a file "ftyp, moov, mdat" — the movie header BEFORE the data; the media are the nine
    bytes 1..9 at offsets 714..722.  Every hypothesis of the theorem holds.  All prefix lengths 0..723: a prefix
    opens iff the moov is complete and the mdat header is not cut (length 706 = ftyp + moov, and 714..723); the
    number of sample calls among ids 1..4 that succeed grows with the prefix ("no sample 4" always succeeds), and
    for the prefix of length 722, which cuts the LAST sample: opening succeeds, samples 1 and 2 are the
    specification's (bytes of the complete file), sample 3 is an I/O error. *)
Definition c11o_stbl : stbl :=
  mkStbl (stbl_stsd c03o_stbl1) (stbl_stts c03o_stbl1) (stbl_ctts c03o_stbl1) (stbl_stss c03o_stbl1)
         (stbl_stsc c03o_stbl1) (stbl_stsz c03o_stbl1) (Some (mkStco 0 0 [714; 721])) None.
Definition c11o_moov : moov := mkMoov mvhd_default None None [c03o_trak 1 None c11o_stbl] None.
Definition c11o_media : bytes := [1; 2; 3; 4; 5; 6; 7; 8; 9].
Definition c11o_file : bytes :=
  render [mkChild false 0x66747970 (iso_ftyp_payload c03o_ftyp);
          mkChild false 0x6d6f6f76 (iso_moov_payload c11o_moov);
          mkChild false 0x6d646174 c11o_media].

Example C11_file_prefix_hypotheses :
  ftyp_wf c03o_ftyp = true /\ ftyp_size c03o_ftyp < U32 /\ moov_rt_wf c11o_moov = true /\ moov_size c11o_moov < U32 /\
  map trak_id (moov_traks c11o_moov) = [1] /\
  forallb (fun t => consistent (stbl_tables (minf_stbl (mdia_minf (trak_mdia t))))) (moov_traks c11o_moov) = true /\
  lenN c11o_file < 2 ^ 63 /\ child_wf (mkChild false 0x6d646174 c11o_media).
Proof. vm_compute. repeat split; reflexivity. Qed.

Definition c11o_fopen (n : N) : res mp4reader :=
  fst (run (open_fuel 60 Dbg n) (stream_at (firstn (N.to_nat n) c11o_file) 0)).
Definition c11o_fread (n : N) (rp : mp4reader) (k : N) : res (option Track.sample) :=
  fst (run (rd_read_sample Rel rp 1 k) (stream_at (firstn (N.to_nat n) c11o_file) 0)).
(** number of calls among sample ids 1..4 that succeed through the reader of the prefix of length [n] *)
Definition c11o_readable (n : N) : option N :=
  match c11o_fopen n with
  | Ok rp => Some (lenN (filter (fun k => is_ok (c11o_fread n rp k)) [1; 2; 3; 4]))
  | _ => None
  end.

Example C11_file_prefixes_ex :
  let tb := stbl_tables c11o_stbl in
  lenN c11o_file = 723 /\
  map c11o_readable (upto (lenN c11o_file + 1))
  = repeat None 706 ++ [Some 1] ++ repeat None 7 ++ repeat (Some 1) 4 ++ repeat (Some 2) 3 ++ repeat (Some 3) 2 ++ [Some 4] /\
  map (fun k => (spec_offset tb k, spec_size tb k, spec_start tb k, spec_delta tb k, spec_cts tb k, spec_sync tb k)) [1; 2; 3]
  = [(Some 714, Some 4, 0, Some 100, Some 0%Z, true);
     (Some 718, Some 3, 100, Some 100, Some 7%Z, false);
     (Some 721, Some 2, 200, Some 50, Some 7%Z, true)] /\
  match c11o_fopen 722 with
  | Ok rp =>
      rd_moov rp = c11o_moov /\ map fst (rd_tracks rp) = [1] /\
      map (c11o_fread 722 rp) [1; 2; 3; 4] =
        [Ok (Some (mkSample 0 100 0 true [1; 2; 3; 4]));
         Ok (Some (mkSample 100 100 7 false [5; 6; 7]));
         Err EIo;
         Ok None]
  | _ => False
  end.
Proof. vm_compute. repeat split; reflexivity. Qed.

(** the theorem applied to the example: whatever sample the reader of ANY prefix returns for track 1, in either
    build mode, with any fuel, is one of the three the specification lists above *)
Example C11_file_prefix_applies : forall m m' n fp rp sp, n <= lenN c11o_file ->
  run (open_fuel fp m n) (stream_at (firstn (N.to_nat n) c11o_file) 0) = (Ok rp, sp) ->
  rd_moov rp = c11o_moov /\
  forall k p x,
    fst (run (rd_read_sample m' rp 1 k) (stream_at (firstn (N.to_nat n) c11o_file) p)) = Ok (Some x) ->
    (k = 1 /\ 718 <= n /\ x = mkSample 0 100 0 true [1; 2; 3; 4]) \/
    (k = 2 /\ 721 <= n /\ x = mkSample 100 100 7 false [5; 6; 7]) \/
    (k = 3 /\ 723 <= n /\ x = mkSample 200 50 7 true [8; 9]).
Proof.
  intros m m' n fp rp sp Hn Hp.
  destruct C11_file_prefix_hypotheses as (H1 & H2 & H3 & H4 & H5 & H6 & H7 & H8).
  destruct (C11_file_prefix m m' false false false false c03o_ftyp c11o_moov c11o_media H1 H2 H3 H4) with (n := n) (fp := fp) (rp := rp) (sp := sp)
    as ((_ & Hmv & _) & Hs).
  - rewrite H5. constructor; [intros []|constructor].
  - rewrite H5. intros [E|[]]; discriminate E.
  - rewrite forallb_forall in H6. exact H6.
  - exact H7.
  - exact H8.
  - exact Hn.
  - exact Hp.
  - split; [exact Hmv|]. intros k p x Hx.
    destruct (Hs 1 k p x Hx) as (t & Hin & _ & Hk & off & sz & dl & ct & E1 & E2 & E3 & E4 & Hfit & ->).
    destruct Hin as [<-|[]].
    change (t_stsz_count (stbl_tables (minf_stbl (mdia_minf (trak_mdia (c03o_trak 1 None c11o_stbl)))))) with 3 in Hk.
    assert (Hk3 : k = 1 \/ k = 2 \/ k = 3) by (clear -Hk; lia).
    destruct Hk3 as [-> | [-> | ->]]; vm_compute in E1, E2, E3, E4;
      injection E1 as <-; injection E2 as <-; injection E3 as <-; injection E4 as <-;
      (destruct Hfit as [Hz|Hfit]; [discriminate Hz|]).
    + left. split; [reflexivity|]. split; [exact Hfit|]. vm_compute. reflexivity.
    + right; left. split; [reflexivity|]. split; [exact Hfit|]. vm_compute. reflexivity.
    + right; right. split; [reflexivity|]. split; [exact Hfit|]. vm_compute. reflexivity.
Qed.
