(** * Property C12 — the physical layout of a file does not change what it opens to

    "Two files that encode the same logical movie but differ in physical layout — unknown or
    free boxes inserted at the top level or inside any container that iterates over its
    children, sibling boxes whose order carries no meaning in a different order, 64-bit instead
    of 32-bit size headers, spare bytes after the last field of a fixed-layout or table box —
    open to the same tracks, metadata and per-sample results, with sample offsets shifted by
    exactly the layout change."

    Statements only; proofs in [Proofs/LayoutKit.v] (generic mechanisms), [Proofs/LayoutTailFixed.v],
    [Proofs/LayoutTailTbl.v] (spare bytes, per box), [Proofs/LayoutProofs.v] (stbl, minf, mdia, trak,
    moov), [Proofs/LayoutMore.v] (udta, mvex, dinf, moof, traf), [Proofs/LayoutOpen.v] (the reader
    loop) and [Proofs/LayoutShift.v] (sample offsets follow the media data).

    Vocabulary ([LayoutKit.v]).  A [child] is a header form ([c_w64]: 16-byte [size = 1] +
    [largesize] header instead of the 8-byte one), a type code and a payload; [c_bytes c] is its
    rendering, [c_len c] the length of the rendering, [c_s c = 8 + |payload|] the size
    [BoxHeader::read] reports for it in EITHER form (it subtracts 8 from a largesize), which is
    the [size] every [read_box] is called with.  [render cs] concatenates renderings.
    [child_wf c]: the code is a u32 and the size fits the header form.

    What is proved, per mechanism:
    - (i)   [hdr64_*]: 64-bit headers (generic in the decoder; instances for 13 leaf boxes);
    - (ii)  [*_skip_unknown]: a child the dispatch hands to [skip_box] (any type the container
            does not know, in particular [free] and every code outside the [boxtype!] table)
            is consumed, accumulator unchanged, loop continues at its end: generic in
            [children_loop_gen], instances for the reader loops and ten containers;
    - (iii) [*_tail_ignored]: spare bytes after the last field, 5 fixed-layout and 7 table boxes;
    - (iv)  [*_order_irrelevant]: two consecutive children of different types commute;
    - [dec_*_children] / [layout_invariance_*] for stbl, minf, mdia, trak, moov: the container
      decodes to a function of the FOLD of its children's items, and two renderings whose item
      sequences differ by skipped children and swaps of different-typed neighbours (the header
      forms, the spare bytes, and the layouts INSIDE nested containers being arbitrary on both
      sides) decode to the same value and end at their respective ends;
    - [*_child_*]: the leaves (either header, spare bytes) and the nested containers are such
      children, so the theorems compose from stbl up to moov and to the file;
    - [open_is_a_fold] / [layout_invariance_top_level]: the same for [Mp4Reader::read_header];
    - [sample_offsets_shift_with_the_data], [read_sample_follows_the_data]: when the chunk
      offsets are rewritten by the displacement of the media data, every sample offset moves by
      exactly that displacement and the same samples are read.
    [ex12_two_files] is a complete pair of files (replayed on the Rust code: same result).
    The end-to-end theorem over box trees is in [Props/C12Tree.v] (the vocabulary [btree], [lstep], [C12_statement] is defined at the end of this
    file); what is FALSE is in the section "Limits" ([*_refuted]). *)
From MP4 Require Import LayoutKit LayoutTailFixed LayoutTailTbl LayoutProofs LayoutMore LayoutOpen LayoutShift Reader.
From MP4 Require Track.
From MP4 Require Import RtFtyp IsoFtyp.
From Coq Require Import Relations.
From MP4 Require Import RtMvhd RtTkhd RtMdhd RtVmhd RtSmhd RtHdlr RtStts RtCtts RtStsc RtStsz RtStss RtStco RtCo64.
From MP4 Require Import IsoTkhd IsoMdhd IsoVmhd IsoSmhd IsoHdlr IsoStts IsoCtts IsoStsc IsoStsz IsoStss IsoStco IsoCo64.
Open Scope string_scope.
Open Scope list_scope.
Open Scope N_scope.

(** ** (i) 64-bit size headers *)

(** [BoxHeader::read] on the 16-byte form returns the type and [8 + |payload|], leaves the
    stream 16 bytes further, and [box_start] there is [position - 8] = start of the box + 8:
    [box_start + size] is the end of the box, as for the 8-byte form. *)
Theorem hdr64_read_header_box_start : forall code payload post m d l p,
  code < U32 -> 16 + lenN payload < U64 ->
  run (h <- read_header ;; st <- box_start m ;; Ret (h, st))
      (mkStream d l p (be 4 1 ++ be 4 code ++ be 8 (16 + lenN payload) ++ payload ++ post))
  = (Ok ((boxtype_of_u32 code, 8 + lenN payload), p + 8), mkStream d l (p + 16) (payload ++ post)).
Proof.
  intros code payload post m d l p Hc Hn.
  pose proof (hdr64_header_and_start code payload post m d l p Hc Hn) as H.
  unfold hdr64 in H. rewrite <- !app_assoc in H. exact H.
Qed.
Print Assumptions hdr64_read_header_box_start.

(** Any decoder whose decoding lemma is generic in the position (the form every round-trip
    theorem has) decodes the 16-byte-header rendering to the same value and ends exactly after
    the payload. *)
Theorem hdr64_any_decoder : forall X (dec : mode -> N -> prog X) code payload v m d l p post,
  (forall m d l p post, p + (8 + lenN payload) < 2 ^ 63 ->
     run (dec m (8 + lenN payload)) (mkStream d l (p + 8) (payload ++ post))
     = (Ok v, mkStream d l (p + (8 + lenN payload)) post)) ->
  code < U32 -> p + 16 + lenN payload < 2 ^ 63 ->
  run (h <- read_header ;; dec m (snd h))
      (mkStream d l p ((be 4 1 ++ be 4 code ++ be 8 (16 + lenN payload)) ++ payload ++ post))
  = (Ok v, mkStream d l (p + 16 + lenN payload) post).
Proof. intros X dec code payload v m d l p post. exact (hdr64_leaf dec code payload v m d l p post). Qed.
Print Assumptions hdr64_any_decoder.

(** For a box with a round-trip theorem: the 64-bit rendering and the encoder's own output
    decode to the same value; the first ends 8 bytes later than the second. *)
Theorem hdr64_roundtrip_boxes : forall X wf size code enc (dec : mode -> N -> prog X) payload,
  leaf_roundtrip wf size code enc dec payload -> code < U32 ->
  forall v, wf v = true -> size v < U32 ->
  forall m d l p post, p + 8 + size v < 2 ^ 63 ->
    run (h <- read_header ;; dec m (snd h))
        (mkStream d l p (hdr64 code (lenN (payload v)) ++ payload v ++ post))
    = (Ok v, mkStream d l (p + 8 + size v) post)
    /\ run (h <- read_header ;; dec m (snd h)) (mkStream d l p (wout (enc v) ++ post))
       = (Ok v, mkStream d l (p + size v) post).
Proof. intros X wf size code enc dec payload. exact (hdr64_equiv wf size code enc dec payload). Qed.
Print Assumptions hdr64_roundtrip_boxes.

(** instances *)
Definition hdr64_stmt {X} (wf : X -> bool) (size : X -> N) (code : N) (enc : X -> wprog N)
           (dec : mode -> N -> prog X) (payload : X -> bytes) : Prop :=
  forall v, wf v = true -> size v < U32 ->
  forall m d l p post, p + 8 + size v < 2 ^ 63 ->
    run (h <- read_header ;; dec m (snd h))
        (mkStream d l p (hdr64 code (lenN (payload v)) ++ payload v ++ post))
    = (Ok v, mkStream d l (p + 8 + size v) post)
    /\ run (h <- read_header ;; dec m (snd h)) (mkStream d l p (wout (enc v) ++ post))
       = (Ok v, mkStream d l (p + size v) post).

Theorem hdr64_mvhd : hdr64_stmt mvhd_wf mvhd_size 0x6d766864 enc_mvhd dec_mvhd mvhd_payload.
Proof. exact mvhd_hdr64. Qed.
Theorem hdr64_tkhd : hdr64_stmt tkhd_wf tkhd_size 0x746b6864 enc_tkhd dec_tkhd iso_tkhd_payload.
Proof. exact tkhd_hdr64. Qed.
Theorem hdr64_mdhd : hdr64_stmt mdhd_wf mdhd_size 0x6d646864 enc_mdhd dec_mdhd iso_mdhd_payload.
Proof. exact mdhd_hdr64. Qed.
Theorem hdr64_vmhd : hdr64_stmt vmhd_wf vmhd_size 0x766d6864 enc_vmhd dec_vmhd iso_vmhd_payload.
Proof. exact vmhd_hdr64. Qed.
Theorem hdr64_smhd : hdr64_stmt smhd_wf smhd_size 0x736d6864 enc_smhd dec_smhd iso_smhd_payload.
Proof. exact smhd_hdr64. Qed.
Theorem hdr64_hdlr : hdr64_stmt hdlr_wf hdlr_size 0x68646c72 enc_hdlr dec_hdlr iso_hdlr_payload.
Proof. exact hdlr_hdr64. Qed.
Theorem hdr64_stts : hdr64_stmt stts_wf stts_size 0x73747473 enc_stts dec_stts iso_stts_payload.
Proof. exact stts_hdr64. Qed.
Theorem hdr64_ctts : hdr64_stmt ctts_wf ctts_size 0x63747473 enc_ctts dec_ctts iso_ctts_payload.
Proof. exact ctts_hdr64. Qed.
Theorem hdr64_stsc : hdr64_stmt stsc_wf stsc_size 0x73747363 enc_stsc dec_stsc iso_stsc_payload.
Proof. exact stsc_hdr64. Qed.
Theorem hdr64_stsz : hdr64_stmt stsz_wf stsz_size 0x7374737a enc_stsz dec_stsz iso_stsz_payload.
Proof. exact stsz_hdr64. Qed.
Theorem hdr64_stss : hdr64_stmt stss_wf stss_size 0x73747373 enc_stss dec_stss iso_stss_payload.
Proof. exact stss_hdr64. Qed.
Theorem hdr64_stco : hdr64_stmt stco_wf stco_size 0x7374636f enc_stco dec_stco iso_stco_payload.
Proof. exact stco_hdr64. Qed.
Theorem hdr64_co64 : hdr64_stmt co64_wf co64_size 0x636f3634 enc_co64 dec_co64 iso_co64_payload.
Proof. exact co64_hdr64. Qed.
Print Assumptions hdr64_mvhd.
Print Assumptions hdr64_stco.

(** ** (ii) unknown and free boxes are skipped *)

(** The one loop behind every [while current < end { header; guards; dispatch }]: whatever the
    guard configuration, the end, the final projection and the accumulator type, a child (in
    either header form, with any payload that fits the parent) whose type [dispatch] hands to
    [skip_box] costs one unit of fuel, leaves the accumulator unchanged, and the loop goes on
    at the child's end — the position later boxes see as their [current]. *)
Theorem skip_unknown_generic : forall Acc R fuel m cs cz end_
    (dispatch : nat -> N -> boxtype -> N -> Acc -> prog Acc) (fin : Acc -> N -> R) acc c rest d l p,
  (forall f cur s a, dispatch f cur (boxtype_of_u32 (c_code c)) s a = (skip_box m s ;;; Ret a)) ->
  child_wf c -> p < end_ ->
  match cs with Some size => c_s c <= size | None => True end ->
  p + c_len c < 2 ^ 63 ->
  run (children_loop_gen (S fuel) m cs cz end_ dispatch fin acc p) (mkStream d l p (c_bytes c ++ rest))
  = run (children_loop_gen fuel m cs cz end_ dispatch fin acc (p + c_len c))
        (mkStream d l (p + c_len c) rest).
Proof. intros Acc R fuel m cs cz end_ dispatch fin acc c rest d l p. exact (loop_gen_skip fuel m cs cz end_ dispatch fin acc c rest d l p). Qed.
Print Assumptions skip_unknown_generic.

(** which types each loop does NOT skip *)
Theorem skipped_types : forall m,
  (forall n, open_known n = false -> skips m (open_dispatch m) n) /\
  (forall n, frag_known n = false -> skips m (frag_dispatch m) n) /\
  (forall n, moov_known n = false -> skips m (fun f (_ : N) => moov_dispatch m f) n) /\
  (forall n, trak_known n = false -> skips m (fun f (_ : N) => trak_dispatch m f) n) /\
  (forall n, mdia_known n = false -> skips m (fun f (_ : N) => mdia_dispatch m f) n) /\
  (forall n, minf_known n = false -> skips m (fun f (_ : N) => minf_dispatch m f) n) /\
  (forall n, stbl_known n = false -> skips m (fun f (_ : N) => stbl_dispatch m f) n) /\
  (forall n, dinf_known n = false -> skips m (fun f (_ : N) => dinf_dispatch m f) n) /\
  (forall n, udta_known n = false -> skips m (fun f (_ : N) => udta_dispatch m f) n) /\
  (forall n, mvex_known n = false -> skips m (fun f (_ : N) => mvex_dispatch m f) n) /\
  (forall n, moof_known n = false -> skips m (fun f (_ : N) => moof_dispatch m f) n) /\
  (forall n, traf_known n = false -> skips m (fun f (_ : N) => traf_dispatch m f) n).
Proof.
  intros m. repeat split.
  - exact (open_skips m). - exact (frag_skips m). - exact (moov_skips m). - exact (trak_skips m).
  - exact (mdia_skips m). - exact (minf_skips m). - exact (stbl_skips m). - exact (dinf_skips m).
  - exact (udta_skips m). - exact (mvex_skips m). - exact (moof_skips m). - exact (traf_skips m).
Qed.
Print Assumptions skipped_types.

(** every code outside the [boxtype!] table, and [free], is unknown to all of them *)
Theorem unknown_codes_are_skipped_everywhere : forall c,
  forallb (fun e => negb (snd e =? c)) Tables.boxtype_table = true ->
  let n := boxtype_of_u32 c in
  open_known n = false /\ frag_known n = false /\ moov_known n = false /\ trak_known n = false
  /\ mdia_known n = false /\ minf_known n = false /\ stbl_known n = false /\ dinf_known n = false
  /\ udta_known n = false /\ mvex_known n = false /\ moof_known n = false /\ traf_known n = false.
Proof. exact unknown_code_not_known. Qed.

Example free_is_skipped_everywhere :
  let n := boxtype_of_u32 0x66726565 in
  n = FreeBox /\
  open_known n = false /\ frag_known n = false /\ moov_known n = false /\ trak_known n = false
  /\ mdia_known n = false /\ minf_known n = false /\ stbl_known n = false /\ dinf_known n = false
  /\ udta_known n = false /\ mvex_known n = false /\ moof_known n = false /\ traf_known n = false.
Proof. vm_compute. repeat split. Qed.

(** the top-level loop of [Mp4Reader::read_header] ([free], [mdat], unknown types) *)
Theorem skip_unknown_top_level : forall m fuel size acc c rest d l p,
  open_known (boxtype_of_u32 (c_code c)) = false ->
  child_wf c -> p < size -> c_s c <= size -> p + c_len c < 2 ^ 63 ->
  run (children_loop_at (S fuel) m (Some size) true size (open_dispatch m) acc p)
      (mkStream d l p (c_bytes c ++ rest))
  = run (children_loop_at fuel m (Some size) true size (open_dispatch m) acc (p + c_len c))
        (mkStream d l (p + c_len c) rest).
Proof. exact open_skip_unknown. Qed.
Print Assumptions skip_unknown_top_level.

Theorem skip_unknown_fragment_top_level : forall m fuel size acc c rest d l p,
  frag_known (boxtype_of_u32 (c_code c)) = false ->
  child_wf c -> p < size -> c_s c <= size -> p + c_len c < 2 ^ 63 ->
  run (children_loop_at (S fuel) m (Some size) true size (frag_dispatch m) acc p)
      (mkStream d l p (c_bytes c ++ rest))
  = run (children_loop_at fuel m (Some size) true size (frag_dispatch m) acc (p + c_len c))
        (mkStream d l (p + c_len c) rest).
Proof. exact frag_skip_unknown. Qed.

(** the containers *)
Definition skip_stmt {Acc} (known : boxtype -> bool) (dispatch : mode -> nat -> boxtype -> N -> Acc -> prog Acc) : Prop :=
  forall m fuel size end_ acc c rest d l p,
  known (boxtype_of_u32 (c_code c)) = false ->
  child_wf c -> p < end_ -> c_s c <= size -> p + c_len c < 2 ^ 63 ->
  run (children_loop (S fuel) m (Some size) true end_ (dispatch m) acc p)
      (mkStream d l p (c_bytes c ++ rest))
  = run (children_loop fuel m (Some size) true end_ (dispatch m) acc (p + c_len c))
        (mkStream d l (p + c_len c) rest).

Theorem skip_unknown_moov : skip_stmt moov_known moov_dispatch.
Proof. intros m fuel size end_ acc c rest d l p H. exact (moov_skip_unknown m fuel size end_ acc c rest d l p H). Qed.
Theorem skip_unknown_trak : skip_stmt trak_known trak_dispatch.
Proof. intros m fuel size end_ acc c rest d l p H. exact (trak_skip_unknown m fuel size end_ acc c rest d l p H). Qed.
Theorem skip_unknown_mdia : skip_stmt mdia_known mdia_dispatch.
Proof. intros m fuel size end_ acc c rest d l p H. exact (mdia_skip_unknown m fuel size end_ acc c rest d l p H). Qed.
Theorem skip_unknown_minf : skip_stmt minf_known minf_dispatch.
Proof. intros m fuel size end_ acc c rest d l p H. exact (minf_skip_unknown m fuel size end_ acc c rest d l p H). Qed.
Theorem skip_unknown_stbl : skip_stmt stbl_known stbl_dispatch.
Proof. intros m fuel size end_ acc c rest d l p H. exact (stbl_skip_unknown m fuel size end_ acc c rest d l p H). Qed.
Theorem skip_unknown_dinf : skip_stmt dinf_known dinf_dispatch.
Proof. intros m fuel size end_ acc c rest d l p H. exact (dinf_skip_unknown m fuel size end_ acc c rest d l p H). Qed.
Theorem skip_unknown_udta : skip_stmt udta_known udta_dispatch.
Proof. intros m fuel size end_ acc c rest d l p H. exact (udta_skip_unknown m fuel size end_ acc c rest d l p H). Qed.
Theorem skip_unknown_mvex : skip_stmt mvex_known mvex_dispatch.
Proof. intros m fuel size end_ acc c rest d l p H. exact (mvex_skip_unknown m fuel size end_ acc c rest d l p H). Qed.
Theorem skip_unknown_moof : skip_stmt moof_known moof_dispatch.
Proof. intros m fuel size end_ acc c rest d l p H. exact (moof_skip_unknown m fuel size end_ acc c rest d l p H). Qed.
Theorem skip_unknown_traf : skip_stmt traf_known traf_dispatch.
Proof. intros m fuel size end_ acc c rest d l p H. exact (traf_skip_unknown m fuel size end_ acc c rest d l p H). Qed.
Print Assumptions skip_unknown_stbl.

(** ** (iii) spare bytes after the last field *)

(** [tail_ignored wf size dec payload]: the box rendered with [spare] after its last field and
    its size increased by [|spare|] decodes to the same value and ends after the spare bytes.
    For the table boxes the entry-count guard [(size - 16) / entry_size < entry_count] sees the
    larger size and still passes. *)
Theorem tail_ignored_unfold : forall X wf size (dec : mode -> N -> prog X) payload,
  tail_ignored wf size dec payload <->
  (forall v, wf v = true ->
   forall m d l p spare post, p + size v + lenN spare < 2 ^ 63 ->
     run (dec m (size v + lenN spare)) (mkStream d l (p + 8) (payload v ++ spare ++ post))
     = (Ok v, mkStream d l (p + size v + lenN spare) post)).
Proof. intros. reflexivity. Qed.

Theorem tail_mvhd : tail_ignored mvhd_wf mvhd_size dec_mvhd mvhd_payload.
Proof. exact mvhd_tail_ignored. Qed.
Theorem tail_tkhd : tail_ignored tkhd_wf tkhd_size dec_tkhd iso_tkhd_payload.
Proof. exact tkhd_tail_ignored. Qed.
Theorem tail_mdhd : tail_ignored mdhd_wf mdhd_size dec_mdhd iso_mdhd_payload.
Proof. exact mdhd_tail_ignored. Qed.
Theorem tail_vmhd : tail_ignored vmhd_wf vmhd_size dec_vmhd iso_vmhd_payload.
Proof. exact vmhd_tail_ignored. Qed.
Theorem tail_smhd : tail_ignored smhd_wf smhd_size dec_smhd iso_smhd_payload.
Proof. exact smhd_tail_ignored. Qed.
Theorem tail_stts : tail_ignored stts_wf stts_size dec_stts iso_stts_payload.
Proof. exact stts_tail_ignored. Qed.
Theorem tail_ctts : tail_ignored ctts_wf ctts_size dec_ctts iso_ctts_payload.
Proof. exact ctts_tail_ignored. Qed.
Theorem tail_stsc : tail_ignored stsc_wf stsc_size dec_stsc iso_stsc_payload.
Proof. exact stsc_tail_ignored. Qed.
Theorem tail_stsz : tail_ignored stsz_wf stsz_size dec_stsz iso_stsz_payload.
Proof. exact stsz_tail_ignored. Qed.
Theorem tail_stss : tail_ignored stss_wf stss_size dec_stss iso_stss_payload.
Proof. exact stss_tail_ignored. Qed.
Theorem tail_stco : tail_ignored stco_wf stco_size dec_stco iso_stco_payload.
Proof. exact stco_tail_ignored. Qed.
Theorem tail_co64 : tail_ignored co64_wf co64_size dec_co64 iso_co64_payload.
Proof. exact co64_tail_ignored. Qed.
(** also hdlr, although its last field is a string: the string stops at its NUL terminator *)
Theorem tail_hdlr : tail_ignored hdlr_wf hdlr_size dec_hdlr iso_hdlr_payload.
Proof. exact hdlr_tail_ignored. Qed.
Print Assumptions tail_mvhd.
Print Assumptions tail_stsz.

(** ** (iv) the order of different-typed siblings is irrelevant *)

(** If child 1 then child 2 are dispatched successfully from accumulator [a] (each on its own
    bytes [st1], [st2]), then dispatching child 2 then child 1 succeeds too, leaves the two
    streams where they were left, and yields the same accumulator — when their types fall in
    different slots ([xxx_name_kind]: one slot per known child type, 0 for all skipped types).
    Two children of the SAME type do not commute: the later one wins (Option fields), or the
    list order changes (the traks of a moov). *)
Definition order_stmt {Acc} (dispatch : mode -> nat -> boxtype -> N -> Acc -> prog Acc)
           (name_kind : boxtype -> nat) : Prop :=
  forall m f1 f2 n1 n2 s1 s2 a a1 a12 st1 st1' st2 st2',
  run (dispatch m f1 n1 s1 a) st1 = (Ok a1, st1') ->
  run (dispatch m f2 n2 s2 a1) st2 = (Ok a12, st2') ->
  name_kind n1 <> name_kind n2 ->
  exists a2,
    run (dispatch m f2 n2 s2 a) st2 = (Ok a2, st2') /\
    run (dispatch m f1 n1 s1 a2) st1 = (Ok a12, st1').

Theorem order_irrelevant_stbl : order_stmt stbl_dispatch stbl_name_kind.
Proof. exact stbl_order_irrelevant. Qed.
Theorem order_irrelevant_minf : order_stmt minf_dispatch minf_name_kind.
Proof. exact minf_order_irrelevant. Qed.
Theorem order_irrelevant_mdia : order_stmt mdia_dispatch mdia_name_kind.
Proof. exact mdia_order_irrelevant. Qed.
Theorem order_irrelevant_trak : order_stmt trak_dispatch trak_name_kind.
Proof. exact trak_order_irrelevant. Qed.
Theorem order_irrelevant_moov : order_stmt moov_dispatch moov_name_kind.
Proof. exact moov_order_irrelevant. Qed.
Print Assumptions order_irrelevant_stbl.
Print Assumptions order_irrelevant_moov.

Theorem same_type_order_matters :
  (forall x y a, stbl_put (SI_stts y) (stbl_put (SI_stts x) a) = stbl_put (SI_stts y) a) /\
  (forall x y a, snd (moov_put (VI_trak y) (moov_put (VI_trak x) a)) = snd a ++ [x; y]).
Proof. split; [exact stbl_same_kind_last_wins | exact moov_traks_in_file_order]. Qed.

(** ** The containers: decoding is a fold over the children's items *)

(** [decodes_to body F0 c it]: the body of child [c] (its payload, found 8 bytes after
    [box_start] whatever the header form was) decodes to item [it] at any position, with any
    fuel [>= F0].  [dec_stbl_children]: if every child of a rendered list decodes to an item,
    the stbl whose payload is that rendering decodes to [stbl_finish] of the items put one
    after the other, and ends at its end. *)
Theorem stbl_is_a_fold : forall m fuel cs items F0 d l p rest,
  Forall2 (decodes_to (stbl_body m) F0) cs items -> Forall child_wf cs ->
  (F0 + length cs <= fuel)%nat -> p + 8 + total_len cs < 2 ^ 63 ->
  run (dec_stbl_fuel fuel m (8 + total_len cs)) (mkStream d l (p + 8) (render cs ++ rest))
  = (opt_res_data (stbl_finish (put_all stbl_put items stbl_acc0)),
     mkStream d l (p + 8 + total_len cs) rest).
Proof. exact dec_stbl_children. Qed.
Print Assumptions stbl_is_a_fold.

(** The layout-invariance theorem of a container.  [items_equiv indep neutral]: the
    equivalence on item sequences generated by inserting a skipped child anywhere and swapping
    two neighbours of different kinds.  The two child lists are otherwise unrelated: header
    forms, spare bytes, unknown payloads, and the layouts inside nested containers may differ
    freely as long as each child decodes to its item. *)
Definition invariance_stmt {Item X} (body : mode -> nat -> boxtype -> N -> prog Item)
           (indep : Item -> Item -> Prop) (neutral : Item -> Prop)
           (decf : nat -> mode -> N -> prog X) : Prop :=
  forall m F0 cs items cs' items',
  Forall2 (decodes_to (body m) F0) cs items -> Forall child_wf cs ->
  Forall2 (decodes_to (body m) F0) cs' items' -> Forall child_wf cs' ->
  items_equiv indep neutral items items' ->
  forall fuel fuel' d l p rest d' l' p' rest',
  (F0 + length cs <= fuel)%nat -> p + 8 + total_len cs < 2 ^ 63 ->
  (F0 + length cs' <= fuel')%nat -> p' + 8 + total_len cs' < 2 ^ 63 ->
  exists r,
    run (decf fuel m (8 + total_len cs)) (mkStream d l (p + 8) (render cs ++ rest))
    = (r, mkStream d l (p + 8 + total_len cs) rest) /\
    run (decf fuel' m (8 + total_len cs')) (mkStream d' l' (p' + 8) (render cs' ++ rest'))
    = (r, mkStream d' l' (p' + 8 + total_len cs') rest').

Theorem layout_invariance_stbl : invariance_stmt stbl_body stbl_indep stbl_neutral dec_stbl_fuel.
Proof. exact LayoutProofs.layout_invariance_stbl. Qed.
Theorem layout_invariance_minf : invariance_stmt minf_body minf_indep minf_neutral dec_minf_fuel.
Proof. exact LayoutProofs.layout_invariance_minf. Qed.
Theorem layout_invariance_mdia : invariance_stmt mdia_body mdia_indep mdia_neutral dec_mdia_fuel.
Proof. exact LayoutProofs.layout_invariance_mdia. Qed.
Theorem layout_invariance_trak : invariance_stmt trak_body trak_indep trak_neutral dec_trak_fuel.
Proof. exact LayoutProofs.layout_invariance_trak. Qed.
Theorem layout_invariance_moov : invariance_stmt moov_body moov_indep moov_neutral dec_moov_fuel.
Proof. exact LayoutProofs.layout_invariance_moov. Qed.
Print Assumptions layout_invariance_stbl.
Print Assumptions layout_invariance_moov.

(** the children that decode: skipped boxes; leaves in either header form with spare bytes;
    nested containers whose own children decode (so the theorems compose from stbl to moov) *)
Theorem stbl_children_decode : forall m,
  (forall c, stbl_known (boxtype_of_u32 (c_code c)) = false -> decodes_to (stbl_body m) 0 c SI_skip) /\
  (forall w64 v spare, stts_wf v = true -> stts_size v < U32 ->
     decodes_to (stbl_body m) 0 (mkChild w64 0x73747473 (iso_stts_payload v ++ spare)) (SI_stts v)) /\
  (forall w64 v spare, ctts_wf v = true -> ctts_size v < U32 ->
     decodes_to (stbl_body m) 0 (mkChild w64 0x63747473 (iso_ctts_payload v ++ spare)) (SI_ctts v)) /\
  (forall w64 v spare, stss_wf v = true -> stss_size v < U32 ->
     decodes_to (stbl_body m) 0 (mkChild w64 0x73747373 (iso_stss_payload v ++ spare)) (SI_stss v)) /\
  (forall w64 v spare, stsc_wf v = true -> stsc_size v < U32 ->
     decodes_to (stbl_body m) 0 (mkChild w64 0x73747363 (iso_stsc_payload v ++ spare)) (SI_stsc v)) /\
  (forall w64 v spare, stsz_wf v = true -> stsz_size v < U32 ->
     decodes_to (stbl_body m) 0 (mkChild w64 0x7374737a (iso_stsz_payload v ++ spare)) (SI_stsz v)) /\
  (forall w64 v spare, stco_wf v = true -> stco_size v < U32 ->
     decodes_to (stbl_body m) 0 (mkChild w64 0x7374636f (iso_stco_payload v ++ spare)) (SI_stco v)) /\
  (forall w64 v spare, co64_wf v = true -> co64_size v < U32 ->
     decodes_to (stbl_body m) 0 (mkChild w64 0x636f3634 (iso_co64_payload v ++ spare)) (SI_co64 v)).
Proof.
  intros m. repeat split.
  - exact (stbl_child_skip m). - exact (stbl_child_stts m). - exact (stbl_child_ctts m).
  - exact (stbl_child_stss m). - exact (stbl_child_stsc m). - exact (stbl_child_stsz m).
  - exact (stbl_child_stco m). - exact (stbl_child_co64 m).
Qed.
Print Assumptions stbl_children_decode.

Theorem nested_containers_decode : forall m,
  (forall w64 cs items F0 v,
     Forall2 (decodes_to (stbl_body m) F0) cs items -> Forall child_wf cs ->
     stbl_finish (put_all stbl_put items stbl_acc0) = Some v ->
     decodes_to (minf_body m) (F0 + length cs) (mkChild w64 0x7374626c (render cs)) (NI_stbl v)) /\
  (forall w64 cs items F0 v,
     Forall2 (decodes_to (minf_body m) F0) cs items -> Forall child_wf cs ->
     minf_finish (put_all minf_put items (None, None, None, None)) = Some v ->
     decodes_to (mdia_body m) (F0 + length cs) (mkChild w64 0x6d696e66 (render cs)) (DI_minf v)) /\
  (forall w64 cs items F0 v,
     Forall2 (decodes_to (mdia_body m) F0) cs items -> Forall child_wf cs ->
     mdia_finish (put_all mdia_put items (None, None, None)) = Some v ->
     decodes_to (trak_body m) (F0 + length cs) (mkChild w64 0x6d646961 (render cs)) (TI_mdia v)) /\
  (forall w64 cs items F0 v,
     Forall2 (decodes_to (trak_body m) F0) cs items -> Forall child_wf cs ->
     trak_finish (put_all trak_put items (None, None, None, None)) = Some v ->
     decodes_to (moov_body m) (F0 + length cs) (mkChild w64 0x7472616b (render cs)) (VI_trak v)).
Proof.
  intros m. repeat split.
  - exact (minf_child_stbl m). - exact (mdia_child_minf m). - exact (trak_child_mdia m).
  - exact (moov_child_trak m).
Qed.
Print Assumptions nested_containers_decode.

Theorem other_leaves_decode : forall m,
  (forall w64 v spare, vmhd_wf v = true -> vmhd_size v < U32 ->
     decodes_to (minf_body m) 0 (mkChild w64 0x766d6864 (iso_vmhd_payload v ++ spare)) (NI_vmhd v)) /\
  (forall w64 v spare, smhd_wf v = true -> smhd_size v < U32 ->
     decodes_to (minf_body m) 0 (mkChild w64 0x736d6864 (iso_smhd_payload v ++ spare)) (NI_smhd v)) /\
  (forall w64 v spare, mdhd_wf v = true -> mdhd_size v < U32 ->
     decodes_to (mdia_body m) 0 (mkChild w64 0x6d646864 (iso_mdhd_payload v ++ spare)) (DI_mdhd v)) /\
  (forall w64 v spare, hdlr_wf v = true -> hdlr_size v < U32 ->
     decodes_to (mdia_body m) 0 (mkChild w64 0x68646c72 (iso_hdlr_payload v ++ spare)) (DI_hdlr v)) /\
  (forall w64 v spare, tkhd_wf v = true -> tkhd_size v < U32 ->
     decodes_to (trak_body m) 0 (mkChild w64 0x746b6864 (iso_tkhd_payload v ++ spare)) (TI_tkhd v)) /\
  (forall w64 v spare, mvhd_wf v = true -> mvhd_size v < U32 ->
     decodes_to (moov_body m) 0 (mkChild w64 0x6d766864 (mvhd_payload v ++ spare)) (VI_mvhd v)) /\
  (forall c, minf_known (boxtype_of_u32 (c_code c)) = false -> decodes_to (minf_body m) 0 c NI_skip) /\
  (forall c, mdia_known (boxtype_of_u32 (c_code c)) = false -> decodes_to (mdia_body m) 0 c DI_skip) /\
  (forall c, trak_known (boxtype_of_u32 (c_code c)) = false -> decodes_to (trak_body m) 0 c TI_skip) /\
  (forall c, moov_known (boxtype_of_u32 (c_code c)) = false -> decodes_to (moov_body m) 0 c VI_skip).
Proof.
  intros m. repeat split.
  - exact (minf_child_vmhd m). - exact (minf_child_smhd m). - exact (mdia_child_mdhd m).
  - exact (mdia_child_hdlr m). - exact (trak_child_tkhd m). - exact (moov_child_mvhd m).
  - exact (minf_child_skip m). - exact (mdia_child_skip m). - exact (trak_child_skip m).
  - exact (moov_child_skip m).
Qed.
Print Assumptions other_leaves_decode.

(** the other containers built on the same loop: udta, mvex, dinf, moof, traf *)
Theorem layout_invariance_udta : invariance_stmt udta_body udta_indep udta_neutral dec_udta_fuel.
Proof. exact LayoutMore.layout_invariance_udta. Qed.
Theorem layout_invariance_mvex : invariance_stmt mvex_body mvex_indep mvex_neutral dec_mvex_fuel.
Proof. exact LayoutMore.layout_invariance_mvex. Qed.
Theorem layout_invariance_dinf : invariance_stmt dinf_body dinf_indep dinf_neutral dec_dinf_fuel.
Proof. exact LayoutMore.layout_invariance_dinf. Qed.
Theorem layout_invariance_moof : invariance_stmt moof_body moof_indep moof_neutral dec_moof_fuel.
Proof. exact LayoutMore.layout_invariance_moof. Qed.
Theorem layout_invariance_traf : invariance_stmt traf_body traf_indep traf_neutral dec_traf_fuel.
Proof. exact LayoutMore.layout_invariance_traf. Qed.
Theorem order_irrelevant_udta : order_stmt udta_dispatch udta_name_kind.
Proof. exact udta_order_irrelevant. Qed.
Theorem order_irrelevant_mvex : order_stmt mvex_dispatch mvex_name_kind.
Proof. exact mvex_order_irrelevant. Qed.
Theorem order_irrelevant_dinf : order_stmt dinf_dispatch dinf_name_kind.
Proof. exact dinf_order_irrelevant. Qed.
Theorem order_irrelevant_moof : order_stmt moof_dispatch moof_name_kind.
Proof. exact moof_order_irrelevant. Qed.
Theorem order_irrelevant_traf : order_stmt traf_dispatch traf_name_kind.
Proof. exact traf_order_irrelevant. Qed.
Print Assumptions layout_invariance_traf.

Theorem more_nested_containers_decode : forall m,
  (forall w64 cs items F0 v,
     Forall2 (decodes_to (dinf_body m) F0) cs items -> Forall child_wf cs ->
     dinf_finish (put_all dinf_put items None) = Some v ->
     decodes_to (minf_body m) (F0 + length cs) (mkChild w64 0x64696e66 (render cs)) (NI_dinf v)) /\
  (forall w64 cs items F0 v,
     Forall2 (decodes_to (udta_body m) F0) cs items -> Forall child_wf cs ->
     udta_finish (put_all udta_put items None) = Some v ->
     decodes_to (moov_body m) (F0 + length cs) (mkChild w64 0x75647461 (render cs)) (VI_udta v)) /\
  (forall w64 cs items F0 v,
     Forall2 (decodes_to (mvex_body m) F0) cs items -> Forall child_wf cs ->
     mvex_finish (put_all mvex_put items (None, None)) = Some v ->
     decodes_to (moov_body m) (F0 + length cs) (mkChild w64 0x6d766578 (render cs)) (VI_mvex v)) /\
  (forall w64 cs items F0 v,
     Forall2 (decodes_to (traf_body m) F0) cs items -> Forall child_wf cs ->
     traf_finish (put_all traf_put items (None, None, None)) = Some v ->
     decodes_to (moof_body m) (F0 + length cs) (mkChild w64 0x74726166 (render cs)) (OFI_traf v)).
Proof.
  intros m. repeat split.
  - exact (minf_child_dinf m). - exact (moov_child_udta m). - exact (moov_child_mvex m).
  - exact (moof_child_traf m).
Qed.

(** ** The top level: [Mp4Reader::read_header] *)

(** [open_result a sz]: what [read_header] returns for the accumulator [a] of its loop and
    [sz = current - start] bytes read.  [open_put_all p cs items a]: the items put one after the
    other, each with the position of its box (a moof item records it as its moof offset).
    A file (or the part of a stream from [p] on) that is the rendering of top-level children
    whose bodies decode to items opens to exactly that. *)
Theorem open_is_a_fold : forall m fuel cs items F0 d l p rest,
  Forall2 (decodes_to (open_body m) F0) cs items -> Forall child_wf cs ->
  (F0 + length cs <= fuel)%nat -> p + total_len cs < 2 ^ 63 ->
  run (open_fuel fuel m (p + total_len cs)) (mkStream d l p (render cs ++ rest))
  = (open_result (open_put_all p cs items (None, None, [], [], [])) (total_len cs),
     mkStream d l (p + total_len cs) rest).
Proof. exact open_fuel_children. Qed.
Print Assumptions open_is_a_fold.

(** Files without moof boxes: two renderings whose item sequences are equivalent (free /
    mdat / unknown boxes inserted anywhere, ftyp / moov / emsg / skipped boxes in another
    order, any header forms, any layout inside the moov) open to readers that are equal except
    for [rd_size], which is the length of each file. *)
Theorem layout_invariance_top_level : forall m F0 cs items cs' items',
  Forall2 (decodes_to (open_body m) F0) cs items -> Forall child_wf cs ->
  Forall2 (decodes_to (open_body m) F0) cs' items' -> Forall child_wf cs' ->
  Forall open_static items -> Forall open_static items' ->
  items_equiv open_indep open_neutral items items' ->
  forall fuel fuel' d l p rest d' l' p' rest',
  (F0 + length cs <= fuel)%nat -> p + total_len cs < 2 ^ 63 ->
  (F0 + length cs' <= fuel')%nat -> p' + total_len cs' < 2 ^ 63 ->
  exists r r',
    run (open_fuel fuel m (p + total_len cs)) (mkStream d l p (render cs ++ rest))
    = (r, mkStream d l (p + total_len cs) rest) /\
    run (open_fuel fuel' m (p' + total_len cs')) (mkStream d' l' p' (render cs' ++ rest'))
    = (r', mkStream d' l' (p' + total_len cs') rest') /\
    reader_modulo_size r = reader_modulo_size r' /\
    (forall x, r = Ok x -> rd_size x = total_len cs) /\
    (forall x, r' = Ok x -> rd_size x = total_len cs').
Proof. exact layout_invariance_open. Qed.
Print Assumptions layout_invariance_top_level.

Theorem top_level_children_decode : forall m,
  (forall c, open_known (boxtype_of_u32 (c_code c)) = false -> decodes_to (open_body m) 0 c OI_skip) /\
  (forall w64 payload, decodes_to (open_body m) 0 (mkChild w64 0x6d646174 payload) OI_skip) /\
  (forall w64 v, ftyp_wf v = true -> ftyp_size v < U32 ->
     decodes_to (open_body m) 0 (mkChild w64 0x66747970 (iso_ftyp_payload v)) (OI_ftyp v)) /\
  (forall w64 cs items F0 v,
     Forall2 (decodes_to (moov_body m) F0) cs items -> Forall child_wf cs ->
     moov_finish (put_all moov_put items (None, None, None, None, [])) = Some v ->
     decodes_to (open_body m) (F0 + length cs) (mkChild w64 0x6d6f6f76 (render cs)) (OI_moov v)) /\
  (forall w64 cs items F0 v,
     Forall2 (decodes_to (moof_body m) F0) cs items -> Forall child_wf cs ->
     moof_finish (put_all moof_put items (None, [])) = Some v ->
     decodes_to (open_body m) (F0 + length cs) (mkChild w64 0x6d6f6f66 (render cs)) (OI_moof v)).
Proof.
  intros m. repeat split.
  - exact (open_child_skip m). - exact (open_child_mdat m). - exact (open_child_ftyp m).
  - exact (open_child_moov m). - exact (open_child_moof m).
Qed.
Print Assumptions top_level_children_decode.

(** fragmented files: the offset recorded for a moof is the position of its box, so a box of
    length [n] inserted before it moves the recorded offset by exactly [n] *)
Theorem moof_offsets_are_positions :
  (forall p c cs items a, open_put_all p (c :: cs) (OI_skip :: items) a = open_put_all (p + c_len c) cs items a) /\
  (forall p c cs items x ft mv moofs offs emsgs,
     open_put_all p (c :: cs) (OI_moof x :: items) (ft, mv, moofs, offs, emsgs)
     = open_put_all (p + c_len c) cs items (ft, mv, moofs ++ [x], offs ++ [p], emsgs)) /\
  (forall p l1 l2 i1 i2 a, length l1 = length i1 ->
     open_put_all p (l1 ++ l2) (i1 ++ i2) a = open_put_all (p + total_len l1) l2 i2 (open_put_all p l1 i1 a)).
Proof. split; [exact open_put_all_skip | split; [exact open_put_all_moof | exact open_put_all_app]]. Qed.

(** ** Sample offsets follow the media data

    A layout change moves the media data, and the chunk offsets are rewritten by the
    displacement.  For a non-fragmented track, [shift_track delta t] is [t] with every stco /
    co64 entry increased by [delta] (it is the lookup view of the trak with the rewritten
    tables: [track_view_shift]). *)
Theorem sample_offsets_shift_with_the_data : forall m delta t sid o,
  Track.tr_frags t = [] -> Track.sample_offset m t sid = Ok o -> o + delta < U64 ->
  Track.sample_offset m (shift_track delta t) sid = Ok (o + delta).
Proof. exact sample_offset_shift. Qed.
Print Assumptions sample_offsets_shift_with_the_data.

Theorem other_lookups_ignore_chunk_offsets : forall m delta t sid,
  Track.sample_count (shift_track delta t) = Track.sample_count t /\
  Track.sample_size (shift_track delta t) sid = Track.sample_size t sid /\
  Track.sample_time m (shift_track delta t) sid = Track.sample_time m t sid /\
  Track.sample_rendering_offset (shift_track delta t) sid = Track.sample_rendering_offset t sid /\
  Track.is_sync_sample (shift_track delta t) sid = Track.is_sync_sample t sid.
Proof. exact shift_other_lookups. Qed.

(** the same sample is read when the bytes at the shifted offset are the same bytes *)
Theorem read_sample_follows_the_data : forall m delta t sid s s' o sz h,
  Track.tr_frags t = [] -> stream_wf s -> stream_wf s' ->
  Track.sample_offset m t sid = Ok o -> o + delta < U64 ->
  Track.sample_size t sid = Ok sz ->
  (sz = 0 \/ (exists r, splitN sz (dropN o (s_data s)) = Some (h, r)) /\
             (exists r', splitN sz (dropN (o + delta) (s_data s')) = Some (h, r'))) ->
  fst (run (Track.read_sample m t sid) s) = fst (run (Track.read_sample m (shift_track delta t) sid) s').
Proof. exact read_sample_shift. Qed.
Print Assumptions read_sample_follows_the_data.

Theorem shifted_trak_is_shifted_track : forall delta t,
  track_view (mp4track_from (shift_trak delta t)) = shift_track delta (track_view (mp4track_from t)).
Proof. exact track_view_shift. Qed.

(** ** Non-vacuity *)

(** building blocks: a child from an encoder's output (type code and payload as written), with
    a chosen header form and spare bytes; free / unknown ('abcd') children; a container child *)
Definition ex12_code_of (b : bytes) : N := unbe (firstn 4 (skipn 4 b)).
Definition ex12_child (w64 : bool) (b spare : bytes) : child :=
  mkChild w64 (ex12_code_of b) (skipn 8 b ++ spare).
Definition ex12_free (w64 : bool) (n : nat) : child := mkChild w64 0x66726565 (repeat 7 n).
Definition ex12_unknown (w64 : bool) (n : nat) : child := mkChild w64 0x61626364 (repeat 9 n).
Definition ex12_box (w64 : bool) (code : N) (cs : list child) : child := mkChild w64 code (render cs).

(** *** the theorem instantiated: a moov with an mvhd, in two layouts *)
Example ex12_moov_two_layouts : forall m d l p rest d' l' p' rest',
  p < 2 ^ 62 -> p' < 2 ^ 62 ->
  let cs  := [mkChild false 0x6d766864 (mvhd_payload mvhd_default ++ [])] in
  let cs' := [ex12_free true 5;
              mkChild true 0x6d766864 (mvhd_payload mvhd_default ++ [1; 2; 3]);
              ex12_unknown false 2] in
  run (dec_moov_fuel 1 m (8 + total_len cs)) (mkStream d l (p + 8) (render cs ++ rest))
  = (Ok (mkMoov mvhd_default None None [] None), mkStream d l (p + 8 + total_len cs) rest) /\
  run (dec_moov_fuel 3 m (8 + total_len cs')) (mkStream d' l' (p' + 8) (render cs' ++ rest'))
  = (Ok (mkMoov mvhd_default None None [] None), mkStream d' l' (p' + 8 + total_len cs') rest').
Proof.
  intros m d l p rest d' l' p' rest' Hp Hp' cs cs'.
  assert (Hm : decodes_to (moov_body m) 0 (mkChild false 0x6d766864 (mvhd_payload mvhd_default ++ [])) (VI_mvhd mvhd_default))
    by (apply moov_child_mvhd; vm_compute; reflexivity).
  assert (Hm' : decodes_to (moov_body m) 0 (mkChild true 0x6d766864 (mvhd_payload mvhd_default ++ [1; 2; 3])) (VI_mvhd mvhd_default))
    by (apply moov_child_mvhd; vm_compute; reflexivity).
  assert (Hf : decodes_to (moov_body m) 0 (ex12_free true 5) VI_skip)
    by (apply moov_child_skip; vm_compute; reflexivity).
  assert (Hu : decodes_to (moov_body m) 0 (ex12_unknown false 2) VI_skip)
    by (apply moov_child_skip; vm_compute; reflexivity).
  assert (W : forall c, In c (cs ++ cs') -> child_wf c).
  { intros c [<-|[<-|[<-|[<-|[]]]]]; split; vm_compute; reflexivity. }
  assert (T : total_len cs = 108 /\ total_len cs' = 150) by (split; vm_compute; reflexivity).
  destruct T as [T T'].
  split.
  - rewrite (dec_moov_children m 1 cs [VI_mvhd mvhd_default] 0).
    + reflexivity.
    + repeat constructor. exact Hm.
    + repeat constructor; apply W; cbn; auto.
    + cbn. lia.
    + rewrite T. change (2 ^ 62) with 4611686018427387904 in Hp. change (2 ^ 63) with 9223372036854775808.
      clear -Hp. lia.
  - rewrite (dec_moov_children m 3 cs' [VI_skip; VI_mvhd mvhd_default; VI_skip] 0).
    + reflexivity.
    + repeat constructor; assumption.
    + repeat constructor; apply W; cbn; auto 10.
    + cbn. lia.
    + rewrite T'. change (2 ^ 62) with 4611686018427387904 in Hp'. change (2 ^ 63) with 9223372036854775808.
      clear -Hp'. lia.
Qed.

(** ... and the item sequences are equivalent, so [layout_invariance_moov] applies to them *)
Example ex12_items_equiv :
  items_equiv moov_indep moov_neutral [VI_mvhd mvhd_default] [VI_skip; VI_mvhd mvhd_default; VI_skip].
Proof.
  eapply ie_trans.
  - exact (ie_insert moov_indep moov_neutral [] [VI_mvhd mvhd_default] VI_skip eq_refl).
  - exact (ie_insert moov_indep moov_neutral [VI_skip; VI_mvhd mvhd_default] [] VI_skip eq_refl).
Qed.

(** *** two complete files: layout A is what the encoders write (ftyp, moov, mdat);
    layout B uses every freedom at every level, the mdat comes first, and the chunk offset is
    rewritten for the new position of the media data *)
Definition ex12_ftyp := mkFtyp 0x69736f6d 512 [0x69736f6d; 0x61766331].
Definition ex12_mdat_payload : bytes := map N.of_nat (seq 100 60).
Definition ex12_stbl (off : N) : stbl :=
  mkStbl (stbl_stsd stbl_test) (stbl_stts stbl_test) (stbl_ctts stbl_test) (stbl_stss stbl_test)
         (stbl_stsc stbl_test) (stbl_stsz stbl_test) (Some (mkStco 0 0 [off])) None.
Definition ex12_udta := mkUdta (Some (MetaMdir (Some ilst_test))).
Definition ex12_moov_A (off : N) : moov :=
  mkMoov mvhd_default None None
    [mkTrak (trak_tkhd trak_test) (trak_edts trak_test) None
       (mkMdia mdhd_default (mdia_hdlr mdia_test)
               (mkMinf (Some vmhd_default) None dinf_default (ex12_stbl off)))]
    (Some ex12_udta).
Definition ex12_off_A : N := lenN (wout (enc_ftyp ex12_ftyp)) + moov_size (ex12_moov_A 0) + 8.
Definition ex12_file_A : bytes :=
  wout (enc_ftyp ex12_ftyp) ++ wout (enc_moov Dbg (ex12_moov_A ex12_off_A))
  ++ c_bytes (mkChild false 0x6d646174 ex12_mdat_payload).

Definition ex12_stbl_B (off : N) : list child :=
  [ ex12_free false 3;
    ex12_child true (wout (enc_stco (mkStco 0 0 [off]))) [];
    ex12_child false (wout (enc_stsz (stbl_stsz stbl_test))) [0; 0; 0; 0; 0];
    ex12_child false (wout (enc_stsd Dbg (stbl_stsd stbl_test))) [];
    ex12_unknown true 11;
    ex12_child true (wout (enc_stsc (stbl_stsc stbl_test))) [1; 2];
    ex12_child false (wout (enc_stss (mkStss 0 0 [1]))) [9];
    ex12_child false (wout (enc_ctts (mkCtts 0 0 [mkCttsEntry 3 0%Z]))) [];
    ex12_child true (wout (enc_stts (stbl_stts stbl_test))) [7; 7; 7] ].
Definition ex12_minf_B off : list child :=
  [ ex12_box true 0x7374626c (ex12_stbl_B off);
    ex12_free true 0;
    ex12_child false (wout (enc_dinf dinf_default)) [];
    ex12_child true (wout (enc_vmhd vmhd_default)) [5; 5; 5; 5] ].
Definition ex12_mdia_B off : list child :=
  [ ex12_box false 0x6d696e66 (ex12_minf_B off);
    ex12_child true (wout (enc_hdlr (mdia_hdlr mdia_test))) [];
    ex12_unknown false 1;
    ex12_child false (wout (enc_mdhd mdhd_default)) [0; 0] ].
Definition ex12_trak_B off : list child :=
  [ ex12_box true 0x6d646961 (ex12_mdia_B off);
    ex12_child false (wout (enc_edts (mkEdts (Some (mkElst 0 0 [mkElstEntry 300 0 1 0]))))) [];
    ex12_free false 8;
    ex12_child true (wout (enc_tkhd (trak_tkhd trak_test))) [1] ].
Definition ex12_moov_B off : list child :=
  [ ex12_free false 2;
    ex12_box true 0x7472616b (ex12_trak_B off);
    ex12_child false (wout (enc_udta ex12_udta)) [];
    ex12_unknown true 0;
    ex12_child true (wout (enc_mvhd mvhd_default)) [3; 3; 3] ].
Definition ex12_top_B off : list child :=
  [ ex12_child true (wout (enc_ftyp ex12_ftyp)) [];
    ex12_free false 5;
    mkChild true 0x6d646174 ex12_mdat_payload;
    ex12_unknown false 6;
    ex12_box true 0x6d6f6f76 (ex12_moov_B off);
    ex12_free true 1 ].
Definition ex12_off_B : N :=
  c_len (ex12_child true (wout (enc_ftyp ex12_ftyp)) []) + c_len (ex12_free false 5) + 16.
Definition ex12_file_B : bytes := render (ex12_top_B ex12_off_B).

Definition ex12_open (f : bytes) := fst (run (open_fuel 2000 Dbg (lenN f)) (stream_at f 0)).

(** the moov without its chunk-offset tables *)
Definition ex12_strip (v : moov) : moov :=
  mkMoov (moov_mvhd v) (moov_meta v) (moov_mvex v)
    (map (fun t =>
            let md := trak_mdia t in let mi := mdia_minf md in let s := minf_stbl mi in
            mkTrak (trak_tkhd t) (trak_edts t) (trak_meta t)
              (mkMdia (mdia_mdhd md) (mdia_hdlr md)
                 (mkMinf (minf_vmhd mi) (minf_smhd mi) (minf_dinf mi)
                    (mkStbl (stbl_stsd s) (stbl_stts s) (stbl_ctts s) (stbl_stss s)
                            (stbl_stsc s) (stbl_stsz s) None None))))
         (moov_traks v))
    (moov_udta v).
Definition ex12_chunk_offsets (v : moov) : list (option (list N)) :=
  map (fun t => option_map stco_entries (stbl_stco (minf_stbl (mdia_minf (trak_mdia t))))) (moov_traks v).
Definition ex12_sample (f : bytes) (r : mp4reader) (sid : N) :=
  match fst (run (rd_read_sample Dbg r 1 sid) (stream_at f 0)) with
  | Ok (Some s) => Some (Track.sm_bytes s, Track.sm_start_time s, Track.sm_duration s,
                         Track.sm_rendering_offset s, Track.sm_is_sync s)
  | _ => None
  end.

Example ex12_two_files :
  lenN ex12_file_A = 937 /\ lenN ex12_file_B = 1211 /\ ex12_off_A = 877 /\ ex12_off_B = 61 /\
  match ex12_open ex12_file_A, ex12_open ex12_file_B with
  | Ok a, Ok b =>
      rd_ftyp a = rd_ftyp b /\
      ex12_strip (rd_moov a) = ex12_strip (rd_moov b) /\
      ex12_chunk_offsets (rd_moov a) = [Some [877]] /\ ex12_chunk_offsets (rd_moov b) = [Some [61]] /\
      map fst (rd_tracks a) = map fst (rd_tracks b) /\
      rd_metadata a = rd_metadata b /\ md_year (rd_metadata a) = Some 2024 /\
      rd_sample_count a 1 = Ok 3 /\ rd_sample_count b 1 = Ok 3 /\
      (* offsets shifted by exactly the displacement of the media data, 877 - 61 = 816 *)
      map (fun sid => rd_sample_offset Dbg a 1 sid) [1; 2; 3] = [Ok 877; Ok 887; Ok 907] /\
      map (fun sid => rd_sample_offset Dbg b 1 sid) [1; 2; 3] = [Ok 61; Ok 71; Ok 91] /\
      (* the same samples: bytes, start time, duration, rendering offset, sync flag *)
      map (ex12_sample ex12_file_A a) [1; 2; 3; 4] = map (ex12_sample ex12_file_B b) [1; 2; 3; 4] /\
      ex12_sample ex12_file_A a 2 = Some (map N.of_nat (seq 110 20), 100, 100, 0%Z, false) /\
      rd_size a = 937 /\ rd_size b = 1211
  | _, _ => False
  end.
Proof. vm_compute. repeat split; reflexivity. Qed.

(** ** Limits: what is FALSE (witnesses by computation on the model; to be replayed on the code)

    These boxes do not iterate over their children the way the containers above do. *)

(** [stsd] reads ONE child and looks at nothing else: a free box before the sample entry makes
    the sample entry disappear silently (the track loses its media type, width, height, ...) *)
Definition ex12_stsd := mkStsd 0 0 (Some avc1_test) None None None None.
Definition ex12_stsd_free_first : bytes :=
  let b := wout (enc_stsd Dbg ex12_stsd) in
  c_bytes (mkChild false 0x73747364 (firstn 8 (skipn 8 b) ++ c_bytes (ex12_free false 4) ++ skipn 16 b)).
Lemma stsd_free_before_entry_refuted :
  fst (run (h <- read_header ;; dec_stsd_fuel 10 Dbg (snd h)) (stream_at (wout (enc_stsd Dbg ex12_stsd)) 0))
  = Ok ex12_stsd /\
  fst (run (h <- read_header ;; dec_stsd_fuel 10 Dbg (snd h)) (stream_at ex12_stsd_free_first 0))
  = Ok (mkStsd 0 0 None None None None None).
Proof. vm_compute. split; reflexivity. Qed.

(** [edts] likewise: a free box before [elst] and the edit list is gone *)
Definition ex12_edts := mkEdts (Some (mkElst 0 0 [mkElstEntry 1000 0 1 0])).
Definition ex12_edts_free_first : bytes :=
  c_bytes (mkChild false 0x65647473 (c_bytes (ex12_free false 4) ++ skipn 8 (wout (enc_edts ex12_edts)))).
Lemma edts_free_before_elst_refuted :
  fst (run (h <- read_header ;; dec_edts_fuel 10 Dbg (snd h)) (stream_at (wout (enc_edts ex12_edts)) 0))
  = Ok ex12_edts /\
  fst (run (h <- read_header ;; dec_edts_fuel 10 Dbg (snd h)) (stream_at ex12_edts_free_first 0))
  = Ok (mkEdts None).
Proof. vm_compute. split; reflexivity. Qed.

(** [hev1] requires [hvcC] to be the first child: anything before it is an error *)
Definition ex12_hev1_free_first : bytes :=
  let b := wout (enc_hev1 hev1_test) in
  c_bytes (mkChild false 0x68657631 (firstn 78 (skipn 8 b) ++ c_bytes (ex12_free false 4) ++ skipn 86 b)).
Lemma hev1_free_before_hvcc_refuted :
  fst (run (h <- read_header ;; dec_hev1 Dbg (snd h)) (stream_at (wout (enc_hev1 hev1_test)) 0)) = Ok hev1_test /\
  fst (run (h <- read_header ;; dec_hev1 Dbg (snd h)) (stream_at ex12_hev1_free_first 0)) = Err EData.
Proof. vm_compute. split; reflexivity. Qed.

(** [vp09] does not look at the type of its first child: a free box there is parsed AS vpcC *)
Definition ex12_vp09_free_first : bytes :=
  let b := wout (enc_vp09 vp09_default) in
  let n := lenN (wout (enc_vpcc (vp09_vpcc vp09_default))) in
  c_bytes (mkChild false 0x76703039
             (firstn (N.to_nat (lenN b - 8 - n)) (skipn 8 b) ++ c_bytes (ex12_free false 20)
              ++ skipn (N.to_nat (lenN b - n)) b)).
Lemma vp09_free_before_vpcc_refuted :
  fst (run (h <- read_header ;; dec_vp09 Dbg (snd h)) (stream_at (wout (enc_vp09 vp09_default)) 0)) = Ok vp09_default /\
  match fst (run (h <- read_header ;; dec_vp09 Dbg (snd h)) (stream_at ex12_vp09_free_first 0)) with
  | Ok v => vp09_vpcc v = mkVpcc 7 460551 7 7 0 3 true 7 7 7 1799
  | _ => False
  end.
Proof. vm_compute. split; reflexivity. Qed.

(** [dref] runs its loop [entry_count] times: a free box uses up an entry slot *)
Definition ex12_dref_free_first : bytes :=
  let b := wout (enc_dref dref_default) in
  c_bytes (mkChild false 0x64726566 (firstn 8 (skipn 8 b) ++ c_bytes (ex12_free false 4) ++ skipn 16 b)).
Lemma dref_free_before_url_refuted :
  fst (run (h <- read_header ;; dec_dref Dbg (snd h)) (stream_at (wout (enc_dref dref_default)) 0)) = Ok dref_default /\
  fst (run (h <- read_header ;; dec_dref Dbg (snd h)) (stream_at ex12_dref_free_first 0)) = Ok (mkDref 0 0 None).
Proof. vm_compute. split; reflexivity. Qed.

(** a [meta] box whose handler is not 'mdir' RECORDS every child but hdlr, free boxes included *)
Definition ex12_meta_free_last : bytes :=
  c_bytes (mkChild false 0x6d657461 (skipn 8 (wout (enc_meta meta_default)) ++ c_bytes (ex12_free false 2))).
Lemma meta_unknown_handler_records_free_refuted :
  fst (run (h <- read_header ;; dec_meta_fuel 10 Dbg (snd h)) (stream_at (wout (enc_meta meta_default)) 0))
  = Ok (MetaUnknown hdlr_default []) /\
  fst (run (h <- read_header ;; dec_meta_fuel 10 Dbg (snd h)) (stream_at ex12_meta_free_last 0))
  = Ok (MetaUnknown hdlr_default [(FreeBox, [7; 7])]).
Proof. vm_compute. split; reflexivity. Qed.

(** [meta] does not finish with [skip_bytes_to(start + size)]: zero padding after its last
    child stops ITS loop at the first zero header (8 bytes into the padding) and leaves the
    stream there, so the PARENT reads the rest of the padding as a header, sees size 0 and
    stops too: the traks that follow a padded moov-level meta are dropped, silently.  The same
    padding at the end of a udta (which does seek to its end) is harmless. *)
Definition ex12_moov_padded (code_and_box : bytes) (pad : nat) : bytes :=
  c_bytes (ex12_box false 0x6d6f6f76
    [ex12_child false (wout (enc_mvhd mvhd_default)) [];
     ex12_child false code_and_box (repeat 0 pad);
     ex12_child false (wout (enc_trak Dbg trak_test)) []]).
Definition ex12_ntraks (b : bytes) : option nat :=
  match fst (run (h <- read_header ;; dec_moov_fuel 100 Dbg (snd h)) (stream_at b 0)) with
  | Ok v => Some (length (moov_traks v))
  | _ => None
  end.
(* After the fix: commit c92578e ("leave the stream at the end of the meta box") the padding is harmless: regression example. *)
Lemma meta_zero_padding_is_harmless :
  let meta_b := wout (enc_meta (MetaMdir (Some ilst_test))) in
  let udta_b := wout (enc_udta (mkUdta (Some (MetaMdir (Some ilst_test))))) in
  map (fun n => ex12_ntraks (ex12_moov_padded meta_b n)) [0; 8; 12; 16]%nat = [Some 1; Some 1; Some 1; Some 1]%nat /\
  map (fun n => ex12_ntraks (ex12_moov_padded udta_b n)) [0; 8; 12; 16]%nat = [Some 1; Some 1; Some 1; Some 1]%nat.
Proof. vm_compute. split; reflexivity. Qed.

(** ... which makes the ORDER of siblings matter: the same three boxes (mvhd, a trak, a meta
    with 16 zero bytes after its last child) in two orders give one trak or none.  This pair
    contradicts C12 as stated (sibling order), so [C12_statement] below excludes meta boxes with
    bytes after their last child; with a final [skip_bytes_to(start + size)] in
    [MetaBox::read_box], as every other container has, the exclusion would not be needed. *)
Definition ex12_padded_meta : child :=
  ex12_child false (wout (enc_meta (MetaMdir (Some ilst_test)))) (repeat 0 16).
(* fixed by c92578e: both orders now give the trak *)
Lemma meta_padding_sibling_order_irrelevant :
  let mvhd_c := ex12_child false (wout (enc_mvhd mvhd_default)) [] in
  let trak_c := ex12_child false (wout (enc_trak Dbg trak_test)) [] in
  ex12_ntraks (c_bytes (ex12_box false 0x6d6f6f76 [mvhd_c; trak_c; ex12_padded_meta])) = Some 1%nat /\
  ex12_ntraks (c_bytes (ex12_box false 0x6d6f6f76 [mvhd_c; ex12_padded_meta; trak_c])) = Some 1%nat.
Proof. vm_compute. split; reflexivity. Qed.

(** ** The full statement

    [C12_statement] below was the first attempt to write the property as one proposition over box trees, for non-fragmented files.
    It is FALSE as written ([Props/C12Tree.v], [C12_first_statement_is_false]): it quantifies over ANY well-formed trees and takes the SYMMETRIC
    closure of the layout steps, and "append spare bytes", read backwards, truncates a box.  The corrected theorem — the same conclusion, for trees that
    have a structural decoding (which includes every ISO rendering of well-formed values) — is proved in [Proofs/LayoutTree*.v] and restated in
    [Props/C12Tree.v]: [C12_tree_canonical] (any chain of steps through canonical lists) and [C12_tree_forward] (only the start is assumed canonical).
    The definitions below are kept because those theorems are stated with them.  Fragmented files (moof offsets, trun data offsets and tfhd base offsets
    move with the layout) remain outside the tree theorem: [moof_offsets_are_positions] and the moof / traf fold theorems are what is proved there; the
    metamorphic check covers them on the real reader. *)

(** a box tree: a leaf is any box taken as a whole; a node is a box whose payload is the
    rendering of its children *)
Inductive btree :=
| BLeaf (c : child)
| BNode (w64 : bool) (code : N) (kids : list btree).

Fixpoint bt_child (t : btree) : child :=
  match t with
  | BLeaf c => c
  | BNode w code kids => mkChild w code (flat_map (fun k => c_bytes (bt_child k)) kids)
  end.

Inductive bt_wf : btree -> Prop :=
| wf_leaf c : child_wf c -> bt_wf (BLeaf c)
| wf_node w code kids :
    child_wf (bt_child (BNode w code kids)) -> Forall bt_wf kids -> bt_wf (BNode w code kids).

(** the containers that iterate over their children, with the child types each interprets *)
Definition iterating (code : N) : option (boxtype -> bool) :=
  match boxtype_of_u32 code with
  | MoovBox => Some moov_known | TrakBox => Some trak_known | MdiaBox => Some mdia_known
  | MinfBox => Some minf_known | StblBox => Some stbl_known | DinfBox => Some dinf_known
  | UdtaBox => Some udta_known | MvexBox => Some mvex_known
  | _ => None
  end.

(** fixed-layout and table boxes (and hdlr, whose string is NUL-terminated) *)
Definition spare_ok (code : N) : bool :=
  match boxtype_of_u32 code with
  | MvhdBox | TkhdBox | MdhdBox | VmhdBox | SmhdBox | HdlrBox
  | SttsBox | CttsBox | StscBox | StszBox | StssBox | StcoBox | Co64Box => true
  | _ => false
  end.

(** one layout step among the children of a loop that interprets the types [known], and one
    layout step on a tree *)
Inductive lstep : (boxtype -> bool) -> list btree -> list btree -> Prop :=
| ls_insert known l1 l2 c :
    known (boxtype_of_u32 (c_code c)) = false -> child_wf c ->
    lstep known (l1 ++ l2) (l1 ++ BLeaf c :: l2)
| ls_swap known l1 l2 a b :
    c_code (bt_child a) <> c_code (bt_child b) ->
    lstep known (l1 ++ a :: b :: l2) (l1 ++ b :: a :: l2)
| ls_inside known l1 l2 a b :
    tstep a b -> lstep known (l1 ++ a :: l2) (l1 ++ b :: l2)
with tstep : btree -> btree -> Prop :=
| ts_hdr_leaf c b : tstep (BLeaf c) (BLeaf (with_w64 b c))
| ts_hdr_node w b code kids : tstep (BNode w code kids) (BNode b code kids)
| ts_spare c spare : spare_ok (c_code c) = true -> tstep (BLeaf c) (BLeaf (with_tail spare c))
| ts_stco w v v' spare :
    (* the chunk offsets are rewritten (as many entries) *)
    stco_version v' = stco_version v -> stco_flags v' = stco_flags v ->
    length (stco_entries v') = length (stco_entries v) ->
    tstep (BLeaf (mkChild w 0x7374636f (iso_stco_payload v ++ spare)))
          (BLeaf (mkChild w 0x7374636f (iso_stco_payload v' ++ spare)))
| ts_co64 w v v' spare :
    co64_version v' = co64_version v -> co64_flags v' = co64_flags v ->
    length (co64_entries v') = length (co64_entries v) ->
    tstep (BLeaf (mkChild w 0x636f3634 (iso_co64_payload v ++ spare)))
          (BLeaf (mkChild w 0x636f3634 (iso_co64_payload v' ++ spare)))
| ts_kids w code known kids kids' :
    iterating code = Some known -> lstep known kids kids' ->
    tstep (BNode w code kids) (BNode w code kids').

(** every leaf of a tree satisfies [P] *)
Inductive bt_leaves (P : child -> Prop) : btree -> Prop :=
| bl_leaf c : P c -> bt_leaves P (BLeaf c)
| bl_node w code kids : Forall (bt_leaves P) kids -> bt_leaves P (BNode w code kids).

(** a meta box is filled exactly by its children (see [meta_padding_makes_sibling_order_matter_refuted]) *)
Definition meta_tight (c : child) : Prop :=
  c_code c = 0x6d657461 ->
  exists kids, Forall child_wf kids /\ (c_payload c = be 4 0 ++ render kids \/ c_payload c = render kids).

Definition file_of (ts : list btree) : bytes := render (map bt_child ts).

Definition opens (m : mode) (f : bytes) (r : mp4reader) : Prop :=
  exists fuel, fst (run (open_fuel fuel m (lenN f)) (stream_at f 0)) = Ok r.

(** the moov without the entries of its chunk-offset tables *)
Definition strip_chunk_offsets (v : moov) : moov :=
  mkMoov (moov_mvhd v) (moov_meta v) (moov_mvex v)
    (map (fun t =>
            let md := trak_mdia t in let mi := mdia_minf md in let s := minf_stbl mi in
            mkTrak (trak_tkhd t) (trak_edts t) (trak_meta t)
              (mkMdia (mdia_mdhd md) (mdia_hdlr md)
                 (mkMinf (minf_vmhd mi) (minf_smhd mi) (minf_dinf mi)
                    (mkStbl (stbl_stsd s) (stbl_stts s) (stbl_ctts s) (stbl_stss s)
                            (stbl_stsc s) (stbl_stsz s)
                            (option_map (fun c => mkStco (stco_version c) (stco_flags c) []) (stbl_stco s))
                            (option_map (fun c => mkCo64 (co64_version c) (co64_flags c) []) (stbl_co64 s))))))
         (moov_traks v))
    (moov_udta v).

Definition C12_statement : Prop :=
  forall m (TA TB : list btree) ra,
    Forall bt_wf TA -> Forall bt_wf TB ->
    Forall (bt_leaves meta_tight) TA -> Forall (bt_leaves meta_tight) TB ->
    clos_refl_sym_trans _ (lstep open_known) TA TB ->
    let A := file_of TA in
    let B := file_of TB in
    opens m A ra -> rd_moofs ra = [] ->
    exists rb,
      opens m B rb /\
      (* the same movie: brands, metadata, every box of the moov except the chunk offsets *)
      rd_ftyp rb = rd_ftyp ra /\ rd_emsgs rb = rd_emsgs ra /\ rd_moofs rb = [] /\
      rd_metadata rb = rd_metadata ra /\
      strip_chunk_offsets (rd_moov rb) = strip_chunk_offsets (rd_moov ra) /\
      map fst (rd_tracks rb) = map fst (rd_tracks ra) /\
      rd_size ra = lenN A /\ rd_size rb = lenN B /\
      forall tid ta tb,
        tracks_get tid (rd_tracks ra) = Some ta -> tracks_get tid (rd_tracks rb) = Some tb ->
        (* the same per-sample tables *)
        Track.sample_count (track_view tb) = Track.sample_count (track_view ta) /\
        (forall sid,
           Track.sample_size (track_view tb) sid = Track.sample_size (track_view ta) sid /\
           Track.sample_time m (track_view tb) sid = Track.sample_time m (track_view ta) sid /\
           Track.sample_rendering_offset (track_view tb) sid = Track.sample_rendering_offset (track_view ta) sid /\
           Track.is_sync_sample (track_view tb) sid = Track.is_sync_sample (track_view ta) sid) /\
        (* offsets shifted by exactly the layout change: when the chunk offsets of the track
           were rewritten by the displacement [delta] of its media data ... *)
        (forall delta,
           Track.tr_tables (track_view tb) = shift_tables delta (Track.tr_tables (track_view ta)) ->
           forall sid o, Track.sample_offset m (track_view ta) sid = Ok o -> o + delta < U64 ->
             Track.sample_offset m (track_view tb) sid = Ok (o + delta) /\
             (* ... and the media data is where the offsets say, the same sample is read *)
             forall sz h,
               Track.sample_size (track_view ta) sid = Ok sz ->
               (sz = 0 \/ (exists r, splitN sz (dropN o A) = Some (h, r)) /\
                          (exists r', splitN sz (dropN (o + delta) B) = Some (h, r'))) ->
               fst (run (rd_read_sample m ra tid sid) (stream_at A 0))
               = fst (run (rd_read_sample m rb tid sid) (stream_at B 0))).
