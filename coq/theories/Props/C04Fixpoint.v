(** Property C04, second half — re-encoding is a fixpoint (statements only; proofs in Proofs/DecWfG1.v, DecWfG2.v, DecWfG3.v).

    "For any bytes the decoder accepts whose re-encoding succeeds, decoding the re-encoded bytes yields the same value again."
    [fixpoint_law dec enc size good]: for ANY stream (any byte lists as data and view, any position, either build mode, any declared size) on which
    the decoder returns a value [v] with [good v] and [size v < 2^32]: the encoder succeeds and returns [size v], and decoding the encoded payload
    ([wout (enc v)] without its 8-byte header, which the caller has consumed) at any position, followed by any bytes, in either build mode, returns [v] again
    and leaves the stream at the end of the box.  The proofs go through "every value a decoder returns is well formed" ([dec_xxx_wf]: the decoders' RANGE is
    inside the domain of the round-trip theorems of C04.v).
    [good] is [fun _ => True] for every box except the esds / mp4a family, where the decoder's range is larger than the encoder's domain:
    audio object types >= 31 (known finding D80) and samplingFrequencyIndex 15 (known finding D95) — the witnesses [esds_f15_*], [esds_aot40_*] in
    Proofs/DecWfG3.v show re-encoding is NOT a fixpoint there.  For url / dref / dinf the library accepts boxes whose self-contained flag disagrees with
    the presence of a location string (ISO 8.7.2); re-encoding is a fixpoint for them too ([url_wf0]: the round trip is re-proved without that conjunct). *)
From MP4 Require Import Kit DecWfKitG1 DecWfG1 DecWfKitG2 DecWfG2 DecWfKitG3 DecWfG3 DecWfCont.
From MP4 Require Import BoxMoov BoxMoof KitCont RtStsd RtStbl RtMinf RtMdia RtEdts RtTrak RtMvex RtTraf RtMoof RtIlst RtMeta RtUdta RtMoov.
From MP4 Require Import BoxAvc1 BoxCo64 BoxCtts BoxData BoxDinf BoxElst BoxEmsg BoxFtyp BoxHdlr BoxHev1 BoxMdhd BoxMehd BoxMfhd BoxMp4a BoxMvhd BoxSmhd BoxStco BoxStsc BoxStss BoxStsz BoxStts BoxTfdt BoxTfhd BoxTkhd BoxTrex BoxTrun BoxTx3g BoxVmhd BoxVp09 BoxVpcc.
Open Scope N_scope.

Definition fixpoint_law {X} (dec : mode -> N -> prog X) (enc : X -> wprog N) (size : X -> N) (good : X -> Prop) : Prop :=
  forall m sz s v s', run (dec m sz) s = (Ok v, s') ->
    bytes_ok (s_view s) = true -> bytes_ok (s_data s) = true -> good v -> size v < U32 ->
    wfin (enc v) = Ok (size v) /\
    forall m' d l p post, p + size v < 2 ^ 63 ->
      run (dec m' (size v)) (mkStream d l (p + 8) (dropN 8 (wout (enc v)) ++ post))
      = (Ok v, mkStream d l (p + size v) post).

Theorem C04_ftyp_fixpoint : fixpoint_law dec_ftyp enc_ftyp ftyp_size (fun _ => True).
Proof. intros m sz s v s' E Hv Hd _ Hs. exact (ftyp_reencode_fixpoint m sz s v s' E Hv Hd Hs). Qed.
Print Assumptions C04_ftyp_fixpoint.

Theorem C04_mvhd_fixpoint : fixpoint_law dec_mvhd enc_mvhd mvhd_size (fun _ => True).
Proof. intros m sz s v s' E Hv Hd _ Hs. exact (mvhd_reencode_fixpoint m sz s v s' E Hv Hd Hs). Qed.
Print Assumptions C04_mvhd_fixpoint.

Theorem C04_mdhd_fixpoint : fixpoint_law dec_mdhd enc_mdhd mdhd_size (fun _ => True).
Proof. intros m sz s v s' E Hv Hd _ Hs. exact (mdhd_reencode_fixpoint m sz s v s' E Hv Hd Hs). Qed.
Print Assumptions C04_mdhd_fixpoint.

Theorem C04_tkhd_fixpoint : fixpoint_law dec_tkhd enc_tkhd tkhd_size (fun _ => True).
Proof. intros m sz s v s' E Hv Hd _ Hs. exact (tkhd_reencode_fixpoint m sz s v s' E Hv Hd Hs). Qed.
Print Assumptions C04_tkhd_fixpoint.

Theorem C04_mehd_fixpoint : fixpoint_law dec_mehd enc_mehd mehd_size (fun _ => True).
Proof. intros m sz s v s' E Hv Hd _ Hs. exact (mehd_reencode_fixpoint m sz s v s' E Hv Hd Hs). Qed.
Print Assumptions C04_mehd_fixpoint.

Theorem C04_mfhd_fixpoint : fixpoint_law dec_mfhd enc_mfhd mfhd_size (fun _ => True).
Proof. intros m sz s v s' E Hv Hd _ Hs. exact (mfhd_reencode_fixpoint m sz s v s' E Hv Hd Hs). Qed.
Print Assumptions C04_mfhd_fixpoint.

Theorem C04_tfdt_fixpoint : fixpoint_law dec_tfdt enc_tfdt tfdt_size (fun _ => True).
Proof. intros m sz s v s' E Hv Hd _ Hs. exact (tfdt_reencode_fixpoint m sz s v s' E Hv Hd Hs). Qed.
Print Assumptions C04_tfdt_fixpoint.

Theorem C04_trex_fixpoint : fixpoint_law dec_trex enc_trex trex_size (fun _ => True).
Proof. intros m sz s v s' E Hv Hd _ Hs. exact (trex_reencode_fixpoint m sz s v s' E Hv Hd Hs). Qed.
Print Assumptions C04_trex_fixpoint.

Theorem C04_smhd_fixpoint : fixpoint_law dec_smhd enc_smhd smhd_size (fun _ => True).
Proof. intros m sz s v s' E Hv Hd _ Hs. exact (smhd_reencode_fixpoint m sz s v s' E Hv Hd Hs). Qed.
Print Assumptions C04_smhd_fixpoint.

Theorem C04_vmhd_fixpoint : fixpoint_law dec_vmhd enc_vmhd vmhd_size (fun _ => True).
Proof. intros m sz s v s' E Hv Hd _ Hs. exact (vmhd_reencode_fixpoint m sz s v s' E Hv Hd Hs). Qed.
Print Assumptions C04_vmhd_fixpoint.

Theorem C04_tfhd_fixpoint : fixpoint_law dec_tfhd enc_tfhd tfhd_size (fun _ => True).
Proof. intros m sz s v s' E Hv Hd _ Hs. exact (tfhd_reencode_fixpoint m sz s v s' E Hv Hd Hs). Qed.
Print Assumptions C04_tfhd_fixpoint.

Theorem C04_tx3g_fixpoint : fixpoint_law dec_tx3g enc_tx3g tx3g_size (fun _ => True).
Proof. intros m sz s v s' E Hv Hd _ Hs. exact (tx3g_reencode_fixpoint m sz s v s' E Hv Hd Hs). Qed.
Print Assumptions C04_tx3g_fixpoint.

Theorem C04_vpcc_fixpoint : fixpoint_law dec_vpcc enc_vpcc vpcc_size (fun _ => True).
Proof. intros m sz s v s' E Hv Hd _ Hs. exact (vpcc_reencode_fixpoint m sz s v s' E Hv Hd Hs). Qed.
Print Assumptions C04_vpcc_fixpoint.

Theorem C04_vp09_fixpoint : fixpoint_law dec_vp09 enc_vp09 vp09_size (fun _ => True).
Proof. intros m sz s v s' E Hv Hd _ Hs. exact (vp09_reencode_fixpoint m sz s v s' E Hv Hd Hs). Qed.
Print Assumptions C04_vp09_fixpoint.

Theorem C04_hdlr_fixpoint : fixpoint_law dec_hdlr enc_hdlr hdlr_size (fun _ => True).
Proof. intros m sz s v s' E Hv Hd _ Hs. exact (hdlr_reencode_fixpoint m sz s v s' E Hv Hd Hs). Qed.
Print Assumptions C04_hdlr_fixpoint.

Theorem C04_stts_fixpoint : fixpoint_law dec_stts enc_stts stts_size (fun _ => True).
Proof. intros m sz s v s' E Hv Hd _ Hs. exact (stts_reencode_fixpoint m sz s v s' E Hv Hd Hs). Qed.
Print Assumptions C04_stts_fixpoint.

Theorem C04_ctts_fixpoint : fixpoint_law dec_ctts enc_ctts ctts_size (fun _ => True).
Proof. intros m sz s v s' E Hv Hd _ Hs. exact (ctts_reencode_fixpoint m sz s v s' E Hv Hd Hs). Qed.
Print Assumptions C04_ctts_fixpoint.

Theorem C04_stsc_fixpoint : fixpoint_law dec_stsc enc_stsc stsc_size (fun _ => True).
Proof. intros m sz s v s' E Hv Hd _ Hs. exact (stsc_reencode_fixpoint m sz s v s' E Hv Hd Hs). Qed.
Print Assumptions C04_stsc_fixpoint.

Theorem C04_stsz_fixpoint : fixpoint_law dec_stsz enc_stsz stsz_size (fun _ => True).
Proof. intros m sz s v s' E Hv Hd _ Hs. exact (stsz_reencode_fixpoint m sz s v s' E Hv Hd Hs). Qed.
Print Assumptions C04_stsz_fixpoint.

Theorem C04_stss_fixpoint : fixpoint_law dec_stss enc_stss stss_size (fun _ => True).
Proof. intros m sz s v s' E Hv Hd _ Hs. exact (stss_reencode_fixpoint m sz s v s' E Hv Hd Hs). Qed.
Print Assumptions C04_stss_fixpoint.

Theorem C04_stco_fixpoint : fixpoint_law dec_stco enc_stco stco_size (fun _ => True).
Proof. intros m sz s v s' E Hv Hd _ Hs. exact (stco_reencode_fixpoint m sz s v s' E Hv Hd Hs). Qed.
Print Assumptions C04_stco_fixpoint.

Theorem C04_co64_fixpoint : fixpoint_law dec_co64 enc_co64 co64_size (fun _ => True).
Proof. intros m sz s v s' E Hv Hd _ Hs. exact (co64_reencode_fixpoint m sz s v s' E Hv Hd Hs). Qed.
Print Assumptions C04_co64_fixpoint.

Theorem C04_elst_fixpoint : fixpoint_law dec_elst enc_elst elst_size (fun _ => True).
Proof. intros m sz s v s' E Hv Hd _ Hs. exact (elst_reencode_fixpoint m sz s v s' E Hv Hd Hs). Qed.
Print Assumptions C04_elst_fixpoint.

Theorem C04_data_fixpoint : fixpoint_law dec_data enc_data data_size (fun _ => True).
Proof. intros m sz s v s' E Hv Hd _ Hs. exact (data_reencode_fixpoint m sz s v s' E Hv Hd Hs). Qed.
Print Assumptions C04_data_fixpoint.

Theorem C04_emsg_fixpoint : fixpoint_law dec_emsg enc_emsg emsg_size (fun _ => True).
Proof. intros m sz s v s' E Hv Hd _ Hs. exact (emsg_reencode_fixpoint m sz s v s' E Hv Hd Hs). Qed.
Print Assumptions C04_emsg_fixpoint.

Theorem C04_trun_fixpoint : fixpoint_law dec_trun enc_trun trun_size (fun _ => True).
Proof. intros m sz s v s' E Hv Hd _ Hs. exact (trun_reencode_fixpoint m sz s v s' E Hv Hd Hs). Qed.
Print Assumptions C04_trun_fixpoint.

Theorem C04_url_fixpoint : fixpoint_law dec_url enc_url url_size (fun _ => True).
Proof. intros m sz s v s' E Hv Hd _ Hs. exact (url_reencode_fixpoint m sz s v s' E Hv Hd Hs). Qed.
Print Assumptions C04_url_fixpoint.

Theorem C04_dref_fixpoint : fixpoint_law dec_dref enc_dref dref_size (fun _ => True).
Proof. intros m sz s v s' E Hv Hd _ Hs. exact (dref_reencode_fixpoint m sz s v s' E Hv Hd Hs). Qed.
Print Assumptions C04_dref_fixpoint.

Theorem C04_dinf_fixpoint : fixpoint_law dec_dinf enc_dinf dinf_size (fun _ => True).
Proof. intros m sz s v s' E Hv Hd _ Hs. exact (dinf_reencode_fixpoint m sz s v s' E Hv Hd Hs). Qed.
Print Assumptions C04_dinf_fixpoint.

Theorem C04_avcc_fixpoint : fixpoint_law dec_avcc enc_avcc avcc_size (fun _ => True).
Proof. intros m sz s v s' E Hv Hd _ Hs. exact (avcc_reencode_fixpoint m sz s v s' E Hv Hd Hs). Qed.
Print Assumptions C04_avcc_fixpoint.

Theorem C04_avc1_fixpoint : fixpoint_law dec_avc1 enc_avc1 avc1_size (fun _ => True).
Proof. intros m sz s v s' E Hv Hd _ Hs. exact (avc1_reencode_fixpoint m sz s v s' E Hv Hd Hs). Qed.
Print Assumptions C04_avc1_fixpoint.

Theorem C04_hvcc_fixpoint : fixpoint_law dec_hvcc enc_hvcc hvcc_size (fun _ => True).
Proof. intros m sz s v s' E Hv Hd _ Hs. exact (hvcc_reencode_fixpoint m sz s v s' E Hv Hd Hs). Qed.
Print Assumptions C04_hvcc_fixpoint.

Theorem C04_hev1_fixpoint : fixpoint_law dec_hev1 enc_hev1 hev1_size (fun _ => True).
Proof. intros m sz s v s' E Hv Hd _ Hs. exact (hev1_reencode_fixpoint m sz s v s' E Hv Hd Hs). Qed.
Print Assumptions C04_hev1_fixpoint.

(** the esds / mp4a family: under [esds_plain] / [mp4a_plain] (object type < 31 and frequency index <> 15 in the decoder-specific descriptor, if there is one) *)
Theorem C04_esds_fixpoint : forall m0, fixpoint_law dec_esds (enc_esds m0) esds_size esds_plain.
Proof. intros m0 m sz s v s' E Hv Hd Hp Hs. exact (esds_reencode_fixpoint m0 m sz s v s' E Hv Hd Hp Hs). Qed.
Print Assumptions C04_esds_fixpoint.

Theorem C04_mp4a_fixpoint : forall m0, fixpoint_law dec_mp4a (enc_mp4a m0) mp4a_size mp4a_plain.
Proof. intros m0 m sz s v s' E Hv Hd Hp Hs. exact (mp4a_reencode_fixpoint m0 m sz s v s' E Hv Hd Hp Hs). Qed.
Print Assumptions C04_mp4a_fixpoint.

(** outside [esds_plain] re-encoding is NOT a fixpoint (D95: frequency index 15; D80: object type >= 32): the bytes [esds_f15_bytes] decode, re-encode
    successfully, and the re-encoded bytes decode to a different value, in both build modes *)
Theorem C04_esds_f15_refuted : exists bytes v v', bytes_ok bytes = true /\
  (forall m, run (dec_esds m 42) (stream_at bytes 8) = (Ok v, stream_at bytes 42)) /\
  (forall m, wfin (enc_esds m v) = Ok (esds_size v)) /\
  (forall m m', fst (run (dec_esds m' (esds_size v)) (stream_at (wout (enc_esds m v)) 8)) = Ok v') /\ v' <> v.
Proof.
  exists esds_f15_bytes, (esds_f15_v 1), (esds_f15_v 0).
  split; [exact esds_f15_input_ok|]. split; [exact esds_f15_decodes|]. split; [exact esds_f15_reencodes|].
  split; [exact esds_f15_not_fixpoint|exact esds_f15_differs].
Qed.
Print Assumptions C04_esds_f15_refuted.

(** ** Containers (Proofs/DecWfCont.v): the same law for the fuelled container decoders — [cont_fixpoint_law dec enc size fb good]: a value [v] decoded
    with ANY fuel from ANY stream, with [good v] and [size v < 2^32], re-encodes successfully and decodes again to [v] with any fuel >= [fb v];
    [cont_fixpoint_law_s] (meta, udta, trak, moov: [meta] re-reads its data) additionally asks that the stream's data holds the bytes at the position.
    [*_good] = every mp4a entry inside is [mp4a_plain] (D80 / D95).  The decoded values of minf / mdia / trak / moov need not satisfy the ISO url rule
    ([minf_url_not_rt_wf]); the round trips are re-proved without it ([*_rt_wf0]).  An stsd with entry_count 2 decodes to its first entry only
    ([stsd_second_entry_dropped]: lost on input, the re-encoding of what was decoded is a fixpoint). *)
Theorem C04_containers_fixpoint : forall me : mode,
  cont_fixpoint_law dec_stsd_fuel (enc_stsd me) stsd_size (fun _ => 1%nat) stsd_good
  /\ cont_fixpoint_law dec_stbl_fuel (enc_stbl me) stbl_size (fun _ => 9%nat) stbl_good
  /\ cont_fixpoint_law dec_dinf_fuel (fun v => enc_dinf v) dinf_size (fun _ => 1%nat) (fun _ => True)
  /\ cont_fixpoint_law dec_minf_fuel (enc_minf me) minf_size (fun _ => 13%nat) minf_good
  /\ cont_fixpoint_law dec_mdia_fuel (enc_mdia me) mdia_size (fun _ => 16%nat) mdia_good
  /\ cont_fixpoint_law dec_edts_fuel enc_edts edts_size (fun _ => 0%nat) (fun _ => True)
  /\ cont_fixpoint_law dec_mvex_fuel enc_mvex mvex_size mvex_fuel (fun _ => True)
  /\ cont_fixpoint_law dec_traf_fuel enc_traf traf_size traf_fuel (fun _ => True)
  /\ cont_fixpoint_law dec_moof_fuel enc_moof moof_size moof_fuel (fun _ => True)
  /\ cont_fixpoint_law dec_ilst_fuel enc_ilst ilst_size ilst_fuel (fun _ => True)
  /\ cont_fixpoint_law_s dec_meta_fuel enc_meta meta_size meta_fuel (fun _ => True)
  /\ cont_fixpoint_law_s dec_udta_fuel enc_udta udta_size udta_fuel (fun _ => True)
  /\ cont_fixpoint_law_s dec_trak_fuel (enc_trak me) trak_size trak_fuel trak_good
  /\ cont_fixpoint_law_s dec_moov_fuel (enc_moov me) moov_size moov_fuel moov_good.
Proof. exact containers_reencode_fixpoint. Qed.
Print Assumptions C04_containers_fixpoint.
