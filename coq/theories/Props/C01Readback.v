(** Property C01, read-back form — what the muxer wrote is what the reader's lookup functions return
    (statements only; proofs in Proofs/MuxReadback.v, by composing C01 [C01_mux_demux_fidelity] with
    C03 [lookup_sound] / [read_sample_sound]).

    Writer side: [run_mux m base cfg ops = Ok (cls, f)] is a run of the muxer model (Model/Writer.v) in build mode [m]
    whose first output byte has absolute stream position [base]; [accepted_samples ops cls (i+1)] is the list of the
    samples of the accepted [write_sample(i+1, _)] calls; [ops_typed] / [history_fits] are the hypotheses of C01.
    Reader side: [track_of tb] (C03.v) is the track a reader builds from the wire fields of the tables [tb]: the stsc
    [first_sample] fields are re-derived as [StscBox::read_box] does.  This matters: the muxer's own in-memory
    [first_sample] is wrong for a run created by the final flush ([C01_writer_first_sample_refuted]) but is never
    serialised.  [sample_size], [sample_time], [sample_rendering_offset], [is_sync_sample], [sample_offset],
    [read_sample] are the lookup functions of Model/Track.v (src/track.rs) in build mode [m'] (independent of [m]).
    The stream of the reader model starts at position 0, the muxer's output at [mf_base f = base]: the data read is
    [pre ++ mf_out f ++ tail] for ANY [pre] of [mf_base f] bytes (what was in the stream before the muxer started)
    and ANY [tail] (in a real file: the moov box), from ANY initial stream position [pos]. *)
From MP4 Require Import Writer SampleTable MuxProofs MuxInv LookupProofs MuxReadback C03.
Open Scope list_scope.
Open Scope N_scope.

Definition C01_readback_statement : Prop := forall m m' base cfg ops cls f,
  run_mux m base cfg ops = Ok (cls, f) ->
  ops_typed ops = true ->
  history_fits base cfg ops cls = true ->
  forall i tf, nth_error (mf_tracks f) i = Some tf ->
    let ss := accepted_samples ops cls (N.of_nat i + 1) in
    exists t, track_of (tf_tables tf) = Some t /\ sample_count t = lenN ss /\
      (forall k, 1 <= k <= lenN ss ->
         exists s, nth1 ss k = Some s /\
           let start := sumN (map ws_duration (firstn (N.to_nat (k - 1)) ss)) in
           sample_size t k = Ok (lenN (ws_bytes s)) /\
           sample_time m' t k = Ok (start, ws_duration s) /\
           sample_rendering_offset t k = ws_rendering_offset s /\
           is_sync_sample t k = Ok (ws_is_sync s) /\
           exists off,
             sample_offset m' t k = Ok off /\
             mf_mdat_pos f + 16 <= off /\ off + lenN (ws_bytes s) <= mf_base f + lenN (mf_out f) /\
             forall pre tail pos, lenN pre = mf_base f ->
               exists s',
                 run (read_sample m' t k) (stream_at (pre ++ mf_out f ++ tail) pos) =
                   (Ok (Some (mkSample start (ws_duration s) (ws_rendering_offset s) (ws_is_sync s) (ws_bytes s))), s') /\
                 s_data s' = pre ++ mf_out f ++ tail /\ s_pos s' = off + lenN (ws_bytes s)) /\
      (forall k, k = 0 \/ lenN ss < k ->
         forall st, match fst (run (read_sample m' t k) st) with
                    | Ok (Some _) => False
                    | Panic _ => False
                    | _ => True
                    end).

Theorem C01_mux_then_lookup : C01_readback_statement.
Proof. exact mux_then_lookup. Qed.
Print Assumptions C01_mux_then_lookup.

(** indexed by the accepted sample instead of by the range of ids *)
Theorem C01_mux_then_lookup_nth : forall m m' base cfg ops cls f,
  run_mux m base cfg ops = Ok (cls, f) -> ops_typed ops = true -> history_fits base cfg ops cls = true ->
  forall i tf, nth_error (mf_tracks f) i = Some tf ->
    let ss := accepted_samples ops cls (N.of_nat i + 1) in
    exists t, track_of (tf_tables tf) = Some t /\
      forall k s, nth1 ss k = Some s -> readback_sample m' f t ss k s.
Proof. exact mux_then_lookup_nth. Qed.
Print Assumptions C01_mux_then_lookup_nth.

(** the muxer's output at stream position 0: [read_sample] on the output followed by anything returns the sample *)
Theorem C01_mux_then_read : forall m m' cfg ops cls f,
  run_mux m 0 cfg ops = Ok (cls, f) -> ops_typed ops = true -> history_fits 0 cfg ops cls = true ->
  forall i tf, nth_error (mf_tracks f) i = Some tf ->
    let ss := accepted_samples ops cls (N.of_nat i + 1) in
    exists t, track_of (tf_tables tf) = Some t /\
      forall k s, nth1 ss k = Some s ->
        forall tail pos,
          fst (run (read_sample m' t k) (stream_at (mf_out f ++ tail) pos)) =
            Ok (Some (mkSample (sumN (map ws_duration (firstn (N.to_nat (k - 1)) ss)))
                               (ws_duration s) (ws_rendering_offset s) (ws_is_sync s) (ws_bytes s))).
Proof. exact mux_then_read_base0. Qed.
Print Assumptions C01_mux_then_read.

(** ** Non-vacuity: the two-track history of C01.v ([ex_ops], muxed in [Dbg] at base 100, hypotheses:
    [C01_ex_runs], [C01_ex_hypotheses]), read back in [Rel] from a stream holding 100 foreign bytes, the output and
    one trailing byte, starting from a position behind the data.  Video: 5 accepted samples, audio: 3;
    ids 0 and count+1 yield no sample. *)
Definition rb_ex_read (t : track) (f : mfinal) (k : N) : res (option sample) :=
  fst (run (read_sample Rel t k) (stream_at (repeatN 170 100 ++ mf_out f ++ [187]) 1000)).

Example C01_readback_ex :
  match run_mux Dbg 100 ex_cfg ex_ops with
  | Ok (cls, f) =>
      cls = ex_cls /\ mf_base f = 100 /\
      match mf_tracks f with
      | [v; a] =>
          match track_of (tf_tables v), track_of (tf_tables a) with
          | Some tv, Some ta =>
              sample_count tv = 5 /\ sample_count ta = 3 /\
              map (rb_ex_read tv f) [0; 1; 2; 3; 4; 5; 6] =
                [Err EData;
                 Ok (Some (mkSample 0 500 0 true [1; 2; 3]));
                 Ok (Some (mkSample 500 500 0 false [4; 5; 6]));
                 Ok (Some (mkSample 1000 500 0 false []));
                 Ok (Some (mkSample 1500 500 250 true [7]));
                 Ok (Some (mkSample 2000 300 (-20) false []));
                 Ok None] /\
              map (rb_ex_read ta f) [0; 1; 2; 3; 4] =
                [Err EData;
                 Ok (Some (mkSample 0 24000 0 true [9; 9]));
                 Ok (Some (mkSample 24000 24000 0 true [8; 8]));
                 Ok (Some (mkSample 48000 24000 0 true []));
                 Ok None] /\
              map (sample_offset Rel tv) [1; 2; 3; 4; 5] = [Ok 140; Ok 143; Ok 150; Ok 150; Ok 151] /\
              map (sample_offset Dbg ta) [1; 2; 3] = [Ok 146; Ok 148; Ok 151]
          | _, _ => False
          end
      | _ => False
      end
  | _ => False
  end.
Proof. vm_compute. repeat split; reflexivity. Qed.

(** the second history of C01.v ([ex2_ops]: a run created by the final flush).  Through [track_of] the reader finds
    sample 5 at the specified offset 50, where the writer's in-memory tables say 46
    ([C01_writer_first_sample_refuted]) *)
Example C01_readback_ex2 :
  match run_mux Dbg 0 ex_cfg ex2_ops with
  | Ok (_, f) =>
      match mf_tracks f with
      | [v] =>
          match track_of (tf_tables v) with
          | Some t =>
              sample_offset Dbg t 5 = Ok 50 /\
              fst (run (read_sample Dbg t 5) (stream_at (mf_out f) 0)) = Ok (Some (mkSample 1300 100 0 true [5; 5; 5; 5; 5]))
          | None => False
          end
      | _ => False
      end
  | _ => False
  end.
Proof. vm_compute. repeat split; reflexivity. Qed.
