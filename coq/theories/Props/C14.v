(** * Property C14 — track and movie configuration survives the muxer (writer side)

    Statements only; proofs in [Proofs/MuxTotal.v].  They are about what the muxer model
    ([Model/Writer.v]) hands to the [moov] encoder ([mf_tracks f], [mf_mvhd_*]) and about the
    bytes it writes before [moov]; the box codecs' round trips carry the values from there to
    the reader.  [mux_pre]: durations are u32 values, fewer than 2^32-1 tracks, the mdat header
    lies below 2^64 (see [Props/C17.v]).  Both build modes. *)
From MP4 Require Import Writer MuxTotal.
Open Scope string_scope.
Open Scope list_scope.
Open Scope N_scope.

(** The tracks of the file are exactly the configurations [add_track] accepted, in call order
    and unchanged, numbered 1, 2, ...; [add_track] accepts exactly the configurations that pass
    [conf_check]; the movie timescale is the configured one; the output starts with the
    configured [ftyp] box. *)
Theorem configuration_survives : forall m base cfg ops cls f,
  mux_pre base cfg ops -> run_mux m base cfg ops = Ok (cls, f) ->
  Forall2 cls_ok ops cls /\
  map tf_conf (mf_tracks f) = added_confs ops /\
  map tf_track_id (mf_tracks f) = map N.of_nat (seq 1 (length (mf_tracks f))) /\
  mf_mvhd_timescale f = mc_timescale cfg /\
  (exists rest, mf_out f = ftyp_bytes cfg ++ rest).
Proof. exact c14_config_lemma. Qed.
Print Assumptions configuration_survives.

(** Durations.  For the track with id [i+1]: the media duration (mdhd) is the sum of the
    durations of the samples [write_sample] accepted for it, which is also what its [stts]
    table sums to; the track duration (tkhd) is that sum converted to the movie timescale,
    rounded down and saturated at 2^64-1 -- hence within one tick when it does not saturate.
    The movie duration (mvhd) is the maximum of the track durations. *)
Theorem durations_survive : forall m base cfg ops cls f,
  mux_pre base cfg ops -> run_mux m base cfg ops = Ok (cls, f) ->
  (forall i tf, nth_error (mf_tracks f) i = Some tf ->
     let md := wh_mdhd_duration (tf_hdr tf) in
     let td := wh_tkhd_duration (tf_hdr tf) in
     let tts := tc_timescale (tf_conf tf) in
     let mts := mc_timescale cfg in
     tts <> 0 /\
     md = dur_written (N.of_nat i + 1) ops cls /\
     md = stts_dur (t_stts (tf_tables tf)) /\
     td = N.min (md * mts / tts) U64MAX /\
     (md * mts / tts <= U64MAX -> td * tts <= md * mts < (td + 1) * tts)) /\
  mf_mvhd_duration f = max_list (map (fun tf => wh_tkhd_duration (tf_hdr tf)) (mf_tracks f)).
Proof. exact c14_durations_lemma. Qed.
Print Assumptions durations_survive.

(** ** Non-vacuity *)
Definition ex14_cfg : mp4_conf := mkMp4Conf 0x69736f6d 512 [0x69736f6d; 0x61766331] 1000.
Definition ex14_video : track_conf :=
  mkTrackConf "Video" 90000 [117; 110; 100] (AvcConf 1920 1080 [103; 66; 0; 30] [104; 206]).
Definition ex14_audio : track_conf :=
  mkTrackConf "Audio" 48000 [101; 110; 103] (AacConf 128000 "AacLowComplexity" "Freq48000" "Stereo").
Definition ex14_bad : track_conf := mkTrackConf "Video" 0 [117; 110; 100] (Vp9Conf 640 480).
Definition ex14_ops : list mux_op :=
  [ OpAddTrack ex14_video; OpAddTrack ex14_bad; OpAddTrack ex14_audio;
    OpWrite 1 (mkWSample 3000 0 true [1; 2; 3]);
    OpWrite 2 (mkWSample 1024 0 true [9; 9]);
    OpWrite 1 (mkWSample 3001 1500 false [4]);
    OpWrite 7 (mkWSample 5 0 true [0]);                    (* rejected: contributes nothing *)
    OpWrite 2 (mkWSample 1023 0 true [8; 8]);
    OpWrite 1 (mkWSample 2999 0 false [5; 6]) ].

Example ex14_pre : mux_pre 0 ex14_cfg ex14_ops.
Proof. constructor; [repeat constructor|vm_compute; reflexivity|vm_compute; reflexivity]. Qed.

(** 9000 ticks @ 90 kHz = 100 ms; 2047 ticks @ 48 kHz = 42.6 ms -> 42; movie duration 100 *)
Example ex14_run : forall m,
  match run_mux m 0 ex14_cfg ex14_ops with
  | Ok (cls, f) =>
      cls = [COk; CData; COk; COk; COk; COk; CData; COk; COk] /\
      map tf_conf (mf_tracks f) = [ex14_video; ex14_audio] /\
      map tf_track_id (mf_tracks f) = [1; 2] /\
      map tf_hdr (mf_tracks f) = [mkWh 9000 0 100 0; mkWh 2047 0 42 0] /\
      map (fun tf => t_stts (tf_tables tf)) (mf_tracks f) = [[(1, 3000); (1, 3001); (1, 2999)]; [(1, 1024); (1, 1023)]] /\
      (mf_mvhd_timescale f, mf_mvhd_duration f, mf_mvhd_version f) = (1000, 100, 0) /\
      firstn 24 (mf_out f) = ftyp_bytes ex14_cfg /\
      dur_written 1 ex14_ops cls = 9000 /\ dur_written 2 ex14_ops cls = 2047
  | _ => False
  end.
Proof. intros []; vm_compute; repeat split; reflexivity. Qed.

(** saturation of the track duration: 3 x (2^32-1) ticks at 1 Hz in a movie timescale of 2^32-1 *)
Example ex14_saturates : forall m,
  match run_mux m 0 (mkMp4Conf 0 0 [] 4294967295)
          [ OpAddTrack (mkTrackConf "Subtitle" 1 [] TtxtConf);
            OpWrite 1 (mkWSample 4294967295 0 true []); OpWrite 1 (mkWSample 4294967295 0 true []);
            OpWrite 1 (mkWSample 4294967295 0 true []) ] with
  | Ok (_, f) => map tf_hdr (mf_tracks f) = [mkWh 12884901885 1 18446744073709551615 1] /\
                 (mf_mvhd_duration f, mf_mvhd_version f) = (18446744073709551615, 1)
  | _ => False
  end.
Proof. intros []; vm_compute; repeat split; reflexivity. Qed.
