(** Property C13 / C01, end-to-end form at ANY stream position — the reader opens what the muxer wrote after
    existing content and returns the history (statement only; proof in Proofs/MuxOpenBase.v).

    The muxer can start writing at any stream position [base] (it appends to whatever the stream already holds): the
    chunk offsets it records are absolute stream positions.  C13 says such output "reads back with every sample and
    duration intact".  This is [C01_open_statement] (Props/C01Open.v) generalised from position 0 to any [base]:
    the stream is [d = pre ++ b] where [pre] is ANY [base] bytes (what was there before) and
    [b = mf_out f ++ wout (enc_moov m mv)] is every byte the muxer has written when [write_end] returns.
    [open_fuel] (the model of [Mp4Reader::read_header(reader, size)], Model/Reader.v) is run on [d] from position
    [base]; its [size] argument is the absolute end position [base + |b|] (the loop runs [while current < size] on
    absolute positions; the reader's [size] field is the number of bytes consumed, [current - start] = [|b|]).

    Hypotheses: those of [C01_open_statement], with "the output is shorter than 2^63 bytes" read as "the stream ends
    before position 2^63" ([base + |mf_out f| + moov_size mv < 2^63]), and [lenN pre = base].

    Conclusion: that of [C01_open_statement] with the sample offsets in [base + 16 + |ftyp| , base + |mf_out f|) (the
    mdat payload at its absolute position), every accepted sample read from any position of the stream [d], and in
    addition the durations the reader reports (C14): per track, [mdhd.duration] is the sum of the accepted sample
    durations, [tkhd.duration] is that sum converted to the movie timescale (saturating at u64::MAX) and
    [Mp4Track::duration()] in microseconds is [scaled_duration] of it.

    [C13_open_implies_C01_open]: [C01_open_statement] is the instance [base = 0], [pre = []]. *)
From MP4 Require Import MuxMoovDefs MuxMoovConf MuxInv MuxTotal MuxOpen MuxOpenBase C01Open.
Open Scope string_scope.
Open Scope list_scope.
Open Scope N_scope.

Definition C13_open_statement : Prop := forall m m' base cfg ops cls f mv pre,
  run_mux m base cfg ops = Ok (cls, f) -> ops_typed ops = true -> lenN (added_confs ops) < U32MAX ->
  mp4_conf_rep cfg = true -> forallb conf_rep (added_confs ops) = true ->
  moov_of_mfinal m f = Ok mv -> moov_size mv < U32 -> base + lenN (mf_out f) + moov_size mv < 2 ^ 63 ->
  lenN pre = base ->
  let b := mf_out f ++ wout (enc_moov m mv) in
  let d := pre ++ b in                     (* the stream: whatever was there before, then the muxer's output *)
  exists r,
    (forall fuel, (N.to_nat (lenN b) + 2 <= fuel)%nat ->
       run (open_fuel fuel m' (base + lenN b)) (stream_at d base) = (Ok r, stream_at d (base + lenN b))) /\
    rd_ftyp r = ftyp_of_conf cfg /\ rd_size r = lenN b /\ rd_moofs r = [] /\ rd_emsgs r = [] /\
    rd_timescale r = mc_timescale cfg /\ mvhd_duration (moov_mvhd (rd_moov r)) = mf_mvhd_duration f /\
    map fst (rd_tracks r) = map N.of_nat (seq 1 (length (added_confs ops))) /\
    (forall tid, ~ In tid (map fst (rd_tracks r)) -> rd_sample_count r tid = Err EData) /\
    forall i c, nth_error (added_confs ops) i = Some c ->
      let tid := N.of_nat i + 1 in
      let ss := accepted_samples ops cls tid in
      exists t, tracks_get tid (rd_tracks r) = Some t /\
        conf_survives c tid t /\
        mdhd_duration (mt_mdhd t) = sumN (map ws_duration ss) /\
        tkhd_duration (trak_tkhd (mt_trak t)) = N.min (sumN (map ws_duration ss) * mc_timescale cfg / tc_timescale c) U64MAX /\
        mt_duration_us t = scaled_duration (sumN (map ws_duration ss)) (tc_timescale c) 1000000 /\
        rd_sample_count r tid = Ok (lenN ss) /\
        (forall k s, nth1 ss k = Some s ->
           (exists off, rd_sample_offset m' r tid k = Ok off /\
                        base + 16 + lenN (ftyp_bytes cfg) <= off /\ off + lenN (ws_bytes s) <= base + lenN (mf_out f)) /\
           forall pos, fst (run (rd_read_sample m' r tid k) (stream_at d pos)) =
                       Ok (Some (mkSample (sumN (map ws_duration (firstn (N.to_nat (k - 1)) ss)))
                                          (ws_duration s) (ws_rendering_offset s) (ws_is_sync s) (ws_bytes s)))) /\
        (forall k, k = 0 \/ lenN ss < k ->
           forall st, match fst (run (rd_read_sample m' r tid k) st) with
                      | Ok (Some _) => False
                      | Panic _ => False
                      | _ => True
                      end).

Theorem C13_mux_at_any_position_then_open : C13_open_statement.
Proof. exact mux_open_readback_base. Qed.
Print Assumptions C13_mux_at_any_position_then_open.

(** the statement at position 0 is an instance: the generalisation loses nothing *)
Theorem C13_open_implies_C01_open : C13_open_statement -> C01_open_statement.
Proof.
  intros H13 m m' cfg ops cls f mv Hrun Hty Hn Hcfg Hconfs Hmv Hsz Hlen b.
  assert (Hlen0 : 0 + lenN (mf_out f) + moov_size mv < 2 ^ 63) by (rewrite N.add_0_l; exact Hlen).
  pose proof (H13 m m' 0 cfg ops cls f mv [] Hrun Hty Hn Hcfg Hconfs Hmv Hsz Hlen0 eq_refl) as H.
  cbv zeta in H. rewrite !app_nil_l in H. fold b in H.
  destruct H as (r & Hopen & H1 & H2 & H3 & H4 & H5 & H6 & H7 & H8 & Htr).
  exists r. rewrite N.add_0_l in Hopen.
  split; [exact Hopen|].
  split; [exact H1|]. split; [exact H2|]. split; [exact H3|]. split; [exact H4|]. split; [exact H5|].
  split; [exact H6|]. split; [exact H7|]. split; [exact H8|].
  intros i c Hc tid ss. destruct (Htr i c Hc) as (t & T1 & T2 & _ & _ & _ & T3 & T4 & T5).
  exists t. split; [exact T1|]. split; [exact T2|]. split; [exact T3|]. split; [|exact T5].
  intros k s Hs. destruct (T4 k s Hs) as ((off & O1 & O2 & O3) & Hr). split; [|exact Hr].
  exists off. split; [exact O1|]. rewrite !N.add_0_l in O2, O3. split; [exact O2 | exact O3].
Qed.
Print Assumptions C13_open_implies_C01_open.

(** the bytes [mux_bytes] reports at any base are the [b] above *)
Theorem C13_mux_bytes_are_opened : forall m base cfg ops cls b,
  mux_bytes m base cfg ops = Ok (cls, b) ->
  exists f mv, run_mux m base cfg ops = Ok (cls, f) /\ moov_of_mfinal m f = Ok mv /\
               b = mf_out f ++ wout (enc_moov m mv).
Proof. exact mux_bytes_inv_base. Qed.
Print Assumptions C13_mux_bytes_are_opened.

(** ** Non-vacuity: the two-track history [exo_ops] of Props/C01Open.v muxed at stream position 1000, after 1000
    arbitrary bytes, satisfies every hypothesis in both build modes, and the conclusion is what evaluation gives *)
Definition ex13_base : N := 1000.
Definition ex13_pre : bytes := repeatN 170 1000.

Example C13_open_hypotheses : forall m,
  match run_mux m ex13_base exo_cfg exo_ops with
  | Ok (cls, f) =>
      ops_typed exo_ops = true /\ lenN (added_confs exo_ops) < U32MAX /\
      mp4_conf_rep exo_cfg = true /\ forallb conf_rep (added_confs exo_ops) = true /\
      lenN ex13_pre = ex13_base /\
      match moov_of_mfinal m f with
      | Ok mv => moov_size mv < U32 /\ ex13_base + lenN (mf_out f) + moov_size mv < 2 ^ 63 /\
                 mux_bytes m ex13_base exo_cfg exo_ops = Ok (cls, mf_out f ++ wout (enc_moov m mv))
      | _ => False
      end
  | _ => False
  end.
Proof. intros []; vm_compute; repeat split; reflexivity. Qed.

Example C13_open_ex :
  match mux_bytes Dbg ex13_base exo_cfg exo_ops with
  | Ok (_, b) =>
      let d := ex13_pre ++ b in
      match run (open_fuel (N.to_nat (lenN b) + 2) Rel (ex13_base + lenN b)) (stream_at d ex13_base) with
      | (Ok r, s') =>
          s_pos s' = ex13_base + lenN b /\ rd_size r = lenN b /\ map fst (rd_tracks r) = [1; 2] /\
          rd_sample_count r 1 = Ok 3 /\ rd_sample_count r 2 = Ok 2 /\ rd_sample_count r 3 = Err EData /\
          option_map mt_width (tracks_get 1 (rd_tracks r)) = Some 1920 /\
          option_map mt_audio_profile (tracks_get 2 (rd_tracks r)) = Some (Ok "AacLowComplexity") /\
          option_map (fun t => (mdhd_duration (mt_mdhd t), tkhd_duration (trak_tkhd (mt_trak t)), mt_duration_us t))
                     (tracks_get 1 (rd_tracks r)) = Some (9000, 100, 100000) /\
          option_map (fun t => (mdhd_duration (mt_mdhd t), tkhd_duration (trak_tkhd (mt_trak t)), mt_duration_us t))
                     (tracks_get 2 (rd_tracks r)) = Some (2047, 42, 42645) /\
          (* the first sample of track 1 lies right after the 1000 earlier bytes, ftyp and the 16-byte mdat header *)
          rd_sample_offset Rel r 1 1 = Ok (ex13_base + lenN (ftyp_bytes exo_cfg) + 16) /\
          map (fun k => fst (run (rd_read_sample Rel r 1 k) (stream_at d 7))) [0; 1; 2; 3; 4] =
            [Err EData;
             Ok (Some (mkSample 0 3000 0 true [1; 2; 3]));
             Ok (Some (mkSample 3000 3001 1500 false [4]));
             Ok (Some (mkSample 6001 2999 0 false [5; 6]));
             Ok None] /\
          map (fun k => fst (run (rd_read_sample Rel r 2 k) (stream_at d (ex13_base + lenN b)))) [1; 2] =
            [Ok (Some (mkSample 0 1024 0 true [9; 9]));
             Ok (Some (mkSample 1024 1023 0 true [8; 8]))]
      | _ => False
      end
  | _ => False
  end.
Proof. vm_compute. repeat split; reflexivity. Qed.

(** the same bytes opened as if the muxer had started at position 0 (the 1000 earlier bytes cut off): the reader opens,
    but the chunk offsets are absolute, so the samples are NOT found — the prefix matters *)
Example C13_open_ex_offsets_absolute :
  match mux_bytes Dbg ex13_base exo_cfg exo_ops with
  | Ok (_, b) =>
      match run (open_fuel (N.to_nat (lenN b) + 2) Rel (lenN b)) (stream_at b 0) with
      | (Ok r, _) =>
          rd_sample_count r 1 = Ok 3 /\
          fst (run (rd_read_sample Rel r 1 1) (stream_at b 0)) <> Ok (Some (mkSample 0 3000 0 true [1; 2; 3]))
      | _ => False
      end
  | _ => False
  end.
Proof. vm_compute. split; [reflexivity | discriminate]. Qed.
