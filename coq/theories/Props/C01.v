(** Property C01 — muxed samples read back exactly (theorems; proofs in Proofs/MuxProofs.v, Proofs/MuxInv.v) *)
From MP4 Require Import Writer SampleTable MuxProofs MuxInv.
Open Scope list_scope.
Open Scope N_scope.

Theorem C01_rejected_calls_leave_no_trace : forall m ops w acc w1 cls,
  run_ops m w ops acc = Ok (w1, cls) ->
  forall acc2, exists cls', run_ops m w (accepted_ops m w ops) acc2 = Ok (w1, cls').
Proof. exact rejected_leave_no_trace. Qed.
Print Assumptions C01_rejected_calls_leave_no_trace.

(** The full model-level statement.  The accepted history of track [i+1] is the list of the samples of the
    [write_sample(i+1, _)] calls whose recorded outcome is [Ok] ([accepted_samples]); [ops_typed] says that
    durations are [u32] and rendering offsets [i32] values (the Rust field types); [history_fits] that the
    stream position after the last payload byte stays below 2^63.  The other two conditions of the documented
    domain (sample shorter than 2^32 bytes, fewer than 2^32-2 samples per track) are enforced by the writer
    itself ([C01_domain_enforced]).  The tables are read through the ISO specification functions of
    [Spec/SampleTable.v]; [sliceN off len l] is the [len] bytes of [l] at offset [off]. *)
Definition C01_statement : Prop := forall m base cfg ops cls f,
  run_mux m base cfg ops = Ok (cls, f) ->
  ops_typed ops = true ->
  history_fits base cfg ops cls = true ->
  forall i tf, nth_error (mf_tracks f) i = Some tf ->
    let ss := accepted_samples ops cls (N.of_nat i + 1) in
    let tb := tf_tables tf in
    consistent tb = true /\
    t_stsz_count tb = lenN ss /\
    forall k s, nth1 ss k = Some s ->
      spec_size tb k = Some (lenN (ws_bytes s)) /\
      spec_delta tb k = Some (ws_duration s) /\
      spec_start tb k = sumN (map ws_duration (firstn (N.to_nat (k - 1)) ss)) /\
      spec_cts tb k = Some (ws_rendering_offset s) /\
      spec_sync tb k = ws_is_sync s /\
      exists off, spec_offset tb k = Some off /\
                  mf_mdat_pos f + 16 <= off /\
                  off + lenN (ws_bytes s) <= mf_base f + lenN (mf_out f) /\
                  sliceN (off - mf_base f) (lenN (ws_bytes s)) (mf_out f) = ws_bytes s.

Theorem C01_mux_demux_fidelity : C01_statement.
Proof. exact mux_fidelity_history. Qed.
Print Assumptions C01_mux_demux_fidelity.

(** the same with the size bound stated on the output instead of the history (any bound below 2^64 will do) *)
Theorem C01_mux_demux_fidelity_u64 : forall m base cfg ops cls f,
  run_mux m base cfg ops = Ok (cls, f) -> ops_typed ops = true ->
  (mf_base f + lenN (mf_out f) <? U64) = true ->
  forall i tf, nth_error (mf_tracks f) i = Some tf ->
    let ss := accepted_samples ops cls (N.of_nat i + 1) in
    consistent (tf_tables tf) = true /\ t_stsz_count (tf_tables tf) = lenN ss /\
    sample_fidelity f (tf_tables tf) ss.
Proof. exact mux_fidelity. Qed.
Print Assumptions C01_mux_demux_fidelity_u64.

(** the output is the ftyp box, the 16 bytes of mdat/wide headers and the accepted payload, nothing else *)
Theorem C01_output_length : forall m base cfg ops cls f,
  run_mux m base cfg ops = Ok (cls, f) -> ops_typed ops = true ->
  mf_base f = base /\ lenN (mf_out f) = lenN (ftyp_bytes cfg) + 16 + accepted_bytes ops cls.
Proof. exact mux_out_length. Qed.
Print Assumptions C01_output_length.

Theorem C01_domain_enforced : forall m base cfg ops cls f,
  run_mux m base cfg ops = Ok (cls, f) -> ops_typed ops = true ->
  forall i tf, nth_error (mf_tracks f) i = Some tf ->
    let ss := accepted_samples ops cls (N.of_nat i + 1) in
    lenN ss < U32 - 1 /\ Forall (fun s => lenN (ws_bytes s) < U32) ss.
Proof. exact mux_domain. Qed.
Print Assumptions C01_domain_enforced.

Theorem C01_no_samples_outside_tracks : forall m base cfg ops cls f,
  run_mux m base cfg ops = Ok (cls, f) -> ops_typed ops = true ->
  forall i, (length (mf_tracks f) <= i)%nat -> accepted_samples ops cls (N.of_nat i + 1) = [].
Proof. exact mux_no_stray_samples. Qed.
Print Assumptions C01_no_samples_outside_tracks.

(** FINDING (model = src/track.rs write_end -> write_chunk -> update_sample_to_chunk): the derived, never
    serialised [first_sample] of an stsc run that is created by the final flush is one too large
    ([sample_id] was already incremented).  The file is unaffected (the decoder re-derives the field), but the
    lookup functions applied directly to the writer's in-memory tables return a wrong offset: the composition
    "lookup = specification" must go through the re-derived [first_sample] values. *)
Theorem C01_writer_first_sample_refuted :
  exists cls f tf,
    run_mux Dbg 0 ex_cfg ex2_ops = Ok (cls, f) /\ nth_error (mf_tracks f) 0 = Some tf /\
    derive_first_samples (t_stsc (tf_tables tf)) 1 <> Some (t_stsc (tf_tables tf)) /\
    spec_offset (tf_tables tf) 5 = Some 50 /\
    sample_offset Dbg (mkTrack 1 (tf_tables tf) [] 0) 5 = Ok 46.
Proof. exact writer_first_sample_refuted. Qed.
Print Assumptions C01_writer_first_sample_refuted.

(** ** Non-vacuity: the hypotheses hold of a concrete, non-trivial history, and the conclusion is what one expects *)
Example C01_ex_runs : exists f, run_mux Dbg 100 ex_cfg ex_ops = Ok (ex_cls, f) /\ length (mf_tracks f) = 2%nat.
Proof. eexists. split; [vm_compute; reflexivity|reflexivity]. Qed.

Example C01_ex_hypotheses : ops_typed ex_ops = true /\ history_fits 100 ex_cfg ex_ops ex_cls = true.
Proof. split; vm_compute; reflexivity. Qed.

Example C01_ex_histories :
  map (fun s => (ws_duration s, ws_rendering_offset s, ws_is_sync s, ws_bytes s)) (accepted_samples ex_ops ex_cls 1)
    = [(500, 0%Z, true, [1; 2; 3]); (500, 0%Z, false, [4; 5; 6]); (500, 0%Z, false, []); (500, 250%Z, true, [7]);
       (300, (-20)%Z, false, [])] /\
  map ws_bytes (accepted_samples ex_ops ex_cls 2) = [[9; 9]; [8; 8]; []] /\
  accepted_samples ex_ops ex_cls 3 = [].
Proof. repeat split; vm_compute; reflexivity. Qed.

(** the rejected calls are exactly those the history says: before any track, missing track, track 0, timescale 0 *)
Example C01_ex_tables :
  match run_mux Dbg 100 ex_cfg ex_ops with
  | Ok (_, f) =>
      match mf_tracks f with
      | [v; a] =>
          let tb := tf_tables v in
          map (spec_size tb) [1; 2; 3; 4; 5; 6] = [Some 3; Some 3; Some 0; Some 1; Some 0; None] /\
          map (spec_cts tb) [1; 2; 3; 4; 5] = [Some 0; Some 0; Some 0; Some 250; Some (-20)]%Z /\
          map (spec_sync tb) [1; 2; 3; 4; 5] = [true; false; false; true; false] /\
          map (spec_start tb) [1; 2; 3; 4; 5] = [0; 500; 1000; 1500; 2000] /\
          map (spec_offset tb) [1; 2; 3; 4; 5] = [Some 140; Some 143; Some 150; Some 150; Some 151] /\
          map (spec_offset (tf_tables a)) [1; 2; 3] = [Some 146; Some 148; Some 151] /\
          sliceN (143 - 100) 3 (mf_out f) = [4; 5; 6] /\ sliceN (148 - 100) 2 (mf_out f) = [8; 8]
      | _ => False
      end
  | _ => False
  end.
Proof. vm_compute. repeat split; reflexivity. Qed.
