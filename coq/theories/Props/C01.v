(** Property C01 — muxed samples read back exactly (theorems; proofs in Proofs/MuxProofs.v) *)
From MP4 Require Import Writer MuxProofs.

Theorem C01_rejected_calls_leave_no_trace : forall m ops w acc w1 cls,
  run_ops m w ops acc = Ok (w1, cls) ->
  forall acc2, exists cls', run_ops m w (accepted_ops m w ops) acc2 = Ok (w1, cls').
Proof. exact rejected_leave_no_trace. Qed.
Print Assumptions C01_rejected_calls_leave_no_trace.
