(** * Property C06 — the reader API never panics, whatever the input

    "For any byte string handed to the reader with its true length — well-formed, malformed,
    truncated or adversarial — opening it, opening it as a fragment against an already opened
    file, and then calling every accessor (movie and track durations and metadata, sample
    counts, sample offsets, reading any sample id from 0 to beyond the count) returns a value or
    an error. The process never panics, in builds with and without arithmetic-overflow
    checking."

    Statements only; proofs in [Proofs/SafeLoop.v] (the child-box loop), [Proofs/SafeLeaf*.v]
    (leaf decoders), [Proofs/SafeValues.v], [Proofs/SafeContainers*.v] (containers),
    [Proofs/SafeLookup.v] (sample lookups), [Proofs/SafeReader.v].

    Reading the statements:
    - [run c s] interprets the model [c] of a library call on the stream [s]; [stream_at data p]
      is a cursor over [data] at position [p]; the result is [Ok _], [Err _], [Panic _] or
      [OutOfFuel] (model-only: the fuel of the child-box loops ran out; termination is
      property C07).  [is_panic r = false] says the call did not panic.
    - [m : mode] is the build mode: [Dbg] panics on arithmetic overflow, [Rel] wraps.  Every
      statement is for all [m].
    - [bytes_ok data = true] says the list elements are bytes (below 256); [lenN data < 2^62] is
      the only restriction on the input: the model positions are unbounded integers while Rust
      computes [start + size] in [u64].  The size argument of [read_header] is the true length.
    - sample ids are [u32]: [sid < U32].
    - the accessors that return plain values (durations, timescales, brands, width, height,
      language, sample count, metadata strings ..) are total functions in the model; they are
      listed in [Proofs/SafeReader.v] and have no panic outcome to exclude. *)
From MP4 Require Import Reader SafeLookup SafeReader.
Open Scope list_scope.
Open Scope N_scope.

(** every call on a reader value *)
Theorem calls_safe_def : forall r : mp4reader,
  calls_safe r <->
  (forall m data pos tid sid, sid < U32 ->
     is_panic (fst (run (rd_read_sample m r tid sid) (stream_at data pos))) = false
     /\ is_panic (rd_sample_offset m r tid sid) = false
     /\ is_panic (rd_sample_count r tid) = false)
  /\ (forall tid t, tracks_get tid (rd_tracks r) = Some t ->
     is_panic (mt_track_type t) = false /\ is_panic (mt_media_type t) = false
     /\ is_panic (mt_box_type t) = false /\ is_panic (mt_video_profile t) = false
     /\ is_panic (mt_sequence_parameter_set t) = false /\ is_panic (mt_picture_parameter_set t) = false
     /\ is_panic (mt_audio_profile t) = false /\ is_panic (mt_sample_freq_index t) = false
     /\ is_panic (mt_channel_config t) = false).
Proof. intros; reflexivity. Qed.

(** ** The property *)
Theorem C06_statement_def :
  C06_statement <->
  (forall fuel m data, bytes_ok data = true -> lenN data < 2 ^ 62 ->
     is_panic (fst (run (open_fuel fuel m (lenN data)) (stream_at data 0))) = false)
  /\ (forall fuel m r data2, bytes_ok data2 = true -> lenN data2 < 2 ^ 62 ->
     is_panic (fst (run (open_fragment_fuel fuel m r (lenN data2)) (stream_at data2 0))) = false)
  /\ (forall fuel m data r, bytes_ok data = true -> lenN data < 2 ^ 62 ->
     fst (run (open_fuel fuel m (lenN data)) (stream_at data 0)) = Ok r -> calls_safe r)
  /\ (forall fuel m data r fuel2 m2 data2 r2,
     bytes_ok data = true -> lenN data < 2 ^ 62 ->
     fst (run (open_fuel fuel m (lenN data)) (stream_at data 0)) = Ok r ->
     bytes_ok data2 = true -> lenN data2 < 2 ^ 62 ->
     fst (run (open_fragment_fuel fuel2 m2 r (lenN data2)) (stream_at data2 0)) = Ok r2 ->
     calls_safe r2).
Proof. reflexivity. Qed.

Theorem C06 : C06_statement.
Proof. exact C06_lemma. Qed.
Print Assumptions C06.

(** ** The parts, for reference *)
Theorem C06_open : forall fuel m data, bytes_ok data = true -> lenN data < 2 ^ 62 ->
  is_panic (fst (run (open_fuel fuel m (lenN data)) (stream_at data 0))) = false.
Proof. exact open_never_panics. Qed.
Print Assumptions C06_open.

Theorem C06_open_fragment : forall fuel m r data2, bytes_ok data2 = true -> lenN data2 < 2 ^ 62 ->
  is_panic (fst (run (open_fragment_fuel fuel m r (lenN data2)) (stream_at data2 0))) = false.
Proof. exact open_fragment_never_panics. Qed.
Print Assumptions C06_open_fragment.

(** the sample calls on any reader value satisfying [reader_ok] (integer widths of five fields,
    the first stsc [first_sample] is at least 1, one trun duration per sample when the flag is set) *)
Theorem C06_calls : forall m r data pos tid sid, reader_ok r -> sid < U32 ->
  is_panic (fst (run (rd_read_sample m r tid sid) (stream_at data pos))) = false
  /\ is_panic (rd_sample_offset m r tid sid) = false
  /\ is_panic (rd_sample_count r tid) = false.
Proof. exact calls_never_panic. Qed.
Print Assumptions C06_calls.

(** [reader_ok] is an invariant of the two entry points *)
Theorem C06_open_reader_ok : forall fuel m data r, bytes_ok data = true -> lenN data < 2 ^ 62 ->
  fst (run (open_fuel fuel m (lenN data)) (stream_at data 0)) = Ok r -> reader_ok r.
Proof. exact open_returns_ok_reader. Qed.
Print Assumptions C06_open_reader_ok.

Theorem C06_open_fragment_reader_ok : forall fuel m r data2 r2,
  bytes_ok data2 = true -> lenN data2 < 2 ^ 62 -> reader_ok r ->
  fst (run (open_fragment_fuel fuel m r (lenN data2)) (stream_at data2 0)) = Ok r2 -> reader_ok r2.
Proof. exact open_fragment_returns_ok_reader. Qed.
Print Assumptions C06_open_fragment_reader_ok.

(** the [Result]-valued track accessors, on ANY track value *)
Theorem C06_accessors : forall t : mp4track,
  is_panic (mt_track_type t) = false /\ is_panic (mt_media_type t) = false
  /\ is_panic (mt_box_type t) = false /\ is_panic (mt_video_profile t) = false
  /\ is_panic (mt_sequence_parameter_set t) = false /\ is_panic (mt_picture_parameter_set t) = false
  /\ is_panic (mt_audio_profile t) = false /\ is_panic (mt_sample_freq_index t) = false
  /\ is_panic (mt_channel_config t) = false.
Proof. exact accessors_never_panic. Qed.
Print Assumptions C06_accessors.

(** ** Non-vacuity *)

(** the hypotheses hold for real files, and opening can succeed *)
Example C06_nonvacuous_wellformed :
  bytes_ok reader_test_file = true /\ lenN reader_test_file < 2 ^ 62
  /\ is_ok (fst (run (open_fuel 2000 Dbg (lenN reader_test_file)) (stream_at reader_test_file 0))) = true
  /\ is_ok (fst (run (open_fuel 2000 Rel (lenN reader_test_file)) (stream_at reader_test_file 0))) = true.
Proof. vm_compute. repeat split; reflexivity. Qed.

(** a truncated file, and a file with every zero byte replaced by 255: an error, no panic *)
Example C06_nonvacuous_truncated :
  let d := firstn 300 reader_test_file in
  bytes_ok d = true
  /\ class_of (fst (run (open_fuel 2000 Dbg (lenN d)) (stream_at d 0))) = CData.
Proof. vm_compute. split; reflexivity. Qed.

Example C06_nonvacuous_corrupted :
  let d := map (fun b => if b =? 0 then 255 else b) reader_test_file in
  bytes_ok d = true
  /\ class_of (fst (run (open_fuel 2000 Dbg (lenN d)) (stream_at d 0))) = CData.
Proof. vm_compute. split; reflexivity. Qed.

(** an adversarial file that opens: every 32-bit field of the sample tables at its maximum, a
    zero samples-per-chunk entry, an empty chunk-offset table.  The sample calls return values
    or errors for sample ids 0, 1, 2, 7 and 2^32 - 1 *)
Definition C06_adversarial_stbl (stco : list N) : stbl :=
  mkStbl (mkStsd 0 0 (Some avc1_test) None None None None)
         (mkStts 0 0 [mkSttsEntry 4294967294 4294967295])
         None None
         (mkStsc 0 0 [mkStscEnt 1 4294967295 1 1])
         (mkStsz 0 0 4294967295 4294967295 [])
         (Some (mkStco 0 0 stco))
         None.
Definition C06_adversarial_file (stco : list N) : bytes :=
  wout (enc_ftyp ftyp_default)
  ++ wout (enc_moov Dbg (mkMoov mvhd_default None None
        [mkTrak (trak_tkhd trak_test) None None
                (mkMdia mdhd_default (mdia_hdlr mdia_test)
                        (mkMinf None None dinf_default (C06_adversarial_stbl stco)))] None)).

Example C06_nonvacuous_adversarial :
  let d := C06_adversarial_file [4294967295] in
  match fst (run (open_fuel 2000 Dbg (lenN d)) (stream_at d 0)) with
  | Ok r =>
      rd_sample_count r 1 = Ok 4294967295
      /\ rd_sample_offset Dbg r 1 0 = Err EData
      /\ rd_sample_offset Dbg r 1 1 = Ok 4294967295
      /\ rd_sample_offset Dbg r 1 4294967295 = Ok (4294967295 + 4294967294 * 4294967295)
      /\ map (fun sid => class_of (fst (run (rd_read_sample Dbg r 1 sid) (stream_at d 0))))
             [0; 1; 2; 7; 4294967295] = [CData; CIo; CIo; CIo; CIo]
  | _ => False
  end.
Proof. vm_compute. repeat split; reflexivity. Qed.

Example C06_nonvacuous_adversarial_empty_stco :
  let d := C06_adversarial_file [] in
  match fst (run (open_fuel 2000 Rel (lenN d)) (stream_at d 0)) with
  | Ok r =>
      map (fun sid => fst (run (rd_read_sample Rel r 1 sid) (stream_at d 0)))
          [1; 4294967295] = [Ok None; Ok None]
  | _ => False
  end.
Proof. vm_compute. repeat split; reflexivity. Qed.

(** a fragmented file, opened, then its tail opened as a fragment against the result; sample ids
    from 0 to beyond the count *)
Example C06_nonvacuous_fragment :
  let d := reader_test_frag_file in
  let d2 := skipn (N.to_nat (lenN reader_test_frag_head)) reader_test_frag_file in
  match fst (run (open_fuel 2000 Dbg (lenN d)) (stream_at d 0)) with
  | Ok r =>
      match fst (run (open_fragment_fuel 2000 Dbg r (lenN d2)) (stream_at d2 0)) with
      | Ok r2 =>
          rd_sample_count r2 1 = Ok 4
          /\ map (fun sid => class_of (rd_sample_offset Dbg r2 1 sid)) [0; 1; 4; 5] = [CData; COk; COk; CData]
          /\ map (fun sid => class_of (fst (run (rd_read_sample Dbg r2 1 sid) (stream_at d2 0)))) [0; 1; 4; 5]
             = [CData; COk; CIo; CData]
      | _ => False
      end
  | _ => False
  end.
Proof. vm_compute. repeat split; reflexivity. Qed.

(** ** What is NOT claimed, with witnesses

    A reader value that no parse returns can panic: [reader_ok] is needed for the sample calls
    ([calls_can_panic_on_inconsistent_reader] in SafeReader.v, a trun whose duration vector is
    shorter than its sample count; [sample_time_needs_*] in SafeLookup.v). *)
Example C06_reader_ok_needed :
  is_panic (fst (run (rd_read_sample Dbg bad_reader 1 2) (stream_at [1; 2; 3] 0))) = true
  /\ is_panic (fst (run (rd_read_sample Rel bad_reader 1 2) (stream_at [1; 2; 3] 0))) = true.
Proof. exact calls_can_panic_on_inconsistent_reader. Qed.

(** "with its true length": a declared length of [u64::MAX] on a 24-byte input panics in a debug
    build ([start + size] in [skip_box]); with the true length 24 it does not *)
Example C06_true_length_needed :
  bytes_ok declared_length_witness = true /\ lenN declared_length_witness = 24
  /\ is_panic (fst (run (open_fuel 10 Dbg (2 ^ 64 - 1)) (stream_at declared_length_witness 0))) = true
  /\ is_panic (fst (run (open_fuel 10 Dbg 24) (stream_at declared_length_witness 0))) = false
  /\ is_panic (fst (run (open_fuel 10 Rel (2 ^ 64 - 1)) (stream_at declared_length_witness 0))) = false.
Proof. exact open_declared_length_above_true_length_can_panic. Qed.
