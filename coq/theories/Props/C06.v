(** Property C06 — placeholder until the reader-level safety proof lands *)
From MP4 Require Import Hoare.
