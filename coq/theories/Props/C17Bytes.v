(** * Property C17, up to the last byte — [write_end] includes the encoding of [moov]
    (statements only; proofs in [Proofs/EncTotal.v] over [Proofs/MuxTotal.v]).

    [Props/C17.v] states that no muxer call panics for [run_mux], which stops before [write_end]
    builds and encodes the [moov] box.  [mux_bytes] ([Model/WriterMoov.v]) is the whole run:
    [run_mux], then [moov_of_mfinal] (the [TrakBox]es of [Mp4TrackWriter::new] / [write_end],
    including [AvcCBox::new], which indexes [sps[1..=3]]), then [enc_moov] (every [write_box]
    below [MoovBox]).  The crash sites of that last step are byteorder's [write_u24] / [write_u48]
    assertions (the flags word of every full box, [buffer_size_db], the hvcC constraint flags), the
    four unchecked [u8] sums of the esds descriptors (debug builds), and the SPS index.

    Hypotheses: those of [C17.muxer_total], plus [conf_typed_all]: every configuration passed to
    [add_track] is a value of the Rust types ([u16] width / height, [u32] bitrate / timescale,
    [Vec<u8>] parameter sets and language bytes, enum fields = variant names of the tables
    regenerated from src/types.rs) -- not representability: language strings may be empty or
    non-ISO, the AAC object type may be 32 or more, parameter sets may be empty (then [add_track]
    returns an error).  No panic is reachable; [mux_bytes_total_untyped] shows the proof does not
    even need [conf_typed_all] (no crash site of the model depends on it). *)
From MP4 Require Import WriterMoov MuxTotal EncTotal.
Open Scope string_scope.
Open Scope list_scope.
Open Scope N_scope.

(** No call panics, in either build, up to and including the encoding of [moov]. *)
Theorem mux_bytes_total : forall m base cfg ops,
  Forall op_typed ops -> lenN (added_confs ops) < U32MAX ->
  base < 2 ^ 63 -> base + lenN (ftyp_bytes cfg) + 16 + sample_bytes ops < 2 ^ 63 ->
  conf_typed_all ops ->
  is_panic (mux_bytes m base cfg ops) = false.
Proof. exact mux_bytes_total_lemma. Qed.
Print Assumptions mux_bytes_total.

(** The same without the typing hypothesis (the model's fields are unbounded; nothing on the
    encoding path can crash on them). *)
Theorem mux_bytes_total_any_conf : forall m base cfg ops,
  Forall op_typed ops -> lenN (added_confs ops) < U32MAX ->
  base < 2 ^ 63 -> base + lenN (ftyp_bytes cfg) + 16 + sample_bytes ops < 2 ^ 63 ->
  is_panic (mux_bytes m base cfg ops) = false.
Proof. exact mux_bytes_total_untyped. Qed.
Print Assumptions mux_bytes_total_any_conf.

(** A release build cannot panic at all, whatever the history (no hypothesis), encoding included:
    every track that exists passed [conf_check] (non-zero timescale, SPS of at least 4 bytes),
    and the unchecked sums wrap. *)
Theorem mux_bytes_total_rel : forall base cfg ops, is_panic (mux_bytes Rel base cfg ops) = false.
Proof. exact mux_bytes_total_release. Qed.
Print Assumptions mux_bytes_total_rel.

(** The encoder half on its own: [enc_moov] does not panic on any [moov] whose full-box flags fit
    24 bits, whose esds buffer size fits 24 bits, whose hvcC constraint flags fit 48 bits, and (debug
    builds) whose esds descriptor sums fit a byte ([np_moov]); [moov_of_mfinal] produces such a
    [moov] from tracks whose configurations passed [conf_check]. *)
Theorem enc_moov_never_panics : forall m v, np_moov m v -> is_panic (wfin (enc_moov m v)) = false.
Proof. exact enc_moov_wsafe. Qed.
Print Assumptions enc_moov_never_panics.

Theorem moov_of_accepted_tracks : forall m f,
  Forall (fun tf => conf_sps_ok (tc_media (tf_conf tf))) (mf_tracks f) ->
  exists mv, moov_of_mfinal m f = Ok mv /\ np_moov m mv.
Proof. exact moov_of_mfinal_ok. Qed.
Print Assumptions moov_of_accepted_tracks.

(** ** Non-vacuity: the degenerate history of [Props/C17.v] (zero movie timescale, non-ISO language,
    zero track timescale, short SPS, unknown track ids, extreme durations and offsets), extended by
    an AAC track whose object type (36, ALS) is not representable in the two-byte descriptor, an
    empty language, a subtitle, an HEVC and a VP9 track *)
From MP4 Require Import C17.

Definition ex17b_ops : list mux_op :=
  ex17_ops ++
  [ OpAddTrack (mkTrackConf "Audio" 4294967295 [] (AacConf 4294967295 "AudioLosslessCoding" "Freq96000" "SevenOne"));
    OpAddTrack (mkTrackConf "Subtitle" 1000 [0; 0; 0; 0; 0] TtxtConf);
    OpAddTrack (mkTrackConf "Video" 1 [255] (HevcConf 65535 65535));
    OpAddTrack (mkTrackConf "Video" 25 [117; 110; 100] (Vp9Conf 0 0));
    OpWrite 3 (mkWSample 1024 0 true (repeat 7 300));
    OpWrite 3 (mkWSample 1024 0 true [1]);
    OpWrite 4 (mkWSample 1 0 true [2; 2]);
    OpWrite 5 (mkWSample 1 (-1) true [3]);
    OpWrite 6 (mkWSample 4294967295 1 false []) ].

Ltac typed_tac :=
  repeat first [ exact I | reflexivity | apply Forall_nil | apply Forall_cons | split
               | (left; reflexivity) | right ].

Example ex17b_hyps :
  Forall op_typed ex17b_ops /\ lenN (added_confs ex17b_ops) < U32MAX /\
  0 + lenN (ftyp_bytes ex17_cfg) + 16 + sample_bytes ex17b_ops < 2 ^ 63 /\
  conf_typed_all ex17b_ops.
Proof.
  split; [unfold ex17b_ops, ex17_ops; cbn [app]; typed_tac|].
  split; [vm_compute; reflexivity|]. split; [vm_compute; reflexivity|].
  unfold conf_typed_all, ex17b_ops, ex17_ops. cbn [app]. typed_tac.
Qed.

Example ex17b_run :
  forall m, match mux_bytes m 0 ex17_cfg ex17b_ops with
            | Ok (cls, b) =>
                cls = [CData; CData; CData; COk; COk; CData; CData; CData; COk; COk; COk; COk;
                       COk; COk; COk; COk; COk; COk; COk; COk; COk]
            | _ => False
            end.
Proof. intros []; vm_compute; reflexivity. Qed.
