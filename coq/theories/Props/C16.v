(** * Property C16 — code and enumeration mappings are exact over their whole domain

    Statements only; proofs are in [Proofs/C16Proofs.v].  The tables the model
    functions consult ([MP4.Tables]) are regenerated from /repo's source by
    the translator on every run, so each theorem is re-checked against what
    the code says now.  The exhaustive sweep of the real conversions
    (harness/sweep) ties the compiled code to the same tables. *)
From MP4 Require Import Types IsoTables C16Proofs.
From MP4 Require Tables.
Open Scope string_scope.
Open Scope list_scope.
Open Scope N_scope.

(** ** The regenerated tables are the standard's tables *)
Definition discr_consistent (tf : list (N * string)) (d : list (string * N)) : bool :=
  forallb (fun e => match lookup_s (snd e) d with Some n => n =? fst e | None => false end) tf
  && (length tf =? length d)%nat && nodup_s (keys_s d).

Definition tables_statement : Prop :=
  Tables.boxtype_macro_canonical = true
  /\ table_ok Tables.boxtype_table = true
  (* every assignment of the standard's table is in the source's table (which may name further box types: the property asks
     for losslessness over all codes — [boxtype_code_lossless] — not for a closed list of variants) *)
  /\ incl_sn iso_boxtype_table Tables.boxtype_table = true
  /\ same_map_ns Tables.AudioObjectType_tryfrom iso_audio_object_types = true
  /\ discr_consistent Tables.AudioObjectType_tryfrom Tables.AudioObjectType_discr = true
  /\ same_map_ns Tables.SampleFreqIndex_tryfrom (map (fun e => (fst (fst e), snd (fst e))) iso_sample_freq) = true
  /\ discr_consistent Tables.SampleFreqIndex_tryfrom Tables.SampleFreqIndex_discr = true
  /\ same_set_sn Tables.freq_table (map (fun e => (snd (fst e), snd e)) iso_sample_freq) = true
  /\ same_map_ns Tables.ChannelConfig_tryfrom iso_channel_config = true
  /\ discr_consistent Tables.ChannelConfig_tryfrom Tables.ChannelConfig_discr = true
  /\ same_map_ns Tables.DataType_tryfrom iso_data_type = true
  /\ discr_consistent Tables.DataType_tryfrom Tables.DataType_discr = true
  /\ map (fun e => (fst (fst e), snd e)) Tables.handler_table = iso_handlers
  /\ map (fun e => (fst (fst e), snd (fst e))) Tables.handler_table = iso_handlers
  /\ Tables.media_table = iso_media.

Theorem tables_exact : tables_statement.
Proof. unfold tables_statement. repeat split; vm_compute; reflexivity. Qed.
Print Assumptions tables_exact.

(** ** Four-character codes <-> box-type enumeration: lossless for every code *)
Theorem boxtype_code_lossless :
  (forall c, u32_of_boxtype (boxtype_of_u32 c) = c)
  /\ (forall b, bt_wf b = true -> boxtype_of_u32 (u32_of_boxtype b) = b)
  /\ NoDup (map snd Tables.boxtype_table) /\ NoDup (map fst Tables.boxtype_table).
Proof.
  assert (H : table_ok Tables.boxtype_table = true) by (vm_compute; reflexivity).
  split; [exact (u32_boxtype_u32 H)|]. split; [exact (boxtype_u32_boxtype H)|].
  destruct (table_ok_parts _ H) as (H1 & H2 & _). split; assumption.
Qed.
Print Assumptions boxtype_code_lossless.
Check boxtype_code_lossless :
  (forall c, u32_of_boxtype (boxtype_of_u32 c) = c)
  /\ (forall b, bt_wf b = true -> boxtype_of_u32 (u32_of_boxtype b) = b)
  /\ NoDup (map snd Tables.boxtype_table) /\ NoDup (map fst Tables.boxtype_table).

(** the lookup used by the reader's dispatch is the standard's assignment *)
Theorem boxtype_of_code_is_iso : forall n c, In (n, c) iso_boxtype_table ->
  exists b, boxtype_of_u32 c = b /\ name_of b = n /\ u32_of_boxtype b = c.
Proof.
  intros n c Hin.
  assert (H : table_ok Tables.boxtype_table = true) by (vm_compute; reflexivity).
  assert (S : incl_sn iso_boxtype_table Tables.boxtype_table = true) by (vm_compute; reflexivity).
  pose proof Hin as Hin0.
  apply (incl_sn_In _ _ _ S) in Hin.
  exists (boxtype_of_u32 c). split; [reflexivity|]. split; [|apply (u32_boxtype_u32 H)].
  unfold boxtype_of_u32.
  destruct (find _ Tables.boxtype_table) as [[n' c']|] eqn:F.
  - apply find_code_In in F as [Hin' ->].
    destruct (table_ok_parts _ H) as (_ & Hc & _).
    assert (n' = n) by (eapply codes_unique; eauto). subst n'.
    (* every name of the standard's table is a constructor of the model *)
    assert (I : forallb (fun e : string * N => match of_name (fst e) with Some _ => true | None => false end) iso_boxtype_table = true)
      by (vm_compute; reflexivity).
    rewrite forallb_forall in I. specialize (I _ Hin0). cbn [fst] in I.
    destruct (of_name n) as [b|] eqn:Hb; [|discriminate I].
    now rewrite (of_name_name _ _ Hb).
  - exfalso. assert (X : existsb (fun e : string * N => snd e =? c) Tables.boxtype_table = true).
    { apply existsb_exists. exists (n, c). split; auto. cbn. apply N.eqb_refl. }
    clear -F X. induction Tables.boxtype_table as [|x t IH]; cbn in *; [discriminate|].
    destruct (snd x =? c); [discriminate|]. auto.
Qed.
Print Assumptions boxtype_of_code_is_iso.

(** ** Four-character codes <-> bytes <-> text *)
Theorem fourcc_exact :
  (forall c, c < U32 -> unbe (fourcc_bytes c) = c)
  /\ (forall l, length l = 4%nat -> bytes_ok l = true -> fourcc_bytes (unbe l) = l)
  /\ (forall c, c < U32 -> utf8_valid (fourcc_bytes c) = true ->
        fourcc_from_str (fourcc_display c) = Ok c)
  /\ (forall s, length s = 4%nat -> bytes_ok s = true ->
        exists c, fourcc_from_str s = Ok c /\ fourcc_bytes c = s /\ c < U32)
  /\ (forall s, length s <> 4%nat -> fourcc_from_str s = Err EData).
Proof.
  exact (conj fourcc_u32_bytes (conj fourcc_bytes_u32 (conj fourcc_text_roundtrip
        (conj fourcc_from_str_bytes fourcc_from_str_len)))).
Qed.
Print Assumptions fourcc_exact.

(** Known finding D91: the textual form is lossy outside UTF-8 (e.g. (c)nam). *)
Theorem fourcc_text_lossy_for_non_utf8 :
  exists c, c < U32 /\ fourcc_from_str (fourcc_display c) <> Ok c.
Proof. exact fourcc_text_refuted. Qed.

(** ** Enumerations: accept exactly the standard's values, with the standard's meaning *)
Definition iso_try (tbl : list (N * string)) (v : N) : res string :=
  match lookup_n v tbl with Some n => Ok n | None => Err EData end.

Theorem enum_tables_exact :
  (forall v, aot_try_from v = iso_try iso_audio_object_types v)
  /\ (forall v, sfi_try_from v = iso_try (map (fun e => (fst (fst e), snd (fst e))) iso_sample_freq) v)
  /\ (forall v, chan_try_from v = iso_try iso_channel_config v)
  /\ (forall v, datatype_try_from v = iso_try iso_data_type v)
  /\ (forall v n, aot_try_from v = Ok n -> aot_discr n = v)
  /\ (forall v n, sfi_try_from v = Ok n -> sfi_discr n = v)
  /\ (forall v n, chan_try_from v = Ok n -> chan_discr n = v)
  /\ (forall v n, datatype_try_from v = Ok n -> datatype_discr n = v)
  /\ (forall i n f, In (i, n, f) iso_sample_freq -> sfi_freq n = f).
Proof.
  assert (D : forall tf d, discr_consistent tf d = true ->
            forall v n, enum_try_from tf v = Ok n -> enum_discr d n = v).
  { intros tf d H v n E. unfold discr_consistent in H.
    apply andb_true_iff in H as [H _]. apply andb_true_iff in H as [H _].
    rewrite forallb_forall in H. unfold enum_try_from in E.
    destruct (lookup_n v tf) as [n'|] eqn:L; inversion E; subst.
    apply lookup_n_Some_In in L. specialize (H _ L). cbn [fst snd] in H.
    unfold enum_discr. destruct (lookup_s n d); [now apply N.eqb_eq in H | discriminate]. }
  split; [|split; [|split; [|split; [|split; [|split; [|split; [|split]]]]]]].
  - intros v. unfold aot_try_from, enum_try_from, iso_try.
    now rewrite (same_map_lookup Tables.AudioObjectType_tryfrom iso_audio_object_types) by (vm_compute; reflexivity).
  - intros v. unfold sfi_try_from, enum_try_from, iso_try.
    now rewrite (same_map_lookup Tables.SampleFreqIndex_tryfrom (map (fun e => (fst (fst e), snd (fst e))) iso_sample_freq))
      by (vm_compute; reflexivity).
  - intros v. unfold chan_try_from, enum_try_from, iso_try.
    now rewrite (same_map_lookup Tables.ChannelConfig_tryfrom iso_channel_config) by (vm_compute; reflexivity).
  - intros v. unfold datatype_try_from, enum_try_from, iso_try.
    now rewrite (same_map_lookup Tables.DataType_tryfrom iso_data_type) by (vm_compute; reflexivity).
  - apply D. vm_compute; reflexivity.
  - apply D. vm_compute; reflexivity.
  - apply D. vm_compute; reflexivity.
  - apply D. vm_compute; reflexivity.
  - intros i n f Hin. cbn in Hin.
    repeat (destruct Hin as [E|Hin]; [inversion E; subst; vm_compute; reflexivity|]). tauto.
Qed.
Print Assumptions enum_tables_exact.

(** ** Track kind / media kind: the four conversions agree with each other and the handler codes *)
Theorem track_media_kinds_exact :
  (forall k c, In (k, c) iso_handlers ->
     tracktype_of_fourcc (cc c) = Ok k /\ tracktype_of_str (IsoTables.bytes_of_string c) = Ok k
     /\ fourcc_of_tracktype k = cc c)
  /\ (forall c, c < U32 -> (forall k h, In (k, h) iso_handlers -> cc h <> c) -> tracktype_of_fourcc c = Err EData)
  /\ (forall k s, In (k, s) iso_media ->
     mediatype_of_str (IsoTables.bytes_of_string s) = Ok k /\ str_of_mediatype k = IsoTables.bytes_of_string s).
Proof.
  split; [|split].
  - intros k c H. cbn in H.
    repeat (destruct H as [E|H]; [inversion E; subst; vm_compute; repeat split; reflexivity|]). tauto.
  - intros c Hc Hno. unfold tracktype_of_fourcc.
    destruct (find _ Tables.handler_table) as [[[k s] f]|] eqn:F; [|reflexivity].
    exfalso. apply find_some in F as [Hin E]. cbn [snd] in E. apply N.eqb_eq in E.
    cbn in Hin.
    repeat (destruct Hin as [E'|Hin];
            [inversion E'; subst;
             first [ exact (Hno "Video" "vide" ltac:(cbn; tauto) eq_refl)
                   | exact (Hno "Audio" "soun" ltac:(cbn; tauto) eq_refl)
                   | exact (Hno "Subtitle" "sbtl" ltac:(cbn; tauto) eq_refl) ]|]). tauto.
  - intros k s H. cbn in H.
    repeat (destruct H as [E|H]; [inversion E; subst; vm_compute; split; reflexivity|]). tauto.
Qed.
Print Assumptions track_media_kinds_exact.

(** ** AVC profile over all 2^16 (profile_idc, compatibility) pairs *)
Theorem avc_profile_exact : forall p c, p < 256 -> c < 256 ->
  avc_profile_try_from p c = match iso_avc_profile p c with Some n => Ok n | None => Err EData end.
Proof.
  assert (H : forallb avc_check byte_pairs = true) by (vm_compute; reflexivity).
  intros p c Hp Hc. rewrite forallb_forall in H. specialize (H _ (byte_pairs_In p c Hp Hc)).
  unfold avc_check in H.
  destruct (avc_profile_try_from p c) as [a|[]| |], (iso_avc_profile p c); try discriminate; auto.
  now apply String.eqb_eq in H as ->.
Qed.
Print Assumptions avc_profile_exact.

(** ** Packed ISO-639 language over all 2^16 codes and all 26^3 letter triples *)
Theorem lang_pack_exact :
  (forall c, c < 65536 -> language_code (language_string c) = c mod 32768
                          /\ language_string c = iso_lang_unpack (c mod 32768))
  /\ (forall a b c, 97 <= a <= 122 -> 97 <= b <= 122 -> 97 <= c <= 122 ->
        language_string (language_code [a; b; c]) = [a; b; c]
        /\ language_code [a; b; c] = iso_lang_pack a b c).
Proof.
  split.
  - intros c Hc. pose proof (forall_range _ _ lang_code_all c Hc) as H.
    unfold lang_code_check in H. apply andb_true_iff in H as [H1 H2].
    apply N.eqb_eq in H1. split; auto.
    destruct (list_eq_dec N.eq_dec (language_string c) (iso_lang_unpack (c mod 32768))); [auto|discriminate].
  - intros a b c Ha Hb Hc. pose proof lang_str_all as H. rewrite forallb_forall in H.
    assert (Hin : In (a, b, c) triples).
    { unfold triples. apply in_flat_map. exists a. split; [now apply letters_In|].
      apply in_flat_map. exists b. split; [now apply letters_In|].
      apply in_map. now apply letters_In. }
    specialize (H _ Hin). unfold lang_str_check in H. apply andb_true_iff in H as [H1 H2].
    apply N.eqb_eq in H2. split; auto.
    destruct (list_eq_dec N.eq_dec (language_string (language_code [a; b; c])) [a; b; c]); [auto|discriminate].
Qed.
Print Assumptions lang_pack_exact.

(** ** Fixed-point wrappers *)
Theorem fixed_point_exact :
  (forall v, v < 256 -> fp8_value (fp8_new v) = v)
  /\ (forall r, r < 65536 -> fp8_value r = r / 256)
  /\ (forall v, v < 65536 -> fp16_value (fp16_new v) = v)
  /\ (forall r, r < U32 -> fp16_value r = r / 65536)
  /\ (forall v, (-128 <= v < 128)%Z -> fpi8_value (fpi8_new v) = v).
Proof.
  exact (conj fp8_new_value (conj fp8_raw_value (conj fp16_new_value (conj fp16_raw_value fpi8_new_value)))).
Qed.
Print Assumptions fixed_point_exact.

(** ** Non-vacuity: the hypotheses are met by non-trivial values *)
Example bt_wf_examples :
  bt_wf StcoBox = true /\ bt_wf (UnknownBox 0x12345678) = true /\ bt_wf (UnknownBox 0x7374636f) = false
  /\ boxtype_of_u32 0x636f3634 = Co64Box /\ u32_of_boxtype NameBox = 0xa96e616d.
Proof. vm_compute. repeat split; reflexivity. Qed.
Example fourcc_examples :
  utf8_valid (fourcc_bytes 0x66747970) = true /\ utf8_valid (fourcc_bytes 0xa96e616d) = false
  /\ fourcc_display 0x69736f6d = [105; 115; 111; 109].
Proof. vm_compute. repeat split; reflexivity. Qed.
Example lang_examples :
  language_code [117; 110; 100] = 21956 /\ language_string 21956 = [117; 110; 100].
Proof. vm_compute. split; reflexivity. Qed.
