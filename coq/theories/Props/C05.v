(** Property C05 — conformance to the ISO layouts.
    The per-box statements are the round-trip theorems of Props/C04.v: their third conjunct says the encoder writes exactly
    [be 4 size ++ be 4 code ++ iso_xxx_payload v] with [iso_xxx_payload] taken from Iso/*.v, which is written from the standards and
    never mentions the model's encoder; the fifth says the decoder returns [v] on those reference bytes at any position with any suffix.
    Restated here for one fixed-layout, one table, one flag-gated and one bit-packed box so that the conformance reading is pinned. *)
From MP4 Require Import Kit C04.
From MP4 Require Import BoxMdhd IsoMdhd BoxStsc IsoStsc BoxTfhd IsoTfhd BoxHev1 IsoHev1.

Theorem C05_mdhd_conforms : forall v, mdhd_wf v = true -> mdhd_size v < U32 ->
  wout (enc_mdhd v) = be 4 (mdhd_size v) ++ be 4 0x6d646864 ++ iso_mdhd_payload v.
Proof. intros v H Hs. exact (proj1 (proj2 (proj2 (C04_mdhd_roundtrip v H Hs)))). Qed.
Print Assumptions C05_mdhd_conforms.

Theorem C05_stsc_conforms : forall v, stsc_wf v = true -> stsc_size v < U32 ->
  wout (enc_stsc v) = be 4 (stsc_size v) ++ be 4 0x73747363 ++ iso_stsc_payload v.
Proof. intros v H Hs. exact (proj1 (proj2 (proj2 (C04_stsc_roundtrip v H Hs)))). Qed.
Print Assumptions C05_stsc_conforms.

Theorem C05_tfhd_conforms : forall v, tfhd_wf v = true -> tfhd_size v < U32 ->
  wout (enc_tfhd v) = be 4 (tfhd_size v) ++ be 4 0x74666864 ++ iso_tfhd_payload v.
Proof. intros v H Hs. exact (proj1 (proj2 (proj2 (C04_tfhd_roundtrip v H Hs)))). Qed.
Print Assumptions C05_tfhd_conforms.

Theorem C05_hvcc_decodes_iso : forall v, hvcc_wf v = true -> hvcc_size v < U32 ->
  forall m d l p post, p + hvcc_size v < 2 ^ 63 ->
    run (dec_hvcc m (hvcc_size v)) (mkStream d l (p + 8) (iso_hvcc_payload v ++ post)) = (Ok v, mkStream d l (p + hvcc_size v) post).
Proof. intros v H Hs. exact (proj2 (proj2 (proj2 (proj2 (C04_hvcc_roundtrip v H Hs))))). Qed.
Print Assumptions C05_hvcc_decodes_iso.
