(** Property C03 at the level of FILES — sample lookup from bytes, for any movie whose sample tables are
    mutually consistent (statement only; proof in Proofs/FileLookup.v).

    [Props/C03.v] ([lookup_sound], [read_sample_sound]) starts from a table set: for every [consistent tb] the
    lookup model on [track_of tb] returns what the ISO sample-table specification (Spec/SampleTable.v) defines.
    [Props/C01Open.v] starts from bytes, but only for files the MUXER wrote.  This theorem starts from the bytes of
    ANY file of the shape

        ftyp ; moov ; mdat     ([mdat_first = false])      or      ftyp ; mdat ; moov     ([mdat_first = true])

    each box with a 32-bit or a 64-bit header ([wf], [wv], [wd]), any media payload, where the moov box is the ISO
    reference rendering ([iso_moov_payload], Iso/IsoMoov.v) of ANY movie value [v] — any number of tracks, edit
    lists, metadata, mvex, any sample entries — subject to:

      [moov_rt_wf v], [moov_size v < 2^32]   [v] is representable in the wire format and is what the decoder returns
                             for its own rendering (C04's hypothesis; it includes [stsc_first_ok]: the in-memory
                             [first_sample] fields, which are not on the wire, are the ones the stsc decoder derives);
      [ftyp_wf], [ftyp_size < 2^32]          likewise for ftyp;
      distinct, non-zero track ids           ([read_header] rejects id 0; with a repeated id the HashMap keeps one track);
      [consistent] sample tables in every track (the hypothesis of C03);
      the file is shorter than 2^63 bytes and the mdat box is representable in its header form.

    Conclusion: [open_fuel] (the model of [Mp4Reader::read_header]) run on exactly these bytes, from position 0 with
    the true length, in build mode [m], with any fuel from [|b| + 2] on (what the drivers use), succeeds and leaves the
    stream at the end; the reader has the ftyp [ft], the movie [v] itself, no fragments, size [|b|], and exactly the track
    ids of [v] in order; an unknown track id is an error; and for every track [t] of [v], with [tb] its tables as the
    lookups see them ([stbl_tables]): the sample count is [tb]'s; for every sample id [k] in [1..count] the offset is
    [spec_offset tb k] and [read_sample], from ANY stream position, in build mode [m'] (independent of [m]), returns the
    sample the standard describes — start time, duration, composition offset, sync flag — with exactly the bytes
    [b[off .. off+sz)] whenever they lie inside the file; ids outside [1..count] never yield a sample and never panic. *)
From MP4 Require Import MuxMoovDefs MuxOpenKit LayoutKit RtMoov RtFtyp IsoFtyp IsoMoov FileLookup.
Open Scope string_scope.
Open Scope list_scope.
Open Scope N_scope.

Definition C03_open_statement : Prop :=
  forall (m m' : mode) (mdat_first wf wv wd : bool) (ft : ftyp) (v : moov) (media : bytes),
  ftyp_wf ft = true -> ftyp_size ft < U32 -> moov_rt_wf v = true -> moov_size v < U32 ->
  NoDup (map trak_id (moov_traks v)) -> ~ In 0 (map trak_id (moov_traks v)) ->
  (forall t, In t (moov_traks v) -> consistent (stbl_tables (minf_stbl (mdia_minf (trak_mdia t)))) = true) ->
  let cf := mkChild wf 0x66747970 (iso_ftyp_payload ft) in
  let cv := mkChild wv 0x6d6f6f76 (iso_moov_payload v) in
  let cd := mkChild wd 0x6d646174 media in
  let b := render (if mdat_first then [cf; cd; cv] else [cf; cv; cd]) in
  lenN b < 2 ^ 63 -> child_wf cd ->
  exists r,
    (forall fuel, (N.to_nat (lenN b) + 2 <= fuel)%nat ->
       run (open_fuel fuel m (lenN b)) (stream_at b 0) = (Ok r, stream_at b (lenN b))) /\
    rd_ftyp r = ft /\ rd_moov r = v /\ rd_moofs r = [] /\ rd_emsgs r = [] /\ rd_size r = lenN b /\
    map fst (rd_tracks r) = map trak_id (moov_traks v) /\
    (forall tid, ~ In tid (map trak_id (moov_traks v)) -> rd_sample_count r tid = Err EData) /\
    forall t, In t (moov_traks v) ->
      let tb := stbl_tables (minf_stbl (mdia_minf (trak_mdia t))) in
      rd_sample_count r (trak_id t) = Ok (t_stsz_count tb) /\
      (forall k, 1 <= k <= t_stsz_count tb ->
         exists off sz dl ct,
           spec_offset tb k = Some off /\ spec_size tb k = Some sz /\
           spec_delta tb k = Some dl /\ spec_cts tb k = Some ct /\
           rd_sample_offset m' r (trak_id t) k = Ok off /\
           forall pos, off + sz <= lenN b ->
             fst (run (rd_read_sample m' r (trak_id t) k) (stream_at b pos)) =
               Ok (Some (mkSample (spec_start tb k) dl ct (spec_sync tb k)
                                  (firstn (N.to_nat sz) (skipn (N.to_nat off) b))))) /\
      (forall k, k = 0 \/ t_stsz_count tb < k ->
         forall st, match fst (run (rd_read_sample m' r (trak_id t) k) st) with
                    | Ok (Some _) => False
                    | Panic _ => False
                    | _ => True
                    end).

Theorem C03_consistent_file_lookup : C03_open_statement.
Proof. exact consistent_file_lookup. Qed.
Print Assumptions C03_consistent_file_lookup.

(** ** Non-vacuity: a hand-built two-track movie (not a muxer output: an edit list, two stsc runs, a 64-bit chunk
    offset table, metadata in udta), laid out mdat-first with a 64-bit moov header *)
Definition c03o_stbl1 : stbl :=
  mkStbl (mkStsd 0 0 (Some avc1_test) None None None None)
         (mkStts 0 0 [mkSttsEntry 2 100; mkSttsEntry 1 50])
         (Some (mkCtts 0 0 [mkCttsEntry 1 0%Z; mkCttsEntry 2 7%Z]))
         (Some (mkStss 0 0 [1; 3]))
         (BoxStsc.mkStsc 0 0 [mkStscEnt 1 2 1 1; mkStscEnt 2 1 1 3])
         (mkStsz 0 0 0 3 [4; 3; 2])
         (Some (mkStco 0 0 [32; 39]))
         None.

Definition c03o_stbl2 : stbl :=
  mkStbl (mkStsd 0 0 (Some avc1_test) None None None None)
         (mkStts 0 0 [mkSttsEntry 1 1000])
         None None
         (BoxStsc.mkStsc 0 0 [mkStscEnt 1 1 1 1])
         (mkStsz 0 0 2 1 [])
         None
         (Some (mkCo64 0 0 [41])).

Definition c03o_trak (id : N) (e : option edts) (s : stbl) : trak :=
  mkTrak (mkTkhd 0 tkhd_TrackEnabled 0 0 id 300 0 0 (fp8_new 1) matrix_default (fp16_new 320) (fp16_new 240))
         e None
         (mkMdia mdhd_default (mkHdlr 0 0 0x76696465 [86; 105; 100; 101; 111])
                 (mkMinf (Some vmhd_default) None dinf_default s)).

Definition c03o_moov : moov :=
  mkMoov mvhd_default None None
         [c03o_trak 1 (Some (mkEdts (Some (mkElst 0 0 [mkElstEntry 300 0 1 0])))) c03o_stbl1;
          c03o_trak 7 None c03o_stbl2]
         (Some (mkUdta (Some (MetaMdir (Some ilst_test))))).

Definition c03o_ftyp : ftyp := mkFtyp 0x69736f6d 512 [0x69736f6d; 0x61766331].
Definition c03o_media : bytes := [1; 2; 3; 4; 5; 6; 7; 8; 9; 10; 11; 12].

Definition c03o_bytes : bytes :=
  render [mkChild false 0x66747970 (iso_ftyp_payload c03o_ftyp);
          mkChild false 0x6d646174 c03o_media;
          mkChild true 0x6d6f6f76 (iso_moov_payload c03o_moov)].

(** every hypothesis of the theorem holds *)
Example C03_open_hypotheses :
  ftyp_wf c03o_ftyp = true /\ ftyp_size c03o_ftyp < U32 /\ moov_rt_wf c03o_moov = true /\ moov_size c03o_moov < U32 /\
  map trak_id (moov_traks c03o_moov) = [1; 7] /\
  forallb (fun t => consistent (stbl_tables (minf_stbl (mdia_minf (trak_mdia t))))) (moov_traks c03o_moov) = true /\
  lenN c03o_bytes < 2 ^ 63 /\ child_wf (mkChild false 0x6d646174 c03o_media).
Proof. vm_compute. repeat split; reflexivity. Qed.

(** and the conclusion is what evaluation gives: [open_fuel] on the bytes, then the calls *)
Example C03_open_ex :
  match run (open_fuel (N.to_nat (lenN c03o_bytes) + 2) Dbg (lenN c03o_bytes)) (stream_at c03o_bytes 0) with
  | (Ok r, s') =>
      s_pos s' = lenN c03o_bytes /\ rd_moov r = c03o_moov /\ map fst (rd_tracks r) = [1; 7] /\
      rd_sample_count r 1 = Ok 3 /\ rd_sample_count r 7 = Ok 1 /\ rd_sample_count r 2 = Err EData /\
      map (fun k => rd_sample_offset Rel r 1 k) [1; 2; 3] = [Ok 32; Ok 36; Ok 39] /\
      map (fun k => fst (run (rd_read_sample Rel r 1 k) (stream_at c03o_bytes 5))) [0; 1; 2; 3; 4] =
        [Err EData;
         Ok (Some (mkSample 0 100 0 true [1; 2; 3; 4]));
         Ok (Some (mkSample 100 100 7 false [5; 6; 7]));
         Ok (Some (mkSample 200 50 7 true [8; 9]));
         Ok None] /\
      fst (run (rd_read_sample Dbg r 7 1) (stream_at c03o_bytes 0)) = Ok (Some (mkSample 0 1000 0 true [10; 11]))
  | _ => False
  end.
Proof. vm_compute. repeat split; reflexivity. Qed.

(** what the specification says for the same tables (the right-hand sides of the theorem) *)
Example C03_open_spec :
  let tb := stbl_tables c03o_stbl1 in
  map (fun k => (spec_offset tb k, spec_size tb k, spec_start tb k, spec_delta tb k, spec_cts tb k, spec_sync tb k)) [1; 2; 3]
  = [(Some 32, Some 4, 0, Some 100, Some 0%Z, true);
     (Some 36, Some 3, 100, Some 100, Some 7%Z, false);
     (Some 39, Some 2, 200, Some 50, Some 7%Z, true)].
Proof. vm_compute. reflexivity. Qed.

(** the theorem applied to the example, in both build modes *)
Example C03_open_applies : forall m, exists r,
  run (open_fuel (N.to_nat (lenN c03o_bytes) + 2) m (lenN c03o_bytes)) (stream_at c03o_bytes 0)
    = (Ok r, stream_at c03o_bytes (lenN c03o_bytes)) /\
  rd_moov r = c03o_moov /\ rd_sample_count r 1 = Ok 3 /\ rd_sample_count r 7 = Ok 1.
Proof.
  intros m.
  destruct C03_open_hypotheses as (H1 & H2 & H3 & H4 & H5 & H6 & H7 & H8).
  destruct (C03_consistent_file_lookup m m true false true false c03o_ftyp c03o_moov c03o_media H1 H2 H3 H4)
    as (r & Ho & _ & Hm & _ & _ & _ & _ & _ & Ht).
  - rewrite H5. constructor; [intros [E|[]]; discriminate E|]. constructor; [intros []|constructor].
  - rewrite H5. intros [E|[E|[]]]; discriminate E.
  - rewrite forallb_forall in H6. exact H6.
  - exact H7.
  - exact H8.
  - exists r. split; [apply Ho; apply Nat.le_refl|]. split; [exact Hm|].
    split.
    + destruct (Ht (c03o_trak 1 (Some (mkEdts (Some (mkElst 0 0 [mkElstEntry 300 0 1 0])))) c03o_stbl1)) as (Hc & _);
        [left; reflexivity|exact Hc].
    + destruct (Ht (c03o_trak 7 None c03o_stbl2)) as (Hc & _); [right; left; reflexivity|exact Hc].
Qed.
