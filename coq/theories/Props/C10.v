(** * Property C10 — a failing stream call surfaces as an I/O error

    "If the underlying stream fails at any single read, seek or write call during opening,
    sample reading or muxing, the library call in progress returns an I/O error: it never
    panics and never reports success."

    Statements only; proofs in [Base/Prog.v] ([fault_surfaces], [wfault_surfaces]) and
    [Proofs/GenericProofs.v].

    Everything the library does to a stream is a node of a [prog] / [wprog] tree
    ([Base/Prog.v]); the metered interpreters [runm] / [wrunm] count the stream calls
    ([read_exact] of at least one byte, [seek], [stream_position]; [write_all] of at least one
    byte) and, when started with [meter0 (Some k)], make call number [k] (0-based) fail.
    [m_fired m' = true] says that the failure was delivered, [m_ops m'] counts the calls issued
    (including the failed one).  There is no "catch" node in [prog]: that the Rust code never
    swallows an [io::Error] is part of the model-to-code correspondence (every [?] on a stream
    call is a node of the tree), not of this theorem.

    The muxer itself ([Model/Writer.v]) is a pure state machine over an in-memory buffer; its
    stream programs are the box encoders, for which [io_fault_encoders] is stated. *)
From MP4 Require Import Reader GenericProofs ShortTransfers.
Open Scope list_scope.
Open Scope N_scope.

(** [surfaces p]: whatever the stream, whatever the meter state the call starts in (fault
    armed at any index or none), if the fault is delivered during the run of [p] the result is
    [Err EIo] — not [Ok], not [Panic], not another error. *)
Theorem surfaces_def : forall A (p : prog A),
  surfaces p <->
  (forall s mt, m_fired mt = false ->
     let '(r, _, m') := runm p s mt in m_fired m' = true -> r = Err EIo).
Proof. intros; reflexivity. Qed.
Theorem wsurfaces_def : forall A (p : wprog A),
  wsurfaces p <->
  (forall w mt, m_fired mt = false ->
     let '(r, _, m') := wrunm p w mt in m_fired m' = true -> r = Err EIo).
Proof. intros; reflexivity. Qed.

(** ** Opening ([Mp4Reader::read_header], [read_fragment_header]) and sample reading *)
Theorem io_fault_open : forall fuel m size, surfaces (open_fuel fuel m size).
Proof. exact io_fault_open_lemma. Qed.
Print Assumptions io_fault_open.

Theorem io_fault_open_fragment : forall fuel m r size, surfaces (open_fragment_fuel fuel m r size).
Proof. exact io_fault_open_fragment_lemma. Qed.
Print Assumptions io_fault_open_fragment.

Theorem io_fault_read_sample : forall m r tid sid, surfaces (rd_read_sample m r tid sid).
Proof. exact io_fault_read_sample_lemma. Qed.
Print Assumptions io_fault_read_sample.

(** ** Writing: the box encoders the muxer runs on its output stream *)
Theorem io_fault_encoders :
  (forall m v, wsurfaces (enc_moov m v)) /\ (forall v, wsurfaces (enc_ftyp v)) /\
  (forall v, wsurfaces (enc_moof v)) /\ (forall v, wsurfaces (enc_emsg v)).
Proof. exact io_fault_encoders_lemma. Qed.
Print Assumptions io_fault_encoders.

(** the same for every stream program of the model, present and future *)
Theorem io_fault_any_reader : forall A (p : prog A), surfaces p.
Proof. exact @surfaces_all. Qed.
Theorem io_fault_any_writer : forall A (p : wprog A), wsurfaces p.
Proof. exact @wsurfaces_all. Qed.
Print Assumptions io_fault_any_reader.
Print Assumptions io_fault_any_writer.

(** ** Non-vacuity, in general: every call of a run can be made to fail.
    If the un-faulted run issues [n] stream calls, then for every [k < n] the run with the fault
    armed at [k] delivers it, after exactly [k] successful calls, and returns [Err EIo]. *)
Theorem fault_is_delivered : forall A (p : prog A) s k,
  k < m_ops (snd (runm p s (meter0 None))) ->
  let '(r, _, m') := runm p s (meter0 (Some k)) in
  m_fired m' = true /\ m_ops m' = k + 1 /\ r = Err EIo.
Proof. exact @fault_is_delivered_lemma. Qed.
Print Assumptions fault_is_delivered.

Theorem wfault_is_delivered : forall A (p : wprog A) w k,
  k < m_ops (snd (wrunm p w (meter0 None))) ->
  let '(r, _, m') := wrunm p w (meter0 (Some k)) in
  m_fired m' = true /\ m_ops m' = k + 1 /\ r = Err EIo.
Proof. exact @wfault_is_delivered_lemma. Qed.
Print Assumptions wfault_is_delivered.

(** With no fault armed the metered run is the plain run (the one all value theorems are
    about) and nothing fires: the fault machinery does not change what the library computes. *)
Theorem no_fault_same_result : forall A (p : prog A) s,
  let '(r, s', m') := runm p s (meter0 None) in run p s = (r, s') /\ m_fired m' = false.
Proof. exact @no_fault_same_result_lemma. Qed.
Print Assumptions no_fault_same_result.

Theorem wno_fault_same_result : forall A (p : wprog A) w,
  let '(r, w', m') := wrunm p w (meter0 None) in wrun p w = (r, w') /\ m_fired m' = false.
Proof. exact @wno_fault_same_result_lemma. Qed.
Print Assumptions wno_fault_same_result.

(** ** Non-vacuity on concrete data ([reader_test_file]: ftyp, moov with one track, mdat) *)
Definition outcome_with_fault {A} (p : prog A) (s : stream) (k : N) : rclass * bool :=
  let '(r, _, m') := runm p s (meter0 (Some k)) in (class_of r, m_fired m').
Definition woutcome_with_fault {A} (p : wprog A) (w : wstream) (k : N) : rclass * bool :=
  let '(r, _, m') := wrunm p w (meter0 (Some k)) in (class_of r, m_fired m').
Definition upto (n : N) : list N := map N.of_nat (seq 0 (N.to_nat n)).

Definition c10_file := reader_test_file.
Definition c10_open := open_fuel 2000 Dbg (lenN c10_file).
Definition c10_open_calls : N := m_ops (snd (runm c10_open (stream_at c10_file 0) (meter0 None))).

(** opening the test file succeeds un-faulted and issues many stream calls; failing ANY one of
    them gives an I/O error; arming the fault beyond the last call changes nothing *)
Example c10_open_every_call :
  class_of (fst (run c10_open (stream_at c10_file 0))) = COk
  /\ 100 <? c10_open_calls = true
  /\ forallb (fun k => match outcome_with_fault c10_open (stream_at c10_file 0) k with
                       | (CIo, true) => true | _ => false end) (upto c10_open_calls) = true
  /\ outcome_with_fault c10_open (stream_at c10_file 0) c10_open_calls = (COk, false).
Proof. vm_compute. repeat split; reflexivity. Qed.

(** reading sample 2 of track 1: seek + read = 2 stream calls, each can fail *)
Example c10_read_sample_every_call :
  match fst (run c10_open (stream_at c10_file 0)) with
  | Ok r =>
      let p := rd_read_sample Dbg r 1 2 in
      class_of (fst (run p (stream_at c10_file 0))) = COk
      /\ m_ops (snd (runm p (stream_at c10_file 0) (meter0 None))) = 2
      /\ map (outcome_with_fault p (stream_at c10_file 0)) [0; 1; 2] = [(CIo, true); (CIo, true); (COk, false)]
  | _ => False
  end.
Proof. vm_compute. repeat split; reflexivity. Qed.

(** writing the moov box of the test file: every one of its [write_all] calls can fail *)
Definition c10_enc := enc_moov Dbg reader_test_moov.
Definition c10_enc_calls : N := m_ops (snd (wrunm c10_enc (mkW 0 [] 0) (meter0 None))).
Example c10_encoder_every_call :
  class_of (fst (wrun c10_enc (mkW 0 [] 0))) = COk
  /\ 100 <? c10_enc_calls = true
  /\ forallb (fun k => match woutcome_with_fault c10_enc (mkW 0 [] 0) k with
                       | (CIo, true) => true | _ => false end) (upto c10_enc_calls) = true
  /\ woutcome_with_fault c10_enc (mkW 0 [] 0) c10_enc_calls = (COk, false).
Proof. vm_compute. repeat split; reflexivity. Qed.

(** ** Short transfers and interrupted calls are transparent (second half of C10)

    In the model a transfer is ONE node ([RdExact n] / [WrAll l]); the Rust code reaches the stream through
    [std::io::Read::read_exact] / [std::io::Write::write_all], whose loops are modelled in [Proofs/ShortTransfers.v]
    ([rx], [wx]: retry on [Interrupted], advance by what a call transferred, [UnexpectedEof] / [WriteZero] on a zero-length
    transfer) over a raw stream that follows an ARBITRARY schedule [sched : list ev] — each raw call transfers at most [max k 1]
    bytes ([Short k]) or fails with [ErrorKind::Interrupted] ([Intr]); after the schedule is used up, calls transfer everything.
    [run_sched] / [wrun_sched] are [run] / [wrun] with every transfer node replaced by the loop.  For EVERY program and EVERY
    schedule the result and the final stream (data, position; buffer, position) are those of the all-at-once run.
    The loops are a model of [std], recorded in the trusted base; that the library uses nothing else is [io_discipline] below. *)
Theorem short_reads_transparent : forall A (p : prog A) s sched,
  stream_wf s -> fst (run_sched p s sched) = run p s.
Proof. exact ShortTransfers.short_reads_transparent. Qed.

Theorem short_writes_transparent : forall A (p : wprog A) w sched,
  w_base w = 0 -> fst (wrun_sched p w sched) = wrun p w.
Proof. exact ShortTransfers.short_writes_transparent. Qed.

(** instances: opening, opening a fragment, reading a sample, every box encoder *)
Corollary short_reads_open : forall fuel m size data pos sched,
  fst (run_sched (open_fuel fuel m size) (stream_at data pos) sched) = run (open_fuel fuel m size) (stream_at data pos).
Proof. intros. apply ShortTransfers.short_reads_transparent, stream_at_wf. Qed.

Corollary short_reads_open_fragment : forall fuel m r size data pos sched,
  fst (run_sched (open_fragment_fuel fuel m r size) (stream_at data pos) sched) = run (open_fragment_fuel fuel m r size) (stream_at data pos).
Proof. intros. apply ShortTransfers.short_reads_transparent, stream_at_wf. Qed.

Corollary short_reads_read_sample : forall m r tid sid data pos sched,
  fst (run_sched (rd_read_sample m r tid sid) (stream_at data pos) sched) = run (rd_read_sample m r tid sid) (stream_at data pos).
Proof. intros. apply ShortTransfers.short_reads_transparent, stream_at_wf. Qed.

Corollary short_writes_moov : forall m v buf pos sched,
  fst (wrun_sched (enc_moov m v) (mkW 0 buf pos) sched) = wrun (enc_moov m v) (mkW 0 buf pos).
Proof. intros. now apply ShortTransfers.short_writes_transparent. Qed.

(** non-vacuity: the test file opened one byte per raw call with every third call interrupted: the same reader, thousands of raw calls *)
Example c10_bytewise_open :
  let sched := flat_map (fun _ => [Short 1; Short 1; Intr]) (upto 2000) in
  match run_sched c10_open (stream_at c10_file 0) sched with
  | (r, s', (rest, calls)) => (r, s') = run c10_open (stream_at c10_file 0) /\ 1000 <? calls = true
  end.
Proof. vm_compute. split; reflexivity. Qed.

(** ** The tie of the model's transfer nodes to the source (regenerated by translator/rust2gen.py on every run).
    The model's programs move bytes only through [RdExact] / [WrAll] (= [read_exact] / [write_all], directly or through the
    byteorder [read_u32]-style extension methods).  [Tables.io_raw_sites] lists every OTHER byte-moving method call the source
    contains (raw [read]/[write], [take], [read_to_end], [by_ref], [chain], vectored and buffered calls, [flush]), per file.
    The model was written against exactly this list:
    - src/track.rs [by_ref().take(n).read_to_end(&mut buf)] followed by the length check in [Mp4Track::read_sample]
      (modelled as [RdExact n]: [read_to_end] loops until end of data and retries [Interrupted], the check turns a short result into
      [UnexpectedEof], so the composite is an exact transfer);
    - src/mp4box/avc1.rs [sps.write(writer)] / [pps.write(writer)]: [NalUnit::write], the library's own method (modelled);
    the [BoxHeader::new(..).write(writer)] calls are [BoxHeader::write], the library's own method (modelled as [write_header]); the translator
    counts them ([Tables.boxheader_write_sites]) for information only — a refactoring that moves them behind a helper changes no stream call.
    A change that introduces another raw transfer breaks this lemma: the model no longer describes the code's I/O. *)
Lemma io_discipline :
  Tables.io_raw_sites = [ ("src/mp4box/avc1.rs", "write", 2); ("src/track.rs", "by_ref", 1);
                          ("src/track.rs", "read_to_end", 1); ("src/track.rs", "take", 1) ]%string
.
Proof. reflexivity. Qed.
