(** Property C01, end-to-end form — the reader OPENS what the muxer wrote and returns the history
    (statement only; proof in Proofs/MuxOpen.v).

    This is the single composed theorem "reader(muxer(history)) = history" at the level of BYTES:
    [b] is every byte the muxer model has written when [write_end] returns ([mux_bytes], Model/WriterMoov.v:
    ftyp, mdat in either size form, the sample payload, the encoded moov — tied to the real [Mp4Writer] byte
    for byte by the correspondence of C01/C02/C14/C17).  [open_fuel] is the model of [Mp4Reader::read_header]
    (Model/Reader.v), run on [b] from position 0 with the true length, in build mode [m'] (independent of the
    muxer's [m]), with any fuel from [|b| + 2] on (what the drivers use).

    The theorem composes C13/C14 (layout of the bytes before moov), C01 ([consistent] tables, lookups return
    the history), C04/C05 (ftyp and moov round trips against the ISO layouts: C04_containers_roundtrip),
    C12's loop theorem on streams consistent with their data, and two normalisation lemmas for the only two
    fields where the decoded value differs from the value the muxer holds in memory (never on the wire):
    stsc [first_sample] (re-derived by the decoder; the muxer's own value is wrong for a run created by the
    final flush) and avcC [length_size_minus_one] ([AvcCBox::new] stores 0xff, the wire carries its two low bits).

    Hypotheses (all boolean or arithmetic, see the non-vacuity example below):
      [ops_typed]            sample durations are u32, rendering offsets i32 (the Rust types);
      fewer than 2^32-1 tracks;
      [mp4_conf_rep], [conf_rep]   the configuration is representable in the wire format (C04's hypothesis): brands and
                             timescales u32, language = three bytes in 0x60..0x7f, dimensions u16, parameter sets are
                             byte strings, AAC object type < 31 (D80: larger ones are written without the escape) and
                             frequency index < 15 — [exA_enum_rep] in MuxMoovConf.v lists exactly which enum values these exclude;
      [moov_size mv < 2^32]  the moov box fits the 32-bit size field the encoder writes;
      the output is shorter than 2^63 bytes.

    Conclusion: opening succeeds, leaves the stream at the end, and the reader has: the configured ftyp; size = |b|;
    no fragments; the configured movie timescale; the muxer's movie duration; exactly the tracks 1..n in call order of
    the accepted [add_track] calls; an error for every other track id; and for track [i+1]: every accessor returns the
    configuration ([conf_survives]: id, timescale, language, track type, media type, width/height, SPS/PPS and profile,
    AAC profile / frequency index / channel configuration / bitrate), the sample count is the number of accepted
    [write_sample] calls, sample [k] read from ANY stream position is the k-th accepted sample with start time = sum of the
    earlier durations, its duration, rendering offset, sync flag and exactly its bytes, its offset lies in the mdat payload,
    and ids outside 1..count never yield a sample and never panic. *)
From MP4 Require Import MuxMoovDefs MuxMoovConf MuxInv MuxTotal MuxOpen.
Open Scope string_scope.
Open Scope list_scope.
Open Scope N_scope.

Definition C01_open_statement : Prop := forall m m' cfg ops cls f mv,
  run_mux m 0 cfg ops = Ok (cls, f) -> ops_typed ops = true -> lenN (added_confs ops) < U32MAX ->
  mp4_conf_rep cfg = true -> forallb conf_rep (added_confs ops) = true ->
  moov_of_mfinal m f = Ok mv -> moov_size mv < U32 -> lenN (mf_out f) + moov_size mv < 2 ^ 63 ->
  let b := mf_out f ++ wout (enc_moov m mv) in
  exists r,
    (forall fuel, (N.to_nat (lenN b) + 2 <= fuel)%nat ->
       run (open_fuel fuel m' (lenN b)) (stream_at b 0) = (Ok r, stream_at b (lenN b))) /\
    rd_ftyp r = ftyp_of_conf cfg /\ rd_size r = lenN b /\ rd_moofs r = [] /\ rd_emsgs r = [] /\
    rd_timescale r = mc_timescale cfg /\ mvhd_duration (moov_mvhd (rd_moov r)) = mf_mvhd_duration f /\
    map fst (rd_tracks r) = map N.of_nat (seq 1 (length (added_confs ops))) /\
    (forall tid, ~ In tid (map fst (rd_tracks r)) -> rd_sample_count r tid = Err EData) /\
    forall i c, nth_error (added_confs ops) i = Some c ->
      let tid := N.of_nat i + 1 in
      let ss := accepted_samples ops cls tid in
      exists t, tracks_get tid (rd_tracks r) = Some t /\
        conf_survives c tid t /\
        rd_sample_count r tid = Ok (lenN ss) /\
        (forall k s, nth1 ss k = Some s ->
           (exists off, rd_sample_offset m' r tid k = Ok off /\
                        16 + lenN (ftyp_bytes cfg) <= off /\ off + lenN (ws_bytes s) <= lenN (mf_out f)) /\
           forall pos, fst (run (rd_read_sample m' r tid k) (stream_at b pos)) =
                       Ok (Some (mkSample (sumN (map ws_duration (firstn (N.to_nat (k - 1)) ss)))
                                          (ws_duration s) (ws_rendering_offset s) (ws_is_sync s) (ws_bytes s)))) /\
        (forall k, k = 0 \/ lenN ss < k ->
           forall st, match fst (run (rd_read_sample m' r tid k) st) with
                      | Ok (Some _) => False
                      | Panic _ => False
                      | _ => True
                      end).

Theorem C01_mux_then_open : C01_open_statement.
Proof. exact mux_open_readback. Qed.
Print Assumptions C01_mux_then_open.

(** the same, from [mux_bytes]: the bytes [mux_bytes] reports are the [b] above *)
Theorem C01_mux_bytes_are_opened : forall m cfg ops cls b,
  mux_bytes m 0 cfg ops = Ok (cls, b) ->
  exists f mv, run_mux m 0 cfg ops = Ok (cls, f) /\ moov_of_mfinal m f = Ok mv /\
               b = mf_out f ++ wout (enc_moov m mv).
Proof. exact mux_bytes_inv. Qed.
Print Assumptions C01_mux_bytes_are_opened.

(** ** Non-vacuity: the two-track history of C14 ([ex14_ops]: a rejected add_track, a rejected write) satisfies every
    hypothesis, in both build modes, and the conclusion is what evaluation gives *)
Definition exo_cfg : mp4_conf := mkMp4Conf 0x69736f6d 512 [0x69736f6d; 0x61766331] 1000.
Definition exo_video : track_conf :=
  mkTrackConf "Video" 90000 [117; 110; 100] (AvcConf 1920 1080 [103; 66; 0; 30] [104; 206]).
Definition exo_audio : track_conf :=
  mkTrackConf "Audio" 48000 [101; 110; 103] (AacConf 128000 "AacLowComplexity" "Freq48000" "Stereo").
Definition exo_bad : track_conf := mkTrackConf "Video" 0 [117; 110; 100] (Vp9Conf 640 480).
Definition exo_ops : list mux_op :=
  [ OpAddTrack exo_video; OpAddTrack exo_bad; OpAddTrack exo_audio;
    OpWrite 1 (mkWSample 3000 0 true [1; 2; 3]);
    OpWrite 2 (mkWSample 1024 0 true [9; 9]);
    OpWrite 1 (mkWSample 3001 1500 false [4]);
    OpWrite 7 (mkWSample 5 0 true [0]);
    OpWrite 2 (mkWSample 1023 0 true [8; 8]);
    OpWrite 1 (mkWSample 2999 0 false [5; 6]) ].

Example C01_open_hypotheses : forall m,
  match run_mux m 0 exo_cfg exo_ops with
  | Ok (cls, f) =>
      ops_typed exo_ops = true /\ lenN (added_confs exo_ops) < U32MAX /\
      mp4_conf_rep exo_cfg = true /\ forallb conf_rep (added_confs exo_ops) = true /\
      match moov_of_mfinal m f with
      | Ok mv => moov_size mv < U32 /\ lenN (mf_out f) + moov_size mv < 2 ^ 63 /\
                 mux_bytes m 0 exo_cfg exo_ops = Ok (cls, mf_out f ++ wout (enc_moov m mv))
      | _ => False
      end
  | _ => False
  end.
Proof. intros []; vm_compute; repeat split; reflexivity. Qed.

Example C01_open_ex :
  match mux_bytes Dbg 0 exo_cfg exo_ops with
  | Ok (_, b) =>
      match run (open_fuel (N.to_nat (lenN b) + 2) Rel (lenN b)) (stream_at b 0) with
      | (Ok r, s') =>
          s_pos s' = lenN b /\ map fst (rd_tracks r) = [1; 2] /\
          rd_sample_count r 1 = Ok 3 /\ rd_sample_count r 2 = Ok 2 /\ rd_sample_count r 3 = Err EData /\
          option_map mt_width (tracks_get 1 (rd_tracks r)) = Some 1920 /\
          option_map mt_audio_profile (tracks_get 2 (rd_tracks r)) = Some (Ok "AacLowComplexity") /\
          map (fun k => fst (run (rd_read_sample Rel r 1 k) (stream_at b 7))) [0; 1; 2; 3; 4] =
            [Err EData;
             Ok (Some (mkSample 0 3000 0 true [1; 2; 3]));
             Ok (Some (mkSample 3000 3001 1500 false [4]));
             Ok (Some (mkSample 6001 2999 0 false [5; 6]));
             Ok None]
      | _ => False
      end
  | _ => False
  end.
Proof. vm_compute. repeat split; reflexivity. Qed.
