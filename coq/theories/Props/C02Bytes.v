(** Property C02, byte-level form — the muxer's COMPLETE output passes the independent ISO validator
    (statement only; proof in Proofs/IsoMuxValid.v over Proofs/IsoParse1-4.v).

    [iso_check_file] (Iso/IsoFile.v) is an ISO-BMFF parser and validator over plain byte lists written from ISO/IEC 14496-12; it shares
    nothing with the library model except the plain record [tables].  It accepts a byte string iff: the top-level boxes tile it exactly
    (32- and 64-bit size forms), ftyp comes first, there is one moov and one mdat; every container's children tile its payload; per track
    (tkhd/mdhd/hdlr/stbl parsed field by field from the standard's layouts) the tables are mutually consistent and account for exactly the
    expected number of samples and summed duration ([track_tables_ok]: stsz/stts/ctts totals, stsc runs x chunk offsets, stss increasing and
    in range, exactly one of stco/co64); every chunk extent lies inside the mdat payload and extents are pairwise disjoint; tkhd duration =
    mdhd duration converted to the movie timescale within one tick (saturated at 2^64-1), mvhd duration = the longest track; version-0 headers
    only carry 32-bit values; track ids are 1..n.
    [b = mf_out f ++ wout (enc_moov m mv)] is every byte the muxer model writes ([mux_bytes], Model/WriterMoov.v; tied byte for byte to the
    real Mp4Writer by the correspondence).  [expected ops cls f] is, per track, (number of accepted samples, sum of their durations), straight from
    the history.  Hypotheses: those of C01Open (typed history, representable configuration, moov < 4 GiB, output < 2^63 bytes).
    This is C02 as ONE theorem over bytes; Props/C02.v holds the table-level theorems it composes with C04's ISO layouts. *)
From MP4 Require Import MuxMoovDefs MuxMoovConf MuxInv MuxTotal IsoFile IsoMuxValid.
Open Scope list_scope.
Open Scope N_scope.

Definition C02_bytes_statement : Prop := forall m cfg ops cls f mv,
  run_mux m 0 cfg ops = Ok (cls, f) -> ops_typed ops = true -> lenN (added_confs ops) < U32MAX ->
  mp4_conf_rep cfg = true -> forallb conf_rep (added_confs ops) = true ->
  moov_of_mfinal m f = Ok mv -> moov_size mv < U32 -> lenN (mf_out f) + moov_size mv < 2 ^ 63 ->
  iso_check_file 0 (map (fun i => let ss := accepted_samples ops cls (N.of_nat i + 1) in
                                  (lenN ss, sumN (map ws_duration ss)))
                        (seq 0 (length (mf_tracks f))))
                 (mf_out f ++ wout (enc_moov m mv)) = true.

Theorem C02_mux_bytes_iso_valid : C02_bytes_statement.
Proof. exact mux_bytes_iso_valid. Qed.
Print Assumptions C02_mux_bytes_iso_valid.

(** non-vacuity and sensitivity: on the two-track history of C01Open.v ([exo_ops]: a rejected add_track, a rejected write; hypotheses:
    [C01_open_hypotheses]) the validator accepts the output with the history's expectation and rejects it with a wrong duration, a wrong sample
    count or a missing track *)
From MP4 Require Import C01Open.
Example C02_bytes_ex :
  match run_mux Dbg 0 exo_cfg exo_ops with
  | Ok (cls, f) =>
      match moov_of_mfinal Dbg f with
      | Ok mv =>
          let b := mf_out f ++ wout (enc_moov Dbg mv) in
          expected exo_ops cls f = [(3, 9000); (2, 2047)] /\
          iso_check_file 0 (expected exo_ops cls f) b = true /\
          iso_check_file 0 [(3, 9000); (2, 2048)] b = false /\
          iso_check_file 0 [(2, 9000); (2, 2047)] b = false /\
          iso_check_file 0 [(3, 9000)] b = false
      | _ => False
      end
  | _ => False
  end.
Proof. vm_compute. repeat split; reflexivity. Qed.
