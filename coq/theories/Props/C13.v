(** * Property C13 — 32-bit to 64-bit transitions in the muxer are lossless

    Statements only; proofs in [Proofs/MuxTotal.v].  [run_mux m base cfg ops = Ok (cls, f)]:
    the muxer ([Model/Writer.v]) started on a stream at position [base] (any position, also
    beyond 2^32), ran the calls [ops] and [write_end]; [f] is what it leaves: the bytes before
    [moov] ([mf_out f], stream positions [mf_base f ..]), the position and size of [mdat], and
    per track the sample tables and header fields the [moov] encoder is handed.
    [mux_pre base cfg ops]: durations are u32 values, fewer than 2^32-1 tracks, the mdat header
    lies below 2^64 (see [Props/C17.v]).  All statements hold for both build modes. *)
From MP4 Require Import Writer IsoFile MuxTotal.
Open Scope string_scope.
Open Scope list_scope.
Open Scope N_scope.

(** ** Media data: the mdat header.
    The mdat box covers exactly the bytes from its header to the end of the output.  Its size is
    written in the 32-bit field when it fits and otherwise as size = 1 + 64-bit largesize (over
    the [wide] placeholder), the box type is untouched, and the independent ISO box parser
    ([Iso/IsoFile.v]) reads the region back as one [mdat] box of exactly that size. *)
Theorem mdat_size_form_lossless : forall m base cfg ops cls f,
  mux_pre base cfg ops -> run_mux m base cfg ops = Ok (cls, f) ->
  mf_base f + lenN (mf_out f) < U64 ->          (* stream positions are u64 *)
  let size := mf_mdat_size f in
  let big := U32MAX <? size in
  mf_base f = base /\ mf_mdat_pos f = base + lenN (ftyp_bytes cfg) /\
  size = mf_base f + lenN (mf_out f) - mf_mdat_pos f /\
  16 <= size < U64 /\
  exists payload,
    size = 16 + lenN payload /\
    mf_out f = ftyp_bytes cfg ++
               (if big then be 4 1 ++ be 4 MDAT ++ be 8 size
                else be 4 size ++ be 4 MDAT ++ be 4 8 ++ be 4 WIDE) ++ payload /\
    iso_parse (mf_mdat_pos f) (dropN (mf_mdat_pos f - mf_base f) (mf_out f)) =
    Some [mkIbox MDAT (mf_mdat_pos f) (if big then 16 else 8) size
                 (if big then payload else be 4 8 ++ be 4 WIDE ++ payload)].
Proof. exact c13_mdat_lemma. Qed.
Print Assumptions mdat_size_form_lossless.

(** ** Chunk offsets.
    Every finished track carries its chunk offsets in exactly one of [stco] / [co64]: [stco]
    when every offset fits 32 bits, [co64] exactly when some offset does not.  The offsets are
    the 64-bit stream positions the chunks were written at: they lie in the mdat payload,
    between [mdat_pos + 16] and the end of the output (so an offset is never reduced modulo
    2^32, whatever [base] is). *)
Theorem chunk_offsets_lossless : forall m base cfg ops cls f,
  mux_pre base cfg ops -> run_mux m base cfg ops = Ok (cls, f) ->
  forall tf, In tf (mf_tracks f) ->
    ((exists l, t_stco (tf_tables tf) = Some l /\ t_co64 (tf_tables tf) = None /\
                Forall (fun o => o <= U32MAX) l) \/
     (exists l, t_stco (tf_tables tf) = None /\ t_co64 (tf_tables tf) = Some l /\
                Exists (fun o => U32MAX < o) l)) /\
    Forall (fun o => mf_mdat_pos f + 16 <= o <= mf_base f + lenN (mf_out f)) (tb_offsets (tf_tables tf)).
Proof. exact c13_offsets_lemma. Qed.
Print Assumptions chunk_offsets_lossless.

(** ** Durations and header versions.
    The media duration of track [i+1] is the exact sum of the durations of its accepted samples
    (no wrap: it stays below 2^64); mdhd, tkhd and mvhd are version 1 exactly when their
    duration exceeds 2^32-1, so no duration is stored in a field too narrow for it. *)
Theorem header_versions_lossless : forall m base cfg ops cls f,
  mux_pre base cfg ops -> run_mux m base cfg ops = Ok (cls, f) ->
  (forall i tf, nth_error (mf_tracks f) i = Some tf ->
     let h := tf_hdr tf in
     wh_mdhd_duration h = dur_written (N.of_nat i + 1) ops cls /\
     wh_mdhd_duration h < U64 /\ wh_tkhd_duration h < U64 /\
     wh_mdhd_version h = (if U32MAX <? wh_mdhd_duration h then 1 else 0) /\
     wh_tkhd_version h = (if U32MAX <? wh_tkhd_duration h then 1 else 0)) /\
  mf_mvhd_duration f < U64 /\
  mf_mvhd_version f = (if U32MAX <? mf_mvhd_duration f then 1 else 0).
Proof. exact c13_versions_lemma. Qed.
Print Assumptions header_versions_lossless.

(** ** Non-vacuity: output that starts just below 2^32, so that chunk offsets land below, at and
    above 2^32-1; durations that cross 2^32 *)
Definition ex13_cfg : mp4_conf := mkMp4Conf 0x69736f6d 512 [0x69736f6d; 0x61766331] 1000.
Definition ex13_video : track_conf :=
  mkTrackConf "Video" 90000 [117; 110; 100] (AvcConf 1920 1080 [103; 66; 0; 30] [104; 206]).
Definition ex13_audio : track_conf :=
  mkTrackConf "Audio" 48000 [101; 110; 103] (AacConf 128000 "AacLowComplexity" "Freq48000" "Stereo").
Definition ex13_text : track_conf := mkTrackConf "Subtitle" 1 [101; 110; 103] TtxtConf.
Definition ex13_ops : list mux_op :=
  [ OpAddTrack ex13_video; OpAddTrack ex13_audio; OpAddTrack ex13_text;
    OpWrite 1 (mkWSample 4294967295 0 true [1; 2; 3]);     (* one chunk: duration >= 1 s *)
    OpWrite 1 (mkWSample 4294967295 0 false [4]);          (* mdhd duration crosses 2^32 *)
    OpWrite 2 (mkWSample 1024 0 true [9; 9]);
    OpWrite 2 (mkWSample 1024 0 true [8; 8]);              (* flushed by write_end *)
    OpWrite 3 (mkWSample 4294967295 0 true [7]) ].         (* 2^32-1 s = 4294967295000 movie ticks *)

Definition ex13_view (r : res (list rclass * mfinal)) :=
  match r with
  | Ok (_, f) => Some (mf_mdat_pos f, mf_mdat_size f, mf_mvhd_duration f, mf_mvhd_version f,
                       map (fun tf => (tf_hdr tf, t_stco (tf_tables tf), t_co64 (tf_tables tf))) (mf_tracks f))
  | _ => None
  end.

Example ex13_pre : forall base, base < 2 ^ 33 -> mux_pre base ex13_cfg ex13_ops.
Proof.
  intros base H. constructor; [repeat constructor|vm_compute; reflexivity|].
  change (lenN (ftyp_bytes ex13_cfg)) with 24. change (2 ^ 33) with 8589934592 in H. unfold U64. lia.
Qed.

(** first payload byte at 2^32-4: the video chunks at 2^32-4 and 2^32-1 still fit stco; the
    subtitle chunk at 2^32 and the audio chunk at 2^32+1 need co64 *)
Example ex13_straddle : forall m,
  ex13_view (run_mux m 4294967252 ex13_cfg ex13_ops) =
  Some (4294967276, 25, 4294967295000, 1,
        [ (mkWh 8589934590 1 95443717 0, Some [4294967292; 4294967295], None);
          (mkWh 2048 0 42 0, None, Some [4294967297]);
          (mkWh 4294967295 0 4294967295000 1, None, Some [4294967296]) ]).
Proof. intros []; vm_compute; reflexivity. Qed.

(** just below: the last offset is 2^32-1 exactly, everything stays in stco *)
Example ex13_below : forall m,
  ex13_view (run_mux m 4294967250 ex13_cfg ex13_ops) =
  Some (4294967274, 25, 4294967295000, 1,
        [ (mkWh 8589934590 1 95443717 0, Some [4294967290; 4294967293], None);
          (mkWh 2048 0 42 0, Some [4294967295], None);
          (mkWh 4294967295 0 4294967295000 1, Some [4294967294], None) ]).
Proof. intros []; vm_compute; reflexivity. Qed.

(** the patched mdat header of that run (32-bit form: size 25, 'mdat', then the untouched 'wide' box) *)
Example ex13_mdat_header : forall m,
  match run_mux m 4294967252 ex13_cfg ex13_ops with
  | Ok (_, f) => dropN (mf_mdat_pos f - mf_base f) (mf_out f) =
                 [0; 0; 0; 25; 109; 100; 97; 116; 0; 0; 0; 8; 119; 105; 100; 101; 1; 2; 3; 4; 7; 9; 9; 8; 8]
  | _ => False
  end.
Proof. intros []; vm_compute; reflexivity. Qed.
