(** * Property C11 — truncated files

    "For every proper prefix of a valid file, given with the prefix's own length, opening
    either fails with an error or succeeds; when it succeeds, each sample read either fails
    with an error or is identical in bytes and timing to that sample of the complete file."

    Statements only; proofs in [Proofs/GenericPrefix.v].

    - "either fails with an error or succeeds", i.e. no panic and termination on a prefix, is
      not special to prefixes: a prefix is a byte string, and the no-panic / termination
      theorems of the other properties quantify over all byte strings.
    - [prefix_stable]: for EVERY stream program, a run on the prefix that does not end in an
      I/O error never looked beyond the prefix, so the run on the complete data returns the
      same result at the same position (success, data error, or panic alike).
    - [read_sample_prefix]: instance for [read_sample], for every reader value.
    - [open_prefix_moov]: the reader obtained from the prefix has the same [moov] and [ftyp]
      as the reader of the complete file, and its movie fragments are an initial segment.
    - [truncated_unfragmented]: the complete C11 statement for files without movie fragments.
    - [truncated_fragmented]: files with movie fragments, for a track that already has a fragment
      in the prefix, and without the sync flag.  The two witnesses at the end of this file show
      that both restrictions are necessary: there the property as quoted above is violated by
      the model (and by the code it mirrors). *)
From MP4 Require Import Hoare Reader GenericProofs GenericPrefix GenericFrag.
Open Scope list_scope.
Open Scope N_scope.

(** ** Every program: what it computes on a prefix it computes on the whole.
    [firstn k d] is the prefix; both streams are at the same position [pos] (any). *)
Theorem prefix_stable : forall A (p : prog A) d k pos r s',
  run p (stream_at (firstn k d) pos) = (r, s') -> r <> Err EIo ->
  run p (stream_at d pos) = (r, stream_at d (s_pos s')).
Proof. exact @prefix_stable_lemma. Qed.
Print Assumptions prefix_stable.

(** in particular a panic on a prefix would be a panic on the data *)
Theorem prefix_no_new_panic : forall A (p : prog A) d k pos,
  is_panic (fst (run p (stream_at d pos))) = false ->
  is_panic (fst (run p (stream_at (firstn k d) pos))) = false.
Proof. exact @prefix_no_panic. Qed.
Print Assumptions prefix_no_new_panic.

(** ** Reading a sample through ANY reader value [r] (in particular the one obtained by
    opening the prefix): if it succeeds on the prefix — with a sample or with "no such sample"
    — the same call on the complete data, from any stream position, returns the same sample
    (bytes, start time, duration, rendering offset, sync flag). *)
Theorem read_sample_prefix : forall m r tid sid d k pos pos' x,
  fst (run (rd_read_sample m r tid sid) (stream_at (firstn k d) pos)) = Ok x ->
  fst (run (rd_read_sample m r tid sid) (stream_at d pos')) = Ok x.
Proof. exact read_sample_prefix_lemma. Qed.
Print Assumptions read_sample_prefix.

(** ** Opening.
    [top_boxes m f d pos]: the top-level boxes (position, type, size) that
    [Mp4Reader::read_header] decodes successfully, one after the other, in the file [d]
    ([lexec] is the loop of [open_fuel] executed box by box, see [open_loop_is_lexec]).
    The hypotheses say that the complete file has at most one [moov] and at most one [ftyp]
    among them (a later one would replace the earlier one in the reader).
    The same fuel is used for both runs: fuel only bounds the number of loop iterations, and
    the two runs perform the same iterations as long as the prefix lasts. *)
Theorem open_prefix_moov : forall m f n d pos rp sp r s,
  n <= lenN d ->
  run (open_fuel f m n) (stream_at (firstn (N.to_nat n) d) pos) = (Ok rp, sp) ->
  run (open_fuel f m (lenN d)) (stream_at d pos) = (Ok r, s) ->
  (length (filter is_moov (tnames (top_boxes m f d pos))) <= 1)%nat ->
  (length (filter is_ftyp (tnames (top_boxes m f d pos))) <= 1)%nat ->
  rd_moov rp = rd_moov r /\ rd_ftyp rp = rd_ftyp r /\
  (exists more, rd_moofs r = rd_moofs rp ++ more) /\
  (exists more, rd_emsgs r = rd_emsgs rp ++ more).
Proof. intros m f n d. exact (open_prefix_lemma m f n d (N.to_nat n)). Qed.
Print Assumptions open_prefix_moov.

(** the per-iteration content of the theorem above: if the loop on the prefix ends in state
    [(ap, cp)] having decoded the boxes [trp], the loop on the complete file decodes the same
    boxes, reaches the same state, and continues from there *)
Theorem open_loop_prefix : forall m f n L d k a c ap cp pp trp,
  n <= L ->
  lexec m f n (firstn k d) a c = (Ok (ap, cp), pp, trp) ->
  exists f', lexec m f L d a c = (let '(r, p, tr) := lexec m f' L d ap cp in (r, p, trp ++ tr)).
Proof. exact lexec_prefix. Qed.
Print Assumptions open_loop_prefix.

Theorem open_loop_is_lexec : forall m f size d a c,
  let '(r, p, _) := lexec m f size d a c in
  run (children_loop_at f m (Some size) true size (open_dispatch m) a c) (stream_at d c)
  = (r, stream_at d p).
Proof. exact lexec_run. Qed.
Print Assumptions open_loop_is_lexec.

(** ** C11 for files without movie fragments, complete: the prefix opens ([rp]), the file
    opens ([r]) and has no [moof]; then every sample read through [rp] on the prefix that
    succeeds returns exactly what the same call returns through [r] on the complete file. *)
Theorem truncated_unfragmented : forall m f n d pos rp sp r s,
  n <= lenN d ->
  run (open_fuel f m n) (stream_at (firstn (N.to_nat n) d) pos) = (Ok rp, sp) ->
  run (open_fuel f m (lenN d)) (stream_at d pos) = (Ok r, s) ->
  (length (filter is_moov (tnames (top_boxes m f d pos))) <= 1)%nat ->
  (length (filter is_ftyp (tnames (top_boxes m f d pos))) <= 1)%nat ->
  rd_moofs r = [] ->
  forall tid sid p p' x,
    fst (run (rd_read_sample m rp tid sid) (stream_at (firstn (N.to_nat n) d) p)) = Ok x ->
    fst (run (rd_read_sample m r tid sid) (stream_at d p')) = Ok x.
Proof. intros m f n d. exact (c11_unfragmented_lemma m f n d (N.to_nat n)). Qed.
Print Assumptions truncated_unfragmented.

(** ** Files with movie fragments.  Two restrictions are forced by the witnesses at the end of
    this file: the sync flag is excluded (the library computes it from the total sample count
    and the number of fragments of the track), and the track must already have a movie
    fragment in the prefix (a track without fragments is looked up in the [stbl] tables of the
    moov, a track with fragments only in its fragments).
    Then: a sample read that succeeds through the reader of the prefix succeeds through the
    reader of the complete file with the same bytes, start time, duration and rendering offset. *)
Theorem same_but_sync_def : forall x y,
  same_but_sync x y <->
  (Track.sm_bytes x = Track.sm_bytes y /\ Track.sm_start_time x = Track.sm_start_time y /\
   Track.sm_duration x = Track.sm_duration y /\ Track.sm_rendering_offset x = Track.sm_rendering_offset y).
Proof. intros; reflexivity. Qed.

Theorem truncated_fragmented : forall m f n d pos rp sp r s,
  n <= lenN d ->
  run (open_fuel f m n) (stream_at (firstn (N.to_nat n) d) pos) = (Ok rp, sp) ->
  run (open_fuel f m (lenN d)) (stream_at d pos) = (Ok r, s) ->
  (length (filter is_moov (tnames (top_boxes m f d pos))) <= 1)%nat ->
  (length (filter is_ftyp (tnames (top_boxes m f d pos))) <= 1)%nat ->
  forall tid sid p p' x,
    (forall t, tracks_get tid (rd_tracks rp) = Some t -> mt_trafs t <> []) ->
    fst (run (rd_read_sample m rp tid sid) (stream_at (firstn (N.to_nat n) d) p)) = Ok (Some x) ->
    exists y, fst (run (rd_read_sample m r tid sid) (stream_at d p')) = Ok (Some y)
              /\ same_but_sync x y.
Proof. intros m f n d. exact (c11_fragmented_lemma m f n d (N.to_nat n)). Qed.
Print Assumptions truncated_fragmented.

(** ** Non-vacuity: ALL prefixes of a file "ftyp, moov (one track, three samples of 10, 20, 30
    bytes in one chunk), mdat (the 60 sample bytes)".  For every prefix length [n] (including
    the complete file): opening succeeds or fails without panic; when it succeeds, each of the
    samples 1..4 (4 does not exist: [Ok None]) read on the prefix either fails or equals the
    sample of the complete file.  Opening succeeds for the prefixes that contain the moov box and
    do not end inside the mdat header (also when the mdat payload is cut), and the number of
    readable samples grows with the prefix. *)
Definition c11_trak : trak :=
  mkTrak (trak_tkhd trak_test) (trak_edts trak_test) None
    (mkMdia mdhd_default (mdia_hdlr mdia_test)
       (mkMinf (Some vmhd_default) None dinf_default
          (mkStbl (stbl_stsd stbl_test) (stbl_stts stbl_test) (stbl_ctts stbl_test) (stbl_stss stbl_test)
                  (stbl_stsc stbl_test) (stbl_stsz stbl_test) (Some (mkStco 0 0 [714])) None))).
Definition c11_head : bytes :=
  wout (enc_ftyp (mkFtyp 0x69736f6d 512 [0x69736f6d; 0x61766331]))
  ++ wout (enc_moov Dbg (mkMoov mvhd_default None None [c11_trak] None)).
Definition c11_file : bytes :=
  c11_head ++ be 4 68 ++ be 4 0x6d646174 ++ map N.of_nat (seq 1 60).
Definition c11_open (n : N) := fst (run (open_fuel 2000 Dbg n) (stream_at (firstn (N.to_nat n) c11_file) 0)).
Definition c11_full : res mp4reader := c11_open (lenN c11_file).
Definition upto (n : N) : list N := map N.of_nat (seq 0 (N.to_nat n)).

Definition sample_res_eqb (x y : res (option Track.sample)) : bool :=
  match x, y with
  | Ok None, Ok None => true
  | Ok (Some a), Ok (Some b) =>
      (Track.sm_start_time a =? Track.sm_start_time b) && (Track.sm_duration a =? Track.sm_duration b)
      && (Track.sm_rendering_offset a =? Track.sm_rendering_offset b)%Z
      && Bool.eqb (Track.sm_is_sync a) (Track.sm_is_sync b)
      && (lenN (Track.sm_bytes a) =? lenN (Track.sm_bytes b))
      && forallb (fun p => fst p =? snd p) (combine (Track.sm_bytes a) (Track.sm_bytes b))
  | _, _ => false
  end.

(** per prefix: (opened?, number of calls among samples 1..4 that succeed, all of those agree
    with the complete file and nothing panicked) *)
Definition c11_check (r : mp4reader) (n : N) : bool * N * bool :=
  match c11_open n with
  | Ok rp =>
      let rs := map (fun sid =>
                  (fst (run (rd_read_sample Dbg rp 1 sid) (stream_at (firstn (N.to_nat n) c11_file) 0)),
                   fst (run (rd_read_sample Dbg r 1 sid) (stream_at c11_file 0)))) [1; 2; 3; 4] in
      (true,
       lenN (filter (fun xy => is_ok (fst xy)) rs),
       forallb (fun xy => match fst xy with
                          | Ok _ => sample_res_eqb (fst xy) (snd xy)
                          | Err _ => true
                          | _ => false
                          end) rs)
  | Err _ => (false, 0, true)
  | _ => (false, 0, false)
  end.

Example c11_all_prefixes :
  match c11_full with
  | Ok r =>
      let checks := map (c11_check r) (upto (lenN c11_file + 1)) in
      lenN c11_head + 8 = 714
      /\ forallb (fun c => snd c) checks = true
      /\ map (fun c => fst (fst c)) checks
         = repeat false 706 ++ [true] ++ repeat false 7 ++ repeat true 61
           (* opens iff the moov is complete and no top-level box header is cut *)
      /\ map (fun c => snd (fst c)) (filter (fun c => fst (fst c)) checks)
         = repeat 1 11 ++ repeat 2 20 ++ repeat 3 30 ++ [4]
           (* "no sample 4" always; sample 1 from n = 714+10, sample 2 from 714+30, 3 when complete *)
      /\ match fst (run (rd_read_sample Dbg r 1 2) (stream_at c11_file 0)) with
         | Ok (Some x) => Track.sm_bytes x = map N.of_nat (seq 11 20)
         | _ => False
         end
      /\ tnames (top_boxes Dbg 2000 c11_file 0) = [FtypBox; MoovBox; MdatBox]
  | _ => False
  end.
Proof. vm_compute. repeat split; reflexivity. Qed.

(** ** Witnesses: where the quoted property fails for files with movie fragments. *)

(** (1) A file whose [moov] carries a sample table AND which has movie fragments (allowed by
    ISO/IEC 14496-12).  The prefix "ftyp moov" opens as an unfragmented file and serves sample 1
    from the sample table (start 0, duration 100); the complete file serves sample 1 from the
    first fragment (start 5000, duration 1000, other bytes): once a track has fragments the
    reader ignores its sample table. *)
Definition c11_hybrid : bytes :=
  reader_test_frag_file ++ be 4 208 ++ be 4 0x6d646174 ++ repeatN 7 200.
Definition c11_hybrid_cut : N := lenN reader_test_frag_head.

Example c11_hybrid_witness :
  match fst (run (open_fuel 2000 Dbg c11_hybrid_cut) (stream_at (firstn (N.to_nat c11_hybrid_cut) c11_hybrid) 0)),
        fst (run (open_fuel 2000 Dbg (lenN c11_hybrid)) (stream_at c11_hybrid 0)) with
  | Ok rp, Ok r =>
      tnames (top_boxes Dbg 2000 c11_hybrid 0) = [FtypBox; MoovBox; MoofBox; MdatBox; MoofBox; MdatBox]
      /\ rd_moov rp = rd_moov r /\ rd_moofs rp = [] /\ length (rd_moofs r) = 2%nat
      /\ match fst (run (rd_read_sample Dbg rp 1 1) (stream_at (firstn (N.to_nat c11_hybrid_cut) c11_hybrid) 0)),
               fst (run (rd_read_sample Dbg r 1 1) (stream_at c11_hybrid 0)) with
         | Ok (Some x), Ok (Some y) =>
             (Track.sm_start_time x, Track.sm_duration x) = (0, 100)
             /\ (Track.sm_start_time y, Track.sm_duration y) = (5000, 1000)
             /\ Track.sm_bytes x <> Track.sm_bytes y
         | _, _ => False
         end
  | _, _ => False
  end.
Proof. vm_compute. repeat split; try reflexivity. discriminate. Qed.

(** (2) A fragmented file whose track has two fragments with 3 and 1 samples.  The prefix that
    ends after the first fragment's mdat and the complete file agree on bytes and timing of
    samples 1..3 (this is an instance of [truncated_fragmented]: its hypotheses hold) but not
    on the sync flag of samples 2 and 3: [is_sync_sample] of a fragmented track is
    [sample_id == 1 || sample_id % (sample_count / number_of_trafs) == 0]. *)
Definition c11_trafA : traf :=
  mkTraf (traf_tfhd traf_test) (traf_tfdt traf_test)
         (Some (mkTrun 0 (trun_FLAG_DATA_OFFSET + trun_FLAG_SAMPLE_SIZE) 3 (Some 112%Z) None [] [10; 20; 30] [] [])).
Definition c11_trafB : traf :=
  mkTraf (traf_tfhd traf_test) (traf_tfdt traf_test)
         (Some (mkTrun 0 (trun_FLAG_DATA_OFFSET + trun_FLAG_SAMPLE_SIZE) 1 (Some 104%Z) None [] [10] [] [])).
Definition c11_frag_part1 : bytes :=
  reader_test_frag_head ++ wout (enc_moof (mkMoof (mkMfhd 0 0 1) [c11_trafA]))
  ++ be 4 68 ++ be 4 0x6d646174 ++ map N.of_nat (seq 1 60).
Definition c11_frag : bytes :=
  c11_frag_part1 ++ wout (enc_moof (mkMoof (mkMfhd 0 0 2) [c11_trafB]))
  ++ be 4 18 ++ be 4 0x6d646174 ++ map N.of_nat (seq 101 10).
Definition c11_frag_cut : N := lenN c11_frag_part1.

Definition sample_view (x : res (option Track.sample)) : option (N * N * Z * bool * bytes) :=
  match x with
  | Ok (Some s) => Some (Track.sm_start_time s, Track.sm_duration s, Track.sm_rendering_offset s,
                         Track.sm_is_sync s, Track.sm_bytes s)
  | _ => None
  end.

Example c11_sync_witness :
  match fst (run (open_fuel 2000 Dbg c11_frag_cut) (stream_at (firstn (N.to_nat c11_frag_cut) c11_frag) 0)),
        fst (run (open_fuel 2000 Dbg (lenN c11_frag)) (stream_at c11_frag 0)) with
  | Ok rp, Ok r =>
      let on_prefix sid := sample_view (fst (run (rd_read_sample Dbg rp 1 sid)
                                                 (stream_at (firstn (N.to_nat c11_frag_cut) c11_frag) 0))) in
      let on_file sid := sample_view (fst (run (rd_read_sample Dbg r 1 sid) (stream_at c11_frag 0))) in
      length (rd_moofs rp) = 1%nat /\ length (rd_moofs r) = 2%nat
      /\ option_map (fun t => length (mt_trafs t)) (tracks_get 1 (rd_tracks rp)) = Some 1%nat
      /\ (length (filter is_moov (tnames (top_boxes Dbg 2000 c11_frag 0))) <= 1)%nat
      /\ map on_prefix [1; 2; 3]
         = [Some (5000, 1000, 0%Z, true, map N.of_nat (seq 1 10));
            Some (6000, 1000, 0%Z, false, map N.of_nat (seq 11 20));
            Some (7000, 1000, 0%Z, true, map N.of_nat (seq 31 30))]
      /\ map on_file [1; 2; 3]
         = [Some (5000, 1000, 0%Z, true, map N.of_nat (seq 1 10));
            Some (6000, 1000, 0%Z, true, map N.of_nat (seq 11 20));
            Some (7000, 1000, 0%Z, false, map N.of_nat (seq 31 30))]
  | _, _ => False
  end.
Proof. vm_compute. repeat split; reflexivity. Qed.
