(** * Property C17 — the muxer API is total: bad arguments are errors, never panics

    Statements only; the proofs are in [Proofs/MuxTotal.v].  The muxer model is
    [Model/Writer.v]: [run_mux m base cfg ops] is [Mp4Writer::write_start] on a stream at
    position [base], the calls [ops] ([add_track] / [write_sample], in any order, with any
    arguments), then [write_end] up to (not including) the encoding of [moov].  Mode [Dbg] is
    a build with overflow checks (they panic), [Rel] one that wraps.

    Hypotheses of the theorems:
    - [op_typed]: a sample duration is a [u32] (the model stores it in an unbounded [N]);
      nothing else is assumed about configurations and samples: timescales may be 0,
      parameter sets empty, language bytes arbitrary, samples of any length, track ids arbitrary;
    - fewer than 2^32-1 accepted [add_track] calls ([muxer_can_panic_with_2p32_tracks] shows that
      the 2^32-th panics in a debug build);
    - the output stays below stream position 2^63. *)
From MP4 Require Import Writer MuxTotal.
Open Scope string_scope.
Open Scope list_scope.
Open Scope N_scope.

(** No call panics, in either build. *)
Theorem muxer_total : forall m base cfg ops,
  Forall op_typed ops ->
  lenN (added_confs ops) < U32MAX ->
  base < 2 ^ 63 -> base + lenN (ftyp_bytes cfg) + 16 + sample_bytes ops < 2 ^ 63 ->
  is_panic (run_mux m base cfg ops) = false.
Proof. exact muxer_total_lemma. Qed.
Print Assumptions muxer_total.

(** More precisely: the run completes; [add_track] returns [Ok] exactly for the configurations
    that pass [conf_check] (non-zero timescale, AVC parameter sets of 4..65535 / 0..65535 bytes)
    and an error otherwise; every [write_sample] returns [Ok] or an error; [write_end] succeeds.
    ([mux_pre] = the three hypotheses above, with the weaker bound [base + |ftyp| + 8 < 2^64].) *)
Theorem muxer_calls_return : forall m base cfg ops,
  mux_pre base cfg ops ->
  exists cls f, run_mux m base cfg ops = Ok (cls, f) /\ Forall2 cls_ok ops cls.
Proof. exact muxer_calls_return_lemma. Qed.
Print Assumptions muxer_calls_return.

(** A release build cannot panic at all, whatever the history (no hypothesis): the only panic
    site that does not depend on overflow checks is the division by the track timescale, and
    [add_track] rejects a zero timescale. *)
Theorem muxer_total_release : forall base cfg ops, is_panic (run_mux Rel base cfg ops) = false.
Proof. exact muxer_total_rel_lemma. Qed.
Print Assumptions muxer_total_release.

(** The bound on the number of tracks is needed: with 2^32-1 tracks, the next [add_track]
    overflows [tracks.len() as u32 + 1] (src/writer.rs, [add_track]) and panics in a debug build
    -- even when the configuration would have been rejected.  (2^32 calls; not replayable.) *)
Theorem muxer_can_panic_with_2p32_tracks : exists base cfg ops,
  Forall op_typed ops /\ base < 2 ^ 63 /\ base + lenN (ftyp_bytes cfg) + 16 + sample_bytes ops < 2 ^ 63 /\
  lenN (added_confs ops) = U32 /\
  is_panic (run_mux Dbg base cfg ops) = true.
Proof. exact muxer_can_panic_tracks_lemma. Qed.
Print Assumptions muxer_can_panic_with_2p32_tracks.

(** ** Non-vacuity: a history with every kind of degenerate call *)
Definition ex17_cfg : mp4_conf := mkMp4Conf 0x69736f6d 512 [0x69736f6d; 0x61766331] 0.   (* movie timescale 0 *)
Definition ex17_video : track_conf :=
  mkTrackConf "Video" 90000 [117; 110; 100] (AvcConf 1920 1080 [103; 66; 0; 30] [104; 206]).
Definition ex17_audio : track_conf :=
  mkTrackConf "Audio" 1 [255; 0] (AacConf 128000 "AacLowComplexity" "Freq48000" "Stereo").  (* non-ISO language *)
Definition ex17_zero_ts : track_conf := mkTrackConf "Video" 0 [117; 110; 100] (HevcConf 640 480).
Definition ex17_short_sps : track_conf := mkTrackConf "Video" 90000 [] (AvcConf 1920 1080 [103; 66; 0] []).
Definition ex17_ops : list mux_op :=
  [ OpWrite 1 (mkWSample 10 0 true [1]);                     (* no track at all *)
    OpAddTrack ex17_zero_ts;                                 (* zero timescale *)
    OpAddTrack ex17_short_sps;                               (* SPS shorter than its header *)
    OpAddTrack ex17_video;
    OpAddTrack ex17_audio;
    OpWrite 0 (mkWSample 10 0 true [1]);                     (* track id 0 *)
    OpWrite 3 (mkWSample 10 0 true [1]);                     (* unknown track id *)
    OpWrite 4294967295 (mkWSample 10 0 true [1]);
    OpWrite 1 (mkWSample 4294967295 0 true [1; 2; 3]);       (* maximal duration *)
    OpWrite 1 (mkWSample 4294967295 (-2147483648) false []); (* again; empty sample; extreme offset *)
    OpWrite 2 (mkWSample 0 0 false [9; 9]);                  (* zero duration *)
    OpWrite 2 (mkWSample 4294967295 2147483647 true [8]) ].

Example ex17_pre : mux_pre 0 ex17_cfg ex17_ops.
Proof. constructor; [repeat constructor|vm_compute; reflexivity|vm_compute; reflexivity]. Qed.

Example ex17_run :
  forall m, match run_mux m 0 ex17_cfg ex17_ops with
            | Ok (cls, f) => cls = [CData; CData; CData; COk; COk; CData; CData; CData; COk; COk; COk; COk]
                             /\ lenN (mf_tracks f) = 2
            | _ => False
            end.
Proof. intros []; vm_compute; split; reflexivity. Qed.

(** the typing hypothesis is not idle: a "duration" that is not a u64, which no Rust caller can
    pass, makes the model's [mdhd.duration += dur] overflow *)
Example ex17_untyped_duration :
  is_panic (run_mux Dbg 0 ex17_cfg [OpAddTrack ex17_video; OpWrite 1 (mkWSample U64 0 true [])]) = true.
Proof. vm_compute. reflexivity. Qed.
