(** * Property C12 for FRAGMENTED files — layout independence beyond [rd_moofs ra = []]
      (statements only; proofs in [Proofs/FragLayout.v])

    C12: "Two files that encode the same logical movie but differ in physical layout — unknown or free boxes
    inserted at the top level, sibling boxes in a different order (including media data before or after the movie
    header), 64-bit instead of 32-bit size headers — open to the same tracks, metadata and per-sample results, with
    sample offsets shifted by exactly the layout change."

    The tree theorem ([Props/C12Tree.v]) asks [rd_moofs ra = []].  Here the files ARE fragmented.  A file is the
    rendering [tl_bytes L] of ANY list [L] of top-level items, in list order:

      [TFtyp w ft | TMoov w v | TMoof w mf | TMdat w media | TSkip child | TEmsg w e]

    [w : bool] is the header form of the box (true: [size == 1] + 64-bit largesize); the payloads of ftyp / moov /
    moof / emsg are the ISO layouts of the values; [TSkip c] is any child [c] whose type the top-level loop of
    [Mp4Reader::read_header] skips ([open_known]: every type but ftyp, moov, moof, emsg — free, skip, mdat, wide,
    unknown codes, ...).  [tl_wf L ft v]: exactly one [TFtyp] (value [ft]) and one [TMoov] (value [v]) ANYWHERE in
    the list — also after the moofs: the reader attaches the track fragments after the loop —, the values are
    round-trip well-formed and shorter than 2^32 bytes, a 32-bit mdat header only for a payload it can carry, fewer
    than 2^63 bytes in all, distinct non-zero track ids, every traf names a track of [v].
    [logical L] = (the ftyp values, the moov values, the moof values, the emsg values, each in list order): what the
    layout leaves alone.

    - [C12_frag_open]: [open_fuel] on [tl_bytes L] returns the reader with [ft], [v], the moof values and the emsg
      values in list order and, per track, the fragments [traf_fragrun traf pos] in file order; [pos] is the number of bytes rendered
      before the [TMoof] item ([C12_frag_moof_positions]).
    - [C12_frag_layout]: two lists with the same logical content, opened in any build modes with any fuel that is
      enough, give readers with the same ftyp, moov, moofs, emsgs, track ids, sample counts; per track the same trak,
      and for every sample number the same [sample_size], [sample_time] (start, duration),
      [sample_rendering_offset], [is_sync_sample] — NO hypothesis on the fragments —; whenever [sample_offset]
      succeeds in both, [off_B - off_A = pos_B(moof) - pos_A(moof)] for the moof whose traf holds the sample, and
      [off_B = off_A] when that traf's tfhd carries an explicit [base_data_offset] (in [Z]); [read_sample] returns
      the same sample whenever the bytes at the two offsets are the same.
    - [C12_frag_layout_spec]: under [frag_consistent] on both sides (the hypothesis of C09) both offset lookups
      succeed and the samples [frag_expand] defines agree in number, size, start time, duration, composition
      offset; the offsets differ by the displacement of the moof.
    - [C12_frag_layout_read]: the same sample is read when the two files agree on the bytes that follow the position
      of the sample's moof, up to the end of the sample ([common_prefix] of the two tails; [C12_frag_same_items]:
      the moof item and the items after it being the same items is enough).
    - [C12_frag_ex_*]: the two-track, two-fragment file of [Props/C09Open.v] in three layouts. *)
From MP4 Require Import Reader Fragment FragFile FragLayout MuxOpenKit LayoutKit LayoutProofs IsoFile IsoMoof RtEmsg C09Open.
From Coq Require Import List NArith ZArith Lia.
Import ListNotations.
Open Scope list_scope.
Open Scope N_scope.

Theorem C12_frag_moof_positions :
  (forall L1 w mf L2,
     tl_moofs 0 (L1 ++ TMoof w mf :: L2)
     = tl_moofs 0 L1 ++ (mf, lenN (tl_bytes L1)) :: tl_moofs (lenN (tl_bytes (L1 ++ [TMoof w mf]))) L2) /\
  (forall L i mf q, nth_error (tl_moofs 0 L) i = Some (mf, q) ->
     exists w pre post,
       tl_bytes L = pre ++ c_bytes (mkChild w MOOF (iso_moof_payload mf)) ++ post /\ lenN pre = q).
Proof. split; [exact tl_moofs_at | exact tl_moof_position]. Qed.
Print Assumptions C12_frag_moof_positions.

Theorem C12_frag_open : forall m (L : list titem) (ft : ftyp) (v : moov),
  tl_wf L ft v ->
  let b := tl_bytes L in
  let mps := tl_moofs 0 L in          (* the moof values with the byte positions of their boxes *)
  exists r,
    (forall fuel, (tl_fuel L <= fuel)%nat ->
       run (open_fuel fuel m (lenN b)) (stream_at b 0) = (Ok r, stream_at b (lenN b))) /\
    rd_ftyp r = ft /\ rd_moov r = v /\ rd_moofs r = tl_moof_vals L /\ rd_emsgs r = tl_emsgs L /\ rd_size r = lenN b /\
    map fst (rd_tracks r) = map trak_id (moov_traks v) /\
    (forall k, ~ In k (map trak_id (moov_traks v)) -> tracks_get k (rd_tracks r) = None) /\
    forall t, In t (moov_traks v) ->
      exists t', tracks_get (trak_id t) (rd_tracks r) = Some t' /\ mt_trak t' = t /\
        track_view t' = Track.mkTrack (trak_id t) (stbl_tables (minf_stbl (mdia_minf (trak_mdia t))))
                                      (file_fragruns (trak_id t) mps)
                                      (match file_fragruns (trak_id t) mps with
                                       | [] => 0
                                       | _ => moov_default_sample_duration v
                                       end).
Proof. exact tl_open. Qed.
Print Assumptions C12_frag_open.

(** the fuel is harmless: some fuel opens the file, and ([C12_open_is_fuel_independent], C12Tree.v) every fuel that
    does not run out gives the same reader *)
Theorem C12_frag_opens : forall m L ft v, tl_wf L ft v ->
  exists r fuel, fst (run (open_fuel fuel m (lenN (tl_bytes L))) (stream_at (tl_bytes L) 0)) = Ok r.
Proof. exact tl_opens. Qed.
Print Assumptions C12_frag_opens.

Theorem C12_frag_layout : forall (mA mB : mode) (A B : list titem) ft ft' v v',
  tl_wf A ft v -> tl_wf B ft' v' ->
  logical A = logical B ->
  forall ra rb (m' : mode),           (* [mA], [mB]: the build modes of the two [read_header]s; [m']: of the lookups *)
  (exists fuel, fst (run (open_fuel fuel mA (lenN (tl_bytes A))) (stream_at (tl_bytes A) 0)) = Ok ra) ->
  (exists fuel, fst (run (open_fuel fuel mB (lenN (tl_bytes B))) (stream_at (tl_bytes B) 0)) = Ok rb) ->
  let mpsA := tl_moofs 0 A in
  let mpsB := tl_moofs 0 B in
  rd_ftyp ra = rd_ftyp rb /\ rd_moov ra = rd_moov rb /\ rd_moofs ra = rd_moofs rb /\
  rd_emsgs ra = rd_emsgs rb /\ map fst (rd_tracks ra) = map fst (rd_tracks rb) /\
  rd_size ra = lenN (tl_bytes A) /\ rd_size rb = lenN (tl_bytes B) /\
  (forall k, rd_sample_count ra k = rd_sample_count rb k) /\
  (forall k, tracks_get k (rd_tracks ra) = None <-> tracks_get k (rd_tracks rb) = None) /\
  forall k ta tb, tracks_get k (rd_tracks ra) = Some ta -> tracks_get k (rd_tracks rb) = Some tb ->
    let va := track_view ta in
    let vb := track_view tb in
    mt_trak ta = mt_trak tb /\
    Track.sample_count va = Track.sample_count vb /\
    (forall j, Track.sample_size va j = Track.sample_size vb j /\
               Track.sample_time m' va j = Track.sample_time m' vb j /\
               Track.sample_rendering_offset va j = Track.sample_rendering_offset vb j /\
               Track.is_sync_sample va j = Track.is_sync_sample vb j) /\
    (* offsets shifted by exactly the layout change *)
    (forall j oa ob, Track.sample_offset m' va j = Ok oa -> Track.sample_offset m' vb j = Ok ob ->
       (* a track no traf names: the lookups go through the (absolute) chunk offsets of the trak *)
       (Track.tr_frags va = [] /\ Track.tr_frags vb = [] /\ ob = oa) \/
       (* the sample belongs to a traf [tf] of the [n]-th moof, which starts at [pa] in [A] and at [pb] in [B] *)
       exists n mf tf pa pb,
         nth_error mpsA n = Some (mf, pa) /\ nth_error mpsB n = Some (mf, pb) /\
         In tf (moof_trafs mf) /\ traf_tid tf = k /\
         (Z.of_N ob - Z.of_N oa
          = match tfhd_base_data_offset (traf_tfhd tf) with
            | Some _ => 0                               (* explicit base data offset: absolute *)
            | None => Z.of_N pb - Z.of_N pa             (* default-base-is-moof *)
            end)%Z) /\
    (* the same sample is read when the media data is where the offsets say *)
    (forall j oa ob sz h s s', stream_wf s -> stream_wf s' ->
       Track.sample_offset m' va j = Ok oa -> Track.sample_offset m' vb j = Ok ob -> Track.sample_size va j = Ok sz ->
       (sz = 0 \/ (exists r, splitN sz (dropN oa (s_data s)) = Some (h, r)) /\
                  (exists r', splitN sz (dropN ob (s_data s')) = Some (h, r'))) ->
       fst (run (Track.read_sample m' va j) s) = fst (run (Track.read_sample m' vb j) s')).
Proof. exact tl_layout. Qed.
Print Assumptions C12_frag_layout.

Theorem C12_frag_layout_spec : forall (mA mB : mode) (A B : list titem) ft ft' v v',
  tl_wf A ft v -> tl_wf B ft' v' ->
  logical A = logical B ->
  forall ra rb (m' : mode) t,
  (exists fuel, fst (run (open_fuel fuel mA (lenN (tl_bytes A))) (stream_at (tl_bytes A) 0)) = Ok ra) ->
  (exists fuel, fst (run (open_fuel fuel mB (lenN (tl_bytes B))) (stream_at (tl_bytes B) 0)) = Ok rb) ->
  In t (moov_traks v) ->
  let k := trak_id t in
  let fsA := file_fragruns k (tl_moofs 0 A) in
  let fsB := file_fragruns k (tl_moofs 0 B) in
  let d := moov_default_sample_duration v in
  fsA <> [] -> frag_consistent fsA d = true -> frag_consistent fsB d = true ->
  rd_sample_count ra k = Ok (lenN (frag_expand fsA d)) /\
  rd_sample_count rb k = Ok (lenN (frag_expand fsA d)) /\
  lenN (frag_expand fsB d) = lenN (frag_expand fsA d) /\
  forall j, 1 <= j <= lenN (frag_expand fsA d) ->
    exists oa ob sz st du ct n mf tf pa pb,
      nthN (frag_expand fsA d) (j - 1) = Some (oa, sz, st, du, ct) /\
      nthN (frag_expand fsB d) (j - 1) = Some (ob, sz, st, du, ct) /\
      rd_sample_offset m' ra k j = Ok oa /\ rd_sample_offset m' rb k j = Ok ob /\
      nth_error (tl_moofs 0 A) n = Some (mf, pa) /\ nth_error (tl_moofs 0 B) n = Some (mf, pb) /\
      In tf (moof_trafs mf) /\ traf_tid tf = k /\
      (Z.of_N ob - Z.of_N oa
       = match tfhd_base_data_offset (traf_tfhd tf) with
         | Some _ => 0
         | None => Z.of_N pb - Z.of_N pa
         end)%Z.
Proof. exact tl_layout_consistent. Qed.
Print Assumptions C12_frag_layout_spec.

(** [tl_tails L]: for every [TMoof] item, the bytes of the file from the first byte of its box to the end;
    [common_prefix]: the longest common prefix of two byte strings *)
Theorem C12_frag_layout_read : forall (mA mB : mode) (A B : list titem) ft ft' v v',
  tl_wf A ft v -> tl_wf B ft' v' ->
  logical A = logical B ->
  forall ra rb (m' : mode) k j oa ob sz ta n mfa mfb pa pb tailA tailB posA posB,
  (exists fuel, fst (run (open_fuel fuel mA (lenN (tl_bytes A))) (stream_at (tl_bytes A) 0)) = Ok ra) ->
  (exists fuel, fst (run (open_fuel fuel mB (lenN (tl_bytes B))) (stream_at (tl_bytes B) 0)) = Ok rb) ->
  rd_sample_offset m' ra k j = Ok oa -> rd_sample_offset m' rb k j = Ok ob ->
  tracks_get k (rd_tracks ra) = Some ta -> Track.sample_size (track_view ta) j = Ok sz ->
  (* the [n]-th moof starts at [pa] in [A], at [pb] in [B]; what follows these positions *)
  nth_error (tl_moofs 0 A) n = Some (mfa, pa) -> nth_error (tl_moofs 0 B) n = Some (mfb, pb) ->
  nth_error (tl_tails A) n = Some tailA -> nth_error (tl_tails B) n = Some tailB ->
  (* the sample sits at the same distance after that moof in both files ... *)
  pa <= oa -> (Z.of_N ob - Z.of_N oa = Z.of_N pb - Z.of_N pa)%Z ->
  (* ... where the two files hold the same bytes *)
  oa - pa + sz <= lenN (common_prefix tailA tailB) ->
  fst (run (rd_read_sample m' ra k j) (stream_at (tl_bytes A) posA))
  = fst (run (rd_read_sample m' rb k j) (stream_at (tl_bytes B) posB)).
Proof. exact tl_layout_read. Qed.
Print Assumptions C12_frag_layout_read.

(** the same items [F] after the moof position (the moof item itself, the mdat item, ...) are common bytes *)
Theorem C12_frag_same_items : forall F RA RB,
  lenN (tl_bytes F) <= lenN (common_prefix (tl_bytes (F ++ RA)) (tl_bytes (F ++ RB))).
Proof. exact tl_common_prefix. Qed.
Print Assumptions C12_frag_same_items.

(** the statements on the level of one track: fragment lists that agree in everything but the moof offsets *)
Theorem C12_frag_track_offsets : forall id tb d fa fb, Forall2 fr_same fa fb ->
  forall m m' k oa ob, fa <> [] ->
  Track.sample_offset m (Track.mkTrack id tb fa d) k = Ok oa ->
  Track.sample_offset m' (Track.mkTrack id tb fb d) k = Ok ob ->
  exists i j f g, Track.find_traf (Track.mkTrack id tb fa d) k = Some (i, j) /\
    nthN fa i = Some f /\ nthN fb i = Some g /\ fr_same f g /\
    (Z.of_N ob - Z.of_N oa
     = match Track.fr_base_data_offset f with
       | Some _ => 0
       | None => Z.of_N (Track.fr_moof_offset g) - Z.of_N (Track.fr_moof_offset f)
       end)%Z.
Proof. exact sample_offset_same. Qed.
Print Assumptions C12_frag_track_offsets.

(** ** Non-vacuity: the two-track, two-fragment file of [C09Open.v] in three layouts *)
Definition exf_free : child := mkChild false FREE [0; 0; 0; 0].
Definition exf_unknown : child := mkChild false 0x61626364 [1; 2; 3].      (* "abcd" *)

Definition exf_emsg : emsg := mkEmsg 0 0 48000 None (Some 100) 200 8 [102; 111; 111] [98; 97; 114] [1; 2; 3].

(** [A]: ftyp moov moof mdat emsg moof mdat(64-bit header) — the file [ex9_file] with an emsg box between the fragments *)
Definition exf_A : list titem :=
  [ TFtyp false ex9_ftyp; TMoov false ex9_moov;
    TMoof false (ex9_moof1 ex9_x1); TMdat false ex9_media1; TEmsg false exf_emsg;
    TMoof false (ex9_moof2 ex9_x2); TMdat true ex9_media2 ].
(** [B]: a free box before the moov, the emsg (64-bit header) before the fragments, a 64-bit header on the first moof,
    an unknown box between the fragments *)
Definition exf_B : list titem :=
  [ TFtyp false ex9_ftyp; TSkip exf_free; TMoov false ex9_moov; TEmsg true exf_emsg;
    TMoof true (ex9_moof1 ex9_x1); TMdat false ex9_media1; TSkip exf_unknown;
    TMoof false (ex9_moof2 ex9_x2); TMdat true ex9_media2 ].
(** [C]: the first fragment first, the ftyp (64-bit header) in the middle, the moov (64-bit header) and the emsg at the end *)
Definition exf_C : list titem :=
  [ TSkip exf_free; TMoof false (ex9_moof1 ex9_x1); TMdat false ex9_media1;
    TFtyp true ex9_ftyp; TSkip exf_unknown;
    TMoof false (ex9_moof2 ex9_x2); TMdat true ex9_media2; TMoov true ex9_moov; TEmsg false exf_emsg ].

Example C12_frag_ex_files :
  logical exf_A = logical exf_B /\ logical exf_A = logical exf_C /\
  lenN (tl_bytes exf_A) = 1674 /\ lenN (tl_bytes exf_B) = 1713 /\ lenN (tl_bytes exf_C) = 1713 /\
  (* the moof positions: displaced by 59 and 39 in [B], by -1300 and -1296 in [C] *)
  map snd (tl_moofs 0 exf_A) = [1312; 1540] /\ map snd (tl_moofs 0 exf_B) = [1371; 1579] /\
  map snd (tl_moofs 0 exf_C) = [12; 244].
Proof. vm_compute. repeat split; reflexivity. Qed.

Lemma exf_wf : tl_wf exf_A ex9_ftyp ex9_moov /\ tl_wf exf_B ex9_ftyp ex9_moov /\ tl_wf exf_C ex9_ftyp ex9_moov.
Proof.
  destruct ex9_hyps as (H1 & H2 & H3 & H4 & H5 & _ & H7 & H8 & _).
  assert (Hm : forall mf tf, In mf [ex9_moof1 ex9_x1; ex9_moof2 ex9_x2] -> In tf (moof_trafs mf) ->
                In (traf_tid tf) (map trak_id (moov_traks ex9_moov))).
  { change (map trak_id (moov_traks ex9_moov)) with [1; 2].
    intros mf tf Hmf Htf. cbn [In] in Hmf. destruct Hmf as [<-|[<-|[]]]; cbn [ex9_moof1 ex9_moof2 moof_trafs In] in Htf;
      destruct Htf as [<-|[<-|[]]]; vm_compute; auto. }
  inversion H5 as [|g1 l1 (M1 & M2 & _) H5']. inversion H5' as [|g2 l2 (M3 & M4 & _) _]. subst.
  cbn [fg_moof] in M1, M2, M3, M4.
  assert (Hfree : titem_ok (TSkip exf_free)) by (split; [split; vm_compute; reflexivity | vm_compute; reflexivity]).
  assert (Hunk : titem_ok (TSkip exf_unknown)) by (split; [split; vm_compute; reflexivity | vm_compute; reflexivity]).
  assert (Hd1 : titem_ok (TMdat false ex9_media1)) by (intros _; vm_compute; reflexivity).
  assert (Hd2 : titem_ok (TMdat true ex9_media2)) by (intros E; discriminate E).
  assert (Hft : titem_ok (TFtyp false ex9_ftyp) /\ titem_ok (TFtyp true ex9_ftyp)) by (split; split; assumption).
  assert (Hmv : titem_ok (TMoov false ex9_moov) /\ titem_ok (TMoov true ex9_moov)) by (split; split; assumption).
  assert (Hf1 : titem_ok (TMoof false (ex9_moof1 ex9_x1)) /\ titem_ok (TMoof true (ex9_moof1 ex9_x1))) by (split; split; assumption).
  assert (Hf2 : titem_ok (TMoof false (ex9_moof2 ex9_x2))) by (split; assumption).
  assert (He : titem_ok (TEmsg false exf_emsg) /\ titem_ok (TEmsg true exf_emsg)) by (split; split; vm_compute; reflexivity).
  destruct He.
  destruct Hft, Hmv, Hf1.
  split; [|split]; (constructor; [reflexivity | reflexivity | repeat constructor; assumption
                                 | vm_compute; reflexivity | exact H7 | exact H8 | exact Hm]).
Qed.

(** the three files opened by the model (in different build modes): the same movie; per-sample times, durations,
    composition offsets and sync flags equal; the offsets of [B] are those of [A] + 59 (samples of the first moof)
    and + 39 (second moof); the sample bytes are the same where the media data keeps its distance from its moof —
    the first moof of [B] has the 16-byte header, so the (unchanged) data offsets of its runs point 8 bytes too early *)
Example C12_frag_ex_run :
  match fst (run (open_fuel (tl_fuel exf_A) Dbg (lenN (tl_bytes exf_A))) (stream_at (tl_bytes exf_A) 0)),
        fst (run (open_fuel (tl_fuel exf_B) Rel (lenN (tl_bytes exf_B))) (stream_at (tl_bytes exf_B) 0)),
        fst (run (open_fuel (tl_fuel exf_C) Dbg (lenN (tl_bytes exf_C))) (stream_at (tl_bytes exf_C) 0)) with
  | Ok ra, Ok rb, Ok rc =>
      let rdA := fun k j => fst (run (rd_read_sample Rel ra k j) (stream_at (tl_bytes exf_A) 5)) in
      let rdB := fun k j => fst (run (rd_read_sample Rel rb k j) (stream_at (tl_bytes exf_B) 0)) in
      let rdC := fun k j => fst (run (rd_read_sample Rel rc k j) (stream_at (tl_bytes exf_C) 9)) in
      let smp := fun st du ct bs => Ok (Some (Track.mkSample st du ct true bs)) in
      rd_ftyp rb = rd_ftyp ra /\ rd_moov rb = rd_moov ra /\ rd_moofs rb = rd_moofs ra /\ rd_emsgs rb = rd_emsgs ra /\
      rd_ftyp rc = rd_ftyp ra /\ rd_moov rc = rd_moov ra /\ rd_moofs rc = rd_moofs ra /\ rd_emsgs rc = rd_emsgs ra /\
      rd_emsgs ra = [exf_emsg] /\
      map (rd_sample_count ra) [1; 2; 3] = [Ok 3; Ok 1; Err EData] /\
      map (rd_sample_count rb) [1; 2; 3] = [Ok 3; Ok 1; Err EData] /\
      map (rd_sample_count rc) [1; 2; 3] = [Ok 3; Ok 1; Err EData] /\
      map (rd_sample_offset Dbg ra 1) [1; 2; 3] = [Ok 1492; Ok 1495; Ok 1672] /\ rd_sample_offset Dbg ra 2 1 = Ok 1497 /\
      map (rd_sample_offset Dbg rb 1) [1; 2; 3] = [Ok (1492 + 59); Ok (1495 + 59); Ok (1672 + 39)] /\
      rd_sample_offset Dbg rb 2 1 = Ok (1497 + 59) /\
      map (rd_sample_offset Dbg rc 1) [1; 2; 3] = [Ok (1492 - 1300); Ok (1495 - 1300); Ok (1672 - 1296)] /\
      rd_sample_offset Dbg rc 2 1 = Ok (1497 - 1300) /\
      map (rdA 1) [1; 2; 3; 4] = [smp 0 1000 0%Z [11; 12; 13]; smp 1000 1000 0%Z [21; 22]; smp 2000 512 0%Z [41; 42]; Err EData] /\
      map (rdC 1) [1; 2; 3; 4] = map (rdA 1) [1; 2; 3; 4] /\
      map (rdB 1) [1; 2; 3; 4] = [smp 0 1000 0%Z [0; 0; 0]; smp 1000 1000 0%Z [17; 109]; smp 2000 512 0%Z [41; 42]; Err EData] /\
      map (rdA 2) [0; 1; 2] = [Err EData; smp 7 300 (-1)%Z [31; 32; 33; 34]; Err EData] /\
      map (rdC 2) [0; 1; 2] = map (rdA 2) [0; 1; 2] /\
      map (rdB 2) [0; 1; 2] = [Err EData; smp 7 300 (-1)%Z [100; 97; 116; 11]; Err EData]
  | _, _, _ => False
  end.
Proof. vm_compute. repeat split; reflexivity. Qed.

(** the specification side on the example: every fragment list is consistent with the trex default 512 *)
Example C12_frag_ex_spec :
  frag_consistent (file_fragruns 1 (tl_moofs 0 exf_A)) 512 = true /\ frag_consistent (file_fragruns 2 (tl_moofs 0 exf_A)) 512 = true /\
  frag_consistent (file_fragruns 1 (tl_moofs 0 exf_B)) 512 = true /\ frag_consistent (file_fragruns 2 (tl_moofs 0 exf_B)) 512 = true /\
  frag_expand (file_fragruns 1 (tl_moofs 0 exf_A)) 512 = [(1492, 3, 0, 1000, 0%Z); (1495, 2, 1000, 1000, 0%Z); (1672, 2, 2000, 512, 0%Z)] /\
  frag_expand (file_fragruns 1 (tl_moofs 0 exf_B)) 512 = [(1551, 3, 0, 1000, 0%Z); (1554, 2, 1000, 1000, 0%Z); (1711, 2, 2000, 512, 0%Z)] /\
  (* what follows the two moofs: [A] and [B] agree on 3 bytes (the first moof: the header form differs) and on the
     whole rest of the file (the second moof) *)
  map (fun p => lenN (common_prefix (fst p) (snd p))) (combine (tl_tails exf_A) (tl_tails exf_B)) = [3; 134].
Proof. vm_compute. repeat split; reflexivity. Qed.

(** the theorems instantiated on [A] and [B]: their hypotheses are satisfiable; the conclusion talks about the
    third sample of track 1 (in the second moof: displacement 39, the same bytes) *)
Example C12_frag_ex_theorems_apply : exists ra rb,
  (exists fuel, fst (run (open_fuel fuel Dbg (lenN (tl_bytes exf_A))) (stream_at (tl_bytes exf_A) 0)) = Ok ra) /\
  (exists fuel, fst (run (open_fuel fuel Rel (lenN (tl_bytes exf_B))) (stream_at (tl_bytes exf_B) 0)) = Ok rb) /\
  rd_moov ra = rd_moov rb /\ rd_moofs ra = rd_moofs rb /\
  rd_sample_count ra 1 = Ok 3 /\ rd_sample_count rb 1 = Ok 3 /\
  rd_sample_offset Rel ra 1 3 = Ok 1672 /\ rd_sample_offset Rel rb 1 3 = Ok (1672 + 39) /\
  fst (run (rd_read_sample Rel ra 1 3) (stream_at (tl_bytes exf_A) 0))
  = fst (run (rd_read_sample Rel rb 1 3) (stream_at (tl_bytes exf_B) 7)).
Proof.
  destruct exf_wf as (WA & WB & _).
  destruct C12_frag_ex_files as (Hlog & _).
  destruct (C12_frag_opens Dbg exf_A _ _ WA) as (ra & Ha). destruct (C12_frag_opens Rel exf_B _ _ WB) as (rb & Hb).
  exists ra, rb. split; [exact Ha|]. split; [exact Hb|].
  destruct (C12_frag_layout Dbg Rel exf_A exf_B _ _ _ _ WA WB Hlog ra rb Rel Ha Hb) as (_ & Hmv & Hmf & _ & _ & _ & _ & _ & _ & Htrack).
  split; [exact Hmv|]. split; [exact Hmf|].
  assert (T1 : In (ex9_trak 1) (moov_traks ex9_moov)) by (left; reflexivity).
  destruct C12_frag_ex_spec as (CA & _ & CB & _ & EA & EB & _).
  pose proof (C12_frag_layout_spec Dbg Rel exf_A exf_B _ _ _ _ WA WB Hlog ra rb Rel (ex9_trak 1) Ha Hb T1) as Hspec.
  change (trak_id (ex9_trak 1)) with 1 in Hspec. change (moov_default_sample_duration ex9_moov) with 512 in Hspec.
  cbv zeta in Hspec. rewrite EA, EB in Hspec.
  destruct Hspec as (SA & SB & _ & Hj); [intros E; rewrite E in EA; discriminate EA | exact CA | exact CB |].
  split; [exact SA|]. split; [exact SB|].
  destruct (Hj 3) as (oa & ob & sz & st & du & ct & n & mf & tf & pa & pb & NA & NB & OA & OB & _); [vm_compute; split; discriminate|].
  change (nthN [(1492, 3, 0, 1000, 0%Z); (1495, 2, 1000, 1000, 0%Z); (1672, 2, 2000, 512, 0%Z)] (3 - 1))
    with (Some (1672, 2, 2000, 512, 0%Z)) in NA.
  change (nthN [(1551, 3, 0, 1000, 0%Z); (1554, 2, 1000, 1000, 0%Z); (1711, 2, 2000, 512, 0%Z)] (3 - 1))
    with (Some (1711, 2, 2000, 512, 0%Z)) in NB.
  injection NA as <- <- <- <- <-. injection NB as <-.
  split; [exact OA|]. split; [exact OB|].
  (* the sample bytes: the second moof, with what follows it *)
  assert (Hget : exists ta, tracks_get 1 (rd_tracks ra) = Some ta).
  { unfold rd_sample_offset in OA. destruct (tracks_get 1 (rd_tracks ra)) as [ta|]; [eauto | discriminate OA]. }
  destruct Hget as (ta & Hga).
  assert (Hsz : Track.sample_size (track_view ta) 3 = Ok 2).
  { destruct (C12_frag_open Dbg exf_A _ _ WA) as (r & Hopen & _ & _ & _ & _ & _ & _ & _ & Htr).
    assert (ra = r) by (apply (tl_opens_unique Dbg exf_A r ra Hopen Ha)). subst r.
    destruct (Htr _ T1) as (t' & Hg' & _ & Hv). change (trak_id (ex9_trak 1)) with 1 in Hg', Hv.
    rewrite Hga in Hg'. injection Hg' as <-. rewrite Hv. vm_compute. reflexivity. }
  apply (C12_frag_layout_read Dbg Rel exf_A exf_B _ _ _ _ WA WB Hlog ra rb Rel 1 3 1672 1711 2 ta 1%nat
           (ex9_moof2 ex9_x2) (ex9_moof2 ex9_x2) 1540 1579
           (tl_bytes [TMoof false (ex9_moof2 ex9_x2); TMdat true ex9_media2])
           (tl_bytes [TMoof false (ex9_moof2 ex9_x2); TMdat true ex9_media2]) 0 7 Ha Hb OA OB Hga Hsz);
    try (vm_compute; reflexivity); vm_compute; discriminate.
Qed.
Print Assumptions C12_frag_ex_theorems_apply.
