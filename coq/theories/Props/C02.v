(** Property C02 — the muxer's output is valid and self-consistent (theorems; proofs in Proofs/MuxInv.v) *)
From MP4 Require Import Writer SampleTable IsoFile MuxProofs MuxInv.
Open Scope list_scope.
Open Scope N_scope.

(** For every run of the muxer model that returns [Ok] (no size bound is needed here):
    - every track's tables pass the independent validator [track_tables_ok] for exactly the accepted samples
      and their summed duration; mdhd duration = summed duration; tkhd duration = floor(mdhd * movie timescale
      / track timescale), saturated at u64::MAX ([tkhd_sat]);
    - every chunk extent of every track lies inside the mdat payload [mdat_pos + 16, end of output];
    - the chunk extents of all tracks are pairwise disjoint;
    - mvhd duration = the largest tkhd duration. *)
Definition C02_statement : Prop := forall m base cfg ops cls f,
  run_mux m base cfg ops = Ok (cls, f) -> ops_typed ops = true ->
  (forall i tf, nth_error (mf_tracks f) i = Some tf ->
     let ss := accepted_samples ops cls (N.of_nat i + 1) in
     track_tables_ok (tf_tables tf) (lenN ss) (sumN (map ws_duration ss)) = true /\
     wh_mdhd_duration (tf_hdr tf) = sumN (map ws_duration ss) /\
     wh_tkhd_duration (tf_hdr tf) =
       tkhd_sat (wh_mdhd_duration (tf_hdr tf)) (mf_mvhd_timescale f) (tc_timescale (tf_conf tf))) /\
  forallb (forallb (within (mf_mdat_pos f + 16) (mf_base f + lenN (mf_out f)))) (map track_extents (mf_tracks f)) = true /\
  pairwise_disjoint (concat (map track_extents (mf_tracks f))) = true /\
  mf_mvhd_duration f = fold_left N.max (map (fun tf => wh_tkhd_duration (tf_hdr tf)) (mf_tracks f)) 0.

Theorem C02_valid_output : C02_statement.
Proof. exact mux_valid. Qed.
Print Assumptions C02_valid_output.

(** the chunks tile the payload exactly: headers + chunk lengths = output length (with disjointness: no gaps) *)
Theorem C02_chunks_cover_payload : forall m base cfg ops cls f,
  run_mux m base cfg ops = Ok (cls, f) -> ops_typed ops = true ->
  mf_base f + lenN (mf_out f) = mf_mdat_pos f + 16 + sumN (map snd (concat (map track_extents (mf_tracks f)))).
Proof. exact mux_extents_cover. Qed.
Print Assumptions C02_chunks_cover_payload.

(** version-0 headers are only used for durations that fit 32 bits *)
Theorem C02_header_versions : forall m base cfg ops cls f,
  run_mux m base cfg ops = Ok (cls, f) -> ops_typed ops = true ->
  ((mf_mvhd_version f =? 1) || (mf_mvhd_duration f <? U32)) = true /\
  forall i tf, nth_error (mf_tracks f) i = Some tf ->
    ((wh_mdhd_version (tf_hdr tf) =? 1) || (wh_mdhd_duration (tf_hdr tf) <? U32)) = true /\
    ((wh_tkhd_version (tf_hdr tf) =? 1) || (wh_tkhd_duration (tf_hdr tf) <? U32)) = true.
Proof. exact mux_versions. Qed.
Print Assumptions C02_header_versions.

(** with the size bound, the tables are also [consistent] in the sense of the sample-table specification *)
Theorem C02_tables_consistent : forall m base cfg ops cls f,
  run_mux m base cfg ops = Ok (cls, f) -> ops_typed ops = true -> history_fits base cfg ops cls = true ->
  forall i tf, nth_error (mf_tracks f) i = Some tf -> consistent (tf_tables tf) = true.
Proof. exact mux_consistent. Qed.
Print Assumptions C02_tables_consistent.

(** ** Non-vacuity on the concrete history of [MuxInv.ex_ops] (two interleaved tracks, zero-length samples,
      size switch, late ctts, non-sync samples, four rejected calls) *)
Example C02_ex_runs : exists f, run_mux Dbg 100 ex_cfg ex_ops = Ok (ex_cls, f) /\ ops_typed ex_ops = true.
Proof. eexists. split; vm_compute; reflexivity. Qed.

Example C02_ex_extents :
  match run_mux Dbg 100 ex_cfg ex_ops with
  | Ok (_, f) =>
      map track_extents (mf_tracks f) = [[(140, 6); (150, 1); (151, 0)]; [(146, 4); (151, 0)]] /\
      mf_mdat_pos f + 16 = 140 /\ mf_base f + lenN (mf_out f) = 151 /\
      map (fun tf => (wh_mdhd_duration (tf_hdr tf), wh_tkhd_duration (tf_hdr tf))) (mf_tracks f) = [(2300, 2300); (72000, 1500)] /\
      mf_mvhd_duration f = 2300 /\
      map (fun tf => t_stsc (tf_tables tf)) (mf_tracks f)
        = [[mkStsc 1 2 1 1; mkStsc 3 1 1 6]; [mkStsc 1 2 1 1; mkStsc 2 1 1 4]]
  | _ => False
  end.
Proof. vm_compute. repeat split; reflexivity. Qed.

(** the validator is not trivially true: it rejects the same tables with one sample dropped from the count *)
Example C02_ex_validator_discriminates :
  match run_mux Dbg 100 ex_cfg ex_ops with
  | Ok (_, f) => map (fun tf => (track_tables_ok (tf_tables tf) 5 2300, track_tables_ok (tf_tables tf) 4 2300,
                                 track_tables_ok (tf_tables tf) 5 2299)) (mf_tracks f)
                 = [(true, false, false); (false, false, false)]
  | _ => False
  end.
Proof. vm_compute. reflexivity. Qed.
