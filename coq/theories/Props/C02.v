(** Property C02 — theorems (proofs in Proofs/MuxProofs.v); extended as the proof development grows *)
From MP4 Require Import Writer MuxProofs.
