(** * Property C07 — parsing always terminates, with work linear in the input length

    "Opening any input of n bytes completes after a number of stream operations, bytes
    transferred and CPU time bounded by a fixed linear function of n; no input makes the reader
    loop without consuming input.  Each subsequent sample read or accessor call likewise completes
    within work bounded linearly in n plus the sample's size."

    Statements only; proofs in [Base/Cost.v] (the metered Hoare logic), [Proofs/CostLeaf*.v]
    (leaf decoders), [Proofs/CostLoop.v] (the child-box loop), [Proofs/CostCont.v],
    [Proofs/CostBoxes.v], [Proofs/CostMp4a.v], [Proofs/CostTree*.v] (containers by nesting level),
    [Proofs/CostOpen.v], [Proofs/CostSample.v].

    Reading the statements:
    - [runm c s (meter0 None)] interprets the model [c] of a library call on the stream [s] with
      all meters at zero and no I/O fault armed; it returns the result, the final stream and the
      meters: [m_ops] stream calls ([read_exact] of a nonzero length, [seek], [stream_position]),
      [m_bytes] bytes moved by reads, [m_steps] iterations of loops that touch no stream.
    - the model's loops carry fuel, one unit per iteration; [OutOfFuel] is the result when it runs
      out.  "Terminates" is: with [fuel > n] (any such fuel) the result is never [OutOfFuel] —
      the loops of the Rust code end after at most that many iterations.  The nested descriptor
      loops of esds run on fuel computed from their own (clamped) size, not on the reader's.
    - [bytes_ok data = true]: the list elements are bytes; [lenN data < 2^62]: positions are
      computed in [u64] by the Rust code.  The size argument of [read_header] is the true length.
    - the constants are explicit numerals: [open_A = 1224006895716], [open_B = 4800051000].  They
      are generous (the constant bound of avcC, 18 750 000 for its up to 288 NAL units of up to
      65 535 bytes, is doubled or quadrupled at each of the eight nesting levels).
    - what the meters do NOT see: the CPU work of the pure sample-table lookups that precede the
      seek of [read_sample] (they are total functions of the parsed tables in the model, finding D53
      is about their cost) and of the accessors.  The sample read is therefore stated for the stream
      work, the allocation and termination. *)
From MP4 Require Import Cost Reader CostLoop CostOpen CostSample CostProps CostWitness.
From MP4 Require Track.
Open Scope list_scope.
Open Scope N_scope.

Definition C07_statement : Prop :=
  (* opening a file *)
  (forall data m fuel, bytes_ok data = true -> lenN data < 2 ^ 62 -> lenN data < N.of_nat fuel ->
     let '(r, _, mt) := runm (open_fuel fuel m (lenN data)) (stream_at data 0) (meter0 None) in
     r <> OutOfFuel /\ linear_open_bound (lenN data) mt)
  (* opening further fragments against an opened file *)
  /\ (forall data m rd fuel, bytes_ok data = true -> lenN data < 2 ^ 62 -> lenN data < N.of_nat fuel ->
     let '(r, _, mt) := runm (open_fragment_fuel fuel m rd (lenN data)) (stream_at data 0) (meter0 None) in
     r <> OutOfFuel /\ linear_open_bound (lenN data) mt)
  (* reading a sample: two stream calls, at most the sample's bytes, which exist in the input *)
  /\ (forall m rd tid sid data p,
     let '(r, _, mt) := runm (rd_read_sample m rd tid sid) (stream_at data p) (meter0 None) in
     r <> OutOfFuel /\ m_ops mt <= 2 /\ m_bytes mt <= lenN data /\ m_steps mt = 0
     /\ (forall t sz, tracks_get tid (rd_tracks rd) = Some t ->
                      Track.sample_size (track_view t) sid = Ok sz -> m_bytes mt <= sz)).

Theorem C07 : C07_statement.
Proof. exact c07_all. Qed.
Print Assumptions C07.

(** ** The parts, by name *)
Theorem C07_open_terminates : forall data m fuel,
  bytes_ok data = true -> lenN data < 2 ^ 62 -> lenN data < N.of_nat fuel ->
  fst (fst (runm (open_fuel fuel m (lenN data)) (stream_at data 0) (meter0 None))) <> OutOfFuel.
Proof. exact open_terminates. Qed.

Theorem C07_open_cost : forall data m fuel,
  bytes_ok data = true -> lenN data < 2 ^ 62 -> lenN data < N.of_nat fuel ->
  let mt := snd (runm (open_fuel fuel m (lenN data)) (stream_at data 0) (meter0 None)) in
  m_ops mt <= open_A * lenN data + open_B
  /\ m_bytes mt <= open_A * lenN data + open_B
  /\ m_steps mt <= open_A * lenN data + open_B
  /\ m_alloc_max mt <= open_Al * lenN data + open_Bl
  /\ m_alloc_sum mt <= open_Al * lenN data + open_Bl.
Proof. exact open_cost. Qed.

Theorem C07_read_sample_terminates : forall m r tid sid data p,
  fst (fst (runm (rd_read_sample m r tid sid) (stream_at data p) (meter0 None))) <> OutOfFuel.
Proof. exact read_sample_terminates. Qed.

(** "no input makes the reader loop without consuming input": in every child-box loop, a child
    whose decoder keeps its contract leaves the stream at least [max 1 s] bytes after the position
    of its header (zero-size headers break the loop) *)
Theorem C07_loop_progress : forall d, bytes_ok d = true -> lenN d < 2 ^ 62 ->
  forall (Acc R : Type) (size : N) (dispatch : nat -> N -> boxtype -> N -> Acc -> prog Acc),
  (Acc -> N -> R) -> forall a b al bl : N, size < 2 ^ 62 ->
  (forall f cur name s acc p, p = cur + 8 \/ p = cur + 16 -> p <= lenN d -> 1 <= s -> s <= size ->
     fuel_ok d f p -> ispec d (dispatch f cur name s acc) p s (a * s + b) (al * s + bl)) ->
  forall f cur name s acc p r p' k,
  p = cur + 8 \/ p = cur + 16 -> p <= lenN d -> 1 <= s -> s <= size -> fuel_ok d f p ->
  mrun (dispatch f cur name s acc) d p = (Ok r, p', k) -> cur + s <= p' /\ cur + 1 <= p'.
Proof. exact loop_progress. Qed.

(** ** Non-vacuity: the meters of concrete runs *)

(** the 885-byte test file of Reader.v opens with fuel 886: 334 stream calls, 811 bytes, 1 step *)
Example C07_open_test_file :
  let data := reader_test_file in
  let '(r, _, mt) := runm (open_fuel 886 Dbg (lenN data)) (stream_at data 0) (meter0 None) in
  lenN data = 885 /\ is_ok r = true /\ m_ops mt = 334 /\ m_bytes mt = 811 /\ m_steps mt = 1
  /\ linear_open_bound (lenN data) mt.
Proof. vm_compute. repeat split; intros H; discriminate H. Qed.

(** ... and with one unit of fuel it does not: the fuel is what bounds the iterations *)
Example C07_fuel_matters :
  fst (fst (runm (open_fuel 1 Dbg (lenN reader_test_file)) (stream_at reader_test_file 0) (meter0 None)))
  = OutOfFuel.
Proof. vm_compute. reflexivity. Qed.

(** reading sample 2 of track 1 (20 bytes at offset 58): one seek, one read *)
Example C07_read_sample_test_file :
  match fst (fst (runm (open_fuel 886 Dbg 885) (stream_at reader_test_file 0) (meter0 None))) with
  | Ok rd =>
      let '(r, _, mt) := runm (rd_read_sample Dbg rd 1 2) (stream_at reader_test_file 0) (meter0 None) in
      is_ok r = true /\ m_ops mt = 2 /\ m_bytes mt = 20 /\ m_steps mt = 0
  | _ => False
  end.
Proof. vm_compute. repeat split; reflexivity. Qed.

(** the family that was quadratic before the esds fix (62 516 calls at 3 120 bytes) is linear now *)
Example C07_esds_family :
  open_ops (esds_witness 5 384) = 251 /\ open_ops (esds_witness 10 770) = 486
  /\ open_ops (esds_witness 20 1540) = 956.
Proof. vm_compute. repeat split; reflexivity. Qed.
