(** Property C07 — placeholder until the cost proofs land *)
From MP4 Require Import Loop.
