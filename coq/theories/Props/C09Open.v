(** * Property C09 at the level of FILES — fragmented sample lookup from BYTES

    [Props/C09.v] states the fragment branches of the lookups on the VIEW of a track (a list of
    [fragrun]s).  Here the starting point is the BYTES of a fragmented file, one stream:

      ftyp  moov  (moof  mdat)*

    rendered by the ISO layouts ([iso_ftyp_payload], [iso_moov_payload], [iso_moof_payload]) for a
    well-formed [ftyp], a well-formed [moov] value [v] (distinct non-zero track ids; its traks may hold
    any sample tables) and well-formed [moof] values; every box with either header form (32-bit size, or
    [size == 1] + 64-bit largesize); any media bytes.  Proofs: [Proofs/FragFile.v].

    - [fragmented_file_open]: [open_fuel] (the model of [Mp4Reader::read_header]) on those bytes, from
      position 0, with the true length and enough fuel, consumes the whole stream and returns a reader [r]
      with [rd_moov r = v], [rd_moofs r] = the moof values in file order, one track per trak of [v], and the
      lookup view of the track of id [k] holds as its fragments exactly
        [file_fragruns k mps] = [traf_fragrun traf off] for every traf naming [k], in file order,
      [off] being the byte position of the enclosing moof box in the file ([moof_positions_are_positions]),
      and as its default sample duration the trex default of [v] (when the track has a fragment at all:
      [Mp4Reader::read_header] sets the field only when it attaches a traf; without fragments it is never read).
    - [fragmented_file_unknown_track]: a traf naming a track [v] does not have makes [read_header] fail
      (TrakNotFound), after it has read the whole file.
    - [fragmented_file_lookup]: hence, by [frag_lookup_sound] / [frag_read_sample_sound] of C09, whenever the
      fragment list of a track is [frag_consistent] with the trex default, [rd_sample_count],
      [rd_sample_offset], [rd_read_sample] on [r] return exactly [frag_expand]: count; offset; and the sample
      with start time, duration, composition offset and the bytes [file[off .. off+sz)]; a sample number
      outside [1..count] and a track id [v] does not have are answered with an error, never a sample.
      The lookups take the fragment branch as soon as the track has one traf ([Track.v] branches on
      [tr_frags t]); the sample tables of the trak are then not consulted, so nothing is asked of them. *)
From MP4 Require Import Reader Fragment FragFile MuxOpenKit LayoutKit RtMoov RtMoof IsoFile.
From Coq Require Import List NArith ZArith Lia.
Import ListNotations.
Open Scope list_scope.
Open Scope N_scope.

(** the [i]-th entry of [ff_moofs] (the moofs of the file with the offsets [read_header] records for them) is
    the [i]-th moof value with the number of bytes of the file that precede its box *)
Theorem moof_positions_are_positions : forall wf wv ft v frags i g,
  nth_error frags i = Some g ->
  exists q pre post,
    nth_error (ff_moofs wf wv ft v frags) i = Some (fg_moof g, q) /\
    ff_bytes wf wv ft v frags = pre ++ c_bytes (fg_moof_child g) ++ post /\ lenN pre = q.
Proof. exact ff_moof_position. Qed.
Print Assumptions moof_positions_are_positions.

Theorem fragmented_file_open : forall m (wf wv : bool) (ft : ftyp) (v : moov) (frags : list fragment),
  ftyp_wf ft = true -> ftyp_size ft < U32 ->
  moov_rt_wf v = true -> moov_size v < U32 ->
  Forall fragment_ok frags ->          (* moof_rt_wf, moof_size < 2^32, a 32-bit mdat header only for less than 2^32 - 8 bytes *)
  lenN (ff_bytes wf wv ft v frags) < 2 ^ 63 ->
  NoDup (map trak_id (moov_traks v)) -> ~ In 0 (map trak_id (moov_traks v)) ->
  (forall g tf, In g frags -> In tf (moof_trafs (fg_moof g)) -> In (traf_tid tf) (map trak_id (moov_traks v))) ->
  let b := ff_bytes wf wv ft v frags in
  let mps := ff_moofs wf wv ft v frags in
  exists r,
    (forall fuel, (ff_fuel v frags <= fuel)%nat ->
       run (open_fuel fuel m (lenN b)) (stream_at b 0) = (Ok r, stream_at b (lenN b))) /\
    rd_ftyp r = ft /\ rd_moov r = v /\ rd_moofs r = map fg_moof frags /\ rd_emsgs r = [] /\ rd_size r = lenN b /\
    map fst (rd_tracks r) = map trak_id (moov_traks v) /\
    (forall k, ~ In k (map trak_id (moov_traks v)) -> tracks_get k (rd_tracks r) = None) /\
    forall t, In t (moov_traks v) ->
      exists t', tracks_get (trak_id t) (rd_tracks r) = Some t' /\ mt_trak t' = t /\
        track_view t' = Track.mkTrack (trak_id t) (stbl_tables (minf_stbl (mdia_minf (trak_mdia t))))
                                      (file_fragruns (trak_id t) mps)
                                      (match file_fragruns (trak_id t) mps with
                                       | [] => 0
                                       | _ => moov_default_sample_duration v
                                       end).
Proof. exact ff_open. Qed.
Print Assumptions fragmented_file_open.

Theorem fragmented_file_unknown_track : forall m (wf wv : bool) (ft : ftyp) (v : moov) (frags : list fragment),
  ftyp_wf ft = true -> ftyp_size ft < U32 ->
  moov_rt_wf v = true -> moov_size v < U32 ->
  Forall fragment_ok frags ->
  lenN (ff_bytes wf wv ft v frags) < 2 ^ 63 ->
  NoDup (map trak_id (moov_traks v)) -> ~ In 0 (map trak_id (moov_traks v)) ->
  (exists g tf, In g frags /\ In tf (moof_trafs (fg_moof g)) /\ ~ In (traf_tid tf) (map trak_id (moov_traks v))) ->
  let b := ff_bytes wf wv ft v frags in
  forall fuel, (ff_fuel v frags <= fuel)%nat ->
    run (open_fuel fuel m (lenN b)) (stream_at b 0) = (Err EData, stream_at b (lenN b)).
Proof. exact ff_open_unknown_track. Qed.
Print Assumptions fragmented_file_unknown_track.

Theorem fragmented_file_lookup : forall m (wf wv : bool) (ft : ftyp) (v : moov) (frags : list fragment),
  ftyp_wf ft = true -> ftyp_size ft < U32 ->
  moov_rt_wf v = true -> moov_size v < U32 ->
  Forall fragment_ok frags ->
  lenN (ff_bytes wf wv ft v frags) < 2 ^ 63 ->
  NoDup (map trak_id (moov_traks v)) -> ~ In 0 (map trak_id (moov_traks v)) ->
  (forall g tf, In g frags -> In tf (moof_trafs (fg_moof g)) -> In (traf_tid tf) (map trak_id (moov_traks v))) ->
  forall m',                           (* the build mode of the lookups; [m] is the build mode of [read_header] *)
  let b := ff_bytes wf wv ft v frags in
  let mps := ff_moofs wf wv ft v frags in
  let d := moov_default_sample_duration v in
  exists r,
    (forall fuel, (ff_fuel v frags <= fuel)%nat ->
       run (open_fuel fuel m (lenN b)) (stream_at b 0) = (Ok r, stream_at b (lenN b))) /\
    rd_moov r = v /\ rd_moofs r = map fg_moof frags /\
    (forall k, ~ In k (map trak_id (moov_traks v)) ->
       rd_sample_count r k = Err EData /\ forall j s, run (rd_read_sample m' r k j) s = (Err EData, s)) /\
    forall t, In t (moov_traks v) ->
      let k := trak_id t in
      let fs := file_fragruns k mps in
      fs <> [] -> frag_consistent fs d = true ->
      rd_sample_count r k = Ok (lenN (frag_expand fs d)) /\
      lenN (frag_expand fs d) = sumN (map Track.fr_sample_count fs) /\
      (forall j, 1 <= j <= lenN (frag_expand fs d) ->
         exists off sz st du ct,
           nthN (frag_expand fs d) (j - 1) = Some (off, sz, st, du, ct) /\
           rd_sample_offset m' r k j = Ok off /\
           (lenN fs < U32 ->           (* the number of track fragments fits the u32 the code casts it to *)
            off + sz <= lenN b ->      (* the sample lies inside the file *)
            forall pos, exists sync,
              fst (run (rd_read_sample m' r k j) (stream_at b pos))
              = Ok (Some (Track.mkSample st du ct sync (firstn (N.to_nat sz) (skipn (N.to_nat off) b)))))) /\
      (forall j, j = 0 \/ lenN (frag_expand fs d) < j ->
         forall s, run (rd_read_sample m' r k j) s = (Err EData, s)).
Proof. exact ff_lookup. Qed.
Print Assumptions fragmented_file_lookup.

(** ** Non-vacuity: a file with two tracks and two fragments *)
Definition ex9_trak (id : N) : trak :=
  mkTrak (mkTkhd 0 tkhd_TrackEnabled 0 0 id 300 0 0 (fp8_new 1) matrix_default (fp16_new 320) (fp16_new 240))
         (trak_edts trak_test) None mdia_test.
Definition ex9_ftyp : ftyp := mkFtyp 0x69736f6d 512 [0x69736f6d; 0x61766331].
(** trex default sample duration 512; the traks hold the (non-empty) sample tables of [trak_test] *)
Definition ex9_moov : moov :=
  mkMoov mvhd_default None (Some (mkMvex None (mkTrex 0 0 1 1 512 0 0))) [ex9_trak 1; ex9_trak 2] None.

Definition ex9_tfhd (id : N) (dur : option N) : tfhd :=
  mkTfhd 0 ((match dur with Some _ => tfhd_FLAG_DEFAULT_SAMPLE_DURATION | None => 0 end) + tfhd_FLAG_DEFAULT_BASE_IS_MOOF)
         id None None dur None None.

(** first fragment: two samples of track 1 (3 and 2 bytes, tfhd default duration), one sample of track 2
    (4 bytes, per-sample duration, composition offset -1); [x]: the data offset of the first run *)
Definition ex9_moof1 (x : Z) : moof :=
  mkMoof (mkMfhd 0 0 1)
    [ mkTraf (ex9_tfhd 1 (Some 1000)) (Some (mkTfdt 1 0 0))
        (Some (mkTrun 0 (trun_FLAG_DATA_OFFSET + trun_FLAG_SAMPLE_SIZE) 2 (Some x) None [] [3; 2] [] []));
      mkTraf (ex9_tfhd 2 None) (Some (mkTfdt 0 0 7))
        (Some (mkTrun 1 (trun_FLAG_DATA_OFFSET + trun_FLAG_SAMPLE_DURATION + trun_FLAG_SAMPLE_SIZE + trun_FLAG_SAMPLE_CTS) 1
                      (Some (x + 5)%Z) None [300] [4] [] [4294967295])) ].
(** the media data follows the moof box and the 8-byte mdat header *)
Definition ex9_x1 : Z := Z.of_N (moof_size (ex9_moof1 0) + 8).
Definition ex9_media1 : bytes := [11; 12; 13; 21; 22; 31; 32; 33; 34].

(** second fragment: a traf of track 2 WITHOUT a run, then one sample of track 1 (2 bytes, trex default
    duration); its mdat has the 16-byte header *)
Definition ex9_moof2 (x : Z) : moof :=
  mkMoof (mkMfhd 0 0 2)
    [ mkTraf (ex9_tfhd 2 None) None None;
      mkTraf (ex9_tfhd 1 None) (Some (mkTfdt 1 0 2000))
        (Some (mkTrun 0 (trun_FLAG_DATA_OFFSET + trun_FLAG_SAMPLE_SIZE) 1 (Some x) None [] [2] [] [])) ].
Definition ex9_x2 : Z := Z.of_N (moof_size (ex9_moof2 0) + 16).
Definition ex9_media2 : bytes := [41; 42].

Definition ex9_frags : list fragment :=
  [ mkFragment (ex9_moof1 ex9_x1) false false ex9_media1; mkFragment (ex9_moof2 ex9_x2) false true ex9_media2 ].

Definition ex9_file : bytes := ff_bytes false false ex9_ftyp ex9_moov ex9_frags.
Definition ex9_mps : list (moof * N) := ff_moofs false false ex9_ftyp ex9_moov ex9_frags.

(** the file is what the encoders write (the second mdat with the 64-bit header form) *)
Example ex9_file_is_encoder_output :
  ex9_file = wout (enc_ftyp ex9_ftyp) ++ wout (enc_moov Dbg ex9_moov)
             ++ wout (enc_moof (ex9_moof1 ex9_x1)) ++ be 4 (8 + 9) ++ be 4 MDAT ++ ex9_media1
             ++ wout (enc_moof (ex9_moof2 ex9_x2)) ++ be 4 1 ++ be 4 MDAT ++ be 8 (16 + 2) ++ ex9_media2.
Proof. vm_compute. reflexivity. Qed.

(** the hypotheses of the theorems hold *)
Lemma ex9_hyps :
  ftyp_wf ex9_ftyp = true /\ ftyp_size ex9_ftyp < U32 /\ moov_rt_wf ex9_moov = true /\ moov_size ex9_moov < U32 /\
  Forall fragment_ok ex9_frags /\ lenN (ff_bytes false false ex9_ftyp ex9_moov ex9_frags) < 2 ^ 63 /\
  NoDup (map trak_id (moov_traks ex9_moov)) /\ ~ In 0 (map trak_id (moov_traks ex9_moov)) /\
  (forall g tf, In g ex9_frags -> In tf (moof_trafs (fg_moof g)) -> In (traf_tid tf) (map trak_id (moov_traks ex9_moov))).
Proof.
  split; [vm_compute; reflexivity|]. split; [vm_compute; reflexivity|]. split; [vm_compute; reflexivity|].
  split; [vm_compute; reflexivity|]. split.
  { repeat constructor; try (vm_compute; reflexivity); intros H; try discriminate H; vm_compute; reflexivity. }
  split; [vm_compute; reflexivity|]. split.
  { change (map trak_id (moov_traks ex9_moov)) with [1; 2]. repeat constructor; cbn [In]; intros H; repeat destruct H as [H|H]; try discriminate H; exact H. }
  split.
  { change (map trak_id (moov_traks ex9_moov)) with [1; 2]. cbn [In]. intros H; repeat destruct H as [H|H]; try discriminate H; exact H. }
  change (map trak_id (moov_traks ex9_moov)) with [1; 2].
  intros g tf Hg Htf. unfold ex9_frags in Hg. cbn [In] in Hg. destruct Hg as [<-|[<-|[]]]; cbn [fg_moof ex9_moof1 ex9_moof2 moof_trafs In] in Htf;
    destruct Htf as [<-|[<-|[]]]; vm_compute; auto.
Qed.

(** the recorded moof offsets, the fragments of the two tracks as the lookups see them (the second fragment of
    track 2 is the traf without a run), and what the specification says about them *)
Example ex9_spec :
  lenN ex9_file = 1635 /\ map snd ex9_mps = [1312; 1501] /\
  map Track.fr_moof_offset (file_fragruns 1 ex9_mps) = [1312; 1501] /\
  map Track.fr_has_trun (file_fragruns 2 ex9_mps) = [true; false] /\
  frag_consistent (file_fragruns 1 ex9_mps) 512 = true /\
  frag_consistent (file_fragruns 2 ex9_mps) 512 = true /\
  frag_expand (file_fragruns 1 ex9_mps) 512 = [(1492, 3, 0, 1000, 0%Z); (1495, 2, 1000, 1000, 0%Z); (1633, 2, 2000, 512, 0%Z)] /\
  frag_expand (file_fragruns 2 ex9_mps) 512 = [(1497, 4, 7, 300, (-1)%Z)].
Proof. vm_compute. repeat split; reflexivity. Qed.

(** the model run on the bytes agrees *)
Example ex9_run :
  match fst (run (open_fuel (ff_fuel ex9_moov ex9_frags) Dbg (lenN ex9_file)) (stream_at ex9_file 0)) with
  | Ok r =>
      rd_moov r = ex9_moov /\ rd_moofs r = map fg_moof ex9_frags /\
      rd_sample_count r 1 = Ok 3 /\ rd_sample_count r 2 = Ok 1 /\ rd_sample_count r 3 = Err EData /\
      map (rd_sample_offset Dbg r 1) [1; 2; 3] = [Ok 1492; Ok 1495; Ok 1633] /\
      map (fun j => fst (run (rd_read_sample Rel r 1 j) (stream_at ex9_file 5))) [1; 2; 3; 4]
      = [ Ok (Some (Track.mkSample 0 1000 0%Z true [11; 12; 13]));
          Ok (Some (Track.mkSample 1000 1000 0%Z true [21; 22]));
          Ok (Some (Track.mkSample 2000 512 0%Z true [41; 42]));
          Err EData ] /\
      map (fun j => fst (run (rd_read_sample Dbg r 2 j) (stream_at ex9_file 0))) [0; 1; 2]
      = [ Err EData; Ok (Some (Track.mkSample 7 300 (-1)%Z true [31; 32; 33; 34])); Err EData ]
  | _ => False
  end.
Proof. vm_compute. repeat split; reflexivity. Qed.

(** the theorem instantiated on the example: its hypotheses are satisfiable and its conclusion talks about 4 samples *)
Example ex9_theorem_applies : exists r,
  (forall fuel, (32 <= fuel)%nat ->
     run (open_fuel fuel Dbg (lenN ex9_file)) (stream_at ex9_file 0) = (Ok r, stream_at ex9_file (lenN ex9_file))) /\
  rd_sample_count r 1 = Ok 3 /\ rd_sample_count r 2 = Ok 1 /\
  rd_sample_offset Rel r 1 3 = Ok 1633 /\
  exists sync, fst (run (rd_read_sample Rel r 1 3) (stream_at ex9_file 77))
               = Ok (Some (Track.mkSample 2000 512 0%Z sync [41; 42])).
Proof.
  destruct ex9_hyps as (H1 & H2 & H3 & H4 & H5 & H6 & H7 & H8 & H9).
  destruct (fragmented_file_lookup Dbg false false ex9_ftyp ex9_moov ex9_frags H1 H2 H3 H4 H5 H6 H7 H8 H9 Rel)
    as (r & Hopen & _ & _ & _ & Htr).
  exists r. split.
  { intros fuel Hf. apply Hopen. change (ff_fuel ex9_moov ex9_frags) with 32%nat. exact Hf. }
  change (ff_moofs false false ex9_ftyp ex9_moov ex9_frags) with ex9_mps in Htr.
  change (moov_default_sample_duration ex9_moov) with 512 in Htr.
  destruct ex9_spec as (_ & _ & _ & _ & C1 & C2 & E1 & E2).
  assert (T1 : In (ex9_trak 1) (moov_traks ex9_moov)) by (left; reflexivity).
  assert (T2 : In (ex9_trak 2) (moov_traks ex9_moov)) by (right; left; reflexivity).
  destruct (Htr _ T1) as (S1 & _ & L1 & _).
  { change (trak_id (ex9_trak 1)) with 1. intros E. rewrite E in E1. discriminate E1. }
  { exact C1. }
  destruct (Htr _ T2) as (S2 & _).
  { change (trak_id (ex9_trak 2)) with 2. intros E. rewrite E in E2. discriminate E2. }
  { exact C2. }
  change (trak_id (ex9_trak 1)) with 1 in S1, L1. change (trak_id (ex9_trak 2)) with 2 in S2.
  rewrite E1 in S1, L1. rewrite E2 in S2.
  split; [exact S1|]. split; [exact S2|].
  destruct (L1 3) as (off & sz & st & du & ct & Hn & Hoff & Hrd); [vm_compute; split; discriminate|].
  change (nthN [(1492, 3, 0, 1000, 0%Z); (1495, 2, 1000, 1000, 0%Z); (1633, 2, 2000, 512, 0%Z)] (3 - 1))
    with (Some (1633, 2, 2000, 512, 0%Z)) in Hn.
  injection Hn as <- <- <- <- <-.
  split; [exact Hoff|].
  destruct (Hrd) with (pos := 77) as (sync & Hs).
  { vm_compute. reflexivity. }
  { vm_compute. discriminate. }
  exists sync. etransitivity; [exact Hs|]. vm_compute. reflexivity.
Qed.
